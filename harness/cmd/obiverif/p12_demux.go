package main

// C12: demultiplexing (pkg/obingslibrary, pkg/obiformats/ngsfilter_read.go, obimultiplex).
//
// replay: TLC exports, from spec/L3_command/DemuxMC.tla, sample sheets and cases (a read, its reverse
// complement, and for each of the two the list of amplicon records the specification assigns: marker,
// direction, barcode, primer matches, error counts, extracted tags, sample, error flag).  Every sheet
// is written in BOTH accepted file formats (old text format, CSV with @param lines) and read by the real
// obiformats.ReadNGSFilter; every read and its reverse complement go through
// NGSLibrary.ExtractMultiBarcode, and (--opt bin=...) through the `obimultiplex -t sheet -u file`
// binary; the observed records are compared field by field with the exported ones.  Reads the
// specification flags as ambiguous (tied priming sites) are not compared; they are logged as events
// (--opt events=...) so that TLC judges the safety clause on what was observed.
//
// record: seeded random sheets and scenarios beyond the model (primers of 18-25 bases with an IUPAC
// code, tags of 6-8 bases, random barcodes and flanks, primer indels, tag delimiters / rescue) are
// built from pieces, run through the real code on both strands, and logged with the pieces for
// spec/trace/DemuxTrace.tla.  No expected value is computed here.

import (
	"bytes"
	"encoding/json"
	"fmt"
	"math/rand"
	"os"
	"os/exec"
	"path/filepath"
	"reflect"
	"sort"
	"strconv"
	"strings"
	"sync"
	"time"

	"git.metabarcoding.org/obitools/obitools4/obitools4/pkg/obiformats"
	"git.metabarcoding.org/obitools/obitools4/obitools4/pkg/obingslibrary"
	"git.metabarcoding.org/obitools/obitools4/obitools4/pkg/obiseq"
)

func init() {
	register("C12", &driver{replay: c12Replay, record: c12Record})
}

// ------------------------------------------------------------------------------- exported lines

type c12Sample struct {
	Ft   string `json:"ft"`
	Rt   string `json:"rt"`
	Name string `json:"name"`
	Exp  string `json:"exp,omitempty"` // experiment; generated sheets use "e_<name>"
}

type c12Marker struct {
	Fwd     string      `json:"fwd"`
	Rev     string      `json:"rev"`
	Ef      int         `json:"ef"`
	Er      int         `json:"er"`
	Sf      int         `json:"sf"`
	Sr      int         `json:"sr"`
	Samples []c12Sample `json:"samples"`
}

// c12Out: one amplicon record, as exported by the specification / as observed on the real code
type c12Out struct {
	Mk  int    `json:"mk"`
	Dir string `json:"dir"`
	Bc  string `json:"bc"`
	Fm  string `json:"fm"`
	Rm  string `json:"rm"`
	Fe  int    `json:"fe"`
	Re  int    `json:"re"`
	Ft  string `json:"ft"`
	Rt  string `json:"rt"`
	Smp string `json:"smp"`
	Err int    `json:"err"`
}

type c12Line struct {
	K       string      `json:"k"`
	Sheet   int         `json:"sheet"`
	Mode    string      `json:"mode"`
	Indel   int         `json:"indel"`
	Markers []c12Marker `json:"markers"`
	Cls     string      `json:"cls"`
	Read    string      `json:"read"`
	Rc      string      `json:"rc"`
	Amb     int         `json:"amb"`
	Ambrc   int         `json:"ambrc"`
	Pl      int         `json:"pl"`
	Exp     []c12Out    `json:"exp"`
	Exprc   []c12Out    `json:"exprc"`
}

// c12Sheet: a sheet as the drivers handle it (replay: from an exported line; record: generated)
type c12Sheet struct {
	ID        int
	Mode      string
	Indel     bool
	Delim     string // "" or the tag delimiter base
	TagIndels int
	Markers   []c12Marker
	Line      *c12Line // the exported sheet line (replay files carry it)
}

// ------------------------------------------------------------------------------- sheet files

func c12TagField(s c12Sample) string {
	f, r := s.Ft, s.Rt
	if f == r && f != "" {
		return f
	}
	if f == "" {
		f = "-"
	}
	if r == "" {
		r = "-"
	}
	return f + ":" + r
}

func c12Experiment(name string) string { return "e_" + name }

func c12SampleExperiment(s c12Sample) string {
	if s.Exp != "" {
		return s.Exp
	}
	return c12Experiment(s.Name)
}

// the experiment the sheet declares for a sample name
func c12DeclaredExperiment(sh *c12Sheet, mk int, name string) string {
	if mk >= 1 && mk <= len(sh.Markers) {
		for _, s := range sh.Markers[mk-1].Samples {
			if s.Name == name && s.Exp != "" {
				return s.Exp
			}
		}
	}
	return c12Experiment(name)
}

// old text format: experiment sample tags forward reverse F @ [key=value;]  (no parameters)
func c12SheetOld(sh *c12Sheet) string {
	var b strings.Builder
	b.WriteString("# sheet " + strconv.Itoa(sh.ID) + " (old ngsfilter format)\n")
	for _, m := range sh.Markers {
		for i, s := range m.Samples {
			sep := "\t"
			if i%2 == 1 {
				sep = "   "
			}
			fields := []string{c12SampleExperiment(s), s.Name, c12TagField(s), strings.ToUpper(m.Fwd), strings.ToUpper(m.Rev), "F", "@"}
			b.WriteString(strings.Join(fields, sep))
			if i == 0 {
				b.WriteString(" position=" + strconv.Itoa(i+1) + ";")
			}
			b.WriteString("\n")
		}
	}
	return b.String()
}

// CSV format: @param lines, header, one row per sample.  Parameters shared by all primers are written in
// their global form, the others per primer.
func c12SheetCSV(sh *c12Sheet) string {
	var b strings.Builder
	b.WriteString("# sheet " + strconv.Itoa(sh.ID) + " (CSV ngsfilter format)\n")
	same := func(get func(m c12Marker) [2]int) (bool, int) {
		v := get(sh.Markers[0])
		for _, m := range sh.Markers {
			w := get(m)
			if w[0] != v[0] || w[1] != v[0] {
				return false, 0
			}
		}
		return true, v[0]
	}
	sameSide := func(get func(m c12Marker) [2]int) (bool, [2]int) {
		v := get(sh.Markers[0])
		for _, m := range sh.Markers {
			if get(m) != v {
				return false, v
			}
		}
		return true, v
	}
	spacer := func(m c12Marker) [2]int { return [2]int{m.Sf, m.Sr} }
	budget := func(m c12Marker) [2]int { return [2]int{m.Ef, m.Er} }
	if ok, v := same(spacer); ok {
		fmt.Fprintf(&b, "@param,spacer,%d\n", v)
	} else if ok, v := sameSide(spacer); ok {
		fmt.Fprintf(&b, "@param,forward_spacer,%d\n@param,reverse_spacer,%d\n", v[0], v[1])
	} else {
		for _, m := range sh.Markers {
			fmt.Fprintf(&b, "@param,spacer,%s,%d\n@param,spacer,%s,%d\n", strings.ToUpper(m.Fwd), m.Sf, m.Rev, m.Sr)
		}
	}
	if ok, v := same(budget); ok {
		fmt.Fprintf(&b, "@param,primer_mismatches,%d\n", v)
	} else if ok, v := sameSide(budget); ok {
		fmt.Fprintf(&b, "@param,forward_mismatches,%d\n@param,reverse_mismatches,%d\n", v[0], v[1])
	} else {
		for _, m := range sh.Markers {
			fmt.Fprintf(&b, "@param,primer_mismatches,%s,%d\n@param,primer_mismatches,%s,%d\n", m.Fwd, m.Ef, strings.ToUpper(m.Rev), m.Er)
		}
	}
	fmt.Fprintf(&b, "@param,matching,%s\n", sh.Mode)
	fmt.Fprintf(&b, "@param,indels,%v\n", sh.Indel)
	if sh.Delim != "" {
		fmt.Fprintf(&b, "@param,tag_delimiter,%s\n", sh.Delim)
		if sh.TagIndels > 0 {
			fmt.Fprintf(&b, "@param,tag_indels,%d\n", sh.TagIndels)
		}
	}
	b.WriteString("experiment,sample,sample_tag,forward_primer,reverse_primer\n")
	for _, m := range sh.Markers {
		for _, s := range m.Samples {
			fmt.Fprintf(&b, "%s,%s,%s,%s,%s\n", c12SampleExperiment(s), s.Name, c12TagField(s), strings.ToUpper(m.Fwd), strings.ToUpper(m.Rev))
		}
	}
	return b.String()
}

// c12Guard runs f in its own goroutine: a panic or a logrus fatal (runtime.Goexit) ends only that goroutine.
func c12Guard(f func()) (msg string) {
	done := make(chan string, 1)
	before := fatalCount()
	go func() {
		finished := false
		defer func() {
			if r := recover(); r != nil {
				done <- fmt.Sprintf("panic: %v", r)
			} else if !finished {
				m := fatalMessages()
				last := ""
				if len(m) > 0 {
					last = m[len(m)-1]
				}
				done <- "fatal: " + last
			}
		}()
		f()
		finished = true
		done <- ""
	}()
	select {
	case msg = <-done:
	case <-time.After(60 * time.Second):
		msg = "timeout"
	}
	if msg == "" && fatalCount() != before {
		msg = "fatal"
	}
	return msg
}

var c12ReadMu sync.Mutex

// c12Library reads the sheet text with the real ReadNGSFilter.  format "old": the old format has no
// parameter lines; the parameters are set through the library's public setters (what the command line does
// for -e / --with-indels), per primer.
func c12Library(sh *c12Sheet, format string) (lib *obingslibrary.NGSLibrary, text string, problem string) {
	if format == "old" {
		text = c12SheetOld(sh)
	} else {
		text = c12SheetCSV(sh)
	}
	problem = c12Guard(func() {
		c12ReadMu.Lock()
		defer c12ReadMu.Unlock()
		var err error
		lib, err = obiformats.ReadNGSFilter(strings.NewReader(text))
		if err != nil {
			panic(err)
		}
		if format == "old" {
			for _, m := range sh.Markers {
				lib.SetTagSpacerFor(m.Fwd, m.Sf)
				lib.SetTagSpacerFor(m.Rev, m.Sr)
				lib.SetAllowedMismatchesFor(m.Fwd, m.Ef)
				lib.SetAllowedMismatchesFor(m.Rev, m.Er)
			}
			if err := lib.SetMatching(sh.Mode); err != nil {
				panic(err)
			}
			lib.SetAllowsIndels(sh.Indel)
			if sh.Delim != "" {
				lib.SetTagDelimiter(sh.Delim[0])
				lib.SetTagIndels(sh.TagIndels)
			}
		}
		if err := lib.Compile2(); err != nil {
			panic(err)
		}
	})
	return
}

// ------------------------------------------------------------------------------- observation

func c12MarkerIndex(sh *c12Sheet, fwd, rev string) int {
	for i, m := range sh.Markers {
		if strings.EqualFold(m.Fwd, fwd) && strings.EqualFold(m.Rev, rev) {
			return i + 1
		}
	}
	return 0
}

func c12Str(a map[string]any, k string) string {
	if v, ok := a[k]; ok {
		return fmt.Sprint(v)
	}
	return ""
}

func c12Int(a map[string]any, k string) int {
	switch v := a[k].(type) {
	case int:
		return v
	case float64:
		return int(v)
	case json.Number:
		i, _ := v.Int64()
		return int(i)
	}
	return -1
}

// c12FromAnnotations decodes one output record.  none = the read itself, returned flagged "No barcode identified".
func c12FromAnnotations(sh *c12Sheet, seq string, a map[string]any) (o c12Out, none bool, bad string) {
	e := c12Str(a, "obimultiplex_error")
	if _, has := a["obimultiplex_direction"]; !has {
		if e == "" {
			return o, false, "a record without amplicon annotations is not flagged with obimultiplex_error"
		}
		return o, true, ""
	}
	o.Mk = c12MarkerIndex(sh, c12Str(a, "obimultiplex_forward_primer"), c12Str(a, "obimultiplex_reverse_primer"))
	o.Dir = c12Str(a, "obimultiplex_direction")
	o.Bc = seq
	o.Fm = c12Str(a, "obimultiplex_forward_match")
	o.Rm = c12Str(a, "obimultiplex_reverse_match")
	o.Fe = c12Int(a, "obimultiplex_forward_error")
	o.Re = c12Int(a, "obimultiplex_reverse_error")
	o.Ft = c12Str(a, "obimultiplex_forward_tag")
	o.Rt = c12Str(a, "obimultiplex_reverse_tag")
	o.Smp = c12Str(a, "sample")
	if e != "" {
		o.Err = 1
	}
	if want := c12DeclaredExperiment(sh, o.Mk, o.Smp); o.Smp != "" && c12Str(a, "experiment") != want {
		bad = fmt.Sprintf("sample %s comes with experiment %q, declared %q", o.Smp, c12Str(a, "experiment"), want)
	}
	return
}

type c12Obs struct {
	Outs  []c12Out
	None  bool   // the read came back flagged, no amplicon
	Fault string // panic / fatal / malformed answer
}

func c12Extract(lib *obingslibrary.NGSLibrary, sh *c12Sheet, id, read string) (ob c12Obs) {
	ob.Outs = []c12Out{}
	msg := c12Guard(func() {
		s := obiseq.NewBioSequence(id, []byte(read), "")
		res, err := lib.ExtractMultiBarcode(s)
		if err != nil {
			panic(err)
		}
		if len(res) == 0 {
			panic("ExtractMultiBarcode returned no record at all")
		}
		for _, r := range res {
			ann := map[string]any{}
			for k, v := range r.Annotations() {
				ann[k] = v
			}
			o, none, bad := c12FromAnnotations(sh, r.String(), ann)
			if bad != "" {
				panic(bad)
			}
			if none {
				if len(res) != 1 || r.String() != read {
					panic("the flagged record is not the read itself")
				}
				ob.None = true
			} else {
				ob.Outs = append(ob.Outs, o)
			}
		}
	})
	ob.Fault = msg
	return
}

// c12Diff: first field in which the observed list differs from the expected one ("" = equal)
func c12Diff(exp, got []c12Out) (field, detail string) {
	if len(exp) != len(got) {
		return "count", fmt.Sprintf("%d amplicon record(s) expected, %d observed", len(exp), len(got))
	}
	for i := range exp {
		e, g := exp[i], got[i]
		chk := []struct {
			n    string
			a, b any
		}{
			{"marker", e.Mk, g.Mk}, {"direction", e.Dir, g.Dir}, {"barcode", e.Bc, g.Bc},
			{"forward_match", e.Fm, g.Fm}, {"reverse_match", e.Rm, g.Rm},
			{"forward_error", e.Fe, g.Fe}, {"reverse_error", e.Re, g.Re},
			{"forward_tag", e.Ft, g.Ft}, {"reverse_tag", e.Rt, g.Rt},
			{"sample", e.Smp, g.Smp}, {"error_flag", e.Err, g.Err},
		}
		for _, c := range chk {
			if c.a != c.b {
				return c.n, fmt.Sprintf("amplicon %d/%d: %s expected %v, observed %v", i+1, len(exp), c.n, c.a, c.b)
			}
		}
	}
	return "", ""
}

func c12Nz(o []c12Out) []c12Out {
	if o == nil {
		return []c12Out{}
	}
	return o
}

// ------------------------------------------------------------------------------- events for TLC

type c12EvSample struct {
	Ft   []int  `json:"ft"`
	Rt   []int  `json:"rt"`
	Name string `json:"name"`
}

type c12EvMarker struct {
	Fwd     []string      `json:"fwd"`
	Rev     []string      `json:"rev"`
	Ef      int           `json:"ef"`
	Er      int           `json:"er"`
	Sf      int           `json:"sf"`
	Sr      int           `json:"sr"`
	Lf      int           `json:"lf"`
	Lr      int           `json:"lr"`
	Samples []c12EvSample `json:"samples"`
}

type c12EvSheet struct {
	Mode    string        `json:"mode"`
	Indel   int           `json:"indel"`
	Delim   int           `json:"delim"`
	Delimc  string        `json:"delimc"`
	Tagind  int           `json:"tagind"`
	ID      int           `json:"id"`
	Markers []c12EvMarker `json:"markers"`
}

type c12EvOut struct {
	Mk  int    `json:"mk"`
	Dir string `json:"dir"`
	Bc  []int  `json:"bc"`
	Fm  []int  `json:"fm"`
	Rm  []int  `json:"rm"`
	Fe  int    `json:"fe"`
	Re  int    `json:"re"`
	Ft  []int  `json:"ft"`
	Rt  []int  `json:"rt"`
	Smp string `json:"smp"`
	Err int    `json:"err"`
}

// c12EvAmp: the pieces of one planted amplicon, in the order the read is made of them (forward orientation)
type c12EvAmp struct {
	Mk    int   `json:"mk"`
	Smp   int   `json:"smp"`   // index of the sample whose tags were used (1-based)
	Ori   int   `json:"ori"`   // 0 forward, 1 reverse complemented
	Tf    []int `json:"tf"`    // forward tag as planted (after edits)
	Sfill []int `json:"sfill"` // what lies between tag and forward primer
	Pf    []int `json:"pf"`    // forward primer instance as planted (empty: site omitted)
	Bc    []int `json:"bc"`
	Pr    []int `json:"pr"` // reverse primer instance (primer orientation)
	Rfill []int `json:"rfill"`
	Tr    []int `json:"tr"`
	Clean int   `json:"clean"` // 1: declared tags unedited, primers with substitutions only
	Nf    int   `json:"nf"`    // substitutions planted in the forward primer
	Nr    int   `json:"nr"`
}

type c12EvScenario struct {
	Has  int        `json:"has"`
	Free int        `json:"free"` // 1: a flank carries a free-standing priming site (it can pair with a planted one)
	Lf   []int      `json:"lf"`
	Mid  []int      `json:"mid"`
	Rf   []int      `json:"rf"`
	Amps []c12EvAmp `json:"amps"`
}

type c12Event struct {
	K      string        `json:"k"`
	Src    string        `json:"src"`
	Cls    string        `json:"cls"`
	Fmt    string        `json:"fmt"`
	Sheet  c12EvSheet    `json:"sheet"`
	Sc     c12EvScenario `json:"sc"`
	Read   []int         `json:"read"`
	Readrc []int         `json:"readrc"`
	Out    []c12EvOut    `json:"out"`
	None   int           `json:"none"`
	Outrc  []c12EvOut    `json:"outrc"`
	Nonerc int           `json:"nonerc"`
	Fault  string        `json:"fault"`
}

func c12Codes(s string) []int {
	out := make([]int, len(s))
	for i := 0; i < len(s); i++ {
		switch s[i] {
		case 'a', 'A':
			out[i] = 0
		case 'c', 'C':
			out[i] = 1
		case 'g', 'G':
			out[i] = 2
		case 't', 'T':
			out[i] = 3
		default:
			out[i] = 4
		}
	}
	return out
}

func c12Chars(s string) []string {
	out := make([]string, len(s))
	for i := range s {
		out[i] = s[i : i+1]
	}
	return out
}

func c12EvSheetOf(sh *c12Sheet) c12EvSheet {
	es := c12EvSheet{Mode: sh.Mode, Markers: []c12EvMarker{}, Delimc: sh.Delim, Tagind: sh.TagIndels, ID: sh.ID}
	if sh.Indel {
		es.Indel = 1
	}
	if sh.Delim != "" {
		es.Delim = 1
	}
	for _, m := range sh.Markers {
		em := c12EvMarker{Fwd: c12Chars(m.Fwd), Rev: c12Chars(m.Rev), Ef: m.Ef, Er: m.Er, Sf: m.Sf, Sr: m.Sr,
			Lf: len(m.Samples[0].Ft), Lr: len(m.Samples[0].Rt), Samples: []c12EvSample{}}
		for _, s := range m.Samples {
			em.Samples = append(em.Samples, c12EvSample{Ft: c12Codes(s.Ft), Rt: c12Codes(s.Rt), Name: s.Name})
		}
		es.Markers = append(es.Markers, em)
	}
	return es
}

func c12EvOuts(o []c12Out) []c12EvOut {
	out := []c12EvOut{}
	for _, x := range o {
		out = append(out, c12EvOut{Mk: x.Mk, Dir: x.Dir, Bc: c12Codes(x.Bc), Fm: c12Codes(x.Fm), Rm: c12Codes(x.Rm),
			Fe: x.Fe, Re: x.Re, Ft: c12Codes(x.Ft), Rt: c12Codes(x.Rt), Smp: x.Smp, Err: x.Err})
	}
	return out
}

func c12B(b bool) int {
	if b {
		return 1
	}
	return 0
}

func c12NoScenario() c12EvScenario {
	return c12EvScenario{Lf: []int{}, Mid: []int{}, Rf: []int{}, Amps: []c12EvAmp{}}
}

// ------------------------------------------------------------------------------- the binary

type c12BinJob struct {
	sh     *c12Sheet
	format string
	flags  []string
	ids    []string // one per read
	reads  []string
}

// c12RunBinary: obimultiplex -t sheet -u unidentified reads.fasta ; returns per read id the observed records
func c12RunBinary(bin, dir string, job *c12BinJob) (map[string]*c12Obs, string) {
	os.MkdirAll(dir, 0o755)
	sheetPath := filepath.Join(dir, "sheet."+map[string]string{"old": "txt", "csv": "csv"}[job.format])
	text := c12SheetCSV(job.sh)
	if job.format == "old" {
		text = c12SheetOld(job.sh)
	}
	if err := os.WriteFile(sheetPath, []byte(text), 0o644); err != nil {
		return nil, err.Error()
	}
	var fa bytes.Buffer
	for i, r := range job.reads {
		fmt.Fprintf(&fa, ">%s\n%s\n", job.ids[i], r)
	}
	readsPath := filepath.Join(dir, "reads.fasta")
	os.WriteFile(readsPath, fa.Bytes(), 0o644)
	unid := filepath.Join(dir, "unidentified.fasta")
	args := append([]string{"-t", sheetPath, "-u", unid, "--no-progressbar", "--max-cpu", "2"}, job.flags...)
	args = append(args, readsPath)
	cmd := exec.Command("timeout", append([]string{"120", bin}, args...)...)
	var stdout, stderr bytes.Buffer
	cmd.Stdout = &stdout
	cmd.Stderr = &stderr
	if err := cmd.Run(); err != nil {
		tail := stderr.String()
		if len(tail) > 600 {
			tail = tail[len(tail)-600:]
		}
		return nil, fmt.Sprintf("obimultiplex %s: %v: %s", strings.Join(args, " "), err, tail)
	}
	obs := map[string]*c12Obs{}
	for _, id := range job.ids {
		obs[id] = &c12Obs{Outs: []c12Out{}}
	}
	type ranked struct {
		rank int
		o    c12Out
	}
	tmp := map[string][]ranked{}
	parse := func(data []byte, flagged bool) string {
		recs := bytes.Split(data, []byte("\n>"))
		for _, rec := range recs {
			rec = bytes.TrimPrefix(bytes.TrimSpace(rec), []byte(">"))
			if len(rec) == 0 {
				continue
			}
			nl := bytes.IndexByte(rec, '\n')
			head, body := rec, []byte{}
			if nl >= 0 {
				head, body = rec[:nl], rec[nl+1:]
			}
			seq := strings.ToLower(string(bytes.ReplaceAll(body, []byte("\n"), nil)))
			sp := bytes.IndexByte(head, ' ')
			id, js := string(head), "{}"
			if sp >= 0 {
				id, js = string(head[:sp]), string(head[sp+1:])
			}
			if k := strings.Index(id, "_sub["); k >= 0 {
				id = id[:k]
			}
			ob, ok := obs[id]
			if !ok {
				return "output record with unknown id " + id
			}
			ann := map[string]any{}
			if err := json.Unmarshal([]byte(js), &ann); err != nil {
				return "unparsable header of " + id + ": " + js
			}
			o, none, bad := c12FromAnnotations(job.sh, seq, ann)
			if bad != "" {
				ob.Fault = bad
				continue
			}
			if flagged != (none || o.Err == 1) {
				ob.Fault = fmt.Sprintf("record with error flag %v written to the %s output", none || o.Err == 1,
					map[bool]string{true: "unidentified (-u)", false: "main"}[flagged])
			}
			if none {
				ob.None = true
				continue
			}
			rk := 0
			fmt.Sscanf(c12Str(ann, "obimultiplex_amplicon_rank"), "%d/", &rk)
			tmp[id] = append(tmp[id], ranked{rk, o})
		}
		return ""
	}
	if msg := parse(stdout.Bytes(), false); msg != "" {
		return nil, msg
	}
	udata, _ := os.ReadFile(unid)
	if msg := parse(udata, true); msg != "" {
		return nil, msg
	}
	for id, l := range tmp {
		sort.SliceStable(l, func(i, j int) bool { return l[i].rank < l[j].rank })
		for _, x := range l {
			obs[id].Outs = append(obs[id].Outs, x.o)
		}
	}
	return obs, ""
}

// ------------------------------------------------------------------------------- replay

// c12OldExpressible: the old format carries no parameter; on the command line only -e N (all primers) and
// --with-indels exist.  Returns the flags, or ok=false when the sheet cannot be given to the binary that way.
func c12OldExpressible(sh *c12Sheet) (flags []string, ok bool) {
	if sh.Mode != "strict" || sh.Delim != "" {
		return nil, false
	}
	e := sh.Markers[0].Ef
	for _, m := range sh.Markers {
		if m.Sf != 0 || m.Sr != 0 || m.Ef != e || m.Er != e {
			return nil, false
		}
	}
	flags = []string{"-e", strconv.Itoa(e)}
	if sh.Indel {
		flags = append(flags, "--with-indels")
	}
	return flags, true
}

func c12Letters(c []int) string {
	b := make([]byte, len(c))
	for i, x := range c {
		b[i] = "acgtn"[x]
	}
	return string(b)
}

// c12ReplayEvents: run the reads of logged events again on the real code (same sheet, same format) and log
// fresh events for TLC (bin/check C12 --replay of a violation found by the trace specification)
func c12ReplayEvents(env *Env) {
	evs := loadCases[c12Event](env.cases)
	for _, ev := range evs {
		sh := &c12Sheet{ID: ev.Sheet.ID, Mode: ev.Sheet.Mode, Indel: ev.Sheet.Indel == 1, Delim: ev.Sheet.Delimc, TagIndels: ev.Sheet.Tagind}
		for _, em := range ev.Sheet.Markers {
			m := c12Marker{Fwd: strings.Join(em.Fwd, ""), Rev: strings.Join(em.Rev, ""), Ef: em.Ef, Er: em.Er, Sf: em.Sf, Sr: em.Sr}
			for _, s := range em.Samples {
				m.Samples = append(m.Samples, c12Sample{Ft: c12Letters(s.Ft), Rt: c12Letters(s.Rt), Name: s.Name})
			}
			sh.Markers = append(sh.Markers, m)
		}
		format := ev.Fmt
		if format == "" {
			format = "csv"
		}
		out := ev
		lib, text, problem := c12Library(sh, format)
		if problem != "" {
			out.Fault = "sheet: " + problem + "\n" + text
		} else {
			od := c12Extract(lib, sh, "e", c12Letters(ev.Read))
			or := c12Extract(lib, sh, "ec", c12Letters(ev.Readrc))
			out.Out, out.None, out.Outrc, out.Nonerc = c12EvOuts(od.Outs), c12B(od.None), c12EvOuts(or.Outs), c12B(or.None)
			out.Fault = od.Fault
			if out.Fault == "" {
				out.Fault = or.Fault
			}
		}
		env.emit(out)
		env.ok("event-replayed")
	}
}

func c12Replay(env *Env) {
	if env.opt("mode", "") == "event" {
		env.noSummary = true
		c12ReplayEvents(env)
		return
	}
	lines := loadCases[c12Line](env.cases)
	sheets := map[int]*c12Sheet{}
	bySheet := map[int][]*c12Line{}
	order := []int{}
	for i := range lines {
		l := &lines[i]
		if l.K == "sheet" {
			sheets[l.Sheet] = &c12Sheet{ID: l.Sheet, Mode: l.Mode, Indel: l.Indel == 1, Markers: l.Markers, Line: l}
			continue
		}
		if _, ok := bySheet[l.Sheet]; !ok {
			order = append(order, l.Sheet)
		}
		l.Exp, l.Exprc = c12Nz(l.Exp), c12Nz(l.Exprc)
		bySheet[l.Sheet] = append(bySheet[l.Sheet], l)
	}
	sort.Ints(order)
	bin := env.opt("bin", "")
	work := env.opt("work", os.TempDir())
	var evw *os.File
	if p := env.opt("events", ""); p != "" {
		var err error
		if evw, err = os.Create(p); err != nil {
			fmt.Fprintln(os.Stderr, err)
			os.Exit(2)
		}
		defer evw.Close()
	}
	evrate := env.optInt("evrate", 40)
	var evmu sync.Mutex
	logEvent := func(ev c12Event) {
		if evw == nil {
			return
		}
		b, _ := json.Marshal(ev)
		evmu.Lock()
		evw.Write(append(b, '\n'))
		evmu.Unlock()
	}

	// compare one observation with the exported expectation
	judge := func(level string, sh *c12Sheet, l *c12Line, strand string, ob *c12Obs) {
		exp, amb, read := l.Exp, l.Amb, l.Read
		if strand == "rc" {
			exp, amb, read = l.Exprc, l.Ambrc, l.Rc
		}
		class := fmt.Sprintf("%s/%s/%s%s", level, l.Cls, sh.Mode, map[bool]string{true: "/indel", false: ""}[sh.Indel])
		ctx := map[string]any{"sheet": sh.ID, "level": level, "strand": strand, "read": read, "cls": l.Cls, "line": l, "sheetline": sh.Line}
		if ob.Fault != "" {
			env.fail("C12.replay.fault", class, fmt.Sprintf("sheet %d read %s: %s", sh.ID, read, ob.Fault), ctx)
			return
		}
		if ob.None != (len(ob.Outs) == 0) {
			env.fail("C12.replay.flag", class, fmt.Sprintf("sheet %d read %s: %d amplicon(s) and 'No barcode identified'=%v", sh.ID, read, len(ob.Outs), ob.None), ctx)
			return
		}
		if amb == 1 {
			env.ok("ambiguous-not-compared")
			return
		}
		if f, d := c12Diff(exp, ob.Outs); f != "" {
			env.fail("C12.replay."+f, class, fmt.Sprintf("sheet %d (%s, spacers %d/%d, budgets %d/%d) read %s [%s, %s strand]: %s",
				sh.ID, sh.Mode, sh.Markers[0].Sf, sh.Markers[0].Sr, sh.Markers[0].Ef, sh.Markers[0].Er, read, l.Cls, strand, d), ctx)
			return
		}
		env.ok(level + "/" + l.Cls)
		env.ok("mode/" + sh.Mode)
		for _, o := range ob.Outs {
			if o.Smp != "" {
				env.ok("assigned/" + o.Dir)
			} else {
				env.ok("flagged-amplicon")
			}
		}
		if len(ob.Outs) == 0 {
			env.ok("flagged-read")
		}
		if len(ob.Outs) >= 2 {
			env.ok("two-amplicons")
		}
	}

	nsample := 0
	for _, sid := range order {
		sh := sheets[sid]
		if sh == nil {
			fmt.Fprintf(os.Stderr, "cases of sheet %d without its sheet line\n", sid)
			os.Exit(2)
		}
		cases := bySheet[sid]
		for _, format := range []string{"csv", "old"} {
			if env.tooManyFailures() {
				break
			}
			lib, text, problem := c12Library(sh, format)
			if problem != "" {
				env.fail("C12.replay.sheet", "lib-"+format+"/sheet", fmt.Sprintf("sheet %d not accepted by ReadNGSFilter (%s): %s\n%s", sid, format, problem, text),
					map[string]any{"sheet": sid, "text": text})
				continue
			}
			env.ok("sheet-read/" + format)
			for ci, l := range cases {
				if env.tooManyFailures() {
					break
				}
				od := c12Extract(lib, sh, fmt.Sprintf("r%d", ci), l.Read)
				judge("lib-"+format, sh, l, "direct", &od)
				or := c12Extract(lib, sh, fmt.Sprintf("r%dc", ci), l.Rc)
				judge("lib-"+format, sh, l, "rc", &or)
				// strand symmetry, on the two observations alone: the same records in reverse order, direction flipped
				if od.Fault == "" && or.Fault == "" && l.Amb == 0 && l.Ambrc == 0 {
					fl := make([]c12Out, len(od.Outs))
					for i, o := range od.Outs {
						o.Dir = map[string]string{"forward": "reverse", "reverse": "forward"}[o.Dir]
						fl[len(od.Outs)-1-i] = o
					}
					if f, d := c12Diff(fl, or.Outs); f != "" {
						env.fail("C12.replay.symmetry", fmt.Sprintf("lib-%s/%s/%s", format, l.Cls, sh.Mode),
							fmt.Sprintf("sheet %d read %s and its reverse complement do not give mirrored records: %s (direct: %d record(s), rc: %d)", sh.ID, l.Read, d, len(od.Outs), len(or.Outs)),
							map[string]any{"sheet": sh.ID, "level": "lib-" + format, "strand": "both", "read": l.Read, "cls": l.Cls, "line": l, "sheetline": sh.Line})
					} else {
						env.ok("symmetry/" + l.Cls)
					}
				}
				if format == "csv" && od.Fault == "" && or.Fault == "" && (l.Amb == 1 || l.Ambrc == 1 || (ci+int(env.seed))%evrate == 0) {
					logEvent(c12Event{K: "demux", Src: "R", Cls: l.Cls, Fmt: format, Sheet: c12EvSheetOf(sh), Sc: c12NoScenario(),
						Read: c12Codes(l.Read), Readrc: c12Codes(l.Rc), Out: c12EvOuts(od.Outs), None: c12B(od.None), Outrc: c12EvOuts(or.Outs), Nonerc: c12B(or.None), Fault: ""})
				}
				if nsample < 3 && len(od.Outs) > 0 && ci%17 == 3 {
					nsample++
					env.sample(map[string]any{"sheet": sid, "format": format, "read": l.Read, "observed": od.Outs, "expected": l.Exp})
				}
			}
		}
	}
	// the binary: one run per sheet and format, all reads of the sheet (both strands) in one file
	if bin != "" {
		type bj struct {
			job   *c12BinJob
			sh    *c12Sheet
			cases []*c12Line
			level string
		}
		jobs := []bj{}
		for _, sid := range order {
			sh := sheets[sid]
			cases := bySheet[sid]
			mk := func(format string, flags []string) *c12BinJob {
				j := &c12BinJob{sh: sh, format: format, flags: flags}
				for ci, l := range cases {
					j.ids = append(j.ids, fmt.Sprintf("r%d", ci), fmt.Sprintf("r%dc", ci))
					j.reads = append(j.reads, l.Read, l.Rc)
				}
				return j
			}
			jobs = append(jobs, bj{mk("csv", nil), sh, cases, "bin-csv"})
			// a file in which no read can be assigned: everything has to come out through -u
			unas := []*c12Line{}
			for _, l := range cases {
				all := l.Amb == 0 && l.Ambrc == 0
				for _, o := range append(append([]c12Out{}, l.Exp...), l.Exprc...) {
					if o.Smp != "" {
						all = false
					}
				}
				if all {
					unas = append(unas, l)
				}
			}
			if len(unas) > 0 {
				save := cases
				cases = unas
				jobs = append(jobs, bj{mk("csv", nil), sh, unas, "bin-csv-unassigned"})
				cases = save
			}
			if flags, ok := c12OldExpressible(sh); ok {
				jobs = append(jobs, bj{mk("old", flags), sh, cases, "bin-old"})
			}
		}
		parallel(len(jobs), 8, func(i int) {
			j := jobs[i]
			dir := filepath.Join(work, fmt.Sprintf("c12bin-%d-%s", j.sh.ID, j.level))
			obs, problem := c12RunBinary(bin, dir, j.job)
			if problem != "" {
				env.fail("C12.replay.binary", j.level+"/run", fmt.Sprintf("sheet %d: %s", j.sh.ID, problem), map[string]any{"sheet": j.sh.ID, "flags": j.job.flags})
				return
			}
			env.ok("binary-run/" + j.job.format)
			if len(j.job.flags) > 0 {
				env.ok("binary-flags/" + strings.Join(j.job.flags, " "))
			}
			for ci, l := range j.cases {
				if env.tooManyFailures() {
					break
				}
				judge(j.level, j.sh, l, "direct", obs[fmt.Sprintf("r%d", ci)])
				judge(j.level, j.sh, l, "rc", obs[fmt.Sprintf("r%dc", ci)])
			}
			os.RemoveAll(dir)
		})
	}
}

// ------------------------------------------------------------------------------- record

const c12Nuc = "acgt"

func c12RandSeq(r *rand.Rand, n int) string {
	b := make([]byte, n)
	for i := range b {
		b[i] = c12Nuc[r.Intn(4)]
	}
	return string(b)
}

// without: random sequence over the alphabet minus one base (tags of delimiter sheets)
func c12RandSeqWithout(r *rand.Rand, n int, not byte) string {
	b := make([]byte, n)
	for i := range b {
		for {
			b[i] = c12Nuc[r.Intn(4)]
			if b[i] != not {
				break
			}
		}
	}
	return string(b)
}

var c12Iupac = map[byte]string{'r': "ag", 'y': "ct", 'm': "ac", 'k': "gt", 's': "cg", 'w': "at", 'n': "acgt", 'b': "cgt", 'd': "agt", 'h': "act", 'v': "acg"}

func c12OtherBase(r *rand.Rand, b byte) byte {
	for {
		x := c12Nuc[r.Intn(4)]
		if x != b {
			return x
		}
	}
}

func c12HamStr(a, b string) int {
	n := 0
	for i := range a {
		if a[i] != b[i] {
			n++
		}
	}
	return n
}

// c12RandSheet: 1-3 markers, 1-5 samples each, tags of 6-8 bases (some pairs only 2 apart, so that one
// substitution can tie), absent / asymmetric tags, spacers 0-3, budgets 0-3, one IUPAC code in some primers
func c12RandSheet(r *rand.Rand, id int, delim bool) *c12Sheet {
	sh := &c12Sheet{ID: id, Mode: []string{"strict", "hamming", "indel"}[r.Intn(3)], Indel: id%8 == 3}
	var not byte
	if delim {
		sh.Delim = string(c12Nuc[r.Intn(4)])
		not = sh.Delim[0]
		sh.TagIndels = r.Intn(3)
		sh.Indel = false
	}
	nm := 1 + r.Intn(3)
	if sh.Indel { // the reference matcher with indels is costly for TLC: fewer markers, shorter reads
		nm = 1 + r.Intn(2)
	}
	for mi := 0; mi < nm; mi++ {
		m := c12Marker{Ef: r.Intn(4), Er: r.Intn(4), Sf: r.Intn(4), Sr: r.Intn(4)}
		if delim {
			m.Sf, m.Sr = 1+r.Intn(2), 1+r.Intn(2)
			m.Ef, m.Er = r.Intn(3), r.Intn(3)
		}
		if r.Intn(3) == 0 {
			m.Sr = m.Sf
		}
		lpf, lpr := 18+r.Intn(8), 18+r.Intn(8)
		if !sh.Indel && r.Intn(8) == 0 {
			lpf = 33 + r.Intn(12) // beyond one 32-bit word of the matching automaton
		}
		pf := []byte(c12RandSeq(r, lpf))
		pr := []byte(c12RandSeq(r, lpr))
		if !sh.Indel && !delim && r.Intn(3) == 0 {
			codes := "rymkswn"
			pf[2+r.Intn(len(pf)-4)] = codes[r.Intn(len(codes))]
			if r.Intn(2) == 0 {
				pr[2+r.Intn(len(pr)-4)] = codes[r.Intn(len(codes))]
			}
		}
		m.Fwd, m.Rev = string(pf), string(pr)
		lf, lr := 6+r.Intn(3), 6+r.Intn(3)
		kind := r.Intn(6) // 0 forward only, 1 reverse only, 2 same word, others pairs
		if delim && kind < 2 {
			kind = 3
		}
		tagpool := func(l int) []string {
			pool := []string{}
			for len(pool) < 4 {
				var t string
				if len(pool) > 0 && r.Intn(3) == 0 { // a close neighbour: 2 substitutions away
					b := []byte(pool[r.Intn(len(pool))])
					i, j := r.Intn(l), r.Intn(l)
					b[i] = c12OtherBase(r, b[i])
					b[j] = c12OtherBase(r, b[j])
					t = string(b)
					if delim {
						t = strings.ReplaceAll(t, string(not), string(c12OtherBase(r, not)))
						if strings.IndexByte(t, not) >= 0 {
							continue
						}
					}
				} else if delim {
					t = c12RandSeqWithout(r, l, not)
				} else {
					t = c12RandSeq(r, l)
				}
				dup := false
				for _, p := range pool {
					if p == t {
						dup = true
					}
				}
				if !dup {
					pool = append(pool, t)
				}
			}
			return pool
		}
		fp, rp := tagpool(lf), tagpool(lr)
		ns := 1 + r.Intn(5)
		used := map[string]bool{}
		for si := 0; si < ns; si++ {
			s := c12Sample{Name: fmt.Sprintf("m%ds%d", mi+1, si+1)}
			switch kind {
			case 0:
				s.Ft = fp[r.Intn(len(fp))]
			case 1:
				s.Rt = rp[r.Intn(len(rp))]
			case 2:
				s.Ft = fp[r.Intn(len(fp))]
				s.Rt = s.Ft
			default:
				s.Ft, s.Rt = fp[r.Intn(len(fp))], rp[r.Intn(len(rp))]
			}
			if used[s.Ft+":"+s.Rt] {
				continue
			}
			used[s.Ft+":"+s.Rt] = true
			m.Samples = append(m.Samples, s)
		}
		sh.Markers = append(sh.Markers, m)
	}
	return sh
}

// instance of a primer: IUPAC codes resolved, nsub substitutions at plain positions, optionally one indel
func c12PlantPrimer(r *rand.Rand, p string, nsub int, indel int) (string, bool) {
	b := []byte(p)
	plain := []int{}
	for i := range b {
		if set, ok := c12Iupac[b[i]]; ok {
			b[i] = set[r.Intn(len(set))]
		} else {
			plain = append(plain, i)
		}
	}
	r.Shuffle(len(plain), func(i, j int) { plain[i], plain[j] = plain[j], plain[i] })
	for k := 0; k < nsub && k < len(plain); k++ {
		b[plain[k]] = c12OtherBase(r, b[plain[k]])
	}
	pure := true
	switch indel {
	case 1: // deletion inside
		i := 3 + r.Intn(len(b)-6)
		b = append(b[:i:i], b[i+1:]...)
		pure = false
	case 2: // insertion inside
		i := 3 + r.Intn(len(b)-6)
		b = append(b[:i:i], append([]byte{c12Nuc[r.Intn(4)]}, b[i:]...)...)
		pure = false
	}
	return string(b), pure
}

func c12EditTag(r *rand.Rand, t string, kind int) string {
	if t == "" {
		return t
	}
	b := []byte(t)
	switch kind {
	case 1:
		i := r.Intn(len(b))
		b[i] = c12OtherBase(r, b[i])
	case 2:
		i, j := r.Intn(len(b)), r.Intn(len(b))
		b[i] = c12OtherBase(r, b[i])
		b[j] = c12OtherBase(r, b[j])
	case 3:
		i := r.Intn(len(b))
		b = append(b[:i:i], b[i+1:]...)
	case 4:
		i := r.Intn(len(b) + 1)
		b = append(b[:i:i], append([]byte{c12Nuc[r.Intn(4)]}, b[i:]...)...)
	}
	return string(b)
}

type c12Built struct {
	sc   c12EvScenario
	read string
	cls  string
}

// c12RandScenario builds a read from pieces.  The read text is made HERE only by concatenating the pieces
// in the documented order; the trace specification rebuilds it from the logged pieces (reverse
// complement included) and compares.
// c12ForceTiny: set by the recorder (single goroutine) for the scenarios that must be very short reads without site
var c12ForceTiny bool

func c12RandScenario(r *rand.Rand, sh *c12Sheet) c12Built {
	sc := c12NoScenario()
	sc.Has = 1
	cls := []string{}
	namp := 1
	switch x := r.Intn(20); {
	case x < 3:
		namp = 2
	case x == 3:
		namp = 0
	}
	forceTiny := c12ForceTiny // the rare classes do not depend on the draw: the recorder asks for them
	if forceTiny {
		namp = 0
	}
	comp := map[byte]byte{'a': 't', 'c': 'g', 'g': 'c', 't': 'a'}
	rc := func(s string) string {
		b := make([]byte, len(s))
		for i := range s {
			b[len(s)-1-i] = comp[s[i]]
		}
		return string(b)
	}
	flank := func() string {
		if r.Intn(5) == 0 {
			return ""
		}
		if sh.Indel {
			return c12RandSeq(r, 1+r.Intn(8))
		}
		return c12RandSeq(r, 1+r.Intn(25))
	}
	// now and then a flank carries a priming site of its own (a primer of some marker, on either strand)
	dangling := false
	flankSite := func() string {
		f := flank()
		if namp > 0 && r.Intn(8) == 0 {
			m := sh.Markers[r.Intn(len(sh.Markers))]
			p, _ := c12PlantPrimer(r, []string{m.Fwd, m.Rev}[r.Intn(2)], 0, 0)
			if r.Intn(2) == 0 {
				p = rc(p)
			}
			dangling = true
			return f + p + c12RandSeq(r, 3+r.Intn(10))
		}
		return f
	}
	lf, rf, mid := flankSite(), flankSite(), ""
	text := lf
	for ai := 0; ai < namp; ai++ {
		mi := r.Intn(len(sh.Markers))
		m := sh.Markers[mi]
		si := r.Intn(len(m.Samples))
		s := m.Samples[si]
		a := c12EvAmp{Mk: mi + 1, Smp: si + 1, Ori: r.Intn(2), Clean: 1}
		// primers
		nf, nr := 0, 0
		if r.Intn(2) == 0 {
			nf = r.Intn(m.Ef + 1)
		}
		if r.Intn(2) == 0 {
			nr = r.Intn(m.Er + 1)
		}
		switch r.Intn(24) { // one error more than allowed
		case 0:
			nf = m.Ef + 1
		case 1:
			nr = m.Er + 1
		}
		fi, ri := 0, 0
		if sh.Indel && r.Intn(3) == 0 {
			fi = 1 + r.Intn(2)
			nf = 0
		}
		if sh.Indel && r.Intn(3) == 0 {
			ri = 1 + r.Intn(2)
			nr = 0
		}
		pf, pure1 := c12PlantPrimer(r, m.Fwd, nf, fi)
		pr, pure2 := c12PlantPrimer(r, m.Rev, nr, ri)
		a.Nf, a.Nr = nf, nr
		if !pure1 || !pure2 {
			a.Clean = 0
			cls = append(cls, "primer-indel")
		}
		if nf > m.Ef || nr > m.Er {
			cls = append(cls, "over-budget")
		} else if nf+nr > 0 {
			cls = append(cls, "primer-mismatch")
		}
		switch r.Intn(14) {
		case 0:
			pf = ""
			a.Clean = 0
			cls = append(cls, "partial")
		case 1:
			pr = ""
			a.Clean = 0
			cls = append(cls, "partial")
		}
		// tags
		tf, tr := s.Ft, s.Rt
		ek := 0
		if r.Intn(5) < 2 {
			ek = 1 + r.Intn(4)
			if r.Intn(2) == 0 {
				tf = c12EditTag(r, tf, ek)
			} else {
				tr = c12EditTag(r, tr, ek)
			}
			if tf != s.Ft || tr != s.Rt {
				a.Clean = 0
				cls = append(cls, []string{"", "tag-sub", "tag-sub2", "tag-del", "tag-ins"}[ek])
			}
		}
		// fillers between tag and primer: spacer bases, or delimiter bases on delimiter sheets
		sfill, rfill := "", ""
		if s.Ft != "" {
			sfill = c12RandSeq(r, m.Sf)
		}
		if s.Rt != "" {
			rfill = c12RandSeq(r, m.Sr)
		}
		pre, post := "", ""
		if sh.Delim != "" {
			// the reverse primer's oligonucleotide is delim.tag.delim.primer too: the read shows its reverse complement
			sfill, rfill = strings.Repeat(sh.Delim, m.Sf), strings.Repeat(rc(sh.Delim), m.Sr)
			// the delimiter run on the far side of each tag: as long as the spacer, sometimes not
			pre, post = strings.Repeat(sh.Delim, m.Sf), strings.Repeat(sh.Delim, m.Sr)
			if r.Intn(4) == 0 {
				pre, post = strings.Repeat(sh.Delim, 1+r.Intn(3)), strings.Repeat(sh.Delim, 1+r.Intn(3))
			}
			a.Clean = 0
		}
		bc := c12RandSeq(r, 5+r.Intn(75))
		if sh.Indel {
			bc = c12RandSeq(r, 5+r.Intn(25))
		}
		if r.Intn(40) == 0 {
			bc = ""
			cls = append(cls, "dimer")
		}
		// the tag pieces carry the delimiter run that precedes / follows them on delimiter sheets
		a.Tf, a.Sfill, a.Pf, a.Bc, a.Pr, a.Rfill, a.Tr = c12Codes(pre+tf), c12Codes(sfill), c12Codes(pf), c12Codes(bc), c12Codes(pr), c12Codes(rfill), c12Codes(post+tr)
		fwd := pre + tf + sfill + pf + bc + rc(pr) + rfill + rc(post+tr)
		if a.Ori == 1 {
			fwd = rc(fwd)
			cls = append(cls, "reverse")
		} else {
			cls = append(cls, "forward")
		}
		if ai == 1 {
			if r.Intn(2) == 0 {
				mid = c12RandSeq(r, 1+r.Intn(10))
			}
			text += mid
		}
		text += fwd
		sc.Amps = append(sc.Amps, a)
	}
	text += rf
	sc.Lf, sc.Mid, sc.Rf = c12Codes(lf), c12Codes(mid), c12Codes(rf)
	if namp == 0 {
		cls = append(cls, "nosite")
		if text == "" || forceTiny || r.Intn(3) == 0 { // very short reads too, the empty one included
			text = c12RandSeq(r, r.Intn(12))
			sc.Lf, sc.Rf = c12Codes(text), []int{}
			cls = append(cls, "tiny")
		}
	}
	if namp == 2 {
		cls = append(cls, "chimera")
	}
	if dangling {
		cls = append(cls, "dangling-site")
		// a free-standing site in a flank can pair with a planted site of the same marker: the planted amplicon is then
		// legitimately reported with a longer barcode: the self-check "a clean planted amplicon is reported as planted"
		// of the trace specification is not applied
		sc.Free = 1
	}
	if sh.Delim != "" {
		cls = append(cls, "delimiter")
		if sh.TagIndels > 0 {
			cls = append(cls, "rescue")
		}
	}
	if sh.Indel {
		cls = append(cls, "indel-primers")
	}
	cls = append(cls, "mode-"+sh.Mode)
	return c12Built{sc: sc, read: text, cls: strings.Join(cls, "/")}
}

func c12Record(env *Env) {
	r := env.rng
	nsheets := env.optInt("sheets", 40)
	per := env.n / nsheets
	if per < 1 {
		per = 1
	}
	comp := map[byte]byte{'a': 't', 'c': 'g', 'g': 'c', 't': 'a'}
	for si := 0; si < nsheets; si++ {
		delim := si%5 == 4
		sh := c12RandSheet(r, 1000+si, delim)
		format := []string{"csv", "old"}[si%2]
		lib, text, problem := c12Library(sh, format)
		if problem != "" {
			env.emit(c12Event{K: "demux", Src: "T", Cls: "sheet", Fmt: format, Sheet: c12EvSheetOf(sh), Sc: c12NoScenario(), Read: []int{}, Readrc: []int{},
				Out: []c12EvOut{}, Outrc: []c12EvOut{}, Fault: "sheet: " + problem + "\n" + text})
			continue
		}
		type c12Seen struct {
			b      c12Built
			rc     string
			od, or c12Obs
		}
		seen := make([]c12Seen, 0, per)
		for k := 0; k < per; k++ {
			c12ForceTiny = k == 0 && si%8 == 2
			b := c12RandScenario(r, sh)
			c12ForceTiny = false
			rcb := make([]byte, len(b.read))
			for i := range b.read {
				rcb[len(b.read)-1-i] = comp[b.read[i]]
			}
			od := c12Extract(lib, sh, fmt.Sprintf("t%d_%d", si, k), b.read)
			or := c12Extract(lib, sh, fmt.Sprintf("t%d_%dc", si, k), string(rcb))
			fault := od.Fault
			if fault == "" {
				fault = or.Fault
			}
			env.emit(c12Event{K: "demux", Src: "T", Cls: b.cls, Fmt: format, Sheet: c12EvSheetOf(sh), Sc: b.sc, Read: c12Codes(b.read), Readrc: c12Codes(string(rcb)),
				Out: c12EvOuts(od.Outs), None: c12B(od.None), Outrc: c12EvOuts(or.Outs), Nonerc: c12B(or.None), Fault: fault})
			seen = append(seen, c12Seen{b, string(rcb), od, or})
		}
		// obimultiplex gives the same library (compiled primers, sample tables) to all its workers: the reads of
		// this sheet are extracted again by 16 goroutines at once, several rounds; an answer that differs from
		// the one logged above is logged as one more event and judged by the specification like any other.
		rounds := env.optInt("rounds", 6)
		var cmu sync.Mutex
		extra := 0
		parallel(16*rounds, 16, func(w int) {
			for j := range seen {
				k := (j + w*7) % len(seen)
				sn := &seen[k]
				od := c12Extract(lib, sh, fmt.Sprintf("t%d_%d", si, k), sn.b.read)
				or := c12Extract(lib, sh, fmt.Sprintf("t%d_%dc", si, k), sn.rc)
				if reflect.DeepEqual(od, sn.od) && reflect.DeepEqual(or, sn.or) {
					continue
				}
				cmu.Lock()
				if extra < 40 {
					extra++
					fault := od.Fault
					if fault == "" {
						fault = or.Fault
					}
					env.emit(c12Event{K: "demux", Src: "T", Cls: sn.b.cls + "/shared-library", Fmt: format, Sheet: c12EvSheetOf(sh), Sc: sn.b.sc, Read: c12Codes(sn.b.read),
						Readrc: c12Codes(sn.rc), Out: c12EvOuts(od.Outs), None: c12B(od.None), Outrc: c12EvOuts(or.Outs), Nonerc: c12B(or.None), Fault: fault})
				}
				cmu.Unlock()
			}
		})

		// a sample sheet larger than the 128 KiB the format sniffer reads at first (576 PCRs with long names), in both
		// file formats; the scenarios fall on samples declared anywhere in the file
		comp2 := map[byte]byte{'a': 't', 'c': 'g', 'g': 'c', 't': 'a'}
		// (every event carries its sheet: a few groups only, or the trace grows by 3 MB per group)
		bigFormats := []string{"csv", "old"}
		if si >= env.optInt("bigsheets", 4) {
			bigFormats = nil
		}
		for fi, format := range bigFormats {
			sh := c12RandSheet(r, 9000+fi, false)
			sh.Mode, sh.Indel, sh.TagIndels = "strict", false, 0
			sh.Markers = sh.Markers[:1]
			m := &sh.Markers[0]
			tags := map[string]bool{}
			var ft, rt []string
			for len(ft) < 24 {
				if t := c12RandSeq(r, 8); !tags[t] {
					tags[t] = true
					ft = append(ft, t)
				}
			}
			for len(rt) < 24 {
				if t := c12RandSeq(r, 8); !tags[t] {
					tags[t] = true
					rt = append(rt, t)
				}
			}
			m.Samples = m.Samples[:0]
			for i, f := range ft {
				for j, q := range rt {
					// long sample names: 576 PCR lines make a file of about 170 KiB
					m.Samples = append(m.Samples, c12Sample{Ft: f, Rt: q, Name: fmt.Sprintf("big_%02d_%02d_%s", i, j, strings.Repeat("x", 250))})
				}
			}
			lib, text, problem := c12Library(sh, format)
			if problem != "" {
				env.emit(c12Event{K: "demux", Src: "T", Cls: "sheet/bigsheet", Fmt: format, Sheet: c12EvSheetOf(sh), Sc: c12NoScenario(), Read: []int{}, Readrc: []int{},
					Out: []c12EvOut{}, Outrc: []c12EvOut{}, Fault: "sheet of " + strconv.Itoa(len(text)) + " bytes: " + problem})
				continue
			}
			for k := 0; k < 8; k++ {
				b := c12RandScenario(r, sh)
				rcb := make([]byte, len(b.read))
				for i := range b.read {
					rcb[len(b.read)-1-i] = comp2[b.read[i]]
				}
				od := c12Extract(lib, sh, fmt.Sprintf("big%d_%d", fi, k), b.read)
				or := c12Extract(lib, sh, fmt.Sprintf("big%d_%dc", fi, k), string(rcb))
				fault := od.Fault
				if fault == "" {
					fault = or.Fault
				}
				env.emit(c12Event{K: "demux", Src: "T", Cls: b.cls + "/bigsheet", Fmt: format, Sheet: c12EvSheetOf(sh), Sc: b.sc, Read: c12Codes(b.read), Readrc: c12Codes(string(rcb)),
					Out: c12EvOuts(od.Outs), None: c12B(od.None), Outrc: c12EvOuts(or.Outs), Nonerc: c12B(or.None), Fault: fault})
			}
		}
	}
}

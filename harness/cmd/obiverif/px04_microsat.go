package main

// X04 (extension), part (a): obimicrosat (spec/L3_command/Microsat.tla).
//
// replay   every case exported by MicrosatMC.tla (sequence, options, the SET of acceptable output records - empty:
//          the record must be dropped -, the departure class of the search as written): the real
//          obimicrosat.MakeMicrosatWorker is called on the sequence and what it returns (nothing / one record with
//          its identifier, sequence and eleven annotations) must be one of the acceptable records.  A record that is
//          dropped where the specification's as-written search drops it too (dep != "none") is reported as
//          X04.known_departure with the departure as class (listed finding), never more than that.
// record   seeded random sequences far beyond the model (50-400 bases, planted repeats of every kind, ambiguity
//          codes, quality scores, default and random options): one event per call with everything observed, judged
//          by MicrosatTrace.tla.  With --opt dir=D the same generator writes FASTA/FASTQ files and a manifest for
//          the runs of the real obimicrosat binary (driven and decoded by checks/x04.py).

import (
	"encoding/json"
	"fmt"
	"math/rand"
	"os"
	"path/filepath"
	"sort"
	"strings"
	"sync"

	"git.metabarcoding.org/obitools/obitools4/obitools4/pkg/obiseq"
	"git.metabarcoding.org/obitools/obitools4/obitools4/pkg/obitools/obimicrosat"
)

func init() {
	register("X04", &driver{replay: x04Replay, record: x04Record})
}

// ------------------------------------------------------------------------------------- dispatch

type x04Kind struct {
	Kind string `json:"kind"`
}

func x04Replay(env *Env) {
	raw := loadCases[json.RawMessage](env.cases)
	kn := newX04Known(env)
	parallel(len(raw), 0, func(i int) {
		if env.tooManyFailures() {
			return
		}
		var k x04Kind
		json.Unmarshal(raw[i], &k)
		switch k.Kind {
		case "ms":
			var c x04MsCase
			if err := json.Unmarshal(raw[i], &c); err != nil {
				fmt.Fprintln(os.Stderr, "bad ms case:", err)
				os.Exit(2)
			}
			x04ReplayMs(env, kn, &c)
		case "ks":
			var c x04KsCase
			if err := json.Unmarshal(raw[i], &c); err != nil {
				fmt.Fprintln(os.Stderr, "bad ks case:", err)
				os.Exit(2)
			}
			x04ReplayKs(env, kn, &c)
		default:
			fmt.Fprintln(os.Stderr, "unknown case kind", k.Kind)
			os.Exit(2)
		}
	})
}

func x04Record(env *Env) {
	switch env.opt("part", "ms") {
	case "ms":
		x04RecordMs(env)
	case "ks":
		x04RecordKs(env)
	default:
		fmt.Fprintln(os.Stderr, "unknown part")
		os.Exit(2)
	}
}

// x04Known reports disagreements that the specification's as-written variant explains: a few full result lines per
// class (they become KNOWN-FINDING lines), the others are only counted, so that they never exhaust the failure
// budget of the replay.
type x04Known struct {
	env *Env
	mu  sync.Mutex
	n   map[string]int
}

func newX04Known(env *Env) *x04Known { return &x04Known{env: env, n: map[string]int{}} }

func (k *x04Known) hit(class, detail string, c any) {
	k.mu.Lock()
	k.n[class]++
	n := k.n[class]
	k.mu.Unlock()
	if n <= 2 {
		k.env.emit(map[string]any{"assert": "X04.known_departure", "class": class, "detail": detail, "case": c})
	}
	k.env.ok("known_departure/" + class)
}

// ------------------------------------------------------------------------------------- cases

type x04MsOut struct {
	Ul     int    `json:"ul"`
	Uc     int    `json:"uc"`
	Slen   int    `json:"slen"`
	From   int    `json:"from"`
	To     int    `json:"to"`
	Ms     string `json:"ms"`
	Unit   string `json:"unit"`
	Norm   string `json:"norm"`
	Orient string `json:"orient"`
	Left   string `json:"left"`
	Right  string `json:"right"`
	Seq    string `json:"seq"`
	Cmp    int    `json:"cmp"`
}

type x04MsCase struct {
	Kind     string     `json:"kind"`
	Cls      string     `json:"cls"`
	S        string     `json:"s"`
	Umin     int        `json:"umin"`
	Umax     int        `json:"umax"`
	Cnt      int        `json:"cnt"`
	Minlen   int        `json:"minlen"`
	Flank    int        `json:"flank"`
	Re       int        `json:"re"`
	Outs     []x04MsOut `json:"outs"`
	Dep      string     `json:"dep"`
	Codedrop int        `json:"codedrop"`
}

// x04MsObs is everything the worker shows for one input record.
type x04MsObs struct {
	Pan    int      `json:"pan"`
	Panmsg string   `json:"panmsg"`
	Err    int      `json:"err"`
	N      int      `json:"n"` // number of records returned
	Id     string   `json:"id"`
	Out    x04MsOut `json:"out"`
	Qout   []int    `json:"qout"`
	Extra  []string `json:"extra"` // annotation keys that are not the eleven of the command, or missing / mistyped ones
}

var x04MsKeys = []string{"microsat", "microsat_from", "microsat_left", "microsat_right", "microsat_to", "microsat_unit",
	"microsat_unit_count", "microsat_unit_length", "microsat_unit_normalized", "microsat_unit_orientation", "seq_length"}

func x04AsInt(v any) (int, bool) {
	switch x := v.(type) {
	case int:
		return x, true
	case int64:
		return int(x), true
	case float64:
		if x == float64(int(x)) {
			return int(x), true
		}
	}
	return 0, false
}

// x04MsRead decodes the annotations of an output record (from the library object or from a decoded JSON header).
func x04MsRead(get func(string) (any, bool), keys []string, o *x04MsObs) {
	geti := func(k string) int {
		v, ok := get(k)
		if !ok {
			o.Extra = append(o.Extra, "missing:"+k)
			return -1
		}
		i, ok := x04AsInt(v)
		if !ok {
			o.Extra = append(o.Extra, "not-int:"+k)
			return -1
		}
		return i
	}
	gets := func(k string) string {
		v, ok := get(k)
		if !ok {
			o.Extra = append(o.Extra, "missing:"+k)
			return "?"
		}
		s, ok := v.(string)
		if !ok {
			o.Extra = append(o.Extra, "not-string:"+k)
			return "?"
		}
		return s
	}
	o.Out.Ul = geti("microsat_unit_length")
	o.Out.Uc = geti("microsat_unit_count")
	o.Out.Slen = geti("seq_length")
	o.Out.From = geti("microsat_from")
	o.Out.To = geti("microsat_to")
	o.Out.Ms = gets("microsat")
	o.Out.Unit = gets("microsat_unit")
	o.Out.Norm = gets("microsat_unit_normalized")
	o.Out.Orient = gets("microsat_unit_orientation")
	o.Out.Left = gets("microsat_left")
	o.Out.Right = gets("microsat_right")
	known := map[string]bool{}
	for _, k := range x04MsKeys {
		known[k] = true
	}
	for _, k := range keys {
		if !known[k] {
			o.Extra = append(o.Extra, "unexpected:"+k)
		}
	}
	sort.Strings(o.Extra)
}

func x04MsRun(id, s string, qual []int, umin, umax, cnt, minlen, flank int, re bool) (obs x04MsObs) {
	obs.Extra = []string{}
	obs.Qout = []int{}
	defer func() {
		if r := recover(); r != nil {
			obs.Pan = 1
			obs.Panmsg = fmt.Sprint(r)
		}
	}()
	seq := obiseq.NewBioSequence(id, []byte(s), "")
	if len(qual) > 0 {
		q := make([]byte, len(qual))
		for i, v := range qual {
			q[i] = byte(v)
		}
		seq.SetQualities(q)
	}
	w := obimicrosat.MakeMicrosatWorker(umin, umax, cnt, minlen, flank, re)
	res, err := w(seq)
	if err != nil {
		obs.Err = 1
		obs.Panmsg = err.Error()
	}
	obs.N = len(res)
	if len(res) >= 1 {
		r := res[0]
		obs.Id = r.Id()
		obs.Out.Seq = r.String()
		if r.HasQualities() {
			for _, v := range r.Qualities() {
				obs.Qout = append(obs.Qout, int(v))
			}
		}
		keys := []string{}
		if r.HasAnnotation() {
			for k := range r.Annotations() {
				keys = append(keys, k)
			}
		}
		x04MsRead(r.GetAttribute, keys, &obs)
		if obs.Id == id+"_cmp" {
			obs.Out.Cmp = 1
		} else if obs.Id != id {
			obs.Extra = append(obs.Extra, "identifier:"+obs.Id)
		}
	}
	return obs
}

func (c *x04MsCase) call() string {
	return fmt.Sprintf("MakeMicrosatWorker(minUnitLength=%d, maxUnitLength=%d, minUnits=%d, minLength=%d, minFlank=%d, reoriented=%v) on %q",
		c.Umin, c.Umax, c.Cnt, c.Minlen, c.Flank, c.Re == 1, c.S)
}

func x04MsShow(o *x04MsOut) string {
	return fmt.Sprintf("{from=%d to=%d unit=%q x%d (len %d) normalized=%q %s left=%q microsat=%q right=%q seq=%q cmp=%d seq_length=%d}",
		o.From, o.To, o.Unit, o.Uc, o.Ul, o.Norm, o.Orient, o.Left, o.Ms, o.Right, o.Seq, o.Cmp, o.Slen)
}

// x04MsDiff names the first clause on which an observed record differs from an acceptable one.
func x04MsDiff(o, w *x04MsOut) string {
	switch {
	case o.From != w.From || o.To != w.To || o.Ul != w.Ul || o.Uc != w.Uc:
		return "location"
	case o.Unit != w.Unit:
		return "unit"
	case o.Norm != w.Norm:
		return "normalized_unit"
	case o.Orient != w.Orient:
		return "orientation"
	case o.Seq != w.Seq || o.Cmp != w.Cmp:
		return "reorientation"
	case o.Left != w.Left || o.Right != w.Right || o.Ms != w.Ms:
		return "flanks"
	case o.Slen != w.Slen:
		return "seq_length"
	}
	return ""
}

func x04ReplayMs(env *Env, kn *x04Known, c *x04MsCase) {
	obs := x04MsRun("s", c.S, nil, c.Umin, c.Umax, c.Cnt, c.Minlen, c.Flank, c.Re == 1)
	want := make([]string, len(c.Outs))
	for i := range c.Outs {
		want[i] = x04MsShow(&c.Outs[i])
	}
	wants := "nothing (the record is dropped)"
	if len(want) > 0 {
		wants = strings.Join(want, " or ")
	}
	switch {
	case obs.Pan == 1:
		env.fail("X04.microsat.panic", c.Cls, fmt.Sprintf("%s panics: %s; expected %s", c.call(), obs.Panmsg, wants), c)
		return
	case obs.Err == 1 || obs.N > 1:
		env.fail("X04.microsat.presence", c.Cls, fmt.Sprintf("%s returns %d records, error %q; expected %s", c.call(), obs.N, obs.Panmsg, wants), c)
		return
	case obs.N == 0 && len(c.Outs) == 0:
		env.ok(c.Cls)
		return
	case obs.N == 0:
		if c.Dep != "none" && c.Codedrop == 1 {
			kn.hit("microsat/"+c.Dep, fmt.Sprintf("%s drops the record; expected %s", c.call(), wants), c)
			return
		}
		env.fail("X04.microsat.presence", c.Cls, fmt.Sprintf("%s drops the record; expected %s", c.call(), wants), c)
		return
	case len(c.Outs) == 0:
		env.fail("X04.microsat.presence", c.Cls, fmt.Sprintf("%s returns %s; expected nothing (no microsatellite, or a flank shorter than asked)", c.call(), x04MsShow(&obs.Out)), c)
		return
	}
	if len(obs.Extra) > 0 {
		env.fail("X04.microsat.annotations", c.Cls, fmt.Sprintf("%s: annotations %v; the record must carry exactly %v, identifier s or s_cmp", c.call(), obs.Extra, x04MsKeys), c)
		return
	}
	best := ""
	for i := range c.Outs {
		d := x04MsDiff(&obs.Out, &c.Outs[i])
		if d == "" {
			env.ok(c.Cls)
			if len(c.Outs) == 2 {
				env.ok("either_orientation/answered_" + obs.Out.Orient)
			}
			env.sample(map[string]any{"call": c.call(), "returned": x04MsShow(&obs.Out)})
			return
		}
		if best == "" || c.Outs[i].Orient == obs.Out.Orient {
			best = d
		}
	}
	env.fail("X04.microsat."+best, c.Cls, fmt.Sprintf("%s returns %s; expected %s", c.call(), x04MsShow(&obs.Out), wants), c)
}

// ------------------------------------------------------------------------------------- generator

var x04SelfRcUnits = []string{"at", "ta", "cg", "gc", "acgt", "tcga", "cgat", "gatc", "aatt", "ttaa", "agct", "ctag", "tgca", "catg", "gtac"}

func x04RandSeq(rng *rand.Rand, n int, alpha string) string {
	b := make([]byte, n)
	for i := range b {
		b[i] = alpha[rng.Intn(len(alpha))]
	}
	return string(b)
}

// x04RandFlank: random bases that rarely hold a repeat themselves; now and then an ambiguity code.
func x04RandFlank(rng *rand.Rand, n int, iupac bool) string {
	b := []byte(x04RandSeq(rng, n, "acgt"))
	if iupac {
		for i := range b {
			if rng.Intn(25) == 0 {
				b[i] = "nrykmswbdhv"[rng.Intn(11)]
			}
		}
	}
	return string(b)
}

func x04Primitive(u string) bool {
	for d := 1; d < len(u); d++ {
		if len(u)%d == 0 && strings.Repeat(u[:d], len(u)/d) == u {
			return false
		}
	}
	return true
}

func x04RandUnit(rng *rand.Rand, lo, hi int) string {
	for {
		u := x04RandSeq(rng, lo+rng.Intn(hi-lo+1), "acgt")
		if x04Primitive(u) {
			return u
		}
	}
}

func x04Repeat(u string, k, partial int) string {
	return strings.Repeat(u, k) + u[:partial%len(u)]
}

type x04MsInput struct {
	Sc     string `json:"sc"`
	Id     string `json:"id"`
	S      string `json:"s"`
	Q      []int  `json:"q"`
	Umin   int    `json:"umin"`
	Umax   int    `json:"umax"`
	Cnt    int    `json:"cnt"`
	Minlen int    `json:"minlen"`
	Flank  int    `json:"flank"`
	Re     int    `json:"re"`
}

// x04MsOptions draws an option set; dflt: the options of the command line without any option.
func x04MsOptions(rng *rand.Rand, dflt bool) x04MsInput {
	in := x04MsInput{Umin: 1, Umax: 6, Cnt: 5, Minlen: 20, Flank: 0, Re: 1, Q: []int{}}
	if !dflt {
		in.Umin = 1 + rng.Intn(3)
		in.Umax = in.Umin + rng.Intn(6)
		in.Cnt = 2 + rng.Intn(5)
		in.Minlen = []int{0, 6, 10, 15, 20, 30}[rng.Intn(6)]
		in.Flank = []int{0, 0, 0, 3, 10, 25}[rng.Intn(6)]
		in.Re = rng.Intn(2)
	}
	return in
}

var x04MsScenarios = []string{"planted", "planted", "none", "selfrc", "short_first", "small_period_first", "two", "imperfect", "at_start", "at_end", "whole",
	"nested_units", "interrupted", "just_below", "flank_limit", "big_unit"}

// x04MsGen draws scenario i under the options of opts.  Unless fixed (options shared by a whole file), the
// scenarios "flank_limit" and "big_unit" adjust the options to make their point.
func x04MsGen(rng *rand.Rand, i int, opts x04MsInput, fixed bool, maxlen int) x04MsInput {
	in := opts
	in.Q = []int{}
	iupac := rng.Intn(3) == 0
	fl := func() string { return x04RandFlank(rng, 3+rng.Intn(maxlen/3), iupac) }
	unit := func() string { return x04RandUnit(rng, in.Umin, in.Umax) }
	long := func(u string) string { // a repeat that qualifies
		k := in.Cnt + rng.Intn(6)
		for k*len(u) < in.Minlen {
			k++
		}
		return x04Repeat(u, k, rng.Intn(len(u)+1))
	}
	in.Sc = x04MsScenarios[i%len(x04MsScenarios)]
	switch in.Sc {
	case "planted":
		in.S = fl() + long(unit()) + fl()
	case "none":
		in.S = x04RandFlank(rng, 20+rng.Intn(maxlen), iupac)
	case "selfrc":
		u := x04SelfRcUnits[rng.Intn(len(x04SelfRcUnits))]
		in.S = fl() + long(u) + fl()
	case "short_first": // a repeat of N copies that is too short, then a real one
		u1 := x04RandUnit(rng, in.Umin, in.Umin)
		in.S = fl() + x04Repeat(u1, in.Cnt, 0) + fl() + long(unit()) + fl()
	case "small_period_first": // a homopolymer seen as copies of a longer group, then a real one
		b := x04RandSeq(rng, 1, "acgt")
		in.S = fl() + strings.Repeat(b, in.Cnt*in.Umax+rng.Intn(5)) + fl() + long(unit()) + fl()
	case "two":
		in.S = fl() + long(unit()) + fl() + long(unit()) + fl()
	case "imperfect": // one substitution inside a long repeat
		u := unit()
		r := []byte(long(u) + long(u))
		p := rng.Intn(len(r))
		r[p] = "acgt"[(strings.IndexByte("acgt", r[p])+1+rng.Intn(3))%4]
		in.S = fl() + string(r) + fl()
	case "at_start":
		in.S = long(unit()) + fl()
	case "at_end":
		in.S = fl() + long(unit())
	case "whole":
		in.S = long(unit())
	case "nested_units": // (u^j v) repeated: the small unit u is repeated inside the big one
		u := x04RandUnit(rng, 1, 2)
		big := strings.Repeat(u, 2+rng.Intn(3)) + x04RandSeq(rng, 1, "acgt")
		in.S = fl() + x04Repeat(big, in.Cnt+rng.Intn(3), rng.Intn(len(big))) + fl()
	case "interrupted": // an ambiguity code in the middle of a repeat
		u := unit()
		in.S = fl() + long(u) + "n" + long(u) + fl()
	case "just_below": // one copy short, or one symbol short of the minimum length
		u := unit()
		k := in.Cnt - 1
		if rng.Intn(2) == 0 && in.Minlen > 0 {
			k = (in.Minlen - 1) / len(u)
		}
		if k < 1 {
			k = 1
		}
		in.S = x04RandFlank(rng, 5+rng.Intn(20), false) + x04Repeat(u, k, rng.Intn(len(u))) + x04RandFlank(rng, 5+rng.Intn(20), false)
	case "flank_limit": // flanks around the limit
		if in.Flank == 0 && !fixed {
			in.Flank = 3
		}
		f := in.Flank
		if f == 0 {
			f = 2
		}
		in.S = x04RandFlank(rng, f-1+rng.Intn(3), false) + long(unit()) + x04RandFlank(rng, f-1+rng.Intn(3), false)
	case "big_unit":
		if !fixed {
			in.Umax = in.Umin + 6 + rng.Intn(6)
		}
		lo := in.Umax - 3
		if lo < in.Umin {
			lo = in.Umin
		}
		in.S = fl() + long(x04RandUnit(rng, lo, in.Umax)) + fl()
	}
	if len(in.S) == 0 {
		in.S = "a"
	}
	if rng.Intn(3) == 0 {
		in.Q = make([]int, len(in.S))
		for j := range in.Q {
			in.Q[j] = rng.Intn(41)
		}
	}
	in.Id = fmt.Sprintf("seq%05d", i)
	return in
}

func x04RecordMs(env *Env) {
	rng := rand.New(rand.NewSource(env.seed*7919 + 17))
	maxlen := env.optInt("maxlen", 120)
	if rp := env.opt("replay", ""); rp != "" { // observe again the inputs of recorded events
		for _, in := range loadCases[x04MsInput](rp) {
			obs := x04MsRun(in.Id, in.S, in.Q, in.Umin, in.Umax, in.Cnt, in.Minlen, in.Flank, in.Re == 1)
			env.emit(x04MsEvent(&in, &obs, "lib"))
		}
		return
	}
	if dir := env.opt("dir", ""); dir != "" {
		x04WriteMsFiles(env, rng, dir, maxlen)
		return
	}
	ins := make([]x04MsInput, env.n)
	for i := range ins {
		ins[i] = x04MsGen(rng, i, x04MsOptions(rng, (i/len(x04MsScenarios))%3 == 0), false, maxlen)
	}
	evs := make([]map[string]any, len(ins))
	parallel(len(ins), 0, func(i int) {
		in := &ins[i]
		obs := x04MsRun(in.Id, in.S, in.Q, in.Umin, in.Umax, in.Cnt, in.Minlen, in.Flank, in.Re == 1)
		evs[i] = x04MsEvent(in, &obs, "lib")
	})
	for _, e := range evs {
		env.emit(e)
	}
}

func x04MsEvent(in *x04MsInput, obs *x04MsObs, origin string) map[string]any {
	return map[string]any{"kind": "ms", "origin": origin, "sc": in.Sc, "id": in.Id, "s": in.S, "q": in.Q,
		"umin": in.Umin, "umax": in.Umax, "cnt": in.Cnt, "minlen": in.Minlen, "flank": in.Flank, "re": in.Re,
		"pan": obs.Pan, "panmsg": obs.Panmsg, "n": obs.N, "out": obs.Out, "qout": obs.Qout, "extra": obs.Extra, "idout": obs.Id}
}

// x04WriteMsFiles writes env.n input files (FASTA, or FASTQ when the records carry scores) with one option set per
// file, and the manifest (one line per file: path, options as argv, the records) on env.out.
func x04WriteMsFiles(env *Env, rng *rand.Rand, dir string, maxlen int) {
	os.MkdirAll(dir, 0o755)
	per := env.optInt("per", 40)
	for f := 0; f < env.n; f++ {
		proto := x04MsOptions(rng, f%2 == 0)
		fastq := f%3 == 1
		recs := make([]x04MsInput, per)
		var sb strings.Builder
		for i := range recs {
			in := x04MsGen(rng, f*per+i, proto, true, maxlen)
			in.Id = fmt.Sprintf("f%dr%03d", f, i)
			if fastq {
				in.Q = make([]int, len(in.S))
				var qs strings.Builder
				for j := range in.Q {
					in.Q[j] = rng.Intn(41)
					qs.WriteByte(byte(33 + in.Q[j]))
				}
				fmt.Fprintf(&sb, "@%s\n%s\n+\n%s\n", in.Id, in.S, qs.String())
			} else {
				in.Q = []int{}
				fmt.Fprintf(&sb, ">%s\n%s\n", in.Id, in.S)
			}
			recs[i] = in
		}
		ext := "fasta"
		if fastq {
			ext = "fastq"
		}
		path := filepath.Join(dir, fmt.Sprintf("ms%03d.%s", f, ext))
		if err := os.WriteFile(path, []byte(sb.String()), 0o644); err != nil {
			fmt.Fprintln(os.Stderr, err)
			os.Exit(2)
		}
		argv := []string{}
		if f%2 != 0 { // every option spelled out (also when it has its default value)
			argv = append(argv, "--min-unit-length", fmt.Sprint(proto.Umin), "--max-unit-length", fmt.Sprint(proto.Umax),
				"--min-unit-count", fmt.Sprint(proto.Cnt), "--min-length", fmt.Sprint(proto.Minlen), "--min-flank-length", fmt.Sprint(proto.Flank))
			if proto.Re == 0 {
				argv = append(argv, "--not-reoriented")
			}
		}
		env.emit(map[string]any{"file": path, "fastq": fastq, "argv": argv, "recs": recs})
	}
}


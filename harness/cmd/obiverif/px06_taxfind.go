package main

// X06 (extension) - obifind, and the taxonomy options of obiannotate (statements: extra/X06.md).
//
// The driver writes taxonomies as NCBI dump directories, runs the REAL binaries obifind / obiannotate on them
// and only decodes what they print.  replay: compares with the blocks of lines / attribute sets exported by
// TLC (spec/L3_command/TaxFindMC.tla).  record: random taxonomies and command lines far beyond the model,
// one event per run, judged by spec/trace/TaxFindTrace.tla.  No expected value is computed here.

import (
	"bytes"
	"encoding/json"
	"fmt"
	"math/rand"
	"os"
	"path/filepath"
	"sort"
	"strconv"
	"strings"
	"sync"
	"sync/atomic"
)

func init() {
	register("X06", &driver{replay: x06Replay, record: x06Record})
}

// ------------------------------------------------------------------------------------ inputs

type x06Tax struct {
	Parent []int      `json:"parent"`
	Rank   []string   `json:"rank"`
	Name   []string   `json:"name"`
	Alt    [][]string `json:"alt"` // names other than the scientific name, in the order of names.dmp
	Alias  [][]int    `json:"alias"`
}

type x06Pat struct {
	Lit  string `json:"lit"`
	Head bool   `json:"head"`
	Tail bool   `json:"tail"`
}

type x06Query struct {
	Mode     string   `json:"mode"` // names | all | path | ranks
	Pats     []x06Pat `json:"pats"`
	Fixed    bool     `json:"fixed"`
	AllNames bool     `json:"allnames"`
	WithPath bool     `json:"withpath"`
	Rank     string   `json:"rank"`
	Clades   []int    `json:"clades"`
	Taxid    int      `json:"taxid"`
}

type x06Opts struct {
	Sci    bool     `json:"sci"`
	Rank   bool     `json:"rank"`
	Path   bool     `json:"path"`
	AtRank []string `json:"atrank"`
}

type x06Rec struct {
	Has   bool `json:"has"`
	Taxid int  `json:"taxid"`
}

// x06WriteDump writes nodes.dmp / names.dmp / merged.dmp.  The nodes and the groups of names come in a random
// order; inside the group of a taxon the alternative names keep their order, the scientific name stands at a
// random place among them.
func x06WriteDump(dir string, t *x06Tax, rng *rand.Rand) error {
	if err := os.MkdirAll(dir, 0o755); err != nil {
		return err
	}
	n := len(t.Parent)
	var nodes, names, merged bytes.Buffer
	for _, i := range rng.Perm(n) {
		fmt.Fprintf(&nodes, "%d\t|\t%d\t|\t%s\t|\t\t|\t8\t|\t0\t|\t1\t|\t0\t|\t0\t|\t0\t|\t0\t|\t0\t|\t\t|\n", i+1, t.Parent[i], t.Rank[i])
	}
	classes := []string{"synonym", "genbank common name", "common name", "equivalent name", "authority"}
	for _, i := range rng.Perm(n) {
		at := rng.Intn(len(t.Alt[i]) + 1)
		for j := 0; j <= len(t.Alt[i]); j++ {
			if j == at {
				fmt.Fprintf(&names, "%d\t|\t%s\t|\t\t|\tscientific name\t|\n", i+1, t.Name[i])
			}
			if j < len(t.Alt[i]) {
				fmt.Fprintf(&names, "%d\t|\t%s\t|\t\t|\t%s\t|\n", i+1, t.Alt[i][j], classes[rng.Intn(len(classes))])
			}
		}
	}
	for _, a := range t.Alias {
		fmt.Fprintf(&merged, "%d\t|\t%d\t|\n", a[0], a[1])
	}
	for f, b := range map[string]*bytes.Buffer{"nodes.dmp": &nodes, "names.dmp": &names, "merged.dmp": &merged} {
		if err := os.WriteFile(filepath.Join(dir, f), b.Bytes(), 0o644); err != nil {
			return err
		}
	}
	return nil
}

// x06Run runs a binary; a run that fails is repeated once: a crash that does not repeat on the same input is not a
// statement about the taxonomy (it belongs to the properties of the readers and writers) and is only counted.
var x06Transient int64

func x06Run(bin string, args []string, dir string) (stdout []byte, rc int, stderr string) {
	stdout, rc, stderr = runBinary(bin, args, dir)
	if rc != 0 {
		o2, rc2, e2 := runBinary(bin, args, dir)
		if rc2 == 0 {
			atomic.AddInt64(&x06Transient, 1)
			fmt.Fprintf(os.Stderr, "x06: %s %v failed once (exit %d) and succeeded when repeated: %s\n", filepath.Base(bin), args, rc, x06Trunc(stderr))
			return o2, rc2, e2
		}
	}
	return
}

// x06Arg is the command-line spelling of a pattern (the specification's Arg).
func x06Arg(p x06Pat) string {
	s := p.Lit
	if p.Head {
		s = "^" + s
	}
	if p.Tail {
		s = s + "$"
	}
	return s
}

func x06FindArgs(dir string, q *x06Query, args []string) []string {
	a := []string{"-t", dir}
	if q.Fixed {
		a = append(a, "-F")
	}
	if q.AllNames {
		a = append(a, "-a")
	}
	if q.WithPath {
		a = append(a, "-P")
	}
	if q.Rank != "" {
		a = append(a, "--rank", q.Rank)
	}
	for _, c := range q.Clades {
		a = append(a, "-r", strconv.Itoa(c))
	}
	switch q.Mode {
	case "path":
		a = append(a, "-p", strconv.Itoa(q.Taxid))
	case "ranks":
		a = append(a, "-l")
	}
	return append(a, args...)
}

// x06Lines: the lines of a standard output (the last one may lack its end of line).
func x06Lines(out []byte) []string {
	s := string(out)
	if s == "" {
		return []string{}
	}
	s = strings.TrimSuffix(s, "\n")
	return strings.Split(s, "\n")
}

func x06RunFind(bindir, dir string, q *x06Query, args []string) (lines []string, rc int, stderr string, cmdline []string) {
	cmdline = x06FindArgs(dir, q, args)
	out, rc, stderr := x06Run(filepath.Join(bindir, "obifind"), cmdline, dir)
	return x06Lines(out), rc, stderr, cmdline
}

type x06Obs struct {
	N  int      `json:"n"` // how many times the record was written
	Ik []string `json:"ik"`
	Iv []int    `json:"iv"`
	Sk []string `json:"sk"`
	Sv []string `json:"sv"`
}

func x06AnnotArgs(dir string, o *x06Opts, in string) []string {
	a := []string{"-t", dir}
	for _, r := range o.AtRank {
		a = append(a, "--with-taxon-at-rank", r)
	}
	if o.Path {
		a = append(a, "--taxonomic-path")
	}
	if o.Rank {
		a = append(a, "--taxonomic-rank")
	}
	if o.Sci {
		a = append(a, "--scientific-name")
	}
	return append(a, "--max-cpu", "2", in)
}

// x06RunAnnot runs obiannotate on one record per element of recs (ids r1, r2, ...) and decodes, per input
// record, the attributes of the record written: integers and texts, sorted by key.  Anything else (a nested
// value, a non-integral number) is reported in problem.
func x06RunAnnot(bindir, dir, tag string, o *x06Opts, recs []x06Rec) (obs []x06Obs, rc int, problem string, cmdline []string) {
	in := filepath.Join(dir, "in_"+tag+".fasta")
	var fb bytes.Buffer
	for i, r := range recs {
		if r.Has {
			fmt.Fprintf(&fb, ">r%d {\"taxid\":%d}\nacgtacgt\n", i+1, r.Taxid)
		} else {
			fmt.Fprintf(&fb, ">r%d\nacgtacgt\n", i+1)
		}
	}
	os.WriteFile(in, fb.Bytes(), 0o644)
	defer os.Remove(in)
	cmdline = x06AnnotArgs(dir, o, in)
	out, rc, stderr := x06Run(filepath.Join(bindir, "obiannotate"), cmdline, dir)
	obs = make([]x06Obs, len(recs))
	for i := range obs {
		obs[i] = x06Obs{Ik: []string{}, Iv: []int{}, Sk: []string{}, Sv: []string{}}
	}
	if rc != 0 {
		return obs, rc, stderr, cmdline
	}
	parsed, err := parseFastaHeaders(out)
	if err != nil {
		return obs, rc, err.Error(), cmdline
	}
	for _, p := range parsed {
		i, err := strconv.Atoi(strings.TrimPrefix(p.id, "r"))
		if err != nil || i < 1 || i > len(recs) {
			problem += "unexpected record " + p.id + "; "
			continue
		}
		ob := &obs[i-1]
		ob.N++
		if ob.N > 1 {
			continue
		}
		keys := []string{}
		for k := range p.ann {
			keys = append(keys, k)
		}
		sort.Strings(keys)
		for _, k := range keys {
			switch v := p.ann[k].(type) {
			case float64:
				if v != float64(int(v)) {
					problem += fmt.Sprintf("attribute %s=%v of %s; ", k, v, p.id)
				}
				ob.Ik = append(ob.Ik, k)
				ob.Iv = append(ob.Iv, int(v))
			case string:
				ob.Sk = append(ob.Sk, k)
				ob.Sv = append(ob.Sv, v)
			default:
				problem += fmt.Sprintf("attribute %s=%v of %s; ", k, v, p.id)
			}
		}
	}
	return obs, rc, problem, cmdline
}

// -------------------------------------------------------------------------------------- replay

type x06Exp struct {
	// obifind
	Q             *x06Query  `json:"q"`
	Args          []string   `json:"args"`
	Fails         bool       `json:"fails"`
	Blocks        [][]string `json:"blocks"`
	BlocksWritten [][]string `json:"blocks_written"`
	// obiannotate
	Opts        *x06Opts     `json:"opts"`
	Recs        []x06Rec     `json:"recs"`
	Ints        [][][]any    `json:"ints"`
	Strs        [][][]string `json:"strs"`
	StrsWritten [][][]string `json:"strs_written"`
	// obiannotate --add-lca-in
	Slot       string            `json:"slot"`
	Tol        int               `json:"E"`
	LRecs      []x06LcaRec       `json:"lrecs"`
	Keys       map[string]string `json:"keys"`
	KeySets    [][][]string      `json:"keysets"`
	Acc        [][]x06Acc        `json:"acc"`
	AccWritten [][]x06Acc        `json:"acc_written"`
}

// x06Acc: an acceptable answer (taxon c, reported error between lo and hi, in 1/1000)
type x06Acc struct {
	C  int `json:"c"`
	Lo int `json:"lo"`
	Hi int `json:"hi"`
}

type x06Case struct {
	x06Tax
	K   int    `json:"k"`
	Exp x06Exp `json:"exp"`
}

// x06IsBlocks: out is the blocks in their order, each block being its lines once each in any order.
func x06IsBlocks(out []string, blocks [][]string) bool {
	at := 0
	for _, b := range blocks {
		if at+len(b) > len(out) {
			return false
		}
		got := append([]string{}, out[at:at+len(b)]...)
		want := append([]string{}, b...)
		sort.Strings(got)
		sort.Strings(want)
		for i := range got {
			if got[i] != want[i] {
				return false
			}
		}
		at += len(b)
	}
	return at == len(out)
}

func x06SamePairs(keys []string, vals []string, want [][]string) bool {
	if len(keys) != len(want) {
		return false
	}
	have := map[string]string{}
	for i, k := range keys {
		have[k] = vals[i]
	}
	for _, w := range want {
		if v, ok := have[w[0]]; !ok || v != w[1] {
			return false
		}
	}
	return len(have) == len(want)
}

// Departures that the specification's as-written variant explains exactly are everywhere (every --rank-list,
// every --scientific-name): two full reports per kind, the others are counted (they must not use up the
// failure budget that stops a replay).
var x06KnownSeen = struct {
	mu sync.Mutex
	n  map[string]int
}{n: map[string]int{}}

func x06Known(env *Env, assert, class, detail string, c any) {
	x06KnownSeen.mu.Lock()
	x06KnownSeen.n[assert]++
	k := x06KnownSeen.n[assert]
	x06KnownSeen.mu.Unlock()
	if k <= 2 {
		env.emit(map[string]any{"assert": assert, "class": class, "detail": detail, "case": c})
	}
	env.ok(strings.TrimPrefix(assert, "X06."))
}

func x06FindClass(q *x06Query) string {
	c := "find." + q.Mode
	if q.Mode == "names" {
		if q.Fixed {
			c += ".fixed"
		} else {
			c += ".regexp"
		}
		if q.AllNames {
			c += ".allnames"
		}
	}
	if q.Rank != "" {
		c += ".rank"
	}
	if len(q.Clades) > 0 {
		c += ".clades"
	}
	if q.WithPath {
		c += ".withpath"
	}
	return c
}

func x06Trunc(s string) string {
	if len(s) > 1500 {
		return s[:1100] + " [...] " + s[len(s)-300:]
	}
	return s
}

func x06ReplayFind(env *Env, bindir, dir string, c *x06Case) {
	e := &c.Exp
	lines, rc, stderr, cmdline := x06RunFind(bindir, dir, e.Q, e.Args)
	class := x06FindClass(e.Q)
	show := func() string {
		return x06Trunc(fmt.Sprintf("obifind %s -> exit %d, %d lines %q; expected %q; stderr: %s",
			strings.Join(cmdline[2:], " "), rc, len(lines), lines, e.Blocks, stderr))
	}
	if e.Fails {
		good := rc != 0
		for _, l := range lines {
			if strings.Contains(l, " | ") {
				good = false
			}
		}
		if !good {
			env.fail("X06.find.unknown_taxid", class+".fails", "a taxid that means nothing is not refused: "+show(), c)
			return
		}
		env.ok(class + ".fails")
		return
	}
	if rc != 0 {
		env.fail("X06.find.failed", class, show(), c)
		return
	}
	got := lines
	if e.Q.Mode == "ranks" {
		got = []string{}
		for _, l := range lines {
			got = append(got, strings.TrimRight(l, " "))
		}
	}
	switch {
	case x06IsBlocks(got, e.Blocks):
		env.ok(class)
		if len(e.BlocksWritten) == len(e.Blocks) && !x06IsBlocks(got, e.BlocksWritten) {
			env.ok("scn.first_alt_name_decides") // the statement and the code as written would differ here
		}
		for _, b := range e.Blocks {
			if len(b) == 0 {
				env.ok("scn.empty_block")
			}
			if len(b) > 1 {
				env.ok("scn.block_of_several")
			}
		}
	case e.Q.Mode == "ranks" && x06IsBlocks(lines, e.BlocksWritten):
		x06Known(env, "X06.known.rank_list_ignored", class, "--rank-list lists the taxa, not the ranks: "+show(), c)
	case e.Q.Mode != "ranks" && x06IsBlocks(lines, e.BlocksWritten):
		x06Known(env, "X06.known.first_alt_name_lost", class, "the first alternative name of a taxon is not searched: "+show(), c)
	default:
		env.fail("X06.find.listing", class, show(), c)
	}
}

func x06AnnotClass(o *x06Opts) string {
	c := "annot"
	if len(o.AtRank) > 0 {
		c += ".atrank"
	}
	if o.Path {
		c += ".path"
	}
	if o.Rank {
		c += ".rank"
	}
	if o.Sci {
		c += ".sci"
	}
	return c
}

func x06ReplayAnnot(env *Env, bindir, dir string, c *x06Case) {
	e := &c.Exp
	obs, rc, problem, cmdline := x06RunAnnot(bindir, dir, "k"+strconv.Itoa(c.K), e.Opts, e.Recs)
	class := x06AnnotClass(e.Opts)
	cl := "obiannotate " + strings.Join(cmdline[2:len(cmdline)-1], " ")
	if e.Fails {
		if rc == 0 {
			env.fail("X06.annot.unknown_taxid", class+".fails", cl+": exit 0 although a record's taxid means nothing", c)
			return
		}
		env.ok(class + ".fails")
		return
	}
	if rc != 0 || problem != "" {
		env.fail("X06.annot.failed", class, x06Trunc(fmt.Sprintf("%s: exit %d: %s", cl, rc, problem)), c)
		return
	}
	known := false
	for i, r := range e.Recs {
		o := obs[i]
		what := fmt.Sprintf("%s: record %d (taxid %d, has=%v): written %d time(s) with %v=%v %v=%q; expected %v %q",
			cl, i+1, r.Taxid, r.Has, o.N, o.Ik, o.Iv, o.Sk, o.Sv, e.Ints[i], e.Strs[i])
		if o.N != 1 {
			env.fail("X06.annot.record", class, what, c)
			return
		}
		wantI := [][]string{}
		for _, p := range e.Ints[i] {
			wantI = append(wantI, []string{p[0].(string), strconv.Itoa(int(p[1].(float64)))})
		}
		gotI := []string{}
		for _, v := range o.Iv {
			gotI = append(gotI, strconv.Itoa(v))
		}
		if !x06SamePairs(o.Ik, gotI, wantI) {
			env.fail("X06.annot.int_attributes", class, what, c)
			return
		}
		switch {
		case x06SamePairs(o.Sk, o.Sv, e.Strs[i]):
		case x06SamePairs(o.Sk, o.Sv, e.StrsWritten[i]):
			known = true
		default:
			env.fail("X06.annot.text_attributes", class, what, c)
			return
		}
		if !r.Has {
			env.ok("scn.annot_without_taxid")
		}
	}
	if known {
		x06Known(env, "X06.known.scientific_name_key", class, cl+": the scientific name is written under the key scienctific_name", c)
		return
	}
	env.ok(class)
}

func x06Replay(env *Env) {
	bindir := env.opt("bindir", "")
	cases := loadCases[x06Case](env.cases)
	tmp, err := os.MkdirTemp(filepath.Dir(env.out), "x06r")
	if err != nil {
		fmt.Fprintln(os.Stderr, err)
		os.Exit(2)
	}
	defer os.RemoveAll(tmp)
	// one dump directory per taxonomy
	groups := map[string][]int{}
	order := []string{}
	for i := range cases {
		b, _ := json.Marshal(cases[i].x06Tax)
		key := string(b)
		if _, ok := groups[key]; !ok {
			order = append(order, key)
		}
		groups[key] = append(groups[key], i)
	}
	parallel(len(order), 12, func(g int) {
		idx := groups[order[g]]
		rng := rand.New(rand.NewSource(env.seed*7919 + int64(g)))
		dir := filepath.Join(tmp, "t"+strconv.Itoa(g))
		if err := x06WriteDump(dir, &cases[idx[0]].x06Tax, rng); err != nil {
			fmt.Fprintln(os.Stderr, "cannot write dump:", err)
			os.Exit(2)
		}
		defer os.RemoveAll(dir)
		for _, i := range idx {
			if env.tooManyFailures() {
				return
			}
			c := &cases[i]
			if c.Exp.Q != nil {
				x06ReplayFind(env, bindir, dir, c)
			} else if c.Exp.LRecs != nil {
				x06ReplayLca(env, bindir, dir, c)
			} else {
				x06ReplayAnnot(env, bindir, dir, c)
			}
		}
	})
}

// -------------------------------------------------------------------------------------- record

var x06Syll = []string{"ab", "ba", "ca", "bac", "abc", "c", "a", "lus", "ia"}

func x06Word(rng *rand.Rand) string {
	w := ""
	for k := 1 + rng.Intn(3); k > 0; k-- {
		w += x06Syll[rng.Intn(len(x06Syll))]
	}
	return w
}

func x06Name(rng *rand.Rand) string {
	s := strings.ToUpper(x06Word(rng)[:1]) + x06Word(rng)
	switch rng.Intn(4) {
	case 0:
		s += " " + x06Word(rng)
	case 1:
		s += " " + x06Word(rng) + " " + strconv.Itoa(rng.Intn(30))
	}
	return s
}

func x06RandomTax(rng *rand.Rand, n int, shape string) *x06Tax {
	d := randomTaxDef(rng, n, shape) // tree, ranks, aliases: the generator of C14
	t := &x06Tax{Parent: d.Parent, Rank: d.Rank, Alias: d.Alias, Name: make([]string, n), Alt: make([][]string, n)}
	for i := 0; i < n; i++ {
		t.Name[i] = x06Name(rng)
		t.Alt[i] = []string{}
		if rng.Intn(3) > 0 {
			seen := map[string]bool{t.Name[i]: true}
			for k := 1 + rng.Intn(3); k > 0; k-- {
				a := x06Name(rng)
				if rng.Intn(3) == 0 {
					a = strings.ToLower(a)
				}
				if !seen[a] {
					seen[a] = true
					t.Alt[i] = append(t.Alt[i], a)
				}
			}
		}
	}
	if n > 3 && rng.Intn(2) == 0 { // homonyms: two taxa with the same scientific name, a synonym equal to another taxon's name
		t.Name[rng.Intn(n)] = t.Name[rng.Intn(n)]
		i, j := rng.Intn(n), rng.Intn(n)
		if i != j && t.Name[i] != t.Name[j] {
			dup := false
			for _, a := range t.Alt[i] {
				dup = dup || a == t.Name[j]
			}
			if !dup {
				t.Alt[i] = append(t.Alt[i], t.Name[j])
			}
		}
	}
	return t
}

func x06AnyId(rng *rand.Rand, t *x06Tax, unknownToo bool) int {
	n := len(t.Parent)
	switch x := rng.Intn(12); {
	case x < 2 && len(t.Alias) > 0:
		return t.Alias[rng.Intn(len(t.Alias))][0]
	case x == 2 && unknownToo:
		return 4*n + 50 + rng.Intn(5)
	case x == 3:
		for i, p := range t.Parent {
			if p == i+1 {
				return i + 1
			}
		}
	}
	return 1 + rng.Intn(n)
}

func x06RandomPat(rng *rand.Rand, t *x06Tax, fixed, all bool) x06Pat {
	n := len(t.Parent)
	i := rng.Intn(n)
	src := t.Name[i]
	if all && len(t.Alt[i]) > 0 && rng.Intn(3) > 0 {
		src = t.Alt[i][rng.Intn(len(t.Alt[i]))] // mostly the first or the only one when there are few
		if rng.Intn(2) == 0 {
			src = t.Alt[i][0]
		}
	}
	if fixed {
		switch rng.Intn(6) {
		case 0:
			return x06Pat{Lit: src + "x"}
		case 1:
			return x06Pat{Lit: src[:len(src)-1]}
		}
		return x06Pat{Lit: src}
	}
	a := rng.Intn(len(src))
	b := a + 1 + rng.Intn(len(src)-a)
	if rng.Intn(4) == 0 {
		a, b = 0, len(src)
	}
	lit := []byte(src[a:b])
	if rng.Intn(4) == 0 {
		lit[rng.Intn(len(lit))] = '.'
	}
	p := x06Pat{Lit: string(lit)}
	if rng.Intn(3) == 0 {
		p.Head = true
	}
	if rng.Intn(3) == 0 {
		p.Tail = true
	}
	return p
}

func x06RandomQuery(rng *rand.Rand, t *x06Tax) *x06Query {
	n := len(t.Parent)
	q := &x06Query{Mode: "all", Pats: []x06Pat{}, Clades: []int{}}
	switch x := rng.Intn(20); {
	case x < 11:
		q.Mode = "names"
	case x < 15:
		q.Mode = "path"
		q.Taxid = x06AnyId(rng, t, true)
	case x == 15:
		q.Mode = "ranks"
	}
	q.WithPath = rng.Intn(3) == 0 && n <= 160
	if q.Mode == "names" {
		q.Fixed = rng.Intn(3) == 0
		q.AllNames = rng.Intn(2) == 0
		for k := 1 + rng.Intn(3); k > 0; k-- {
			q.Pats = append(q.Pats, x06RandomPat(rng, t, q.Fixed, q.AllNames))
		}
	}
	if q.Mode != "ranks" && rng.Intn(3) == 0 {
		q.Rank = pickRank(rng, &taxDef{Parent: t.Parent, Rank: t.Rank}, rng.Intn(6) > 0)
	}
	if q.Mode != "ranks" && rng.Intn(5) < 2 {
		for k := 1 + rng.Intn(3); k > 0; k-- {
			q.Clades = append(q.Clades, x06AnyId(rng, t, q.Mode != "path" && rng.Intn(4) == 0))
		}
	}
	return q
}

type x06LoadEvent struct {
	E string `json:"e"` // "load"
	x06Tax
	Shape string `json:"shape"`
}

type x06FindEvent struct {
	E     string    `json:"e"` // "find"
	Q     *x06Query `json:"q"`
	Args  []string  `json:"args"`
	Rc    int       `json:"rc"`
	Out   []string  `json:"out"`
	Class string    `json:"class"`
	Err   string    `json:"err"`
}

type x06AnnotEvent struct {
	E     string   `json:"e"` // "annot"
	Opts  *x06Opts `json:"opts"`
	Recs  []x06Rec `json:"recs"`
	Rc    int      `json:"rc"`
	Obs   []x06Obs `json:"obs"`
	Class string   `json:"class"`
	Err   string   `json:"err"`
}

func x06DoFind(bindir, dir string, q *x06Query) x06FindEvent {
	args := []string{}
	for _, p := range q.Pats {
		args = append(args, x06Arg(p))
	}
	lines, rc, stderr, _ := x06RunFind(bindir, dir, q, args)
	ev := x06FindEvent{E: "find", Q: q, Args: args, Rc: rc, Out: lines, Class: x06FindClass(q)}
	if rc != 0 {
		ev.Err = x06Trunc(stderr)
	}
	return ev
}

func x06DoAnnot(bindir, dir, tag string, o *x06Opts, recs []x06Rec) x06AnnotEvent {
	obs, rc, problem, _ := x06RunAnnot(bindir, dir, tag, o, recs)
	ev := x06AnnotEvent{E: "annot", Opts: o, Recs: recs, Rc: rc, Obs: obs, Class: x06AnnotClass(o)}
	if rc == 0 {
		ev.Err = problem // undecodable output
	}
	return ev
}

type x06Script struct {
	Tax   x06Tax         `json:"tax"`
	Find  *x06FindEvent  `json:"find"`
	Annot *x06AnnotEvent `json:"annot"`
	Lca   *x06LcaEvent   `json:"lca"`
}

func x06Record(env *Env) {
	bindir := env.opt("bindir", "")
	tmp, err := os.MkdirTemp(filepath.Dir(env.out), "x06t")
	if err != nil {
		fmt.Fprintln(os.Stderr, err)
		os.Exit(2)
	}
	defer os.RemoveAll(tmp)
	env.noSummary = true

	if sp := env.opt("script", ""); sp != "" { // re-run one reported event
		var s x06Script
		b, err := os.ReadFile(sp)
		if err == nil {
			err = json.Unmarshal(b, &s)
		}
		if err != nil {
			fmt.Fprintln(os.Stderr, "bad script:", err)
			os.Exit(2)
		}
		dir := filepath.Join(tmp, "t")
		if err := x06WriteDump(dir, &s.Tax, rand.New(rand.NewSource(env.seed))); err != nil {
			fmt.Fprintln(os.Stderr, err)
			os.Exit(2)
		}
		env.emit(x06LoadEvent{E: "load", x06Tax: s.Tax, Shape: "replay"})
		if s.Find != nil {
			env.emit(x06DoFind(bindir, dir, s.Find.Q))
		}
		if s.Annot != nil {
			env.emit(x06DoAnnot(bindir, dir, "r", s.Annot.Opts, s.Annot.Recs))
		}
		if s.Lca != nil {
			env.emit(x06DoLca(bindir, dir, "r", s.Lca.Slot, s.Lca.Tol, s.Lca.Recs))
		}
		return
	}

	nq := env.optInt("queries", 12)
	na := env.optInt("annots", 3)
	nl := env.optInt("lcas", 0)
	maxn := env.optInt("maxn", 300)
	shapes := []string{"random", "random", "chain", "star", "binary", "caterpillar", "deep", "broom", "random"}
	out := make([][]any, env.n)
	var mu sync.Mutex
	parallel(env.n, 12, func(i int) {
		rng := rand.New(rand.NewSource(env.seed*1000003 + int64(i)))
		shape := shapes[i%len(shapes)]
		n := 2 + rng.Intn(40)
		switch {
		case i%7 == 3:
			n = maxn/2 + rng.Intn(maxn/2+1)
		case i%7 == 5:
			n = 40 + rng.Intn(80)
		case i%11 == 0:
			n = 1 + rng.Intn(2)
		}
		t := x06RandomTax(rng, n, shape)
		dir := filepath.Join(tmp, "t"+strconv.Itoa(i))
		if err := x06WriteDump(dir, t, rng); err != nil {
			fmt.Fprintln(os.Stderr, "cannot write dump:", err)
			os.Exit(2)
		}
		defer os.RemoveAll(dir)
		evs := []any{x06LoadEvent{E: "load", x06Tax: *t, Shape: shape}}
		for k := 0; k < nq; k++ {
			evs = append(evs, x06DoFind(bindir, dir, x06RandomQuery(rng, t)))
		}
		for k := 0; k < na; k++ {
			o := &x06Opts{AtRank: []string{}}
			o.Sci, o.Rank, o.Path = rng.Intn(2) == 0, rng.Intn(2) == 0, rng.Intn(2) == 0 && n <= 160
			for j := rng.Intn(3); j > 0; j-- {
				r := pickRank(rng, &taxDef{Parent: t.Parent, Rank: t.Rank}, rng.Intn(4) > 0)
				dup := false
				for _, x := range o.AtRank {
					dup = dup || x == r
				}
				if !dup {
					o.AtRank = append(o.AtRank, r)
				}
			}
			if !o.Sci && !o.Rank && !o.Path && len(o.AtRank) == 0 {
				o.Sci = true
			}
			recs := []x06Rec{}
			unknown := rng.Intn(5) == 0
			for j := 3 + rng.Intn(30); j > 0; j-- {
				if rng.Intn(10) == 0 {
					recs = append(recs, x06Rec{})
				} else {
					recs = append(recs, x06Rec{Has: true, Taxid: x06AnyId(rng, t, unknown)})
				}
			}
			evs = append(evs, x06DoAnnot(bindir, dir, strconv.Itoa(k), o, recs))
		}
		for k := 0; k < nl; k++ {
			tol := x06Tols[rng.Intn(len(x06Tols))]
			evs = append(evs, x06DoLca(bindir, dir, strconv.Itoa(k), x06Slots[rng.Intn(len(x06Slots))], tol,
				x06RandomLca(rng, t, tol > 0 && env.opt("synonyms", "") != "" && rng.Intn(3) == 0)))
		}
		mu.Lock()
		out[i] = evs
		mu.Unlock()
	})
	for _, evs := range out {
		for _, e := range evs {
			env.emit(e)
		}
	}
}

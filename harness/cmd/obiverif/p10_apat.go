package main

// C10: primer pattern matching (pkg/obiapat + obialign.LocatePattern).
//
// replay: every case exported by TLC from spec/L0_kernel/ApatMC.tla (pattern text, sequence,
// budget, mode and, per search window, the hits <<p,k,r>> the specification allows / requires
// for the pattern and for its reverse complement) is run through MakeApatPattern,
// ReverseComplement, FindAllIndex and IsMatching; the reported hits are compared with the
// exported sets.  The ApatSequence objects are recycled between cases, in seed-dependent order
// (stale C-side hit stacks).  With --opt events=<file> the complete outcome of a sample of the
// cases (incl. FilterBestMatch, AllMatches, BestMatch whose answers are sets) is logged as
// events for the TLC trace specification ApatTrace.tla.
//
// record: seeded random scenarios far beyond the model's bounds (patterns of 1..64 symbols with
// IUPAC codes, bracket classes, '!' and '#', budgets 0..4, sequences up to 10^4 symbols, matches
// planted at offset 0 and at the very end, effective search windows) and direct calls of
// obialign.LocatePattern; everything is logged for ApatTrace.tla.  No expected value is
// computed here.

import (
	"fmt"
	"math/rand"
	"sort"
	"strings"
	"sync"

	"git.metabarcoding.org/obitools/obitools4/obitools4/pkg/obialign"
	"git.metabarcoding.org/obitools/obitools4/obitools4/pkg/obiapat"
	"git.metabarcoding.org/obitools/obitools4/obitools4/pkg/obiseq"
)

func init() {
	register("C10", &driver{replay: replayC10, record: recordC10})
}

// ------------------------------------------------------------------------------- cases

type apatWin struct {
	B  int      `json:"b"`
	L  int      `json:"l"`
	H  [][3]int `json:"h"`
	Ch [][3]int `json:"ch"`
}

type apatCase struct {
	Pt    string    `json:"pt"`
	S     string    `json:"s"`
	E     int       `json:"e"`
	Indel int       `json:"indel"`
	Pure  int       `json:"pure"`
	W     []apatWin `json:"w"`
}

// apatEvent is what the real code did on one scenario (all fields always present, never null).
type apatEvent struct {
	K      string   `json:"k"`
	Src    string   `json:"src"`
	Cls    string   `json:"cls"`
	Pt     []string `json:"pt"`
	S      []int    `json:"s"`
	E      int      `json:"e"`
	Indel  int      `json:"indel"`
	B      int      `json:"b"`
	L      int      `json:"l"`
	Perr   int      `json:"perr"`
	Plen   int      `json:"plen"`
	Find   [][3]int `json:"find"`
	Ism    int      `json:"ism"`
	Rcfind [][3]int `json:"rcfind"`
	Filt   [][3]int `json:"filt"`
	All    [][3]int `json:"all"`
	Best   [4]int   `json:"best"`
	Pfind  int      `json:"pfind"`
	Pism   int      `json:"pism"`
	Prc    int      `json:"prc"`
	Pfilt  int      `json:"pfilt"`
	Pall   int      `json:"pall"`
	Pbest  int      `json:"pbest"`
	Msg    string   `json:"msg"`
	// the sequence predicate built on the matcher (obigrep --pattern/--approx-pattern), asked when the window is
	// the whole sequence: 1 / 0, -1 = not asked, 2 = panic or fatal
	Pred     int `json:"pred"`
	PredBoth int `json:"predboth"`
}

type locEvent struct {
	K     string   `json:"k"`
	Src   string   `json:"src"`
	Cls   string   `json:"cls"`
	Pt    []string `json:"pt"`
	S     []int    `json:"s"`
	Out   [3]int   `json:"out"`
	Panic int      `json:"panic"`
	Msg   string   `json:"msg"`
}

func chars10(s string) []string {
	out := make([]string, len(s))
	for i := range s {
		out[i] = s[i : i+1]
	}
	return out
}

// sequence letters -> the integer alphabet of Apat.tla (a=0 c=1 g=2 t=3, anything else 4)
func seqCodes(s string) []int {
	out := make([]int, len(s))
	for i := 0; i < len(s); i++ {
		switch s[i] {
		case 'a':
			out[i] = 0
		case 'c':
			out[i] = 1
		case 'g':
			out[i] = 2
		case 't':
			out[i] = 3
		default:
			out[i] = 4
		}
	}
	return out
}

func nz(x [][3]int) [][3]int {
	if x == nil {
		return [][3]int{}
	}
	return x
}

// guard runs f and reports a panic (logrus Panicf in LocatePattern, slice bounds ...) as (1, message).
func guard(f func()) (p int, msg string) {
	defer func() {
		if r := recover(); r != nil {
			p = 1
			msg = fmt.Sprint(r)
			if len(msg) > 160 {
				msg = msg[:160]
			}
		}
	}()
	f()
	return 0, ""
}

// ------------------------------------------------------------------- recycled sequences

// seqPool hands out ApatSequence objects for BioSequences, recycling the C-side structure of an
// earlier (seed-chosen) sequence two times out of three.
type seqPool struct {
	rng   *rand.Rand
	slots []obiapat.ApatSequence
	used  []bool
	fresh int
	recyc int
}

func newSeqPool(rng *rand.Rand, n int) *seqPool {
	return &seqPool{rng: rng, slots: make([]obiapat.ApatSequence, n), used: make([]bool, n)}
}

func (p *seqPool) get(seq string) (obiapat.ApatSequence, error) {
	bs := obiseq.NewBioSequence("verif", []byte(seq), "")
	i := p.rng.Intn(len(p.slots))
	if p.used[i] && p.rng.Intn(3) != 0 {
		as, err := obiapat.MakeApatSequence(bs, false, p.slots[i])
		if err == nil {
			p.slots[i] = as
			p.recyc++
		}
		return as, err
	}
	as, err := obiapat.MakeApatSequence(bs, false)
	if err == nil {
		p.slots[i] = as
		p.used[i] = true
		p.fresh++
	}
	return as, err
}

// ------------------------------------------------------------------------ one scenario

// runScenario calls every observable of the API on (pattern, sequence, window).  order permutes
// the calls (each of them resets and refills the same C-side hit stacks).
func runScenario(pt, seq string, e, indel, b, l int, pool *seqPool, order int) apatEvent {
	ev := apatEvent{K: "apat", Pt: chars10(pt), S: seqCodes(seq), E: e, Indel: indel, B: b, L: l,
		Find: [][3]int{}, Rcfind: [][3]int{}, Filt: [][3]int{}, All: [][3]int{}}
	pat, err := obiapat.MakeApatPattern(pt, e, indel == 1)
	if err != nil {
		ev.Perr = 1
		ev.Msg = err.Error()
		return ev
	}
	ev.Plen = pat.Len()
	as, err := pool.get(seq)
	if err != nil {
		ev.Perr = 2
		ev.Msg = err.Error()
		return ev
	}
	var msg string
	note := func(m string) {
		if m != "" && msg == "" {
			msg = m
		}
	}
	calls := []func(){
		func() {
			var m string
			ev.Pfind, m = guard(func() { ev.Find = nz(pat.FindAllIndex(as, b, l)) })
			note(m)
		},
		func() {
			var m string
			ev.Pism, m = guard(func() {
				if pat.IsMatching(as, b, l) {
					ev.Ism = 1
				}
			})
			note(m)
		},
		func() {
			var m string
			ev.Prc, m = guard(func() {
				cp, err := pat.ReverseComplement()
				if err != nil {
					panic("ReverseComplement: " + err.Error())
				}
				if cp.Len() != pat.Len() {
					panic(fmt.Sprintf("ReverseComplement: length %d != %d", cp.Len(), pat.Len()))
				}
				ev.Rcfind = nz(cp.FindAllIndex(as, b, l))
			})
			note(m)
		},
		func() {
			var m string
			ev.Pfilt, m = guard(func() { ev.Filt = nz(pat.FilterBestMatch(as, b, l)) })
			note(m)
		},
		func() {
			var m string
			ev.Pall, m = guard(func() { ev.All = nz(pat.AllMatches(as, b, l)) })
			note(m)
		},
		func() {
			var m string
			ev.Pbest, m = guard(func() {
				s, t, k, ok := pat.BestMatch(as, b, l)
				ev.Best = [4]int{s, t, k, 0}
				if ok {
					ev.Best[3] = 1
				}
			})
			note(m)
		},
	}
	n := len(calls)
	for i := 0; i < n; i++ {
		calls[(i*5+order)%n]() // 5 is coprime with 6: a rotation-dependent permutation
	}
	ev.Pred, ev.PredBoth = -1, -1
	if b == 0 && (l == len(seq) || l < 0) { // l < 0: up to the end of the sequence
		ask := func(both bool) int {
			// in a goroutine of its own: the predicate ends in log.Fatalf when it cannot complement the pattern (the
			// captured fatal ends the goroutine that met it, which must not be the one driving the scenarios)
			res := make(chan int, 1)
			go func() {
				r, ended := 0, false
				defer func() {
					if !ended {
						res <- 2
					}
				}()
				p, m := guard(func() {
					if obiapat.IsPatternMatchSequence(pt, e, both, indel == 1)(obiseq.NewBioSequence("verif", []byte(seq), "")) {
						r = 1
					}
				})
				ended = true
				if p != 0 {
					note(m)
					r = 2
				}
				res <- r
			}()
			return <-res
		}
		ev.Pred, ev.PredBoth = ask(false), ask(true)
	}
	ev.Msg = msg
	return ev
}

// --------------------------------------------------------------------------------- replay

func hitKey(p, k int) [2]int { return [2]int{p, k} }

// count bumps a coverage class without counting a comparison.
func (e *Env) count(class string) {
	e.mu.Lock()
	e.classes[class]++
	e.mu.Unlock()
}

// compareHits: reported hits against the exported <<p,k,r>> list.  Returns "" or the clause broken.
func compareHits(rep [][3]int, exp [][3]int, plen int) string {
	allowed := map[[2]int]bool{}
	pos := map[int]bool{}
	for _, h := range exp {
		allowed[hitKey(h[0], h[1])] = true
		pos[h[0]] = true
	}
	seen := map[[2]int]bool{}
	for _, r := range rep {
		if r[1] != r[0]+plen {
			return "end"
		}
		k := hitKey(r[0], r[2])
		if seen[k] {
			return "duplicate"
		}
		seen[k] = true
	}
	for _, r := range rep {
		if !allowed[hitKey(r[0], r[2])] && pos[r[0]] {
			return "errcount"
		}
	}
	for _, r := range rep {
		if !allowed[hitKey(r[0], r[2])] {
			return "spurious"
		}
	}
	for _, h := range exp {
		if h[2] == 1 && !seen[hitKey(h[0], h[1])] {
			return "missing"
		}
	}
	return ""
}

// number of symbols of a pattern text of the model (pieces: letter or [..] with optional ! and #)
func lenPatternText(pt string) int {
	n, in := 0, false
	for i := 0; i < len(pt); i++ {
		switch pt[i] {
		case '[':
			in = true
			n++
		case ']':
			in = false
		case '!', '#':
		default:
			if !in {
				n++
			}
		}
	}
	return n
}

func patFeatures(pt string) string {
	f := ""
	if strings.ContainsAny(pt, "[") {
		f += "b"
	}
	if strings.ContainsAny(pt, "!") {
		f += "n"
	}
	if strings.ContainsAny(pt, "#") {
		f += "o"
	}
	if f == "" {
		f = "plain"
	}
	return f
}

// rerunEvents: --opt mode=event; the cases are events of an earlier run (a reported violation):
// the same inputs are run again on the real code and logged again for ApatTrace.
func rerunEvents(env *Env) {
	type rawEvent struct {
		K     string   `json:"k"`
		Cls   string   `json:"cls"`
		Pt    []string `json:"pt"`
		S     []int    `json:"s"`
		E     int      `json:"e"`
		Indel int      `json:"indel"`
		B     int      `json:"b"`
		L     int      `json:"l"`
	}
	evw := newEnv("C10", []string{"--out", env.opt("events", env.out+".events")})
	evw.noSummary = true
	defer evw.close()
	pool := newSeqPool(env.rng, 2)
	for i, r := range loadCases[rawEvent](env.cases) {
		pt := strings.Join(r.Pt, "")
		sb := make([]byte, len(r.S))
		for j, c := range r.S {
			sb[j] = "acgtn"[c]
		}
		if r.K == "loc" {
			ev := locEvent{K: "loc", Src: "replay", Cls: r.Cls, Pt: r.Pt, S: r.S}
			ev.Panic, ev.Msg = guard(func() {
				from, to, err := obialign.LocatePattern("verif", []byte(pt), sb)
				ev.Out = [3]int{from, to, err}
			})
			evw.emit(ev)
		} else {
			ev := runScenario(pt, string(sb), r.E, r.Indel, r.B, r.L, pool, i)
			ev.Src = "replay"
			ev.Cls = r.Cls
			evw.emit(ev)
		}
		env.ok("rerun")
	}
}

func replayC10(env *Env) {
	if env.opt("mode", "") == "event" {
		rerunEvents(env)
		return
	}
	cases := loadCases[apatCase](env.cases)
	// seed-dependent order: which sequence object is recycled after which depends on it
	env.rng.Shuffle(len(cases), func(i, j int) { cases[i], cases[j] = cases[j], cases[i] })
	pool := newSeqPool(env.rng, 3)
	evrate := env.optInt("evrate", 0) // one case in evrate is logged for ApatTrace (0: none)
	var evw *Env
	if p := env.opt("events", ""); p != "" {
		evw = newEnv("C10", []string{"--out", p})
		evw.noSummary = true
		defer evw.close()
	}
	for ci, c := range cases {
		mode := "sub"
		if c.Indel == 1 {
			mode = "indel"
		}
		base := fmt.Sprintf("%s/e%d/%s", mode, c.E, patFeatures(c.Pt))
		vcls := mode + "/plen2-62" // violation class: as coarse as checks/c10.py vclass()
		if lenPatternText(c.Pt) <= 1 {
			vcls = mode + "/plen1"
		}
		logIt := evw != nil && evrate > 0 && env.rng.Intn(evrate) == 0
		for wi, w := range c.W {
			ev := runScenario(c.Pt, c.S, c.E, c.Indel, w.B, w.L, pool, ci+wi)
			cls := base
			if w.B > 0 || w.L >= 0 {
				cls += "/window"
			}
			fail := func(assert, detail string) {
				one := c
				one.W = []apatWin{w}
				env.fail(assert, vcls, fmt.Sprintf("pattern %q e=%d indel=%d on %q window (%d,%d): %s", c.Pt, c.E, c.Indel, c.S, w.B, w.L, detail), one)
			}
			if ev.Perr != 0 {
				fail("C10.compile.rejected", "MakeApatPattern/MakeApatSequence failed: "+ev.Msg)
				continue
			}
			if ev.Pfind+ev.Pism+ev.Prc+ev.Pfilt+ev.Pall+ev.Pbest != 0 {
				which := ""
				for _, x := range []struct {
					n string
					p int
				}{{"find", ev.Pfind}, {"ism", ev.Pism}, {"rcfind", ev.Prc}, {"filt", ev.Pfilt}, {"all", ev.Pall}, {"best", ev.Pbest}} {
					if x.p != 0 {
						which = x.n
						break
					}
				}
				fail("C10."+which+".panic", "panic: "+ev.Msg)
				continue
			}
			bad := false
			if why := compareHits(ev.Find, w.H, ev.Plen); why != "" {
				fail("C10.find."+why, fmt.Sprintf("FindAllIndex=%v, specification (p,k,required)=%v", ev.Find, w.H))
				bad = true
			}
			nreq := 0
			for _, h := range w.H {
				nreq += h[2]
			}
			if ev.Ism == 1 && len(w.H) == 0 {
				fail("C10.ism.spurious", "IsMatching=true, no hit in the specification")
				bad = true
			} else if ev.Ism == 0 && nreq > 0 {
				fail("C10.ism.missing", fmt.Sprintf("IsMatching=false, specification requires %v", w.H))
				bad = true
			}
			if why := compareHits(ev.Rcfind, w.Ch, ev.Plen); why != "" {
				fail("C10.rcfind."+why, fmt.Sprintf("ReverseComplement().FindAllIndex=%v, specification=%v", ev.Rcfind, w.Ch))
				bad = true
			}
			if !bad {
				env.ok(cls)
				if len(w.H) > 0 {
					env.count("hits/" + mode)
					if w.H[0][0] <= 0 {
						env.count("hit-at-start/" + mode)
					}
					last := w.H[len(w.H)-1]
					if last[0]+ev.Plen >= len(c.S) {
						env.count("hit-at-end/" + mode)
					}
				} else {
					env.count("nohit/" + mode)
				}
				if len(w.Ch) > 0 {
					env.count("rc-hits/" + mode)
				}
			}
			if logIt {
				ev.Src = "R"
				ev.Cls = cls
				evw.emit(ev)
			}
			if ci < 3 && wi == 0 {
				env.sample(map[string]any{"pattern": c.Pt, "seq": c.S, "e": c.E, "indel": c.Indel, "find": ev.Find, "expected": w.H})
			}
		}
	}
	env.mu.Lock()
	env.classes["seq-fresh"] += pool.fresh
	env.classes["seq-recycled"] += pool.recyc
	env.mu.Unlock()
}

// --------------------------------------------------------------------------------- record

// symbol sets used only to BUILD inputs (an instance of the pattern to plant); never to judge.
var genIupac = map[byte]string{'A': "a", 'C': "c", 'G': "g", 'T': "t", 'U': "t", 'R': "ag", 'Y': "ct", 'S': "cg",
	'W': "at", 'K': "gt", 'M': "ac", 'B': "cgt", 'D': "agt", 'H': "act", 'V': "acg", 'N': "acgt"}

const genLetters = "ACGTACGTACGTACGTRYSWKMBDHVNNU"

type genSym struct {
	text string
	set  string // nucleotides matched
	ob   bool
}

func compl(set string) string {
	out := ""
	for _, c := range "acgt" {
		if !strings.ContainsRune(set, c) {
			out += string(c)
		}
	}
	return out
}

type genOpts struct {
	pure    bool // letters only
	noOb    bool
	ambig   int // percent of ambiguous letters
	special int // percent of bracket / negated / obligatory symbols
}

func genPattern(rng *rand.Rand, n int, o genOpts) []genSym {
	syms := make([]genSym, n)
	for i := range syms {
		var letter byte
		if rng.Intn(100) < o.ambig {
			letter = genLetters[16+rng.Intn(len(genLetters)-16)]
		} else {
			letter = "ACGT"[rng.Intn(4)]
		}
		g := genSym{text: string(letter), set: genIupac[letter]}
		if !o.pure && rng.Intn(100) < o.special {
			switch rng.Intn(4) {
			case 0: // bracket class
				k := 1 + rng.Intn(3)
				txt, set := "[", ""
				for j := 0; j < k; j++ {
					l := "ACGTRYN"[rng.Intn(7)]
					txt += string(l)
					for _, c := range genIupac[l] {
						if !strings.ContainsRune(set, c) {
							set += string(c)
						}
					}
				}
				g = genSym{text: txt + "]", set: set}
				if len(set) < 4 && rng.Intn(4) == 0 {
					g = genSym{text: "!" + g.text, set: compl(set)}
				}
			case 1: // negation (never of N: would match nothing)
				if g.set != "acgt" {
					g = genSym{text: "!" + g.text, set: compl(g.set)}
				}
			case 2:
				if !o.noOb {
					g.text += "#"
					g.ob = true
				}
			case 3:
				if !o.noOb && g.set != "acgt" {
					g = genSym{text: "!" + g.text + "#", set: compl(g.set), ob: true}
				}
			}
		}
		if rng.Intn(4) == 0 {
			g.text = strings.ToLower(g.text)
		}
		syms[i] = g
	}
	// the textual syntax does not allow '#' on nothing: first char is never '#', fine by construction
	return syms
}

func patText(syms []genSym) string {
	var b strings.Builder
	for _, s := range syms {
		b.WriteString(s.text)
	}
	return b.String()
}

func randSeq(rng *rand.Rand, n int, nRate int) []byte {
	b := make([]byte, n)
	for i := range b {
		b[i] = "acgt"[rng.Intn(4)]
		if nRate > 0 && rng.Intn(nRate) == 0 {
			b[i] = "nryu"[rng.Intn(4)]
		}
	}
	return b
}

// instance builds a word matched by the pattern, then applies `subs` substitutions (not on '#'
// symbols) and `indels` insertions/deletions.
func instance(rng *rand.Rand, syms []genSym, subs, indels int) []byte {
	w := make([]byte, 0, len(syms)+indels)
	subAt := map[int]bool{}
	for tries := 0; len(subAt) < subs && tries < 200; tries++ {
		i := rng.Intn(len(syms))
		if !syms[i].ob && len(syms[i].set) < 4 {
			subAt[i] = true
		}
	}
	for i, s := range syms {
		if subAt[i] {
			c := compl(s.set)
			w = append(w, c[rng.Intn(len(c))])
		} else {
			w = append(w, s.set[rng.Intn(len(s.set))])
		}
	}
	for k := 0; k < indels && len(w) > 1; k++ {
		i := rng.Intn(len(w))
		if rng.Intn(2) == 0 {
			w = append(w[:i], w[i+1:]...)
		} else {
			w = append(w[:i], append([]byte{"acgt"[rng.Intn(4)]}, w[i:]...)...)
		}
	}
	return w
}

func patLenClass(rng *rand.Rand) int {
	switch rng.Intn(12) {
	case 0:
		return 1 + rng.Intn(3)
	case 1, 2, 3, 4:
		return 4 + rng.Intn(12)
	case 5, 6, 7:
		return 16 + rng.Intn(17)
	case 8, 9:
		return 33 + rng.Intn(30)
	case 10:
		return 63
	default:
		return 64
	}
}

func lenClassName(n int) string {
	switch {
	case n <= 3:
		return "plen1-3"
	case n <= 32:
		return "plen4-32"
	case n <= 62:
		return "plen33-62"
	case n == 63:
		return "plen63"
	default:
		return "plen64"
	}
}

// recordC10: the scenarios are recorded from several goroutines at once (each with its own generator and
// recycled sequence objects): the matcher and the Go re-alignment are used by the worker pools of
// obimultiplex / obipcr, so scratch memory shared between calls must show up here.
func recordC10(env *Env) {
	const workers = 8
	var wg sync.WaitGroup
	for g := 0; g < workers; g++ {
		wg.Add(1)
		go func(g int) {
			defer wg.Done()
			n := env.n / workers
			if g < env.n%workers {
				n++
			}
			recordC10Part(env, rand.New(rand.NewSource(env.seed*1000+int64(g))), n, g)
		}(g)
	}
	wg.Wait()
	recordC10SharedPredicate(env)
}

// recordC10SharedPredicate: obigrep builds ONE predicate per pattern and all its workers call it.  A predicate is
// asked about 24 sequences one after the other, then by 8 goroutines at once; an answer that differs from the
// sequential one is logged as the event of that (pattern, sequence) with the deviating answer in it.
func recordC10SharedPredicate(env *Env) {
	rng := rand.New(rand.NewSource(env.seed*7717 + 5))
	pool := newSeqPool(rng, 4)
	for round := 0; round < env.optInt("sharedpredicates", 6); round++ {
		plen := 8 + rng.Intn(12)
		syms := genPattern(rng, plen, genOpts{pure: true, ambig: 10})
		pt := patText(syms)
		e := rng.Intn(3)
		indel := rng.Intn(2)
		both := rng.Intn(2) == 0
		seqs := make([]string, 24)
		for k := range seqs {
			body := randSeq(rng, 30+rng.Intn(200), 0)
			if k%2 == 0 { // half of them hold an occurrence within the budget
				pos := rng.Intn(len(body))
				body = append(append(append([]byte{}, body[:pos]...), instance(rng, syms, rng.Intn(e+1), 0)...), body[pos:]...)
			}
			seqs[k] = string(body)
		}
		var pred func(*obiseq.BioSequence) bool
		if p, _ := guard(func() { pred = obiapat.IsPatternMatchSequence(pt, e, both, indel == 1) }); p != 0 || pred == nil {
			continue
		}
		ask := func(k int) (r int) {
			defer func() {
				if recover() != nil {
					r = 2
				}
			}()
			if pred(obiseq.NewBioSequence("verif", []byte(seqs[k]), "")) {
				return 1
			}
			return 0
		}
		seqAns := make([]int, len(seqs))
		for k := range seqs {
			seqAns[k] = ask(k)
		}
		var mu sync.Mutex
		deviating := map[int]int{}
		var wg sync.WaitGroup
		for g := 0; g < 8; g++ {
			wg.Add(1)
			go func(g int) {
				defer wg.Done()
				for n := 0; n < 60*len(seqs); n++ {
					k := (n*7 + g*5) % len(seqs)
					if a := ask(k); a != seqAns[k] {
						mu.Lock()
						deviating[k] = a
						mu.Unlock()
					}
				}
			}(g)
		}
		wg.Wait()
		emitOne := func(k, ans int, cls string) {
			ev := runScenario(pt, seqs[k], e, indel, 0, -1, pool, k)
			if both {
				ev.PredBoth, ev.Pred = ans, -1
			} else {
				ev.Pred, ev.PredBoth = ans, -1
			}
			ev.Src = "T"
			ev.Cls = fmt.Sprintf("%s/%s/e%d/plain/full/%s", lenClassName(plen), map[int]string{0: "sub", 1: "indel"}[indel], e, cls)
			env.emit(ev)
		}
		emitOne(0, seqAns[0], "sharedpredicate") // one sequential answer per predicate (the class is always exercised)
		n := 0
		for k, a := range deviating {
			if n < 5 {
				emitOne(k, a, "sharedpredicate-concurrent")
			}
			n++
		}
	}
}

func recordC10Part(env *Env, rng *rand.Rand, count int, part int) {
	pool := newSeqPool(rng, 4)
	big := env.optInt("big", 8) / 8 // number of very long sequences (per part)
	if part == 0 {
		big = env.optInt("big", 8) - 7*big
	}
	for i := 0; i < count; i++ {
		if i%9 == 8 {
			recordLocate(env, rng)
			continue
		}
		if part == 0 && i == 1 {
			// one scan with tens of thousands of hits (the C-side hit stacks grow several times): a short
			// pattern on a long low-complexity sequence
			n := env.optInt("dense", 45000)
			seq := make([]byte, n)
			for k := range seq {
				seq[k] = 'a'
				if rng.Intn(12) == 0 {
					seq[k] = "cgt"[rng.Intn(3)]
				}
			}
			ev := runScenario("aaaa", string(seq), 1, 0, 0, -1, pool, i)
			ev.Src = "T"
			ev.Cls = "plen4-32/sub/e1/plain/full/dense"
			env.emit(ev)
			continue
		}
		if part == 0 && (i == 2 || i == 3) {
			// a long sequence whose only occurrences lie far from its start (beyond 10 000 bases)
			syms := genPattern(rng, 20, genOpts{pure: true})
			pt := patText(syms)
			seq := append(append(randSeq(rng, 10400+rng.Intn(300), 0), instance(rng, syms, i-2, 0)...), randSeq(rng, 200+rng.Intn(200), 0)...)
			if i == 3 {
				seq = append(append(seq, instance(rng, syms, 0, 0)...), randSeq(rng, 50, 0)...)
			}
			ev := runScenario(pt, string(seq), 1, 0, 0, -1, pool, i)
			ev.Src = "T"
			ev.Cls = "plen4-32/sub/e1/plain/full/late"
			env.emit(ev)
			continue
		}
		indel := 0
		if rng.Intn(5) < 2 {
			indel = 1
		}
		wantBig := big > 0 && i%17 == 3 // the very long sequences are scanned without indels, whatever the draw
		if wantBig {
			indel = 0
		}
		e := rng.Intn(5)
		plen := patLenClass(rng)
		if e >= plen {
			e = plen - 1
		}
		o := genOpts{ambig: 15, special: 12}
		if indel == 1 {
			// AllMatches/BestMatch re-align with the pattern text: letters only, mostly
			o.pure = rng.Intn(5) != 0
			o.noOb = rng.Intn(8) != 0
		}
		syms := genPattern(rng, plen, o)
		pt := patText(syms)
		// sequence
		var seq []byte
		slen := 0
		shape := rng.Intn(20)
		nRate := 0
		if indel == 0 && rng.Intn(4) == 0 {
			nRate = 40
		}
		switch {
		case shape == 0: // a read exactly as long as the primer
			slen = 0
		case shape <= 2: // barely longer
			slen = 1 + rng.Intn(3)
		case shape <= 13:
			slen = 20 + rng.Intn(280)
		case shape <= 18:
			slen = 300 + rng.Intn(900)
		default:
			slen = 1200 + rng.Intn(1200)
		}
		if indel == 1 && slen*plen > 12000 { // the Sellers scan of the trace specification costs |S| x |P|
			slen = 12000 / plen
		}
		if wantBig {
			slen = 6000 + rng.Intn(4000)
			big--
		}
		plant := rng.Intn(6)    // 0: at offset 0, 1: at the very end, 2: middle, 3: both ends, 4: two overlapping-ish, 5: none
		nerr := rng.Intn(e + 2) // sometimes one more than the budget
		mk := func() []byte {
			if indel == 1 {
				ni := rng.Intn(nerr + 1)
				return instance(rng, syms, nerr-ni, ni)
			}
			return instance(rng, syms, nerr, 0)
		}
		body := randSeq(rng, slen, nRate)
		switch plant {
		case 0:
			seq = append(mk(), body...)
		case 1:
			seq = append(body, mk()...)
		case 2:
			k := 0
			if len(body) > 0 {
				k = rng.Intn(len(body))
			}
			seq = append(append(append([]byte{}, body[:k]...), mk()...), body[k:]...)
		case 3:
			seq = append(append(mk(), body...), mk()...)
		case 4:
			k := 0
			if len(body) > 0 {
				k = rng.Intn(len(body))
			}
			gap := randSeq(rng, rng.Intn(4), 0)
			seq = append(append(append(append(append([]byte{}, body[:k]...), mk()...), gap...), mk()...), body[k:]...)
		default:
			seq = append(body, randSeq(rng, plen, 0)...)
		}
		// window
		b, l := 0, -1
		wcls := "full"
		switch rng.Intn(6) {
		case 0:
			b = rng.Intn(len(seq) + 1)
			wcls = "begin"
		case 1:
			b = rng.Intn(len(seq) + 1)
			l = rng.Intn(len(seq) + 1)
			wcls = "begin+len"
			if b+l+64 < len(seq) {
				wcls = "window-end-effective"
			}
		case 2:
			b = -1
			l = len(seq)
		}
		ev := runScenario(pt, string(seq), e, indel, b, l, pool, i)
		mode := "sub"
		if indel == 1 {
			mode = "indel"
		}
		ev.Src = "T"
		ev.Cls = fmt.Sprintf("%s/%s/e%d/%s/%s/plant%d", lenClassName(plen), mode, e, patFeatures(pt), wcls, plant)
		env.emit(ev)
	}
}

// recordLocate: one direct call of obialign.LocatePattern (the sequence may be shorter than the
// pattern: AllMatches/BestMatch call it on windows clipped to the read).
func recordLocate(env *Env, rng *rand.Rand) {
	plen := 1 + rng.Intn(30)
	syms := genPattern(rng, plen, genOpts{pure: true, ambig: 20})
	pt := strings.ToUpper(patText(syms))
	nerr := rng.Intn(4)
	ni := rng.Intn(nerr + 1)
	w := instance(rng, syms, nerr-ni, ni)
	left := randSeq(rng, rng.Intn(3)*rng.Intn(10), 0)
	right := randSeq(rng, rng.Intn(3)*rng.Intn(10), 0)
	seq := append(append(left, w...), right...)
	if len(seq) == 0 {
		seq = append(seq, "acgt"[rng.Intn(4)])
	}
	ev := locEvent{K: "loc", Src: "T", Pt: chars10(pt), S: seqCodes(string(seq))}
	ev.Cls = fmt.Sprintf("loc/left%d/right%d", min(len(left), 1), min(len(right), 1))
	ev.Panic, ev.Msg = guard(func() {
		from, to, err := obialign.LocatePattern("verif", []byte(pt), seq)
		ev.Out = [3]int{from, to, err}
	})
	env.emit(ev)
}

var _ = sort.Ints

package main

// X06 - obiannotate --add-lca-in SLOT [--lca-error e]: runs of the real binary on records carrying a bag of
// taxids (merged_taxid) or one taxid; events judged by LcaVerdict of spec/L3_command/TaxFind.tla.

import (
	"bytes"
	"fmt"
	"math"
	"math/rand"
	"os"
	"path/filepath"
	"sort"
	"strconv"
	"strings"
)

type x06LcaRec struct {
	Bag      [][]int `json:"bag"`      // pairs [taxid, weight]
	AsTaxid  bool    `json:"astaxid"`  // one taxid written as a plain taxid attribute
	Synonyms bool    `json:"synonyms"` // on purpose: two ids of the bag mean the same taxon
}

type x06LcaObs struct {
	N  int      `json:"n"`
	Ik []string `json:"ik"`
	Iv []int    `json:"iv"`
	Sk []string `json:"sk"`
	Sv []string `json:"sv"`
	Fk []string `json:"fk"` // non-integral numbers, in 1/1000
	Fv []int    `json:"fv"`
	Mk []string `json:"mk"` // attributes holding a map
}

type x06LcaEvent struct {
	E     string      `json:"e"` // "lca"
	Slot  string      `json:"slot"`
	Tol   int         `json:"E"` // --lca-error in 1/1000
	Recs  []x06LcaRec `json:"recs"`
	Rc    int         `json:"rc"`
	Obs   []x06LcaObs `json:"obs"`
	Class string      `json:"class"`
	Err   string      `json:"err"`
}

func x06DoLca(bindir, dir, tag, slot string, tol int, recs []x06LcaRec) x06LcaEvent {
	ev := x06LcaEvent{E: "lca", Slot: slot, Tol: tol, Recs: recs, Obs: make([]x06LcaObs, len(recs)), Class: "lca.exact"}
	if tol > 0 {
		ev.Class = "lca.tolerant"
	}
	for _, r := range recs {
		if r.Synonyms {
			ev.Class += ".synonyms"
			break
		}
	}
	for i := range ev.Obs {
		ev.Obs[i] = x06LcaObs{Ik: []string{}, Iv: []int{}, Sk: []string{}, Sv: []string{}, Fk: []string{}, Fv: []int{}, Mk: []string{}}
	}
	in := filepath.Join(dir, "lca_"+tag+".fasta")
	var fb bytes.Buffer
	for i, r := range recs {
		if r.AsTaxid {
			fmt.Fprintf(&fb, ">r%d {\"taxid\":%d}\nacgtacgt\n", i+1, r.Bag[0][0])
			continue
		}
		parts := []string{}
		for _, p := range r.Bag {
			parts = append(parts, fmt.Sprintf("\"%d\":%d", p[0], p[1]))
		}
		fmt.Fprintf(&fb, ">r%d {\"merged_taxid\":{%s}}\nacgtacgt\n", i+1, strings.Join(parts, ","))
	}
	os.WriteFile(in, fb.Bytes(), 0o644)
	defer os.Remove(in)
	args := []string{"-t", dir, "--add-lca-in", slot}
	if tol > 0 {
		args = append(args, "--lca-error", fmt.Sprintf("%.3f", float64(tol)/1000))
	}
	args = append(args, "--max-cpu", "2", in)
	out, rc, stderr := x06Run(filepath.Join(bindir, "obiannotate"), args, dir)
	ev.Rc = rc
	if rc != 0 {
		ev.Err = x06Trunc(stderr)
		return ev
	}
	parsed, err := parseFastaHeaders(out)
	if err != nil {
		ev.Err = err.Error()
		return ev
	}
	for _, p := range parsed {
		i, err := strconv.Atoi(strings.TrimPrefix(p.id, "r"))
		if err != nil || i < 1 || i > len(recs) {
			ev.Err += "unexpected record " + p.id + "; "
			continue
		}
		ob := &ev.Obs[i-1]
		ob.N++
		if ob.N > 1 {
			continue
		}
		keys := []string{}
		for k := range p.ann {
			keys = append(keys, k)
		}
		sort.Strings(keys)
		for _, k := range keys {
			switch v := p.ann[k].(type) {
			case float64:
				if v == float64(int(v)) {
					ob.Ik = append(ob.Ik, k)
					ob.Iv = append(ob.Iv, int(v))
				} else {
					ob.Fk = append(ob.Fk, k)
					ob.Fv = append(ob.Fv, int(math.Round(v*1000)))
				}
			case string:
				ob.Sk = append(ob.Sk, k)
				ob.Sv = append(ob.Sv, v)
			case map[string]any:
				ob.Mk = append(ob.Mk, k)
			default:
				ev.Err += fmt.Sprintf("attribute %s=%v of %s; ", k, v, p.id)
			}
		}
	}
	return ev
}

var x06Slots = []string{"lca", "taxid", "family_taxid", "my", "lcataxid", "taxid_of_lca"}
var x06Tols = []int{0, 0, 50, 100, 200, 250, 340, 500}

// x06RandomLca draws the records of one --add-lca-in run.  Only the inputs are decided here: which ids mean the
// same taxon is read off the merged-id table the generator itself wrote.
func x06RandomLca(rng *rand.Rand, t *x06Tax, synonyms bool) []x06LcaRec {
	n := len(t.Parent)
	target := map[int]int{}
	for _, a := range t.Alias {
		target[a[0]] = a[1]
	}
	means := func(id int) int {
		if x, ok := target[id]; ok {
			return x
		}
		return id
	}
	recs := []x06LcaRec{}
	for j := 2 + rng.Intn(12); j > 0; j-- {
		r := x06LcaRec{Bag: [][]int{}}
		size := 1 + rng.Intn(6)
		near := 1 + rng.Intn(n) // members drawn around one taxon: its lineage and its neighbours by number
		used, usedNode := map[int]bool{}, map[int]bool{}
		for k := 0; k < size; k++ {
			id := x06AnyId(rng, t, false)
			switch rng.Intn(3) {
			case 0:
				id = near
				for s := rng.Intn(4); s > 0; s-- {
					id = t.Parent[id-1]
				}
			case 1:
				id = 1 + (near+rng.Intn(5))%n
			}
			if used[id] || usedNode[means(id)] {
				continue
			}
			used[id], usedNode[means(id)] = true, true
			w := 1 + rng.Intn(9)
			if rng.Intn(4) == 0 {
				w = 10 + rng.Intn(40)
			}
			r.Bag = append(r.Bag, []int{id, w})
		}
		if synonyms && len(t.Alias) > 0 {
			a := t.Alias[rng.Intn(len(t.Alias))]
			if !used[a[0]] && !used[a[1]] && !usedNode[a[1]] {
				r.Bag = append(r.Bag, []int{a[0], 5 + rng.Intn(20)}, []int{a[1], 1 + rng.Intn(3)})
				r.Synonyms = true
			}
		}
		if len(r.Bag) == 0 {
			r.Bag = append(r.Bag, []int{near, 1})
		}
		if len(r.Bag) == 1 && rng.Intn(2) == 0 {
			r.AsTaxid = true
			r.Bag[0][1] = 1
		}
		recs = append(recs, r)
	}
	return recs
}

// -------------------------------------------------------------------------------------- replay

func x06InAcc(acc []x06Acc, c, v int) bool {
	for _, a := range acc {
		if a.C == c && a.Lo <= v && v <= a.Hi {
			return true
		}
	}
	return false
}

func x06IndexOf(l []string, s string) int {
	for i, x := range l {
		if x == s {
			return i
		}
	}
	return -1
}

// x06ReplayLca: one exported --add-lca-in case: per record the answer must be one of the exported acceptable answers,
// the attribute names one of the exported sets of names.
func x06ReplayLca(env *Env, bindir, dir string, c *x06Case) {
	e := &c.Exp
	ev := x06DoLca(bindir, dir, "k"+strconv.Itoa(c.K), e.Slot, e.Tol, e.LRecs)
	class := ev.Class
	cl := fmt.Sprintf("obiannotate --add-lca-in %s --lca-error %.3f", e.Slot, float64(e.Tol)/1000)
	if ev.Rc != 0 || ev.Err != "" {
		env.fail("X06.lca.failed", class, x06Trunc(fmt.Sprintf("%s: exit %d: %s", cl, ev.Rc, ev.Err)), c)
		return
	}
	known := false
	for i, r := range e.LRecs {
		o := ev.Obs[i]
		what := fmt.Sprintf("%s: record %d (bag %v, as taxid=%v): written %d time(s) with %v=%v %v=%q %v=%v maps %v; acceptable %v, names %v",
			cl, i+1, r.Bag, r.AsTaxid, o.N, o.Ik, o.Iv, o.Sk, o.Sv, o.Fk, o.Fv, o.Mk, e.Acc[i], e.KeySets[i])
		if o.N != 1 {
			env.fail("X06.lca.record", class, what, c)
			return
		}
		keys := append(append(append(append([]string{}, o.Ik...), o.Sk...), o.Fk...), o.Mk...)
		sort.Strings(keys)
		okKeys := false
		for _, ks := range e.KeySets[i] {
			w := append([]string{}, ks...)
			sort.Strings(w)
			okKeys = okKeys || strings.Join(w, "\x00") == strings.Join(keys, "\x00")
		}
		jt, jn := x06IndexOf(o.Ik, e.Keys["taxid"]), x06IndexOf(o.Sk, e.Keys["name"])
		v := -1
		if j := x06IndexOf(o.Fk, e.Keys["error"]); j >= 0 {
			v = o.Fv[j]
		} else if j := x06IndexOf(o.Ik, e.Keys["error"]); j >= 0 {
			v = 1000 * o.Iv[j]
		}
		if !okKeys || jt < 0 || jn < 0 || v < 0 {
			env.fail("X06.lca.attribute_names", class, what, c)
			return
		}
		ans := o.Iv[jt]
		switch {
		case x06InAcc(e.Acc[i], ans, v):
		case x06InAcc(e.AccWritten[i], ans, v):
			known = true
		default:
			env.fail("X06.lca.answer", class, what, c)
			return
		}
		if ans < 1 || ans > len(c.Name) || o.Sv[jn] != c.Name[ans-1] {
			env.fail("X06.lca.name", class, what, c)
			return
		}
		if r.AsTaxid && e.Keys["taxid"] != "taxid" {
			if j := x06IndexOf(o.Ik, "taxid"); j < 0 || o.Iv[j] != r.Bag[0][0] {
				env.fail("X06.lca.taxid_changed", class, what, c)
				return
			}
		}
		if len(e.Acc[i]) > 1 {
			env.ok("scn.lca_several_acceptable")
		}
		if v > 0 {
			env.ok("scn.lca_error_reported")
		}
	}
	if known {
		x06Known(env, "X06.known.lca_synonym_weight_lost", class, cl+": the weights of two taxids that mean the same taxon are not added", c)
		return
	}
	env.ok(class)
}

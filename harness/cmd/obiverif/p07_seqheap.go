package main

// C07: reverse complement, subsequence and copy obey their algebraic laws and share no mutable state.
//
// replay: two kinds of cases exported by TLC
//   - histories (spec/L1_stream/SeqHeap.tla): a sequence of operations on <= MaxObj handles and the value
//     the specification assigns to every live object after the LAST operation (every prefix of a history
//     is itself an exported case, so every step of every history is compared).  The history is executed
//     on real *obiseq.BioSequence objects with hook H1 (recycled slices are poisoned) and a pool reset
//     before each history; all live objects are compared.
//   - law cases (spec/L1_stream/SeqLaws.tla): rc / sub (+ mirrored window on the other strand) on every
//     short sequence, the complement of every symbol (three tables), pattern complements, canonical k-mers.
// record: seeded random single operations on long sequences and long random histories run concurrently on
// the shared pool; every event carries inputs and observed outputs, SeqHeapTrace.tla decides.
//
// Nothing here computes an expected value: inputs/outputs are only encoded/decoded.

import (
	"bufio"
	"encoding/binary"
	"encoding/json"
	"fmt"
	"os"
	"reflect"
	"regexp"
	"runtime"
	"runtime/debug"
	"sort"
	"strconv"
	"strings"
	"syscall"
	"unsafe"

	"git.metabarcoding.org/obitools/obitools4/obitools4/pkg/obiapat"
	"git.metabarcoding.org/obitools/obitools4/obitools4/pkg/obifp"
	"git.metabarcoding.org/obitools/obitools4/obitools4/pkg/obikmer"
	"git.metabarcoding.org/obitools/obitools4/obitools4/pkg/obiseq"
)

func init() {
	register("C07", &driver{replay: replayC07, record: recordC07})
}

// ------------------------------------------------------------------------------------ wire types

type c07MM struct {
	P  int    `json:"p"`
	X  string `json:"x"`
	QX int    `json:"qx"`
	Y  string `json:"y"`
	QY int    `json:"qy"`
}

type c07Val struct {
	Seq  []string `json:"seq"`
	Qual []int    `json:"qual"`
	MM   []c07MM  `json:"mm"`
	Feat string   `json:"feat"` // the feature table (record mode; histories of the model carry none)
}

type c07Op struct {
	Op      string   `json:"op"`
	O       int      `json:"o"`
	R       int      `json:"r"`
	P       int      `json:"p"`
	From    int      `json:"from"`
	To      int      `json:"to"`
	Circ    int      `json:"circ"`
	Inplace int      `json:"inplace"`
	V       c07Val   `json:"v"`
	S       []string `json:"s"`
	Q       []int    `json:"q"`
	I       int      `json:"i"`
	X       string   `json:"x"`
	QX      int      `json:"qx"`

	prebuilt *obiseq.BioSequence // "new": an object made by the library itself (read pairing), V is its observed value
}

type c07Slot struct {
	L int    `json:"l"`
	V c07Val `json:"v"`
}

// one line of the cases file: a history (H, X) or a law case (K ...)
type c07Case struct {
	H  []c07Op         `json:"h,omitempty"`
	X  json.RawMessage `json:"x,omitempty"` // history: []c07Slot; comp case: the symbol
	K  string          `json:"k,omitempty"`
	V  *c07Val         `json:"v,omitempty"`
	E  json.RawMessage `json:"e,omitempty"`
	S  json.RawMessage `json:"s,omitempty"`
	Ws []c07Win        `json:"ws,omitempty"` // "subs" case: all windows starting at the same position

	slots []c07Slot
}

type c07Win struct {
	From int    `json:"from"`
	To   int    `json:"to"`
	Circ int    `json:"circ"`
	E    c07Val `json:"e"`
	Mf   int    `json:"mf"`
	Mt   int    `json:"mt"`
	Erc  c07Val `json:"erc"`
}

func (v *c07Val) norm() {
	if v.Seq == nil {
		v.Seq = []string{}
	}
	if v.Qual == nil {
		v.Qual = []int{}
	}
	if v.MM == nil {
		v.MM = []c07MM{}
	}
}

// ------------------------------------------------------------------------- encoding / decoding

func mmKey(m c07MM) string {
	// exactly what obialign.BuildQualityConsensus writes
	return strings.ToUpper(fmt.Sprintf("(%s:%02d)->(%s:%02d)", m.X, m.QX, m.Y, m.QY))
}

var mmKeyRe = regexp.MustCompile(`^\((.):(\d+)\)->\((.):(\d+)\)$`) // the property fixes the transform, not the padding

func buildSeq(id string, v c07Val) *obiseq.BioSequence {
	s := []byte(strings.Join(v.Seq, ""))
	var b *obiseq.BioSequence
	if len(v.Qual) > 0 {
		q := make([]byte, len(v.Qual))
		for i, x := range v.Qual {
			q[i] = byte(x)
		}
		b = obiseq.NewBioSequenceWithQualities(id, s, "", q)
	} else {
		b = obiseq.NewBioSequence(id, s, "")
	}
	if len(v.MM) > 0 {
		m := make(map[string]int, len(v.MM))
		for _, x := range v.MM {
			m[mmKey(x)] = x.P
		}
		b.SetAttribute("pairing_mismatches", m)
	}
	if v.Feat != "" {
		f := make([]byte, len(v.Feat)) // the record owns its feature table (what the flat-file readers hand over)
		copy(f, v.Feat)
		b.SetFeatures(f)
	}
	return b
}

// observe projects a real object on the value of SeqVal.tla.
func observe(b *obiseq.BioSequence) c07Val {
	v := c07Val{Seq: []string{}, Qual: []int{}, MM: []c07MM{}}
	for _, c := range []byte(b.String()) {
		v.Seq = append(v.Seq, string(rune(c)))
	}
	if b.HasQualities() {
		for _, q := range b.Qualities() {
			v.Qual = append(v.Qual, int(q))
		}
	}
	v.Feat = b.Features()
	if b.HasAttribute("pairing_mismatches") {
		m, ok := b.GetIntMap("pairing_mismatches")
		if !ok {
			v.MM = append(v.MM, c07MM{P: -1, X: "?", Y: "not-an-int-map"})
		}
		keys := make([]string, 0, len(m))
		for k := range m {
			keys = append(keys, k)
		}
		sort.Strings(keys)
		for _, k := range keys {
			g := mmKeyRe.FindStringSubmatch(k)
			if g == nil {
				v.MM = append(v.MM, c07MM{P: m[k], X: "?", Y: k})
				continue
			}
			qx, _ := strconv.Atoi(g[2])
			qy, _ := strconv.Atoi(g[4])
			v.MM = append(v.MM, c07MM{P: m[k], X: strings.ToLower(g[1]), QX: qx, Y: strings.ToLower(g[3]), QY: qy})
		}
	}
	return v
}

// canonical text of a mismatch set: the two sides of a mismatch are compared as an unordered pair
// (the property fixes the coordinate transform, not which read is written first).
func mmCanon(mm []c07MM) string {
	out := make([]string, 0, len(mm))
	for _, m := range mm {
		a := fmt.Sprintf("%s%02d", strings.ToLower(m.X), m.QX)
		b := fmt.Sprintf("%s%02d", strings.ToLower(m.Y), m.QY)
		if b < a {
			a, b = b, a
		}
		out = append(out, fmt.Sprintf("%d:%s/%s", m.P, a, b))
	}
	sort.Strings(out)
	return strings.Join(out, ",")
}

func valText(v c07Val) string {
	return fmt.Sprintf("seq=%s qual=%v mm=[%s]", strings.Join(v.Seq, ""), v.Qual, mmCanon(v.MM))
}

// diff returns the first differing field ("" if equal)
func diffVal(got, want c07Val) string {
	if strings.Join(got.Seq, "") != strings.Join(want.Seq, "") {
		return "seq"
	}
	if fmt.Sprint(got.Qual) != fmt.Sprint(want.Qual) && !(len(got.Qual) == 0 && len(want.Qual) == 0) {
		return "qual"
	}
	if mmCanon(got.MM) != mmCanon(want.MM) {
		return "mm"
	}
	return ""
}

// ------------------------------------------------------------------------------- real heap

type realHeap struct {
	objs []*obiseq.BioSequence // index 1..n
}

func newRealHeap(n int) *realHeap { return &realHeap{objs: make([]*obiseq.BioSequence, n+1)} }

func strBytes(s []string) []byte { return []byte(strings.Join(s, "")) }
func intBytes(q []int) []byte {
	b := make([]byte, len(q))
	for i, x := range q {
		b[i] = byte(x)
	}
	return b
}

func opTarget(op c07Op) int {
	switch op.Op {
	case "new", "copy", "sub":
		return op.R
	case "rc", "join":
		if op.Inplace == 1 {
			return op.O
		}
		return op.R
	}
	return op.O
}

// apply executes one operation; returns the object returned by the library call (nil if none) and a
// problem description for calls that failed outright (error return / panic).
func (h *realHeap) apply(op c07Op) (ret *obiseq.BioSequence, problem string) {
	defer func() {
		if r := recover(); r != nil {
			problem = fmt.Sprintf("panic: %v", r)
		}
	}()
	switch op.Op {
	case "new":
		if op.prebuilt != nil {
			h.objs[op.R] = op.prebuilt
		} else {
			h.objs[op.R] = buildSeq(fmt.Sprintf("o%d", op.R), op.V)
		}
	case "copy":
		h.objs[op.R] = h.objs[op.O].Copy()
	case "sub":
		s, err := h.objs[op.O].Subsequence(op.From, op.To, op.Circ == 1)
		if err != nil {
			return nil, "error: " + err.Error()
		}
		h.objs[op.R] = s
	case "rc":
		ret = h.objs[op.O].ReverseComplement(op.Inplace == 1)
		if op.Inplace != 1 {
			h.objs[op.R] = ret
		}
	case "setseq":
		h.objs[op.O].SetSequence(strBytes(op.S))
	case "setqual":
		h.objs[op.O].SetQualities(intBytes(op.Q))
	case "mutate":
		h.objs[op.O].Sequence()[op.I-1] = op.X[0]
		if h.objs[op.O].HasQualities() {
			h.objs[op.O].Qualities()[op.I-1] = byte(op.QX)
		}
	case "recycle":
		obj := h.objs[op.O]
		obj.Recycle()
		if op.O%2 == 0 {
			// a caller that recycles defensively calls Recycle again on the same object: nothing is left to give back
			obj.Recycle()
		}
		h.objs[op.O] = nil
	case "join":
		ret = h.objs[op.O].Join(h.objs[op.P], op.Inplace == 1)
		if op.Inplace != 1 {
			h.objs[op.R] = ret
		}
	default:
		return nil, "unknown op " + op.Op
	}
	return ret, ""
}

func (h *realHeap) observeAll() []c07Slot {
	out := make([]c07Slot, len(h.objs)-1)
	for i := 1; i < len(h.objs); i++ {
		if h.objs[i] != nil {
			out[i-1] = c07Slot{L: 1, V: observe(h.objs[i])}
		} else {
			out[i-1] = c07Slot{L: 0, V: c07Val{Seq: []string{}, Qual: []int{}, MM: []c07MM{}}}
		}
	}
	return out
}

type memRange struct {
	lo, hi uintptr
	what   string
}

func sliceRange(b []byte, what string) (memRange, bool) {
	if cap(b) == 0 {
		return memRange{}, false
	}
	p := uintptr(unsafe.Pointer(unsafe.SliceData(b)))
	return memRange{p, p + uintptr(cap(b)), what}, true
}

// sharing reports live objects that are the same object or whose byte slices overlap in memory
// (Ownership invariant of SeqHeap.tla observed on the real heap).
func (h *realHeap) sharing() string {
	var rs []memRange
	for i := 1; i < len(h.objs); i++ {
		o := h.objs[i]
		if o == nil {
			continue
		}
		for j := i + 1; j < len(h.objs); j++ {
			if h.objs[j] == o {
				return fmt.Sprintf("handles %d and %d are the same object", i, j)
			}
		}
		if r, ok := sliceRange(o.Sequence(), fmt.Sprintf("sequence of %d", i)); ok {
			rs = append(rs, r)
		}
		if o.HasQualities() {
			if r, ok := sliceRange(o.Qualities(), fmt.Sprintf("qualities of %d", i)); ok {
				rs = append(rs, r)
			}
		}
	}
	for i := range rs {
		for j := i + 1; j < len(rs); j++ {
			if rs[i].lo < rs[j].hi && rs[j].lo < rs[i].hi {
				return rs[i].what + " and " + rs[j].what + " share memory"
			}
		}
	}
	// annotation maps, and the map / slice values they hold (merged_*, pairing_mismatches ...), are mutable
	// state as well: two live objects must not hold the same one
	owner := map[uintptr]string{}
	for i := 1; i < len(h.objs); i++ {
		o := h.objs[i]
		if o == nil || !o.HasAnnotation() {
			continue
		}
		ann := o.Annotations()
		ptrs := map[uintptr]string{reflect.ValueOf(ann).Pointer(): "the annotation map"}
		for k, v := range ann {
			rv := reflect.ValueOf(v)
			if (rv.Kind() == reflect.Map || rv.Kind() == reflect.Slice) && rv.Len() > 0 {
				ptrs[rv.Pointer()] = "annotation " + k
			}
		}
		for ptr, what := range ptrs {
			if prev, ok := owner[ptr]; ok {
				return fmt.Sprintf("%s of %d is the very same object as %s", what, i, prev)
			}
		}
		for ptr, what := range ptrs {
			owner[ptr] = fmt.Sprintf("%s of %d", what, i)
		}
	}
	return ""
}

func histClass(c c07Case) string {
	last := c.H[len(c.H)-1]
	cl := "hist/" + last.Op
	if (last.Op == "rc" || last.Op == "join") && last.Inplace == 1 {
		cl += "/inplace"
	}
	if last.Op == "sub" && last.Circ == 1 {
		cl += "/circular"
	}
	rec := false
	for _, op := range c.H[:len(c.H)-1] {
		if op.Op == "recycle" {
			rec = true
		}
	}
	if rec {
		cl += "/after-recycle"
	}
	return cl
}

func opsText(ops []c07Op) string {
	var sb strings.Builder
	for i, op := range ops {
		if i > 0 {
			sb.WriteString("; ")
		}
		switch op.Op {
		case "new":
			fmt.Fprintf(&sb, "o%d=New(%s,q=%v,mm=%d)", op.R, strings.Join(op.V.Seq, ""), op.V.Qual, len(op.V.MM))
		case "copy":
			fmt.Fprintf(&sb, "o%d=o%d.Copy()", op.R, op.O)
		case "sub":
			fmt.Fprintf(&sb, "o%d=o%d.Subsequence(%d,%d,%v)", op.R, op.O, op.From, op.To, op.Circ == 1)
		case "rc":
			if op.Inplace == 1 {
				fmt.Fprintf(&sb, "o%d.ReverseComplement(true)", op.O)
			} else {
				fmt.Fprintf(&sb, "o%d=o%d.ReverseComplement(false)", op.R, op.O)
			}
		case "setseq":
			fmt.Fprintf(&sb, "o%d.SetSequence(%s)", op.O, strings.Join(op.S, ""))
		case "setqual":
			fmt.Fprintf(&sb, "o%d.SetQualities(%v)", op.O, op.Q)
		case "mutate":
			fmt.Fprintf(&sb, "o%d.Sequence()[%d]=%s", op.O, op.I-1, op.X)
		case "recycle":
			fmt.Fprintf(&sb, "o%d.Recycle()", op.O)
		case "join":
			if op.Inplace == 1 {
				fmt.Fprintf(&sb, "o%d.Join(o%d,true)", op.O, op.P)
			} else {
				fmt.Fprintf(&sb, "o%d=o%d.Join(o%d,false)", op.R, op.O, op.P)
			}
		}
	}
	return sb.String()
}

// replayHistory returns true when the real code diverged from the specification on this history.
func replayHistory(env *Env, c c07Case) bool {
	cl := histClass(c)
	if err := json.Unmarshal(c.X, &c.slots); err != nil || len(c.slots) == 0 {
		fmt.Println("bad history case:", err)
		return false
	}
	obiseq.VerifResetPools()
	h := newRealHeap(len(c.slots))
	var ret *obiseq.BioSequence
	var last c07Op
	for i, op := range c.H {
		var problem string
		ret, problem = h.apply(op)
		if problem != "" {
			if i == len(c.H)-1 {
				kind := "error"
				if strings.HasPrefix(problem, "panic") {
					kind = "panic"
				}
				env.fail("C07."+op.Op+"."+kind, cl, fmt.Sprintf("%s -> %s", opsText(c.H), problem), c)
			}
			// (an earlier step that fails is reported by the prefix case)
			env.ok(cl)
			return true
		}
		last = op
	}
	tgt := opTarget(last)
	obs := h.observeAll()
	bad := false
	for i, want := range c.slots {
		hnd := i + 1
		if want.L != obs[i].L {
			env.fail("C07."+last.Op+".liveness", cl, fmt.Sprintf("%s: handle %d live=%d, specification %d", opsText(c.H), hnd, obs[i].L, want.L), c)
			bad = true
			continue
		}
		if want.L == 0 {
			continue
		}
		if f := diffVal(obs[i].V, want.V); f != "" {
			id := "C07." + last.Op + "." + f
			who := "the object produced/modified by the last call"
			if hnd != tgt {
				id = "C07.alias." + last.Op
				who = "a BYSTANDER of the last call"
			}
			env.fail(id, cl, fmt.Sprintf("%s: o%d (%s) is {%s}, value semantics gives {%s}", opsText(c.H), hnd, who, valText(obs[i].V), valText(want.V)), c)
			bad = true
		}
	}
	// the object returned by an in-place call must carry the result as well
	if !bad && ret != nil && last.Inplace == 1 && (last.Op == "rc" || last.Op == "join") {
		if f := diffVal(observe(ret), c.slots[tgt-1].V); f != "" {
			env.fail("C07."+last.Op+".returned", cl, fmt.Sprintf("%s: the returned object is {%s}, expected {%s}", opsText(c.H), valText(observe(ret)), valText(c.slots[tgt-1].V)), c)
			bad = true
		}
	}
	if !bad {
		if s := h.sharing(); s != "" {
			env.fail("C07.alias.memory", cl, fmt.Sprintf("%s: %s", opsText(c.H), s), c)
			bad = true
		}
	}
	env.ok(cl)
	return bad
}

// ------------------------------------------------------------------------------- law cases

func expectVal(env *Env, id, cl, what string, got *obiseq.BioSequence, want c07Val, c c07Case) bool {
	if got == nil {
		env.fail(id, cl, what+": nil result", c)
		return false
	}
	o := observe(got)
	if f := diffVal(o, want); f != "" {
		env.fail(id+"."+f, cl, fmt.Sprintf("%s is {%s}, specification {%s}", what, valText(o), valText(want)), c)
		return false
	}
	return true
}

func replaySubLaw(env *Env, c c07Case, w c07Win) {
	e := w.E
	cl := "law/sub/linear"
	if w.Circ == 1 {
		cl = "law/sub/circular"
		if w.To <= w.From {
			cl = "law/sub/circular-wrap"
		} else if w.To > len(c.V.Seq) {
			cl = "law/sub/circular-over"
		}
	}
	defer func() {
		if r := recover(); r != nil {
			env.fail("C07.law.panic", cl, fmt.Sprintf("%s.Subsequence(%d,%d,%v): panic: %v", strings.Join(c.V.Seq, ""), w.From, w.To, w.Circ == 1, r), c)
			env.ok(cl)
		}
	}()
	kind := strings.TrimPrefix(cl, "law/sub/")
	src := buildSeq("s", *c.V)
	in := fmt.Sprintf("%s.Subsequence(%d,%d,%v)", strings.Join(c.V.Seq, ""), w.From, w.To, w.Circ == 1)
	u, err := src.Subsequence(w.From, w.To, w.Circ == 1)
	if err != nil {
		env.fail("C07.law.sub."+kind+".error", cl, in+" returned error "+err.Error(), c)
		env.ok(cl)
		return
	}
	ok := expectVal(env, "C07.law.sub."+kind, cl, in, u, e, c)
	ok = expectVal(env, "C07.alias.sub", cl, "source after "+in, src, *c.V, c) && ok
	if ok {
		// RC(Sub(v,i,j)) = Sub(RC(v), mirror(i,j))
		urc := u.ReverseComplement(false)
		expectVal(env, "C07.law.mirror.rc_of_sub", cl, "reverse complement of "+in, urc, w.Erc, c)
		m, err := buildSeq("s", *c.V).ReverseComplement(true).Subsequence(w.Mf, w.Mt, w.Circ == 1)
		if err != nil {
			env.fail("C07.law.mirror.error", cl, fmt.Sprintf("Subsequence(%d,%d) of the reverse complement: %v", w.Mf, w.Mt, err), c)
		} else {
			expectVal(env, "C07.law.mirror.sub_of_rc", cl, fmt.Sprintf("Subsequence(%d,%d,%v) of the reverse complement of %s", w.Mf, w.Mt, w.Circ == 1, strings.Join(c.V.Seq, "")), m, w.Erc, c)
		}
	}
	env.ok(cl)
}

var kmerMap4 *obikmer.KmerMap[obifp.Uint64]

func replayLaw(env *Env, c c07Case) {
	defer func() {
		if r := recover(); r != nil {
			env.fail("C07.law.panic", "law/"+c.K, fmt.Sprintf("panic: %v", r), c)
			env.ok("law/" + c.K)
		}
	}()
	switch c.K {
	case "rc":
		var e c07Val
		if json.Unmarshal(c.E, &e) != nil {
			fmt.Println("bad rc case")
			return
		}
		cl := "law/rc/plain"
		if len(c.V.Qual) > 0 {
			cl = "law/rc/annotated"
		}
		src := buildSeq("s", *c.V)
		in := strings.Join(c.V.Seq, "")
		r1 := src.ReverseComplement(false)
		ok := expectVal(env, "C07.law.rc", cl, "ReverseComplement(false) of "+in, r1, e, c)
		ok = expectVal(env, "C07.alias.rc", cl, "source after ReverseComplement(false) of "+in, src, *c.V, c) && ok
		if ok {
			r2 := r1.ReverseComplement(false)
			ok = expectVal(env, "C07.law.rcrc", cl, "ReverseComplement twice of "+in, r2, *c.V, c)
			ok = expectVal(env, "C07.alias.rc", cl, "first reverse complement of "+in+" after complementing it again", r1, e, c) && ok
		}
		s2 := buildSeq("s", *c.V)
		s2.ReverseComplement(true)
		ok = expectVal(env, "C07.law.rc_inplace", cl, "ReverseComplement(true) of "+in, s2, e, c) && ok
		s2.ReverseComplement(true)
		expectVal(env, "C07.law.rcrc_inplace", cl, "ReverseComplement(true) twice of "+in, s2, *c.V, c)
		env.ok(cl)
	case "subs":
		for _, w := range c.Ws {
			cw := c // the reported / replayed case is narrowed to the failing window
			cw.Ws = []c07Win{w}
			replaySubLaw(env, cw, w)
		}
	case "comp":
		var x, e string
		json.Unmarshal(c.X, &x)
		json.Unmarshal(c.E, &e)
		got := obiseq.NewBioSequence("t", []byte(x), "").ReverseComplement(true).String()
		if got != e {
			env.fail("C07.table.obiseq", "table/obiseq", fmt.Sprintf("obiseq complements %q to %q, Bio.tla to %q", x, got, e), c)
		}
		env.ok("table/obiseq")
		up := obiseq.NewBioSequence("t", []byte(strings.ToUpper(x)), "").ReverseComplement(false).String()
		if up != e {
			env.fail("C07.table.obiseq", "table/obiseq", fmt.Sprintf("obiseq complements upper case %q to %q, Bio.tla to %q", x, up, e), c)
		}
		if x[0] >= 'a' && x[0] <= 'z' {
			tbl := obikmer.VerifRevcompNuc()
			g, present := tbl[x[0]]
			if !present || string(rune(g)) != e {
				env.fail("C07.table.obikmer", "table/obikmer", fmt.Sprintf("obikmer.revcompnuc[%q] = %q (present=%v), Bio.tla %q", x, string(rune(g)), present, e), c)
			}
			env.ok("table/obikmer")
		}
	case "apat":
		var s, e []string
		json.Unmarshal(c.S, &s)
		json.Unmarshal(c.E, &e)
		cl := "table/apat"
		if len(s) > 1 {
			cl = "table/apat-pattern"
		}
		pat, err := obiapat.MakeApatPattern(strings.Join(s, ""), 0, false)
		if err != nil {
			env.fail("C07.table.apat.error", cl, "MakeApatPattern("+strings.Join(s, "")+"): "+err.Error(), c)
			env.ok(cl)
			return
		}
		rc, err := pat.ReverseComplement()
		if err != nil {
			env.fail("C07.table.apat.error", cl, "ReverseComplement of pattern "+strings.Join(s, "")+": "+err.Error(), c)
			env.ok(cl)
			return
		}
		if rc.String() != strings.Join(e, "") {
			env.fail("C07.table.apat", cl, fmt.Sprintf("pattern %s reverse-complements to %s, Bio.tla gives %s", strings.Join(s, ""), rc.String(), strings.Join(e, "")), c)
		}
		env.ok(cl)
	case "kmer":
		var s []string
		var e uint64
		json.Unmarshal(c.S, &s)
		json.Unmarshal(c.E, &e)
		if kmerMap4 == nil || int(kmerMap4.Kmersize) != len(s) {
			kmerMap4 = obikmer.NewKmerMap[obifp.Uint64](obiseq.BioSequenceSlice{}, uint(len(s)), false, -1)
		}
		seq := obiseq.NewBioSequence("k", strBytes(s), "")
		ks := kmerMap4.NormalizedKmerSlice(seq, nil)
		if len(ks) != 1 || ks[0].AsUint64() != e {
			got := []uint64{}
			for _, k := range ks {
				got = append(got, k.AsUint64())
			}
			env.fail("C07.kmer.canonical", "kmer", fmt.Sprintf("canonical code of %s is %v, specification %d", strings.Join(s, ""), got, e), c)
		}
		// both strands must give the same code
		rs := kmerMap4.NormalizedKmerSlice(seq.ReverseComplement(false), nil)
		if len(rs) != 1 || rs[0].AsUint64() != e {
			env.fail("C07.kmer.strand", "kmer", fmt.Sprintf("canonical code of the reverse complement of %s differs from %d", strings.Join(s, ""), e), c)
		}
		env.ok("kmer")
	default:
		fmt.Println("unknown law case kind", c.K)
	}
}

func lawText(c c07Case) string {
	switch c.K {
	case "rc":
		var e c07Val
		json.Unmarshal(c.E, &e)
		return fmt.Sprintf("rc {%s} -> {%s}", valText(*c.V), valText(e))
	case "subs":
		w := c.Ws[0]
		return fmt.Sprintf("sub(%d,%d,circular=%d) {%s} -> {%s}; its reverse complement = sub(%d,%d) of the reverse complement = {%s}", w.From, w.To, w.Circ, valText(*c.V), valText(w.E), w.Mf, w.Mt, valText(w.Erc))
	}
	return fmt.Sprintf("%s %s%s -> %s", c.K, string(c.S), string(c.X), string(c.E))
}

// streamCases calls f for every case of a TLC export (one JSON string holding a JSON object per line).
// TLC writes the line of a state when the state is generated, hence after the line of its predecessor:
// a history always comes after its prefixes.
func streamCases(paths string, f func(i int, c c07Case)) {
	i := 0
	for _, path := range strings.Split(paths, ",") {
		fh, err := os.Open(path)
		if err != nil {
			fmt.Fprintln(os.Stderr, err)
			os.Exit(2)
		}
		r := bufio.NewReaderSize(fh, 4<<20)
		for {
			line, err := r.ReadBytes('\n')
			if len(line) > 2 {
				var raw json.RawMessage = line
				var s string
				if line[0] == '"' && json.Unmarshal(line, &s) == nil {
					raw = json.RawMessage(s)
				}
				var c c07Case
				if e := json.Unmarshal(raw, &c); e != nil {
					fmt.Fprintln(os.Stderr, "bad case line:", e, string(line[:min(len(line), 200)]))
					os.Exit(2)
				}
				f(i, c)
				i++
			}
			if err != nil {
				break
			}
		}
		fh.Close()
	}
}

func replayC07(env *Env) {
	// one P, no GC inside a history: the behaviour of sync.Pool is then a function of the history alone
	runtime.GOMAXPROCS(1)
	old := debug.SetGCPercent(-1)
	defer debug.SetGCPercent(old)
	obiseq.VerifSetPoison(true)
	histKey := func(ops []c07Op) string {
		b, _ := json.Marshal(ops)
		return string(b)
	}
	// a history whose proper prefix already diverged is not examined again (the heap is already wrong;
	// the prefix case carries the report)
	diverged := map[string]bool{}
	// A fatal error of the code under test (stack overflow, ...) kills this process: the case being
	// run is kept in a side file so that the orchestrator can attribute the crash and resume after it.
	first, last := env.optInt("from", 0), env.optInt("to", 1<<62)
	var progress []byte // 8 bytes shared with the file: survives the death of the process, costs no system call
	if pth := env.opt("progress", ""); pth != "" {
		if fh, err := os.Create(pth); err == nil && fh.Truncate(8) == nil {
			progress, _ = syscall.Mmap(int(fh.Fd()), 0, 8, syscall.PROT_READ|syscall.PROT_WRITE, syscall.MAP_SHARED)
		}
	}
	debug.SetMaxStack(256 << 20)
	nh, nl := 0, 0
	streamCases(env.cases, func(i int, c c07Case) {
		if i >= last {
			return
		}
		if i < first {
			// the history that crashed the previous run: its extensions are not examined
			if len(c.H) > 0 && env.opt("skipdiverged", "") != "" && i == first-1 {
				diverged[histKey(c.H)] = true
			}
			return
		}
		if progress != nil {
			binary.LittleEndian.PutUint64(progress, uint64(i))
		}
		if c.V != nil {
			c.V.norm()
		}
		if len(c.H) > 0 {
			if len(diverged) > 0 && diverged[histKey(c.H[:len(c.H)-1])] {
				diverged[histKey(c.H)] = true
				env.ok("hist/extends-a-diverged-history")
				return
			}
			if replayHistory(env, c) {
				diverged[histKey(c.H)] = true
			}
			nh++
			if nh%5000 == 17 {
				env.sample(map[string]any{"history": opsText(c.H), "expect": c.X})
			}
		} else {
			replayLaw(env, c)
			nl++
			if nl%9000 == 11 {
				env.sample(lawText(c))
			}
		}
		if i%20000 == 19999 {
			obiseq.VerifResetPools()
			runtime.GC()
		}
	})
}

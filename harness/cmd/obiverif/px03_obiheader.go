package main

// X03 (extension check): the legacy OBITools `key=value;` title-line annotations, the choice of the
// header reader when none is imposed, and the equivalence with the JSON header.
//
// replay: cases exported by TLC from spec/L2_io/ObiHeaderMC.tla
//   op "parse"  a header text and the reading ObiHeader!ReadHeader assigns to it (annotations with value
//               and TYPE, definition): the text is given to the real ParseOBIFeatures, to the real
//               ParseFastSeqOBIHeader, and - behind the real FASTA reader - to ParseGuessedFastSeqHeader
//               when the specification's Guess says "obi".
//   op "rt"     an annotation set: built in memory from typed Go values, written by the real
//               FormatFastSeqOBIHeader, read back, written and read again, compared with the record the
//               specification says comes back; the same record through the real JSON writer/reader and
//               through the guessing reader.
//   op "guess"  a title text and the reader that must be chosen (OBI / JSON / none).
// A disagreement that the specification's implementation-shaped variant (ReadHeaderAsWritten, exported with
// each case) explains is reported under the assertion X03.known_departure with the departure's name as
// class: these are the listed findings; anything else is a plain violation.
// record: random header texts and random records far beyond the model's pools, logged for
// ObiHeaderTrace.tla; with --opt dir=D files for the command-level runs of checks/x03.py.
//
// No expected value is computed here: x03Enc is an encoding of observed values, x03Same a decoding of the
// specification's values (numbers by strconv).

import (
	"bytes"
	"fmt"
	"math"
	"os"
	"path/filepath"
	"sort"
	"strconv"
	"strings"

	"git.metabarcoding.org/obitools/obitools4/obitools4/pkg/obiformats"
	"git.metabarcoding.org/obitools/obitools4/obitools4/pkg/obiiter"
	"git.metabarcoding.org/obitools/obitools4/obitools4/pkg/obiseq"
)

func init() {
	register("X03", &driver{replay: x03Replay, record: x03Record})
}

// ------------------------------------------------------------------------------ values

type x03Member struct {
	K string `json:"k"`
	T string `json:"t"`
	V string `json:"v"`
}

type x03Entry struct {
	K string      `json:"k"`
	T string      `json:"t"`
	V string      `json:"v"`
	M []x03Member `json:"m"`
}

type x03Reading struct {
	Text      string     `json:"text"`
	Ents      []x03Entry `json:"ents"`
	Def       string     `json:"def"`
	Undecided bool       `json:"undecided"`
	AwEnts    []x03Entry `json:"aw_ents"`
	AwDef     string     `json:"aw_def"`
	Departs   string     `json:"departs"`
	Guess     string     `json:"guess"`
}

type x03Case struct {
	Op  string     `json:"op"`
	Cls string     `json:"cls"`
	R   x03Reading `json:"r"`
	// rt
	Rec     []x03Entry `json:"rec,omitempty"`
	Def     string     `json:"def"`
	Repr    bool       `json:"repr,omitempty"`
	Single  bool       `json:"single,omitempty"`
	Text    string     `json:"text,omitempty"`
	Back    []x03Entry `json:"back,omitempty"`
	GuessOk bool       `json:"guess_ok,omitempty"`
	// guess
	Kind   string     `json:"kind,omitempty"`
	Ents   []x03Entry `json:"ents,omitempty"`
	IsJson bool       `json:"isjson,omitempty"`
}

func x03Float(f float64) string { return strconv.FormatFloat(f, 'e', -1, 64) }

// x03EncMember / x03Enc: what a Go value IS, as [t, v, m] (type tag, printed value, members sorted by key).
func x03EncMember(k string, v any) x03Member {
	switch t := v.(type) {
	case nil:
		return x03Member{k, "null", ""}
	case bool:
		return x03Member{k, "bool", strconv.FormatBool(t)}
	case string:
		return x03Member{k, "str", t}
	case int:
		return x03Member{k, "num", strconv.Itoa(t)}
	case float64:
		return x03Member{k, "num", x03Float(t)}
	default:
		return x03Member{k, "other", ""}
	}
}

func x03Enc(k string, v any) x03Entry {
	e := x03Entry{K: k, M: []x03Member{}}
	switch t := v.(type) {
	case int:
		e.T, e.V = "int", strconv.Itoa(t)
	case float64:
		e.T, e.V = "float", x03Float(t)
	case bool:
		e.T, e.V = "bool", strconv.FormatBool(t)
	case string:
		e.T, e.V = "str", t
	case map[string]int:
		e.T = "mapint"
		for mk, mv := range t {
			e.M = append(e.M, x03Member{mk, "num", strconv.Itoa(mv)})
		}
	case obiseq.StatsOnValues:
		e.T = "mapint"
		for mk, mv := range t {
			e.M = append(e.M, x03Member{mk, "num", strconv.Itoa(mv)})
		}
	case map[string]string:
		e.T = "mapstr"
		for mk, mv := range t {
			e.M = append(e.M, x03Member{mk, "str", mv})
		}
	case map[string]any:
		e.T = "map"
		for mk, mv := range t {
			e.M = append(e.M, x03EncMember(mk, mv))
		}
	default:
		e.T, e.V = "other", fmt.Sprintf("%v", v)
	}
	sort.Slice(e.M, func(i, j int) bool { return e.M[i].K < e.M[j].K })
	return e
}

func x03EncAll(ann map[string]any) []x03Entry {
	out := []x03Entry{}
	for k, v := range ann {
		if k == "definition" {
			continue
		}
		out = append(out, x03Enc(k, v))
	}
	sort.Slice(out, func(i, j int) bool { return out[i].K < out[j].K })
	return out
}

// x03Value: the Go value a typed annotation of a case stands for (decoding of the case).
func x03Value(e x03Entry) any {
	switch e.T {
	case "int":
		n, _ := strconv.Atoi(e.V)
		return n
	case "float":
		f, _ := strconv.ParseFloat(e.V, 64)
		return f
	case "bool":
		return e.V == "true"
	case "str":
		return e.V
	case "mapint":
		m := map[string]int{}
		for _, mb := range e.M {
			m[mb.K], _ = strconv.Atoi(mb.V)
		}
		return m
	case "mapstr":
		m := map[string]string{}
		for _, mb := range e.M {
			m[mb.K] = mb.V
		}
		return m
	case "map":
		m := map[string]any{}
		for _, mb := range e.M {
			switch mb.T {
			case "num":
				f, _ := strconv.ParseFloat(mb.V, 64)
				m[mb.K] = f
			case "bool":
				m[mb.K] = mb.V == "true"
			case "null":
				m[mb.K] = nil
			default:
				m[mb.K] = mb.V
			}
		}
		return m
	case "list":
		return []int{1, 2, 3}
	}
	return nil
}

func x03NumEq(want string, got string) bool {
	a, e1 := strconv.ParseFloat(want, 64)
	b, e2 := strconv.ParseFloat(got, 64)
	return e1 == nil && e2 == nil && a == b
}

// x03SameEntry: is the observed annotation the one the specification states (type and value; byValue:
// int/float are one type, the three kinds of maps are one type)?
func x03SameEntry(want, got x03Entry, byValue bool) bool {
	if want.K != got.K {
		return false
	}
	wt, gt := want.T, got.T
	if byValue {
		norm := func(t string) string {
			switch t {
			case "int", "float":
				return "num"
			case "map", "mapint", "mapstr":
				return "map"
			}
			return t
		}
		wt, gt = norm(wt), norm(gt)
	}
	if wt != gt {
		return false
	}
	switch wt {
	case "int", "float", "num":
		return x03NumEq(want.V, got.V)
	case "map", "mapint", "mapstr":
		if len(want.M) != len(got.M) {
			return false
		}
		gm := map[string]x03Member{}
		for _, mb := range got.M {
			gm[mb.K] = mb
		}
		for _, wm := range want.M {
			g, ok := gm[wm.K]
			if !ok || g.T != wm.T {
				return false
			}
			if wm.T == "num" {
				if !x03NumEq(wm.V, g.V) {
					return false
				}
			} else if wm.V != g.V {
				return false
			}
		}
		return true
	}
	return want.V == got.V
}

func x03SameSet(want, got []x03Entry, byValue bool) bool {
	if len(want) != len(got) {
		return false
	}
	gm := map[string]x03Entry{}
	for _, g := range got {
		gm[g.K] = g
	}
	for _, w := range want {
		g, ok := gm[w.K]
		if !ok || !x03SameEntry(w, g, byValue) {
			return false
		}
	}
	return true
}

func x03Show(es []x03Entry) string {
	var b strings.Builder
	for i, e := range es {
		if i > 0 {
			b.WriteString(" ")
		}
		fmt.Fprintf(&b, "%s:(%s)%s", e.K, e.T, e.V)
		if len(e.M) > 0 || strings.HasPrefix(e.T, "map") {
			b.WriteString("{")
			for j, m := range e.M {
				if j > 0 {
					b.WriteString(",")
				}
				fmt.Fprintf(&b, "%s:(%s)%s", m.K, m.T, m.V)
			}
			b.WriteString("}")
		}
	}
	s := b.String()
	if len(s) > 400 {
		s = s[:400] + "..."
	}
	return "[" + s + "]"
}

// ------------------------------------------------------------------------------ driving the real code

type x03Read struct {
	ents     []x03Entry
	def      string
	fatal    bool
	panicMsg string
	nrec     int
}

func x03Isolated(f func()) (bool, string) {
	done := make(chan struct{})
	completed := false
	msg := ""
	go func() {
		defer close(done)
		defer func() {
			if r := recover(); r != nil {
				msg = fmt.Sprint(r)
			}
		}()
		f()
		completed = true
	}()
	<-done
	return completed, msg
}

func x03ReadSeq(s *obiseq.BioSequence) ([]x03Entry, string) {
	m := map[string]any{}
	for k, v := range s.Annotations() {
		m[k] = v
	}
	return x03EncAll(m), s.Definition()
}

// the real readers: "features" = ParseOBIFeatures on the text, "obi" / "json" / "guessed" = the header
// parser on a sequence whose definition is the text, "fasta+..." = the same behind the real FASTA reader.
func x03Parse(how string, text string) x03Read {
	var r x03Read
	r.nrec = 1
	completed, pmsg := x03Isolated(func() {
		if how == "features" {
			ann := obiseq.Annotation{}
			r.def = obiformats.ParseOBIFeatures(text, ann)
			r.ents = x03EncAll(map[string]any(ann))
			return
		}
		var s *obiseq.BioSequence
		parser := how
		if strings.HasPrefix(how, "fasta+") {
			parser = how[6:]
			sl, _ := obiformats.FastaChunkParser()("verif", strings.NewReader(">id1 "+text+"\nacgt\n"))
			r.nrec = len(sl)
			if len(sl) != 1 {
				return
			}
			s = sl[0]
		} else {
			s = obiseq.NewBioSequence("id1", []byte("acgt"), text)
		}
		switch parser {
		case "obi":
			obiformats.ParseFastSeqOBIHeader(s)
		case "json":
			obiformats.ParseFastSeqJsonHeader(s)
		default:
			obiformats.ParseGuessedFastSeqHeader(s)
		}
		r.ents, r.def = x03ReadSeq(s)
	})
	r.panicMsg = pmsg
	r.fatal = !completed && pmsg == ""
	if r.ents == nil {
		r.ents = []x03Entry{}
	}
	return r
}

func x03Build(rec []x03Entry, def string) *obiseq.BioSequence {
	s := obiseq.NewBioSequence("id1", []byte("acgt"), def)
	for _, e := range rec {
		s.SetAttribute(e.K, x03Value(e))
	}
	return s
}

func x03Write(how string, s *obiseq.BioSequence) (string, bool) {
	out := ""
	completed, pmsg := x03Isolated(func() {
		if how == "json" {
			out = strings.Clone(obiformats.FormatFastSeqJsonHeader(s))
		} else {
			out = strings.Clone(obiformats.FormatFastSeqOBIHeader(s))
		}
	})
	return out, completed && pmsg == ""
}

// headers that can sit on a FASTA title line as they are
func x03OneLine(text string) bool { return !strings.ContainsAny(text, "\n\r") }

// ------------------------------------------------------------------------------ replay

func x03Judge(env *Env, c *x03Case, cl, how, text string, got x03Read, want []x03Entry, wantDef string, r *x03Reading, byValue bool) {
	switch {
	case got.panicMsg != "":
		x03Fail(env, "X03.parse.panic", cl, fmt.Sprintf("%s reader on %q: panic %s", how, text, got.panicMsg), c)
	case got.fatal:
		x03Fail(env, "X03.parse.fatal", cl, fmt.Sprintf("%s reader on %q: log.Fatal %s", how, text, strings.Join(x03LastFatal(), "; ")), c)
	case got.nrec != 1:
		x03Fail(env, "X03.parse.records", cl, fmt.Sprintf("FASTA reader on %q: %d records", text, got.nrec), c)
	case x03SameSet(want, got.ents, byValue) && got.def == wantDef:
	case r != nil && r.Departs != "" && x03SameSet(r.AwEnts, got.ents, byValue) && got.def == r.AwDef:
		x03Fail(env, "X03.known_departure", r.Departs,
			fmt.Sprintf("%s reader on %q: read %s definition %q, specification %s definition %q (the loop as written, departure %s)",
				how, text, x03Show(got.ents), got.def, x03Show(want), wantDef, r.Departs), c)
	case !x03SameSet(want, got.ents, byValue):
		x03Fail(env, "X03.parse.annotations", cl, fmt.Sprintf("%s reader on %q: annotations %s, specification %s", how, text, x03Show(got.ents), x03Show(want)), c)
	default:
		x03Fail(env, "X03.parse.definition", cl, fmt.Sprintf("%s reader on %q: definition %q, specification %q", how, text, got.def, wantDef), c)
	}
	env.ok(cl)
}

func x03LastFatal() []string {
	m := fatalMessages()
	if len(m) > 1 {
		m = m[len(m)-1:]
	}
	return m
}

func x03ReplayParse(env *Env, c *x03Case) {
	r := &c.R
	if r.Undecided {
		// outside the decided domain: the real reader must only survive
		got := x03Parse("features", r.Text)
		if got.panicMsg != "" || got.fatal {
			x03Fail(env, "X03.parse.panic", c.Cls, fmt.Sprintf("ParseOBIFeatures on %q: %s", r.Text, got.panicMsg), c)
		}
		env.ok("undecided")
		return
	}
	hows := []string{"features", "obi"}
	if r.Guess == "obi" && x03OneLine(r.Text) {
		hows = append(hows, "fasta+obi", "fasta+guessed")
	}
	for _, how := range hows {
		x03Judge(env, c, c.Cls, how, r.Text, x03Parse(how, r.Text), r.Ents, r.Def, r, false)
	}
}

func x03ReplayRt(env *Env, c *x03Case) {
	cl := c.Cls
	s := x03Build(c.Rec, c.Def)
	w1, ok := x03Write("obi", s)
	if !ok {
		x03Fail(env, "X03.rt.write_fatal", cl, fmt.Sprintf("FormatFastSeqOBIHeader aborts on %s", x03Show(c.Rec)), c)
		env.ok(cl)
		return
	}
	r1 := x03Parse("obi", w1)
	want, wantDef := c.Back, c.Def
	var rd *x03Reading
	if w1 == c.Text || c.Repr {
		rd = &c.R // the implementation-shaped reading of the specification's text explains listed departures
	}
	if !c.Repr {
		// a record the format cannot carry: what it turns into is decided on the specification's own text only
		if w1 != c.Text || c.R.Undecided {
			env.ok(cl + "/text-differs")
			return
		}
		want, wantDef = c.R.Ents, c.R.Def
	}
	x03Judge(env, c, cl, "write/read (OBI header)", w1, r1, want, wantDef, rd, false)
	if !c.Repr {
		return
	}
	// second pass
	s2 := obiseq.NewBioSequence("id1", []byte("acgt"), w1)
	obiformats.ParseFastSeqOBIHeader(s2)
	w2, _ := x03Write("obi", s2)
	r2 := x03Parse("obi", w2)
	if !(x03SameSet(r1.ents, r2.ents, false) && r1.def == r2.def) {
		x03Fail(env, "X03.rt.second_pass", cl, fmt.Sprintf("%q read %s, written again %q read %s", w1, x03Show(r1.ents), w2, x03Show(r2.ents)), c)
	}
	env.ok(cl + "/second-pass")
	// the same record through the JSON header
	j, jok := x03Write("json", x03Build(c.Rec, c.Def))
	rj := x03Parse("json", j)
	switch {
	case !jok || rj.fatal || rj.panicMsg != "":
		x03Fail(env, "X03.rt.json_fatal", cl, fmt.Sprintf("JSON header of %s: %q aborts", x03Show(c.Rec), j), c)
	case !(x03SameSet(c.Back, rj.ents, true) && rj.def == c.Def):
		x03Fail(env, "X03.rt.json_obi_differ", cl, fmt.Sprintf("record %s read back from its JSON header as %s definition %q", x03Show(c.Back), x03Show(rj.ents), rj.def), c)
	}
	env.ok(cl + "/json")
	// the guess on what was written
	if x03OneLine(w1) {
		g := x03Parse("fasta+guessed", w1)
		switch {
		case g.fatal || g.panicMsg != "":
			a := "X03.guess.fatal"
			if !c.GuessOk {
				a = "X03.guess.brace_definition"
			}
			x03Fail(env, a, cl, fmt.Sprintf("title line %q written with the OBI header: the guessing reader aborts: %s %s", ">id1 "+w1, g.panicMsg, strings.Join(x03LastFatal(), "; ")), c)
		case !(x03SameSet(r1.ents, g.ents, false) && g.def == r1.def):
			a := "X03.guess.differs"
			if !c.GuessOk {
				a = "X03.guess.brace_definition"
			}
			x03Fail(env, a, cl, fmt.Sprintf("title line %q: the guessing reader gives %s %q, the OBI reader %s %q", ">id1 "+w1, x03Show(g.ents), g.def, x03Show(r1.ents), r1.def), c)
		}
		if c.GuessOk {
			env.ok(cl + "/guess")
		} else {
			env.ok("records/lone-brace-definition/guess")
		}
	}
}

func x03ReplayGuess(env *Env, c *x03Case) {
	g := x03Parse("fasta+guessed", c.Text)
	byValue := c.Kind == "json"
	switch {
	case g.fatal || g.panicMsg != "":
		a := "X03.guess.fatal"
		if c.Kind == "json" && !c.IsJson {
			a = "X03.guess.brace_definition"
		}
		x03Fail(env, a, c.Cls, fmt.Sprintf("title line %q: the guessing reader aborts (%s %s); the text holds no annotation and is its own definition",
			">id1 "+c.Text, g.panicMsg, strings.Join(x03LastFatal(), "; ")), c)
	case !(x03SameSet(c.Ents, g.ents, byValue) && g.def == c.Def):
		x03Fail(env, "X03.guess.reading", c.Cls, fmt.Sprintf("title line %q: read %s definition %q, specification %s definition %q (reader to choose: %s)",
			">id1 "+c.Text, x03Show(g.ents), g.def, x03Show(c.Ents), c.Def, c.Kind), c)
	}
	env.ok(c.Cls)
}

// failures other than the listed departures: the replay stops after 120 of them (the verdict is known)
var x03Unlisted int64

func x03Fail(env *Env, assert, class, detail string, c any) {
	if assert != "X03.known_departure" && assert != "X03.guess.brace_definition" {
		x03Unlisted++
	}
	env.fail(assert, class, detail, c)
}

func x03Replay(env *Env) {
	if env.opt("tables", "") != "" {
		x03ReplayTables(env)
		return
	}
	cases := loadCases[x03Case](env.cases)
	for i := range cases {
		if x03Unlisted > 120 {
			env.skipped = 1
			break
		}
		c := &cases[i]
		switch c.Op {
		case "parse":
			x03ReplayParse(env, c)
		case "rt":
			x03ReplayRt(env, c)
		case "guess":
			x03ReplayGuess(env, c)
		}
	}
	if len(cases) > 0 {
		env.sample(map[string]any{"replayed_case": cases[0].R.Text, "class": cases[0].Cls})
	}
}

// ------------------------------------------------------------------------------ record: generators

var x03KeyPool = []string{"count", "taxid", "merged_sample", "obiclean_status", "reads_count", "seq_mutation", "forward_tag",
	"score", "a", "Key-1.b_c", "x9", "direction", "merged_taxid", "ali_length", "m", "status", "scientific_name", "B", "k.v"}

func (g *x03Gen) pick(xs []string) string { return xs[g.rnd(len(xs))] }

type x03Gen struct {
	env     *Env
	classes map[string]int
}

func (g *x03Gen) rnd(n int) int { return g.env.rng.Intn(n) }
func (g *x03Gen) hit(c string)  { g.classes[c]++ }

var x03Plain = []rune("abcdefghijklmnopqrstuvwxyzABCDEFGHIJKLMNOPQRSTUVWXYZ0123456789_-.,:/()[]<>@#%&*+=!?| ")
var x03Odd = []rune("éèüñßøΩλж日本語€")

func (g *x03Gen) word(min, max int, odd bool) string {
	n := min + g.rnd(max-min+1)
	var b strings.Builder
	for i := 0; i < n; i++ {
		if odd && g.rnd(8) == 0 {
			b.WriteRune(x03Odd[g.rnd(len(x03Odd))])
		} else {
			b.WriteRune(x03Plain[g.rnd(len(x03Plain))])
		}
	}
	return b.String()
}

func (g *x03Gen) key() string {
	if g.rnd(3) > 0 {
		return g.pick(x03KeyPool)
	}
	letters := "abcdefghijklmnopqrstuvwxyzABCDEFGHIJKLMNOPQRSTUVWXYZ"
	rest := letters + "0123456789_-."
	n := g.rnd(10)
	b := []byte{letters[g.rnd(len(letters))]}
	for i := 0; i < n; i++ {
		b = append(b, rest[g.rnd(len(rest))])
	}
	k := string(b)
	switch g.rnd(8) {
	case 0:
		k = "merged_" + k
	case 1:
		k += "_count"
	case 2:
		k += "_status"
	case 3:
		k += "_mutation"
	}
	switch k {
	case "definition", "id", "sequence", "qualities": // keys SetAttribute gives another meaning to
		k += "s"
	}
	return k
}

// a number literal of the header grammar, within the decided domain of values
func (g *x03Gen) numLiteral() string {
	sign := []string{"", "", "-", "+"}[g.rnd(4)]
	switch g.rnd(8) {
	case 0: // small integer
		g.hit("num/int")
		return sign + strconv.Itoa(g.rnd(100000))
	case 1: // up to 2^53
		g.hit("num/int")
		return sign + strconv.FormatInt(g.env.rng.Int63n(1<<53), 10)
	case 2: // decimal fraction
		g.hit("num/fraction")
		return sign + strconv.Itoa(g.rnd(1000)) + "." + fmt.Sprintf("%0*d", 1+g.rnd(5), g.rnd(100000))
	case 3: // integral value written with a fraction or an exponent
		g.hit("num/integral-float")
		return sign + []string{"2.0", "5.", "1e3", "12.5e1", "250E-1", "0.0", "7.00", "3e+2"}[g.rnd(8)]
	case 4: // exponent forms
		g.hit("num/exponent")
		return sign + strconv.Itoa(1+g.rnd(999)) + []string{"e", "E"}[g.rnd(2)] + []string{"-", "+", ""}[g.rnd(3)] + strconv.Itoa(g.rnd(12))
	case 5:
		g.hit("num/leading-dot")
		return sign + "." + strconv.Itoa(g.rnd(1000))
	case 6: // Go's own printing of a float64
		g.hit("num/go-float")
		return strconv.FormatFloat(g.decimal()*math.Pow(10, float64(3*g.rnd(3))), 'g', -1, 64)
	default: // integral, beyond int64
		g.hit("num/huge")
		return sign + strconv.Itoa(1+g.rnd(99)) + "e" + strconv.Itoa(19+g.rnd(20))
	}
}

// a float64 that a decimal literal of at most 9 significant digits denotes
func (g *x03Gen) decimal() float64 {
	lit := strconv.Itoa(g.rnd(10000)) + "." + fmt.Sprintf("%0*d", 1+g.rnd(4), 1+g.rnd(9999))
	if g.rnd(4) == 0 {
		lit += "e-" + strconv.Itoa(1+g.rnd(8))
	}
	f, _ := strconv.ParseFloat(lit, 64)
	if g.rnd(2) == 0 {
		f = -f
	}
	return f
}

func (g *x03Gen) dictText() string {
	n := g.rnd(4)
	var b strings.Builder
	q := "'"
	if g.rnd(6) == 0 {
		q = "\""
	}
	sp := func() string {
		if g.rnd(5) == 0 {
			return " "
		}
		return ""
	}
	b.WriteString("{" + sp())
	for i := 0; i < n; i++ {
		if i > 0 {
			b.WriteString(sp() + "," + sp())
		}
		k := strings.NewReplacer("'", "", "\"", "", "\\", "").Replace(g.word(0, 6, true))
		b.WriteString(q + k + q + sp() + ":" + sp())
		switch g.rnd(7) {
		case 0, 1:
			b.WriteString(strconv.Itoa(g.rnd(1000) - 100))
		case 2:
			b.WriteString(q + strings.NewReplacer("'", "", "\"", "", "\\", "").Replace(g.word(0, 8, true)) + q)
		case 3:
			b.WriteString(q + "a;b}{" + q)
		case 4:
			b.WriteString([]string{"true", "false", "null", "1.5", "-2e3", "0.25"}[g.rnd(6)])
		case 5:
			b.WriteString([]string{"{" + q + "z" + q + ":1}", "[1," + q + "a" + q + "]", "[]", "{}"}[g.rnd(4)])
		default:
			b.WriteString(strconv.Itoa(g.rnd(10)))
		}
	}
	b.WriteString(sp() + "}")
	s := b.String()
	g.hit("dict/valid")
	switch g.rnd(10) {
	case 0: // damaged: not a JSON object any more
		g.hit("dict/damaged")
		return []string{"{a}", "{" + q + "a" + q + ":}", "{" + q + "a" + q + ":1,}", "{" + q + "a" + q + " 1}", s + "x", "{" + s + "}", "{'a':'it's'}"}[g.rnd(7)]
	}
	return s
}

func (g *x03Gen) valueText(k string) string {
	switch g.rnd(12) {
	case 0, 1, 2:
		return g.numLiteral()
	case 3:
		g.hit("value/bool")
		return []string{"true", "True", "TRUE", "t", "T", "false", "False", "FALSE", "f", "F"}[g.rnd(10)]
	case 4:
		g.hit("value/quoted")
		return "'" + strings.ReplaceAll(g.word(0, 10, true), "'", "") + []string{"", ";x", " "}[g.rnd(3)] + "'" + []string{"", " ", "  "}[g.rnd(3)]
	case 5, 6:
		return g.dictText()
	case 7:
		g.hit("value/near-miss")
		return []string{"tRUE", "yes", "1e", "--1", "1.2.3", ".5e3", "0x10", "[1,2,3]", "[1 2 3]", "NaN", "Inf", "1_000", "{a", "a}b", "it's", "\"abc\"", " 'abc'", "1 2", "", "''x"}[g.rnd(20)]
	default:
		g.hit("value/string")
		return strings.ReplaceAll(g.word(0, 14, true), ";", "")
	}
}

func (g *x03Gen) headerText() string {
	var b strings.Builder
	n := g.rnd(6)
	if g.rnd(12) == 0 {
		b.WriteString([]string{" ", "  ", "\t"}[g.rnd(3)])
	}
	for i := 0; i < n; i++ {
		k := g.key()
		b.WriteString(k)
		if g.rnd(10) == 0 {
			b.WriteString([]string{" ", "\t", "  "}[g.rnd(3)])
		}
		b.WriteString("=")
		v := g.valueText(k)
		if g.rnd(10) == 0 && !strings.HasPrefix(v, "'") {
			v = " " + v + " "
		}
		b.WriteString(v + ";")
		switch g.rnd(10) {
		case 0:
			g.hit("sep/none")
		case 1:
			b.WriteString("  ")
		case 2:
			b.WriteString("\t")
		default:
			b.WriteString(" ")
		}
	}
	switch g.rnd(6) {
	case 0:
	case 1:
		g.hit("tail/key-like")
		t := []string{"x=1", "a b=1; c", "1a=3;", "=2;", "_a=1;", "é=1;", "x = 'unterminated", "name=Homo sapiens"}[g.rnd(8)]
		if t[0] >= 0x80 && strings.HasSuffix(b.String(), ";") {
			b.WriteString(" ") // the code as written drops one BYTE after a ';': half a character cannot be told to TLC
		}
		b.WriteString(t)
	case 2:
		b.WriteString(" " + g.word(3, 30, true) + " ")
	default:
		g.hit("tail/text")
		b.WriteString("Homo sapiens " + strings.TrimSpace(strings.ReplaceAll(g.word(0, 20, true), "=", "")))
	}
	return b.String()
}

func (g *x03Gen) soup() string {
	alpha := []rune("ab1.e-+ ;;'{}=\"=:,tT\t")
	n := g.rnd(24)
	var b strings.Builder
	b.WriteString([]string{"k=", "merged_k=", "k_status=", ""}[g.rnd(4)])
	for i := 0; i < n; i++ {
		b.WriteRune(alpha[g.rnd(len(alpha))])
	}
	return b.String()
}

// a random in-memory annotation value; repr=false also draws values the format cannot carry
func (g *x03Gen) annotation(k string, onlyRepr, safeStrings bool) any {
	clean := func(s string) string { return strings.NewReplacer("'", "", "\"", "", "\\", "").Replace(s) }
	for {
		switch g.rnd(14) {
		case 0, 1:
			g.hit("rec/int")
			return g.rnd(100000) - 500
		case 2:
			g.hit("rec/float")
			return g.decimal()
		case 3:
			g.hit("rec/integral-float")
			return float64(g.rnd(1000))
		case 4:
			g.hit("rec/bool")
			return g.rnd(2) == 0
		case 5, 6, 7:
			s := strings.TrimSpace(strings.ReplaceAll(g.word(0, 16, true), ";", ""))
			if g.rnd(6) == 0 && len(s) > 0 {
				s += []string{"{", "}", "'", "\"", "{b}'c", "=x"}[g.rnd(6)]
				g.hit("rec/string-with-brace-or-quote")
			}
			if safeStrings {
				s = "s" + s // cannot be taken for a number or a boolean word
			}
			g.hit("rec/string")
			return s
		case 8:
			if strings.HasSuffix(k, "_status") || strings.HasSuffix(k, "_mutation") {
				continue
			}
			m := map[string]int{}
			for i := g.rnd(4); i > 0; i-- {
				m[clean(g.word(1, 6, true))] = g.rnd(1000)
			}
			g.hit("rec/mapint")
			return m
		case 9:
			if strings.HasPrefix(k, "merged_") || strings.HasSuffix(k, "_count") {
				continue
			}
			m := map[string]string{}
			for i := g.rnd(4); i > 0; i-- {
				m[clean(g.word(1, 6, true))] = clean(g.word(0, 8, true)) + []string{"", ";", "}", "{"}[g.rnd(4)]
			}
			g.hit("rec/mapstr")
			return m
		case 10:
			if strings.HasPrefix(k, "merged_") || strings.HasSuffix(k, "_count") || strings.HasSuffix(k, "_status") || strings.HasSuffix(k, "_mutation") {
				continue
			}
			m := map[string]any{}
			for i := g.rnd(4); i > 0; i-- {
				var v any
				switch g.rnd(6) {
				case 0:
					v = float64(g.rnd(100))
				case 1:
					v = g.decimal()
				case 2:
					v = clean(g.word(0, 8, true))
				case 3:
					v = g.rnd(2) == 0
				case 4:
					v = map[string]any{"z": 1.0}
				default:
					v = []any{1.0, "a"}
				}
				m[clean(g.word(1, 6, true))] = v
			}
			g.hit("rec/map")
			return m
		default:
			if onlyRepr {
				continue
			}
			g.hit("rec/not-representable")
			switch g.rnd(9) {
			case 0:
				return "a;b"
			case 1:
				return []string{"42", "1.5", "1e3", ".5"}[g.rnd(4)]
			case 2:
				return []string{"T", "f", "true", "FALSE"}[g.rnd(4)]
			case 3:
				return " padded "
			case 4:
				return []int{1, 2, 3}
			case 5:
				return []string{"{'a':1}", "'abc'", "{x", "'x"}[g.rnd(4)]
			case 6:
				return map[string]string{"a": "it's"}
			case 7:
				return []string{"a", "b"}
			default:
				return map[string]any{"a": "x\"y"}
			}
		}
	}
}

func (g *x03Gen) record(onlyRepr, safeStrings bool) (map[string]any, string) {
	ann := map[string]any{}
	for i := g.rnd(6); i > 0; i-- {
		k := g.key()
		if !onlyRepr && g.rnd(25) == 0 {
			k = []string{"1a", "_a", "a b", "é"}[g.rnd(4)]
		}
		ann[k] = g.annotation(k, onlyRepr, safeStrings)
	}
	def := ""
	switch g.rnd(8) {
	case 0, 1:
	case 2:
		if !onlyRepr {
			g.hit("def/key-like")
			def = []string{"x=1;", "name=Homo sapiens; strain", " padded"}[g.rnd(3)]
			break
		}
		fallthrough
	case 3:
		g.hit("def/brace-first")
		def = "{" + strings.Trim(strings.ReplaceAll(g.word(1, 6, false), "{", ""), " ") + "} sp."
	default:
		def = "Homo sapiens " + strings.TrimSpace(g.word(0, 20, true))
		def = strings.TrimSpace(def)
	}
	return ann, def
}

// ------------------------------------------------------------------------------ record: events

func x03Bool(b bool) int {
	if b {
		return 1
	}
	return 0
}

func x03RecEntries(ann map[string]any) []x03Entry {
	out := []x03Entry{}
	for k, v := range ann {
		e := x03Enc(k, v)
		if e.T == "other" {
			e.T = "list"
		}
		out = append(out, e)
	}
	sort.Slice(out, func(i, j int) bool { return out[i].K < out[j].K })
	return out
}

func x03RtEvent(ann map[string]any, def string) map[string]any {
	build := func() *obiseq.BioSequence {
		s := obiseq.NewBioSequence("id1", []byte("acgt"), def)
		for k, v := range ann {
			s.SetAttribute(k, v)
		}
		return s
	}
	fatal := false
	w1, ok := x03Write("obi", build())
	fatal = fatal || !ok
	r1 := x03Parse("obi", w1)
	fatal = fatal || r1.fatal || r1.panicMsg != ""
	s2 := obiseq.NewBioSequence("id1", []byte("acgt"), w1)
	x03Isolated(func() { obiformats.ParseFastSeqOBIHeader(s2) })
	w2, ok2 := x03Write("obi", s2)
	fatal = fatal || !ok2
	r2 := x03Parse("obi", w2)
	fatal = fatal || r2.fatal || r2.panicMsg != ""
	j, jok := x03Write("json", build())
	rj := x03Parse("json", j)
	var g x03Read
	if x03OneLine(w1) {
		g = x03Parse("fasta+guessed", w1)
	} else {
		g = r1
	}
	return map[string]any{"op": "rt", "rec": x03RecEntries(ann), "def": def,
		"w1": w1, "r1": r1.ents, "d1": r1.def, "w2": w2, "r2": r2.ents, "d2": r2.def, "fatal": x03Bool(fatal),
		"j": j, "j1": rj.ents, "jd1": rj.def, "jfatal": x03Bool(!jok || rj.fatal || rj.panicMsg != ""),
		"g1": g.ents, "gd1": g.def, "gfatal": x03Bool(g.fatal || g.panicMsg != "" || g.nrec != 1)}
}

func x03Record(env *Env) {
	if f := env.opt("ecochild", ""); f != "" {
		x03EcoChild(env, f)
		return
	}
	if env.opt("tables", "") != "" {
		x03RecordTables(env)
		return
	}
	g := &x03Gen{env: env, classes: map[string]int{}}
	if dir := env.opt("dir", ""); dir != "" {
		x03WriteFiles(env, g, dir)
		return
	}
	nParse := env.n * 6 / 10
	for i := 0; i < nParse; i++ {
		text := g.headerText()
		if i%7 == 6 {
			text = g.soup()
			g.hit("text/soup")
		}
		r := x03Parse("features", text)
		env.emit(map[string]any{"op": "parse", "text": text, "ents": r.ents, "def": r.def, "fatal": x03Bool(r.fatal || r.panicMsg != "")})
	}
	for i := nParse; i < env.n; i++ {
		ann, def := g.record(i%3 != 0, false)
		env.emit(x03RtEvent(ann, def))
	}
	if p := env.opt("classes", ""); p != "" {
		var b bytes.Buffer
		b.WriteString("{")
		keys := []string{}
		for k := range g.classes {
			keys = append(keys, k)
		}
		sort.Strings(keys)
		for i, k := range keys {
			if i > 0 {
				b.WriteString(",")
			}
			fmt.Fprintf(&b, "%q:%d", k, g.classes[k])
		}
		b.WriteString("}")
		os.WriteFile(p, b.Bytes(), 0o644)
	}
}

// files for the command-level runs: FASTA / FASTQ with JSON headers written by the real writer from
// representable random records; one manifest line per file.
func x03WriteFiles(env *Env, g *x03Gen, dir string) {
	os.MkdirAll(dir, 0o755)
	for f := 0; f < env.n; f++ {
		n := 1 + g.rnd(12)
		sl := obiseq.MakeBioSequenceSlice()
		fastq := f%2 == 1
		for k := 0; k < n; k++ {
			ann, def := g.record(true, true)
			if f%5 == 4 {
				// records without a non-integral number: no listed departure of the reader applies
				for key, v := range ann {
					if fl, ok := v.(float64); ok && fl != math.Trunc(fl) {
						delete(ann, key)
					}
				}
			}
			// the three keys the commands give a meaning to carry values of their kind
			delete(ann, "count")
			delete(ann, "taxid")
			delete(ann, "scientific_name")
			if g.rnd(2) == 0 {
				ann["count"] = 1 + g.rnd(500)
			}
			if g.rnd(3) == 0 {
				ann["taxid"] = []int{1, 9606, 4530}[g.rnd(3)]
				if g.rnd(2) == 0 {
					ann["scientific_name"] = "sHomo sapiens"
				}
			}
			if strings.HasPrefix(def, "{") && len(ann) == 0 {
				def = "sp. " + def
			}
			seq := []byte(strings.Repeat("acgt", 1+g.rnd(20)))
			var s *obiseq.BioSequence
			if fastq {
				q := make([]byte, len(seq))
				for i := range q {
					q[i] = byte(g.rnd(41))
				}
				s = obiseq.NewBioSequenceWithQualities(fmt.Sprintf("seq%d_%d", f, k), seq, def, q)
			} else {
				s = obiseq.NewBioSequence(fmt.Sprintf("seq%d_%d", f, k), seq, def)
			}
			for key, v := range ann {
				s.SetAttribute(key, v)
			}
			sl = append(sl, s)
		}
		batch := obiiter.MakeBioSequenceBatch("verif", 0, sl)
		name := filepath.Join(dir, fmt.Sprintf("in%d.fasta", f))
		var data []byte
		if fastq {
			name = filepath.Join(dir, fmt.Sprintf("in%d.fastq", f))
			data = obiformats.FormatFastqBatch(batch, obiformats.FormatFastSeqJsonHeader, false).Bytes()
		} else {
			data = obiformats.FormatFastaBatch(batch, obiformats.FormatFastSeqJsonHeader, false).Bytes()
		}
		os.WriteFile(name, data, 0o644)
		env.emit(map[string]any{"file": name, "fastq": x03Bool(fastq), "nrec": n, "nofloat": x03Bool(f%5 == 4)})
	}
}

package main

// C06: dereplication (obiuniq / obichunk.IUniqueSequence) and obidemerge.
//
// replay: every (bag, option set) case exported by TLC from spec/L3_command/Uniq.tla is run through
//   - the real obichunk.IUniqueSequence, in several input permutations x {in-memory, on-disk} x
//     workers x chunk counts x input batch sizes x encodings of the merged map (level "lib"),
//   - the real binaries `obiuniq [-m k] [-c ci] [--no-singleton] [--in-memory] [--chunk-count n]`
//     (level "bin") and `obiuniq -m k | obidemerge -d k | obiuniq -m k` (level "law"),
//   - two first passes (one per part of the bag, any cut) whose real output records are given to a
//     second pass with the same options (levels "pass2": library objects, "pass2bin": files),
//   and the decoded output is compared, as a multiset of (sequence, category values, count,
//   merged_k vector, merged_k:w vector), with the set the specification assigns to the bag.
//   The statistics are requested with the plain descriptor (-m k, OptionStatOn("k")), the weighted
//   one (-m k:w: weight of a record = its attribute w) or both, in either order.
//   Library runs are executed in child processes (p06_proc.go): a panic of the code under test is a
//   reported violation, not a dead harness.
// record: seeded random data sets of ~10^3 records through the library and the binaries; events for
//   spec/trace/UniqTrace.tla.
//
// The driver holds no oracle: it only encodes abstract records into real ones and decodes real
// output records into the tuples of the specification.

import (
	"bytes"
	"encoding/json"
	"fmt"
	"math/rand"
	"os"
	"os/exec"
	"path/filepath"
	"sort"
	"strconv"
	"strings"
	"sync/atomic"
	"time"

	"git.metabarcoding.org/obitools/obitools4/obitools4/pkg/obichunk"
	"git.metabarcoding.org/obitools/obitools4/obitools4/pkg/obiiter"
	"git.metabarcoding.org/obitools/obitools4/obitools4/pkg/obioptions"
	"git.metabarcoding.org/obitools/obitools4/obitools4/pkg/obiseq"
	"git.metabarcoding.org/obitools/obitools4/obitools4/pkg/obitools/obidemerge"
)

const c06NA = "NA"
const c06Missing = "-"

type c06Cfg struct {
	Level     string `json:"level"` // lib | bin | law | demerge
	Perm      []int  `json:"perm"`
	Mode      string `json:"mode"` // mem | disk
	Workers   int    `json:"workers"`
	Chunks    int    `json:"chunks"`
	Batch     int    `json:"batch"`     // size of the input batches (lib) / --batch-size (bin)
	MapType   int    `json:"maptype"`   // lib: 0 StatsOnValues, 1 map[string]int, 2 map[string]interface{}(float64)
	Explicit1 bool   `json:"explicit1"` // a count of 1 is written explicitly
	Variant   int    `json:"variant"`   // realisation of the sequence identifiers as nucleotide strings
	Big       int    `json:"big"`       // > 0: every sequence is about Big kilobases long
	NAValue   string `json:"na"`        // the --na-value / OptionNAValue of the run ("" = NA): a renaming of the abstract NA
	MOrder    int    `json:"morder"`    // both descriptors requested: 0 = -m k -m k:w, 1 = -m k:w -m k, 2 (lib) = two OptionStatOn calls
	WType     int    `json:"wtype"`     // lib: the attribute w is 0 an int, 1 a float64 (what a JSON header gives), 2 an int64
	Split     int    `json:"split"`     // levels pass2 / pass2bin: the first Split records (in the order Perm) make the first part
}

func (c *c06Cfg) na() string {
	if c.NAValue == "" {
		return c06NA
	}
	return c.NAValue
}

// real spelling of an abstract attribute value / back
func (c *c06Cfg) spell(v string) string {
	if v == c06NA {
		return c.na()
	}
	return v
}
func (c *c06Cfg) unspell(v string) string {
	if v == c.na() {
		return c06NA
	}
	if v == c06NA {
		// the run was given another NA value: a literal "NA" in the output is a value of its own, not the abstract NA
		return "NA(literal)"
	}
	return v
}

type c06Case struct {
	In   [][]any  `json:"in"`
	Opt  []int    `json:"opt"`
	Keys []string `json:"keys"`
	Out  [][]any  `json:"out"`
	Dem  [][]any  `json:"dem"`
	Cfg  *c06Cfg  `json:"cfg,omitempty"`
	Idx  int      `json:"idx"`
}

type urec struct {
	Seq   string
	Cat   []string
	Count int
	Mt    string // none | val | map | both
	Mv    string
	Mm    []int
	W     int    // attribute w, c06wNoW when absent
	Wt    string // none | map
	Wm    []int  // merged_k:w
}

const c06wNoW = -1
const c06wSlot = "merged_k:w"
const c06wDesc = "k:w"

// options of a case: <<ncat, -m k, --no-singleton, -m k:w>> (the last one absent in cases written before the weighted descriptor)
func c06wWants(opt []int) bool { return len(opt) > 3 && opt[3] == 1 }

func init() {
	register("C06", &driver{replay: replayC06, record: recordC06})
}

// --------------------------------------------------------------------------- encoding / decoding

func anyInt(v any) int {
	switch x := v.(type) {
	case float64:
		return int(x)
	case int:
		return x
	case json.Number:
		i, _ := x.Int64()
		return int(i)
	}
	return -999999
}

func anyStrings(v any) []string {
	out := []string{}
	switch a := v.(type) {
	case []any:
		for _, x := range a {
			out = append(out, fmt.Sprint(x))
		}
	case []string:
		out = append(out, a...)
	}
	return out
}

func anyInts(v any) []int {
	out := []int{}
	switch a := v.(type) {
	case []any:
		for _, x := range a {
			out = append(out, anyInt(x))
		}
	case []int:
		out = append(out, a...)
	}
	return out
}

func decodeRecs(in [][]any) []urec {
	rs := make([]urec, 0, len(in))
	for _, t := range in {
		r := urec{Seq: fmt.Sprint(t[0]), Cat: anyStrings(t[1]), Count: anyInt(t[2]),
			Mt: fmt.Sprint(t[3]), Mv: fmt.Sprint(t[4]), Mm: anyInts(t[5]), W: c06wNoW, Wt: "none"}
		if len(t) >= 9 {
			r.W, r.Wt, r.Wm = anyInt(t[6]), fmt.Sprint(t[7]), anyInts(t[8])
		} else {
			r.Wm = make([]int, len(r.Mm))
		}
		rs = append(rs, r)
	}
	return rs
}

func joinInts(v []int) string {
	s := make([]string, len(v))
	for i, x := range v {
		s[i] = strconv.Itoa(x)
	}
	return strings.Join(s, ",")
}

// canonical text of an output tuple <<seq, cat, count, vector>> of the specification
func canonOutTuple(t []any) string {
	s := fmt.Sprint(t[0]) + "|" + strings.Join(anyStrings(t[1]), ",") + "|" + strconv.Itoa(anyInt(t[2])) + "|" + joinInts(anyInts(t[3]))
	if len(t) >= 5 {
		return s + "|" + joinInts(anyInts(t[4]))
	}
	return s + "|" + joinInts(make([]int, len(anyInts(t[3]))))
}

// the same without the merged_k:w vector (third stage of the uniq / demerge / uniq law, which asks for -m k only)
func c06wCanonPlain(t []any) string {
	return canonOutTuple([]any{t[0], t[1], t[2], t[3]})
}

// canonical text of a demerged tuple <<seq, cat, count, value>>
func canonDemTuple(t []any) string {
	return fmt.Sprint(t[0]) + "|" + strings.Join(anyStrings(t[1]), ",") + "|" + strconv.Itoa(anyInt(t[2])) + "|" + fmt.Sprint(t[3])
}

func sortedCanon(ts [][]any, f func([]any) string) []string {
	out := make([]string, 0, len(ts))
	for _, t := range ts {
		out = append(out, f(t))
	}
	sort.Strings(out)
	return out
}

// seqString realises the abstract sequence identifier "s<n>" as a nucleotide string.  Different
// variants give different CRC32 values, hence different distributions on the hash chunks.
func seqString(id string, variant, big int) string {
	n, err := strconv.Atoi(strings.TrimPrefix(id, "s"))
	if err != nil {
		n = 0
		for _, c := range id {
			n = n*31 + int(c)
		}
	}
	// variant 5: the first two sequence identifiers are realised as two DIFFERENT strings with the SAME CRC32
	// (they fall in the same hash chunk and must still be two classes)
	if variant == 5 && big == 0 && (n == 0 || n == 1) {
		return []string{"tatctccgatcatccggcgctgtg", "tccaggtggcggagctcaactata"}[n]
	}
	rng := rand.New(rand.NewSource(int64(variant)*100003 + 17))
	b := make([]byte, 0, 24)
	for i := 0; i < 6+variant%5; i++ {
		b = append(b, "acgt"[rng.Intn(4)])
	}
	// the identifier, in base 4: distinct identifiers give distinct strings
	m := n + 1
	for m > 0 {
		b = append(b, "acgt"[m%4])
		m /= 4
	}
	b = append(b, 't', 'g')
	if big > 0 {
		unit := make([]byte, 1000)
		r2 := rand.New(rand.NewSource(int64(n)*7919 + int64(variant)))
		for i := range unit {
			unit[i] = "acgt"[r2.Intn(4)]
		}
		out := make([]byte, 0, big*1000+len(b))
		for i := 0; i < big; i++ {
			out = append(out, unit...)
		}
		return string(append(out, b...))
	}
	return string(b)
}

func catName(i int) string { return "c" + strconv.Itoa(i+1) }

// attributes of the real record standing for the abstract record r
func recAttributes(i int, r urec, keys []string, cfg *c06Cfg, forJSON bool) map[string]any {
	a := map[string]any{}
	if r.Count != 1 || cfg.Explicit1 {
		a["count"] = r.Count
	}
	for j, v := range r.Cat {
		if v == "3" {
			a[catName(j)] = 3 // a numeric attribute value: classes are made on its text
		} else if v != c06Missing {
			a[catName(j)] = cfg.spell(v)
		}
	}
	if cfg.Variant%3 != 2 { // one realisation out of three has no decoy: a record may then bear no annotation at all
		a["rank"] = i // an attribute that differs between the records of a class
		a["origin"] = "verif"
	}
	if r.Mt == "val" || r.Mt == "both" {
		if r.Mv == "7" {
			a["k"] = 7 // a numeric attribute value: counted under its text
		} else {
			a["k"] = cfg.spell(r.Mv)
		}
	}
	if r.W != c06wNoW {
		switch {
		case forJSON || cfg.WType == 0:
			a["w"] = r.W
		case cfg.WType == 1:
			a["w"] = float64(r.W)
		default:
			a["w"] = int64(r.W)
		}
	}
	if r.Wt == "map" {
		a[c06wSlot] = c06wMapValue(r.Wm, keys, cfg, forJSON, (cfg.MapType+1)%3)
	}
	switch r.Mt {
	case "map", "both":
		switch {
		case forJSON || cfg.MapType == 1:
			m := map[string]int{}
			for j, w := range r.Mm {
				if w > 0 {
					m[cfg.spell(keys[j])] = w
				}
			}
			a["merged_k"] = m
		case cfg.MapType == 0:
			m := obiseq.StatsOnValues{}
			for j, w := range r.Mm {
				if w > 0 {
					m[cfg.spell(keys[j])] = w
				}
			}
			a["merged_k"] = m
		default:
			m := map[string]interface{}{}
			for j, w := range r.Mm {
				if w > 0 {
					m[cfg.spell(keys[j])] = float64(w)
				}
			}
			a["merged_k"] = m
		}
	}
	return a
}

// c06wMapValue: a statistics map in one of the Go types the code under test accepts
func c06wMapValue(vec []int, keys []string, cfg *c06Cfg, forJSON bool, maptype int) any {
	switch {
	case forJSON || maptype == 1:
		m := map[string]int{}
		for j, w := range vec {
			if w > 0 {
				m[cfg.spell(keys[j])] = w
			}
		}
		return m
	case maptype == 0:
		m := obiseq.StatsOnValues{}
		for j, w := range vec {
			if w > 0 {
				m[cfg.spell(keys[j])] = w
			}
		}
		return m
	}
	m := map[string]interface{}{}
	for j, w := range vec {
		if w > 0 {
			m[cfg.spell(keys[j])] = float64(w)
		}
	}
	return m
}

// one real output record, before abstraction
type orec struct {
	seq   string
	attrs map[string]any
}

type decoder struct {
	rev  map[string]string // nucleotide string -> abstract identifier
	keys []string
	kidx map[string]int
	cfg  *c06Cfg
}

func newDecoder(recs []urec, keys []string, cfg *c06Cfg) *decoder {
	d := &decoder{rev: map[string]string{}, keys: keys, kidx: map[string]int{}, cfg: cfg}
	for _, r := range recs {
		d.rev[seqString(r.Seq, cfg.Variant, cfg.Big)] = r.Seq
	}
	for i, k := range keys {
		d.kidx[k] = i
	}
	return d
}

func attrInt(v any) (int, bool) {
	switch x := v.(type) {
	case int:
		return x, true
	case float64:
		if x == float64(int(x)) {
			return int(x), true
		}
	case int64:
		return int(x), true
	}
	return 0, false
}

// c06wDecodeStats turns a real statistics map into the weight vector of the specification; minw = smallest
// weight an entry may have (1 in merged_k: a value present has been counted; 0 in merged_k:w, where a value of
// total weight 0 and an absent value are the same thing)
func (d *decoder) c06wDecodeStats(slot string, v any, minw int) (vec []int, bad string) {
	vec = make([]int, len(d.keys))
	set := func(k string, w int, isInt bool) {
		j, known := d.kidx[d.cfg.unspell(k)]
		if !known || !isInt || w < minw {
			bad = fmt.Sprintf("%s entry %q:%v", slot, k, w)
			return
		}
		vec[j] += w
	}
	switch m := v.(type) {
	case obiseq.StatsOnValues:
		for k, w := range m {
			set(k, w, true)
		}
	case map[string]int:
		for k, w := range m {
			set(k, w, true)
		}
	case map[string]interface{}:
		for k, w := range m {
			wi, isInt := attrInt(w)
			set(k, wi, isInt)
		}
	default:
		bad = fmt.Sprintf("%s has type %T", slot, v)
	}
	return vec, bad
}

// abstract turns a real output record into the tuple <<seq, cat, count, vector of merged_k, vector of merged_k:w>>
// (a vector is zero when its descriptor was not requested); bad = it has no image in the abstract domain.
func (d *decoder) abstract(o orec, ncat int, merge bool, wmerge bool) (tuple []any, bad string) {
	id, ok := d.rev[o.seq]
	if !ok {
		id = "?" + o.seq
		if len(id) > 40 {
			id = id[:40]
		}
		bad = "unknown sequence"
	}
	cats := make([]string, ncat)
	for i := 0; i < ncat; i++ {
		if v, ok := o.attrs[catName(i)]; ok {
			cats[i] = d.cfg.unspell(fmt.Sprint(v))
		} else {
			cats[i] = c06NA
		}
	}
	count := 1
	if v, ok := o.attrs["count"]; ok {
		c, isInt := attrInt(v)
		if !isInt {
			bad = "count is not an integer"
		}
		count = c
	}
	vec := make([]int, len(d.keys))
	if merge {
		v, ok := o.attrs["merged_k"]
		if !ok {
			bad = "no merged_k"
		} else {
			var b string
			if vec, b = d.c06wDecodeStats("merged_k", v, 1); b != "" {
				bad = b
			}
		}
	}
	wvec := make([]int, len(d.keys))
	if wmerge {
		v, ok := o.attrs[c06wSlot]
		if !ok {
			bad = "no " + c06wSlot
		} else {
			var b string
			if wvec, b = d.c06wDecodeStats(c06wSlot, v, 0); b != "" {
				bad = b
			}
		}
	}
	return []any{id, cats, count, vec, wvec}, bad
}

// c06wAsInput reads a real output record of a first pass back as an INPUT record of the specification (trace
// events "pass2"): whatever it carries - k, w, merged_k, merged_k:w - is reported as it is.
func (d *decoder) c06wAsInput(o orec, ncat int, ncatAll int) (tuple []any, bad string) {
	t, bad := d.abstract(o, ncat, false, false)
	cats := t[1].([]string)
	for len(cats) < ncatAll {
		cats = append(cats, c06Missing)
	}
	mt, mv := "none", ""
	if v, ok := o.attrs["k"]; ok {
		mt, mv = "val", d.cfg.unspell(fmt.Sprint(v))
		if _, known := d.kidx[mv]; !known {
			bad = "unknown value of k " + mv
		}
	}
	mm := make([]int, len(d.keys))
	if v, ok := o.attrs["merged_k"]; ok {
		var b string
		if mm, b = d.c06wDecodeStats("merged_k", v, 1); b != "" {
			bad = b
		}
		if mt == "val" {
			mt = "both"
		} else {
			mt = "map"
		}
	}
	w := c06wNoW
	if v, ok := o.attrs["w"]; ok {
		wi, isInt := attrInt(v)
		if !isInt || wi < 0 {
			bad = fmt.Sprintf("attribute w = %v", v)
		}
		w = wi
	}
	wt := "none"
	wm := make([]int, len(d.keys))
	if v, ok := o.attrs[c06wSlot]; ok {
		var b string
		if wm, b = d.c06wDecodeStats(c06wSlot, v, 0); b != "" {
			bad = b
		}
		wt = "map"
	}
	return []any{t[0], cats, t[2], mt, mv, mm, w, wt, wm}, bad
}

// abstractDem: a demerged record -> <<seq, cat, count, value of k>>
func (d *decoder) abstractDem(o orec, ncat int) (tuple []any, bad string) {
	t, bad := d.abstract(o, ncat, false, false)
	v, ok := o.attrs["k"]
	if !ok {
		bad = "no attribute k"
	}
	if _, still := o.attrs["merged_k"]; still {
		bad = "merged_k still present"
	}
	return []any{t[0], t[1], t[2], d.cfg.unspell(fmt.Sprint(v))}, bad
}

// --------------------------------------------------------------------------------- library level

type libResult struct {
	out    []orec
	status string // ok | hung | error:<..>
}

var c06Patience = 60 * time.Second

// runs that did not terminate, per mode: after a few of them the remaining runs of that mode are skipped
// (each costs the whole patience; the violation is already recorded)
var c06Hung = map[string]*int64{"mem": new(int64), "disk": new(int64), "bin/mem": new(int64), "bin/disk": new(int64)}

// c06wOrder: the arrival order of the records of a case
func c06wOrder(n int, cfg *c06Cfg) []int {
	order := cfg.Perm
	if len(order) != n {
		order = make([]int, n)
		for i := range order {
			order[i] = i
		}
	}
	return order
}

// c06wBuildSeqs: the real records standing for the abstract records recs[order[from:to]]
func c06wBuildSeqs(recs []urec, keys []string, cfg *c06Cfg, order []int, from, to int) []*obiseq.BioSequence {
	seqs := make([]*obiseq.BioSequence, 0, to-from)
	for pos := from; pos < to; pos++ {
		i := order[pos]
		r := recs[i]
		s := obiseq.NewBioSequence("r"+strconv.Itoa(pos), []byte(seqString(r.Seq, cfg.Variant, cfg.Big)), "")
		for k, v := range recAttributes(i, r, keys, cfg, false) {
			s.SetAttribute(k, v)
		}
		seqs = append(seqs, s)
	}
	return seqs
}

// c06wStatOptions: the requested statistics, in the order the configuration says
func c06wStatOptions(opt []int, cfg *c06Cfg) []obichunk.WithOption {
	plain, weighted := opt[1] == 1, c06wWants(opt)
	switch {
	case plain && weighted && cfg.MOrder == 0:
		return []obichunk.WithOption{obichunk.OptionStatOn("k", c06wDesc)}
	case plain && weighted && cfg.MOrder == 1:
		return []obichunk.WithOption{obichunk.OptionStatOn(c06wDesc, "k")}
	case plain && weighted:
		return []obichunk.WithOption{obichunk.OptionStatOn(c06wDesc), obichunk.OptionStatOn("k")}
	case plain:
		return []obichunk.WithOption{obichunk.OptionStatOn("k")}
	case weighted:
		return []obichunk.WithOption{obichunk.OptionStatOn(c06wDesc)}
	}
	return nil
}

// c06wRunSeqs drives obichunk.IUniqueSequence on real records and returns the real output records.
func c06wRunSeqs(seqs []*obiseq.BioSequence, opt []int, cfg *c06Cfg, withNs bool) (outSeqs []*obiseq.BioSequence, status string) {
	n := len(seqs)
	bs := cfg.Batch
	if bs <= 0 {
		bs = n + 1
	}
	it := obiiter.MakeIBioSequence()
	it.Add(1)
	go func() { it.WaitAndClose() }()
	go func() {
		o := 0
		for from := 0; from < n; from += bs {
			to := from + bs
			if to > n {
				to = n
			}
			sl := obiseq.MakeBioSequenceSlice()
			sl = append(sl, seqs[from:to]...)
			it.Push(obiiter.MakeBioSequenceBatch("verif", o, sl))
			o++
		}
		it.Done()
	}()
	options := []obichunk.WithOption{obichunk.OptionBatchCount(cfg.Chunks), obichunk.OptionsParallelWorkers(cfg.Workers),
		obichunk.OptionNAValue(cfg.na())}
	if cfg.Mode == "disk" {
		options = append(options, obichunk.OptionSortOnDisk())
	} else {
		options = append(options, obichunk.OptionSortOnMemory())
	}
	if withNs && opt[2] == 1 {
		options = append(options, obichunk.OptionsNoSingleton())
	}
	options = append(options, c06wStatOptions(opt, cfg)...)
	cats := []string{}
	for i := 0; i < opt[0]; i++ {
		cats = append(cats, catName(i))
	}
	options = append(options, obichunk.OptionSubCategory(cats...))

	status = "ok"
	var collected []*obiseq.BioSequence
	done := make(chan struct{})
	go func() {
		defer close(done)
		out, err := obichunk.IUniqueSequence(it, options...)
		if err != nil {
			status = "error:" + err.Error()
			return
		}
		for out.Next() {
			b := out.Get()
			collected = append(collected, b.Slice()...)
		}
	}()
	if !waitTimeout(done, c06Patience) {
		return nil, "hung"
	}
	return collected, status
}

func c06wOrecs(seqs []*obiseq.BioSequence) []orec {
	out := make([]orec, 0, len(seqs))
	for _, s := range seqs {
		a := map[string]any{}
		if s.HasAnnotation() {
			for k, v := range s.Annotations() {
				// a later pass adds to the maps of the records it absorbs into: keep what this pass delivered
				switch m := v.(type) {
				case obiseq.StatsOnValues:
					c := obiseq.StatsOnValues{}
					for x, y := range m {
						c[x] = y
					}
					v = c
				case map[string]int:
					c := map[string]int{}
					for x, y := range m {
						c[x] = y
					}
					v = c
				case map[string]interface{}:
					c := map[string]interface{}{}
					for x, y := range m {
						c[x] = y
					}
					v = c
				}
				a[k] = v
			}
		}
		out = append(out, orec{seq: s.String(), attrs: a})
	}
	return out
}

// runLib drives obichunk.IUniqueSequence with the records in the order cfg.Perm.
func runLib(recs []urec, opt []int, keys []string, cfg *c06Cfg) libResult {
	order := c06wOrder(len(recs), cfg)
	out, status := c06wRunSeqs(c06wBuildSeqs(recs, keys, cfg, order, 0, len(recs)), opt, cfg, true)
	if status != "ok" {
		return libResult{status: status}
	}
	return libResult{out: c06wOrecs(out), status: "ok"}
}

// c06wRunLibPass2: the first cfg.Split records (in arrival order) and the others are dereplicated separately (with
// singletons), the real output records of the two runs are dereplicated together with the options of the case.
// parts = the real output records of the two first passes.
func c06wRunLibPass2(recs []urec, opt []int, keys []string, cfg *c06Cfg) (res libResult, parts []orec) {
	order := c06wOrder(len(recs), cfg)
	cut := cfg.Split
	if cut < 0 || cut > len(recs) {
		cut = len(recs) / 2
	}
	first := *cfg
	first.Chunks = 1 + cfg.Chunks%3 // the first passes need not be configured like the second one
	a, st := c06wRunSeqs(c06wBuildSeqs(recs, keys, cfg, order, 0, cut), opt, &first, false)
	if st != "ok" {
		return libResult{status: st}, nil
	}
	b, st := c06wRunSeqs(c06wBuildSeqs(recs, keys, cfg, order, cut, len(recs)), opt, &first, false)
	if st != "ok" {
		return libResult{status: st}, nil
	}
	both := append(append([]*obiseq.BioSequence{}, a...), b...)
	parts = c06wOrecs(both)
	if cfg.Perm != nil && len(cfg.Perm) > 0 && cfg.Perm[0] != 0 { // the second pass does not always see the first part first
		for i, j := 0, len(both)-1; i < j; i, j = i+1, j-1 {
			both[i], both[j] = both[j], both[i]
		}
	}
	out, st := c06wRunSeqs(both, opt, cfg, true)
	if st != "ok" {
		return libResult{status: st}, parts
	}
	return libResult{out: c06wOrecs(out), status: "ok"}, parts
}

// runDemergeLib applies the real obidemerge worker to merged records
func runDemergeLib(in []orec) (out []orec) {
	w := obidemerge.MakeDemergeWorker("k")
	for i, o := range in {
		s := obiseq.NewBioSequence("m"+strconv.Itoa(i), []byte(o.seq), "")
		for k, v := range o.attrs {
			s.SetAttribute(k, v)
		}
		sl, _ := w(s)
		for _, d := range sl {
			a := map[string]any{}
			for k, v := range d.Annotations() {
				a[k] = v
			}
			out = append(out, orec{seq: d.String(), attrs: a})
		}
	}
	return out
}

// ---------------------------------------------------------------------------------- binary level

func writeFasta(path string, recs []urec, keys []string, cfg *c06Cfg) error {
	return c06wWriteFastaPart(path, recs, keys, cfg, 0, len(recs))
}

// c06wWriteFastaPart writes the records of arrival positions from..to-1
func c06wWriteFastaPart(path string, recs []urec, keys []string, cfg *c06Cfg, from, to int) error {
	order := c06wOrder(len(recs), cfg)
	var buf bytes.Buffer
	for pos := from; pos < to; pos++ {
		i := order[pos]
		r := recs[i]
		h, err := json.Marshal(recAttributes(i, r, keys, cfg, true))
		if err != nil {
			return err
		}
		fmt.Fprintf(&buf, ">r%d %s\n%s\n", pos, h, seqString(r.Seq, cfg.Variant, cfg.Big))
	}
	return os.WriteFile(path, buf.Bytes(), 0644)
}

// parseFasta reads obitools FASTA output: ">id {json}" then sequence lines
func parseFasta(data []byte) ([]orec, error) {
	var out []orec
	var cur *orec
	var sb strings.Builder
	flush := func() {
		if cur != nil {
			cur.seq = sb.String()
			out = append(out, *cur)
		}
		sb.Reset()
	}
	for _, line := range strings.Split(string(data), "\n") {
		if strings.HasPrefix(line, ">") {
			flush()
			cur = &orec{attrs: map[string]any{}}
			if i := strings.Index(line, "{"); i >= 0 {
				j := strings.LastIndex(line, "}")
				if j < i {
					return nil, fmt.Errorf("bad header %q", line)
				}
				if err := json.Unmarshal([]byte(line[i:j+1]), &cur.attrs); err != nil {
					return nil, fmt.Errorf("bad header %q: %v", line, err)
				}
			}
		} else if cur != nil {
			sb.WriteString(strings.TrimSpace(line))
		} else if strings.TrimSpace(line) != "" {
			return nil, fmt.Errorf("text before the first header: %q", line)
		}
	}
	flush()
	return out, nil
}

type binResult struct {
	out    []orec
	rc     int
	hung   bool
	stderr string
	perr   string
}

func runBin(bin string, args []string, dir string) binResult {
	cmd := exec.Command(bin, args...)
	cmd.Dir = dir
	cmd.Env = append(os.Environ(), "TMPDIR="+dir)
	var so, se bytes.Buffer
	cmd.Stdout = &so
	cmd.Stderr = &se
	if err := cmd.Start(); err != nil {
		return binResult{rc: -2, stderr: err.Error()}
	}
	done := make(chan error, 1)
	go func() { done <- cmd.Wait() }()
	r := binResult{}
	select {
	case err := <-done:
		if err != nil {
			r.rc = -1
			if ee, ok := err.(*exec.ExitError); ok {
				r.rc = ee.ExitCode()
			}
		}
	case <-time.After(150 * time.Second):
		cmd.Process.Kill()
		r.hung = true
		r.rc = -3
	}
	tail := se.String()
	// keep the interesting part of stderr: panics and fatal messages
	if i := strings.Index(tail, "panic:"); i >= 0 {
		tail = tail[i:]
	}
	if len(tail) > 600 {
		tail = tail[:600]
	}
	r.stderr = tail
	o, err := parseFasta(so.Bytes())
	if err != nil {
		r.perr = err.Error()
	}
	r.out = o
	return r
}

func uniqArgs(opt []int, cfg *c06Cfg, withNs bool, file string) []string {
	a := []string{"--max-cpu", strconv.Itoa(cfg.Workers), "--chunk-count", strconv.Itoa(cfg.Chunks), "--no-progressbar"}
	if cfg.Batch > 0 {
		a = append(a, "--batch-size", strconv.Itoa(cfg.Batch))
	}
	if cfg.Mode == "mem" {
		a = append(a, "--in-memory")
	}
	if cfg.NAValue != "" {
		a = append(a, "--na-value", cfg.NAValue)
	}
	switch plain, weighted := opt[1] == 1, c06wWants(opt); {
	case plain && weighted && cfg.MOrder != 1:
		a = append(a, "-m", "k", "-m", c06wDesc)
	case plain && weighted:
		a = append(a, "-m", c06wDesc, "-m", "k")
	case plain:
		a = append(a, "-m", "k")
	case weighted:
		a = append(a, "-m", c06wDesc)
	}
	for i := 0; i < opt[0]; i++ {
		a = append(a, "-c", catName(i))
	}
	if withNs && opt[2] == 1 {
		a = append(a, "--no-singleton")
	}
	return append(a, file)
}

// ------------------------------------------------------------------------------- configurations

var c06Workers = []int{1, 2, 4}
var c06Chunks = []int{1, 2, 3}

func permOf(rng *rand.Rand, n int, k int) []int {
	p := make([]int, n)
	for i := range p {
		p[i] = i
	}
	switch k {
	case 0: // identity
	case 1: // reversed
		for i, j := 0, n-1; i < j; i, j = i+1, j-1 {
			p[i], p[j] = p[j], p[i]
		}
	default:
		rng.Shuffle(n, func(i, j int) { p[i], p[j] = p[j], p[i] })
	}
	return p
}

// configurations of one case: `runs` library configurations (alternating memory / disk, walking
// through workers x chunk counts x permutations) or one binary / law configuration.
var c06AllPerms = false // --opt allperms=1: one configuration per permutation of the input (n <= 4: at most 24)

func allPerms(n int) [][]int {
	var out [][]int
	p := make([]int, n)
	for i := range p {
		p[i] = i
	}
	var rec func(k int)
	rec = func(k int) {
		if k == n {
			out = append(out, append([]int(nil), p...))
			return
		}
		for i := k; i < n; i++ {
			p[k], p[i] = p[i], p[k]
			rec(k + 1)
			p[k], p[i] = p[i], p[k]
		}
	}
	rec(0)
	return out
}

var c06OnlyMode = "" // --opt mode=mem|disk restricts the configurations (profiling)
var c06DiskEvery = 2 // library level: one configuration out of c06DiskEvery uses the on-disk mode (about 15 x dearer)

func configsFor(c *c06Case, level string, runs int, seed int64) []*c06Cfg {
	if c.Cfg != nil {
		return []*c06Cfg{c.Cfg}
	}
	rng := rand.New(rand.NewSource(seed*1000003 + int64(c.Idx)*7 + 1))
	n := len(c.In)
	out := []*c06Cfg{}
	base := rng.Intn(1 << 20)
	var perms [][]int
	if c06AllPerms && n <= 5 {
		perms = allPerms(n)
		runs = len(perms)
	}
	for k := 0; k < runs; k++ {
		x := base + k
		perm := permOf(rng, n, (x/2)%4)
		if perms != nil {
			perm = perms[k]
		}
		cfg := &c06Cfg{Level: level, Perm: perm, Workers: c06Workers[(x/2)%3], Chunks: c06Chunks[(x/6)%3],
			MapType: x % 3, Explicit1: (x/3)%2 == 0, Variant: (x / 4) % 6, MOrder: (x / 3) % 3, WType: (x / 2) % 3}
		if n > 0 {
			cfg.Split = (x / 7) % (n + 1)
		}
		if x%2 == 0 {
			cfg.Mode = "mem"
		} else {
			cfg.Mode = "disk"
		}
		if level == "lib" || level == "pass2" {
			cfg.Mode = "mem"
			if x%c06DiskEvery == c06DiskEvery-1 {
				cfg.Mode = "disk"
			}
		}
		if c06OnlyMode != "" {
			cfg.Mode = c06OnlyMode
		}
		cfg.Batch = []int{0, 1, 2}[(x/2)%3]
		if (x/5)%4 == 3 && level != "demerge" {
			cfg.NAValue = "none"
		}
		// the command line alone wires --na-value to the statistics: with -m and without -c the value given by the
		// user is what a missing attribute is counted under, in every other binary run of such a case
		if level == "bin" && len(c.Opt) > 1 && c.Opt[0] == 0 && c.Opt[1] == 1 && k%2 == 0 {
			cfg.NAValue = "none"
		}
		if level != "lib" && level != "pass2" {
			cfg.Batch = []int{0, 1, 2, 10}[(x/2)%4]
			if cfg.Mode == "disk" && x%8 == 1 && n > 0 {
				cfg.Big = 600 // long sequences: the chunk files take time to be written
				cfg.Chunks = 1 + x%2
			}
		}
		out = append(out, cfg)
	}
	return out
}

func classOf(c *c06Case, cfg *c06Cfg) string {
	cls := fmt.Sprintf("%s/%s/cat%d/m%d/ns%d", cfg.Level, cfg.Mode, c.Opt[0], c.Opt[1], c.Opt[2])
	if c06wWants(c.Opt) {
		cls += "/w1"
		if c.Opt[1] == 1 {
			cls += fmt.Sprintf("/order%d", cfg.MOrder)
		}
	}
	return cls
}

func diffLists(got, want []string) string {
	return fmt.Sprintf("got %v, specification requires %v", got, want)
}

// runOne runs one configuration of one case and compares.  Returns the number of comparisons made.
func runOne(env *Env, c *c06Case, cfg *c06Cfg, bindir, scratch string) int {
	recs := decodeRecs(c.In)
	dec := newDecoder(recs, c.Keys, cfg)
	want := sortedCanon(c.Out, canonOutTuple)
	cls := classOf(c, cfg)
	merge := c.Opt[1] == 1
	wmerge := c06wWants(c.Opt)
	cc := *c
	cc.Cfg = cfg
	decodeAllW := func(os []orec, ncat int, m bool, wm bool) ([]string, string) {
		got := make([]string, 0, len(os))
		bad := ""
		for _, o := range os {
			t, b := dec.abstract(o, ncat, m, wm)
			if b != "" {
				bad = b
			}
			got = append(got, canonOutTuple(t))
		}
		sort.Strings(got)
		return got, bad
	}
	decodeAll := func(os []orec, ncat int, m bool) ([]string, string) { return decodeAllW(os, ncat, m, wmerge) }
	equal := func(a, b []string) bool {
		if len(a) != len(b) {
			return false
		}
		for i := range a {
			if a[i] != b[i] {
				return false
			}
		}
		return true
	}
	// classify a mismatch by what the property names
	kind := func(got, want []string) string {
		total := func(l []string) (t int, keys map[string]int) {
			keys = map[string]int{}
			for _, s := range l {
				f := strings.Split(s, "|")
				n, _ := strconv.Atoi(f[2])
				t += n
				keys[f[0]+"|"+f[1]]++
			}
			return
		}
		tg, kg := total(got)
		tw, kw := total(want)
		for _, n := range kg {
			if n > 1 {
				return "class_split"
			}
		}
		if len(kg) != len(kw) {
			if tg < tw {
				return "records_lost"
			}
			return "classes"
		}
		for k := range kg {
			if _, ok := kw[k]; !ok {
				return "classes"
			}
		}
		if tg != tw {
			return "count"
		}
		// the requested maps: merged_k first, then merged_k:w
		plain := func(l []string) []string {
			out := make([]string, len(l))
			for i, s := range l {
				out[i] = s[:strings.LastIndex(s, "|")]
			}
			sort.Strings(out)
			return out
		}
		if !equal(plain(got), plain(want)) {
			return "merged"
		}
		return "wmerged"
	}
	switch cfg.Level {
	case "lib", "pass2":
		if h := c06Hung[cfg.Mode]; h != nil && atomic.LoadInt64(h) >= 3 {
			env.mu.Lock()
			env.classes["lib/skipped-after-hangs"]++
			env.mu.Unlock()
			return 0
		}
		var r libResult
		if cfg.Level == "pass2" {
			r, _ = c06wRunLibPass2(recs, c.Opt, c.Keys, cfg)
		} else {
			r = runLib(recs, c.Opt, c.Keys, cfg)
		}
		if r.status == "hung" {
			if h := c06Hung[cfg.Mode]; h != nil {
				atomic.AddInt64(h, 1)
			}
		}
		if r.status != "ok" {
			env.fail("C06."+cfg.Level+"."+strings.SplitN(r.status, ":", 2)[0], cls, fmt.Sprintf("IUniqueSequence %s (fatal messages: %v)", r.status, fatalMessages()), cc)
			return 1
		}
		got, bad := decodeAll(r.out, c.Opt[0], merge)
		what := ""
		if cfg.Level == "pass2" {
			what = fmt.Sprintf("two passes (the first %d records, the others), then one pass on their output records: ", cfg.Split)
		}
		if bad != "" {
			env.fail("C06."+cfg.Level+".output_shape", cls, what+bad+": "+diffLists(got, want), cc)
		} else if !equal(got, want) {
			env.fail("C06."+cfg.Level+"."+kind(got, want), cls, what+diffLists(got, want), cc)
		} else {
			env.ok(cls)
			return 1
		}
		return 1
	case "demerge":
		// the real demerge worker on the merged records the specification expects
		in := []orec{}
		for _, t := range c.Out {
			a := map[string]any{"count": anyInt(t[2])}
			for j, v := range anyStrings(t[1]) {
				a[catName(j)] = v
			}
			m := map[string]int{}
			for j, w := range anyInts(t[3]) {
				if w > 0 {
					m[c.Keys[j]] = w
				}
			}
			a["merged_k"] = m
			in = append(in, orec{seq: seqString(fmt.Sprint(t[0]), cfg.Variant, 0), attrs: a})
		}
		outs := runDemergeLib(in)
		got := []string{}
		bad := ""
		for _, o := range outs {
			t, b := dec.abstractDem(o, c.Opt[0])
			if b != "" {
				bad = b
			}
			got = append(got, canonDemTuple(t))
		}
		sort.Strings(got)
		wantD := sortedCanon(c.Dem, canonDemTuple)
		if bad != "" || !equal(got, wantD) {
			env.fail("C06.demerge.records", cls, bad+" "+diffLists(got, wantD), cc)
		} else {
			env.ok(cls)
		}
		return 1
	case "pass2bin":
		// obiuniq <opts> part1 > u1 ; obiuniq <opts> part2 > u2 ; cat u1 u2 | obiuniq <opts> [--no-singleton]
		if h := c06Hung["bin/"+cfg.Mode]; h != nil && atomic.LoadInt64(h) >= 2 {
			env.mu.Lock()
			env.classes["bin/skipped-after-hangs"]++
			env.mu.Unlock()
			return 0
		}
		dir, err := os.MkdirTemp(scratch, "c06p2")
		if err != nil {
			fmt.Fprintln(os.Stderr, err)
			os.Exit(2)
		}
		defer os.RemoveAll(dir)
		cut := cfg.Split
		if cut < 0 || cut > len(recs) {
			cut = len(recs) / 2
		}
		uniq := filepath.Join(bindir, "obiuniq")
		var all bytes.Buffer
		for part, lim := range [][2]int{{0, cut}, {cut, len(recs)}} {
			in := filepath.Join(dir, fmt.Sprintf("in%d.fasta", part))
			if err := c06wWriteFastaPart(in, recs, c.Keys, cfg, lim[0], lim[1]); err != nil {
				fmt.Fprintln(os.Stderr, err)
				os.Exit(2)
			}
			u := filepath.Join(dir, fmt.Sprintf("u%d.fasta", part))
			args := uniqArgs(c.Opt, cfg, false, in)
			args = append(args[:len(args)-1:len(args)-1], "-o", u, in)
			r := runBin(uniq, args, dir)
			if r.hung || r.rc != 0 {
				if r.hung {
					atomic.AddInt64(c06Hung["bin/"+cfg.Mode], 1)
				}
				env.fail("C06.pass2bin.exit_status", cls, fmt.Sprintf("first pass on part %d: obiuniq %s -> rc=%d hung=%v %s", part, strings.Join(args[:len(args)-1], " "), r.rc, r.hung, r.stderr), cc)
				return 1
			}
			data, _ := os.ReadFile(u)
			all.Write(data)
		}
		u12 := filepath.Join(dir, "u12.fasta")
		os.WriteFile(u12, all.Bytes(), 0644)
		args := uniqArgs(c.Opt, cfg, true, u12)
		r := runBin(uniq, args, dir)
		cmdline := fmt.Sprintf("obiuniq on the first %d records, on the others, then obiuniq %s on the two outputs", cut, strings.Join(args[:len(args)-1], " "))
		got, bad := decodeAll(r.out, c.Opt[0], merge)
		switch {
		case r.hung:
			atomic.AddInt64(c06Hung["bin/"+cfg.Mode], 1)
			env.fail("C06.pass2bin.hung", cls, cmdline+" did not terminate", cc)
		case r.rc != 0:
			env.fail("C06.pass2bin.exit_status", cls, fmt.Sprintf("%s -> rc=%d %s", cmdline, r.rc, r.stderr), cc)
		case r.perr != "" || bad != "":
			env.fail("C06.pass2bin.output_shape", cls, cmdline+": "+r.perr+" "+bad+": "+diffLists(got, want), cc)
		case !equal(got, want):
			env.fail("C06.pass2bin."+kind(got, want), cls, cmdline+": "+diffLists(got, want), cc)
		default:
			env.ok(cls)
		}
		return 1
	case "bin", "law":
		if h := c06Hung["bin/"+cfg.Mode]; h != nil && atomic.LoadInt64(h) >= 2 {
			env.mu.Lock()
			env.classes["bin/skipped-after-hangs"]++
			env.mu.Unlock()
			return 0
		}
		dir, err := os.MkdirTemp(scratch, "c06bin")
		if err != nil {
			fmt.Fprintln(os.Stderr, err)
			os.Exit(2)
		}
		defer os.RemoveAll(dir)
		in := filepath.Join(dir, "in.fasta")
		if err := writeFasta(in, recs, c.Keys, cfg); err != nil {
			fmt.Fprintln(os.Stderr, err)
			os.Exit(2)
		}
		if cfg.Big > 0 {
			cls += "/bigseq"
		}
		uniq := filepath.Join(bindir, "obiuniq")
		args := uniqArgs(c.Opt, cfg, true, in)
		u1 := filepath.Join(dir, "u1.fasta")
		toFile := cfg.Level == "law" // the law feeds the real bytes of the first stage to obidemerge
		if toFile {
			args = append(args[:len(args)-1:len(args)-1], "-o", u1, in)
		}
		r := runBin(uniq, args, dir)
		cmdline := "obiuniq " + strings.Join(args[:len(args)-1], " ")
		if r.hung {
			if h := c06Hung["bin/"+cfg.Mode]; h != nil {
				atomic.AddInt64(h, 1)
			}
			env.fail("C06.bin.hung", cls, cmdline+" did not terminate", cc)
			return 1
		}
		if toFile {
			data, _ := os.ReadFile(u1)
			o, err := parseFasta(data)
			r.out, r.perr = o, ""
			if err != nil {
				r.perr = err.Error()
			}
		}
		got, bad := decodeAll(r.out, c.Opt[0], merge)
		if r.rc != 0 {
			env.fail("C06.bin.exit_status", cls, fmt.Sprintf("%s -> rc=%d %s; output %v, specification requires %v", cmdline, r.rc, r.stderr, got, want), cc)
			return 1
		}
		if r.perr != "" || bad != "" {
			env.fail("C06.bin.output_shape", cls, cmdline+": "+r.perr+" "+bad+": "+diffLists(got, want), cc)
			return 1
		}
		if !equal(got, want) {
			env.fail("C06.bin."+kind(got, want), cls, cmdline+": "+diffLists(got, want), cc)
			return 1
		}
		env.ok(cls)
		if cfg.Level == "bin" || !merge {
			return 1
		}
		// obiuniq -m k | obidemerge -d k | obiuniq -m k
		d := runBin(filepath.Join(bindir, "obidemerge"), []string{"-d", "k", "--no-progressbar", "--max-cpu", strconv.Itoa(cfg.Workers), u1}, dir)
		gotD := []string{}
		badD := d.perr
		for _, o := range d.out {
			t, b := dec.abstractDem(o, c.Opt[0])
			if b != "" {
				badD = b
			}
			gotD = append(gotD, canonDemTuple(t))
		}
		sort.Strings(gotD)
		wantD := sortedCanon(c.Dem, canonDemTuple)
		if d.rc != 0 || d.hung || badD != "" || !equal(gotD, wantD) {
			env.fail("C06.law.demerge_records", cls, fmt.Sprintf("obidemerge -d k rc=%d %s %s: %s", d.rc, d.stderr, badD, diffLists(gotD, wantD)), cc)
			return 2
		}
		env.ok("law/demerge")
		df := filepath.Join(dir, "d.fasta")
		var b2 bytes.Buffer
		for i, o := range d.out {
			h, _ := json.Marshal(o.attrs)
			fmt.Fprintf(&b2, ">d%d %s\n%s\n", i, h, o.seq)
		}
		os.WriteFile(df, b2.Bytes(), 0644)
		// the last stage asks for -m k only (every demerged record is a copy that carries the whole merged_k:w map, if
		// any); merged_k and the counts of the first stage must come back
		args3 := uniqArgs([]int{c.Opt[0], 1, 0, 0}, cfg, false, df)
		r3 := runBin(uniq, args3, dir)
		got3, bad3 := decodeAllW(r3.out, c.Opt[0], true, false)
		if wmerge {
			want = sortedCanon(c.Out, c06wCanonPlain)
		}
		if r3.rc != 0 || r3.hung || bad3 != "" || r3.perr != "" || !equal(got3, want) {
			env.fail("C06.law.uniq_demerge_uniq", cls, fmt.Sprintf("obiuniq -m k | obidemerge -d k | obiuniq -m k: rc=%d %s %s: %s", r3.rc, r3.stderr, bad3, diffLists(got3, want)), cc)
			return 3
		}
		env.ok("law/uniq-demerge-uniq")
		return 3
	}
	fmt.Fprintln(os.Stderr, "unknown level", cfg.Level)
	os.Exit(2)
	return 0
}

// replayC06: parent (splits the cases over child processes) or child (runs them).
func replayC06(env *Env) {
	if env.opt("child", "") == "" && env.opt("inprocess", "") == "" {
		replayC06Parent(env)
		return
	}
	replayC06Child(env)
}

func replayC06Child(env *Env) {
	if d := env.optInt("distbatch", 0); d > 0 {
		obioptions.SetBatchSize(d)
	}
	level := env.opt("level", "lib")
	c06OnlyMode = env.opt("mode", "")
	c06DiskEvery = env.optInt("diskevery", 2)
	c06AllPerms = env.opt("allperms", "") != ""
	runs := env.optInt("runs", 4)
	par := env.optInt("par", 4)
	repeat := env.optInt("repeat", 1)
	bindir := env.opt("bindir", "")
	scratch := os.Getenv("VERIF_SCRATCH")
	if scratch == "" {
		scratch = os.TempDir()
	}
	os.Setenv("TMPDIR", scratch) // chunk directories of the on-disk mode
	cases := loadCases[c06Case](env.cases)
	var prog *os.File
	if p := env.opt("progress", ""); p != "" {
		f, err := os.Create(p)
		if err != nil {
			fmt.Fprintln(os.Stderr, err)
			os.Exit(2)
		}
		prog = f
		defer prog.Close()
	}
	mark := func(s string) {
		if prog != nil {
			env.mu.Lock()
			prog.WriteString(s)
			env.mu.Unlock()
		}
	}
	var sampled int64
	parallel(len(cases), par, func(i int) {
		c := &cases[i]
		mark(fmt.Sprintf("B %d\n", i))
		f0 := atomic.LoadInt64(&env.failed)
		n := 0
		lv := level
		if c.Cfg != nil {
			lv = c.Cfg.Level
		}
		for _, cfg := range configsFor(c, lv, runs, env.seed) {
			for k := 0; k < repeat; k++ {
				n += runOne(env, c, cfg, bindir, scratch)
			}
		}
		if lv == "lib" && c.Opt[1] == 1 && c.Cfg == nil {
			n += runOne(env, c, &c06Cfg{Level: "demerge", Variant: c.Idx % 6, Mode: "-"}, bindir, scratch)
		}
		if atomic.LoadInt64(&env.failed) > f0 {
			env.mu.Lock()
			env.w.Flush()
			env.mu.Unlock()
		} else if len(c.In) >= 2 && atomic.AddInt64(&sampled, 1) <= 2 {
			env.sample(map[string]any{"in": c.In, "opt": c.Opt, "expected_out": c.Out, "level": lv})
		}
		mark(fmt.Sprintf("E %d %d\n", i, n))
	})
}

// ------------------------------------------------------------------------------------ record (T)

var c06TraceKeys = []string{"7", "NA", "v0", "v1", "v2", "v3", "v4", "v5"} // byte order

type c06Event struct {
	Op      string   `json:"op"`
	Level   string   `json:"level"`
	Mode    string   `json:"mode"`
	Workers int      `json:"workers"`
	Chunks  int      `json:"chunks"`
	Batch   int      `json:"batch"`
	Ncat    int      `json:"ncat"`
	Merge   int      `json:"merge"`
	Ns      int      `json:"ns"`
	Wmerge  int      `json:"wmerge"` // -m k:w requested
	Morder  int      `json:"morder"`
	Hung    int      `json:"hung"`
	Rc      int      `json:"rc"`
	Bad     int      `json:"bad"`
	BadWhy  string   `json:"badwhy"`
	Keys    []string `json:"keys"`
	Recs    [][]any  `json:"recs"`
	Out     [][]any  `json:"out"`
	Ref     [][]any  `json:"ref"`
	Seed    int64    `json:"seed"`
	Dist    int      `json:"distbatch"` // batch size of iterator.Distribute (process-wide option) during the run
}

func randomDataset(rng *rand.Rand, n int) []urec {
	nseq := 3 + rng.Intn(60)
	catvals := []string{"p", "q q", c06NA, c06Missing, "\u00e9t\u00e9", "3", c06Missing}
	ncv := 2 + rng.Intn(len(catvals)-1)
	bigCounts := rng.Intn(2) == 0
	recs := make([]urec, 0, n)
	for i := 0; i < n; i++ {
		// skewed abundance: a few sequences are very frequent, many are rare
		s := int(float64(nseq) * rng.Float64() * rng.Float64())
		r := urec{Seq: "s" + strconv.Itoa(s), Cat: make([]string, 3), Count: 1, Mt: "none", Mm: make([]int, len(c06TraceKeys)),
			W: c06wNoW, Wt: "none", Wm: make([]int, len(c06TraceKeys))}
		for j := range r.Cat {
			r.Cat[j] = catvals[rng.Intn(ncv)]
		}
		if bigCounts && rng.Intn(3) == 0 {
			r.Count = 1 + rng.Intn(30)
		}
		switch x := rng.Intn(10); {
		case x < 6:
			r.Mt = "val"
			r.Mv = c06TraceKeys[rng.Intn(len(c06TraceKeys))] // "NA" itself included
		case x < 9:
			r.Mt = "map"
			r.Count = 0
			for k := 0; k < 1+rng.Intn(3); k++ {
				w := 1 + rng.Intn(9)
				r.Mm[rng.Intn(len(r.Mm))] += w
				r.Count += w
			}
			if rng.Intn(4) == 0 { // a class of one record of an earlier pass: it still has its k
				r.Mt = "both"
				r.Mv = c06TraceKeys[rng.Intn(len(c06TraceKeys))]
			}
		}
		// the weight attribute: absent, 0, small, large
		switch x := rng.Intn(8); {
		case x == 0:
		case x == 1:
			r.W = 0
		case x < 6:
			r.W = 1 + rng.Intn(9)
		default:
			r.W = 10 + rng.Intn(5000)
		}
		// already has a merged_k:w map (with or without a merged_k map, a k, a w)
		if rng.Intn(4) == 0 {
			r.Wt = "map"
			for k := 0; k < 1+rng.Intn(3); k++ {
				r.Wm[rng.Intn(len(r.Wm))] += 1 + rng.Intn(40)
			}
		}
		recs = append(recs, r)
	}
	return recs
}

func encodeRecs(recs []urec) [][]any {
	out := make([][]any, 0, len(recs))
	for _, r := range recs {
		out = append(out, []any{r.Seq, r.Cat, r.Count, r.Mt, r.Mv, r.Mm, r.W, r.Wt, r.Wm})
	}
	return out
}

func recordC06(env *Env) {
	if d := env.optInt("distbatch", 0); d > 0 {
		obioptions.SetBatchSize(d)
	}
	bindir := env.opt("bindir", "")
	scratch := os.Getenv("VERIF_SCRATCH")
	if scratch == "" {
		scratch = os.TempDir()
	}
	os.Setenv("TMPDIR", scratch)
	size := env.optInt("size", 1000)
	nbin := env.optInt("nbin", env.n/3)
	type job struct {
		seed  int64
		bin   bool
		pass2 bool
	}
	jobs := []job{}
	for i := 0; i < env.n; i++ {
		jobs = append(jobs, job{env.seed*7919 + int64(i), i < nbin && bindir != "", i%4 == 3})
	}
	if js := env.opt("jobseed", ""); js != "" { // --replay of one recorded event: the same data set and configuration again
		v, _ := strconv.ParseInt(js, 10, 64)
		jobs = []job{{v, env.opt("jobbin", "") == "1" && bindir != "", env.opt("jobpass2", "") == "1"}}
	}
	parallel(len(jobs), env.optInt("par", 8), func(i int) {
		rng := rand.New(rand.NewSource(jobs[i].seed))
		n := size/2 + rng.Intn(size)
		recs := randomDataset(rng, n)
		opt := []int{rng.Intn(4), 1, 0, 0}
		if rng.Intn(5) == 0 {
			opt[1] = 0
		}
		if rng.Intn(3) == 0 {
			opt[2] = 1
		}
		cfg := &c06Cfg{Level: "lib", Perm: nil, Mode: []string{"mem", "disk"}[rng.Intn(2)], Workers: []int{1, 2, 4, 8}[rng.Intn(4)],
			Chunks: []int{1, 2, 3, 7, 100}[rng.Intn(5)], Batch: []int{1, 3, 10, 100, 0}[rng.Intn(5)], MapType: rng.Intn(3),
			Explicit1: rng.Intn(2) == 0, Variant: rng.Intn(50), NAValue: []string{"", "", "none"}[rng.Intn(3)]}
		// the weighted descriptor: requested in 3 runs out of 5 (always in the two-pass runs), alone or with the plain one
		if rng.Intn(5) < 3 || jobs[i].pass2 {
			opt[3] = 1
		}
		cfg.MOrder, cfg.WType = rng.Intn(3), rng.Intn(3)
		cfg.Split = rng.Intn(n + 1)
		dec := newDecoder(recs, c06TraceKeys, cfg)
		ev := c06Event{Op: "uniq", Level: "lib", Mode: cfg.Mode, Workers: cfg.Workers, Chunks: cfg.Chunks, Batch: cfg.Batch, Ncat: opt[0],
			Merge: opt[1], Ns: opt[2], Wmerge: opt[3], Morder: cfg.MOrder, Keys: c06TraceKeys, Recs: encodeRecs(recs), Out: [][]any{}, Ref: [][]any{},
			Seed: jobs[i].seed, Dist: obioptions.CLIBatchSize()}
		fillW := func(e *c06Event, os []orec, ncat int, merge bool, wmerge bool) {
			for _, o := range os {
				t, b := dec.abstract(o, ncat, merge, wmerge)
				if b != "" {
					e.Bad++
					e.BadWhy = b
				}
				e.Out = append(e.Out, t)
			}
		}
		fill := func(e *c06Event, os []orec, ncat int, merge bool) { fillW(e, os, ncat, merge, opt[3] == 1) }
		// the output records of the first passes, read back as input records of the second one
		asInputs := func(e *c06Event, parts []orec) {
			e.Recs = [][]any{}
			for _, o := range parts {
				t, b := dec.c06wAsInput(o, opt[0], 3)
				if b != "" {
					e.Bad++
					e.BadWhy = "first pass: " + b
				}
				e.Recs = append(e.Recs, t)
			}
		}
		if jobs[i].pass2 && !jobs[i].bin {
			ev.Op = "pass2"
			r, parts := c06wRunLibPass2(recs, opt, c06TraceKeys, cfg)
			if r.status != "ok" {
				ev.Hung = 1
				ev.BadWhy = r.status
			}
			asInputs(&ev, parts)
			fill(&ev, r.out, opt[0], opt[1] == 1)
			env.emit(ev)
			return
		}
		if !jobs[i].bin {
			r := runLib(recs, opt, c06TraceKeys, cfg)
			if r.status != "ok" {
				ev.Hung = 1
				ev.BadWhy = r.status
			}
			fill(&ev, r.out, opt[0], opt[1] == 1)
			env.emit(ev)
			return
		}
		// binaries: obiuniq, then (merge requested) obidemerge and obiuniq again
		ev.Level = "bin"
		dir, err := os.MkdirTemp(scratch, "c06rec")
		if err != nil {
			fmt.Fprintln(os.Stderr, err)
			os.Exit(2)
		}
		defer os.RemoveAll(dir)
		if jobs[i].pass2 {
			ev.Op = "pass2"
			var all bytes.Buffer
			for part, lim := range [][2]int{{0, cfg.Split}, {cfg.Split, n}} {
				pin := filepath.Join(dir, fmt.Sprintf("in%d.fasta", part))
				c06wWriteFastaPart(pin, recs, c06TraceKeys, cfg, lim[0], lim[1])
				u := filepath.Join(dir, fmt.Sprintf("u%d.fasta", part))
				a1 := uniqArgs(opt, cfg, false, pin)
				a1 = append(a1[:len(a1)-1:len(a1)-1], "-o", u, pin)
				r1 := runBin(filepath.Join(bindir, "obiuniq"), a1, dir)
				if r1.hung || r1.rc != 0 {
					ev.Rc, ev.BadWhy = r1.rc, "first pass: "+r1.stderr
					if r1.hung {
						ev.Hung = 1
					}
					ev.Recs = [][]any{}
					env.emit(ev)
					return
				}
				data, _ := os.ReadFile(u)
				all.Write(data)
			}
			parts, perr := parseFasta(all.Bytes())
			asInputs(&ev, parts)
			if perr != nil {
				ev.Bad++
				ev.BadWhy = "first pass: " + perr.Error()
			}
			u12 := filepath.Join(dir, "u12.fasta")
			os.WriteFile(u12, all.Bytes(), 0644)
			r2 := runBin(filepath.Join(bindir, "obiuniq"), uniqArgs(opt, cfg, true, u12), dir)
			ev.Rc = r2.rc
			if r2.hung {
				ev.Hung = 1
			}
			if r2.perr != "" {
				ev.Bad++
				ev.BadWhy = r2.perr
			}
			if r2.rc != 0 {
				ev.BadWhy = r2.stderr
			}
			fill(&ev, r2.out, opt[0], opt[1] == 1)
			env.emit(ev)
			return
		}
		in := filepath.Join(dir, "in.fasta")
		writeFasta(in, recs, c06TraceKeys, cfg)
		u1 := filepath.Join(dir, "u1.fasta")
		args := uniqArgs(opt, cfg, true, in)
		args = append(args[:len(args)-1:len(args)-1], "-o", u1, in)
		r := runBin(filepath.Join(bindir, "obiuniq"), args, dir)
		data, _ := os.ReadFile(u1)
		o1, perr := parseFasta(data)
		ev.Rc = r.rc
		if r.hung {
			ev.Hung = 1
		}
		if perr != nil {
			ev.Bad++
			ev.BadWhy = perr.Error()
		}
		if r.rc != 0 {
			ev.BadWhy = r.stderr
		}
		fill(&ev, o1, opt[0], opt[1] == 1)
		env.emit(ev)
		if opt[1] != 1 || r.rc != 0 || ev.Bad > 0 {
			return
		}
		d := runBin(filepath.Join(bindir, "obidemerge"), []string{"-d", "k", "--no-progressbar", "--max-cpu", strconv.Itoa(cfg.Workers), u1}, dir)
		ed := c06Event{Op: "demerge", Level: "bin", Mode: "-", Workers: cfg.Workers, Ncat: opt[0], Merge: 1, Keys: c06TraceKeys,
			Recs: ev.Out, Out: [][]any{}, Ref: [][]any{}, Rc: d.rc, Seed: jobs[i].seed, Dist: ev.Dist}
		if d.hung {
			ed.Hung = 1
		}
		if d.perr != "" {
			ed.Bad++
			ed.BadWhy = d.perr
		}
		var b2 bytes.Buffer
		drecs := [][]any{}
		for k, o := range d.out {
			t, b := dec.abstractDem(o, opt[0])
			if b != "" {
				ed.Bad++
				ed.BadWhy = b
			}
			ed.Out = append(ed.Out, t)
			// the demerged record as an input record of the last stage: categories are now explicit
			drecs = append(drecs, []any{t[0], t[1], t[2], "val", t[3], make([]int, len(c06TraceKeys)), c06wNoW, "none", make([]int, len(c06TraceKeys))})
			h, _ := json.Marshal(o.attrs)
			fmt.Fprintf(&b2, ">d%d %s\n%s\n", k, h, o.seq)
		}
		env.emit(ed)
		if d.rc != 0 || ed.Bad > 0 {
			return
		}
		df := filepath.Join(dir, "d.fasta")
		os.WriteFile(df, b2.Bytes(), 0644)
		// the last stage asks for -m k only: every demerged record is a copy that still carries the whole merged_k:w map
		r3 := runBin(filepath.Join(bindir, "obiuniq"), uniqArgs([]int{opt[0], 1, 0, 0}, cfg, false, df), dir)
		el := c06Event{Op: "law", Level: "bin", Mode: cfg.Mode, Workers: cfg.Workers, Chunks: cfg.Chunks, Batch: cfg.Batch, Ncat: opt[0], Merge: 1, Ns: 0,
			Keys: c06TraceKeys, Recs: drecs, Out: [][]any{}, Ref: ev.Out, Rc: r3.rc, Seed: jobs[i].seed, Dist: ev.Dist}
		if r3.hung {
			el.Hung = 1
		}
		if r3.perr != "" {
			el.Bad++
			el.BadWhy = r3.perr
		}
		fillW(&el, r3.out, opt[0], true, false)
		env.emit(el)
	})
}

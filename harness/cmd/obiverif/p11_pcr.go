package main

// C11: in-silico PCR (pkg/obiapat/pcr.go, obipcr, obiiter.IFragments).
//
// replay: every case exported by TLC from spec/L0_kernel/PcrMC.tla (template, primer pair, option
// set, and the multiset of amplicons <segment, direction, forward match, errors, reverse match,
// errors> the specification assigns) is run through
//   - obiapat.PCRSim on the template alone,
//   - obiapat.PCRSlice / PCRSliceWorker on batches of the templates sharing the same primers and
//     options, in several seed-dependent orders and batch sizes (the C sequence buffer and the hit
//     stacks are recycled from one template to the next),
//   - the obipcr binary (--opt obipcr=<path>) on FASTA files holding the same batches,
// and the reported amplicons are compared, as multisets, with the exported ones.
//
// record: seeded random scenarios far beyond the model's bounds (templates of 10^2..10^4 bases with
// planted priming sites carrying 0..e+1 mismatches, primers of 18..25 symbols with IUPAC codes,
// both orientations, sites at the very ends, touching/overlapping/nested sites, circular templates
// with the amplicon across the origin, reverse complemented and rotated copies, batches) and runs
// of the obipcr binary, with --fragmented on templates longer than the fragmentation threshold
// and amplicons planted across the fragment junctions.  Everything is logged for
// spec/trace/PcrTrace.tla.  No expected value is computed here.

import (
	"bytes"
	"context"
	"encoding/json"
	"fmt"
	"math/rand"
	"os"
	"os/exec"
	"path/filepath"
	"sort"
	"strconv"
	"strings"
	"sync"
	"time"

	"git.metabarcoding.org/obitools/obitools4/obitools4/pkg/obiapat"
	"git.metabarcoding.org/obitools/obitools4/obitools4/pkg/obiseq"
)

func init() {
	register("C11", &driver{replay: c11Replay, record: c11Record})
}

// ------------------------------------------------------------------------------- data

type c11Amp struct {
	Seq []int  `json:"seq"`
	Dir string `json:"dir"`
	Fm  []int  `json:"fm"`
	Fe  int    `json:"fe"`
	Rm  []int  `json:"rm"`
	Re  int    `json:"re"`
}

type c11Case struct {
	T        []int    `json:"t"`
	Pp       int      `json:"pp"`
	Cf       int      `json:"cf"`
	F        []string `json:"f"`
	R        []string `json:"r"`
	Ef       int      `json:"ef"`
	Er       int      `json:"er"`
	Mn       int      `json:"mn"`
	Mx       int      `json:"mx"`
	Ext      int      `json:"ext"`
	Full     int      `json:"full"`
	Circ     int      `json:"circ"`
	Asserted int      `json:"asserted"`
	Amp      []c11Amp `json:"amp"`
	Pred     []int    `json:"pred,omitempty"` // replay files only: the template that preceded in the batch
}

// c11Event: what the real code did on one scenario (all fields always present, never null).
type c11Event struct {
	K     string   `json:"k"`
	Src   string   `json:"src"` // sim | slice | cmd | cmdfrag
	Cls   string   `json:"cls"`
	T     []int    `json:"t"`
	F     []string `json:"f"`
	R     []string `json:"r"`
	Ef    int      `json:"ef"`
	Er    int      `json:"er"`
	Mn    int      `json:"mn"`
	Mx    int      `json:"mx"`
	Ext   int      `json:"ext"`
	Full  int      `json:"full"`
	Circ  int      `json:"circ"`
	Frag  int      `json:"frag"`
	Fatal int      `json:"fatal"`
	Msg   string   `json:"msg"`
	Out   []c11Amp `json:"out"`
}

const c11Letters = "acgtn"

func c11Str(codes []int) string {
	b := make([]byte, len(codes))
	for i, c := range codes {
		if c < 0 || c > 4 {
			c = 4
		}
		b[i] = c11Letters[c]
	}
	return string(b)
}

func c11Codes(s string) []int {
	out := make([]int, len(s))
	for i := 0; i < len(s); i++ {
		switch s[i] {
		case 'a', 'A':
			out[i] = 0
		case 'c', 'C':
			out[i] = 1
		case 'g', 'G':
			out[i] = 2
		case 't', 'T':
			out[i] = 3
		default:
			out[i] = 4
		}
	}
	return out
}

func c11Chars(s string) []string {
	out := make([]string, len(s))
	for i := range s {
		out[i] = s[i : i+1]
	}
	return out
}

type c11Params struct {
	F, R                            string
	Ef, Er, Mn, Mx, Ext, Full, Circ int
}

func (c *c11Case) params() c11Params {
	return c11Params{strings.Join(c.F, ""), strings.Join(c.R, ""), c.Ef, c.Er, c.Mn, c.Mx, c.Ext, c.Full, c.Circ}
}

func (p c11Params) options() []obiapat.WithOption {
	opts := []obiapat.WithOption{
		obiapat.OptionForwardPrimer(p.F, p.Ef),
		obiapat.OptionReversePrimer(p.R, p.Er),
		obiapat.OptionOnlyFullExtension(p.Full == 1),
		obiapat.OptionMinLength(p.Mn),
		obiapat.OptionMaxLength(p.Mx),
		obiapat.OptionCircular(p.Circ == 1),
	}
	if p.Ext >= 0 {
		opts = append(opts, obiapat.OptionWithExtension(p.Ext))
	}
	return opts
}

// the command line of obipcr for the same options (one budget for both primers)
func (p c11Params) argv(frag bool) []string {
	a := []string{"--forward", p.F, "--reverse", p.R, "-e", strconv.Itoa(p.Ef), "-l", strconv.Itoa(p.Mn), "-L", strconv.Itoa(p.Mx)}
	if p.Ext >= 0 {
		a = append(a, "-D", strconv.Itoa(p.Ext))
	}
	if p.Full == 1 {
		a = append(a, "--only-complete-flanking")
	}
	if p.Circ == 1 {
		a = append(a, "-c")
	}
	if frag {
		a = append(a, "--fragmented")
	}
	return a
}

// scenario class of a case / event (coarse: violations are grouped by (assertion, class))
func (p c11Params) class() string {
	s := "lin"
	if p.Circ == 1 {
		s = "circ"
	}
	if p.Ext >= 0 {
		s += "/flank"
	} else {
		s += "/bare"
	}
	return s
}

// ------------------------------------------------------------------- calling the real code

// c11Call runs f in its own goroutine: log.Fatalf inside the library ends that goroutine only
// (installFatalCapture), a panic is recovered.  fatal = 1 (Fatalf), 2 (panic), 3 (hung).
func c11Call(f func() obiseq.BioSequenceSlice) (res obiseq.BioSequenceSlice, fatal int, msg string) {
	done := make(chan struct{})
	finished := false
	var out obiseq.BioSequenceSlice
	var pmsg string
	paniced := false
	go func() {
		defer close(done)
		defer func() {
			if r := recover(); r != nil {
				paniced = true
				pmsg = fmt.Sprint(r)
			}
		}()
		out = f()
		finished = true
	}()
	if !waitTimeout(done, 120*time.Second) {
		return nil, 3, "no answer after 120 s"
	}
	if finished {
		return out, 0, ""
	}
	if paniced {
		if len(pmsg) > 200 {
			pmsg = pmsg[:200]
		}
		return nil, 2, pmsg
	}
	m := fatalMessages()
	if len(m) > 0 {
		msg = strings.TrimSpace(m[len(m)-1])
	}
	return nil, 1, msg
}

func c11AnnotInt(v any) (int, bool) {
	switch x := v.(type) {
	case int:
		return x, true
	case int64:
		return int(x), true
	case float64:
		return int(x), float64(int(x)) == x
	case json.Number:
		i, err := x.Int64()
		return int(i), err == nil
	}
	return 0, false
}

// c11Decode turns a reported amplicon into the record compared with the specification.  owner is the
// identifier of the template (everything before the first "_sub[").
func c11Decode(id, seq string, an map[string]any, p c11Params) (a c11Amp, owner string, bad string) {
	owner = id
	if i := strings.Index(id, "_sub["); i >= 0 {
		owner = id[:i]
	}
	a.Seq = c11Codes(seq)
	d, _ := an["direction"].(string)
	a.Dir = d
	fm, ok1 := an["forward_match"].(string)
	rm, ok2 := an["reverse_match"].(string)
	fe, ok3 := c11AnnotInt(an["forward_error"])
	re, ok4 := c11AnnotInt(an["reverse_error"])
	a.Fm, a.Rm, a.Fe, a.Re = c11Codes(fm), c11Codes(rm), fe, re
	fp, _ := an["forward_primer"].(string)
	rp, _ := an["reverse_primer"].(string)
	switch {
	case !(ok1 && ok2 && ok3 && ok4) || (d != "forward" && d != "reverse"):
		bad = fmt.Sprintf("amplicon %s lacks an annotation: %v", id, an)
	case fp != p.F || rp != p.R:
		bad = fmt.Sprintf("amplicon %s carries primers %q/%q, asked %q/%q", id, fp, rp, p.F, p.R)
	case seq != strings.ToLower(seq) || fm != strings.ToLower(fm) || rm != strings.ToLower(rm):
		bad = fmt.Sprintf("amplicon %s is not lower case", id)
	}
	return
}

func c11DecodeSlice(res obiseq.BioSequenceSlice, p c11Params) (byOwner map[string][]c11Amp, bad string) {
	byOwner = map[string][]c11Amp{}
	for _, s := range res {
		a, owner, b := c11Decode(s.Id(), string(s.Sequence()), s.Annotations(), p)
		if b != "" && bad == "" {
			bad = b
		}
		byOwner[owner] = append(byOwner[owner], a)
	}
	return
}

func c11Key(a c11Amp, full bool) string {
	k := a.Dir + "|" + c11Str(a.Seq)
	if full {
		k += fmt.Sprintf("|%s|%d|%s|%d", c11Str(a.Fm), a.Fe, c11Str(a.Rm), a.Re)
	}
	return k
}

// c11Compare: the reported multiset against the multiset the specification exported.
//
//	spurious: a (segment, direction) the specification does not have;  annot: segment right, match
//	strings / error counts wrong;  missing: an amplicon of the specification not reported;  count:
//	reported, but not as many times as the specification has pairs of sites.
func c11Compare(got, want []c11Amp) string {
	wk, wf := map[string]int{}, map[string]int{}
	for _, a := range want {
		wk[c11Key(a, false)]++
		wf[c11Key(a, true)]++
	}
	gf := map[string]int{}
	for _, a := range got {
		gf[c11Key(a, true)]++
	}
	for _, a := range got {
		if wk[c11Key(a, false)] == 0 {
			return "spurious"
		}
	}
	for _, a := range got {
		if wf[c11Key(a, true)] == 0 {
			return "annot"
		}
	}
	for k := range wf {
		if gf[k] == 0 {
			return "missing"
		}
	}
	for k, n := range wf {
		if gf[k] != n {
			return "count"
		}
	}
	return "ok"
}

func c11Show(as []c11Amp) string {
	s := []string{}
	for _, a := range as {
		s = append(s, fmt.Sprintf("%s:%s(f=%s/%d r=%s/%d)", a.Dir[:1], c11Str(a.Seq), c11Str(a.Fm), a.Fe, c11Str(a.Rm), a.Re))
	}
	sort.Strings(s)
	if len(s) > 8 {
		s = append(s[:8], fmt.Sprintf("... %d in all", len(as)))
	}
	return "[" + strings.Join(s, " ") + "]"
}

func c11NewSeq(id string, codes []int) *obiseq.BioSequence {
	s := obiseq.NewBioSequence(id, []byte(c11Str(codes)), "")
	if len(codes)%3 == 0 {
		// a template that is itself the product of an earlier PCR (nested PCR, re-amplification of an amplicon
		// file): it carries the annotations of that PCR; what is reported for the new amplicon is computed anew
		for k, v := range map[string]any{"forward_primer": "gggggggg", "reverse_primer": "cccccccc", "forward_match": "gggggggg",
			"reverse_match": "cccccccc", "forward_error": 7, "reverse_error": 9, "direction": "sideways", "taxid": 9606} {
			s.SetAttribute(k, v)
		}
	}
	return s
}

// ------------------------------------------------------------------------ obipcr binary

type c11Fasta struct {
	id  string
	an  map[string]any
	seq string
}

func c11ParseFasta(b []byte) ([]c11Fasta, error) {
	var out []c11Fasta
	for _, line := range strings.Split(string(b), "\n") {
		line = strings.TrimRight(line, "\r")
		if line == "" {
			continue
		}
		if line[0] == '>' {
			rec := c11Fasta{an: map[string]any{}}
			h := line[1:]
			if i := strings.IndexAny(h, " \t"); i >= 0 {
				rec.id = h[:i]
				rest := strings.TrimSpace(h[i+1:])
				if strings.HasPrefix(rest, "{") {
					if err := json.Unmarshal([]byte(rest), &rec.an); err != nil {
						return nil, fmt.Errorf("header %q: %v", line, err)
					}
				}
			} else {
				rec.id = h
			}
			out = append(out, rec)
		} else {
			if len(out) == 0 {
				return nil, fmt.Errorf("sequence line before any header")
			}
			out[len(out)-1].seq += line
		}
	}
	return out, nil
}

// c11RunCmd runs obipcr on a FASTA file holding the templates; returns the amplicons by template id.
func c11RunCmd(bin, dir, name string, ids []string, tpls [][]int, p c11Params, frag bool, batch int) (map[string][]c11Amp, string, error) {
	path := filepath.Join(dir, name+".fa")
	var sb strings.Builder
	for i, t := range tpls {
		sb.WriteString(">" + ids[i] + "\n")
		s := c11Str(t)
		for len(s) > 0 {
			k := 70
			if k > len(s) {
				k = len(s)
			}
			sb.WriteString(s[:k] + "\n")
			s = s[k:]
		}
	}
	if err := os.WriteFile(path, []byte(sb.String()), 0o644); err != nil {
		return nil, "", err
	}
	defer os.Remove(path)
	ctx, cancel := context.WithTimeout(context.Background(), 180*time.Second)
	defer cancel()
	args := append(p.argv(frag), "--max-cpu", "2", "--batch-size", strconv.Itoa(batch), "--no-progressbar", path)
	cmd := exec.CommandContext(ctx, bin, args...)
	var stdout, stderr bytes.Buffer
	cmd.Stdout, cmd.Stderr = &stdout, &stderr
	err := cmd.Run()
	if err != nil {
		msg := stderr.String()
		if len(msg) > 300 {
			msg = msg[len(msg)-300:]
		}
		return nil, "", fmt.Errorf("obipcr %v: %v: %s", args, err, strings.TrimSpace(msg))
	}
	recs, perr := c11ParseFasta(stdout.Bytes())
	if perr != nil {
		return nil, "", perr
	}
	by := map[string][]c11Amp{}
	bad := ""
	for _, r := range recs {
		a, owner, b := c11Decode(r.id, r.seq, r.an, p)
		if b != "" && bad == "" {
			bad = b
		}
		by[owner] = append(by[owner], a)
	}
	return by, bad, nil
}

// --------------------------------------------------------------------------------- replay

func c11Replay(env *Env) {
	if env.opt("mode", "") == "event" {
		c11ReplayEvents(env)
		return
	}
	cases := loadCases[c11Case](env.cases)
	bin := env.opt("obipcr", "")
	dir := os.Getenv("VERIF_SCRATCH")
	if dir == "" {
		dir = os.TempDir()
	}
	// groups of cases sharing primers and options
	groups := map[c11Params][]int{}
	var keys []c11Params
	for i := range cases {
		p := cases[i].params()
		if _, ok := groups[p]; !ok {
			keys = append(keys, p)
		}
		groups[p] = append(groups[p], i)
	}
	seeds := make([]int64, len(keys))
	for i := range seeds {
		seeds[i] = env.rng.Int63()
	}
	cmdEvery := env.optInt("cmdevery", 1) // run the binary on one group out of cmdEvery
	parallel(len(keys), 0, func(g int) {
		if env.tooManyFailures() {
			return
		}
		p := keys[g]
		idx := groups[p]
		rng := rand.New(rand.NewSource(seeds[g]))
		cls := p.class()
		fail := func(assert string, c *c11Case, detail string) {
			env.fail(assert, cls, detail, c)
		}
		// 1. every template alone
		var live []int // asserted cases, usable in batches
		for _, i := range idx {
			c := &cases[i]
			if c.Asserted == 0 {
				// not decided by the specification: run it (it must not take the process down), compare nothing
				c11Call(func() obiseq.BioSequenceSlice { return obiapat.PCRSim(c11NewSeq("t", c.T), p.options()...) })
				env.ok("not-asserted")
				continue
			}
			live = append(live, i)
			res, fatal, msg := c11Call(func() obiseq.BioSequenceSlice {
				return obiapat.PCRSim(c11NewSeq(fmt.Sprintf("t%d", i), c.T), p.options()...)
			})
			if fatal != 0 {
				fail("C11.sim.fatal", c, fmt.Sprintf("PCRSim(%s, %+v) did not return (%d: %s); specification: %s", c11Str(c.T), p, fatal, msg, c11Show(c.Amp)))
				continue
			}
			by, bad := c11DecodeSlice(res, p)
			got := by[fmt.Sprintf("t%d", i)]
			if bad != "" || len(got) != len(res) {
				fail("C11.sim.record", c, fmt.Sprintf("PCRSim(%s, %+v): %s (%d records, %d owned by the template)", c11Str(c.T), p, bad, len(res), len(got)))
				continue
			}
			if v := c11Compare(got, c.Amp); v != "ok" {
				fail("C11.sim."+v, c, fmt.Sprintf("PCRSim(%s, %+v) = %s; specification: %s", c11Str(c.T), p, c11Show(got), c11Show(c.Amp)))
				continue
			}
			env.ok("sim/" + cls)
			if len(c.Amp) > 0 {
				env.ok("sim-amplicons/" + cls)
				for _, a := range c.Amp {
					if a.Dir == "reverse" {
						env.ok("sim-reverse-direction")
						break
					}
				}
			} else {
				env.ok("sim-none")
			}
			if len(c.Amp) > 0 {
				env.sample(map[string]any{"replayed_case": map[string]any{"template": c11Str(c.T), "options": fmt.Sprintf("%+v", p), "amplicons": c11Show(c.Amp)}})
			}
		}
		// (replay files: the template that preceded the failing one in its batch is part of the case)
		for _, i := range live {
			c := &cases[i]
			if len(c.Pred) == 0 {
				continue
			}
			batch := obiseq.BioSequenceSlice{c11NewSeq("pred", c.Pred), c11NewSeq("t", c.T)}
			res, fatal, msg := c11Call(func() obiseq.BioSequenceSlice { return obiapat.PCRSlice(batch, p.options()...) })
			if fatal != 0 {
				fail("C11.slice.fatal", c, fmt.Sprintf("PCRSlice([%s, %s], %+v) did not return (%d: %s)", c11Str(c.Pred), c11Str(c.T), p, fatal, msg))
				continue
			}
			by, _ := c11DecodeSlice(res, p)
			if v := c11Compare(by["t"], c.Amp); v != "ok" {
				fail("C11.slice."+v, c, fmt.Sprintf("PCRSlice, template %s after %s (%+v) = %s; specification: %s", c11Str(c.T), c11Str(c.Pred), p, c11Show(by["t"]), c11Show(c.Amp)))
				continue
			}
			env.ok("slice-recycled/" + cls)
		}
		if len(live) == 0 {
			return
		}
		// 2. batches through PCRSlice / PCRSliceWorker: three orders, random batch sizes; the answer for a
		//    template must not depend on what preceded it in the batch
		for round := 0; round < 3; round++ {
			order := append([]int(nil), live...)
			switch round {
			case 1:
				for a, b := 0, len(order)-1; a < b; a, b = a+1, b-1 {
					order[a], order[b] = order[b], order[a]
				}
			case 2:
				rng.Shuffle(len(order), func(a, b int) { order[a], order[b] = order[b], order[a] })
			}
			// the chunks of the round; in round 1 ONE worker made by PCRSliceWorker is shared by up to 8 goroutines
			// working on different chunks at the same time (what MakeISliceWorker does with it in obipcr)
			type sliceRun struct {
				chunk []int
				res   obiseq.BioSequenceSlice
				fatal int
				msg   string
			}
			var runs []*sliceRun
			for at := 0; at < len(order); {
				size := 2 + rng.Intn(30)
				if at+size > len(order) {
					size = len(order) - at
				}
				runs = append(runs, &sliceRun{chunk: order[at : at+size]})
				at += size
			}
			mkBatch := func(chunk []int) obiseq.BioSequenceSlice {
				batch := make(obiseq.BioSequenceSlice, len(chunk))
				for k, i := range chunk {
					batch[k] = c11NewSeq(fmt.Sprintf("t%d", i), cases[i].T)
				}
				return batch
			}
			if round == 1 {
				shared := obiapat.PCRSliceWorker(p.options()...)
				var wg sync.WaitGroup
				gate := make(chan struct{}, 8)
				for _, sr := range runs {
					wg.Add(1)
					gate <- struct{}{}
					go func(sr *sliceRun) {
						defer wg.Done()
						defer func() { <-gate }()
						batch := mkBatch(sr.chunk)
						sr.res, sr.fatal, sr.msg = c11Call(func() obiseq.BioSequenceSlice {
							r, _ := shared(batch)
							return r
						})
					}(sr)
				}
				wg.Wait()
			} else {
				for _, sr := range runs {
					batch := mkBatch(sr.chunk)
					sr.res, sr.fatal, sr.msg = c11Call(func() obiseq.BioSequenceSlice { return obiapat.PCRSlice(batch, p.options()...) })
				}
			}
			for _, sr := range runs {
				chunk, res, fatal, msg := sr.chunk, sr.res, sr.fatal, sr.msg
				if fatal != 0 {
					fail("C11.slice.fatal", &cases[chunk[0]], fmt.Sprintf("PCRSlice on a batch of %d templates (%+v) did not return (%d: %s)", len(chunk), p, fatal, msg))
					continue
				}
				by, bad := c11DecodeSlice(res, p)
				if bad != "" {
					fail("C11.slice.record", &cases[chunk[0]], fmt.Sprintf("PCRSlice (%+v): %s", p, bad))
					continue
				}
				owned := 0
				for k, i := range chunk {
					c := cases[i]
					got := by[fmt.Sprintf("t%d", i)]
					owned += len(got)
					if v := c11Compare(got, c.Amp); v != "ok" {
						pred := "(first of the batch)"
						if k > 0 {
							c.Pred = cases[chunk[k-1]].T
							pred = "after " + c11Str(c.Pred)
						}
						fail("C11.slice."+v, &c, fmt.Sprintf("PCRSlice, template %s %s (%+v) = %s; specification: %s", c11Str(c.T), pred, p, c11Show(got), c11Show(c.Amp)))
						continue
					}
					if k > 0 {
						env.ok("slice-recycled/" + cls)
						if len(cases[chunk[k-1]].T) > len(c.T) {
							env.ok("slice-after-longer")
						} else if len(cases[chunk[k-1]].T) < len(c.T) {
							env.ok("slice-after-shorter")
						}
					} else {
						env.ok("slice-first/" + cls)
					}
				}
				if owned != len(res) {
					fail("C11.slice.owner", &cases[chunk[0]], fmt.Sprintf("PCRSlice (%+v): %d amplicons, %d attributable to the templates of the batch", p, len(res), owned))
				}
			}
		}
		// 3. the obipcr binary on the same templates (one error budget for both primers on the command line)
		if bin == "" || p.Ef != p.Er {
			return
		}
		if (g+int(env.seed))%cmdEvery != 0 {
			return
		}
		order := append([]int(nil), live...)
		rng.Shuffle(len(order), func(a, b int) { order[a], order[b] = order[b], order[a] })
		if len(order) > 400 {
			order = order[:400]
		}
		ids := make([]string, len(order))
		tpls := make([][]int, len(order))
		for k, i := range order {
			ids[k] = fmt.Sprintf("t%d", i)
			tpls[k] = cases[i].T
		}
		by, bad, err := c11RunCmd(bin, dir, fmt.Sprintf("c11-g%d", g), ids, tpls, p, false, 3+rng.Intn(12))
		if err != nil {
			fail("C11.cmd.failed", &cases[order[0]], err.Error())
			return
		}
		if bad != "" {
			fail("C11.cmd.record", &cases[order[0]], bad)
			return
		}
		total := 0
		for _, v := range by {
			total += len(v)
		}
		owned := 0
		for _, i := range order {
			c := cases[i]
			got := by[fmt.Sprintf("t%d", i)]
			owned += len(got)
			if v := c11Compare(got, c.Amp); v != "ok" {
				fail("C11.cmd."+v, &c, fmt.Sprintf("obipcr %s, template %s = %s; specification: %s", strings.Join(p.argv(false), " "), c11Str(c.T), c11Show(got), c11Show(c.Amp)))
				continue
			}
			env.ok("cmd/" + cls)
		}
		if owned != total {
			fail("C11.cmd.owner", &cases[order[0]], fmt.Sprintf("obipcr %s: %d amplicons, %d attributable to the input templates", strings.Join(p.argv(false), " "), total, owned))
		}
	})
}

// c11ReplayEvents: re-run recorded scenarios (the cases file holds events) and log them again for TLC.
func c11ReplayEvents(env *Env) {
	evs := loadCases[c11Event](env.cases)
	out := env.opt("events", "")
	bin := env.opt("obipcr", "")
	dir := os.Getenv("VERIF_SCRATCH")
	if dir == "" {
		dir = os.TempDir()
	}
	var log []c11Event
	for i, ev := range evs {
		p := c11Params{strings.Join(ev.F, ""), strings.Join(ev.R, ""), ev.Ef, ev.Er, ev.Mn, ev.Mx, ev.Ext, ev.Full, ev.Circ}
		if strings.HasPrefix(ev.Src, "cmd") && bin != "" {
			log = append(log, c11CmdEvents(bin, dir, fmt.Sprintf("c11-rp%d", i), [][]int{ev.T}, []string{ev.Cls}, p, ev.Frag == 1, 5)...)
		} else {
			log = append(log, c11SimEvent(ev.T, p, ev.Cls))
		}
		env.ok("event-replayed")
	}
	c11WriteEvents(out, log)
}

func c11WriteEvents(path string, evs []c11Event) {
	if path == "" {
		return
	}
	f, err := os.Create(path)
	if err != nil {
		fmt.Fprintln(os.Stderr, err)
		os.Exit(2)
	}
	defer f.Close()
	for _, ev := range evs {
		b, _ := json.Marshal(ev)
		f.Write(b)
		f.Write([]byte("\n"))
	}
}

// --------------------------------------------------------------------------------- record

func c11BaseEvent(t []int, p c11Params, src, cls string) c11Event {
	return c11Event{K: "pcr", Src: src, Cls: cls, T: t, F: c11Chars(p.F), R: c11Chars(p.R), Ef: p.Ef, Er: p.Er, Mn: p.Mn, Mx: p.Mx,
		Ext: p.Ext, Full: p.Full, Circ: p.Circ, Out: []c11Amp{}}
}

func c11SimEvent(t []int, p c11Params, cls string) c11Event {
	ev := c11BaseEvent(t, p, "sim", cls)
	res, fatal, msg := c11Call(func() obiseq.BioSequenceSlice { return obiapat.PCRSim(c11NewSeq("t0", t), p.options()...) })
	ev.Fatal, ev.Msg = fatal, msg
	if fatal == 0 {
		by, bad := c11DecodeSlice(res, p)
		if bad != "" || len(by["t0"]) != len(res) {
			ev.Fatal, ev.Msg = 4, "malformed record: "+bad
		}
		ev.Out = append(ev.Out, by["t0"]...)
	}
	return ev
}

func c11SliceEvents(tpls [][]int, clss []string, p c11Params) []c11Event {
	batch := make(obiseq.BioSequenceSlice, len(tpls))
	for k := range tpls {
		batch[k] = c11NewSeq(fmt.Sprintf("t%d", k), tpls[k])
	}
	res, fatal, msg := c11Call(func() obiseq.BioSequenceSlice { return obiapat.PCRSlice(batch, p.options()...) })
	by, bad := map[string][]c11Amp{}, ""
	if fatal == 0 {
		by, bad = c11DecodeSlice(res, p)
	}
	owned := 0
	for k := range tpls {
		owned += len(by[fmt.Sprintf("t%d", k)])
	}
	if fatal == 0 && (bad != "" || owned != len(res)) {
		fatal, msg = 4, fmt.Sprintf("malformed or unattributable record: %s (%d of %d owned)", bad, owned, len(res))
	}
	evs := make([]c11Event, len(tpls))
	for k := range tpls {
		ev := c11BaseEvent(tpls[k], p, "slice", clss[k])
		ev.Fatal, ev.Msg = fatal, msg
		ev.Out = append(ev.Out, by[fmt.Sprintf("t%d", k)]...)
		evs[k] = ev
	}
	return evs
}

func c11CmdEvents(bin, dir, name string, tpls [][]int, clss []string, p c11Params, frag bool, batch int) []c11Event {
	ids := make([]string, len(tpls))
	for k := range tpls {
		ids[k] = fmt.Sprintf("t%d", k)
	}
	by, bad, err := c11RunCmd(bin, dir, name, ids, tpls, p, frag, batch)
	fatal, msg := 0, ""
	if err != nil {
		fatal, msg = 5, err.Error()
		by = map[string][]c11Amp{}
	} else if bad != "" {
		fatal, msg = 4, bad
	}
	total, owned := 0, 0
	for _, v := range by {
		total += len(v)
	}
	for k := range tpls {
		owned += len(by[ids[k]])
	}
	if fatal == 0 && owned != total {
		fatal, msg = 4, fmt.Sprintf("%d amplicons, %d attributable to the input templates", total, owned)
	}
	evs := make([]c11Event, len(tpls))
	for k := range tpls {
		src := "cmd"
		if frag {
			src = "cmdfrag"
		}
		ev := c11BaseEvent(tpls[k], p, src, clss[k])
		if frag {
			ev.Frag = 1
		}
		ev.Fatal, ev.Msg = fatal, msg
		ev.Out = append(ev.Out, by[ids[k]]...)
		evs[k] = ev
	}
	return evs
}

// ---- scenario generation (inputs only) ----

var c11Iupac = map[byte]string{'a': "a", 'c': "c", 'g': "g", 't': "t", 'r': "ag", 'y': "ct", 's': "cg", 'w': "at", 'k': "gt", 'm': "ac",
	'b': "cgt", 'd': "agt", 'h': "act", 'v': "acg", 'n': "acgt"}

func c11RandPrimer(rng *rand.Rand, n int) string {
	b := make([]byte, n)
	for i := range b {
		b[i] = "acgt"[rng.Intn(4)]
	}
	amb := "rywsmkbdhvn"
	for k := rng.Intn(4); k > 0; k-- {
		b[rng.Intn(n)] = amb[rng.Intn(len(amb))]
	}
	return string(b)
}

// a template string matched by the primer with exactly `mis` mismatching positions (when possible)
func c11Site(rng *rand.Rand, primer string, mis int) string {
	b := make([]byte, len(primer))
	for i := range b {
		set := c11Iupac[primer[i]]
		b[i] = set[rng.Intn(len(set))]
	}
	cand := rng.Perm(len(primer))
	for _, i := range cand {
		if mis == 0 {
			break
		}
		set := c11Iupac[primer[i]]
		others := ""
		for _, x := range "acgt" {
			if !strings.ContainsRune(set, x) {
				others += string(x)
			}
		}
		if others == "" {
			continue
		}
		b[i] = others[rng.Intn(len(others))]
		mis--
	}
	return string(b)
}

func c11RC(s string) string {
	b := make([]byte, len(s))
	for i := 0; i < len(s); i++ {
		var c byte
		switch s[len(s)-1-i] {
		case 'a':
			c = 't'
		case 'c':
			c = 'g'
		case 'g':
			c = 'c'
		case 't':
			c = 'a'
		case 'r':
			c = 'y'
		case 'y':
			c = 'r'
		case 'k':
			c = 'm'
		case 'm':
			c = 'k'
		case 'b':
			c = 'v'
		case 'v':
			c = 'b'
		case 'd':
			c = 'h'
		case 'h':
			c = 'd'
		default:
			c = s[len(s)-1-i]
		}
		b[i] = c
	}
	return string(b)
}

func c11RandSeq(rng *rand.Rand, n int) []byte {
	b := make([]byte, n)
	for i := range b {
		b[i] = "acgt"[rng.Intn(4)]
	}
	return b
}

// c11Plant writes a product (forward site, d random bases, site of the complemented reverse primer) at
// position at of the template; rev: the reverse complement of the product is written instead.
func c11Plant(rng *rand.Rand, tpl []byte, at int, fwd, rev string, mf, mr, d int, reversed bool) int {
	prod := c11Site(rng, fwd, mf) + string(c11RandSeq(rng, d)) + c11RC(c11Site(rng, rev, mr))
	if reversed {
		prod = c11RC(prod)
	}
	if at < 0 {
		at = 0
	}
	if at+len(prod) > len(tpl) {
		at = len(tpl) - len(prod)
	}
	if at < 0 {
		return -1
	}
	copy(tpl[at:], prod)
	return at
}

func c11Rotate(t []byte, k int) []byte {
	n := len(t)
	out := make([]byte, n)
	for i := 0; i < n; i++ {
		out[i] = t[(i+k)%n]
	}
	return out
}

type c11Scenario struct {
	p    c11Params
	tpls [][]int
	clss []string
}

// one library scenario: a primer pair, an option set, a few templates built around planted products
func c11MakeScenario(rng *rand.Rand, big bool) c11Scenario {
	lf, lr := 18+rng.Intn(8), 18+rng.Intn(8)
	switch rng.Intn(10) {
	case 0:
		lf = 33 + rng.Intn(30) // beyond one 32-bit word of the matching automaton (64 symbols are allowed)
	case 1:
		lr = 33 + rng.Intn(30)
	}
	fwd, rev := c11RandPrimer(rng, lf), c11RandPrimer(rng, lr)
	p := c11Params{F: fwd, R: rev, Ef: rng.Intn(4), Er: rng.Intn(4)}
	if rng.Intn(3) == 0 {
		p.Er = p.Ef
	}
	dmax := 20 + rng.Intn(120)
	switch rng.Intn(4) {
	case 0:
		p.Mn, p.Mx = 0, 0
	case 1:
		p.Mn, p.Mx = 0, dmax
	case 2:
		p.Mn, p.Mx = 10+rng.Intn(20), dmax
	case 3:
		p.Mn, p.Mx = 5+rng.Intn(10), 0
	}
	p.Ext = []int{-1, -1, 0, 3, 12, 40}[rng.Intn(6)]
	if p.Ext >= 0 && rng.Intn(3) == 0 {
		p.Full = 1
	}
	if rng.Intn(3) == 0 {
		p.Circ = 1
	}
	sc := c11Scenario{p: p}
	ntpl := 2 + rng.Intn(4)
	for k := 0; k < ntpl; k++ {
		n := 100 + rng.Intn(900)
		if big && k == 0 {
			n = 4000 + rng.Intn(6000)
		} else if rng.Intn(6) == 0 {
			n = lf + lr + 5 + rng.Intn(60)
		}
		tpl := c11RandSeq(rng, n)
		for j := rng.Intn(n/50 + 1); j > 0; j-- { // a few ambiguous template bases
			tpl[rng.Intn(n)] = 'n'
		}
		cls := []string{}
		nsites := rng.Intn(4)
		for s := 0; s < nsites; s++ {
			mf, mr := rng.Intn(p.Ef+2), rng.Intn(p.Er+2)
			var d int
			switch rng.Intn(6) {
			case 0:
				d = 0 // touching
			case 1:
				d = 1
			case 2:
				d = dmax + rng.Intn(3) - 1 // around the upper bound
			case 3:
				d = p.Mn + rng.Intn(3) - 1 // around the lower bound
				if d < 0 {
					d = 0
				}
			default:
				d = 1 + rng.Intn(dmax)
			}
			at := rng.Intn(n)
			switch rng.Intn(5) {
			case 0:
				at = 0 // product at the very start
				cls = append(cls, "at-start")
			case 1:
				at = n // ... at the very end
				cls = append(cls, "at-end")
			case 2:
				at = p.Ext - 1 + rng.Intn(3) // flank just (in)complete
			}
			reversed := rng.Intn(2) == 0
			if c11Plant(rng, tpl, at, fwd, rev, mf, mr, d, reversed) >= 0 {
				if reversed {
					cls = append(cls, "planted-reverse")
				} else {
					cls = append(cls, "planted-forward")
				}
				if mf > p.Ef || mr > p.Er {
					cls = append(cls, "over-budget")
				}
				if d == 0 {
					cls = append(cls, "touching")
				}
			}
		}
		if nsites >= 2 && rng.Intn(3) == 0 {
			// nested: a second forward site upstream of an existing product
			site := c11Site(rng, fwd, rng.Intn(p.Ef+1))
			at := rng.Intn(n - len(site) + 1)
			copy(tpl[at:], site)
			cls = append(cls, "extra-forward-site")
		}
		if n >= 5000 {
			cls = append(cls, "long")
		}
		base := string(tpl)
		variants := []string{base}
		vcls := []string{"plain"}
		switch rng.Intn(3) {
		case 0:
			variants = append(variants, c11RC(base))
			vcls = append(vcls, "revcomp")
		case 1:
			if p.Circ == 1 {
				// rotations: one arbitrary, one that puts the origin inside a planted product
				variants = append(variants, string(c11Rotate(tpl, 1+rng.Intn(n-1))))
				vcls = append(vcls, "rotated")
			}
		}
		for v := range variants {
			c := append([]string{vcls[v]}, cls...)
			if p.Circ == 1 {
				c = append(c, "circular")
			}
			if p.Ext >= 0 {
				c = append(c, "flank")
			}
			sc.tpls = append(sc.tpls, c11Codes(variants[v]))
			sc.clss = append(sc.clss, strings.Join(c, "/"))
		}
	}
	return sc
}

// a --fragmented scenario: small maximal length (the fragmentation threshold is 1000 x it), products
// planted around the fragment starts
func c11MakeFragScenario(rng *rand.Rand) c11Scenario {
	lf, lr := 18+rng.Intn(6), 18+rng.Intn(6)
	fwd, rev := c11RandPrimer(rng, lf), c11RandPrimer(rng, lr)
	mx := 3 + rng.Intn(4)
	e := rng.Intn(3)
	p := c11Params{F: fwd, R: rev, Ef: e, Er: e, Mn: 0, Mx: mx, Ext: -1}
	if rng.Intn(2) == 0 {
		p.Mn = 1 + rng.Intn(2)
	}
	sc := c11Scenario{p: p}
	length := 100 * mx
	for k := 0; k < 3; k++ {
		n := 1000*mx + 1 + rng.Intn(1500)
		if k == 2 {
			n = 1000*mx - rng.Intn(3) // at the threshold: not fragmented
		}
		tpl := c11RandSeq(rng, n)
		cls := []string{"frag"}
		// fragment starts are multiples of a step a little smaller than the fragment length (the overlap is
		// about one amplicon): for every plausible step, products of (nearly) maximal length are planted so
		// that they begin a few bases before a multiple of it - complete only in a fragment that starts early
		// enough - and others at random offsets around it
		for step := length - (mx + lf + lr) - 2; step <= length-mx-lf+2; step++ {
			for rep := 0; rep < 2; rep++ {
				j := 1 + rng.Intn(n/step)
				at := j*step - 1 - rng.Intn(6)
				d := mx
				if rep == 1 {
					at = j*step - rng.Intn(lf+lr+mx+2)
					d = 1 + rng.Intn(mx)
				}
				c11Plant(rng, tpl, at, fwd, rev, rng.Intn(e+1), rng.Intn(e+1), d, rng.Intn(2) == 0)
			}
		}
		for s := 0; s < 4; s++ {
			c11Plant(rng, tpl, rng.Intn(n), fwd, rev, rng.Intn(e+2), rng.Intn(e+2), 1+rng.Intn(mx+1), rng.Intn(2) == 0)
		}
		if n > 1000*mx {
			cls = append(cls, "fragmented")
		} else {
			cls = append(cls, "below-threshold")
		}
		sc.tpls = append(sc.tpls, c11Codes(string(tpl)))
		sc.clss = append(sc.clss, strings.Join(cls, "/"))
	}
	return sc
}

func c11Record(env *Env) {
	bin := env.opt("obipcr", "")
	dir := os.Getenv("VERIF_SCRATCH")
	if dir == "" {
		dir = os.TempDir()
	}
	nbig := env.optInt("big", 2)
	nfrag := env.optInt("frag", 2)
	ncmd := env.optInt("cmd", 4)
	type job struct {
		sc   c11Scenario
		kind string
		seed int64
	}
	var jobs []job
	for i := 0; i < env.n; i++ {
		jobs = append(jobs, job{c11MakeScenario(env.rng, i < nbig), "lib", env.rng.Int63()})
	}
	if bin != "" {
		for i := 0; i < ncmd; i++ {
			sc := c11MakeScenario(env.rng, false)
			sc.p.Er = sc.p.Ef
			jobs = append(jobs, job{sc, "cmd", env.rng.Int63()})
		}
		for i := 0; i < nfrag; i++ {
			jobs = append(jobs, job{c11MakeFragScenario(env.rng), "cmdfrag", env.rng.Int63()})
		}
	}
	out := make([][]c11Event, len(jobs))
	parallel(len(jobs), 0, func(i int) {
		j := jobs[i]
		rng := rand.New(rand.NewSource(j.seed))
		switch j.kind {
		case "lib":
			var evs []c11Event
			for k := range j.sc.tpls {
				evs = append(evs, c11SimEvent(j.sc.tpls[k], j.sc.p, j.sc.clss[k]))
			}
			// the same templates as one batch, in a shuffled order
			order := rng.Perm(len(j.sc.tpls))
			tp := make([][]int, len(order))
			cl := make([]string, len(order))
			for a, b := range order {
				tp[a], cl[a] = j.sc.tpls[b], j.sc.clss[b]
			}
			evs = append(evs, c11SliceEvents(tp, cl, j.sc.p)...)
			out[i] = evs
		case "cmd":
			out[i] = c11CmdEvents(bin, dir, fmt.Sprintf("c11-c%d", i), j.sc.tpls, j.sc.clss, j.sc.p, false, 1+rng.Intn(4))
		case "cmdfrag":
			evs := c11CmdEvents(bin, dir, fmt.Sprintf("c11-f%d", i), j.sc.tpls, j.sc.clss, j.sc.p, true, 1+rng.Intn(4))
			evs = append(evs, c11CmdEvents(bin, dir, fmt.Sprintf("c11-u%d", i), j.sc.tpls, j.sc.clss, j.sc.p, false, 1+rng.Intn(4))...)
			out[i] = evs
		}
	})
	for _, evs := range out {
		for _, ev := range evs {
			env.emit(ev)
		}
	}
}

package main

// C20: fixed-precision unsigned integers of pkg/obifp (Uint64, Uint128, Uint256).
//
// A case / event is one GROUP of methods evaluated on (a, b, n); operands and results travel as
// little-endian byte arrays (spec/L3_command/ObiFp.tla gives every field its required value):
//
//	"un"   a        Not IsZero AsUint64 Set64 From64 Zero ZeroUint MaxValue OneUint, casts
//	"sh"   a, n     LeftShift(n) RightShift(n)
//	"bin"  a, b     And Or Xor Cmp Equals LessThan GreaterThan LessThanOrEqual GreaterThanOrEqual
//	                Add Sub; Uint128 with b < 2^64: Add64 Cmp64
//	"mul"  a, b     Mul; Uint128 with b < 2^64: Mul64
//	"div"  a, b#0   Uint128: QuoRem Div Mod (QuoRem64 Div64 Mod64 when b < 2^64); Uint256: Div
//	"u64x" a, b, n  Uint64: LeftShift64 RightShift64 (n <= 64, carry-in b) Add64 Sub64 (carry n%2) Mul64
//
// replay: every case exported by TLC from ObiFpCases.tla is run on the real types (operands built
// with the verif limb constructors, panics of log.Panicf recovered, non-terminating divisions
// timed out) and every field the specification constrains is compared.
// record: seeded random operands (all sizes, dense, sparse, near powers of two, products near the
// overflow boundary) far beyond the enumerated patterns; the observed fields are logged and
// ObiFpTrace.tla re-evaluates the specification on each event.
//
// No expected value is computed here: the Go side only decodes bytes into limbs and back.

import (
	"fmt"
	"math/rand"
	"sort"
	"strings"
	"sync"
	"sync/atomic"
	"time"

	"git.metabarcoding.org/obitools/obitools4/obitools4/pkg/obifp"
)

type fpCase struct {
	G   string           `json:"g"`
	A   []int            `json:"a"`
	B   []int            `json:"b"`
	N   int              `json:"n"`
	X   map[string][]int `json:"x,omitempty"` // expected fields (replay)
	O   map[string][]int `json:"o,omitempty"` // observed fields (record)
	Cls string           `json:"cls,omitempty"`
}

func init() {
	register("C20", &driver{replay: replayC20, record: recordC20})
}

// ------------------------------------------------------------------------- encoding

func limbsOf(bs []int) []uint64 {
	l := make([]uint64, len(bs)/8)
	for i, b := range bs {
		l[i/8] |= uint64(b&0xff) << (8 * uint(i%8))
	}
	return l
}

func bytesOf20(l []uint64) []int {
	out := make([]int, 8*len(l))
	for i := range out {
		out[i] = int(l[i/8] >> (8 * uint(i%8)) & 0xff)
	}
	return out
}

func flag(b bool) []int {
	if b {
		return []int{1}
	}
	return []int{0}
}

var dcField = []int{-9} // "don't care" marker of ObiFp.tla

func fits64(bs []int) bool {
	for i := 8; i < len(bs); i++ {
		if bs[i] != 0 {
			return false
		}
	}
	return true
}

// try runs f and reports whether it panicked (log.Panicf of the library, or a run-time panic).
func try(f func()) (panicked bool) {
	defer func() {
		if r := recover(); r != nil {
			panicked = true
		}
	}()
	f()
	return
}

// ------------------------------------------------------------------------- generic part

type fpNum[T obifp.Uint64 | obifp.Uint128 | obifp.Uint256] interface {
	obifp.FPUint[T]
	Cmp(T) int
	Equals(T) bool
	MaxValue() T
	Uint64() obifp.Uint64
	Uint128() obifp.Uint128
	Uint256() obifp.Uint256
	VerifLimbs() []uint64
}

func val[T fpNum[T]](x T) []int { return bytesOf20(x.VerifLimbs()) }

// arith runs an operation that may signal overflow by panicking.
func arith[T fpNum[T]](o map[string][]int, name string, f func() T) {
	var r T
	if try(func() { r = f() }) {
		o[name] = []int{}
		o[name+"p"] = []int{1}
	} else {
		o[name] = val(r)
		o[name+"p"] = []int{0}
	}
}

func obsUn[T fpNum[T]](x T, a []int) map[string][]int {
	lo := limbsOf(a)[0]
	o := map[string][]int{}
	o["not"] = val(x.Not())
	o["isz"] = flag(x.IsZero())
	o["lo64"] = bytesOf20([]uint64{x.AsUint64()})
	o["set64"] = val(x.Set64(lo))
	o["from64"] = val(obifp.From64[T](lo))
	o["zero"] = val(x.Zero())
	o["zerou"] = val(obifp.ZeroUint[T]())
	o["max"] = val(x.MaxValue())
	o["one"] = val(obifp.OneUint[T]())
	o["c64"] = bytesOf20(x.Uint64().VerifLimbs())
	o["c128"] = bytesOf20(x.Uint128().VerifLimbs())
	o["c256"] = bytesOf20(x.Uint256().VerifLimbs())
	return o
}

func obsSh[T fpNum[T]](x T, n int) map[string][]int {
	return map[string][]int{
		"shl": val(x.LeftShift(uint(n))),
		"shr": val(x.RightShift(uint(n))),
	}
}

func obsBin[T fpNum[T]](x, y T) map[string][]int {
	o := map[string][]int{}
	o["and"] = val(x.And(y))
	o["or"] = val(x.Or(y))
	o["xor"] = val(x.Xor(y))
	o["cmp"] = []int{x.Cmp(y)}
	rel := 0
	for i, b := range []bool{x.Equals(y), x.LessThan(y), x.GreaterThan(y), x.LessThanOrEqual(y), x.GreaterThanOrEqual(y)} {
		if b {
			rel |= 1 << uint(i)
		}
	}
	o["rel"] = []int{rel}
	arith(o, "add", func() T { return x.Add(y) })
	arith(o, "sub", func() T { return x.Sub(y) })
	o["add64"], o["add64p"], o["cmp64"] = dcField, dcField, dcField
	return o
}

func obsMul[T fpNum[T]](x, y T) map[string][]int {
	o := map[string][]int{}
	arith(o, "mul", func() T { return x.Mul(y) })
	o["mul64"], o["mul64p"] = dcField, dcField
	return o
}

// ------------------------------------------------------------------------- per width

func mk64(bs []int) obifp.Uint64 { return obifp.VerifUint64(limbsOf(bs)[0]) }
func mk128(bs []int) obifp.Uint128 {
	l := limbsOf(bs)
	return obifp.VerifUint128(l[0], l[1])
}
func mk256(bs []int) obifp.Uint256 {
	l := limbsOf(bs)
	return obifp.VerifUint256(l[0], l[1], l[2], l[3])
}

// hung divisions leak a spinning goroutine each; after a few of them the group is not run any more
var divHangs int64

const maxDivHangs = 4

func withTimeout(f func(), d time.Duration) (hung bool) {
	done := make(chan struct{})
	go func() {
		defer close(done)
		f()
	}()
	select {
	case <-done:
		return false
	case <-time.After(d):
		return true
	}
}

func obsDiv(a, b []int) (o map[string][]int, skipped bool) {
	if atomic.LoadInt64(&divHangs) >= maxDivHangs {
		return nil, true
	}
	res := map[string][]int{}
	for _, f := range []string{"dq", "q", "r", "mr", "q64", "r64", "d64", "m64"} {
		res[f] = []int{}
	}
	var mu sync.Mutex
	set := func(k string, v []int) { mu.Lock(); res[k] = v; mu.Unlock() }
	panicked := false
	run := func(f func()) {
		if try(f) {
			mu.Lock()
			panicked = true
			mu.Unlock()
		}
	}
	body := func() {
		switch len(a) {
		case 16:
			x, y := mk128(a), mk128(b)
			run(func() { q, r := x.QuoRem(y); set("q", val(q)); set("r", val(r)) })
			run(func() { set("dq", val(x.Div(y))) })
			run(func() { set("mr", val(x.Mod(y))) })
			if fits64(b) {
				v := limbsOf(b)[0]
				run(func() { q, r := x.QuoRem64(v); set("q64", val(q)); set("r64", bytesOf20([]uint64{r})) })
				run(func() { set("d64", val(x.Div64(v))) })
				run(func() { set("m64", bytesOf20([]uint64{x.Mod64(v)})) })
			}
		case 32:
			x, y := mk256(a), mk256(b)
			run(func() { set("dq", val(x.Div(y))) })
		}
	}
	hung := withTimeout(body, 3*time.Second)
	if hung {
		atomic.AddInt64(&divHangs, 1)
	}
	mu.Lock()
	defer mu.Unlock()
	o = map[string][]int{}
	for k, v := range res {
		o[k] = v
	}
	o["divp"] = flag(panicked)
	o["hang"] = flag(hung)
	return o, false
}

func obsU64x(a, b []int, n int) map[string][]int {
	x, y := mk64(a), mk64(b)
	cin := limbsOf(b)[0]
	w := func(v uint64) []int { return bytesOf20([]uint64{v}) }
	o := map[string][]int{}
	lv, lc := x.LeftShift64(uint(n), cin)
	rv, rc := x.RightShift64(uint(n), cin)
	av, ac := x.Add64(y, uint64(n%2))
	sv, sc := x.Sub64(y, uint64(n%2))
	mv, mc := x.Mul64(y)
	o["lv"], o["lc"], o["rv"], o["rc"] = w(lv), w(lc), w(rv), w(rc)
	o["av"], o["ac"], o["sv"], o["sc"] = w(av), w(ac), w(sv), w(sc)
	o["mv"], o["mc"] = w(mv), w(mc)
	return o
}

// observe runs one group on the real types. skipped: the group was not run (too many hung divisions).
func observeFp(g string, a, b []int, n int) (o map[string][]int, skipped bool) {
	k := len(a) / 8
	switch g {
	case "un":
		switch k {
		case 1:
			return obsUn(mk64(a), a), false
		case 2:
			return obsUn(mk128(a), a), false
		case 4:
			return obsUn(mk256(a), a), false
		}
	case "sh":
		switch k {
		case 1:
			return obsSh(mk64(a), n), false
		case 2:
			return obsSh(mk128(a), n), false
		case 4:
			return obsSh(mk256(a), n), false
		}
	case "bin":
		switch k {
		case 1:
			return obsBin(mk64(a), mk64(b)), false
		case 2:
			x, y := mk128(a), mk128(b)
			o = obsBin(x, y)
			if fits64(b) {
				v := limbsOf(b)[0]
				arith(o, "add64", func() obifp.Uint128 { return x.Add64(v) })
				o["cmp64"] = []int{x.Cmp64(v)}
			}
			return o, false
		case 4:
			return obsBin(mk256(a), mk256(b)), false
		}
	case "mul":
		switch k {
		case 1:
			return obsMul(mk64(a), mk64(b)), false
		case 2:
			x, y := mk128(a), mk128(b)
			o = obsMul(x, y)
			if fits64(b) {
				v := limbsOf(b)[0]
				arith(o, "mul64", func() obifp.Uint128 { return x.Mul64(v) })
			}
			return o, false
		case 4:
			return obsMul(mk256(a), mk256(b)), false
		}
	case "div":
		if k == 2 || k == 4 {
			return obsDiv(a, b)
		}
	case "u64x":
		if k == 1 {
			return obsU64x(a, b, n), false
		}
	}
	return nil, true
}

// ------------------------------------------------------------------------- classes

func shiftClass(n, w int) string {
	switch {
	case n == 0:
		return "n=0"
	case n < 64:
		return "0<n<64"
	case n == 64:
		return "n=64"
	case n >= w:
		return "n>=W"
	case n < 128:
		return "64<n<128"
	default:
		return "128<=n<W"
	}
}

func nonZero(bs []int) bool {
	for _, b := range bs {
		if b != 0 {
			return true
		}
	}
	return false
}

func bitLen(bs []int) int {
	for i := len(bs) - 1; i >= 0; i-- {
		if bs[i] != 0 {
			n := 0
			for v := bs[i]; v != 0; v >>= 1 {
				n++
			}
			return 8*i + n
		}
	}
	return 0
}

// fpClass names the scenario class of a case from its inputs (and, for overflow classes, from the
// flag the specification / the observation carries in `fields`).
func fpClass(c *fpCase, fields map[string][]int) string {
	w := 8 * len(c.A)
	is1 := func(f string) bool { v, ok := fields[f]; return ok && len(v) == 1 && v[0] == 1 }
	sub := ""
	switch c.G {
	case "sh":
		sub = shiftClass(c.N, w)
	case "u64x":
		sub = shiftClass(c.N, w)
	case "un":
		if fits64(c.A) {
			sub = "fits64"
		} else {
			sub = "wide"
		}
	case "bin":
		sub = "addfit"
		if is1("addp") {
			sub = "addovf"
		}
		if is1("subp") {
			sub += "-subund"
		} else {
			sub += "-subfit"
		}
	case "mul":
		sub = "fit"
		if is1("mulp") {
			sub = "ovf"
		}
		if w == 128 {
			if nonZero(c.A[8:]) && nonZero(c.B[8:]) {
				sub += "/hh" // both operands have a non-zero high limb
			} else {
				sub += "/lh"
			}
		}
	case "div":
		switch {
		case bitLen(c.B) > bitLen(c.A):
			sub = "b>a"
		case fits64(c.B):
			sub = "b64"
		default:
			sub = "bwide"
		}
		if w == 256 && bitLen(c.A) == 256 {
			sub += "/atop" // dividend has its top bit set
		}
	}
	return fmt.Sprintf("u%d/%s/%s", w, c.G, sub)
}

func eqInts20(a, b []int) bool {
	if len(a) != len(b) {
		return false
	}
	for i := range a {
		if a[i] != b[i] {
			return false
		}
	}
	return true
}

func isDC(v []int) bool { return len(v) == 1 && v[0] == -9 }

// ------------------------------------------------------------------------- replay

func replayC20(env *Env) {
	cases := loadCases[fpCase](env.cases)
	// divisions may hang (and then leak a spinning goroutine): run them sequentially at the end
	var idx, divIdx []int
	for i := range cases {
		if cases[i].G == "div" {
			divIdx = append(divIdx, i)
		} else {
			idx = append(idx, i)
		}
	}
	one := func(i int) {
		c := &cases[i]
		cls := fpClass(c, c.X)
		o, skipped := observeFp(c.G, c.A, c.B, c.N)
		if skipped {
			env.ok(fmt.Sprintf("u%d/%s/not-run", 8*len(c.A), c.G))
			return
		}
		names := make([]string, 0, len(c.X))
		for f := range c.X {
			names = append(names, f)
		}
		sort.Strings(names)
		badFlag := map[string]bool{}
		for _, f := range names {
			if strings.HasSuffix(f, "p") && !isDC(c.X[f]) && !eqInts20(c.X[f], o[f]) {
				badFlag[strings.TrimSuffix(f, "p")] = true
			}
		}
		for _, f := range names {
			exp := c.X[f]
			if isDC(exp) || badFlag[f] {
				continue
			}
			got, ok := o[f]
			if !ok || !eqInts20(exp, got) {
				env.fail(fmt.Sprintf("C20.u%d.%s", 8*len(c.A), f), cls,
					fmt.Sprintf("%s: a=%s b=%s n=%d: %s observed %s, specification %s", c.G,
						hexOf(c.A), hexOf(c.B), c.N, f, showField(got), showField(exp)), c)
			}
		}
		env.ok(cls)
		if i%997 == 0 {
			env.sample(map[string]any{"g": c.G, "a": hexOf(c.A), "b": hexOf(c.B), "n": c.N, "class": cls})
		}
	}
	parallel(len(idx), 0, func(j int) { one(idx[j]) })
	for _, i := range divIdx {
		one(i)
	}
}

func hexOf(bs []int) string {
	if len(bs) == 0 {
		return "-"
	}
	var sb strings.Builder
	sb.WriteString("0x")
	for i := len(bs) - 1; i >= 0; i-- {
		fmt.Fprintf(&sb, "%02x", bs[i]&0xff)
		if i%8 == 0 && i > 0 {
			sb.WriteByte('_')
		}
	}
	return sb.String()
}

func showField(v []int) string {
	switch {
	case v == nil:
		return "(missing)"
	case len(v) == 0:
		return "(no value: signalled)"
	case len(v) == 1:
		return fmt.Sprint(v[0])
	case len(v)%8 == 0:
		return hexOf(v)
	}
	return fmt.Sprint(v)
}

// ------------------------------------------------------------------------- record

// randOperand draws a k-limb value; bl < 0: any style, otherwise exactly bl significant bits.
func randOperand(r *rand.Rand, k int, bl int) []int {
	w := 64 * k
	l := make([]uint64, k)
	setBit := func(i int) { l[i/64] |= 1 << uint(i%64) }
	style := r.Intn(6)
	if bl >= 0 {
		style = 1
	}
	switch style {
	case 0: // uniform
		for i := range l {
			l[i] = r.Uint64()
		}
	case 1: // given number of significant bits
		if bl < 0 {
			bl = r.Intn(w + 1)
		}
		for i := range l {
			l[i] = r.Uint64()
		}
		for i := bl; i < w; i++ {
			l[i/64] &^= 1 << uint(i%64)
		}
		if bl > 0 {
			setBit(bl - 1)
		}
	case 2: // sparse: a few bits
		for j := r.Intn(4) + 1; j > 0; j-- {
			setBit(r.Intn(w))
		}
	case 3: // limb mix: each limb 0, all ones, or random
		for i := range l {
			switch r.Intn(3) {
			case 1:
				l[i] = ^uint64(0)
			case 2:
				l[i] = r.Uint64()
			}
		}
	case 4: // run of ones from bit p to bit q (2^q - 2^p)
		p, q := r.Intn(w), r.Intn(w+1)
		if p > q {
			p, q = q, p
		}
		for i := p; i < q; i++ {
			setBit(i)
		}
	case 5: // low part only (fits 64 bits), any length
		l[0] = r.Uint64() >> uint(r.Intn(64))
	}
	return bytesOf20(l)
}

func recordC20(env *Env) {
	r := env.rng
	nMul := env.optInt("mul", env.n/10)
	nDiv := env.optInt("div", env.n/10)
	nMulBig := env.optInt("mul256", nMul/4)
	nDivBig := env.optInt("div256", nDiv/4)
	widths := []int{1, 2, 4}
	emit := func(c fpCase) {
		o, skipped := observeFp(c.G, c.A, c.B, c.N)
		if skipped {
			return
		}
		c.O = o
		c.Cls = fpClass(&c, o)
		if c.B == nil {
			c.B = []int{}
		}
		env.emit(c)
	}
	if f := env.opt("events", ""); f != "" { // re-observe given events (bin/check --replay of a trace event)
		for _, c := range loadCases[fpCase](f) {
			c.X, c.O = nil, nil
			emit(c)
		}
		return
	}
	randShift := func(w int) int {
		switch r.Intn(10) {
		case 0:
			return []int{0, 1, 63, 64, 65, 127, 128, 129, 191, 192, 193, 255, 256, 257}[r.Intn(14)]
		case 1:
			return w + 64 + r.Intn(700) // beyond the quantifier's range: still "discard what leaves the word"
		}
		return r.Intn(w + 65)
	}
	cheap := env.n - nMul - nDiv
	for i := 0; i < cheap; i++ {
		k := widths[r.Intn(3)]
		switch r.Intn(10) {
		case 0, 1, 2, 3:
			emit(fpCase{G: "sh", A: randOperand(r, k, -1), N: randShift(64 * k)})
		case 4, 5, 6, 7:
			a := randOperand(r, k, -1)
			b := randOperand(r, k, -1)
			switch r.Intn(8) {
			case 0:
				b = append([]int(nil), a...) // equal operands
			case 1: // b = ^a : a + b = all ones, one below the overflow boundary
				for j := range b {
					b[j] = 255 - a[j]
				}
			}
			emit(fpCase{G: "bin", A: a, B: b})
		case 8:
			emit(fpCase{G: "un", A: randOperand(r, k, -1)})
		case 9:
			emit(fpCase{G: "u64x", A: randOperand(r, 1, -1), B: randOperand(r, 1, -1), N: r.Intn(65)})
		}
	}
	mulOperands := func(k int) ([]int, []int) {
		w := 64 * k
		switch r.Intn(6) {
		case 0:
			return randOperand(r, k, -1), randOperand(r, k, -1)
		case 1: // both operands just around a limb boundary: cross products meet the top limb
			edges := []int{1, 2, 63, 64, 65, 66, 127, 128, 129, 130, 191, 192, 193, 194, 255, 256}
			pick := func() int {
				for {
					if e := edges[r.Intn(len(edges))]; e <= w {
						return e
					}
				}
			}
			return randOperand(r, k, pick()), randOperand(r, k, pick())
		}
		// bit lengths chosen so that the product straddles the overflow boundary 2^w
		la := r.Intn(w + 1)
		lb := w - la + r.Intn(5) - 2
		if lb < 0 {
			lb = 0
		}
		if lb > w {
			lb = w
		}
		return randOperand(r, k, la), randOperand(r, k, lb)
	}
	for i := 0; i < nMul; i++ {
		k := []int{1, 2}[r.Intn(2)]
		if i < nMulBig {
			k = 4
		}
		a, b := mulOperands(k)
		emit(fpCase{G: "mul", A: a, B: b})
	}
	// 256-bit products whose partial rows carry through a zero limb of one operand into a limb already close to
	// 2^64 (a carry chain two limbs long), both orders
	{
		hi := ^uint64(0)
		for _, a1 := range []uint64{hi, hi - 1} {
			for _, a0 := range []uint64{1, 1 << 32, 1 << 63, hi} {
				for _, b0 := range []uint64{hi, hi - 1, 1 << 63} {
					for _, b2 := range []uint64{1, 2, hi} {
						a := bytesOf20([]uint64{a0, a1, 0, 0})
						b := bytesOf20([]uint64{b0, 0, b2, 0})
						emit(fpCase{G: "mul", A: a, B: b})
						emit(fpCase{G: "mul", A: b, B: a})
					}
				}
			}
		}
	}
	for i := 0; i < nDiv; i++ {
		k := 2
		if i < nDivBig {
			k = 4
		}
		w := 64 * k
		a := randOperand(r, k, -1)
		var b []int
		switch r.Intn(5) {
		case 0:
			b = randOperand(r, k, -1)
		case 1: // divisor of about the same size as the dividend
			bl := bitLen(a) - r.Intn(4)
			if bl < 1 {
				bl = 1
			}
			b = randOperand(r, k, bl)
		default:
			b = randOperand(r, k, 1+r.Intn(w))
		}
		if !nonZero(b) {
			b[0] = 1
		}
		emit(fpCase{G: "div", A: a, B: b})
	}
}

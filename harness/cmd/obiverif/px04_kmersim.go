package main

// X04 (extension), part (b): the k-mer counts of obikmersimcount / obikmermatch (spec/L3_command/KmerSim.tla).
//
// replay   every case exported by KmerSimMC.tla (references, query, k, sparse, --max-kmers, whether the query IS
//          one of the references): NewKmerMap[Uint64|Uint128] + Query on the real code, twice - the reference objects
//          laid out with addresses growing with their index, then decreasing (the loop of Query sorts by address) -;
//          the answer (count per reference) must be the value the specification gives; then FilterMinCount / Len /
//          Max / MakeCountMatchWorker for every --min-shared-kmers 0..4.  The specification exports the answer under
//          every combination of the three listed deviations, fewest first: an observation explained by "spec" is
//          right, by another combination it is reported as X04.known_departure (one line per deviation involved), by
//          none it is a violation.
// record   seeded random reference sets and queries far beyond the model (k up to 31 / 63, 40-200 bases, copies,
//          reverse complements, chimeras, low complexity, ambiguity codes, the references themselves), the queries
//          going through MakeIWorker with 1-8 workers sharing the index; one event per reference set, judged by
//          KmerSimTrace.tla.  With --opt dir=D: files and a manifest for the runs of the real binaries.

import (
	"fmt"
	"math/rand"
	"os"
	"path/filepath"
	"sort"
	"strings"
	"unsafe"

	"git.metabarcoding.org/obitools/obitools4/obitools4/pkg/obifp"
	"git.metabarcoding.org/obitools/obitools4/obitools4/pkg/obiiter"
	"git.metabarcoding.org/obitools/obitools4/obitools4/pkg/obikmer"
	"git.metabarcoding.org/obitools/obitools4/obitools4/pkg/obiseq"
	"git.metabarcoding.org/obitools/obitools4/obitools4/pkg/obitools/obikmersim"
)

type x04KsVar struct {
	Dv  string `json:"dv"`
	Ans []int  `json:"ans"`
	Nm  []int  `json:"nm"` // number of matches left by --min-shared-kmers 0..4
	Mx  []int  `json:"mx"` // references (1-based) with the largest count
}

type x04KsCase struct {
	Kind string     `json:"kind"`
	Cls  string     `json:"cls"`
	Refs []string   `json:"refs"`
	Q    string     `json:"q"`
	K    int        `json:"k"`
	Sp   int        `json:"sp"`
	Mo   int        `json:"mo"`
	Self int        `json:"self"`
	Va   []x04KsVar `json:"va"`
	Vd   []x04KsVar `json:"vd"`
}

// x04Layout returns n sequence objects whose addresses grow (asc) or decrease with the index.
func x04Layout(n int, asc bool) []*obiseq.BioSequence {
	objs := make([]*obiseq.BioSequence, n)
	for i := range objs {
		objs[i] = obiseq.NewBioSequence("", nil, "")
	}
	sort.Slice(objs, func(i, j int) bool {
		return uintptr(unsafe.Pointer(objs[i])) < uintptr(unsafe.Pointer(objs[j]))
	})
	if !asc {
		for i, j := 0, n-1; i < j; i, j = i+1, j-1 {
			objs[i], objs[j] = objs[j], objs[i]
		}
	}
	return objs
}

func x04Refs(seqs []string, asc bool) obiseq.BioSequenceSlice {
	objs := x04Layout(len(seqs), asc)
	for i, s := range seqs {
		objs[i].SetId(fmt.Sprintf("r%d", i+1))
		objs[i].SetSequence([]byte(s))
	}
	return obiseq.BioSequenceSlice(objs)
}

// x04Rank: position (1..n) of every object in the order of the addresses.
func x04Rank(refs obiseq.BioSequenceSlice) []int {
	idx := make([]int, len(refs))
	for i := range idx {
		idx[i] = i
	}
	sort.Slice(idx, func(a, b int) bool {
		return uintptr(unsafe.Pointer(refs[idx[a]])) < uintptr(unsafe.Pointer(refs[idx[b]]))
	})
	rank := make([]int, len(refs))
	for pos, i := range idx {
		rank[i] = pos + 1
	}
	return rank
}

type x04KsObs struct {
	Pan    int    `json:"pan"`
	Panmsg string `json:"panmsg"`
	Ans    []int  `json:"ans"`
	Stray  int    `json:"stray"` // keys of the answer that are not references of the index
}

func x04Answer(m obikmer.KmerMatch, refs obiseq.BioSequenceSlice) ([]int, int) {
	ans := make([]int, len(refs))
	seen := 0
	for i, r := range refs {
		if c, ok := m[r]; ok {
			ans[i] = c
			seen++
		}
	}
	return ans, len(m) - seen
}

func x04Query[T obifp.FPUint[T]](km *obikmer.KmerMap[T], q *obiseq.BioSequence, refs obiseq.BioSequenceSlice) (obs x04KsObs) {
	obs.Ans = []int{}
	defer func() {
		if r := recover(); r != nil {
			obs.Pan = 1
			obs.Panmsg = fmt.Sprint(r)
		}
	}()
	m := km.Query(q)
	obs.Ans, obs.Stray = x04Answer(m, refs)
	return obs
}

func x04EqInts(a, b []int) bool {
	if len(a) != len(b) {
		return false
	}
	for i := range a {
		if a[i] != b[i] {
			return false
		}
	}
	return true
}

func (c *x04KsCase) call(bits int, asc bool) string {
	lay := "addresses growing with the index"
	if !asc {
		lay = "addresses decreasing with the index"
	}
	q := fmt.Sprintf("Query(%q)", c.Q)
	if c.Self > 0 {
		q = fmt.Sprintf("Query(reference %d itself)", c.Self)
	}
	return fmt.Sprintf("NewKmerMap[Uint%d](references=%q, k=%d, sparse=%v, maxoccurs=%d).%s [%s]", bits, c.Refs, c.K, c.Sp == 1, c.Mo, q, lay)
}

func x04ReplayKsOn[T obifp.FPUint[T]](env *Env, kn *x04Known, c *x04KsCase, bits int, asc bool) {
	vars := c.Va
	if !asc {
		vars = c.Vd
	}
	refs := x04Refs(c.Refs, asc)
	var q *obiseq.BioSequence
	if c.Self > 0 {
		q = refs[c.Self-1]
	} else {
		q = obiseq.NewBioSequence("q", []byte(c.Q), "")
	}
	var km *obikmer.KmerMap[T]
	func() {
		defer func() {
			if r := recover(); r != nil {
				env.fail("X04.kmer.panic", c.Cls, fmt.Sprintf("%s: NewKmerMap panics: %v", c.call(bits, asc), r), c)
				km = nil
			}
		}()
		km = obikmer.NewKmerMap[T](refs, uint(c.K), c.Sp == 1, c.Mo)
	}()
	if km == nil {
		return
	}
	obs := x04Query(km, q, refs)
	if obs.Pan == 1 {
		env.fail("X04.kmer.panic", c.Cls, fmt.Sprintf("%s panics: %s", c.call(bits, asc), obs.Panmsg), c)
		return
	}
	if obs.Stray != 0 {
		env.fail("X04.kmer.count", c.Cls, fmt.Sprintf("%s: %d keys of the answer are not references of the index", c.call(bits, asc), obs.Stray), c)
		return
	}
	var hit *x04KsVar
	for i := range vars {
		if x04EqInts(vars[i].Ans, obs.Ans) {
			hit = &vars[i]
			break
		}
	}
	if hit == nil {
		env.fail("X04.kmer.count", c.Cls, fmt.Sprintf("%s answers the counts %v (0 = not in the answer); expected %v (number of pairs of windows holding the same canonical k-mer; the listed deviations would give %s)",
			c.call(bits, asc), obs.Ans, vars[0].Ans, x04ShowVars(vars[1:])), c)
		return
	}
	// the rest of the API on that answer: the filter for every threshold, Len, Max, the worker of obikmersimcount
	for mc := 0; mc <= 4; mc++ {
		m := km.Query(q)
		m.FilterMinCount(mc)
		if m.Len() != hit.Nm[mc] {
			env.fail("X04.kmer.filter_min_count", c.Cls, fmt.Sprintf("%s answers %v; after FilterMinCount(%d) %d references are left, expected %d", c.call(bits, asc), obs.Ans, mc, m.Len(), hit.Nm[mc]), c)
			return
		}
		after, _ := x04Answer(m, refs)
		for i, v := range after {
			if v != 0 && (v != obs.Ans[i] || v < mc) || v == 0 && obs.Ans[i] >= mc && obs.Ans[i] > 0 {
				env.fail("X04.kmer.filter_min_count", c.Cls, fmt.Sprintf("%s answers %v; after FilterMinCount(%d): %v", c.call(bits, asc), obs.Ans, mc, after), c)
				return
			}
		}
		keys := m.Sequences()
		okkeys := len(keys) == m.Len()
		for _, s := range keys {
			found := false
			for i, r := range refs {
				if r == s && after[i] != 0 {
					found = true
				}
			}
			okkeys = okkeys && found
		}
		if !okkeys {
			env.fail("X04.kmer.sequences", c.Cls, fmt.Sprintf("%s answers %v; after FilterMinCount(%d) Sequences() returns %d objects that are not exactly the %d references of the answer", c.call(bits, asc), obs.Ans, mc, len(keys), m.Len()), c)
			return
		}
		if mx := m.Max(); mx == nil {
			if m.Len() != 0 {
				env.fail("X04.kmer.max", c.Cls, fmt.Sprintf("%s answers %v; Max() after FilterMinCount(%d) is nil", c.call(bits, asc), obs.Ans, mc), c)
				return
			}
		} else {
			okmax := false
			for i, r := range refs {
				if r == mx {
					best := 0
					for _, v := range after {
						if v > best {
							best = v
						}
					}
					okmax = after[i] == best && best > 0
				}
			}
			if !okmax {
				env.fail("X04.kmer.max", c.Cls, fmt.Sprintf("%s answers %v; Max() after FilterMinCount(%d) is %s, not a reference with the largest count", c.call(bits, asc), obs.Ans, mc, mx.Id()), c)
				return
			}
		}
		w := obikmersim.MakeCountMatchWorker(km, mc)
		var wq *obiseq.BioSequence
		if c.Self > 0 {
			wq = q
		} else {
			wq = obiseq.NewBioSequence("q", []byte(c.Q), "")
		}
		out, err := w(wq)
		n, okn := 0, false
		ks, oks := 0, false
		spk, oksp := false, false
		if err == nil && len(out) == 1 {
			if v, ok := out[0].GetAttribute("obikmer_match_count"); ok {
				n, okn = x04AsInt(v)
			}
			if v, ok := out[0].GetAttribute("obikmer_kmer_size"); ok {
				switch x := v.(type) {
				case uint:
					ks, oks = int(x), true
				default:
					ks, oks = x04AsInt(v)
				}
			}
			if v, ok := out[0].GetAttribute("obikmer_sparse_kmer"); ok {
				spk, oksp = v.(bool)
			}
		}
		if !okn || n != hit.Nm[mc] || !oks || ks != c.K || !oksp || spk != (c.Sp == 1) {
			env.fail("X04.kmer.worker_annotations", c.Cls, fmt.Sprintf("%s answers %v; MakeCountMatchWorker(min=%d) returns %d records, obikmer_match_count=%d obikmer_kmer_size=%d obikmer_sparse_kmer=%v; expected one record, %d, %d, %v",
				c.call(bits, asc), obs.Ans, mc, len(out), n, ks, spk, hit.Nm[mc], c.K, c.Sp == 1), c)
			return
		}
		if c.Self > 0 { // the worker must not leave the annotations of one threshold for the next one to trip on
			for _, k := range []string{"obikmer_match_count", "obikmer_kmer_size", "obikmer_sparse_kmer"} {
				delete(q.Annotations(), k)
			}
		}
	}
	lay := "/asc"
	if !asc {
		lay = "/desc"
	}
	if hit.Dv == "spec" {
		env.ok(c.Cls)
		env.ok(fmt.Sprintf("bits=%d%s", bits, lay))
		env.sample(map[string]any{"call": c.call(bits, asc), "counts": obs.Ans})
		return
	}
	for _, d := range strings.Split(strings.TrimPrefix(hit.Dv, "+"), "+") {
		kn.hit("kmer/"+d, fmt.Sprintf("%s answers the counts %v; expected %v", c.call(bits, asc), obs.Ans, vars[0].Ans), c)
	}
	env.ok("explained/" + c.Cls)
	env.ok(fmt.Sprintf("bits=%d%s", bits, lay))
}

func x04ShowVars(vs []x04KsVar) string {
	out := []string{}
	for _, v := range vs {
		out = append(out, fmt.Sprintf("%s: %v", v.Dv, v.Ans))
	}
	if len(out) == 0 {
		return "the same"
	}
	return strings.Join(out, "; ")
}

func x04ReplayKs(env *Env, kn *x04Known, c *x04KsCase) {
	for _, asc := range []bool{true, false} {
		if !asc && c.Self == 0 && len(c.Refs) == 1 {
			continue
		}
		x04ReplayKsOn[obifp.Uint64](env, kn, c, 64, asc)
		x04ReplayKsOn[obifp.Uint128](env, kn, c, 128, asc)
	}
}

// ------------------------------------------------------------------------------------- record

func x04RevComp(s string) string {
	comp := map[byte]byte{'a': 't', 'c': 'g', 'g': 'c', 't': 'a', 'n': 'n', 'r': 'y', 'y': 'r', 'k': 'm', 'm': 'k', 's': 's', 'w': 'w',
		'b': 'v', 'v': 'b', 'd': 'h', 'h': 'd'}
	b := make([]byte, len(s))
	for i := range b {
		c, ok := comp[s[len(s)-1-i]]
		if !ok {
			c = s[len(s)-1-i]
		}
		b[i] = c
	}
	return string(b)
}

func x04Mutate(rng *rand.Rand, s string, n int) string {
	b := []byte(s)
	for ; n > 0 && len(b) > 0; n-- {
		p := rng.Intn(len(b))
		switch rng.Intn(3) {
		case 0:
			b[p] = "acgt"[rng.Intn(4)]
		case 1:
			b = append(b[:p], b[p+1:]...)
		default:
			b = append(b[:p], append([]byte{"acgt"[rng.Intn(4)]}, b[p:]...)...)
		}
	}
	return string(b)
}

type x04KsQuery struct {
	Sc   string `json:"sc"`
	Id   string `json:"id"`
	S    string `json:"s"`
	Self int    `json:"self"` // 1-based index of the reference the query IS (same object), 0 otherwise
}

type x04KsScenario struct {
	Sc      string       `json:"sc"`
	Refs    []string     `json:"refs"`
	K       int          `json:"k"` // as asked (NewKmerMap adjusts the parity)
	Sp      int          `json:"sp"`
	Mo      int          `json:"mo"`
	Minc    int          `json:"minc"`
	W       int          `json:"w"`
	Bits    int          `json:"bits"`
	Queries []x04KsQuery `json:"queries"`
}

// x04KsGen draws one reference set and its queries.
func x04KsGen(rng *rand.Rand, i, maxlen int, files bool) x04KsScenario {
	sc := x04KsScenario{Mo: -1, Minc: 1, W: 1 + rng.Intn(8), Bits: 128}
	fam := []string{"family", "family", "random", "repeats", "lowcomplexity", "iupac", "short", "family"}[i%8]
	sc.Sc = fam
	ks := []int{4, 6, 8, 10, 12, 16, 20, 24, 30, 31, 5, 7, 9, 15, 21, 29}
	sc.K = ks[rng.Intn(len(ks))]
	sc.Sp = rng.Intn(2)
	if !files {
		switch rng.Intn(6) {
		case 0:
			sc.K = []int{32, 40, 48, 62, 63}[rng.Intn(5)]
		case 1:
			sc.Bits = 64
		}
	}
	if rng.Intn(3) == 0 {
		sc.Mo = []int{0, 1, 2, 3, 5, 8}[rng.Intn(6)]
	}
	sc.Minc = []int{1, 1, 0, 2, 3, 5, 10, 25}[rng.Intn(8)]
	nref := 3 + rng.Intn(7)
	base := x04RandSeq(rng, 40+rng.Intn(maxlen), "acgt")
	for j := 0; j < nref; j++ {
		var s string
		switch fam {
		case "family": // variants of one sequence: they share many k-mers
			s = x04Mutate(rng, base, rng.Intn(8))
			if rng.Intn(4) == 0 {
				s = x04RevComp(s)
			}
		case "random":
			s = x04RandSeq(rng, 40+rng.Intn(maxlen), "acgt")
		case "repeats": // repeated k-mers inside one sequence: multiplicities above one
			u := x04RandSeq(rng, 3+rng.Intn(12), "acgt")
			s = x04RandSeq(rng, rng.Intn(30), "acgt") + strings.Repeat(u, 2+rng.Intn(6)) + x04RandSeq(rng, rng.Intn(30), "acgt")
			if rng.Intn(2) == 0 {
				s += x04RevComp(u) + u
			}
		case "lowcomplexity":
			s = x04RandSeq(rng, 30+rng.Intn(60), []string{"a", "at", "ac", "acg"}[rng.Intn(4)])
		case "iupac":
			b := []byte(x04Mutate(rng, base, rng.Intn(5)))
			for n := rng.Intn(4); n > 0; n-- {
				b[rng.Intn(len(b))] = "nrywsk"[rng.Intn(6)]
			}
			s = string(b)
		case "short": // around k
			s = x04RandSeq(rng, sc.K-2+rng.Intn(6), "acgt")
			if len(s) == 0 {
				s = "a"
			}
		}
		sc.Refs = append(sc.Refs, s)
	}
	if fam == "family" && rng.Intn(2) == 0 { // the same sequence twice in the references
		sc.Refs = append(sc.Refs, sc.Refs[0])
	}
	nq := 8 + rng.Intn(6)
	for j := 0; j < nq; j++ {
		r := rng.Intn(len(sc.Refs))
		q := x04KsQuery{Id: fmt.Sprintf("q%d", j+1)}
		switch j % 12 {
		case 9: // exact prefix / suffix of a reference
			n := len(sc.Refs[r]) - rng.Intn(len(sc.Refs[r])/3+1)
			if rng.Intn(2) == 0 {
				q.Sc, q.S = "prefix", sc.Refs[r][:n]
			} else {
				q.Sc, q.S = "suffix", sc.Refs[r][len(sc.Refs[r])-n:]
			}
		case 10: // a reference with a flank on one side
			if rng.Intn(2) == 0 {
				q.Sc, q.S = "reference_plus_flank", x04RandSeq(rng, 5+rng.Intn(30), "acgt")+sc.Refs[r]
			} else {
				q.Sc, q.S = "reference_plus_flank", sc.Refs[r]+x04RandSeq(rng, 5+rng.Intn(30), "acgt")
			}
		case 11: // reverse complement of a prefix / suffix
			n := len(sc.Refs[r]) - rng.Intn(len(sc.Refs[r])/3+1)
			q.Sc, q.S = "prefix_reverse_complement", x04RevComp(sc.Refs[r][:n])
		case 0:
			q.Sc, q.S, q.Self = "reference_itself", sc.Refs[r], r+1
		case 1:
			q.Sc, q.S = "copy", sc.Refs[r]
		case 2:
			q.Sc, q.S = "reverse_complement", x04RevComp(sc.Refs[r])
		case 3:
			q.Sc, q.S = "mutated", x04Mutate(rng, sc.Refs[r], 1+rng.Intn(4))
		case 4:
			a := rng.Intn(len(sc.Refs[r]))
			q.Sc, q.S = "fragment", sc.Refs[r][a:a+rng.Intn(len(sc.Refs[r])-a)+1]
		case 5:
			o := sc.Refs[rng.Intn(len(sc.Refs))]
			q.Sc, q.S = "chimera", sc.Refs[r][:len(sc.Refs[r])/2]+x04RevComp(o[len(o)/2:])
		case 6:
			q.Sc, q.S = "absent", x04RandSeq(rng, 30+rng.Intn(maxlen), "acgt")
		case 7:
			q.Sc, q.S, q.Self = "reference_itself", sc.Refs[r], r+1
		default:
			b := []byte(sc.Refs[r])
			b[rng.Intn(len(b))] = 'n'
			q.Sc, q.S = "ambiguous", string(b)
		}
		sc.Queries = append(sc.Queries, q)
	}
	return sc
}

type x04KsQObs struct {
	x04KsQuery
	Ans    []int  `json:"ans"`   // Query: count per reference, 0 = absent
	Rans   []int  `json:"rans"`  // Query of the reverse complement
	Nm     int    `json:"nm"`    // obikmer_match_count written by the worker running in the pipeline
	Ksize  int    `json:"ksize"` // obikmer_kmer_size
	Spk    int    `json:"spk"`   // obikmer_sparse_kmer
	Seen   int    `json:"seen"`  // records of that identifier that came out of the pipeline
	Pan    int    `json:"pan"`
	Panmsg string `json:"panmsg"`
}

func x04RunKs[T obifp.FPUint[T]](sc *x04KsScenario) map[string]any {
	ev := map[string]any{"kind": "ks", "origin": "lib", "sc": sc.Sc, "refs": sc.Refs, "k": sc.K, "sp": sc.Sp, "mo": sc.Mo, "minc": sc.Minc,
		"w": sc.W, "bits": sc.Bits, "pan": 0, "panmsg": "", "rank": []int{}, "queries": []x04KsQObs{}, "selfmode": 0}
	refs := make(obiseq.BioSequenceSlice, len(sc.Refs))
	for i, s := range sc.Refs {
		refs[i] = obiseq.NewBioSequence(fmt.Sprintf("r%d", i+1), []byte(s), "")
	}
	ev["rank"] = x04Rank(refs)
	var km *obikmer.KmerMap[T]
	func() {
		defer func() {
			if r := recover(); r != nil {
				ev["pan"], ev["panmsg"] = 1, fmt.Sprint(r)
			}
		}()
		km = obikmer.NewKmerMap[T](refs, uint(sc.K), sc.Sp == 1, sc.Mo)
	}()
	if km == nil {
		return ev
	}
	qobs := make([]x04KsQObs, len(sc.Queries))
	qseqs := make(obiseq.BioSequenceSlice, len(sc.Queries))
	used := map[int]bool{}
	for j, q := range sc.Queries {
		qobs[j].x04KsQuery = q
		if q.Self > 0 && !used[q.Self] {
			qseqs[j] = refs[q.Self-1] // the object of the index itself, as obikmersimcount --self does
			qobs[j].Id = refs[q.Self-1].Id()
			used[q.Self] = true
		} else {
			qobs[j].Self = 0
			qseqs[j] = obiseq.NewBioSequence(q.Id, []byte(q.S), "")
		}
		o := x04Query(km, qseqs[j], refs)
		qobs[j].Ans, qobs[j].Pan, qobs[j].Panmsg = o.Ans, o.Pan, o.Panmsg
		if qobs[j].Self == 0 {
			o2 := x04Query(km, obiseq.NewBioSequence(q.Id, []byte(x04RevComp(q.S)), ""), refs)
			qobs[j].Rans = o2.Ans
			if o2.Pan == 1 {
				qobs[j].Pan, qobs[j].Panmsg = 1, o2.Panmsg
			}
		} else {
			qobs[j].Rans = o.Ans
		}
	}
	// the queries through the pipeline of the command: W workers share the index
	worker := obikmersim.MakeCountMatchWorker(km, sc.Minc)
	it := obiiter.IBatchOver("x04", qseqs, 2).MakeIWorker(worker, false, sc.W)
	byId := map[string]int{}
	for j := range qobs {
		byId[qobs[j].Id] = j
		qobs[j].Nm, qobs[j].Ksize, qobs[j].Spk = -1, -1, -1
	}
	for it.Next() {
		for _, s := range it.Get().Slice() {
			j, ok := byId[s.Id()]
			if !ok {
				continue
			}
			qobs[j].Seen++
			if v, ok := s.GetAttribute("obikmer_match_count"); ok {
				qobs[j].Nm, _ = x04AsInt(v)
			}
			if v, ok := s.GetAttribute("obikmer_kmer_size"); ok {
				if u, isu := v.(uint); isu {
					qobs[j].Ksize = int(u)
				} else {
					qobs[j].Ksize, _ = x04AsInt(v)
				}
			}
			if v, ok := s.GetAttribute("obikmer_sparse_kmer"); ok {
				if b, isb := v.(bool); isb {
					qobs[j].Spk = 0
					if b {
						qobs[j].Spk = 1
					}
				}
			}
		}
	}
	ev["queries"] = qobs
	return ev
}

func x04RecordKs(env *Env) {
	rng := rand.New(rand.NewSource(env.seed*104729 + 5))
	maxlen := env.optInt("maxlen", 100)
	if rp := env.opt("replay", ""); rp != "" {
		for _, sc := range loadCases[x04KsScenario](rp) {
			sc := sc
			if sc.Bits == 64 {
				env.emit(x04RunKs[obifp.Uint64](&sc))
			} else {
				env.emit(x04RunKs[obifp.Uint128](&sc))
			}
		}
		return
	}
	if dir := env.opt("dir", ""); dir != "" {
		x04WriteKsFiles(env, rng, dir, maxlen)
		return
	}
	scs := make([]x04KsScenario, env.n)
	for i := range scs {
		scs[i] = x04KsGen(rng, i, maxlen, false)
		if scs[i].Bits == 64 && scs[i].K > 32 {
			scs[i].Bits = 128
		}
	}
	evs := make([]map[string]any, len(scs))
	parallel(len(scs), 4, func(i int) {
		if scs[i].Bits == 64 {
			evs[i] = x04RunKs[obifp.Uint64](&scs[i])
		} else {
			evs[i] = x04RunKs[obifp.Uint128](&scs[i])
		}
	})
	for _, e := range evs {
		env.emit(e)
	}
}

// x04WriteKsFiles: per scenario a reference file and a query file (FASTA), and the manifest on env.out.
func x04WriteKsFiles(env *Env, rng *rand.Rand, dir string, maxlen int) {
	os.MkdirAll(dir, 0o755)
	for f := 0; f < env.n; f++ {
		sc := x04KsGen(rng, f, maxlen, true)
		if sc.K > 62 {
			sc.K = 30
		}
		var rb, qb strings.Builder
		for i, s := range sc.Refs {
			fmt.Fprintf(&rb, ">r%d\n%s\n", i+1, s)
		}
		for j := range sc.Queries {
			sc.Queries[j].Self = 0
			fmt.Fprintf(&qb, ">%s\n%s\n", sc.Queries[j].Id, sc.Queries[j].S)
		}
		rp := filepath.Join(dir, fmt.Sprintf("ks%03d_refs.fasta", f))
		qp := filepath.Join(dir, fmt.Sprintf("ks%03d_queries.fasta", f))
		if err := os.WriteFile(rp, []byte(rb.String()), 0o644); err != nil {
			fmt.Fprintln(os.Stderr, err)
			os.Exit(2)
		}
		if err := os.WriteFile(qp, []byte(qb.String()), 0o644); err != nil {
			fmt.Fprintln(os.Stderr, err)
			os.Exit(2)
		}
		env.emit(map[string]any{"refs_file": rp, "queries_file": qp, "scenario": sc})
	}
}

package main

// C16: obigrep / obiannotate / obidistribute act on each record as their options say - LIBRARY level.
//
// The option values of these commands are package globals filled by the real option parser, so one
// command line = one child process:  the parent (replay or record mode) writes a job file, re-executes
// this binary with `record C16 --opt child=<job>` and reads the result.  The child
//   - parses the argv with obioptions.GenerateOptionParser(<tool>.OptionSet), as the command does,
//   - builds the records as obiseq.BioSequence objects (no file parser involved),
//   - grep : CLISequenceSelectionPredicate() on every record, then CLIFilterSequence(IBatchOver(...))
//   - annot: CLIAnnotationPipeline() applied to IBatchOver(...)
//   - dist : CLIDistributeSequence(IBatchOver(...)) in a scratch directory, files read back
//   and reports what came out (simple decoding only).
// replay: every case exported by TLC from OptCases.tla is compared with the expected value it carries.
// record: random command lines x random records far outside the curated data set; the events are
//         judged by OptTrace.tla.

import (
	"bytes"
	"encoding/json"
	"fmt"
	"hash/crc32"
	"math/rand"
	"os"
	"os/exec"
	"path/filepath"
	"sort"
	"strconv"
	"strings"
	"time"

	"git.metabarcoding.org/obitools/obitools4/obitools4/pkg/obiformats"
	"git.metabarcoding.org/obitools/obitools4/obitools4/pkg/obiiter"
	"git.metabarcoding.org/obitools/obitools4/obitools4/pkg/obioptions"
	"git.metabarcoding.org/obitools/obitools4/obitools4/pkg/obiseq"
	"git.metabarcoding.org/obitools/obitools4/obitools4/pkg/obitools/obiannotate"
	"git.metabarcoding.org/obitools/obitools4/obitools4/pkg/obitools/obidistribute"
	"git.metabarcoding.org/obitools/obitools4/obitools4/pkg/obitools/obigrep"
)

func init() {
	register("C16", &driver{replay: replayC16, record: recordC16})
}

// ------------------------------------------------------------------------------- vocabulary

type c16Inst struct {
	Fam string `json:"fam"`
	N   int    `json:"n"`
	M   int    `json:"m"`
	Key string `json:"key"`
	Re  string `json:"re"`
}

// attribute map key -> tagged value ("i:5", "s:abc"); TLC prints the empty function as []
type c16Attrs map[string]string

func (a *c16Attrs) UnmarshalJSON(b []byte) error {
	*a = c16Attrs{}
	if bytes.HasPrefix(bytes.TrimSpace(b), []byte("[")) {
		return nil
	}
	m := map[string]string{}
	if err := json.Unmarshal(b, &m); err != nil {
		return err
	}
	*a = m
	return nil
}

func (a c16Attrs) MarshalJSON() ([]byte, error) {
	if a == nil {
		return []byte("{}"), nil
	}
	return json.Marshal(map[string]string(a))
}

type c16Rec struct {
	Id    string   `json:"id"`
	Seq   string   `json:"seq"`
	Qual  string   `json:"qual"`
	Attrs c16Attrs `json:"attrs"`
}

type c16D struct {
	C   string   `json:"c"`
	D   string   `json:"d"`
	Na  string   `json:"na"`
	N   int      `json:"n"`
	H   int      `json:"h"`
	Pat []string `json:"pat"`
}

type c16Case struct {
	Tool  string              `json:"tool"`
	Opts  []c16Inst           `json:"opts"`
	V     int                 `json:"v"`
	Mode  string              `json:"mode"`
	Kept  []string            `json:"kept"`
	Disc  []string            `json:"disc"`
	Keptm []string            `json:"keptm"`
	Discm []string            `json:"discm"`
	Out   []c16Rec            `json:"out"`
	D     c16D                `json:"D"`
	Files map[string][]string `json:"files"`
	Fwd   []c16Rec            `json:"fwd"`
	Rev   []c16Rec            `json:"rev"`
	Lists map[string][]string `json:"lists"`
}

type c16File struct {
	Name  string   `json:"name"`
	Ranks []int    `json:"ranks"`
	Recs  []c16Rec `json:"recs"`
}

type c16Job struct {
	Tool  string   `json:"tool"`
	Argv  []string `json:"argv"`
	Recs  []c16Rec `json:"recs"`
	Mates []c16Rec `json:"mates"`
	Fastq bool     `json:"fastq"`
	Batch int      `json:"batch"`
	Dir   string   `json:"dir"`
}

type c16Result struct {
	Done  bool      `json:"done"`
	Fatal int       `json:"fatal"`
	Msg   string    `json:"msg"`
	Out   []c16Rec  `json:"out"`
	Outm  []c16Rec  `json:"outm"`
	Pred  []int     `json:"pred"`
	Files []c16File `json:"files"`
	Hung  bool      `json:"-"`
}

func c16Tag(v interface{}) string {
	switch x := v.(type) {
	case bool:
		return "b:" + strconv.FormatBool(x)
	case int:
		return "i:" + strconv.Itoa(x)
	case int64:
		return "i:" + strconv.FormatInt(x, 10)
	case float64:
		if x == float64(int64(x)) {
			return "i:" + strconv.FormatInt(int64(x), 10)
		}
		return "f:" + strconv.FormatFloat(x, 'g', -1, 64)
	case string:
		return "s:" + x
	}
	return "o:" + fmt.Sprint(v)
}

func c16Untag(v string) interface{} {
	if strings.HasPrefix(v, "i:") {
		n, _ := strconv.Atoi(v[2:])
		return n
	}
	return v[2:]
}

func c16MkSeq(r c16Rec, fastq bool) *obiseq.BioSequence {
	s := obiseq.NewBioSequence(r.Id, []byte(r.Seq), "")
	if fastq {
		q := make([]byte, len(r.Qual))
		for i := range q {
			q[i] = r.Qual[i] - 33
		}
		s.SetQualities(q)
	}
	for k, v := range r.Attrs {
		s.SetAttribute(k, c16Untag(v))
	}
	return s
}

func c16Snapshot(s *obiseq.BioSequence, fastq bool) c16Rec {
	r := c16Rec{Id: s.Id(), Seq: s.String(), Attrs: c16Attrs{}}
	if fastq {
		if s.HasQualities() {
			q := s.Qualities()
			b := make([]byte, len(q))
			for i := range q {
				b[i] = q[i] + 33
			}
			r.Qual = string(b)
		} else {
			r.Qual = "<no qualities>"
		}
	} else {
		r.Qual = ""
	}
	if s.HasAnnotation() {
		for k, v := range s.Annotations() {
			r.Attrs[k] = c16Tag(v)
		}
	}
	return r
}

// ------------------------------------------------------------------------------------ child

func c16Child(env *Env, jobfile string) {
	var job c16Job
	b, err := os.ReadFile(jobfile)
	if err == nil {
		err = json.Unmarshal(b, &job)
	}
	if err != nil {
		fmt.Fprintln(os.Stderr, "bad job:", err)
		os.Exit(2)
	}
	res := c16Result{Out: []c16Rec{}, Outm: []c16Rec{}, Pred: []int{}, Files: []c16File{}}
	finished := make(chan struct{})
	go func() {
		defer close(finished) // also runs when a captured log.Fatal ends this goroutine
		c16Work(&job, &res)
		res.Done = true
	}()
	if !waitTimeout(finished, 40*time.Second) {
		res.Msg = "timeout inside the child"
	}
	res.Fatal = int(fatalCount())
	if m := fatalMessages(); len(m) > 0 {
		res.Msg = strings.Join(m, " | ")
	}
	env.emit(res)
}

func c16Collect(it obiiter.IBioSequence, fastq bool, mates bool) ([]c16Rec, []c16Rec) {
	out, outm := []c16Rec{}, []c16Rec{}
	it = it.SortBatches()
	for it.Next() {
		b := it.Get()
		for _, s := range b.Slice() {
			out = append(out, c16Snapshot(s, fastq))
			if mates {
				if s.IsPaired() {
					outm = append(outm, c16Snapshot(s.PairedWith(), fastq))
				} else {
					outm = append(outm, c16Rec{Id: "<unpaired>", Attrs: c16Attrs{}})
				}
			}
		}
	}
	return out, outm
}

func c16Work(job *c16Job, res *c16Result) {
	data := make(obiseq.BioSequenceSlice, len(job.Recs))
	for i, r := range job.Recs {
		data[i] = c16MkSeq(r, job.Fastq)
	}
	paired := len(job.Mates) > 0
	if paired {
		mates := make(obiseq.BioSequenceSlice, len(job.Mates))
		for i, r := range job.Mates {
			mates[i] = c16MkSeq(r, job.Fastq)
		}
		data.PairTo(&mates)
	}
	switch job.Tool {
	case "grep":
		obioptions.GenerateOptionParser(obigrep.OptionSet)(job.Argv)
		if !paired {
			p := obigrep.CLISequenceSelectionPredicate()
			for i, s := range data {
				if p == nil || p(s) {
					res.Pred = append(res.Pred, i+1)
				}
			}
		}
		it := obiiter.IBatchOver("c16", data, job.Batch)
		res.Out, res.Outm = c16Collect(obigrep.CLIFilterSequence(it), job.Fastq, paired)
	case "annot":
		obioptions.GenerateOptionParser(obiannotate.OptionSet)(job.Argv)
		it := obiiter.IBatchOver("c16", data, job.Batch)
		res.Out, _ = c16Collect(it.Pipe(obiannotate.CLIAnnotationPipeline()), job.Fastq, false)
	case "dist":
		obioptions.GenerateOptionParser(obidistribute.OptionSet)(job.Argv)
		if err := os.Chdir(job.Dir); err != nil {
			res.Msg = err.Error()
			return
		}
		rank := map[string]int{}
		for i, r := range job.Recs {
			rank[r.Id] = i + 1
		}
		it := obiiter.IBatchOver("c16", data, job.Batch)
		obidistribute.CLIDistributeSequence(it)
		obiiter.WaitForLastPipe()
		filepath.Walk(job.Dir, func(p string, info os.FileInfo, err error) error {
			if err != nil || info.IsDir() {
				return nil
			}
			rel, _ := filepath.Rel(job.Dir, p)
			f := c16File{Name: rel, Ranks: []int{}, Recs: []c16Rec{}}
			if info.Size() > 0 {
				rd, err := obiformats.ReadSequencesFromFile(p)
				if err != nil {
					f.Name = rel + " <unreadable: " + err.Error() + ">"
				} else {
					recs, _ := c16Collect(rd, false, false)
					f.Recs = recs
					for _, r := range recs {
						f.Ranks = append(f.Ranks, rank[r.Id])
					}
				}
			}
			res.Files = append(res.Files, f)
			return nil
		})
	}
}

// ----------------------------------------------------------------------------------- parent

func (e *Env) scratch() string {
	d := os.Getenv("VERIF_SCRATCH")
	if d == "" {
		d = os.TempDir()
	}
	return d
}

var c16JobSeq int64

func runC16Child(env *Env, job *c16Job, n int) c16Result {
	dir := filepath.Join(env.scratch(), fmt.Sprintf("c16-%s-%d-%06d", env.opt("tag", "job"), os.Getpid(), n))
	os.MkdirAll(filepath.Join(dir, "out"), 0o755)
	defer os.RemoveAll(dir)
	job.Dir = filepath.Join(dir, "out")
	// the id-list file, if any, lives next to the job
	for i, a := range job.Argv {
		if strings.HasPrefix(a, "@idlist:") {
			p := filepath.Join(dir, "ids.txt")
			os.WriteFile(p, []byte(strings.ReplaceAll(a[len("@idlist:"):], ",", " \n\t")+c16ListEnd(a)), 0o644) // blanks around the ids
			job.Argv[i] = p
		}
	}
	jb, _ := json.Marshal(job)
	jf := filepath.Join(dir, "job.json")
	os.WriteFile(jf, jb, 0o644)
	rf := filepath.Join(dir, "res.json")
	var res c16Result
	for attempt := 0; attempt < 3; attempt++ {
		cmd := exec.Command(os.Args[0], "record", "C16", "--out", rf, "--opt", "child="+jf)
		cmd.Stdout, cmd.Stderr = nil, nil
		done := make(chan error, 1)
		if err := cmd.Start(); err != nil {
			continue
		}
		go func() { done <- cmd.Wait() }()
		select {
		case <-done:
		case <-time.After(90 * time.Second):
			cmd.Process.Kill()
			<-done
			res = c16Result{Hung: true}
			continue
		}
		b, err := os.ReadFile(rf)
		res = c16Result{}
		if err == nil && json.Unmarshal(bytes.TrimSpace(b), &res) == nil && (res.Done || res.Fatal > 0) {
			return res
		}
		// the child died (e.g. a panic of the real code): try again, a crash that repeats is reported as fatal
		res = c16Result{Fatal: 1, Msg: "child process died: " + string(b)}
	}
	return res
}

var c16Command = map[string]string{"grep": "obigrep", "annot": "obiannotate", "dist": "obidistribute"}

var c16Flags = map[string][]string{"l": {"-l", "--min-length"}, "L": {"-L", "--max-length"}, "c": {"-c", "--min-count"},
	"C": {"-C", "--max-count"}, "s": {"-s", "--sequence"}, "D": {"-D", "--definition"}, "I": {"-I", "--identifier"},
	"a": {"-a", "--attribute"}, "A": {"-A", "--has-attribute"}, "p": {"-p", "--predicate"},
	"keep": {"-k", "--keep"}, "ren": {"-R", "--rename-tag"}, "set": {"-S", "--set-tag"}}

func c16InstArgv(o c16Inst, rng *rand.Rand, ids []string) []string {
	pick := func(f string) string { return c16Flags[f][rng.Intn(len(c16Flags[f]))] }
	switch o.Fam {
	case "l", "L", "c", "C":
		return []string{pick(o.Fam), strconv.Itoa(o.N)}
	case "s", "D", "I", "p":
		return []string{pick(o.Fam), o.Re}
	case "a":
		return []string{pick(o.Fam), o.Key + "=" + o.Re}
	case "A":
		return []string{pick(o.Fam), o.Key}
	case "idlist":
		return []string{"--id-list", "@idlist:" + strings.Join(ids, ",")}
	case "clear":
		return []string{"--clear"}
	case "setid":
		return []string{"--set-identifier", o.Re}
	case "del":
		return []string{"--delete-tag", o.Key}
	case "keep":
		return []string{pick("keep"), o.Key}
	case "ren":
		return []string{pick("ren"), o.Key + "=" + o.Re}
	case "length":
		return []string{"--length"}
	case "set":
		return []string{pick("set"), o.Key + "=" + o.Re}
	case "cut":
		return []string{fmt.Sprintf("--cut=%d:%d", o.N, o.M)}
	}
	return []string{"--unknown-family-" + o.Fam}
}

func c16OptsArgv(opts []c16Inst, rng *rand.Rand, ids []string) []string {
	groups := make([][]string, len(opts))
	for i, o := range opts {
		groups[i] = c16InstArgv(o, rng, ids)
	}
	rng.Shuffle(len(groups), func(i, j int) { groups[i], groups[j] = groups[j], groups[i] })
	out := []string{}
	for _, g := range groups {
		out = append(out, g...)
	}
	return out
}

func c16DistArgv(D c16D) []string {
	a := []string{"-p", D.Pat[0] + "%s" + D.Pat[1]}
	if D.C != "" {
		a = append(a, "-c", D.C)
		if D.D != "" {
			a = append(a, "-d", D.D)
		}
		if D.Na != "NA" {
			a = append(a, "--na-value", D.Na)
		}
	} else if D.N > 0 {
		a = append(a, "-n", strconv.Itoa(D.N))
	} else {
		a = append(a, "-H", strconv.Itoa(D.H))
	}
	return a
}

func c16FamClass(tool string, opts []c16Inst, v int, mode string) string {
	set := map[string]bool{}
	for _, o := range opts {
		set[o.Fam] = true
	}
	fams := []string{}
	for f := range set {
		fams = append(fams, f)
	}
	sort.Strings(fams)
	f := "none"
	if len(fams) > 2 {
		f = "multi"
	} else if len(fams) > 0 {
		f = strings.Join(fams, "+")
	}
	c := tool + "/" + f
	if v != 0 {
		c += "/v"
	}
	if mode != "" && mode != "none" {
		c += "/" + mode
	}
	return c
}

func c16SameRec(a, b c16Rec, fastq bool) bool {
	if a.Id != b.Id || a.Seq != b.Seq || (fastq && a.Qual != b.Qual) || len(a.Attrs) != len(b.Attrs) {
		return false
	}
	for k, v := range a.Attrs {
		if w, ok := b.Attrs[k]; !ok || w != v {
			return false
		}
	}
	return true
}

func c16IdsOf(rs []c16Rec) []string {
	out := make([]string, len(rs))
	for i, r := range rs {
		out[i] = r.Id
	}
	return out
}

func c16Sorted(s []string) []string {
	c := append([]string{}, s...)
	sort.Strings(c)
	return c
}

func c16SameStrings(a, b []string) bool {
	if len(a) != len(b) {
		return false
	}
	for i := range a {
		if a[i] != b[i] {
			return false
		}
	}
	return true
}

func replayC16(env *Env) {
	if jf := env.opt("child", ""); jf != "" {
		c16Child(env, jf)
		return
	}
	cases := loadCases[c16Case](env.cases)
	var data *c16Case
	for i := range cases {
		if cases[i].Tool == "data" {
			data = &cases[i]
		}
	}
	if data == nil {
		fmt.Fprintln(os.Stderr, "no data case in", env.cases)
		os.Exit(2)
	}
	byId := map[string]c16Rec{}
	mate := map[string]string{}
	for i, r := range data.Fwd {
		byId[r.Id] = r
		byId[data.Rev[i].Id] = data.Rev[i]
		mate[r.Id] = data.Rev[i].Id
	}
	parallel(len(cases), 0, func(i int) {
		c := cases[i]
		if c.Tool != "grep" && c.Tool != "annot" && c.Tool != "dist" {
			return
		}
		rng := rand.New(rand.NewSource(env.seed*1000003 + int64(i)))
		fastq := rng.Intn(2) == 1 && c.Tool != "dist"
		batch := []int{1, 3, 5, 100}[rng.Intn(4)]
		cpu := []string{"2", "8"}[rng.Intn(2)]
		job := c16Job{Tool: c.Tool, Recs: data.Fwd, Fastq: fastq, Batch: batch}
		argv := []string{c16Command[c.Tool], "--max-cpu", cpu, "--batch-size", strconv.Itoa(batch)}
		cls := c16FamClass(c.Tool, c.Opts, c.V, c.Mode)
		switch c.Tool {
		case "grep":
			ids := []string{}
			for _, o := range c.Opts {
				if o.Fam == "idlist" {
					ids = data.Lists[o.Re]
				}
			}
			argv = append(argv, c16OptsArgv(c.Opts, rng, ids)...)
			if c.V != 0 {
				argv = append(argv, "-v")
			}
			if c.Mode != "none" {
				argv = append(argv, "--paired-with", "mates", "--paired-mode", c.Mode)
				job.Mates = data.Rev
			}
		case "annot":
			argv = append(argv, c16OptsArgv(c.Opts, rng, nil)...)
		case "dist":
			argv = append(argv, c16DistArgv(c.D)...)
			cls = "dist"
		}
		job.Argv = argv
		res := runC16Child(env, &job, i)
		shown := fmt.Sprintf("%s [library level, batch=%d fastq=%v]", strings.Join(argv, " "), batch, fastq)
		switch {
		case res.Hung:
			env.fail("C16.lib."+c.Tool+".hang", cls, shown+" :: no result within the time limit", c)
			return
		case res.Fatal > 0:
			env.fail("C16.lib."+c.Tool+".fatal", cls, shown+" :: "+res.Msg, c)
			return
		}
		switch c.Tool {
		case "grep":
			if !c16SameStrings(c16Sorted(c16IdsOf(res.Out)), c16Sorted(c.Kept)) {
				env.fail("C16.lib.grep.kept", cls, fmt.Sprintf("%s :: CLIFilterSequence delivers %v ; the options say %v", shown, c16IdsOf(res.Out), c.Kept), c)
				return
			}
			for _, r := range append(append([]c16Rec{}, res.Out...), res.Outm...) {
				if in, ok := byId[r.Id]; ok && !c16SameRec(r, in, fastq) {
					env.fail("C16.lib.grep.record_changed", cls, fmt.Sprintf("%s :: record delivered %v differs from the record given %v", shown, r, in), c)
					return
				}
			}
			if c.Mode != "none" {
				for k, r := range res.Out {
					if res.Outm[k].Id != mate[r.Id] {
						env.fail("C16.lib.grep.pair_rank", cls, fmt.Sprintf("%s :: forward %v mates %v", shown, c16IdsOf(res.Out), c16IdsOf(res.Outm)), c)
						return
					}
				}
			} else {
				pred := []string{}
				for _, k := range res.Pred {
					pred = append(pred, data.Fwd[k-1].Id)
				}
				if !c16SameStrings(c16Sorted(pred), c16Sorted(c.Kept)) {
					env.fail("C16.lib.grep.predicate", cls, fmt.Sprintf("%s :: CLISequenceSelectionPredicate accepts %v ; the options say %v", shown, pred, c.Kept), c)
					return
				}
			}
		case "annot":
			if !c16SameStrings(c16Sorted(c16IdsOf(res.Out)), c16Sorted(c16IdsOf(c.Out))) {
				env.fail("C16.lib.annot.records", cls, fmt.Sprintf("%s :: identifiers delivered %v ; the options say %v", shown, c16IdsOf(res.Out), c16IdsOf(c.Out)), c)
				return
			}
			exp := map[string]c16Rec{}
			for _, r := range c.Out {
				exp[r.Id] = r
			}
			for _, r := range res.Out {
				if e := exp[r.Id]; !c16SameRec(r, e, fastq) {
					what := "attributes"
					if r.Seq != e.Seq || (fastq && r.Qual != e.Qual) {
						what = "sequence"
					}
					env.fail("C16.lib.annot."+what, cls, fmt.Sprintf("%s :: record delivered %v ; the options say %v", shown, r, e), c)
					return
				}
			}
		case "dist":
			got := map[string][]string{}
			for _, f := range res.Files {
				got[f.Name] = c16Sorted(c16IdsOf(f.Recs))
				for _, r := range f.Recs {
					if in, ok := byId[r.Id]; ok && !c16SameRec(r, in, false) {
						env.fail("C16.lib.dist.record_changed", cls, fmt.Sprintf("%s :: record written %v differs from the record given %v", shown, r, in), c)
						return
					}
				}
			}
			same := len(got) == len(c.Files)
			for n, ids := range c.Files {
				if g, ok := got[n]; !ok || !c16SameStrings(g, c16Sorted(ids)) {
					same = false
				}
			}
			if !same {
				env.fail("C16.lib.dist.files", cls, fmt.Sprintf("%s :: file set %v ; the options say %v", shown, got, c.Files), c)
				return
			}
		}
		env.ok("lib/" + c.Tool + map[bool]string{true: "/paired", false: ""}[c.Tool == "grep" && c.Mode != "none"])
		if i%500 == 7 {
			env.sample(map[string]any{"argv": argv, "level": "library", "delivered": c16IdsOf(res.Out)})
		}
	})
}

// ------------------------------------------------------------------- binary level (record mode)

// c16Render writes records as FASTA/FASTQ with a JSON header (simple encoding of the input).
func c16Render(recs []c16Rec, fastq bool) []byte {
	var b bytes.Buffer
	for _, r := range recs {
		if fastq {
			b.WriteString("@")
		} else {
			b.WriteString(">")
		}
		b.WriteString(r.Id)
		if len(r.Attrs) > 0 {
			m := map[string]interface{}{}
			for k, v := range r.Attrs {
				m[k] = c16Untag(v)
			}
			j, _ := json.Marshal(m)
			b.WriteString(" ")
			b.Write(j)
		}
		b.WriteString("\n" + r.Seq + "\n")
		if fastq {
			b.WriteString("+\n" + r.Qual + "\n")
		}
	}
	return b.Bytes()
}

func c16ParseHeader(h string) (string, c16Attrs, error) {
	id, rest := h, ""
	if k := strings.IndexAny(h, " \t"); k >= 0 {
		id, rest = h[:k], strings.TrimSpace(h[k+1:])
	}
	attrs := c16Attrs{}
	if strings.HasPrefix(rest, "{") {
		dec := json.NewDecoder(strings.NewReader(rest))
		dec.UseNumber()
		var m map[string]interface{}
		if err := dec.Decode(&m); err != nil {
			return id, attrs, err
		}
		for k, v := range m {
			if n, ok := v.(json.Number); ok {
				if i, err := n.Int64(); err == nil {
					attrs[k] = c16Tag(i)
				} else {
					f, _ := n.Float64()
					attrs[k] = c16Tag(f)
				}
			} else {
				attrs[k] = c16Tag(v)
			}
		}
		rest = strings.TrimSpace(rest[dec.InputOffset():])
	}
	if rest != "" {
		attrs["definition"] = "s:" + rest
	}
	return id, attrs, nil
}

// c16ParseSeqFile decodes FASTA or FASTQ text written by the commands.
func c16ParseSeqFile(text string) ([]c16Rec, error) {
	out := []c16Rec{}
	lines := strings.Split(text, "\n")
	for i := 0; i < len(lines); {
		l := lines[i]
		switch {
		case strings.HasPrefix(l, ">"):
			id, attrs, err := c16ParseHeader(l[1:])
			if err != nil {
				return out, err
			}
			i++
			var sb strings.Builder
			for i < len(lines) && !strings.HasPrefix(lines[i], ">") {
				sb.WriteString(strings.TrimSpace(lines[i]))
				i++
			}
			out = append(out, c16Rec{Id: id, Seq: sb.String(), Attrs: attrs})
		case strings.HasPrefix(l, "@"):
			if i+3 >= len(lines) {
				return out, fmt.Errorf("truncated fastq record")
			}
			id, attrs, err := c16ParseHeader(l[1:])
			if err != nil {
				return out, err
			}
			out = append(out, c16Rec{Id: id, Seq: strings.TrimSpace(lines[i+1]), Qual: strings.TrimSpace(lines[i+3]), Attrs: attrs})
			i += 4
		case strings.TrimSpace(l) == "":
			i++
		default:
			return out, fmt.Errorf("unparsable line %q", l)
		}
	}
	return out, nil
}

func c16ReadSeqFile(p string) []c16Rec {
	b, err := os.ReadFile(p)
	if err != nil {
		return []c16Rec{}
	}
	r, err := c16ParseSeqFile(string(b))
	if err != nil {
		return []c16Rec{{Id: "<unreadable: " + err.Error() + ">", Attrs: c16Attrs{}}}
	}
	return r
}

// runC16Binary runs the real command of bindir on files holding the records of the job.
func runC16Binary(env *Env, bindir string, job *c16Job, n int) c16Result {
	dir := filepath.Join(env.scratch(), fmt.Sprintf("c16-bin-%d-%06d", os.Getpid(), n))
	os.MkdirAll(filepath.Join(dir, "out"), 0o755)
	defer os.RemoveAll(dir)
	ext := map[bool]string{true: ".fastq", false: ".fasta"}[job.Fastq]
	in := filepath.Join(dir, "in"+ext)
	os.WriteFile(in, c16Render(job.Recs, job.Fastq), 0o644)
	argv := []string{}
	for i := 1; i < len(job.Argv); i++ {
		a := job.Argv[i]
		switch {
		case strings.HasPrefix(a, "@idlist:"):
			p := filepath.Join(dir, "ids.txt")
			os.WriteFile(p, []byte(strings.ReplaceAll(a[len("@idlist:"):], ",", " \n\t")+c16ListEnd(a)), 0o644)
			a = p
		case a == "mates" && i > 0 && job.Argv[i-1] == "--paired-with":
			a = filepath.Join(dir, "mates"+ext)
			os.WriteFile(a, c16Render(job.Mates, job.Fastq), 0o644)
		}
		argv = append(argv, a)
	}
	paired := len(job.Mates) > 0
	if paired {
		argv = append(argv, "-o", "kept"+ext)
	}
	argv = append(argv, in)
	res := c16Result{Out: []c16Rec{}, Outm: []c16Rec{}, Pred: []int{}, Files: []c16File{}}
	for attempt := 0; attempt < 3; attempt++ {
		os.RemoveAll(filepath.Join(dir, "out"))
		os.MkdirAll(filepath.Join(dir, "out"), 0o755)
		cmd := exec.Command(filepath.Join(bindir, job.Argv[0]), argv...)
		cmd.Dir = filepath.Join(dir, "out")
		var stdout, stderr bytes.Buffer
		cmd.Stdout, cmd.Stderr = &stdout, &stderr
		done := make(chan error, 1)
		if err := cmd.Start(); err != nil {
			res.Fatal, res.Msg = 1, err.Error()
			continue
		}
		go func() { done <- cmd.Wait() }()
		var err error
		select {
		case err = <-done:
		case <-time.After(90 * time.Second):
			cmd.Process.Kill()
			<-done
			res.Hung = true
			continue
		}
		res.Hung = false
		if err != nil { // a crash that repeats three times is reported
			tail := stderr.String()
			if len(tail) > 300 {
				tail = tail[len(tail)-300:]
			}
			res.Fatal, res.Msg = 1, "exit: "+err.Error()+" "+tail
			continue
		}
		res.Fatal, res.Msg, res.Done = 0, "", true
		switch job.Tool {
		case "grep":
			if paired {
				res.Out = c16ReadSeqFile(filepath.Join(cmd.Dir, "kept_R1"+ext))
				res.Outm = c16ReadSeqFile(filepath.Join(cmd.Dir, "kept_R2"+ext))
			} else {
				res.Out, err = c16ParseSeqFile(stdout.String())
			}
		case "annot":
			res.Out, err = c16ParseSeqFile(stdout.String())
		case "dist":
			rank := map[string]int{}
			for i, r := range job.Recs {
				rank[r.Id] = i + 1
			}
			filepath.Walk(cmd.Dir, func(p string, info os.FileInfo, e error) error {
				if e != nil || info.IsDir() {
					return nil
				}
				rel, _ := filepath.Rel(cmd.Dir, p)
				f := c16File{Name: rel, Ranks: []int{}, Recs: c16ReadSeqFile(p)}
				for _, r := range f.Recs {
					f.Ranks = append(f.Ranks, rank[r.Id])
				}
				res.Files = append(res.Files, f)
				return nil
			})
		}
		if err != nil {
			res.Fatal, res.Msg = 1, "unreadable output: "+err.Error()
		}
		return res
	}
	return res
}

// ------------------------------------------------------------------------------- record (T)

var (
	c16ReBy = map[string][]string{"s": {"ACGT", "^acg", "g$", "cat"}, "D": {"record", "^Record"}, "I": {"^sA", "_1", "2$"}}
	c16APat = [][2]string{{"sample", "^A$"}, {"sample", "A"}, {"count", "^5"}, {"tag", "x"}, {"n", "5"}, {"count", "5"}, {"definition", "record"}}
	c16Pred = []string{"sequence.Len() > 9", "sequence.Count() >= 5", "contains(annotations,\"sample\")", "sequence.Len() < 6 || sequence.Count() > 10"}
	c16Expr = []string{"1", "7", "\"lit\"", "len(sequence)", "sequence.Id()", "annotations.sample"}
	c16IdEx = []string{"printf(\"%s_x\",sequence.Id())", "\"p_\" + sequence.Id()"}
	c16Keys = []string{"count", "sample", "n", "tag", "definition", "zzz", "k1", "k2"}
)

func c16RandSeq(rng *rand.Rand, n int) string {
	b := make([]byte, n)
	for i := range b {
		b[i] = "acgt"[rng.Intn(4)]
	}
	s := string(b)
	// plant what the tabulated patterns look for, often enough to exercise both answers
	switch rng.Intn(6) {
	case 0:
		if n >= 3 {
			s = "acg" + s[3:]
		}
	case 1:
		if n >= 4 {
			k := rng.Intn(n - 3)
			s = s[:k] + "acgt" + s[k+4:]
		}
	case 2:
		if n >= 3 {
			k := rng.Intn(n - 2)
			s = s[:k] + "cat" + s[k+3:]
		}
	case 3:
		s = s[:n-1] + "g"
	}
	return s
}

func c16RandLen(rng *rand.Rand, long bool) int {
	if long { // reads of 150-300 bases only (files larger than the read buffer)
		return 150 + rng.Intn(151)
	}
	switch rng.Intn(5) {
	case 0:
		return 1 + rng.Intn(6)
	case 1, 2:
		return 7 + rng.Intn(8)
	case 3:
		return 15 + rng.Intn(60)
	}
	return 60 + rng.Intn(241)
}

func c16RandRecs(rng *rand.Rand, n int, prefix string, serial *int, long bool) []c16Rec {
	out := make([]c16Rec, n)
	for i := range out {
		*serial++
		L := c16RandLen(rng, long)
		q := make([]byte, L)
		for j := range q {
			q[j] = byte('A' + rng.Intn(10))
		}
		a := c16Attrs{}
		if rng.Intn(8) > 0 { // one record in eight has no attribute at all
			if rng.Intn(3) > 0 {
				a["count"] = "i:" + strconv.Itoa([]int{1, 1, 2, 4, 5, 6, 10, 50, 55, 1 + rng.Intn(200)}[rng.Intn(10)])
			}
			if rng.Intn(2) > 0 {
				a["sample"] = "s:" + []string{"A", "B", "AB", "C", "BA", "a"}[rng.Intn(6)]
			}
			if rng.Intn(3) == 0 {
				a["n"] = "i:" + strconv.Itoa([]int{5, 7, 15, 50, 51, 105, rng.Intn(1000)}[rng.Intn(7)])
			}
			if rng.Intn(3) == 0 {
				a["tag"] = "s:" + []string{"x", "y", "xy", "X"}[rng.Intn(4)]
			}
			if rng.Intn(3) == 0 {
				a["definition"] = "s:" + []string{"first record", "Record nine", "def four", "a record", "RECORD 5", "Records"}[rng.Intn(6)]
			}
			if rng.Intn(4) == 0 {
				a["k1"] = "i:" + strconv.Itoa(rng.Intn(50))
			}
			if rng.Intn(5) == 0 {
				a["k2"] = "s:v" + strconv.Itoa(rng.Intn(5))
			}
		}
		out[i] = c16Rec{Id: fmt.Sprintf("%s%s_%d%d", prefix, []string{"A", "B", "C", "x"}[rng.Intn(4)], rng.Intn(3), *serial),
			Seq: c16RandSeq(rng, L), Qual: string(q), Attrs: a}
	}
	return out
}

func randGrepOpts(rng *rand.Rand, recs, mates []c16Rec) ([]c16Inst, []string) {
	opts := []c16Inst{}
	ids := []string{}
	anyLen := func() int { return len(recs[rng.Intn(len(recs))].Seq) + rng.Intn(3) - 1 }
	nfam := 1 + rng.Intn(5)
	fams := rng.Perm(11)[:nfam]
	for _, f := range fams {
		switch f {
		case 0:
			opts = append(opts, c16Inst{Fam: "l", N: max(2, anyLen())})
		case 1:
			opts = append(opts, c16Inst{Fam: "L", N: max(1, anyLen())})
		case 2:
			opts = append(opts, c16Inst{Fam: "c", N: []int{2, 2, 4, 5, 6, 10, 50, 51}[rng.Intn(8)]})
		case 3:
			opts = append(opts, c16Inst{Fam: "C", N: []int{1, 2, 4, 5, 6, 10, 50, 49}[rng.Intn(8)]})
		case 4, 5, 6:
			fam := []string{"s", "D", "I"}[f-4]
			pool := c16ReBy[fam]
			for _, k := range rng.Perm(len(pool))[:1+rng.Intn(2)] {
				opts = append(opts, c16Inst{Fam: fam, Re: pool[k]})
			}
		case 7:
			seen := map[string]bool{}
			for _, k := range rng.Perm(len(c16APat))[:1+rng.Intn(3)] {
				if !seen[c16APat[k][0]] {
					seen[c16APat[k][0]] = true
					opts = append(opts, c16Inst{Fam: "a", Key: c16APat[k][0], Re: c16APat[k][1]})
				}
			}
		case 8:
			for _, k := range rng.Perm(len(c16Keys))[:1+rng.Intn(3)] {
				opts = append(opts, c16Inst{Fam: "A", Key: c16Keys[k]})
			}
		case 9:
			opts = append(opts, c16Inst{Fam: "idlist", Re: "random"})
			for _, r := range recs {
				if rng.Intn(2) == 0 {
					ids = append(ids, r.Id)
				}
			}
			for _, r := range mates {
				if rng.Intn(3) == 0 {
					ids = append(ids, r.Id)
				}
			}
			ids = append(ids, "nosuch_id")
		case 10:
			for _, k := range rng.Perm(len(c16Pred))[:1+rng.Intn(2)] {
				opts = append(opts, c16Inst{Fam: "p", Re: c16Pred[k]})
			}
		}
	}
	return opts, ids
}

func randAnnotOpts(rng *rand.Rand) []c16Inst {
	opts := []c16Inst{}
	if rng.Intn(6) == 0 {
		opts = append(opts, c16Inst{Fam: "clear"})
	}
	if rng.Intn(3) == 0 {
		opts = append(opts, c16Inst{Fam: "setid", Re: c16IdEx[rng.Intn(2)]})
	}
	if rng.Intn(3) == 0 {
		for _, k := range rng.Perm(len(c16Keys))[:1+rng.Intn(3)] {
			opts = append(opts, c16Inst{Fam: "del", Key: c16Keys[k]})
		}
	}
	if rng.Intn(4) == 0 {
		for _, k := range rng.Perm(len(c16Keys))[:1+rng.Intn(3)] {
			opts = append(opts, c16Inst{Fam: "keep", Key: c16Keys[k]})
		}
	}
	if rng.Intn(3) == 0 {
		// disjoint renames: names are drawn without replacement from one pool
		pool := []string{"count", "sample", "n", "tag", "zzz", "k1", "k2", "new1", "new2", "new3"}
		p := rng.Perm(len(pool))
		for j := 0; j < 1+rng.Intn(3); j++ {
			opts = append(opts, c16Inst{Fam: "ren", Key: pool[p[2*j]], Re: pool[p[2*j+1]]})
		}
	}
	if rng.Intn(3) == 0 {
		opts = append(opts, c16Inst{Fam: "length"})
	}
	if rng.Intn(2) == 0 {
		pool := []string{"a", "b", "c", "d", "e", "count", "sample", "seq_length", "k1"}
		for _, k := range rng.Perm(len(pool))[:1+rng.Intn(5)] {
			opts = append(opts, c16Inst{Fam: "set", Key: pool[k], Re: c16Expr[rng.Intn(len(c16Expr))]})
		}
		// the occurrences of -S are applied in an unspecified order: an expression that reads `sample` is only used when
		// no other -S writes it (deletions, renames ... are applied before all the -S: they are part of the specification)
		writes := false
		for _, o := range opts {
			writes = writes || (o.Fam == "set" && o.Key == "sample")
		}
		for i := range opts {
			if writes && opts[i].Fam == "set" && opts[i].Re == "annotations.sample" {
				opts[i].Re = "7"
			}
		}
	}
	if rng.Intn(2) == 0 {
		from := rng.Intn(41) - 20
		to := rng.Intn(341) - 20
		if rng.Intn(3) == 0 {
			to = rng.Intn(30) - 15
		}
		if from == 0 {
			from = 1
		}
		if to == 0 {
			to = -1
		}
		opts = append(opts, c16Inst{Fam: "cut", N: from, M: to})
	}
	return opts
}

// c16Execute runs one generated (or re-run) event on the real code and completes it with what came out.
func c16Execute(env *Env, ev map[string]any, job *c16Job, i int, bindir string) {
	var res c16Result
	if bindir != "" {
		ev["level"] = "bin"
		res = runC16Binary(env, bindir, job, i)
	} else {
		ev["level"] = "lib"
		res = runC16Child(env, job, i)
	}
	if res.Hung {
		ev["hung"] = 1
	}
	ev["fatal"] = res.Fatal
	ev["msg"] = res.Msg
	orEmpty := func(r []c16Rec) []c16Rec {
		if r == nil {
			return []c16Rec{}
		}
		return r
	}
	ev["out"], ev["outm"] = orEmpty(res.Out), orEmpty(res.Outm)
	if res.Pred == nil {
		res.Pred = []int{}
	}
	ev["pred"] = res.Pred
	if res.Files == nil {
		res.Files = []c16File{}
	}
	ev["files"] = res.Files
	if job.Tool == "grep" {
		// order the delivered records by input rank (the order of a stream is property C03, not C16)
		rank := map[string]int{}
		for j, r := range job.Recs {
			rank[r.Id] = j
		}
		out, outm := orEmpty(res.Out), orEmpty(res.Outm)
		idx := make([]int, len(out))
		for j := range idx {
			idx[j] = j
		}
		sort.SliceStable(idx, func(a, b int) bool { return rank[out[idx[a]].Id] < rank[out[idx[b]].Id] })
		so, sm := make([]c16Rec, len(out)), make([]c16Rec, 0, len(outm))
		for j, k := range idx {
			so[j] = out[k]
			if len(outm) == len(out) {
				sm = append(sm, outm[k])
			}
		}
		ev["out"], ev["outm"] = so, sm
	}
}

// c16Rerun re-executes recorded events (bin/check --replay of a rejected trace event) on the current code.
func c16Rerun(env *Env, path string, bindir string) {
	type event struct {
		Tool  string   `json:"tool"`
		Argv  []string `json:"argv"`
		Recs  []c16Rec `json:"recs"`
		Mates []c16Rec `json:"mates"`
		Fastq int      `json:"fastq"`
		Batch int      `json:"batch"`
		Level string   `json:"level"`
	}
	typed := loadCases[event](path)
	raw := loadCases[map[string]any](path)
	for i := range typed {
		t := typed[i]
		job := c16Job{Tool: t.Tool, Argv: append([]string{}, t.Argv...), Recs: t.Recs, Mates: t.Mates, Fastq: t.Fastq == 1, Batch: t.Batch}
		ev := raw[i]
		ev["hung"], ev["fatal"] = 0, 0
		b := ""
		if t.Level == "bin" {
			b = bindir
			if b == "" {
				fmt.Fprintln(os.Stderr, "rerun of a binary-level event needs --opt bindir=")
				os.Exit(2)
			}
		}
		// the id list travels in the event; the argv holds the path of a file that no longer exists
		if ids, ok := ev["ids"].([]any); ok {
			for k := range job.Argv {
				if k > 0 && job.Argv[k-1] == "--id-list" {
					parts := make([]string, len(ids))
					for j, x := range ids {
						parts[j] = fmt.Sprint(x)
					}
					job.Argv[k] = "@idlist:" + strings.Join(parts, ",")
				}
			}
		}
		c16Execute(env, ev, &job, i, b)
		env.emit(ev)
	}
}

func recordC16(env *Env) {
	if jf := env.opt("child", ""); jf != "" {
		c16Child(env, jf)
		return
	}
	bindir := env.opt("bindir", "") // set: the events come from the real binaries run on files of 60-400 records
	if f := env.opt("rerun", ""); f != "" {
		c16Rerun(env, f, bindir)
		return
	}
	parallel(env.n, 0, func(i int) {
		rng := rand.New(rand.NewSource(env.seed*7919 + int64(i)))
		serial := i * 1000
		nrec := 4 + rng.Intn(12)
		big := false
		if bindir != "" {
			nrec = 60 + rng.Intn(341)
			// a few events use a file larger than the 1 MiB read buffer: several reader batches, every worker busy
			if i < env.optInt("big", 0) {
				nrec, big = 5000, true
			}
		}
		recs := c16RandRecs(rng, nrec, "s", &serial, big)
		fastq := rng.Intn(2) == 1
		batch := []int{1, 2, 3, 7, 1000}[rng.Intn(5)]
		if bindir != "" {
			batch = []int{1, 3, 10, 50, 5000}[rng.Intn(5)]
		}
		argv := []string{"", "--max-cpu", []string{"2", "3", "8"}[rng.Intn(3)], "--batch-size", strconv.Itoa(batch)}
		ev := map[string]any{"recs": recs, "fastq": map[bool]int{true: 1, false: 0}[fastq], "batch": batch, "hung": 0, "fatal": 0}
		job := c16Job{Recs: recs, Fastq: fastq, Batch: batch}
		switch k := rng.Intn(10); {
		case k < 5:
			job.Tool = "grep"
			mode := "none"
			mates := []c16Rec{}
			if rng.Intn(2) == 0 {
				mode = []string{"forward", "reverse", "and", "or", "andnot", "xor"}[rng.Intn(6)]
				mates = c16RandRecs(rng, nrec, "m", &serial, big)
				job.Mates = mates
			}
			opts, ids := randGrepOpts(rng, recs, mates)
			v := rng.Intn(2)
			argv = append(argv, c16OptsArgv(opts, rng, ids)...)
			if v == 1 {
				argv = append(argv, "-v")
			}
			if mode != "none" {
				argv = append(argv, "--paired-with", "mates", "--paired-mode", mode)
			}
			ev["opts"], ev["ids"], ev["v"], ev["mode"], ev["mates"] = opts, ids, v, mode, mates
		case k < 9:
			job.Tool = "annot"
			opts := randAnnotOpts(rng)
			argv = append(argv, c16OptsArgv(opts, rng, nil)...)
			ev["opts"] = opts
		default:
			job.Tool = "dist"
			job.Fastq, fastq = false, false
			ev["fastq"] = 0
			D := c16D{Na: "NA", Pat: []string{"part_", ".fasta"}}
			switch rng.Intn(4) {
			case 0, 1:
				D.C = c16Keys[rng.Intn(len(c16Keys))]
				if rng.Intn(2) == 0 {
					D.D = c16Keys[rng.Intn(len(c16Keys))]
				}
				if rng.Intn(3) == 0 {
					D.Na = []string{"XX", "none", "0"}[rng.Intn(3)]
				}
			case 2:
				D.N = 1 + rng.Intn(nrec+2)
			default:
				D.H = 1 + rng.Intn(9)
			}
			argv = append(argv, c16DistArgv(D)...)
			crc := make([][]int, nrec)
			for j, r := range recs {
				c := crc32.ChecksumIEEE([]byte(r.Seq))
				crc[j] = []int{int(c >> 16), int(c & 0xffff)}
			}
			ev["D"], ev["crc"] = D, crc
		}
		argv[0] = c16Command[job.Tool]
		job.Argv = append([]string{}, argv...)
		ev["tool"], ev["argv"] = job.Tool, argv
		c16Execute(env, ev, &job, i, bindir)
		env.emit(ev)
	})
}

// c16ListEnd: an identifier list ends with a new line or not (printf, echo -n, some editors): one list in two of each kind
func c16ListEnd(a string) string {
	if len(a)%2 == 0 {
		return "\n"
	}
	return ""
}

package main

// X01 (c): obisplit.
//
// replay: every case of SplitCutMC (configuration, read) goes through the real obisplit.SplitPattern ("lib",
//   configuration entries built by the verif hook VerifMakeSplitSequence) and - grouped by configuration, a seeded
//   share - through the real binary ("cmd": configuration file written, reads in one FASTQ file).  The decoded
//   fragment list must be one of the lists the specification allows.
// record: random configurations (1-4 pure IUPAC patterns of 8-25 symbols, shared pools, 0-4 mismatches) and
//   reads of 60-700 bases with planted sites (either strand, mutated within and just beyond the budget, adjacent,
//   overlapping, at the read ends), plus reads longer than 10 000 bases; SplitTrace.tla decides each read.

import (
	"fmt"
	"math/rand"
	"os"
	"path/filepath"
	"sort"
	"strconv"
	"strings"
	"sync"

	"git.metabarcoding.org/obitools/obitools4/obitools4/pkg/obitools/obisplit"
)

// x01Frag: one fragment, as exported by the specification (From..Rmatch, Frg, Nfrg, Idsfx) and as decoded
// from an output record (the same plus Id, Seq, Qual, Extra).
type x01Frag struct {
	From   int    `json:"from"`
	To     int    `json:"to"`
	Group  string `json:"group"`
	Set    string `json:"set"`
	Lerr   int    `json:"lerr"`
	Rerr   int    `json:"rerr"`
	Lpat   string `json:"lpat"`
	Rpat   string `json:"rpat"`
	Lmatch string `json:"lmatch"`
	Rmatch string `json:"rmatch"`
	Frg    int    `json:"frg"`
	Nfrg   int    `json:"nfrg"`
	Id     string `json:"id"`
	Seq    string `json:"seq"`
	Qual   string `json:"qual"`
	Extra  x01Ann `json:"extra"`
	Bad    string `json:"bad"` // decoding problem ("" = none)
}

func (f x01Frag) core() string {
	return fmt.Sprintf("%d..%d %s/%s L(%s,%s,%d) R(%s,%s,%d) %d/%d", f.From, f.To, f.Group, f.Set, f.Lpat, f.Lmatch, f.Lerr, f.Rpat, f.Rmatch, f.Rerr, f.Frg, f.Nfrg)
}

func x01FragList(fs []x01Frag) string {
	s := []string{}
	for _, f := range fs {
		s = append(s, f.core())
	}
	out := strings.Join(s, " ; ")
	if len(out) > 600 {
		out = out[:600] + "..."
	}
	return "[" + out + "]"
}

// x01DecodeFrag reads the obisplit_* annotations of an output record.
func x01DecodeFrag(r x01Rec) x01Frag {
	f := x01Frag{Id: r.Id, Seq: r.Seq, Qual: r.Qual, Extra: x01Ann{}, From: -1, To: -1, Frg: -1, Nfrg: -1, Lerr: -1, Rerr: -1}
	str := func(k string) string {
		v, ok := r.Ann[k]
		if !ok || !strings.HasPrefix(v, "s:") {
			f.Bad += k + " missing or not a string;"
			return ""
		}
		return v[2:]
	}
	num := func(k string) int {
		v, ok := r.Ann[k]
		if !ok || !strings.HasPrefix(v, "i:") {
			f.Bad += k + " missing or not an integer;"
			return -1
		}
		n, _ := strconv.Atoi(v[2:])
		return n
	}
	f.Frg, f.Nfrg = num("obisplit_frg"), num("obisplit_nfrg")
	f.Group, f.Set = str("obisplit_group"), str("obisplit_set")
	f.Lerr, f.Rerr = num("obisplit_left_error"), num("obisplit_right_error")
	f.Lpat, f.Rpat = str("obisplit_left_pattern"), str("obisplit_right_pattern")
	f.Lmatch, f.Rmatch = str("obisplit_left_match"), str("obisplit_right_match")
	loc := str("obisplit_location")
	a, b, ok := strings.Cut(loc, "..")
	x, e1 := strconv.Atoi(a)
	y, e2 := strconv.Atoi(b)
	if !ok || e1 != nil || e2 != nil {
		f.Bad += "location " + loc + ";"
	} else {
		f.From, f.To = x-1, y
	}
	for k, v := range r.Ann {
		if !strings.HasPrefix(k, "obisplit_") {
			f.Extra[k] = v
		}
	}
	return f
}

type x01SplitCfg struct {
	seqs []obisplit.SplitSequence
	err  error
}

var x01SplitCache sync.Map

func x01SplitConfig(pats [][]string, e int, indel bool) ([]obisplit.SplitSequence, error) {
	key := fmt.Sprint(pats, e, indel)
	if v, ok := x01SplitCache.Load(key); ok {
		c := v.(*x01SplitCfg)
		return c.seqs, c.err
	}
	c := &x01SplitCfg{}
	for _, p := range pats {
		s, err := obisplit.VerifMakeSplitSequence(p[0], p[1], e, indel)
		if err != nil {
			c.err = err
			break
		}
		c.seqs = append(c.seqs, s)
	}
	x01SplitCache.Store(key, c)
	return c.seqs, c.err
}

func x01SplitLib(pats [][]string, e int, indel bool, read x01Rec) (out []x01Frag, status string) {
	status = "ok"
	cfg, err := x01SplitConfig(pats, e, indel)
	if err != nil {
		return nil, "configuration: " + err.Error()
	}
	done := make(chan struct{})
	before := fatalCount()
	go func() {
		defer close(done)
		defer func() {
			if r := recover(); r != nil {
				status = fmt.Sprintf("panic: %v", r)
			}
		}()
		sl, err := obisplit.SplitPattern(x01MkSeq(read), cfg)
		if err != nil {
			status = "error: " + err.Error()
			return
		}
		out = []x01Frag{}
		for _, s := range sl {
			out = append(out, x01DecodeFrag(x01Snapshot(s, false)))
		}
	}()
	<-done
	if fatalCount() != before && status == "ok" {
		status = "fatal: " + strings.Join(fatalMessages(), " | ")
	}
	return out, status
}

func x01SplitFiles(dir, stem string, pats [][]string, reads []x01Rec) (cfgf, readf string, err error) {
	var b strings.Builder
	b.WriteString("tag,pcr_pool\n")
	for _, p := range pats {
		b.WriteString(p[0] + "," + p[1] + "\n")
	}
	cfgf = filepath.Join(dir, stem+"_cfg.csv")
	if err = os.WriteFile(cfgf, []byte(b.String()), 0o644); err != nil {
		return
	}
	readf, err = x01WriteSeqFile(filepath.Join(dir, stem+"_reads"), reads)
	return
}

// x01SplitCmd runs the binary on several reads (distinct identifiers) and hands back the fragments per read.
func x01SplitCmd(bindir, dir, stem string, pats [][]string, e int, indel bool, reads []x01Rec, extra []string) (map[string][]x01Frag, string, string) {
	cfgf, readf, err := x01SplitFiles(dir, stem, pats, reads)
	if err != nil {
		return nil, "", "files: " + err.Error()
	}
	argv := []string{"--no-progressbar", "-C", cfgf, "--pattern-error", strconv.Itoa(e)}
	if indel {
		argv = append(argv, "--allows-indels")
	}
	argv = append(append(argv, extra...), readf)
	how := "obisplit " + fmt.Sprint(argv[1:])
	p := x01Run(filepath.Join(bindir, "obisplit"), argv, dir)
	if p.Hung || p.Rc != 0 {
		return nil, how, fmt.Sprintf("rc=%d hung=%v %s", p.Rc, p.Hung, p.Stderr)
	}
	recs, err := x01ParseSeqText(p.Out, false)
	if err != nil {
		return nil, how, "output: " + err.Error()
	}
	out := map[string][]x01Frag{}
	order := []string{}
	for _, r := range recs {
		i := strings.LastIndex(r.Id, "_sub[")
		if i < 0 {
			return nil, how, "output record " + r.Id + " is not named <read>_sub[a..b]"
		}
		id := r.Id[:i]
		if _, seen := out[id]; !seen {
			order = append(order, id)
		}
		out[id] = append(out[id], x01DecodeFrag(r))
	}
	// the fragments of the reads must come in the order of the reads
	rank := map[string]int{}
	for i, r := range reads {
		rank[r.Id] = i
	}
	for i := 1; i < len(order); i++ {
		if rank[order[i]] < rank[order[i-1]] {
			return out, how, "order: fragments of " + order[i] + " written after those of " + order[i-1]
		}
	}
	return out, how, "ok"
}

// x01SplitJudge compares a decoded fragment list with the lists the specification allows (replay).
func x01SplitJudge(env *Env, c *x01Case, level, how string, read x01Rec, got []x01Frag) {
	cls := "split/" + level + "/" + c.Class
	c.Level = level
	for _, g := range got {
		if g.Bad != "" {
			x01Fail(env, "X01.split.annotation", cls, how+": fragment "+g.Id+": "+g.Bad, c)
			return
		}
	}
	var hit []x01Frag
	sameSites := false
	for _, a := range c.Allowed {
		if len(a) != len(got) {
			continue
		}
		ok, sites := true, true
		for i := range a {
			if a[i].From != got[i].From || a[i].To != got[i].To {
				sites = false
			}
			w, g := a[i], got[i]
			if w.core() != g.core() {
				ok = false
			}
		}
		sameSites = sameSites || sites
		if ok {
			hit = a
			break
		}
	}
	if hit == nil {
		what := "X01.split.sites"
		if sameSites {
			what = "X01.split.annotation"
		}
		all := []string{}
		for _, a := range c.Allowed {
			all = append(all, x01FragList(a))
		}
		x01Fail(env, what, cls, fmt.Sprintf("%s: read %s: got %s ; allowed %s", how, read.Seq, x01FragList(got), strings.Join(all, " or ")), c)
		return
	}
	for i, g := range got {
		w := hit[i]
		wantId := read.Id + "_sub[" + strconv.Itoa(w.From+1) + ".." + strconv.Itoa(w.To) + "]"
		wantQual := ""
		if read.Qual != "" {
			wantQual = read.Qual[w.From:w.To]
		}
		if g.Seq != read.Seq[w.From:w.To] || g.Qual != wantQual || g.Id != wantId || !x01BagEq(x01AnnBag(g.Extra), x01AnnBag(read.Ann)) {
			x01Fail(env, "X01.split.frame", cls, fmt.Sprintf("%s: fragment %d is %s %s %s %v, the read restricted to %d..%d is %s %s %s %v", how, i+1,
				g.Id, g.Seq, g.Qual, g.Extra, w.From, w.To, wantId, read.Seq[w.From:w.To], wantQual, read.Ann), c)
			return
		}
	}
	env.ok(cls)
}

func x01AnnBag(a x01Ann) map[string]int {
	m := map[string]int{}
	for k, v := range a {
		m[k+"="+v]++
	}
	return m
}

func x01SplitRead(c *x01Case, i int) x01Rec {
	r := x01Rec{Id: "r" + strconv.Itoa(i), Seq: c.Read, Ann: x01Ann{"origin": "s:kept", "n": "i:" + strconv.Itoa(i%7)}}
	q := make([]byte, len(c.Read))
	for k := range q {
		q[k] = "0123456789ABCDEFGHI"[(k*7+i)%19] // never '@' or '+': the FASTQ reader is not the subject here
	}
	r.Qual = string(q)
	return r
}

var x01SplitPending struct {
	mu    sync.Mutex
	cases map[string][]int // configuration -> case indexes picked for the command level
}

func x01ReplaySplit(env *Env, c *x01Case, i int, bindir, dir string, pick bool) {
	read := x01SplitRead(c, i)
	got, st := x01SplitLib(c.Pats, c.E, false, read)
	if st != "ok" {
		c.Level = "lib"
		x01Fail(env, "X01.split.lib_failed", "split/lib/"+c.Class, "SplitPattern on "+c.Read+": "+st, c)
	} else {
		x01SplitJudge(env, c, "lib", "SplitPattern", read, got)
	}
	if pick && bindir != "" {
		x01SplitPending.mu.Lock()
		if x01SplitPending.cases == nil {
			x01SplitPending.cases = map[string][]int{}
		}
		k := fmt.Sprint(c.Pats, c.E)
		x01SplitPending.cases[k] = append(x01SplitPending.cases[k], i)
		x01SplitPending.mu.Unlock()
	}
}

// x01ReplaySplitCmd: after the per-case loop, one process per configuration on the reads picked for it.
func x01ReplaySplitCmd(env *Env, cases []x01Case, bindir, dir string) {
	keys := []string{}
	for k := range x01SplitPending.cases {
		keys = append(keys, k)
	}
	sort.Strings(keys)
	type job struct{ idx []int }
	jobs := []job{}
	for _, k := range keys {
		idx := x01SplitPending.cases[k]
		sort.Ints(idx)
		for from := 0; from < len(idx); from += 400 {
			jobs = append(jobs, job{idx[from:min(len(idx), from+400)]})
		}
	}
	parallel(len(jobs), 0, func(j int) {
		idx := jobs[j].idx
		c0 := &cases[idx[0]]
		reads := []x01Rec{}
		for _, i := range idx {
			reads = append(reads, x01SplitRead(&cases[i], i))
		}
		out, how, st := x01SplitCmd(bindir, dir, "s"+strconv.Itoa(j), c0.Pats, c0.E, false, reads, []string{"--max-cpu", strconv.Itoa(1 + j%4), "--batch-size", strconv.Itoa(1 + j%5)})
		if st != "ok" {
			c0.Level = "cmd"
			x01Fail(env, "X01.split.cmd_failed", "split/cmd/"+c0.Class, how+": "+st, c0)
			return
		}
		for n, i := range idx {
			got := out[reads[n].Id]
			if got == nil {
				got = []x01Frag{}
			}
			x01SplitJudge(env, &cases[i], "cmd", how, reads[n], got)
		}
	})
}

// ------------------------------------------------------------------------------------ record

type x01SplitEvent struct {
	Sub    string     `json:"sub"`
	Level  string     `json:"level"`
	Seed   int64      `json:"seed"`
	Nth    int        `json:"nth"` // rank of the read in its scenario
	Kind   string     `json:"kind"`
	Read   string     `json:"read"`
	Qual   string     `json:"qual"`
	Id     string     `json:"id"`
	Ann    x01Ann     `json:"ann"`
	Pats   [][]string `json:"pats"`
	Ranks  []int      `json:"ranks"`
	E      int        `json:"e"`
	Indel  int        `json:"indel"`
	Out    []x01Frag  `json:"out"`
	Status string     `json:"status"`
	How    string     `json:"how"`
}

var x01Iupac = map[byte]string{'A': "a", 'C': "c", 'G': "g", 'T': "t", 'R': "ag", 'Y': "ct", 'S': "cg", 'W': "at", 'K': "gt", 'M': "ac",
	'B': "cgt", 'D': "agt", 'H': "act", 'V': "acg", 'N': "acgt"}

func x01Instance(rng *rand.Rand, tag string) []byte {
	b := make([]byte, len(tag))
	for i := range b {
		s := x01Iupac[tag[i]]
		b[i] = s[rng.Intn(len(s))]
	}
	return b
}

func x01RevComp(b []byte) []byte {
	c := map[byte]byte{'a': 't', 'c': 'g', 'g': 'c', 't': 'a'}
	out := make([]byte, len(b))
	for i := range b {
		out[len(b)-1-i] = c[b[i]]
	}
	return out
}

// mutate k positions to a base the pattern symbol does not accept (when there is one)
func x01Mutate(rng *rand.Rand, inst []byte, tag string, k int) []byte {
	out := append([]byte(nil), inst...)
	for _, p := range rng.Perm(len(out)) {
		if k == 0 {
			break
		}
		ok := x01Iupac[tag[p]]
		bad := []byte{}
		for _, x := range []byte("acgt") {
			if !strings.ContainsRune(ok, rune(x)) {
				bad = append(bad, x)
			}
		}
		if len(bad) == 0 {
			continue
		}
		out[p] = bad[rng.Intn(len(bad))]
		k--
	}
	return out
}

func x01SplitScenario(rng *rand.Rand, long bool) (pats [][]string, ranks []int, e int, reads []x01Rec, kinds []string) {
	np := 1 + rng.Intn(4)
	pools := []string{"pool_a", "pool_b", "pool_c", "Zpool", "extra-1"}
	degenerate := "ACGTACGTACGTACGTRYSWKMBDHVN"
	e = rng.Intn(5)
	if long {
		e = rng.Intn(3)
	}
	for i := 0; i < np; i++ {
		l := 8 + rng.Intn(18)
		if long {
			l = 16 + rng.Intn(10) // few chance occurrences in 10 000 bases
		} else if rng.Intn(6) == 0 {
			l = 2*e + 2 + rng.Intn(4) // a short pattern: chance occurrences, some on both strands at the same place
		}
		t := make([]byte, l)
		for k := range t {
			if rng.Intn(5) == 0 {
				t[k] = degenerate[rng.Intn(len(degenerate))]
			} else {
				t[k] = "ACGT"[rng.Intn(4)]
			}
		}
		tag := string(t)
		switch {
		case i > 0 && rng.Intn(8) == 0: // the reverse complement of a former pattern, configured on its own
			prev := pats[rng.Intn(i)][0]
			if !strings.ContainsAny(prev, "RYSWKMBDHVN") {
				tag = strings.ToUpper(string(x01RevComp([]byte(strings.ToLower(prev)))))
			}
		case rng.Intn(10) == 0: // a palindrome
			h := strings.ToLower(tag[:l/2])
			if !strings.ContainsAny(tag[:l/2], "RYSWKMBDHVN") && l/2 >= 2 {
				tag = strings.ToUpper(h + string(x01RevComp([]byte(h))))
			}
		}
		pats = append(pats, []string{tag, pools[rng.Intn(len(pools))]})
	}
	for _, p := range pats { // rank of the pool name in byte order (equal names, equal ranks)
		r := 0
		for _, q := range pools {
			if q < p[1] {
				r++
			}
		}
		ranks = append(ranks, r+1)
	}
	nreads := 6 + rng.Intn(14)
	if long {
		nreads = 2
	}
	// (long reads go as FASTA: the format sniffer of the readers refuses a FASTQ file whose first record is longer than
	// about 3 000 bases - a reader matter, not obisplit's)
	fastq := rng.Intn(2) == 0 && !long
	for n := 0; n < nreads; n++ {
		var b []byte
		kind := "planted"
		plant := func() {
			p := pats[rng.Intn(len(pats))][0]
			inst := x01Instance(rng, p)
			k := rng.Intn(e + 2) // up to one more than the budget
			if rng.Intn(2) == 0 {
				k = 0
			}
			inst = x01Mutate(rng, inst, p, k)
			if rng.Intn(2) == 0 {
				inst = x01RevComp(inst)
			}
			b = append(b, inst...)
		}
		switch {
		case long:
			// more than 10 000 bases before the first planted site.  "long-early": every pattern also occurs, on both strands, in the
			// first bases; "long-late": the first occurrence of every pattern lies beyond position 10 000
			kind = "long-late"
			if n == 1 {
				kind = "long-early"
				for _, p := range pats { // on both strands: the matcher scans each strand of each pattern on its own
					b = append(b, x01RandSeq(rng, 20+rng.Intn(60))...)
					b = append(b, x01Instance(rng, p[0])...)
					b = append(b, x01RandSeq(rng, 20+rng.Intn(60))...)
					b = append(b, x01RevComp(x01Instance(rng, p[0]))...)
				}
			}
			b = append(b, x01RandSeq(rng, 10050+rng.Intn(1500))...)
			plant()
			b = append(b, x01RandSeq(rng, 50+rng.Intn(400))...)
			if rng.Intn(2) == 0 {
				plant()
				b = append(b, x01RandSeq(rng, 1+rng.Intn(100))...)
			}
		case rng.Intn(8) == 0:
			kind = "random"
			b = []byte(x01RandSeq(rng, 40+rng.Intn(500)))
		default:
			if rng.Intn(4) > 0 {
				b = append(b, x01RandSeq(rng, 1+rng.Intn(150))...)
			}
			for s := rng.Intn(6); s > 0; s-- {
				plant()
				switch rng.Intn(6) {
				case 0: // adjacent sites
				case 1: // overlapping: drop the end of the site just written
					cut := 1 + rng.Intn(4)
					if len(b) > cut {
						b = b[:len(b)-cut]
					}
					kind = "overlap"
				default:
					b = append(b, x01RandSeq(rng, 1+rng.Intn(150))...)
				}
			}
			if rng.Intn(4) == 0 {
				plant() // a site at the very end
			}
		}
		if len(b) == 0 {
			b = []byte(x01RandSeq(rng, 30))
		}
		r := x01Rec{Id: "read" + strconv.Itoa(n+1), Seq: string(b), Ann: x01Ann{}}
		if fastq {
			r.Qual = x01RandQual(rng, len(b))
		}
		if rng.Intn(2) == 0 {
			r.Ann["sample"] = "s:S" + strconv.Itoa(rng.Intn(9))
			r.Ann["count"] = "i:" + strconv.Itoa(1+rng.Intn(5))
		}
		reads = append(reads, r)
		kinds = append(kinds, kind)
	}
	return
}

func x01RecordSplit(env *Env, bindir, dir string) {
	jobs := []int64{}
	if js := env.opt("jobseed", ""); js != "" {
		v, _ := strconv.ParseInt(js, 10, 64)
		jobs = []int64{v}
	} else {
		for i := 0; i < env.n; i++ {
			jobs = append(jobs, env.seed*15485863+int64(i))
		}
	}
	nlong := env.optInt("long", 0)
	parallel(len(jobs), 8, func(i int) {
		seed := jobs[i]
		rng := rand.New(rand.NewSource(seed))
		long := (i < nlong && env.opt("jobseed", "") == "") || env.opt("joblong", "") == "1"
		pats, ranks, e, reads, kinds := x01SplitScenario(rng, long)
		indel := env.opt("indel", "") == "1"
		useCmd := bindir != "" && seed%2 == 0
		if env.opt("joblevel", "") != "" {
			useCmd = env.opt("joblevel", "") != "lib"
		}
		level, how := "lib", "SplitPattern"
		var byRead map[string][]x01Frag
		status := "ok"
		if useCmd {
			level = "cmd"
			byRead, how, status = x01SplitCmd(bindir, dir, "t"+strconv.FormatInt(seed, 10), pats, e, indel, reads,
				[]string{"--max-cpu", strconv.Itoa(1 + rng.Intn(8)), "--batch-size", strconv.Itoa([]int{1, 2, 5, 1000}[rng.Intn(4)])})
		}
		for n, r := range reads {
			ev := x01SplitEvent{Sub: "split", Level: level, Seed: seed, Nth: n, Kind: kinds[n], Read: r.Seq, Qual: r.Qual, Id: r.Id, Ann: r.Ann,
				Pats: pats, Ranks: ranks, E: e, Out: []x01Frag{}, Status: status, How: how}
			if indel {
				ev.Indel = 1
			}
			if useCmd {
				if byRead != nil && byRead[r.Id] != nil {
					ev.Out = byRead[r.Id]
				}
			} else {
				got, st := x01SplitLib(pats, e, indel, r)
				ev.Status = st
				if got != nil {
					ev.Out = got
				}
			}
			env.emit(ev)
		}
	})
}

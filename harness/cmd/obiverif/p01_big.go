package main

// C01, trace step: production constants.  The read buffer of ReadFasta/ReadFastq is 1 MiB (128 MiB for the
// flat files) and is not a parameter: the harness BUILDS files larger than the buffer in which the last
// byte of the first buffer (offset 2^20-1) falls on a chosen byte of a chosen record.  A file is a
// sequence of SHAPES exported by TLC (Chunker_shapes.cfg: text + expected parse, rendered by the TLA+
// generators); the "000000" field of every record is overwritten with the rank of the record in the file
// (input encoding only).  The files are read by
//   - ReadSeqFileChunk with a 1 MiB buffer (cut positions logged),
//   - ReadSequencesFromFile on the file and on a .gz copy, 1-8 parsing workers, and the kseq reader,
//   - the obiconvert binary: file argument, stdin, .gz, 1-8 workers,
// and every run is logged as one event: the shape number and serial number of every delivered record (a
// record is given the number of the shape whose expected parse it equals, -1 if none), the cuts, the batch
// numbers.  ChunkerTrace.tla decides.

import (
	"bytes"
	"compress/gzip"
	"context"
	"encoding/json"
	"fmt"
	"math/rand"
	"os"
	"os/exec"
	"path/filepath"
	"sort"
	"strconv"
	"strings"
	"sync/atomic"
	"time"

	"git.metabarcoding.org/obitools/obitools4/obitools4/pkg/obiformats"
	"git.metabarcoding.org/obitools/obitools4/obitools4/pkg/obiiter"
	"git.metabarcoding.org/obitools/obitools4/obitools4/pkg/obiseq"
)

const c01Serial = "000000"
const c01MiB = 1 << 20

type c01Shape struct {
	fmt   string
	k     int
	text  string
	tags  string
	rec   c01Rec
	idPos int // position of the serial field in the expected id
}

type c01Event struct {
	Op      string  `json:"op"` // chunks | read | cmd
	Fmt     string  `json:"fmt"`
	Via     string  `json:"via"` // chunks: reader kind; read: file gz kseq kseqgz; cmd: file stdin gz
	Workers int     `json:"workers"`
	B       int     `json:"B"`
	Size    int     `json:"size"`
	Cls     string  `json:"cls"`
	Target  []int   `json:"target"` // shape, offset of the 2^20-th byte in it
	Recs    []int   `json:"recs"`
	Cuts    [][]int `json:"cuts"`   // from, to, order, first record, record after the last (1-based)
	Orders  []int   `json:"orders"` // batch numbers in arrival order
	Got     []int   `json:"got"`
	Serials []int   `json:"serials"`
	Status  int     `json:"status"` // 0 ok, 1 fatal / non-zero exit, 2 hung
	Why     string  `json:"why"`
	File    int     `json:"file"`
}

type c01Shapes map[string][]c01Shape // by format, index = shape number - 1

func c01LoadShapes(path string) c01Shapes {
	out := c01Shapes{}
	for _, c := range loadCases[c01Case](path) {
		if len(c.Idx) != 1 || len(c.Recs) != 1 {
			fmt.Fprintln(os.Stderr, "shapes file: one record per case expected")
			os.Exit(2)
		}
		s := c01Shape{fmt: c.Fmt, k: c.Idx[0], text: c.Text, tags: c.Tags, rec: c.Recs[0]}
		s.idPos = strings.Index(s.rec.Id, c01Serial)
		if s.idPos < 0 || !strings.Contains(s.text, c01Serial) {
			fmt.Fprintln(os.Stderr, "shape without serial field:", c.Fmt, s.k)
			os.Exit(2)
		}
		out[c.Fmt] = append(out[c.Fmt], s)
	}
	for f := range out {
		sort.Slice(out[f], func(i, j int) bool { return out[f][i].k < out[f][j].k })
		for i, s := range out[f] {
			if s.k != i+1 {
				fmt.Fprintln(os.Stderr, "shape numbers of", f, "are not 1..n")
				os.Exit(2)
			}
		}
	}
	return out
}

// match: the shape whose expected parse (with the serial of the record) the observed record equals.
func (sh c01Shapes) match(format string, r c01Rec) (int, int, string) {
	for _, s := range sh[format] {
		p := s.idPos
		want := s.rec
		if len(r.Id) != len(want.Id) || r.Id[:p] != want.Id[:p] || r.Id[p+6:] != want.Id[p+6:] {
			continue
		}
		serial, err := strconv.Atoi(r.Id[p : p+6])
		if err != nil {
			continue
		}
		want.Id = r.Id
		if field, d := c01Diff([]c01Rec{r}, []c01Rec{want}); field != "" {
			return -1, serial, "shape " + strconv.Itoa(s.k) + " " + d
		}
		return s.k, serial, ""
	}
	return -1, -1, fmt.Sprintf("record %q is none of the shapes", r.Id)
}

func (sh c01Shapes) reduce(format string, recs []c01Rec, ev *c01Event) {
	ev.Got = make([]int, 0, len(recs))
	ev.Serials = make([]int, 0, len(recs))
	for _, r := range recs {
		k, s, why := sh.match(format, r)
		ev.Got = append(ev.Got, k)
		ev.Serials = append(ev.Serials, s)
		if why != "" && ev.Why == "" {
			ev.Why = why
		}
	}
}

// ------------------------------------------------------------------------------------ file construction

type c01File struct {
	n      int
	fmt    string
	recs   []int
	starts []int // starts[i] = offset of record i, starts[len] = size
	data   []byte
	cls    string
	target []int
	path   string
	gz     string
}

func (sh c01Shapes) render(format string, recs []int) ([]byte, []int) {
	var b bytes.Buffer
	starts := make([]int, 0, len(recs)+1)
	for i, k := range recs {
		starts = append(starts, b.Len())
		b.WriteString(strings.ReplaceAll(sh[format][k-1].text, c01Serial, fmt.Sprintf("%06d", i)))
	}
	starts = append(starts, b.Len())
	return b.Bytes(), starts
}

// exact: a sequence of shapes whose lengths sum to exactly n (coin problem on the shape lengths).
func (sh c01Shapes) exact(format string, n int, rng *rand.Rand) []int {
	shapes := sh[format]
	from := make([]int, n+1)
	for i := range from {
		from[i] = -1
	}
	from[0] = 0
	order := rng.Perm(len(shapes))
	for r := 1; r <= n; r++ {
		for _, i := range order {
			l := len(shapes[i].text)
			if r >= l && from[r-l] >= 0 {
				from[r] = shapes[i].k
				break
			}
		}
	}
	if from[n] < 0 {
		return nil
	}
	var out []int
	for r := n; r > 0; {
		out = append(out, from[r])
		r -= len(shapes[from[r]-1].text)
	}
	return out
}

func c01Clip(t string) string {
	if len(t) > 160 {
		return t[:160] + "..."
	}
	return t
}

// c01LongShape: the number (1-based) of the shape whose identifier starts with 'l' (the long record), 0 if none
func c01LongShape(shapes []c01Shape) int {
	for i, s := range shapes {
		if len(s.text) > 1 && strings.HasPrefix(s.text[1:], "l"+c01Serial) {
			return i + 1
		}
	}
	return 0
}

func (sh c01Shapes) pick(format string, rng *rand.Rand) int {
	if rng.Intn(10) < 9 {
		return 1 // the filler
	}
	return 2 + rng.Intn(len(sh[format])-1)
}

// boundaryFile: the byte of offset `at` (the last byte of a buffer) is byte `offset` of a record of shape `target`.
func (sh c01Shapes) boundaryFile(format string, target, offset, at, total int, rng *rand.Rand) []int {
	shapes := sh[format]
	P := at - offset // length of what precedes the target record
	maxl := 0
	for _, s := range shapes {
		if len(s.text) > maxl {
			maxl = len(s.text)
		}
	}
	for try := 0; try < 200; try++ {
		var recs []int
		sum := 0
		for {
			k := sh.pick(format, rng)
			if sum+len(shapes[k-1].text) > P-2*maxl {
				break
			}
			recs = append(recs, k)
			sum += len(shapes[k-1].text)
		}
		if P-sum < 0 {
			continue
		}
		fill := sh.exact(format, P-sum, rng)
		if fill == nil && P-sum > 0 {
			continue
		}
		rng.Shuffle(len(fill), func(i, j int) { fill[i], fill[j] = fill[j], fill[i] })
		recs = append(recs, fill...)
		recs = append(recs, target)
		sum = P + len(shapes[target-1].text)
		for n := 0; sum < total || n < 12; n++ {
			k := sh.pick(format, rng)
			if n < 12 {
				k = 2 + rng.Intn(len(shapes)-1)
			}
			recs = append(recs, k)
			sum += len(shapes[k-1].text)
		}
		return recs
	}
	return nil
}

func c01Ext(format string) string {
	switch format {
	case "genbank":
		return ".gb"
	case "embl":
		return ".dat"
	}
	return "." + format
}

// ------------------------------------------------------------------------------------------ observations

func (sh c01Shapes) evChunks(f *c01File, B int, via string) c01Event {
	ev := c01Event{Op: "chunks", Fmt: f.fmt, Via: via, B: B, Size: len(f.data), Cls: f.cls, Target: f.target, Recs: f.recs,
		Cuts: [][]int{}, Orders: []int{}, File: f.n}
	chunks, st := c01Chunks(f.fmt, c01Reader(via, f.data, int64(f.n)), B)
	if st != "" {
		ev.Status = 2
		if st == "fatal" {
			ev.Status = 1
		}
		ev.Why = st
	}
	cuts, why := c01Locate(f.data, chunks)
	if why != "" && ev.Why == "" {
		ev.Why = why
	}
	recIndex := func(off int) int { // 1-based record starting at off, -1 if none
		i := sort.SearchInts(f.starts, off)
		if i < len(f.starts) && f.starts[i] == off {
			return i + 1
		}
		return -1
	}
	parser := c01Parser(f.fmt, true)
	var all []c01Rec
	for k, ct := range cuts {
		next := sort.SearchInts(f.starts, ct.to) + 1 // first record start >= to
		ev.Cuts = append(ev.Cuts, []int{ct.from, ct.to, ct.order, recIndex(ct.from), next})
		var sl obiseq.BioSequenceSlice
		buf := chunks[k].data
		if st := guarded(func() { sl, _ = parser("verif", bytes.NewBuffer(buf)) }); st != "" {
			ev.Status = 1
			ev.Why = "parser: " + st + " " + strings.Join(fatalMessages(), ";")
			break
		}
		all = append(all, c01ObserveSlice(sl)...)
	}
	if len(cuts) != len(chunks) && ev.Status == 0 {
		ev.Cuts = append(ev.Cuts, []int{-1, -1, len(cuts), -1, -1}) // a chunk that is not the text of the file
	}
	sh.reduce(f.fmt, all, &ev)
	return ev
}

func (sh c01Shapes) evRead(f *c01File, via string, workers int) c01Event {
	ev := c01Event{Op: "read", Fmt: f.fmt, Via: via, Workers: workers, Size: len(f.data), Cls: f.cls, Target: f.target, Recs: f.recs,
		Cuts: [][]int{}, Orders: []int{}, File: f.n}
	var it obiiter.IBioSequence
	var err error
	path := f.path
	if strings.HasSuffix(via, "gz") {
		path = f.gz
	}
	if f.fmt == "genbank" || f.fmt == "embl" {
		c01FlatMu.Lock()
		defer c01FlatMu.Unlock()
	}
	st := guardedFor(180*time.Second, func() {
		if strings.HasPrefix(via, "kseq") {
			it, err = obiformats.ReadFastSeqFromFile(path, obiformats.OptionFastSeqDoNotParseHeader(), obiformats.OptionsBatchSize(500))
		} else {
			it, err = obiformats.ReadSequencesFromFile(path, obiformats.OptionsParallelWorkers(workers), obiformats.OptionFastSeqDoNotParseHeader())
		}
	})
	if st != "" || err != nil {
		ev.Status = 1
		ev.Why = fmt.Sprint(st, err, fatalMessages())
		ev.Got, ev.Serials = []int{}, []int{}
		return ev
	}
	orders, recs, st := c01DrainFor(180*time.Second, it)
	if st == "timeout" {
		ev.Status = 2
		ev.Why = "the reader did not finish: " + strings.Join(fatalMessages(), ";")
	} else if st != "" {
		ev.Status = 1
		ev.Why = st + ": " + strings.Join(fatalMessages(), ";")
	}
	ev.Orders = append(ev.Orders, orders...)
	sh.reduce(f.fmt, recs, &ev)
	return ev
}

// c01DecodeOutput: the FASTA / FASTQ text written by obiconvert -> records (a line decoder: the writers are C04's).
func c01DecodeOutput(out []byte) ([]c01Rec, string) {
	var recs []c01Rec
	lines := strings.Split(string(out), "\n")
	header := func(h string) c01Rec {
		r := c01Rec{Qual: []int{}}
		id, rest, _ := strings.Cut(h, " ")
		r.Id = id
		rest = strings.TrimSpace(rest)
		if strings.HasPrefix(rest, "{") {
			var m map[string]any
			if json.Unmarshal([]byte(rest), &m) == nil {
				if v, ok := m["definition"].(string); ok {
					r.Def = v
				}
				if v, ok := m["scientific_name"].(string); ok {
					r.Sciname = v
				}
				switch v := m["taxid"].(type) {
				case float64:
					r.Taxid = int(v)
				case string:
					if n, err := strconv.Atoi(strings.TrimPrefix(v, "taxon:")); err == nil {
						r.Taxid = n
					} else {
						r.Taxid = -1
					}
				}
			} else {
				r.Def = "?unparsable annotations: " + rest
			}
		} else {
			r.Def = rest
		}
		return r
	}
	i := 0
	for i < len(lines) {
		l := lines[i]
		switch {
		case l == "":
			i++
		case l[0] == '>':
			r := header(l[1:])
			i++
			var sb strings.Builder
			for i < len(lines) && (len(lines[i]) == 0 || lines[i][0] != '>') {
				sb.WriteString(lines[i])
				i++
			}
			r.Seq = sb.String()
			recs = append(recs, r)
		case l[0] == '@':
			if i+3 >= len(lines) || !strings.HasPrefix(lines[i+2], "+") {
				return recs, fmt.Sprintf("output line %d: not a 4-line FASTQ record", i+1)
			}
			r := header(l[1:])
			r.Seq = lines[i+1]
			for _, q := range []byte(lines[i+3]) {
				r.Qual = append(r.Qual, int(q)-33)
			}
			recs = append(recs, r)
			i += 4
		default:
			return recs, fmt.Sprintf("output line %d starts with %q", i+1, l[0])
		}
	}
	return recs, ""
}

var c01HungCmds int64

func (sh c01Shapes) evCmd(f *c01File, bindir, via string, workers int) c01Event {
	ev := c01Event{Op: "cmd", Fmt: f.fmt, Via: via, Workers: workers, Size: len(f.data), Cls: f.cls, Target: f.target, Recs: f.recs,
		Cuts: [][]int{}, Orders: []int{}, Got: []int{}, Serials: []int{}, File: f.n}
	args := []string{"--max-cpu", strconv.Itoa(workers)}
	patience := 120 * time.Second
	if atomic.LoadInt64(&c01HungCmds) >= 2 {
		patience = 10 * time.Second
	}
	ctx, cancel := context.WithTimeout(context.Background(), patience)
	defer cancel()
	var stdin *os.File
	switch via {
	case "file":
		args = append(args, f.path)
	case "gz":
		args = append(args, f.gz)
	case "stdin":
		if f.fmt == "genbank" || f.fmt == "embl" {
			args = append(args, "--"+f.fmt)
		}
		var err error
		if stdin, err = os.Open(f.path); err != nil {
			fmt.Fprintln(os.Stderr, err)
			os.Exit(2)
		}
		defer stdin.Close()
	}
	cmd := exec.CommandContext(ctx, filepath.Join(bindir, "obiconvert"), args...)
	if stdin != nil {
		cmd.Stdin = stdin
	}
	var stderr bytes.Buffer
	cmd.Stderr = &stderr
	out, err := cmd.Output()
	if ctx.Err() != nil {
		atomic.AddInt64(&c01HungCmds, 1)
		ev.Status = 2
		ev.Why = "timeout"
		return ev
	}
	if err != nil {
		ev.Status = 1
		e := stderr.String()
		if len(e) > 300 {
			e = e[len(e)-300:]
		}
		ev.Why = err.Error() + ": " + e
	}
	recs, why := c01DecodeOutput(out)
	sh.reduce(f.fmt, recs, &ev)
	if why != "" && ev.Why == "" {
		ev.Why = why
		ev.Got = append(ev.Got, -1)
		ev.Serials = append(ev.Serials, -1)
	}
	return ev
}

// ------------------------------------------------------------------------------------------------ record

func recordC01(env *Env) {
	c01Setup()
	defer os.RemoveAll(c01Tmp)
	sh := c01LoadShapes(env.opt("shapes", ""))
	bindir := env.opt("bindir", "")
	thorough := env.optInt("thorough", 0) == 1
	nBoundary := map[string]int{"fasta": env.n, "fastq": env.n, "genbank": env.n / 3, "embl": env.n / 3}
	type plan struct {
		fmt            string
		target, offset int
		at, total      int
		multi          bool
		huge           bool
		longfirst      bool // the file starts with the long record (identifier l......)
	}
	var plans []plan
	for _, format := range []string{"fasta", "fastq", "genbank", "embl"} {
		shapes := sh[format]
		if len(shapes) < 2 {
			continue
		}
		// every (shape, offset); one representative per tag pair first, then a seeded sample
		type so struct{ s, o int }
		var all []so
		byClass := map[string][]so{}
		for _, s := range shapes[1:] {
			if s.k == c01LongShape(shapes) {
				continue // the long record is a filler too: its 5 000 offsets are not boundary targets
			}
			for o := 0; o < len(s.text); o++ {
				all = append(all, so{s.k, o})
				cl := s.tags[o:o+1] + "."
				if o+1 < len(s.text) {
					cl = s.tags[o : o+2]
				}
				byClass[cl] = append(byClass[cl], so{s.k, o})
			}
		}
		var chosen []so
		if thorough && (format == "fasta" || format == "fastq") {
			chosen = all
		} else {
			classes := make([]string, 0, len(byClass))
			for cl := range byClass {
				classes = append(classes, cl)
			}
			sort.Strings(classes)
			for _, cl := range classes {
				v := byClass[cl]
				chosen = append(chosen, v[env.rng.Intn(len(v))])
			}
			for len(chosen) < nBoundary[format] {
				chosen = append(chosen, all[env.rng.Intn(len(all))])
			}
			flat := format == "genbank" || format == "embl"
			if !thorough && flat && len(chosen) > nBoundary[format] && nBoundary[format] > 0 {
				env.rng.Shuffle(len(chosen), func(i, j int) { chosen[i], chosen[j] = chosen[j], chosen[i] })
				chosen = chosen[:nBoundary[format]]
			}
		}
		for _, c := range chosen {
			plans = append(plans, plan{fmt: format, target: c.s, offset: c.o, at: c01MiB - 1, total: c01MiB + 3000})
		}
		// several chunks: parsing workers race; the SECOND buffer end is the chosen one (carry-over + extension path)
		nm := 2
		if thorough {
			nm = 6
		}
		if format == "genbank" || format == "embl" {
			nm = 0
		}
		for i := 0; i < nm; i++ {
			c := all[env.rng.Intn(len(all))]
			plans = append(plans, plan{fmt: format, target: c.s, offset: c.o, at: 2*c01MiB - 1 - env.rng.Intn(3000), total: 4*c01MiB + 200000, multi: true})
		}
		// files that START with the long record (what a format sniffer sees is less than one record)
		if c01LongShape(shapes) > 0 {
			for i := 0; i < 2; i++ {
				c := all[env.rng.Intn(len(all))]
				plans = append(plans, plan{fmt: format, target: c.s, offset: c.o, at: c01MiB - 1, total: c01MiB + 3000, longfirst: true})
			}
		}
	}
	// the 128 MiB buffer of ReadGenbank / ReadEMBL (thorough tier only: one file per format)
	if env.optInt("flat128", 0) >= 1 { // 2 = quick tier: the library read only
		flats := []string{"genbank", "embl"}
		for _, format := range flats {
			shapes := sh[format]
			s := shapes[1+env.rng.Intn(len(shapes)-1)]
			plans = append(plans, plan{fmt: format, target: s.k, offset: env.rng.Intn(len(s.text)), at: 128*c01MiB - 1,
				total: 128*c01MiB + 50000, huge: true})
		}
	}
	// with the feature-table option the readers keep the feature lines of every entry: what an entry gets must be
	// what it gets when it is read alone (the content of a record depends on its own text only)
	for _, format := range []string{"genbank", "embl"} {
		shapes := sh[format]
		if len(shapes) < 2 {
			continue
		}
		recs := make([]int, 14)
		for i := range recs {
			recs[i] = 2 + env.rng.Intn(len(shapes)-1)
		}
		data, starts := sh.render(format, recs)
		parser := obiformats.EmblChunkParser(true)
		if format == "genbank" {
			parser = obiformats.GenbankChunkParser(true)
		}
		ev := c01Event{Op: "read", Fmt: format, Via: "features", Workers: 1, Size: len(data), Cls: format + "/features", Target: []int{0, 0},
			Recs: recs, Cuts: [][]int{}, Orders: []int{}, Got: []int{}, Serials: []int{}}
		var whole obiseq.BioSequenceSlice
		var perr error
		func() {
			defer func() {
				if r := recover(); r != nil {
					perr = fmt.Errorf("panic: %v", r)
				}
			}()
			whole, perr = parser("verif", bytes.NewReader(data))
		}()
		if perr != nil || len(whole) != len(recs) {
			ev.Status, ev.Why = 1, fmt.Sprintf("parsing %d entries with the feature table: %v, %d records", len(recs), perr, len(whole))
		} else {
			for i := range recs {
				alone, err := parser("verif", bytes.NewReader(data[starts[i]:starts[i+1]]))
				if err != nil || len(alone) != 1 {
					ev.Status, ev.Why = 1, fmt.Sprintf("entry %d read alone: %v, %d records", i, err, len(alone))
					break
				}
				if whole[i].Features() != alone[0].Features() {
					ev.Status, ev.Why = 1, fmt.Sprintf("entry %d of %d (%s): its feature table read with its neighbours is %q, read alone %q",
						i, len(recs), whole[i].Id(), c01Clip(whole[i].Features()), c01Clip(alone[0].Features()))
					break
				}
			}
		}
		// the records themselves are not re-described here: an accepted event has status 0 and no record list
		if ev.Status == 0 {
			ev.Op = "features"
		}
		env.emit(ev)
	}
	// a small file read thousands of times with 2-8 parsing workers: the reader must deliver its records whatever
	// the start-up order of its goroutines (a window of nanoseconds is met once in 10^3..10^4 reads)
	for _, format := range []string{"fasta", "fastq"} {
		shapes := sh[format]
		if len(shapes) < 3 {
			continue
		}
		recs := make([]int, 40)
		for i := range recs {
			recs[i] = 2 + env.rng.Intn(len(shapes)-2) // not the filler, not the long one
		}
		data, _ := sh.render(format, recs)
		nrep := env.optInt("readstress", 20000)
		var bad, worst int64 = 0, -1
		parallel(nrep, 8, func(i int) {
			var it obiiter.IBioSequence
			var err error
			opts := []obiformats.WithOption{obiformats.OptionsParallelWorkers(2 + i%7)}
			if format == "fasta" {
				it, err = obiformats.ReadFasta(bytes.NewReader(data), opts...)
			} else {
				it, err = obiformats.ReadFastq(bytes.NewReader(data), opts...)
			}
			n := 0
			if err == nil {
				for it.Next() {
					n += len(it.Get().Slice())
				}
			}
			if n != len(recs) {
				atomic.AddInt64(&bad, 1)
				atomic.StoreInt64(&worst, int64(n))
			}
		})
		ev := c01Event{Op: "features", Fmt: format, Via: "readstress", Workers: 8, Size: len(data), Cls: format + "/readstress", Target: []int{0, 0},
			Recs: recs, Cuts: [][]int{}, Orders: []int{}, Got: []int{}, Serials: []int{}}
		if bad > 0 {
			ev.Op, ev.Status = "read", 1
			ev.Why = fmt.Sprintf("%d reads out of %d of the same %d-record %s text (2-8 parsing workers) did not deliver %d records (one of them: %d)",
				bad, nrep, len(recs), format, len(recs), worst)
		}
		env.emit(ev)
	}
	// (a) a record far larger than the read buffer (several MiB: an assembled chromosome, a long read) between ordinary
	// records, and (b) a file of 10^5 annotated records whose headers are parsed by several workers at once: every
	// record must come back with its own identifier, annotation and nucleotides, in file order.
	for _, job := range []string{"giant/fasta", "giant/fastq", "many/fasta", "many/fastq"} {
		format := job[strings.Index(job, "/")+1:]
		var sb bytes.Buffer
		type exp struct {
			id  string
			k   int
			sum uint64
			n   int
		}
		var want []exp
		put := func(i, n int) {
			seq := make([]byte, n)
			x := uint64(i)*2654435761 + 12345
			var sum uint64
			for j := range seq {
				x = x*6364136223846793005 + 1442695040888963407
				seq[j] = "acgt"[x>>62]
				sum = sum*31 + uint64(seq[j])
			}
			id := fmt.Sprintf("r%06d", i)
			if format == "fasta" {
				fmt.Fprintf(&sb, ">%s {\"k\":%d,\"src\":\"verif\"}\n%s\n", id, i, seq)
			} else {
				q := bytes.Repeat([]byte{'I'}, n)
				fmt.Fprintf(&sb, "@%s {\"k\":%d,\"src\":\"verif\"}\n%s\n+\n%s\n", id, i, seq, q)
			}
			want = append(want, exp{id, i, sum, n})
		}
		nreads := 2
		if strings.HasPrefix(job, "giant") {
			for i := 0; i < 60; i++ {
				n := 80 + i
				if i == 25 {
					n = 3*1024*1024 + 4321
					if format == "fastq" {
						n = 2*1024*1024 + 77777
					}
				}
				put(i, n)
			}
			nreads = 3
		} else {
			for i := 0; i < env.optInt("manyrecords", 120000); i++ {
				put(i, 30+i%20)
			}
		}
		data := sb.Bytes()
		ev := c01Event{Op: "features", Fmt: format, Via: job, Workers: 8, Size: len(data), Cls: job, Target: []int{0, 0},
			Recs: []int{}, Cuts: [][]int{}, Orders: []int{}, Got: []int{}, Serials: []int{}}
		for rep := 0; rep < nreads && ev.Status == 0; rep++ {
			workers := []int{8, 3, 2}[rep%3]
			var it obiiter.IBioSequence
			var err error
			st := guardedFor(180*time.Second, func() {
				if format == "fasta" {
					it, err = obiformats.ReadFasta(bytes.NewReader(data), obiformats.OptionsParallelWorkers(workers))
				} else {
					it, err = obiformats.ReadFastq(bytes.NewReader(data), obiformats.OptionsParallelWorkers(workers))
				}
			})
			if st != "" || err != nil {
				ev.Op, ev.Status, ev.Why = "read", 1, fmt.Sprint(job, ": ", st, err, fatalMessages())
				break
			}
			type got struct {
				o  int
				rs []exp
			}
			var bs []got
			done := make(chan string, 1)
			go func() {
				defer func() {
					if r := recover(); r != nil {
						done <- fmt.Sprint("panic: ", r)
					}
				}()
				for it.Next() {
					b := it.Get()
					g := got{o: b.Order()}
					for _, s := range b.Slice() {
						var sum uint64
						for _, c := range s.Sequence() {
							sum = sum*31 + uint64(c)
						}
						k, _ := s.GetIntAttribute("k")
						g.rs = append(g.rs, exp{s.Id(), k, sum, s.Len()})
					}
					bs = append(bs, g)
				}
				done <- ""
			}()
			select {
			case st = <-done:
			case <-time.After(180 * time.Second):
				st = "timeout"
			}
			if st != "" {
				ev.Op, ev.Status, ev.Why = "read", 1, fmt.Sprintf("%s (%d bytes, %d workers): %s %v", job, len(data), workers, st, fatalMessages())
				if st == "timeout" {
					ev.Status = 2
				}
				break
			}
			sort.SliceStable(bs, func(i, j int) bool { return bs[i].o < bs[j].o })
			var all []exp
			for _, g := range bs {
				all = append(all, g.rs...)
			}
			nbad, first := 0, ""
			for i := 0; i < len(all) || i < len(want); i++ {
				if i >= len(all) || i >= len(want) || all[i] != want[i] {
					nbad++
					if first == "" {
						var g, w any = "nothing", "nothing"
						if i < len(all) {
							g = all[i]
						}
						if i < len(want) {
							w = want[i]
						}
						first = fmt.Sprintf("record %d is (id, k, checksum, length) %v, expected %v", i, g, w)
					}
				}
			}
			if nbad > 0 {
				ev.Op, ev.Status = "read", 1
				ev.Why = fmt.Sprintf("%s: %d-byte %s text of %d records read with %d parsing workers: %d records delivered, %d positions differ from the text; %s",
					job, len(data), format, len(want), workers, len(all), nbad, first)
			}
		}
		env.emit(ev)
	}
	dir := env.opt("dir", c01Tmp)
	os.MkdirAll(dir, 0o755)
	seeds := make([]int64, len(plans))
	for i := range seeds {
		seeds[i] = env.rng.Int63()
	}
	cmdEvery := env.optInt("cmdevery", 5)
	emit := func(ev c01Event) { // flushed: a panic inside a goroutine of the library would lose the buffered events
		env.emit(ev)
		env.mu.Lock()
		env.w.Flush()
		env.mu.Unlock()
	}
	parallel(len(plans), 0, func(i int) {
		p := plans[i]
		rng := rand.New(rand.NewSource(seeds[i]))
		recs := sh.boundaryFile(p.fmt, p.target, p.offset, p.at, p.total, rng)
		if recs == nil {
			fmt.Fprintln(os.Stderr, "could not build a file for", p)
			os.Exit(2)
		}
		if p.longfirst {
			recs = append([]int{c01LongShape(sh[p.fmt])}, recs...)
		}
		f := &c01File{n: i, fmt: p.fmt, recs: recs, target: []int{p.target, p.offset}}
		f.data, f.starts = sh.render(p.fmt, recs)
		s := sh[p.fmt][p.target-1]
		t2 := "."
		if p.offset+1 < len(s.text) {
			t2 = s.tags[p.offset+1 : p.offset+2]
		}
		f.cls = p.fmt + "/" + s.tags[p.offset:p.offset+1] + t2
		if p.multi {
			f.cls = p.fmt + "/multi"
		}
		if p.longfirst {
			f.cls = p.fmt + "/longfirst"
		}
		f.path = filepath.Join(dir, fmt.Sprintf("big%d%s", i, c01Ext(p.fmt)))
		f.gz = f.path + ".gz"
		if err := os.WriteFile(f.path, f.data, 0o644); err != nil {
			fmt.Fprintln(os.Stderr, err)
			os.Exit(2)
		}
		if !p.huge {
			var zb bytes.Buffer
			zw, _ := gzip.NewWriterLevel(&zb, gzip.BestSpeed)
			zw.Write(f.data)
			zw.Close()
			os.WriteFile(f.gz, zb.Bytes(), 0o644)
		}
		defer os.Remove(f.path)
		defer os.Remove(f.gz)

		flat := p.fmt == "genbank" || p.fmt == "embl"
		if p.huge {
			f.cls = p.fmt + "/128MiB"
			emit(sh.evRead(f, "file", 4))
			if env.optInt("flat128", 0) == 2 {
				return
			}
			emit(sh.evChunks(f, 128*c01MiB, "whole"))
			if bindir != "" {
				emit(sh.evCmd(f, bindir, "file", 4))
			}
			return
		}
		emit(sh.evChunks(f, c01MiB, c01Variants[i%len(c01Variants)]))
		ws := []int{1, 2, 3, 4, 8}
		if !flat || i%4 == 0 { // ReadGenbank / ReadEMBL allocate their 128 MiB buffer
			emit(sh.evRead(f, "file", ws[rng.Intn(len(ws))]))
			emit(sh.evRead(f, "gz", ws[rng.Intn(len(ws))]))
		}
		if p.multi {
			for _, w := range []int{2, 3, 8} {
				emit(sh.evRead(f, "file", w))
			}
		}
		if !flat {
			emit(sh.evRead(f, "kseq", 1))
			if i%3 == 0 {
				emit(sh.evRead(f, "kseqgz", 1))
			}
		}
		if bindir != "" && (i%cmdEvery == 0 || p.multi || p.longfirst) {
			for _, via := range []string{"file", "stdin", "gz"} {
				emit(sh.evCmd(f, bindir, via, ws[rng.Intn(len(ws))]))
			}
		}
	})
}

package main

// C14: taxonomy queries agree with the tree (pkg/obitax, ncbitaxdump loader, obigrep/obiannotate -t).
//
// The oracle is spec/L0_kernel/Tax.tla, nothing here computes an expected value: this file loads a
// taxonomy given as a parent vector into the REAL code (twice: through the obitax API and through
// a synthetic NCBI dump directory read by ncbitaxdump.LoadNCBITaxDump), runs queries on it and
//   replay: compares every answer with the table TLC exported from TaxModel.tla for that tree;
//   record: logs (query, answer) events on random trees of up to thousands of nodes for TaxTrace.tla.
// Command-level clauses run the real obigrep / obiannotate binaries on the dump directory.

import (
	"bufio"
	"bytes"
	"encoding/json"
	"fmt"
	"hash/fnv"
	"math"
	"math/rand"
	"os"
	"os/exec"
	"path/filepath"
	"reflect"
	"sort"
	"strconv"
	"strings"
	"sync"
	"time"

	"git.metabarcoding.org/obitools/obitools4/obitools4/pkg/obiformats/ncbitaxdump"
	"git.metabarcoding.org/obitools/obitools4/obitools4/pkg/obiseq"
	"git.metabarcoding.org/obitools/obitools4/obitools4/pkg/obitax"
)

func init() {
	register("C14", &driver{replay: replayC14, record: recordC14})
}

// ------------------------------------------------------------------------------ taxonomy input

type taxDef struct {
	Parent []int    `json:"parent"` // parent[i-1] = parent taxid of taxid i; the root is its own parent
	Rank   []string `json:"rank"`
	Name   []string `json:"name"`
	Alias  [][]int  `json:"alias"` // pairs [old, new]
}

func (d *taxDef) n() int { return len(d.Parent) }

// shape names a coverage class of the tree (never used to compute an expected answer)
func (d *taxDef) shape() string {
	n := d.n()
	if n <= 2 {
		return "tiny"
	}
	kids := make([]int, n+1)
	for i, p := range d.Parent {
		if p != i+1 {
			kids[p]++
		}
	}
	maxk, leaves := 0, 0
	for i := 1; i <= n; i++ {
		if kids[i] > maxk {
			maxk = kids[i]
		}
		if kids[i] == 0 {
			leaves++
		}
	}
	switch {
	case maxk == 1:
		return "chain"
	case maxk == n-1:
		return "star"
	case leaves == 2:
		return "fork"
	default:
		return "bushy"
	}
}

func (d *taxDef) rootTaxid() int {
	for i, p := range d.Parent {
		if p == i+1 {
			return i + 1
		}
	}
	return 0
}

// guarded14 runs f on its own goroutine: a panic or a captured log.Fatal (runtime.Goexit) inside the
// real code ends only that goroutine and is returned as text.
func guarded14(f func()) (problem string) {
	done := make(chan string, 1)
	go func() {
		finished := false
		defer func() {
			if r := recover(); r != nil {
				done <- fmt.Sprintf("panic: %v", r)
				return
			}
			if !finished {
				done <- "fatal: " + strings.Join(lastFatal14(), "; ")
				return
			}
			done <- ""
		}()
		f()
		finished = true
	}()
	select {
	case p := <-done:
		return p
	case <-time.After(60 * time.Second):
		return "hang: no answer within 60s"
	}
}

// protected runs f inline: a panic of the real code is returned as text.  Used for the queries that
// cannot reach a log.Fatal (no goroutine per call: millions of them are made in a replay).
func protected(f func()) (problem string) {
	defer func() {
		if r := recover(); r != nil {
			problem = fmt.Sprintf("panic: %v", r)
		}
	}()
	f()
	return ""
}

// the queries whose code path contains a log.Fatal (unknown rank label, unknown taxid)
var c14MayFatal = map[string]bool{"seq_restrict": true, "seq_hasrank": true, "seq_atrank": true, "seq_path": true}

func lastFatal14() []string {
	m := fatalMessages()
	if len(m) > 2 {
		m = m[len(m)-2:]
	}
	return m
}

// buildAPI loads the taxonomy through the library API, nodes inserted in a seeded random order.
func buildAPI(d *taxDef, rng *rand.Rand) (tx *obitax.Taxonomy, loaded int, problem string) {
	problem = guarded14(func() {
		t := obitax.NewTaxonomy()
		order := rng.Perm(d.n())
		declared := false
		if d.n() >= 3 && rng.Intn(2) == 0 {
			// a taxonomy with a history: most taxa are first declared somewhere else (under the root, other
			// rank), some not at all, and indexed; the loop below then re-declares (replace) or adds every
			// taxon as d has it, and the taxonomy is indexed again. What it answers afterwards is d.
			root := d.rootTaxid()
			type decl struct {
				par int
				rk  string
			}
			first := map[int]decl{}
			for _, i := range order {
				if i+1 != root && rng.Intn(4) == 0 {
					continue
				}
				par, rk := d.Parent[i], d.Rank[i]
				if i+1 != root && rng.Intn(2) == 0 {
					par, rk = root, d.Rank[rng.Intn(d.n())]
				}
				if _, err := t.AddNewTaxa(i+1, par, rk, false, true); err != nil {
					panic(err)
				}
				first[i] = decl{par, rk}
			}
			// a taxon declared with its final parent may miss it for now: the second indexing links it
			_ = t.ReindexParent()
			for _, i := range order {
				if f, ok := first[i]; ok && f.par == d.Parent[i] && f.rk == d.Rank[i] {
					continue // as d has it already: left alone
				}
				if _, err := t.AddNewTaxa(i+1, d.Parent[i], d.Rank[i], true, true); err != nil {
					panic(err)
				}
			}
			declared = true
		}
		for _, i := range order {
			if declared {
				break
			}
			if _, err := t.AddNewTaxa(i+1, d.Parent[i], d.Rank[i], false, true); err != nil {
				panic(err)
			}
		}
		sn := "scientific name"
		syn := "synonym"
		for _, i := range order {
			name := d.Name[i]
			if i%3 == 0 {
				alt := "alt_" + name
				if err := t.AddNewName(i+1, &alt, &syn); err != nil {
					panic(err)
				}
			}
			if err := t.AddNewName(i+1, &name, &sn); err != nil {
				panic(err)
			}
		}
		if err := t.ReindexParent(); err != nil {
			panic(err)
		}
		for _, a := range d.Alias {
			if err := t.AddNewAlias(a[1], a[0]); err != nil {
				panic(err)
			}
		}
		tx = t
		loaded = t.Len()
	})
	return
}

// writeDump writes nodes.dmp / names.dmp / merged.dmp in the NCBI layout (fields separated by "\t|\t").
func writeDump(dir string, d *taxDef, rng *rand.Rand) error {
	if err := os.MkdirAll(dir, 0o755); err != nil {
		return err
	}
	var nodes, names, merged bytes.Buffer
	order := rng.Perm(d.n())
	for _, i := range order {
		fmt.Fprintf(&nodes, "%d\t|\t%d\t|\t%s\t|\t\t|\t8\t|\t0\t|\t1\t|\t0\t|\t0\t|\t0\t|\t0\t|\t0\t|\t\t|\n", i+1, d.Parent[i], d.Rank[i])
	}
	for i := 0; i < d.n(); i++ {
		if i%3 == 0 {
			fmt.Fprintf(&names, "%d\t|\talt_%s\t|\t\t|\tsynonym\t|\n", i+1, d.Name[i])
		}
		fmt.Fprintf(&names, "%d\t|\t%s\t|\t\t|\tscientific name\t|\n", i+1, d.Name[i])
		if i%4 == 1 {
			fmt.Fprintf(&names, "%d\t|\tcommon %s\t|\t\t|\tgenbank common name\t|\n", i+1, d.Name[i])
		}
	}
	// a merged id may point at an id that was itself merged before (old2 -> old1 -> node): half of the
	// aliases that share their target with an earlier one are written as such a chain; the meaning
	// (old2 is an alias of the node) is the same
	for k, a := range d.Alias {
		target := a[1]
		for j := 0; j < k; j++ {
			if d.Alias[j][1] == a[1] && rng.Intn(2) == 0 {
				target = d.Alias[j][0]
				break
			}
		}
		fmt.Fprintf(&merged, "%d\t|\t%d\t|\n", a[0], target)
	}
	for f, b := range map[string]*bytes.Buffer{"nodes.dmp": &nodes, "names.dmp": &names, "merged.dmp": &merged} {
		if err := os.WriteFile(filepath.Join(dir, f), b.Bytes(), 0o644); err != nil {
			return err
		}
	}
	return nil
}

func loadDump(dir string, onlysn bool) (tx *obitax.Taxonomy, loaded int, problem string) {
	problem = guarded14(func() {
		t, err := ncbitaxdump.LoadNCBITaxDump(dir, onlysn)
		if err != nil {
			panic(err)
		}
		tx = t
		loaded = t.Len()
	})
	return
}

// ------------------------------------------------------------------------------------- queries

// query is one question put to the real code; it is also the event logged for trace validation.
// Field types never mix (TLC compares them): ints, strings, lists of them.
type query struct {
	E    string   `json:"e"`   // "q"
	Src  string   `json:"src"` // "api" | "dump" | "cmd"
	Op   string   `json:"op"`
	A    []int    `json:"a"`    // taxids asked about / restrict-to option
	B    []int    `json:"b"`    // second taxid list / ignore option
	K    []string `json:"k"`    // rank labels
	In   []int    `json:"in"`   // taxids of the sequence records
	Sets [][]int  `json:"sets"` // taxid bags of the sequence records
	Res  []int    `json:"res"`  // the answer of the real code
	S    []string `json:"s"`    // names in the answer
	Err  string   `json:"err"`  // panic / fatal / error text ("" when none)
}

func newQuery(src, op string) *query {
	return &query{E: "q", Src: src, Op: op, A: []int{}, B: []int{}, K: []string{}, In: []int{}, Sets: [][]int{}, Res: []int{}, S: []string{}}
}

func b2i(b bool) int {
	if b {
		return 1
	}
	return 0
}

func taxidOf(n *obitax.TaxNode) int {
	if n == nil {
		return 0
	}
	return n.Taxid()
}

func seqWithTaxid(id int) *obiseq.BioSequence {
	s := obiseq.NewBioSequence("s"+strconv.Itoa(id), []byte("acgt"), "")
	s.SetAttribute("taxid", id)
	return s
}

// bagWeight: deterministic positive weight of the k-th member of a bag (the specification does not depend on it)
func bagWeight(id, k int) int { return 1 + (id*7+k*3)%5 }

// bagAsTaxid: a bag of one even taxid is written as a plain "taxid" annotation (no merged_taxid slot)
func bagAsTaxid(bag []int) bool { return len(bag) == 1 && bag[0]%2 == 0 }

func seqWithBag(name string, bag []int) *obiseq.BioSequence {
	s := obiseq.NewBioSequence(name, []byte("acgt"), "")
	if bagAsTaxid(bag) {
		s.SetAttribute("taxid", bag[0])
		return s
	}
	m := make(map[string]int, len(bag))
	for k, id := range bag {
		m[strconv.Itoa(id)] = bagWeight(id, k)
	}
	s.SetAttribute("merged_taxid", m)
	return s
}

func intAttr(s *obiseq.BioSequence, key string) (int, bool) {
	v, ok := s.GetAttribute(key)
	if !ok {
		return 0, false
	}
	switch x := v.(type) {
	case int:
		return x, true
	case float64:
		return int(x), true
	case int64:
		return int(x), true
	}
	return 0, false
}

func strAttr(s *obiseq.BioSequence, key string) string {
	v, ok := s.GetAttribute(key)
	if !ok {
		return ""
	}
	if x, ok := v.(string); ok {
		return x
	}
	return fmt.Sprint(v)
}

// decodeRankAnnotation: obitools writes -1 / "NA" for "no taxon at that rank" and nothing at all for a
// record whose taxid is unknown; both decode to taxon 0 with an empty name.
func decodeRankAnnotation(taxid int, has bool, name string) (int, string) {
	if !has || taxid < 0 {
		return 0, ""
	}
	return taxid, name
}

// parsePathString decodes TaxonSlice.String(): "taxid@name@rank|taxid@name@rank..." (root first).
func parsePathString(p string) ([]int, bool) {
	out := []int{}
	if p == "" {
		return out, true
	}
	for _, part := range strings.Split(p, "|") {
		f := strings.SplitN(part, "@", 3)
		v, err := strconv.Atoi(f[0])
		if err != nil || len(f) != 3 {
			return out, false
		}
		out = append(out, v)
	}
	return out, true
}

// ask runs q on the real taxonomy and fills q.Res / q.S / q.Err.
func ask(tx *obitax.Taxonomy, q *query) {
	q.Res, q.S = []int{}, []string{}
	run := protected
	if c14MayFatal[q.Op] {
		run = guarded14
	}
	q.Err = run(func() {
		switch q.Op {
		case "resolve": // Taxonomy.Taxon(int)
			n, err := tx.Taxon(q.A[0])
			if err != nil {
				n = nil
			}
			q.Res = []int{taxidOf(n)}
		case "resolve_str": // Taxonomy.Taxon(string)
			n, err := tx.Taxon(strconv.Itoa(q.A[0]))
			if err != nil {
				n = nil
			}
			q.Res = []int{taxidOf(n)}
		case "lca": // TaxNode.LCA on the taxa of two ids
			n1, e1 := tx.Taxon(q.A[0])
			n2, e2 := tx.Taxon(q.A[1])
			if e1 != nil || e2 != nil {
				q.Res = []int{-1}
				return
			}
			l, err := n1.LCA(n2)
			if err != nil {
				q.Res = []int{-1}
				return
			}
			q.Res = []int{taxidOf(l)}
		case "path": // TaxNode.Path
			n, e := tx.Taxon(q.A[0])
			if e != nil {
				q.Res = []int{-1}
				return
			}
			p, err := n.Path()
			if err != nil {
				q.Res = []int{-1}
				return
			}
			for _, x := range *p {
				q.Res = append(q.Res, x.Taxid())
			}
		case "tpath": // Taxonomy.Path(id): empty for an unknown id
			p, err := tx.Path(q.A[0])
			if err != nil {
				return
			}
			for _, x := range *p {
				q.Res = append(q.Res, x.Taxid())
			}
		case "sub": // TaxNode.IsSubCladeOf
			n1, e1 := tx.Taxon(q.A[0])
			n2, e2 := tx.Taxon(q.A[1])
			if e1 != nil || e2 != nil {
				q.Res = []int{-1}
				return
			}
			q.Res = []int{b2i(n1.IsSubCladeOf(n2))}
		case "belong": // TaxNode.IsBelongingSubclades(set of clades B)
			n1, e1 := tx.Taxon(q.A[0])
			if e1 != nil {
				q.Res = []int{-1}
				return
			}
			set := make(obitax.TaxonSet)
			for _, c := range q.B {
				nc, e := tx.Taxon(c)
				if e != nil {
					q.Res = []int{-1}
					return
				}
				set.Inserts(nc)
			}
			q.Res = []int{b2i(n1.IsBelongingSubclades(&set))}
		case "clade": // Taxonomy.IFilterOnSubcladeOf(node): all taxa of the clade
			n, e := tx.Taxon(q.A[0])
			if e != nil {
				q.Res = []int{-1}
				return
			}
			set := tx.IFilterOnSubcladeOf(n).TaxonSet()
			for id := range *set {
				q.Res = append(q.Res, id)
			}
			sort.Ints(q.Res)
		case "atrank": // TaxNode.TaxonAtRank
			n, e := tx.Taxon(q.A[0])
			if e != nil {
				q.Res = []int{-1}
				return
			}
			r := n.TaxonAtRank(q.K[0])
			q.Res = []int{taxidOf(r)}
			if r != nil {
				q.S = []string{r.ScientificName()}
			} else {
				q.S = []string{""}
			}
		case "hasrank": // TaxNode.HasRankDefined
			n, e := tx.Taxon(q.A[0])
			if e != nil {
				q.Res = []int{-1}
				return
			}
			q.Res = []int{b2i(n.HasRankDefined(q.K[0]))}
		case "seq_restrict": // Taxonomy.IsSubCladeOf(taxid) as a sequence predicate: which records are kept
			p := tx.IsSubCladeOf(q.A[0])
			for _, id := range q.In {
				if p(seqWithTaxid(id)) {
					q.Res = append(q.Res, id)
				}
			}
		case "seq_hasrank": // Taxonomy.HasRequiredRank(rank)
			p := tx.HasRequiredRank(q.K[0])
			for _, id := range q.In {
				if p(seqWithTaxid(id)) {
					q.Res = append(q.Res, id)
				}
			}
		case "seq_valid": // Taxonomy.IsAValidTaxon()
			p := tx.IsAValidTaxon()
			for _, id := range q.In {
				if p(seqWithTaxid(id)) {
					q.Res = append(q.Res, id)
				}
			}
		case "seq_atrank": // MakeSetTaxonAtRankWorker / SetTaxonAtRank: <rank>_taxid and <rank>_name annotations
			w := tx.MakeSetTaxonAtRankWorker(q.K[0])
			for _, id := range q.In {
				s := seqWithTaxid(id)
				if _, err := w(s); err != nil {
					panic(err)
				}
				v, has := intAttr(s, q.K[0]+"_taxid")
				t, nm := decodeRankAnnotation(v, has, strAttr(s, q.K[0]+"_name"))
				q.Res = append(q.Res, t)
				q.S = append(q.S, nm)
			}
		case "seq_lca": // Taxonomy.LCA(sequence, 1.0): taxid, error in 1/1000
			for i, bag := range q.Sets {
				n, rans, _ := tx.LCA(seqWithBag("b"+strconv.Itoa(i), bag), 1.0)
				q.Res = append(q.Res, taxidOf(n), int(math.Round((1-rans)*1000)))
			}
		case "seq_lca_worker": // AddLCAWorker(tx, "lca", 1.0): lca_taxid, lca_error, lca_name annotations
			w := obitax.AddLCAWorker(tx, "lca", 1.0)
			for i, bag := range q.Sets {
				s := seqWithBag("b"+strconv.Itoa(i), bag)
				if _, err := w(s); err != nil {
					panic(err)
				}
				t, _ := intAttr(s, "lca_taxid")
				e := 0.0
				if v, ok := s.GetAttribute("lca_error"); ok {
					e, _ = v.(float64)
				}
				q.Res = append(q.Res, t, int(math.Round(e*1000)))
				q.S = append(q.S, strAttr(s, "lca_name"))
			}
		case "seq_path": // Taxonomy.SetPath: taxonomic_path annotation, root first
			s := seqWithTaxid(q.A[0])
			ids, ok := parsePathString(tx.SetPath(s))
			if !ok || strAttr(s, "taxonomic_path") == "" {
				q.Res = []int{-1}
				return
			}
			q.Res = ids
		default:
			panic("obiverif: unknown op " + q.Op)
		}
	})
	if q.Err != "" {
		q.Res, q.S = []int{-1}, []string{}
	}
}

// ------------------------------------------------------------------------------------ binaries

type fastaRec struct {
	id  string
	ann map[string]any
}

// parseFastaHeaders reads the records of an obitools FASTA output: ">id {json} definition".
func parseFastaHeaders(out []byte) ([]fastaRec, error) {
	recs := []fastaRec{}
	sc := bufio.NewScanner(bytes.NewReader(out))
	sc.Buffer(make([]byte, 1<<20), 1<<26)
	for sc.Scan() {
		line := sc.Text()
		if !strings.HasPrefix(line, ">") {
			continue
		}
		line = line[1:]
		id, rest, _ := strings.Cut(line, " ")
		r := fastaRec{id: id, ann: map[string]any{}}
		rest = strings.TrimSpace(rest)
		if strings.HasPrefix(rest, "{") {
			dec := json.NewDecoder(strings.NewReader(rest))
			if err := dec.Decode(&r.ann); err != nil {
				return nil, fmt.Errorf("bad header %q: %v", line, err)
			}
		}
		recs = append(recs, r)
	}
	return recs, nil
}

func runBinary(bin string, args []string, dir string) (stdout []byte, rc int, stderr string) {
	cmd := exec.Command("timeout", append([]string{"120", bin}, args...)...)
	cmd.Dir = dir
	var so, se bytes.Buffer
	cmd.Stdout, cmd.Stderr = &so, &se
	err := cmd.Run()
	rc = 0
	if err != nil {
		if ee, ok := err.(*exec.ExitError); ok {
			rc = ee.ExitCode()
		} else {
			rc = -1
		}
	}
	// keep what matters of stderr: drop the info lines, keep the head (panic message) and the tail
	keep := []string{}
	for _, l := range strings.Split(se.String(), "\n") {
		if !strings.Contains(l, "level=info") && strings.TrimSpace(l) != "" {
			keep = append(keep, l)
		}
	}
	msg := strings.Join(keep, "\n")
	if len(msg) > 2400 {
		msg = msg[:1600] + "\n[...]\n" + msg[len(msg)-700:]
	}
	return so.Bytes(), rc, msg
}

// transient failures of the binaries (exit != 0 once, fine when repeated)
var c14Transient struct {
	mu   sync.Mutex
	n    int
	msgs []string
}

func noteTransient(msg string) {
	c14Transient.mu.Lock()
	c14Transient.n++
	if len(c14Transient.msgs) < 2 {
		c14Transient.msgs = append(c14Transient.msgs, msg)
	}
	c14Transient.mu.Unlock()
}

func idFromRecName(name string) int {
	v, err := strconv.Atoi(strings.TrimLeft(name, "sb"))
	if err != nil {
		return -999
	}
	return v
}

// askCmd runs the real obigrep / obiannotate on the dump directory and fills q.Res / q.S / q.Err.
func askCmd(bindir, dumpdir string, q *query, tag string) {
	q.Res, q.S, q.Err = []int{}, []string{}, ""
	in := filepath.Join(dumpdir, "in_"+tag+".fasta")
	var fb bytes.Buffer
	switch q.Op {
	case "cmd_grep", "cmd_atrank":
		for _, id := range q.In {
			fmt.Fprintf(&fb, ">s%d {\"taxid\":%d}\nacgtacgt\n", id, id)
		}
	case "cmd_lca":
		for i, bag := range q.Sets {
			if bagAsTaxid(bag) {
				fmt.Fprintf(&fb, ">b%d {\"taxid\":%d}\nacgtacgt\n", i, bag[0])
				continue
			}
			parts := []string{}
			for k, id := range bag {
				parts = append(parts, fmt.Sprintf("\"%d\":%d", id, bagWeight(id, k)))
			}
			fmt.Fprintf(&fb, ">b%d {\"merged_taxid\":{%s}}\nacgtacgt\n", i, strings.Join(parts, ","))
		}
	}
	if err := os.WriteFile(in, fb.Bytes(), 0o644); err != nil {
		q.Err = err.Error()
		return
	}
	defer os.Remove(in)
	var args []string
	bin := "obigrep"
	switch q.Op {
	case "cmd_grep":
		args = []string{"-t", dumpdir}
		for _, r := range q.A {
			args = append(args, "-r", strconv.Itoa(r))
		}
		for _, r := range q.B {
			args = append(args, "-i", strconv.Itoa(r))
		}
		for _, r := range q.K {
			args = append(args, "--require-rank", r)
		}
	case "cmd_atrank":
		bin = "obiannotate"
		// the rank asked for among other requested ranks, before and after it (higher and lower ones): the
		// annotation of a rank depends on the sequence's taxon and on that rank only
		args = []string{"-t", dumpdir}
		h := fnv.New32a()
		h.Write([]byte(tag + q.K[0]))
		x := int(h.Sum32() % 997)
		others := []string{}
		for _, r := range c14Ranks {
			if r != q.K[0] {
				others = append(others, r)
			}
		}
		nb, na := x%3, (x/3)%3
		for i := 0; i < nb && len(others) > 0; i++ {
			args = append(args, "--with-taxon-at-rank", others[(x+i*5)%len(others)])
		}
		args = append(args, "--with-taxon-at-rank", q.K[0])
		for i := 0; i < na && len(others) > 0; i++ {
			args = append(args, "--with-taxon-at-rank", others[(x/7+i*3)%len(others)])
		}
	case "cmd_lca":
		bin = "obiannotate"
		args = []string{"-t", dumpdir, "--add-lca-in", "lca"}
	}
	args = append(args, "--max-cpu", "2", in)
	out, rc, stderr := runBinary(filepath.Join(bindir, bin), args, dumpdir)
	// A crash that does not repeat on the same input is not a statement about the taxonomy (it belongs to the
	// concurrency properties of the readers/writers): it is counted and shown in the evidence, and the run is
	// repeated; a failure that repeats three times is reported.
	for attempt := 1; rc != 0 && attempt < 3; attempt++ {
		noteTransient(fmt.Sprintf("%s %v: exit %d (attempt %d): %s", bin, args, rc, attempt, stderr))
		out, rc, stderr = runBinary(filepath.Join(bindir, bin), args, dumpdir)
	}
	if rc != 0 {
		q.Err = fmt.Sprintf("%s %v: exit %d: %s", bin, args, rc, stderr)
		q.Res = []int{-1}
		return
	}
	recs, err := parseFastaHeaders(out)
	if err != nil {
		q.Err = err.Error()
		q.Res = []int{-1}
		return
	}
	switch q.Op {
	case "cmd_grep":
		for _, r := range recs {
			q.Res = append(q.Res, idFromRecName(r.id))
		}
	case "cmd_atrank":
		if len(recs) != len(q.In) {
			q.Err = fmt.Sprintf("obiannotate wrote %d records for %d", len(recs), len(q.In))
			q.Res = []int{-1}
			return
		}
		for i, r := range recs {
			if idFromRecName(r.id) != q.In[i] {
				q.Err = "obiannotate changed the record order"
				q.Res = []int{-1}
				return
			}
			v, has := r.ann[q.K[0]+"_taxid"].(float64)
			nm, _ := r.ann[q.K[0]+"_name"].(string)
			t, name := decodeRankAnnotation(int(v), has, nm)
			q.Res = append(q.Res, t)
			q.S = append(q.S, name)
		}
	case "cmd_lca":
		if len(recs) != len(q.Sets) {
			q.Err = fmt.Sprintf("obiannotate wrote %d records for %d", len(recs), len(q.Sets))
			q.Res = []int{-1}
			return
		}
		for i, r := range recs {
			if idFromRecName(r.id) != i {
				q.Err = "obiannotate changed the record order"
				q.Res = []int{-1}
				return
			}
			v, has := r.ann["lca_taxid"].(float64)
			e, _ := r.ann["lca_error"].(float64)
			nm, _ := r.ann["lca_name"].(string)
			if !has {
				v = -1
			}
			q.Res = append(q.Res, int(v), int(math.Round(e*1000)))
			q.S = append(q.S, nm)
		}
	}
}

// -------------------------------------------------------------------------------------- replay

type grepCombo struct {
	R   []int    `json:"r"`
	I   []int    `json:"i"`
	K   []string `json:"k"`
	Sel []int    `json:"sel"`
}

type bagCase struct {
	M []int `json:"m"`
	X int   `json:"x"`
}

// taxCase: one taxonomy with the expected answer of every query, exported by TLC from TaxModel.tla.
// Tables indexed by id are shifted by one (ids start at 0): res[id] = Res[id], incl[r] = Incl[r].
type taxCase struct {
	taxDef
	QRanks  []string    `json:"qranks"`
	Res     []int       `json:"res"`
	Lca     [][]int     `json:"lca"`
	Path    [][]int     `json:"path"`
	Sub     [][]int     `json:"sub"`
	Clade   [][]int     `json:"clade"`
	AtRank  [][]int     `json:"atrank"`
	HasRank [][]int     `json:"hasrank"`
	SetLca  []int       `json:"setlca"`
	Incl    [][]int     `json:"incl"`
	SeqRank [][]int     `json:"seqrank"`
	Grep    []grepCombo `json:"grep"`
	Bags    []bagCase   `json:"bags"`
	Cmd     bool        `json:"cmd,omitempty"` // also run the binaries on this case

	local map[string]int // comparisons made on this case, by class
}

func (c *taxCase) nameOf(x int) string {
	if x == 0 {
		return ""
	}
	return c.Name[x-1]
}

func eqInts(a, b []int) bool {
	if len(a) != len(b) {
		return false
	}
	for i := range a {
		if a[i] != b[i] {
			return false
		}
	}
	return true
}

func eqStrs(a, b []string) bool {
	if len(a) != len(b) {
		return false
	}
	for i := range a {
		if a[i] != b[i] {
			return false
		}
	}
	return true
}

func sameSet(a, b []int) bool {
	x := append([]int(nil), a...)
	y := append([]int(nil), b...)
	sort.Ints(x)
	sort.Ints(y)
	return eqInts(x, y)
}

func reversed(a []int) []int {
	r := make([]int, len(a))
	for i, v := range a {
		r[len(a)-1-i] = v
	}
	return r
}

func hasStr(l []string, s string) bool {
	for _, x := range l {
		if x == s {
			return true
		}
	}
	return false
}

type c14replayer struct {
	env    *Env
	bindir string
	tmp    string
	mu     sync.Mutex
	counts map[string]int
	nfail  map[string]int
}

func (r *c14replayer) count(class string, n int) {
	r.mu.Lock()
	r.counts[class] += n
	r.mu.Unlock()
}

// check compares one answer of the real code with the value the specification exported.
func (r *c14replayer) check(c *taxCase, src string, q *query, wantRes []int, wantS []string, asSet bool) {
	if c.local == nil {
		c.local = map[string]int{}
	}
	q.Src = src
	ok := q.Err == ""
	if ok {
		if asSet {
			ok = sameSet(q.Res, wantRes)
		} else {
			ok = eqInts(q.Res, wantRes)
		}
	}
	if ok && wantS != nil {
		ok = eqStrs(q.S, wantS)
	}
	c.local[src+"."+q.Op]++
	if ok {
		return
	}
	assert := "C14." + q.Op
	cls := src
	r.mu.Lock()
	r.nfail[assert+cls]++
	n := r.nfail[assert+cls]
	r.mu.Unlock()
	if n > 3 { // keep the result file small: three witnesses per (assertion, class)
		return
	}
	detail := fmt.Sprintf("%s(a=%v b=%v k=%v in=%v sets=%v) on "+c.shape()+" parent=%v rank=%v alias=%v [%s]: real code answered %v %v %s, Tax.tla says %v %v",
		q.Op, q.A, q.B, q.K, q.In, q.Sets, c.Parent, c.Rank, c.Alias, src, q.Res, q.S, q.Err, wantRes, wantS)
	cc := *c
	cc.local = nil
	cc.Cmd = src == "cmd"
	r.env.fail(assert, cls, detail, cc)
}

func (r *c14replayer) libQueries(c *taxCase, src string, tx *obitax.Taxonomy) {
	n := c.n()
	root := c.rootTaxid()
	nid := len(c.Res) // ids 0..nid-1
	known := []int{}  // ids the specification resolves to a taxon
	allIds := []int{}
	broken := map[int]bool{}
	for id := 0; id < nid; id++ {
		allIds = append(allIds, id)
	}
	for id := 0; id < nid; id++ {
		q := newQuery(src, "resolve")
		q.A = []int{id}
		ask(tx, q)
		r.check(c, src, q, []int{c.Res[id]}, nil, false)
		switch {
		case c.Res[id] == 0:
			c.local["scn.resolve_unknown_id"]++
		case id > n:
			c.local["scn.resolve_merged_id"]++
		}
		if c.Res[id] != 0 && (q.Err != "" || !eqInts(q.Res, []int{c.Res[id]})) {
			broken[id] = true // reported above; the other queries are asked about ids the real code does resolve
		}
		q = newQuery(src, "resolve_str")
		q.A = []int{id}
		ask(tx, q)
		r.check(c, src, q, []int{c.Res[id]}, nil, false)
		q = newQuery(src, "tpath")
		q.A = []int{id}
		ask(tx, q)
		want := []int{}
		if c.Res[id] != 0 {
			want = c.Path[c.Res[id]-1]
		}
		r.check(c, src, q, want, nil, false)
	}
	for id := 0; id < nid; id++ {
		if c.Res[id] != 0 && !broken[id] {
			known = append(known, id)
		}
	}
	if len(broken) > 0 { // sequence-level queries quantify over all ids: not asked on a taxonomy whose aliases are broken
		return
	}
	for _, x := range known {
		rx := c.Res[x]
		q := newQuery(src, "path")
		q.A = []int{x}
		ask(tx, q)
		r.check(c, src, q, c.Path[rx-1], nil, false)
		q = newQuery(src, "seq_path")
		q.A = []int{x}
		ask(tx, q)
		r.check(c, src, q, reversed(c.Path[rx-1]), nil, false)
		q = newQuery(src, "clade")
		q.A = []int{x}
		ask(tx, q)
		r.check(c, src, q, c.Clade[rx-1], nil, true)
		for _, y := range known {
			ry := c.Res[y]
			q := newQuery(src, "lca")
			q.A = []int{x, y}
			ask(tx, q)
			r.check(c, src, q, []int{c.Lca[rx-1][ry-1]}, nil, false)
			// scenario classes (coverage only, read off the exported tables)
			switch {
			case x == y:
				c.local["scn.lca_same_taxon"]++
			case c.Sub[rx-1][ry-1] == 1 || c.Sub[ry-1][rx-1] == 1:
				c.local["scn.lca_ancestor_and_descendant"]++
			case len(c.Path[rx-1]) != len(c.Path[ry-1]):
				c.local["scn.lca_unequal_depths"]++
			default:
				c.local["scn.lca_equal_depths"]++
			}
			if x > n || y > n {
				c.local["scn.lca_through_alias"]++
			}
			if rx == root || ry == root {
				c.local["scn.lca_with_root"]++
			}
			q = newQuery(src, "sub")
			q.A = []int{x, y}
			ask(tx, q)
			r.check(c, src, q, []int{c.Sub[rx-1][ry-1]}, nil, false)
		}
		for qi, rank := range c.QRanks {
			q := newQuery(src, "atrank")
			q.A, q.K = []int{x}, []string{rank}
			ask(tx, q)
			want := c.AtRank[qi][rx-1]
			r.check(c, src, q, []int{want}, []string{c.nameOf(want)}, false)
			switch {
			case want == 0:
				c.local["scn.atrank_none"]++
			case want == rx:
				c.local["scn.atrank_self"]++
			case want == root:
				c.local["scn.atrank_is_root"]++
			default:
				c.local["scn.atrank_inner_ancestor"]++
			}
			q = newQuery(src, "hasrank")
			q.A, q.K = []int{x}, []string{rank}
			ask(tx, q)
			r.check(c, src, q, []int{c.HasRank[qi][rx-1]}, nil, false)
		}
	}
	// membership in a set of clades {b1, b2}: the union of two rows of the sub table
	for a := 1; a <= n; a++ {
		for b1 := 1; b1 <= n; b1++ {
			b2 := (b1+a)%n + 1
			q := newQuery(src, "belong")
			q.A, q.B = []int{a}, []int{b1, b2}
			ask(tx, q)
			want := c.Sub[a-1][b1-1]
			if c.Sub[a-1][b2-1] == 1 {
				want = 1
			}
			r.check(c, src, q, []int{want}, nil, false)
		}
	}
	// sequence predicates and annotations over all record taxids (nodes, merged ids, unknown ids)
	for _, rr := range known {
		q := newQuery(src, "seq_restrict")
		q.A, q.In = []int{rr}, allIds
		ask(tx, q)
		r.check(c, src, q, c.Incl[rr], nil, true)
	}
	q := newQuery(src, "seq_valid")
	q.In = allIds
	ask(tx, q)
	r.check(c, src, q, known, nil, true)
	for qi, rank := range c.QRanks {
		if !hasStr(c.Rank, rank) { // the library refuses (log.Fatal) a rank label that no taxon bears
			continue
		}
		q := newQuery(src, "seq_atrank")
		q.K, q.In = []string{rank}, allIds
		ask(tx, q)
		names := []string{}
		for _, t := range c.SeqRank[qi] {
			names = append(names, c.nameOf(t))
		}
		r.check(c, src, q, c.SeqRank[qi], names, false)
	}
	// LCA of bags: every non-empty subset of the nodes (bit i-1 of the mask = node i) + the exported bags with merged ids
	sets, want, wantS := [][]int{}, []int{}, []string{}
	for m := 1; m <= len(c.SetLca); m++ {
		bag := []int{}
		for i := 1; i <= n; i++ {
			if (m>>(i-1))&1 == 1 {
				bag = append(bag, i)
			}
		}
		sets = append(sets, bag)
		want = append(want, c.SetLca[m-1], 0)
		wantS = append(wantS, c.nameOf(c.SetLca[m-1]))
	}
	for _, b := range c.Bags {
		sets = append(sets, b.M)
		want = append(want, b.X, 0)
		wantS = append(wantS, c.nameOf(b.X))
	}
	q = newQuery(src, "seq_lca")
	q.Sets = sets
	ask(tx, q)
	r.check(c, src, q, want, nil, false)
	q = newQuery(src, "seq_lca_worker")
	q.Sets = sets
	ask(tx, q)
	r.check(c, src, q, want, wantS, false)
}

func (r *c14replayer) cmdQueries(c *taxCase, dumpdir string) {
	allIds := []int{}
	for id := range c.Res {
		allIds = append(allIds, id)
	}
	for gi, g := range c.Grep {
		q := newQuery("cmd", "cmd_grep")
		q.A, q.B, q.K, q.In = g.R, g.I, g.K, allIds
		askCmd(r.bindir, dumpdir, q, "g"+strconv.Itoa(gi))
		r.check(c, "cmd", q, g.Sel, nil, true)
	}
	for qi, rank := range c.QRanks {
		q := newQuery("cmd", "cmd_atrank")
		q.K, q.In = []string{rank}, allIds
		askCmd(r.bindir, dumpdir, q, "r"+strconv.Itoa(qi))
		names := []string{}
		for _, t := range c.SeqRank[qi] {
			names = append(names, c.nameOf(t))
		}
		r.check(c, "cmd", q, c.SeqRank[qi], names, false)
	}
	sets, want, wantS := [][]int{}, []int{}, []string{}
	n := c.n()
	for m := 1; m <= len(c.SetLca); m++ {
		bag := []int{}
		for i := 1; i <= n; i++ {
			if (m>>(i-1))&1 == 1 {
				bag = append(bag, i)
			}
		}
		sets = append(sets, bag)
		want = append(want, c.SetLca[m-1], 0)
		wantS = append(wantS, c.nameOf(c.SetLca[m-1]))
	}
	for _, b := range c.Bags {
		sets = append(sets, b.M)
		want = append(want, b.X, 0)
		wantS = append(wantS, c.nameOf(b.X))
	}
	q := newQuery("cmd", "cmd_lca")
	q.Sets = sets
	askCmd(r.bindir, dumpdir, q, "l")
	r.check(c, "cmd", q, want, wantS, false)
}

func replayC14(env *Env) {
	cases := loadCases[taxCase](env.cases)
	r := &c14replayer{env: env, bindir: env.opt("bindir", ""), counts: map[string]int{}, nfail: map[string]int{}}
	tmp := os.Getenv("VERIF_SCRATCH")
	if tmp == "" {
		tmp = os.TempDir()
	}
	tmp, err := os.MkdirTemp(tmp, "c14-replay-")
	if err != nil {
		fmt.Fprintln(os.Stderr, err)
		os.Exit(2)
	}
	defer os.RemoveAll(tmp)
	r.tmp = tmp
	parallel(len(cases), 0, func(i int) {
		c := &cases[i]
		rng := rand.New(rand.NewSource(env.seed*1000003 + int64(i)))
		cls := c.shape()
		// (1) through the library API
		tx, loaded, prob := buildAPI(&c.taxDef, rng)
		if prob != "" || loaded != c.n() {
			env.fail("C14.load", "api/"+cls, fmt.Sprintf("loading parent=%v through AddNewTaxa/ReindexParent: %s (%d taxa)", c.Parent, prob, loaded), *c)
		} else {
			r.libQueries(c, "api", tx)
		}
		// (2) through a synthetic NCBI dump directory
		dir := filepath.Join(tmp, "d"+strconv.Itoa(i))
		if err := writeDump(dir, &c.taxDef, rng); err != nil {
			fmt.Fprintln(os.Stderr, "cannot write dump:", err)
			os.Exit(2)
		}
		tx2, loaded2, prob2 := loadDump(dir, i%2 == 0)
		if prob2 != "" || loaded2 != c.n() {
			env.fail("C14.load", "dump/"+cls, fmt.Sprintf("loading parent=%v through LoadNCBITaxDump: %s (%d taxa)", c.Parent, prob2, loaded2), *c)
		} else {
			r.libQueries(c, "dump", tx2)
		}
		// (3) the binaries
		if c.Cmd && r.bindir != "" {
			r.cmdQueries(c, dir)
			r.count("cases.cmd", 1)
		}
		os.RemoveAll(dir)
		r.mu.Lock()
		for k, v := range c.local {
			r.counts[k] += v
		}
		r.mu.Unlock()
		env.ok("shape." + cls)
		if c.rootTaxid() != 1 {
			r.count("cases.root_not_1", 1)
		}
		if c.n() >= 4 && len(c.Alias) > 0 {
			env.sample(map[string]any{"parent": c.Parent, "rank": c.Rank, "alias": c.Alias, "lca": c.Lca, "grep": c.Grep})
		}
	})
	env.mu.Lock()
	for k, v := range r.counts {
		env.classes[k] += v
	}
	env.classes["cmd.transient_crash_repeated_ok"] += c14Transient.n
	env.mu.Unlock()
	for _, m := range c14Transient.msgs {
		env.emit(map[string]any{"sample": map[string]any{"transient_binary_failure": m}})
	}
}

// -------------------------------------------------------------------------------------- record

type loadEvent struct {
	E string `json:"e"` // "load"
	taxDef
	Shape  string `json:"shape"`
	Loaded []int  `json:"loaded"` // taxa counted by the real taxonomy after loading [api, dump]
	Err    string `json:"err"`
}

var c14Ranks = []string{"species", "genus", "family", "order", "class", "no rank", "subspecies"}

// randomTree returns the parent vector (taxids 1..n, randomly relabelled so that the root is any taxid).
func randomTree(rng *rand.Rand, n int, shape string) []int {
	par := make([]int, n) // on positions 0..n-1, position 0 is the root
	for i := 1; i < n; i++ {
		switch shape {
		case "chain":
			par[i] = i - 1
		case "star":
			par[i] = 0
		case "binary":
			par[i] = (i - 1) / 2
		case "caterpillar": // spine on the even positions, one leaf per spine node
			if i%2 == 0 {
				par[i] = i - 2
			} else {
				par[i] = i - 1
			}
		case "deep":
			if rng.Intn(20) > 0 {
				par[i] = i - 1
			} else {
				par[i] = rng.Intn(i)
			}
		case "broom":
			if i < n/2 {
				par[i] = i - 1
			} else {
				par[i] = n/2 - 1
				if par[i] < 0 {
					par[i] = 0
				}
			}
		default: // "random": uniform random recursive tree
			par[i] = rng.Intn(i)
		}
	}
	perm := rng.Perm(n)
	out := make([]int, n)
	for i := 0; i < n; i++ {
		out[perm[i]] = perm[par[i]] + 1
	}
	return out
}

func randomTaxDef(rng *rand.Rand, n int, shape string) *taxDef {
	d := &taxDef{Parent: randomTree(rng, n, shape), Rank: make([]string, n), Name: make([]string, n), Alias: [][]int{}}
	few := rng.Intn(2) == 0
	for i := 0; i < n; i++ {
		if few {
			d.Rank[i] = c14Ranks[rng.Intn(3)]
		} else {
			d.Rank[i] = c14Ranks[rng.Intn(len(c14Ranks))]
		}
		d.Name[i] = "Taxon " + strconv.Itoa(i+1)
	}
	if (shape == "chain" || n > 150) && rng.Intn(2) == 0 {
		// ranks that occur near the root only: from a deep taxon the nearest ancestor of such a rank is hundreds of
		// parent links away
		root := d.rootTaxid()
		for i := 0; i < n; i++ {
			d.Rank[i] = "no rank"
			if p := d.Parent[i]; i+1 == root || p == root || d.Parent[p-1] == root {
				d.Rank[i] = []string{"class", "order", "family"}[rng.Intn(3)]
			}
		}
	}
	na := rng.Intn(8)
	if rng.Intn(5) == 0 {
		na = 0
	}
	used := map[int]bool{}
	for k := 0; k < na; k++ {
		old := n + 1 + rng.Intn(3*na+3)
		if used[old] {
			continue
		}
		used[old] = true
		d.Alias = append(d.Alias, []int{old, 1 + rng.Intn(n)})
	}
	return d
}

type c14recorder struct {
	env    *Env
	bindir string
	tmp    string
}

// anyId: mostly nodes, sometimes merged ids, sometimes ids that mean nothing
func anyId(rng *rand.Rand, d *taxDef, unknownToo bool) int {
	n := d.n()
	x := rng.Intn(100)
	switch {
	case x < 15 && len(d.Alias) > 0:
		return d.Alias[rng.Intn(len(d.Alias))][0]
	case x < 25 && unknownToo:
		return []int{0, -3, n + 1000 + rng.Intn(50), 4*n + 77}[rng.Intn(4)]
	case x < 35:
		return d.rootTaxid()
	default:
		return 1 + rng.Intn(n)
	}
}

func pickRank(rng *rand.Rand, d *taxDef, presentOnly bool) string {
	if presentOnly || rng.Intn(4) > 0 {
		return d.Rank[rng.Intn(d.n())]
	}
	return append(c14Ranks, "kingdom")[rng.Intn(len(c14Ranks)+1)]
}

// randomQuery draws one library query (inputs only).
func randomQuery(rng *rand.Rand, d *taxDef, src string, big bool) *query {
	ops := []string{"lca", "lca", "lca", "lca", "sub", "sub", "path", "atrank", "atrank", "hasrank", "resolve", "resolve_str",
		"tpath", "belong", "clade", "seq_restrict", "seq_hasrank", "seq_valid", "seq_atrank", "seq_lca", "seq_lca_worker", "seq_path"}
	op := ops[rng.Intn(len(ops))]
	if big && (op == "clade" || op == "path" || op == "tpath" || op == "seq_path") && rng.Intn(4) > 0 {
		op = "lca" // long answers on huge trees: keep a few only
	}
	q := newQuery(src, op)
	someIds := func(k int, unknownToo bool) []int {
		l := []int{}
		for i := 0; i < k; i++ {
			l = append(l, anyId(rng, d, unknownToo))
		}
		return l
	}
	switch op {
	case "lca", "sub":
		q.A = someIds(2, false)
		if rng.Intn(6) == 0 {
			q.A[1] = q.A[0]
		}
	case "path", "clade", "seq_path":
		q.A = someIds(1, false)
	case "resolve", "resolve_str", "tpath":
		q.A = someIds(1, true)
	case "atrank", "hasrank":
		q.A = someIds(1, false)
		q.K = []string{pickRank(rng, d, false)}
	case "belong":
		q.A = someIds(1, false)
		q.B = someIds(1+rng.Intn(3), false)
	case "seq_restrict":
		q.A = someIds(1, false)
		q.In = someIds(6, true)
	case "seq_hasrank", "seq_atrank":
		q.K = []string{pickRank(rng, d, true)}
		q.In = someIds(6, true)
	case "seq_valid":
		q.In = someIds(6, true)
	case "seq_lca", "seq_lca_worker":
		for i := 0; i < 3; i++ {
			bag := uniq(someIds(1+rng.Intn(5), false))
			if x := bag[0]; i > 0 && x >= 1 && x <= d.n() { // add relatives: the parent and the grand-parent of the first member
				bag = uniq(append(bag, d.Parent[x-1], d.Parent[d.Parent[x-1]-1]))
			}
			q.Sets = append(q.Sets, bag)
		}
	}
	return q
}

func uniq(l []int) []int {
	seen := map[int]bool{}
	out := []int{}
	for _, v := range l {
		if !seen[v] {
			seen[v] = true
			out = append(out, v)
		}
	}
	return out
}

func randomCmdQuery(rng *rand.Rand, d *taxDef) *query {
	someIds := func(k int, unknownToo bool) []int {
		l := []int{}
		for i := 0; i < k; i++ {
			l = append(l, anyId(rng, d, unknownToo))
		}
		return uniq(l)
	}
	switch rng.Intn(4) {
	case 0, 1:
		q := newQuery("cmd", "cmd_grep")
		switch rng.Intn(5) {
		case 0:
			q.A = someIds(1+rng.Intn(2), false)
		case 1:
			q.B = someIds(1+rng.Intn(2), false)
		case 2:
			q.K = []string{pickRank(rng, d, true)}
			if rng.Intn(2) == 0 {
				q.K = append(q.K, pickRank(rng, d, true))
			}
		default:
			q.A = someIds(rng.Intn(3), false)
			q.B = someIds(rng.Intn(3), false)
			if rng.Intn(2) == 0 {
				q.K = []string{pickRank(rng, d, true)}
			}
		}
		q.In = someIds(25, true)
		return q
	case 2:
		q := newQuery("cmd", "cmd_atrank")
		q.K = []string{pickRank(rng, d, false)}
		q.In = someIds(25, true)
		return q
	default:
		q := newQuery("cmd", "cmd_lca")
		for i := 0; i < 12; i++ {
			q.Sets = append(q.Sets, someIds(1+rng.Intn(5), false))
		}
		return q
	}
}

// runScenario loads d both ways, runs the queries, and emits the load event followed by the query events.
func (r *c14recorder) runScenario(d *taxDef, shape string, qs []*query, seed int64, idx int, emit func(any)) {
	rng := rand.New(rand.NewSource(seed))
	ev := loadEvent{E: "load", taxDef: *d, Shape: shape, Loaded: []int{-1, -1}}
	api, n1, p1 := buildAPI(d, rng)
	dir := filepath.Join(r.tmp, "t"+strconv.Itoa(idx))
	if err := writeDump(dir, d, rng); err != nil {
		fmt.Fprintln(os.Stderr, "cannot write dump:", err)
		os.Exit(2)
	}
	defer os.RemoveAll(dir)
	dump, n2, p2 := loadDump(dir, idx%2 == 0)
	ev.Loaded = []int{n1, n2}
	ev.Err = p1 + p2
	emit(ev)
	if api == nil || dump == nil {
		return
	}
	for qi, q := range qs {
		switch q.Src {
		case "api":
			ask(api, q)
		case "dump":
			ask(dump, q)
		case "cmd":
			if r.bindir == "" {
				continue
			}
			askCmd(r.bindir, dir, q, strconv.Itoa(qi))
		}
		emit(q)
	}
	// The taxonomy is shared by all the workers of a command: the same library queries are asked again
	// from several goroutines at once, many times; an answer that differs from the one recorded above is
	// emitted as one more event (TLC judges it like any other answer).
	var lib []*query
	for _, q := range qs {
		if q.Src != "cmd" && !c14MayFatal[q.Op] && q.Err == "" {
			lib = append(lib, q)
		}
	}
	if len(lib) > 0 {
		budget := 150 * time.Millisecond
		if len(d.Parent) > 1000 {
			budget = 1200 * time.Millisecond
		}
		deadline := time.Now().Add(budget)
		var wg sync.WaitGroup
		var emu sync.Mutex
		deviations := 0
		for g := 0; g < 8; g++ {
			wg.Add(1)
			go func(g int) {
				defer wg.Done()
				for round := 0; time.Now().Before(deadline); round++ {
					for k := range lib {
						q := lib[(k*7+g*13+round)%len(lib)]
						c := *q
						tx := api
						if q.Src == "dump" {
							tx = dump
						}
						ask(tx, &c)
						if !reflect.DeepEqual(c.Res, q.Res) || !reflect.DeepEqual(c.S, q.S) || c.Err != q.Err {
							emu.Lock()
							if deviations < 5 {
								emit(&c)
							}
							deviations++
							emu.Unlock()
						}
					}
				}
			}(g)
		}
		wg.Wait()
	}
}

type c14script struct {
	Load    taxDef   `json:"load"`
	Queries []*query `json:"queries"`
}

func recordC14(env *Env) {
	tmp := os.Getenv("VERIF_SCRATCH")
	if tmp == "" {
		tmp = os.TempDir()
	}
	tmp, err := os.MkdirTemp(tmp, "c14-record-")
	if err != nil {
		fmt.Fprintln(os.Stderr, err)
		os.Exit(2)
	}
	defer os.RemoveAll(tmp)
	r := &c14recorder{env: env, bindir: env.opt("bindir", ""), tmp: tmp}

	// re-run of one reported scenario (bin/check C14 --replay): inputs from the script, answers from the real code
	if sp := env.opt("script", ""); sp != "" {
		raw, err := os.ReadFile(sp)
		if err != nil {
			fmt.Fprintln(os.Stderr, err)
			os.Exit(2)
		}
		var sc c14script
		if err := json.Unmarshal(raw, &sc); err != nil {
			fmt.Fprintln(os.Stderr, err)
			os.Exit(2)
		}
		r.runScenario(&sc.Load, sc.Load.shape(), sc.Queries, env.seed, 0, env.emit)
		return
	}

	maxn := env.optInt("maxn", 5000)
	nq := env.optInt("queries", 300)
	ncmd := env.optInt("cmdtrees", 6)
	shapes := []string{"random", "chain", "star", "binary", "caterpillar", "deep", "broom", "random"}
	type job struct {
		d     *taxDef
		shape string
		qs    []*query
		seed  int64
	}
	jobs := []job{}
	for t := 0; t < env.n; t++ {
		rng := rand.New(rand.NewSource(env.seed*7919 + int64(t)))
		shape := shapes[t%len(shapes)]
		var n int
		switch {
		case t < 8:
			n = 1 + t // 1..8 nodes
		case t%9 == 8:
			n = maxn/2 + rng.Intn(maxn/2+1) // thousands of nodes
		case t%3 == 0:
			n = 200 + rng.Intn(800)
		default:
			n = 9 + rng.Intn(120)
		}
		d := randomTaxDef(rng, n, shape)
		big := n > 1500
		k := nq
		if big {
			k = nq / 4
		}
		qs := []*query{}
		for i := 0; i < k; i++ {
			src := "api"
			if rng.Intn(2) == 0 {
				src = "dump"
			}
			qs = append(qs, randomQuery(rng, d, src, big))
		}
		if r.bindir != "" && ((t%3 == 2 && t < 2+3*ncmd) || (n > 150 && n < 400 && t%2 == 0)) {
			for i := 0; i < 6; i++ {
				qs = append(qs, randomCmdQuery(rng, d))
			}
		}
		jobs = append(jobs, job{d, shape, qs, env.seed*31 + int64(t)})
	}
	// a chain of 300 taxa whose upper ranks occur next to the root only, asked about its deepest taxa
	{
		rng := rand.New(rand.NewSource(env.seed*104729 + 7))
		n := 300
		d := &taxDef{Parent: randomTree(rng, n, "chain"), Rank: make([]string, n), Name: make([]string, n), Alias: [][]int{}}
		root := d.rootTaxid()
		depth := make([]int, n+1)
		for i := 1; i <= n; i++ {
			for x := i; x != root; x = d.Parent[x-1] {
				depth[i]++
			}
		}
		for i := 0; i < n; i++ {
			d.Name[i] = "Taxon " + strconv.Itoa(i+1)
			d.Rank[i] = "no rank"
			if depth[i+1] <= 2 {
				d.Rank[i] = []string{"class", "order", "family"}[depth[i+1]]
			}
		}
		qs := []*query{}
		for i := 1; i <= n; i++ {
			if depth[i] < n-12 && depth[i] != 150 && depth[i] != 101 && depth[i] != 102 {
				continue
			}
			for _, rk := range []string{"class", "family", "no rank"} {
				for _, op := range []string{"hasrank", "atrank", "seq_hasrank", "seq_atrank"} {
					src := "api"
					if (i+len(rk))%2 == 0 {
						src = "dump"
					}
					q := newQuery(src, op)
					q.K = []string{rk}
					if strings.HasPrefix(op, "seq_") {
						q.In = []int{i}
					} else {
						q.A = []int{i}
					}
					qs = append(qs, q)
				}
			}
		}
		jobs = append(jobs, job{d, "chain", qs, env.seed*31 + 9999})
	}
	// run the scenarios in parallel, write each one's events contiguously (load first)
	var wmu sync.Mutex
	parallel(len(jobs), 0, func(i int) {
		buf := []any{}
		r.runScenario(jobs[i].d, jobs[i].shape, jobs[i].qs, jobs[i].seed, i, func(v any) { buf = append(buf, v) })
		wmu.Lock()
		for _, v := range buf {
			env.emit(v)
		}
		wmu.Unlock()
	})
}

package main

// C07 record mode: random histories on real *obiseq.BioSequence objects, far beyond the bounds TLC
// enumerates (sequences up to several hundred symbols over the full 19-symbol alphabet, windows
// anywhere, up to 6 objects and 40 operations), run concurrently so that they share the slice pool.
// After every operation the value of ALL live objects is logged; SeqHeapTrace.tla recomputes the
// value semantics step by step and rejects the first step that disagrees.

import (
	"fmt"
	"math/rand"

	"git.metabarcoding.org/obitools/obitools4/obitools4/pkg/obialign"
	"git.metabarcoding.org/obitools/obitools4/obitools4/pkg/obiseq"
	"git.metabarcoding.org/obitools/obitools4/obitools4/pkg/obitools/obipairing"
)

// c07Paired makes a consensus with the library's own read pairing: two reads of one fragment overlapping by 25+
// bases, with one to three substitutions in the overlap whose qualities sweep the whole range (2..40), so that the
// pairing_mismatches annotation is the one the library itself writes (keys included).
func c07Paired(rng *rand.Rand) *obiseq.BioSequence {
	L := 70 + rng.Intn(60)
	frag := make([]byte, L)
	for i := range frag {
		frag[i] = "acgt"[rng.Intn(4)]
	}
	o := 30 + rng.Intn(20)
	la := (L + o) / 2
	a := append([]byte{}, frag[:la]...)
	b := append([]byte{}, frag[L-(L+o-la):]...)
	qa, qb := make([]byte, len(a)), make([]byte, len(b))
	for i := range qa {
		qa[i] = byte(30 + rng.Intn(11))
	}
	for i := range qb {
		qb[i] = byte(30 + rng.Intn(11))
	}
	for k := 1 + rng.Intn(3); k > 0; k-- {
		p := la - o + 3 + rng.Intn(o-6) // a position of the fragment inside the overlap
		c := "acgt"[rng.Intn(4)]
		for c == frag[p] {
			c = "acgt"[rng.Intn(4)]
		}
		q := byte(2 + rng.Intn(39))
		if rng.Intn(2) == 0 {
			a[p], qa[p] = c, q
			if rng.Intn(2) == 0 {
				qb[p-(L-len(b))] = byte(2 + rng.Intn(12)) // both scores below 10
			}
		} else {
			b[p-(L-len(b))], qb[p-(L-len(b))] = c, q
		}
	}
	sa := obiseq.NewBioSequenceWithQualities("pa", a, "", qa)
	sb := obiseq.NewBioSequenceWithQualities("pb", b, "", qb)
	return obipairing.AssemblePESequences(sa, sb, 2, 1, 5, 20, 0.8, true, false, false, true, obialign.MakePEAlignArena(150, 150), nil)
}

type c07Step struct {
	c07Op
	Obs     []c07Slot `json:"obs"`
	Ret     c07Slot   `json:"ret"`
	Problem string    `json:"problem"`
}

type c07Event struct {
	Kind  string    `json:"kind"` // "single" (long sequences, 1-3 operations) | "long" (many operations)
	N     int       `json:"n"`
	Steps []c07Step `json:"steps"`
}

const c07Alphabet = "acgtacgtacgtrymkswbdhvn.-[]"

func c07RandSeq(rng *rand.Rand, n int) []string {
	s := make([]string, n)
	for i := range s {
		s[i] = string(c07Alphabet[rng.Intn(len(c07Alphabet))])
	}
	return s
}

func c07RandQual(rng *rand.Rand, n int) []int {
	q := make([]int, n)
	for i := range q {
		q[i] = rng.Intn(94)
	}
	return q
}

func c07RandVal(rng *rand.Rand, n int) c07Val {
	v := c07Val{Seq: c07RandSeq(rng, n), Qual: []int{}, MM: []c07MM{}}
	if rng.Intn(3) > 0 {
		v.Qual = c07RandQual(rng, n)
	}
	if rng.Intn(2) == 0 {
		k := 1 + rng.Intn(4)
		if rng.Intn(4) == 0 {
			k = 9 + rng.Intn(8) // more entries than a small Go map holds in one bucket
		}
		used := map[int]bool{}
		first := 0
		for j := 0; j < k; j++ {
			p := 1 + rng.Intn(n)
			if j == 0 {
				first = p
			}
			if j == 2 && rng.Intn(2) == 0 {
				p = n + 1 - first // the mirror position of the first mismatch
			}
			if j == 0 && rng.Intn(2) == 0 {
				p = n // the last position is the interesting one
				first = p
			}
			if j == 1 && rng.Intn(2) == 0 {
				p = 1
			}
			qx := rng.Intn(90)
			for used[qx] {
				qx = rng.Intn(90)
			}
			used[qx] = true
			v.MM = append(v.MM, c07MM{P: p, X: string("acgt"[rng.Intn(4)]), QX: qx, Y: string("acgtrykm"[rng.Intn(8)]), QY: rng.Intn(90)})
		}
	}
	if rng.Intn(3) == 0 {
		// a feature table as the EMBL / GenBank readers attach it (below and above the 1024-byte limit of the slice pool)
		k := []int{24, 120, 320, 700, 1024, 1500}[rng.Intn(6)]
		f := make([]byte, k)
		for i := range f {
			f[i] = "FT source/=1.CDS"[rng.Intn(16)]
		}
		v.Feat = string(f)
	}
	return v
}

func c07Lengths(rng *rand.Rand, max int) int {
	switch rng.Intn(6) {
	case 0:
		return 1
	case 1:
		return 2
	case 2:
		return 1 + 2*rng.Intn((max+1)/2) // odd
	case 3:
		return 2 + 2*rng.Intn(max/2) // even
	}
	return 1 + rng.Intn(max)
}

// a random valid window for a sequence of length n
func c07Window(rng *rand.Rand, n int) (from, to, circ int) {
	switch rng.Intn(5) {
	case 0, 1: // linear
		from = rng.Intn(n)
		to = from + 1 + rng.Intn(n-from)
		if rng.Intn(4) == 0 {
			to = n
		}
		return from, to, 0
	case 2: // circular, no wrap needed or window reaching over the end (to > n)
		from = rng.Intn(2 * n)
		w := 1 + rng.Intn(n)
		to = from + w
		if to > 2*n {
			to = 2 * n
		}
		return from, to, 1
	default: // circular through the origin: to <= from < n
		from = rng.Intn(n)
		to = rng.Intn(from + 1)
		return from, to, 1
	}
}

func emptyVal() c07Val { return c07Val{Seq: []string{}, Qual: []int{}, MM: []c07MM{}} }

func normOp(op c07Op) c07Op {
	op.V.norm()
	if op.S == nil {
		op.S = []string{}
	}
	if op.Q == nil {
		op.Q = []int{}
	}
	return op
}

// c07RunSteps executes ops on a fresh real heap and logs the observation after every step.
func c07RunSteps(n int, next func(h *realHeap, i int) (c07Op, bool)) []c07Step {
	h := newRealHeap(n)
	steps := []c07Step{}
	for i := 0; ; i++ {
		op, ok := next(h, i)
		if !ok {
			break
		}
		op = normOp(op)
		st := c07Step{c07Op: op, Ret: c07Slot{L: 0, V: emptyVal()}}
		ret, problem := h.apply(op)
		st.Problem = problem
		func() {
			defer func() {
				if r := recover(); r != nil {
					st.Problem = fmt.Sprintf("panic while observing: %v", r)
				}
			}()
			if ret != nil && op.Inplace == 1 {
				st.Ret = c07Slot{L: 1, V: observe(ret)}
			}
			st.Obs = h.observeAll()
		}()
		if st.Obs == nil {
			st.Obs = []c07Slot{}
		}
		steps = append(steps, st)
		if st.Problem != "" {
			break
		}
	}
	return steps
}

func c07RandomOp(rng *rand.Rand, h *realHeap, maxLen int) (c07Op, bool) {
	n := len(h.objs) - 1
	live := []int{}
	free := 0
	for i := 1; i <= n; i++ {
		if h.objs[i] != nil {
			live = append(live, i)
		} else if free == 0 {
			free = i
		}
	}
	if len(live) == 0 {
		return c07Op{Op: "new", R: free, V: c07RandVal(rng, c07Lengths(rng, maxLen))}, true
	}
	for try := 0; try < 50; try++ {
		o := live[rng.Intn(len(live))]
		ln := h.objs[o].Len()
		if ln == 0 {
			return c07Op{}, false
		}
		switch rng.Intn(12) {
		case 0:
			if free != 0 {
				return c07Op{Op: "new", R: free, V: c07RandVal(rng, c07Lengths(rng, maxLen))}, true
			}
		case 1:
			if free != 0 {
				return c07Op{Op: "copy", O: o, R: free}, true
			}
		case 2, 3:
			if free != 0 {
				f, t, c := c07Window(rng, ln)
				return c07Op{Op: "sub", O: o, R: free, From: f, To: t, Circ: c}, true
			}
		case 4:
			return c07Op{Op: "rc", O: o, Inplace: 1}, true
		case 5:
			if free != 0 {
				return c07Op{Op: "rc", O: o, R: free, Inplace: 0}, true
			}
		case 6:
			return c07Op{Op: "setseq", O: o, S: c07RandSeq(rng, ln)}, true
		case 7:
			return c07Op{Op: "setqual", O: o, Q: c07RandQual(rng, ln)}, true
		case 8:
			return c07Op{Op: "mutate", O: o, I: 1 + rng.Intn(ln), X: string(c07Alphabet[rng.Intn(len(c07Alphabet))]), QX: rng.Intn(94)}, true
		case 9:
			if len(live) > 1 || rng.Intn(3) == 0 {
				return c07Op{Op: "recycle", O: o}, true
			}
		case 10, 11:
			p := live[rng.Intn(len(live))]
			if !h.objs[o].HasQualities() && ln+h.objs[p].Len() <= 4*maxLen {
				if rng.Intn(2) == 0 {
					return c07Op{Op: "join", O: o, P: p, Inplace: 1}, true
				} else if free != 0 {
					return c07Op{Op: "join", O: o, P: p, R: free, Inplace: 0}, true
				}
			}
		}
	}
	return c07Op{Op: "rc", O: live[0], Inplace: 1}, true
}

func recordC07(env *Env) {
	obiseq.VerifSetPoison(true)
	if env.cases != "" {
		// re-execute the operations of previously recorded events (bin/check --replay)
		olds := loadCases[c07Event](env.cases)
		for _, old := range olds {
			obiseq.VerifResetPools()
			steps := c07RunSteps(old.N, func(h *realHeap, i int) (c07Op, bool) {
				if i >= len(old.Steps) {
					return c07Op{}, false
				}
				return old.Steps[i].c07Op, true
			})
			env.emit(c07Event{Kind: old.Kind, N: old.N, Steps: steps})
		}
		return
	}
	events := make([]c07Event, env.n)
	seeds := make([]int64, env.n)
	for i := range seeds {
		seeds[i] = env.rng.Int63()
	}
	parallel(env.n, 0, func(i int) {
		rng := rand.New(rand.NewSource(seeds[i]))
		if i%2 == 0 {
			// long sequences, few operations: New; op; op (windows and strands of long reads)
			maxLen := 200
			if i%16 == 0 {
				maxLen = 1200 // beyond the 1024-byte pool limit
			}
			nsteps := 2 + rng.Intn(3)
			steps := c07RunSteps(3, func(h *realHeap, k int) (c07Op, bool) {
				if k >= nsteps {
					return c07Op{}, false
				}
				if k == 0 {
					return c07Op{Op: "new", R: 1, V: c07RandVal(rng, c07Lengths(rng, maxLen))}, true
				}
				for {
					op, ok := c07RandomOp(rng, h, maxLen)
					if !ok {
						return op, false
					}
					if op.Op == "rc" || op.Op == "sub" || op.Op == "copy" {
						return op, true
					}
				}
			})
			events[i] = c07Event{Kind: "single", N: 3, Steps: steps}
		} else {
			nobj := 3 + rng.Intn(4)
			nsteps := 15 + rng.Intn(26)
			maxLen := 4 + rng.Intn(30)
			steps := c07RunSteps(nobj, func(h *realHeap, k int) (c07Op, bool) {
				if k >= nsteps {
					return c07Op{}, false
				}
				if k == 0 && i%8 == 3 {
					// the first object is a consensus made by the library's read pairing
					var obj *obiseq.BioSequence
					func() {
						defer func() { recover() }()
						obj = c07Paired(rng)
					}()
					if obj != nil {
						return c07Op{Op: "new", R: 1, V: observe(obj), prebuilt: obj}, true
					}
				}
				return c07RandomOp(rng, h, maxLen)
			})
			events[i] = c07Event{Kind: "long", N: nobj, Steps: steps}
			if i%8 == 3 {
				events[i].Kind = "paired"
			}
		}
	})
	for _, e := range events {
		env.emit(e)
	}
}

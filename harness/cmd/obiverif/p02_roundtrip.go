package main

// C02: write then read round-trips records unchanged (FASTA/FASTQ + JSON title-line annotations).
//
// replay: (a) "hdr" cases exported by TLC from spec/L2_io/JsonHeader.tla: every generated title line is
// concretised (tokens joined) and parsed by the real ParseFastSeqJsonHeader / ParseGuessedFastSeqHeader,
// directly and behind the real FASTA chunk parser; annotations and remaining definition are compared with
// the values the specification assigns; the formatted header is re-parsed (idempotence).
// (b) "rt" cases exported from spec/L2_io/RoundTrip.tla: the specification's text t0 is read by the real
// chunk parsers + header parser at the input shift, compared with the specification's record, written at
// the output shift (must equal the specification's t1), read and written again (fixed point); the same
// record built in memory from typed Go values must be written as t0.
// record: random records / title lines far beyond the model's bounds; every event logs
// r, Write(r)=t0, Read(t0)=r1, Write(r1)=t1, Read(t1)=r2, Write(r2)=t2 with values canonicalised
// (numbers by value as decimal strings, text as code points) for RoundTripTrace.tla.
//
// No expected value is computed here: canon() is an encoding of observed values, render() a decoding of
// the specification's texts.

import (
	"bytes"
	"encoding/json"
	"fmt"
	"math"
	"os"
	"path/filepath"
	"reflect"
	"sort"
	"strconv"
	"strings"
	"unicode"
	"unicode/utf8"

	"git.metabarcoding.org/obitools/obitools4/obitools4/pkg/obiformats"
	"git.metabarcoding.org/obitools/obitools4/obitools4/pkg/obiiter"
	"git.metabarcoding.org/obitools/obitools4/obitools4/pkg/obioptions"
	"git.metabarcoding.org/obitools/obitools4/obitools4/pkg/obiseq"
)

func init() {
	register("C02", &driver{replay: replayC02, record: recordC02})
}

// ------------------------------------------------------------------------------ case decoding

type c02Entry struct {
	K []string   `json:"k"`
	T string     `json:"t"`
	V []string   `json:"v"`
	M []c02Entry `json:"m"`
}

type c02Case struct {
	Op    string `json:"op"`
	Cls   string `json:"cls"`
	Shape string `json:"shape"`
	// hdr
	V     []string   `json:"v,omitempty"`
	Line  []string   `json:"line,omitempty"`
	Ann   []c02Entry `json:"ann,omitempty"`
	Merge bool       `json:"merge,omitempty"`
	// rt (Def is a token list for hdr cases, a string for rt cases)
	Def   json.RawMessage `json:"def,omitempty"`
	Fmt   string          `json:"fmt,omitempty"`
	Len   int             `json:"len,omitempty"`
	Qp    string          `json:"qp,omitempty"`
	Si    int             `json:"si,omitempty"`
	So    int             `json:"so,omitempty"`
	Seq   []string        `json:"seq,omitempty"`
	Qual  []int           `json:"qual,omitempty"`
	Rqual []int           `json:"rqual,omitempty"`
	T0    [][]any         `json:"t0,omitempty"`
	T1    [][]any         `json:"t1,omitempty"`
	Badq  [][]any         `json:"badq,omitempty"`
}

func (c *c02Case) defTokens() []string {
	var t []string
	json.Unmarshal(c.Def, &t)
	return t
}

func (c *c02Case) defString() string {
	var s string
	json.Unmarshal(c.Def, &s)
	return s
}

// render turns a specification text (lines of characters: strings, or byte values on quality lines) into bytes.
func render(lines [][]any) []byte {
	var b bytes.Buffer
	for _, l := range lines {
		for _, c := range l {
			switch v := c.(type) {
			case string:
				b.WriteString(v)
			case float64:
				b.WriteByte(byte(int(v)))
			}
		}
		b.WriteByte('\n')
	}
	return b.Bytes()
}

// ------------------------------------------------------------------------------ canonical values

// canon encodes an annotation value so that two values are equal iff their encodings are: numbers by
// value (decimal), strings as code points, maps with sorted keys.  TLC compares the encodings as atoms.
func canon(v any) string {
	var b strings.Builder
	canonTo(&b, reflect.ValueOf(v))
	return b.String()
}

func canonString(b *strings.Builder, s string) {
	b.WriteString("s[")
	first := true
	for _, r := range s {
		if !first {
			b.WriteByte(',')
		}
		first = false
		b.WriteString(strconv.Itoa(int(r)))
	}
	b.WriteByte(']')
}

func canonFloat(f float64) string {
	if f == 0 {
		return "n0"
	}
	if f == math.Trunc(f) && math.Abs(f) < 1e18 {
		return "n" + strconv.FormatInt(int64(f), 10)
	}
	return "n" + strconv.FormatFloat(f, 'g', -1, 64)
}

func canonTo(b *strings.Builder, v reflect.Value) {
	if !v.IsValid() {
		b.WriteString("null")
		return
	}
	switch v.Kind() {
	case reflect.Interface, reflect.Pointer:
		if v.IsNil() {
			b.WriteString("null")
			return
		}
		canonTo(b, v.Elem())
	case reflect.Bool:
		if v.Bool() {
			b.WriteString("true")
		} else {
			b.WriteString("false")
		}
	case reflect.String:
		canonString(b, v.String())
	case reflect.Int, reflect.Int8, reflect.Int16, reflect.Int32, reflect.Int64:
		b.WriteString("n" + strconv.FormatInt(v.Int(), 10))
	case reflect.Uint, reflect.Uint8, reflect.Uint16, reflect.Uint32, reflect.Uint64:
		b.WriteString("n" + strconv.FormatUint(v.Uint(), 10))
	case reflect.Float32, reflect.Float64:
		b.WriteString(canonFloat(v.Float()))
	case reflect.Map:
		type kv struct {
			k string
			v reflect.Value
		}
		kvs := []kv{}
		for _, k := range v.MapKeys() {
			kvs = append(kvs, kv{fmt.Sprint(k.Interface()), v.MapIndex(k)})
		}
		sort.Slice(kvs, func(i, j int) bool { return kvs[i].k < kvs[j].k })
		b.WriteByte('{')
		for i, e := range kvs {
			if i > 0 {
				b.WriteByte(',')
			}
			canonString(b, e.k)
			b.WriteByte(':')
			canonTo(b, e.v)
		}
		b.WriteByte('}')
	case reflect.Slice, reflect.Array:
		b.WriteByte('[')
		for i := 0; i < v.Len(); i++ {
			if i > 0 {
				b.WriteByte(',')
			}
			canonTo(b, v.Index(i))
		}
		b.WriteByte(']')
	default:
		b.WriteString("?" + v.Kind().String())
	}
}

func annotationsOf(s *obiseq.BioSequence, dropDefinition bool) map[string]any {
	m := map[string]any{}
	for k, v := range s.Annotations() {
		if dropDefinition && k == "definition" {
			continue
		}
		m[k] = v
	}
	return m
}

// ------------------------------------------------------------------------------ driving the real code

// isolated runs f in its own goroutine: log.Fatalf inside the library ends that goroutine only.
// Returns (completed, panic message).
func isolated(f func()) (bool, string) {
	done := make(chan struct{})
	completed := false
	msg := ""
	go func() {
		defer close(done)
		defer func() {
			if r := recover(); r != nil {
				msg = fmt.Sprint(r)
			}
		}()
		f()
		completed = true
	}()
	<-done
	return completed, msg
}

func headerParser(name string) func(*obiseq.BioSequence) {
	if name == "json" {
		return obiformats.ParseFastSeqJsonHeader
	}
	return obiformats.ParseGuessedFastSeqHeader
}

// readText: the real chunk parser + the real header parser on every record.
func readText(format string, text []byte, shift int, parser string) obiseq.BioSequenceSlice {
	var sl obiseq.BioSequenceSlice
	if format == "fasta" {
		sl, _ = obiformats.FastaChunkParser()("verif", bytes.NewReader(text))
	} else {
		sl, _ = obiformats.FastqChunkParser(byte(shift), true)("verif", bytes.NewReader(text))
	}
	p := headerParser(parser)
	for _, s := range sl {
		p(s)
	}
	return sl
}

// writeText: the real batch formatter with the default JSON header (the output shift is a global option).
func writeText(format string, sl obiseq.BioSequenceSlice) []byte {
	batch := obiiter.MakeBioSequenceBatch("verif", 0, sl)
	if format == "fasta" {
		return obiformats.FormatFastaBatch(batch, obiformats.FormatFastSeqJsonHeader, false).Bytes()
	}
	return obiformats.FormatFastqBatch(batch, obiformats.FormatFastSeqJsonHeader, false).Bytes()
}

func clip02(s string) string {
	if len(s) > 300 {
		return s[:300] + "..."
	}
	return s
}

// ------------------------------------------------------------------------------ replay: title lines

func expectedAnn(es []c02Entry) map[string]any {
	m := map[string]any{}
	for _, e := range es {
		k := strings.Join(e.K, "")
		switch e.T {
		case "str":
			m[k] = strings.Join(e.V, "")
		case "num":
			f, _ := strconv.ParseFloat(strings.Join(e.V, ""), 64)
			m[k] = f
		case "map":
			m[k] = expectedAnn(e.M)
		}
	}
	return m
}

func replayHdr(env *Env, c *c02Case) {
	text := strings.Join(c.Line, "")
	wantAnn := canon(expectedAnn(c.Ann))
	wantDef := strings.Join(c.defTokens(), "")
	for _, parser := range []string{"json", "guessed"} {
		for _, via := range []string{"direct", "fasta", "fastq"} {
			cl := c.Cls + "/" + parser
			var s *obiseq.BioSequence
			var gotAnn, gotDef, text2, text3, ann2 string
			nrec := 1
			completed, pmsg := isolated(func() {
				switch via {
				case "direct":
					s = obiseq.NewBioSequence("id1", []byte("acgt"), text)
				case "fasta":
					sl, _ := obiformats.FastaChunkParser()("verif", strings.NewReader(">id1 "+text+"\nacgt\n"))
					nrec = len(sl)
					if nrec == 1 {
						s = sl[0]
					}
				case "fastq":
					sl, _ := obiformats.FastqChunkParser(33, true)("verif", strings.NewReader("@id1 "+text+"\nacgt\n+\nIIII\n"))
					nrec = len(sl)
					if nrec == 1 {
						s = sl[0]
					}
				}
				if s == nil {
					return
				}
				headerParser(parser)(s)
				gotAnn = canon(annotationsOf(s, true))
				gotDef = s.Definition()
				// re-parse the formatted header
				text2 = obiformats.FormatFastSeqJsonHeader(s)
				s2 := obiseq.NewBioSequence("id1", []byte("acgt"), text2)
				headerParser(parser)(s2)
				ann2 = canon(annotationsOf(s2, false))
				text3 = obiformats.FormatFastSeqJsonHeader(s2)
			})
			switch {
			case pmsg != "":
				env.fail("C02.hdr.panic", cl, fmt.Sprintf("title line %q (%s, via %s): panic %s", text, parser, via, pmsg), c)
			case !completed:
				env.fail("C02.hdr.fatal", cl, fmt.Sprintf("title line %q is a valid JSON object + text, the %s parser (via %s) calls log.Fatal: %s",
					text, parser, via, clip02(strings.Join(lastFatal(), "; "))), c)
			case nrec != 1 || s == nil:
				env.fail("C02.hdr.records", cl, fmt.Sprintf("title line %q via %s: %d records parsed", text, via, nrec), c)
			case gotAnn != wantAnn:
				env.fail("C02.hdr.annotations", cl, fmt.Sprintf("title line %q (%s, via %s): annotations %s, specification %s", text, parser, via, clip02(gotAnn), clip02(wantAnn)), c)
			case !c.Merge && gotDef != wantDef:
				env.fail("C02.hdr.definition", cl, fmt.Sprintf("title line %q (%s, via %s): definition %q, specification %q", text, parser, via, gotDef, wantDef), c)
			case ann2 != canon(annotationsOf(s, false)) || text3 != text2:
				env.fail("C02.hdr.reparse", cl, fmt.Sprintf("title line %q (%s, via %s): formatted header %q re-parsed gives %s then %q", text, parser, via, text2, clip02(ann2), text3), c)
			}
			env.ok(cl)
		}
	}
}

func lastFatal() []string {
	m := fatalMessages()
	if len(m) > 1 {
		m = m[len(m)-1:]
	}
	return m
}

// ------------------------------------------------------------------------------ replay: records

// shapeValue: one representative Go value per annotation shape class of RoundTrip.tla (ShapeTab).
func shapeValue(shape string) (string, any) {
	switch shape {
	case "string":
		return "k", "a b;c=d >@"
	case "special":
		return "k", `q"}{\`
	case "int":
		return "count", 42
	case "bigint":
		return "k", -9007199254740992
	case "float":
		return "k", 0.5
	case "bool":
		return "b", true
	case "mapint":
		return "merged_sample", map[string]int{"s1": 2, "s2": 1}
	case "mapstr":
		return "m", map[string]string{"a": "x", "b": "y z"}
	case "slice":
		return "coord", []int{1, 2, 3}
	case "nested":
		return "n", map[string]any{"l": []any{1, "a", map[string]any{"z": 1.5}}}
	}
	return "", nil
}

func caseAnnotations(c *c02Case) map[string]any {
	m := map[string]any{}
	if k, v := shapeValue(c.Shape); k != "" {
		m[k] = v
	}
	if d := c.defString(); d != "" {
		m["definition"] = d
	}
	return m
}

func intsEqual(a []byte, b []int) bool {
	if len(a) != len(b) {
		return false
	}
	for i := range a {
		if int(a[i]) != b[i] {
			return false
		}
	}
	return true
}

// checkRecord compares a record read by the real code with the record of the specification.
func checkRecord(c *c02Case, sl obiseq.BioSequenceSlice, stage string) (string, string) {
	if len(sl) != 1 {
		return "C02.rt." + stage + ".records", fmt.Sprintf("%d records read, 1 written", len(sl))
	}
	s := sl[0]
	if s.Id() != "s1" {
		return "C02.rt." + stage + ".id", fmt.Sprintf("identifier %q, specification \"s1\"", s.Id())
	}
	if string(s.Sequence()) != strings.Join(c.Seq, "") {
		return "C02.rt." + stage + ".sequence", fmt.Sprintf("%d nucleotides read %q, specification %d", s.Len(), clip02(string(s.Sequence())), len(c.Seq))
	}
	if c.Fmt == "fastq" {
		if !s.HasQualities() || !intsEqual(s.Qualities(), c.Rqual) {
			return "C02.rt." + stage + ".qualities", fmt.Sprintf("scores %v, specification %v", s.Qualities(), c.Rqual)
		}
	} else if s.HasQualities() {
		return "C02.rt." + stage + ".qualities", "scores read from a FASTA text"
	}
	if got, want := canon(annotationsOf(s, false)), canon(caseAnnotations(c)); got != want {
		return "C02.rt." + stage + ".annotations", fmt.Sprintf("annotations %s, specification %s", clip02(got), clip02(want))
	}
	if s.Definition() != c.defString() {
		return "C02.rt." + stage + ".definition", fmt.Sprintf("definition %q, specification %q", s.Definition(), c.defString())
	}
	return "", ""
}

// malformed texts of the specification (score line shorter / longer than the nucleotides): the reader
// must not deliver a record (the real code calls log.Fatal; an error or an empty result would do as well)
func replayReject(env *Env, c *c02Case) {
	for k, q := range c.Badq {
		lines := append(append([][]any{}, c.T0[:3]...), q)
		text := render(lines)
		n := 0
		completed, _ := isolated(func() { n = len(readText(c.Fmt, text, c.Si, "json")) })
		cl := "reject/shorter"
		if k == 1 {
			cl = "reject/longer"
		}
		if completed && n > 0 {
			env.fail("C02.rt.length_check", cl, fmt.Sprintf("fastq len=%d shift %d: a text with %d scores for %d nucleotides is read as a record",
				c.Len, c.Si, len(q), c.Len), c)
		}
		env.ok(cl)
	}
}

func replayRt(env *Env, c *c02Case) {
	t0 := render(c.T0)
	t1 := render(c.T1)
	replayReject(env, c)
	for _, parser := range []string{"json", "guessed"} {
		cl := c.Cls + "/" + parser
		assert, detail := "", ""
		completed, pmsg := isolated(func() {
			// the specification's text, read at the input shift
			r1 := readText(c.Fmt, t0, c.Si, parser)
			if assert, detail = checkRecord(c, r1, "read"); assert != "" {
				return
			}
			w1 := writeText(c.Fmt, r1)
			if !bytes.Equal(w1, t1) {
				assert, detail = "C02.rt.write_after_read", fmt.Sprintf("text written %q, specification %q", clip02(string(w1)), clip02(string(t1)))
				return
			}
			obioptions.SetInputQualityShift(c.So) // the re-read uses the shift of what was just written
			r2 := readText(c.Fmt, w1, c.So, parser)
			if assert, detail = checkRecord(c, r2, "reread"); assert != "" {
				return
			}
			w2 := writeText(c.Fmt, r2)
			if !bytes.Equal(w2, w1) {
				assert, detail = "C02.rt.fixed_point", fmt.Sprintf("second write %q differs from the first %q", clip02(string(w2)), clip02(string(w1)))
				return
			}
			// the same record built in memory from typed values, written at the input shift, is t0
			var fresh *obiseq.BioSequence
			if c.Fmt == "fastq" && len(c.Qual) > 0 {
				q := make([]byte, len(c.Qual))
				for i, v := range c.Qual {
					q[i] = byte(v)
				}
				fresh = obiseq.NewBioSequenceWithQualities("s1", []byte(strings.Join(c.Seq, "")), c.defString(), q)
			} else {
				fresh = obiseq.NewBioSequence("s1", []byte(strings.Join(c.Seq, "")), c.defString())
			}
			if k, v := shapeValue(c.Shape); k != "" {
				fresh.SetAttribute(k, v)
			}
			obioptions.SetOutputQualityShift(c.Si)
			w0 := writeText(c.Fmt, obiseq.BioSequenceSlice{fresh})
			obioptions.SetOutputQualityShift(c.So)
			if !bytes.Equal(w0, t0) {
				assert, detail = "C02.rt.write_fresh", fmt.Sprintf("in-memory record written %q, specification %q", clip02(string(w0)), clip02(string(t0)))
			}
		})
		switch {
		case pmsg != "":
			env.fail("C02.rt.panic", cl, "panic "+pmsg, c)
		case !completed:
			env.fail("C02.rt.fatal", cl, "log.Fatal on a text of the specification: "+clip02(strings.Join(lastFatal(), "; ")), c)
		case assert != "":
			env.fail(assert, cl, fmt.Sprintf("%s len=%d q=%s shifts %d->%d (%s): %s", c.Fmt, c.Len, c.Qp, c.Si, c.So, parser, detail), c)
		}
		env.ok(cl)
	}
}

func replayC02(env *Env) {
	cases := loadCases[c02Case](env.cases)
	var hdr []*c02Case
	groups := map[[2]int][]*c02Case{}
	for i := range cases {
		c := &cases[i]
		if c.Op == "hdr" {
			hdr = append(hdr, c)
		} else {
			k := [2]int{c.Si, c.So}
			groups[k] = append(groups[k], c)
		}
	}
	parallel(len(hdr), 0, func(i int) {
		replayHdr(env, hdr[i])
		if i == 11 || i == len(hdr)/2 {
			env.sample(map[string]any{"title_line": strings.Join(hdr[i].Line, ""), "class": hdr[i].Cls})
		}
	})
	// the quality shifts are process-wide options: one group of cases per shift pair, sequential within
	// (the in-memory write of each case switches the output shift for a moment)
	keys := make([][2]int, 0, len(groups))
	for k := range groups {
		keys = append(keys, k)
	}
	sort.Slice(keys, func(i, j int) bool { return keys[i][0]*1000+keys[i][1] < keys[j][0]*1000+keys[j][1] })
	for _, k := range keys {
		obioptions.SetInputQualityShift(k[0])
		obioptions.SetOutputQualityShift(k[1])
		for i, c := range groups[k] {
			obioptions.SetInputQualityShift(k[0])
			replayRt(env, c)
			if i == 17 {
				env.sample(map[string]any{"record_case": c.Cls, "len": c.Len, "shifts": k, "t0": clip02(string(render(c.T0)))})
			}
		}
	}
	obioptions.SetInputQualityShift(33)
	obioptions.SetOutputQualityShift(33)
}

// ------------------------------------------------------------------------------ record

type c02Rec struct {
	ID   []int  `json:"id"`
	Seq  []int  `json:"seq"`
	Qual []int  `json:"qual"`
	Ann  string `json:"ann"`
}

func bytesOf(s []byte) []int {
	out := make([]int, len(s))
	for i, b := range s {
		out[i] = int(b)
	}
	return out
}

func linesOf(text []byte) [][]int {
	out := [][]int{}
	if len(text) == 0 {
		return out
	}
	parts := bytes.Split(text, []byte("\n"))
	if len(parts[len(parts)-1]) == 0 {
		parts = parts[:len(parts)-1]
	}
	for _, p := range parts {
		out = append(out, bytesOf(p))
	}
	return out
}

func recOf(s *obiseq.BioSequence) c02Rec {
	q := []int{}
	if s.HasQualities() {
		q = bytesOf(s.Qualities())
	}
	return c02Rec{ID: bytesOf([]byte(s.Id())), Seq: bytesOf(s.Sequence()), Qual: q, Ann: canon(annotationsOf(s, false))}
}

func recsOf(sl obiseq.BioSequenceSlice) []c02Rec {
	out := []c02Rec{}
	for _, s := range sl {
		out = append(out, recOf(s))
	}
	return out
}

type c02Event struct {
	Op     string   `json:"op"`
	Fmt    string   `json:"fmt"`
	Parser string   `json:"parser"`
	Si     int      `json:"si"`
	So     int      `json:"so"`
	Fatal  int      `json:"fatal"`
	Why    string   `json:"why"`
	R      []c02Rec `json:"r"`
	T0     [][]int  `json:"t0"`
	R1     []c02Rec `json:"r1"`
	T1     [][]int  `json:"t1"`
	R2     []c02Rec `json:"r2"`
	T2     [][]int  `json:"t2"`
	// hdr events
	Line   []int  `json:"line"`
	Def    []int  `json:"def"`
	AnnIn  string `json:"ann_in"`
	AnnOut string `json:"ann_out"`
	Cls    string `json:"cls"`
	// re-parse of the formatted header: all annotations after the first parse, after the second, both texts
	AnnAll string `json:"ann_all"`
	Ann2   string `json:"ann2"`
	Text2  []int  `json:"text2"`
	Text3  []int  `json:"text3"`
}

func newEvent(op string) *c02Event {
	return &c02Event{Op: op, R: []c02Rec{}, T0: [][]int{}, R1: []c02Rec{}, T1: [][]int{}, R2: []c02Rec{}, T2: [][]int{},
		Line: []int{}, Def: []int{}, Text2: []int{}, Text3: []int{}}
}

// ---- generators

type gen struct {
	r interface {
		Intn(int) int
		Float64() float64
		NormFloat64() float64
		Int63() int64
	}
}

var specialRunes = []rune{'"', '\\', '{', '}', ';', '=', '>', '@', ' ', ':', ',', '[', ']', '\'', '/', '+', '\n', '\t', '\r', '<', '&'}
var otherRunes = []rune{'a', 'b', 'Z', '0', '9', '_', '-', '.', 'é', 'ß', 'Ω', '日', '本', '😀', '𝄞', '\u2028', '\u2029', '\u00a0', '\ufeff', '\u0001', '\u007f', '\u0000', '\u0008', '\u000c', '\u001f', '\ufffd', '\uffff'}

// text that LOOKS like a JSON escape (the six characters backslash u 0 0 3 c, ...): a string like any other
var escapeLookalikes = []string{`\u003c`, `\u003e`, `\u0026`, `\u0022`, `\u005c`, `\u2028`, `\n`, `\"`, `\\u003c`, `&lt;`, `\/`}

func (g gen) str(maxLen int) string {
	n := g.r.Intn(maxLen + 1)
	var b strings.Builder
	for i := 0; i < n; i++ {
		if g.r.Intn(14) == 0 {
			b.WriteString(escapeLookalikes[g.r.Intn(len(escapeLookalikes))])
			continue
		}
		switch g.r.Intn(10) {
		case 0, 1, 2, 3:
			b.WriteRune(specialRunes[g.r.Intn(len(specialRunes))])
		case 4:
			b.WriteRune('"')
		case 5:
			b.WriteRune('\\')
		case 6:
			b.WriteRune(rune(0x20 + g.r.Intn(0x5f)))
		default:
			b.WriteRune(otherRunes[g.r.Intn(len(otherRunes))])
		}
	}
	return b.String()
}

func (g gen) key() string {
	for {
		var k string
		if g.r.Intn(6) == 0 {
			k = g.str(6)
		} else if g.r.Intn(10) == 0 {
			// an annotation may bear the name of a field of the record: it stays an annotation
			k = []string{"id", "sequence", "qualities", "count", "taxid"}[g.r.Intn(5)]
		} else {
			n := 1 + g.r.Intn(8)
			b := make([]byte, n)
			for i := range b {
				b[i] = "abcdefghijklmnopqrstuvwxyz_"[g.r.Intn(27)]
			}
			k = string(b)
		}
		switch k {
		case "", "definition":
			continue
		}
		return k
	}
}

func (g gen) integer() int {
	switch g.r.Intn(8) {
	case 0:
		return 0
	case 1:
		return 1 << 53
	case 2:
		return -(1 << 53)
	case 3:
		return g.r.Intn(100) - 50
	case 4:
		return 1<<31 + g.r.Intn(1000)
	default:
		v := int(g.r.Int63() % (1 << 53))
		if g.r.Intn(2) == 0 {
			v = -v
		}
		return v
	}
}

func (g gen) float() float64 {
	switch g.r.Intn(10) {
	case 0:
		return 0.5
	case 1:
		return 1e21
	case 2:
		return 1e-7
	case 3:
		return 5e-324
	case 4:
		return math.MaxFloat64
	case 5:
		return float64(g.r.Intn(1000)) // a float with an integral value
	case 6:
		return -1234567.890625
	case 7:
		return math.Float64frombits(uint64(g.r.Int63())&^(0x7ff<<52) | uint64(1+g.r.Intn(2045))<<52) // any finite normal float
	default:
		return g.r.NormFloat64() * math.Pow(10, float64(g.r.Intn(40)-20))
	}
}

func (g gen) value(depth int) (any, string) {
	k := g.r.Intn(9)
	if depth >= 3 && k >= 7 {
		k = g.r.Intn(7)
	}
	switch k {
	case 0:
		return g.str(12), "string"
	case 1:
		return g.integer(), "int"
	case 2:
		return g.float(), "float"
	case 3:
		return g.r.Intn(2) == 0, "bool"
	case 4:
		m := map[string]int{}
		for i, n := 0, g.r.Intn(4); i < n; i++ {
			m[g.key()] = g.integer()
		}
		return m, "mapint"
	case 5:
		m := map[string]string{}
		for i, n := 0, g.r.Intn(4); i < n; i++ {
			m[g.key()] = g.str(8)
		}
		return m, "mapstr"
	case 6:
		s := []int{}
		for i, n := 0, g.r.Intn(5); i < n; i++ {
			s = append(s, g.integer())
		}
		return s, "slice"
	case 7:
		m := map[string]any{}
		for i, n := 0, 1+g.r.Intn(3); i < n; i++ {
			m[g.key()], _ = g.value(depth + 1)
		}
		return m, "nested"
	default:
		s := []any{}
		for i, n := 0, 1+g.r.Intn(3); i < n; i++ {
			v, _ := g.value(depth + 1)
			s = append(s, v)
		}
		return s, "nested"
	}
}

var idRunes = []rune("abcXYZ0189_-.|:;={}\"\\@>+/#éß日😀")

func (g gen) ident(plain bool) string {
	n := 1 + g.r.Intn(12)
	var b strings.Builder
	for i := 0; i < n; i++ {
		if plain {
			b.WriteByte("abcdefghijklmnopqrstuvwxyzABCXYZ0123456789_-.|:"[g.r.Intn(47)])
		} else {
			b.WriteRune(idRunes[g.r.Intn(len(idRunes))])
		}
	}
	return b.String()
}

var seqLens = []int{1, 2, 59, 60, 61, 119, 120, 121, 179, 180, 181}

// maxQ: largest score generated (93, or 62 for command-level files at shift 64 so that the text stays ASCII:
// the kseq reader used on stdin keeps quality bytes 33..127 only, by design)
func (g gen) record(format string, plainID bool, maxQ int, classes map[string]int) *obiseq.BioSequence {
	var l int
	switch k := g.r.Intn(100); {
	case k < 45:
		l = seqLens[g.r.Intn(len(seqLens))]
	case k < 98:
		l = 1 + g.r.Intn(150)
	default:
		l = 200 + g.r.Intn(800)
	}
	seq := make([]byte, l)
	for i := range seq {
		seq[i] = "acgtacgtacgtryswkmbdhvn"[g.r.Intn(23)]
	}
	def := ""
	if g.r.Intn(5) < 3 {
		for def == "" {
			def = g.str(20)
		}
		classes["with-definition"]++
	}
	var s *obiseq.BioSequence
	if format == "fastq" && g.r.Intn(20) != 0 {
		q := make([]byte, l)
		over := maxQ == 93 && g.r.Intn(10) == 0
		for i := range q {
			switch g.r.Intn(8) {
			case 0:
				q[i] = 0
			case 1:
				q[i] = byte(maxQ)
			case 2:
				q[i] = 31 // '@' at shift 33
			default:
				q[i] = byte(g.r.Intn(maxQ + 1))
			}
			if over && g.r.Intn(4) == 0 {
				q[i] = byte(94 + g.r.Intn(162))
			}
		}
		if over {
			classes["scores-above-93"]++
		}
		s = obiseq.NewBioSequenceWithQualities(g.ident(plainID), seq, def, q)
	} else {
		s = obiseq.NewBioSequence(g.ident(plainID), seq, def)
	}
	for i, n := 0, g.r.Intn(5); i < n; i++ {
		v, shape := g.value(0)
		k := g.key()
		s.Annotations()[k] = v // not SetAttribute: it takes the keys id / sequence / qualities for the fields
		classes["shape/"+shape]++
		if k == "id" || k == "sequence" || k == "qualities" {
			classes["key-named-as-a-field"]++
		}
	}
	if len(s.Annotations()) == 0 {
		classes["no-annotation"]++
	}
	return s
}

func recordRtEvent(g gen, format, parser string, si, so int, classes map[string]int) *c02Event {
	ev := newEvent("rt")
	ev.Fmt, ev.Parser, ev.Si, ev.So = format, parser, si, so
	n := 1 + g.r.Intn(3)
	sl := obiseq.BioSequenceSlice{}
	for i := 0; i < n; i++ {
		sl = append(sl, g.record(format, false, 93, classes))
	}
	ev.R = recsOf(sl)
	completed, pmsg := isolated(func() {
		obioptions.SetOutputQualityShift(si)
		t0 := writeText(format, sl)
		ev.T0 = linesOf(t0)
		r1 := readText(format, t0, si, parser)
		ev.R1 = recsOf(r1)
		obioptions.SetOutputQualityShift(so)
		t1 := writeText(format, r1)
		ev.T1 = linesOf(t1)
		r2 := readText(format, t1, so, parser)
		ev.R2 = recsOf(r2)
		t2 := writeText(format, r2)
		ev.T2 = linesOf(t2)
	})
	if pmsg != "" {
		ev.Fatal, ev.Why = 1, "panic: "+pmsg
	} else if !completed {
		ev.Fatal, ev.Why = 1, clip02(strings.Join(lastFatal(), "; "))
	}
	return ev
}

// a random title line: any JSON object the standard encoder can produce (compact or with blanks,
// HTML escapes on or off), followed by free text
func recordHdrEvent(g gen, parser string, classes map[string]int) *c02Event {
	ev := newEvent("hdr")
	ev.Parser = parser
	obj := map[string]any{}
	for i, n := 0, 1+g.r.Intn(4); i < n; i++ {
		v, shape := g.value(0)
		obj[g.key()] = v
		classes["hdr/"+shape]++
	}
	var buf bytes.Buffer
	enc := json.NewEncoder(&buf)
	enc.SetEscapeHTML(g.r.Intn(2) == 0)
	enc.Encode(obj)
	text := strings.TrimRight(buf.String(), "\n")
	if g.r.Intn(3) == 0 { // blanks after the separators, outside strings: re-indent with the standard library
		var ind bytes.Buffer
		if json.Indent(&ind, []byte(text), "", "") == nil {
			text = strings.ReplaceAll(ind.String(), "\n", " ")
		}
	}
	tails := []string{"", " ", " some text", "glued", ` {"}\`, ` }{ "`, "  two  blanks  ", ` {"a":1}`, ` \"`}
	tail := tails[g.r.Intn(len(tails))]
	if g.r.Intn(4) == 0 {
		tail = " " + strings.Map(func(r rune) rune {
			if (unicode.IsSpace(r) && r != ' ') || !utf8.ValidRune(r) { // the definition is trimmed of any Unicode blank
				return 'x'
			}
			return r
		}, g.str(10))
	}
	ev.Cls = "tail"
	if strings.TrimSpace(tail) == "" {
		ev.Cls = "notail"
	}
	line := text + tail
	ev.Line = bytesOf([]byte(line))
	ev.AnnIn = canon(obj)
	completed, pmsg := isolated(func() {
		s := obiseq.NewBioSequence("id1", []byte("acgt"), line)
		headerParser(parser)(s)
		ev.AnnOut = canon(annotationsOf(s, true))
		ev.Def = bytesOf([]byte(s.Definition()))
		ev.AnnAll = canon(annotationsOf(s, false))
		text2 := obiformats.FormatFastSeqJsonHeader(s)
		ev.Text2 = bytesOf([]byte(text2))
		s2 := obiseq.NewBioSequence("id1", []byte("acgt"), text2)
		headerParser(parser)(s2)
		ev.Ann2 = canon(annotationsOf(s2, false))
		ev.Text3 = bytesOf([]byte(obiformats.FormatFastSeqJsonHeader(s2)))
	})
	if pmsg != "" {
		ev.Fatal, ev.Why = 1, "panic: "+pmsg
	} else if !completed {
		ev.Fatal, ev.Why = 1, clip02(strings.Join(lastFatal(), "; "))
	}
	return ev
}

// files for the command-level runs: records written by the real library writer at a given shift
func recordFiles(env *Env, g gen, dir string) {
	os.MkdirAll(dir, 0o755)
	classes := map[string]int{}
	kinds := []struct {
		format string
		shift  int
	}{{"fasta", 33}, {"fastq", 33}, {"fastq", 64}}
	for i := 0; i < env.n; i++ {
		k := kinds[i%3]
		n := 1 + g.r.Intn(8)
		sl := obiseq.BioSequenceSlice{}
		for j := 0; j < n; j++ {
			maxQ := 93
			if k.shift == 64 {
				maxQ = 62
			}
			sl = append(sl, g.record(k.format, true, maxQ, classes))
		}
		name := filepath.Join(dir, fmt.Sprintf("in%03d_%d.%s", i, k.shift, k.format))
		ok := false
		completed, _ := isolated(func() {
			obioptions.SetOutputQualityShift(k.shift)
			text := writeText(k.format, sl)
			ok = os.WriteFile(name, text, 0o644) == nil
		})
		if completed && ok {
			env.emit(map[string]any{"file": name, "fmt": k.format, "shift": k.shift, "records": n})
		}
	}
	obioptions.SetOutputQualityShift(33)
}

func recordC02(env *Env) {
	g := gen{env.rng}
	if dir := env.opt("dir", ""); dir != "" {
		recordFiles(env, g, dir)
		return
	}
	classes := map[string]int{}
	shifts := [][2]int{{33, 33}, {33, 64}, {64, 33}, {64, 64}}
	nrt := env.n
	for i := 0; i < nrt; i++ {
		format := "fasta"
		sh := shifts[0]
		if i%3 != 0 {
			format = "fastq"
			sh = shifts[(i/3)%4]
		}
		parser := []string{"json", "guessed"}[i%2]
		ev := recordRtEvent(g, format, parser, sh[0], sh[1], classes)
		env.emit(ev)
	}
	obioptions.SetInputQualityShift(33)
	obioptions.SetOutputQualityShift(33)
	for i := 0; i < env.n; i++ {
		env.emit(recordHdrEvent(g, []string{"json", "guessed"}[i%2], classes))
	}
	env.checked = int64(2 * env.n)
	if f := env.opt("classes", ""); f != "" {
		b, _ := json.Marshal(classes)
		os.WriteFile(f, b, 0o644)
	}
}

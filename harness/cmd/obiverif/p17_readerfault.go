package main

// C17: faulted compressed inputs.  `record` builds the files (compressed with the repository's own
// writers), injects truncations / bit flips, and classifies each faulted file with the codec library
// used as an instrument (bytes delivered before the error, error class).  The orchestrator then runs
// the real commands on every file and ReaderFaultTrace.tla validates the outcomes.

import (
	"bytes"
	"compress/gzip"
	"fmt"
	"io"
	"math/rand"
	"os"
	"path/filepath"
	"strings"

	"git.metabarcoding.org/obitools/obitools4/obitools4/pkg/obiformats"
	"github.com/dsnet/compress/bzip2"
	"github.com/klauspost/compress/zstd"
	pgzip "github.com/klauspost/pgzip"
	"github.com/ulikunitz/xz"
)

func init() {
	register("C17", &driver{record: recordC17})
}

type faultFile struct {
	File    string `json:"file"`
	Codec   string `json:"codec"`
	Fmt     string `json:"fmt"`
	Fault   string `json:"fault"` // none | trunc | flip
	T       int    `json:"t"`     // truncation length / flipped bit index
	Clen    int    `json:"clen"`  // compressed length of the intact file
	D       int    `json:"D"`     // decompressed length of the intact file
	Dl      int    `json:"d"`     // bytes the codec delivers before its final status
	Err     string `json:"err"`   // none | ueof | other | open
	Same    int    `json:"same"`  // delivered bytes are the whole original
	Nrec    int    `json:"nrec"`
	ErrText string `json:"errtext"`
	SizeTag string `json:"size"`
	Variant string `json:"variant"` // gz only: "" | "named" (optional header fields) | "members" (several members)
	Pgz     string `json:"pgz"` // gz only: does klauspost/pgzip (the reader the repository links) itself report the fault ?
}

// pgzipVerdict runs the third-party gzip reader used by the repository directly on the bytes.
func pgzipVerdict(data []byte) string {
	rd, err := pgzip.NewReader(bytes.NewReader(data))
	if err != nil {
		return "rejects"
	}
	buf := make([]byte, 1<<16)
	for {
		_, err := rd.Read(buf)
		if err == io.EOF {
			return "accepts"
		}
		if err != nil {
			return "rejects"
		}
	}
}

func randSeq17(r *rand.Rand, n int) string {
	b := make([]byte, n)
	for i := range b {
		b[i] = "acgt"[r.Intn(4)]
	}
	return string(b)
}

func flatLines(sb *bytes.Buffer, s string, embl bool) {
	for k := 0; k < len(s); k += 60 {
		chunk := s[k:min(k+60, len(s))]
		var parts []string
		for j := 0; j < len(chunk); j += 10 {
			parts = append(parts, chunk[j:min(j+10, len(chunk))])
		}
		if embl {
			fmt.Fprintf(sb, "     %-66s%9d\n", strings.Join(parts, " "), min(k+60, len(s)))
		} else {
			fmt.Fprintf(sb, "%9d %s\n", k+1, strings.Join(parts, " "))
		}
	}
	sb.WriteString("//\n")
}

func makeText(r *rand.Rand, format string, nrec, seqlen int) string {
	var sb bytes.Buffer
	for i := 0; i < nrec; i++ {
		s := randSeq17(r, seqlen+r.Intn(20))
		if format == "genbank" {
			fmt.Fprintf(&sb, "LOCUS       G%06d %18d bp    DNA     linear   UNK 01-JAN-2020\nDEFINITION  entry %d.\nACCESSION   G%06d\nFEATURES             Location/Qualifiers\n     source          1..%d\n                     /organism=\"x\"\nORIGIN\n", i, len(s), i, i, len(s))
			flatLines(&sb, s, false)
		} else if format == "embl" {
			fmt.Fprintf(&sb, "ID   E%06d; SV 1; linear; genomic DNA; STD; UNC; %d BP.\nXX\nDE   entry %d.\nXX\nFH   Key             Location/Qualifiers\nFT   source          1..%d\nFT                   /organism=\"x\"\nXX\nSQ   Sequence %d BP;\n", i, len(s), i, len(s), len(s))
			flatLines(&sb, s, true)
		} else if format == "fastq" {
			q := make([]byte, len(s))
			for j := range q {
				q[j] = byte(33 + 2 + r.Intn(38))
			}
			fmt.Fprintf(&sb, "@q%d {\"n\":%d}\n%s\n+\n%s\n", i, i, s, q)
		} else {
			fmt.Fprintf(&sb, ">s%d {\"n\":%d}\n%s\n", i, i, s)
		}
	}
	return sb.String()
}

// compressWithRepo uses the repository's own xopen writer (suffix selects the codec).
func compressWithRepo(dir, name string, data string) ([]byte, error) {
	p := filepath.Join(dir, name)
	w, err := obiformats.WopenFile(p, os.O_WRONLY|os.O_CREATE|os.O_TRUNC, 0644)
	if err != nil {
		return nil, err
	}
	if _, err = w.WriteString(data); err != nil {
		return nil, err
	}
	if err = w.Close(); err != nil {
		return nil, err
	}
	b, err := os.ReadFile(p)
	os.Remove(p)
	return b, err
}

// instrument: what does the codec itself say about these bytes ?
func instrument(codec string, data []byte, orig string) (delivered int, class string, same bool, text string) {
	var rd io.Reader
	var err error
	switch codec {
	case "gz":
		rd, err = gzip.NewReader(bytes.NewReader(data))
	case "bz2":
		rd, err = bzip2.NewReader(bytes.NewReader(data), nil)
	case "xz":
		rd, err = xz.NewReader(bytes.NewReader(data))
	case "zst":
		rd, err = zstd.NewReader(bytes.NewReader(data))
	}
	if err != nil {
		return 0, "open", false, err.Error()
	}
	var out bytes.Buffer
	func() {
		defer func() {
			if r := recover(); r != nil {
				err = fmt.Errorf("panic: %v", r)
			}
		}()
		_, err = io.Copy(&out, rd)
	}()
	delivered = out.Len()
	same = out.String() == orig
	switch {
	case err == nil:
		class = "none"
	case err == io.ErrUnexpectedEOF:
		class = "ueof"
		text = err.Error()
	default:
		class = "other"
		text = err.Error()
	}
	return
}

func recordC17(env *Env) {
	dir := env.opt("dir", "")
	if dir == "" {
		panic("--opt dir=<directory> required")
	}
	os.MkdirAll(dir, 0755)
	big := env.optInt("big", 1)
	per := env.n // sampled faults per (codec, file); 0 = every byte
	r := env.rng
	type base struct {
		name, format, text, tag string
		nrec                    int
	}
	bases := []base{
		{"small_fa", "fasta", makeText(r, "fasta", 30, 70), "small", 30},
		{"small_fq", "fastq", makeText(r, "fastq", 25, 60), "small", 25},
		{"small_gb", "genbank", makeText(r, "genbank", 12, 70), "small", 12},
		{"small_embl", "embl", makeText(r, "embl", 12, 70), "small", 12},
	}
	if big == 1 {
		bases = append(bases, base{"big_fa", "fasta", makeText(r, "fasta", 9000, 250), "big", 9000})
		// sequences given as a CSV table (recognised from its content), larger than the sniffing buffer
		var cb strings.Builder
		cb.WriteString("id,count,sequence\n")
		for i := 0; i < 9000; i++ {
			fmt.Fprintf(&cb, "c%d,%d,%s\n", i, 1+i%5, randSeq17(r, 250))
		}
		bases = append(bases, base{"big_csv", "csv", cb.String(), "big", 9000})
	}
	n := 0
	emit := func(f faultFile, data []byte) {
		f.File = filepath.Join(dir, fmt.Sprintf("f%05d_%s_%s%d.%s", n, f.Fault, f.SizeTag, f.T, f.Codec))
		n++
		if err := os.WriteFile(f.File, data, 0644); err != nil {
			panic(err)
		}
		env.emit(f)
	}
	for _, b := range bases {
		codecs := []string{"gz", "bz2", "xz", "zst"}
		if b.tag == "small" {
			codecs = append(codecs, "gzn", "gzm")
		}
		for _, codec := range codecs {
			ext := map[string]string{"fasta": "fa", "fastq": "fq", "csv": "csv", "genbank": "gb", "embl": "dat"}[b.format]
			cdata, err := compressWithRepo(dir, b.name+"."+ext+"."+codec, b.text)
			if err != nil {
				panic(fmt.Sprint("compress ", codec, ": ", err))
			}
			hdr := 0
			var members []int // gzm: offsets at which the second, third ... gzip members start
			if codec == "gzm" {
				// several gzip members one after the other (cat a.gz b.gz, bgzip, pigz -i): one stream for every reader
				codec = "gz"
				var zb bytes.Buffer
				lines := strings.SplitAfter(b.text, "\n")
				cut := func(k int) int { // a record boundary near k/3 of the lines
					per := 2
					if b.format == "fastq" {
						per = 4
					}
					x := len(lines) * k / 3
					return x - x%per
				}
				parts := []string{strings.Join(lines[:cut(1)], ""), strings.Join(lines[cut(1):cut(2)], ""), strings.Join(lines[cut(2):], "")}
				for i, part := range parts {
					if i > 0 {
						members = append(members, zb.Len())
					}
					zw := gzip.NewWriter(&zb)
					zw.Write([]byte(part))
					zw.Close()
				}
				cdata = zb.Bytes()
			}
			if codec == "gzn" {
				// a gzip member as the gzip command writes it: with the optional header fields (extra field, original
				// file name, comment) in front of the deflate data
				codec = "gz"
				var zb bytes.Buffer
				zw := gzip.NewWriter(&zb)
				zw.Name = b.name + "_of_run_42." + ext
				zw.Comment = "made for C17"
				zw.Extra = []byte{'A', 'B', 4, 0, 1, 2, 3, 4}
				zw.Write([]byte(b.text))
				zw.Close()
				cdata = zb.Bytes()
				hdr = 10 + 2 + len(zw.Extra) + len(zw.Name) + 1 + len(zw.Comment) + 1
			}
			proto := faultFile{Codec: codec, Fmt: b.format, Clen: len(cdata), D: len(b.text), Nrec: b.nrec, SizeTag: b.tag}
			if hdr > 0 {
				proto.Variant = "named"
			} else if len(members) > 0 {
				proto.Variant = "members"
			}
			// intact file
			f := proto
			f.Fault = "none"
			f.Dl, f.Err, _, f.ErrText = instrument(codec, cdata, b.text)
			f.Same = 1
			emit(f, cdata)
			// truncations
			var ts []int
			if per == 0 && b.tag == "small" {
				for t := 1; t < len(cdata); t++ {
					ts = append(ts, t)
				}
			} else {
				seen := map[int]bool{}
				add := func(t int) {
					if t >= 1 && t < len(cdata) && !seen[t] {
						seen[t] = true
						ts = append(ts, t)
					}
				}
				for i := 1; i <= 12; i++ { // header region and trailer region
					add(i)
					add(len(cdata) - i)
				}
				for i := 13; i <= hdr+3; i++ { // every cut inside the optional header fields
					add(i)
				}
				for _, m := range members { // cuts inside the header of every later member, and just after it
					add(m + 3)
					add(m + 9)
					add(m + 14)
				}
				k := per
				if b.tag == "big" {
					k = per / 4
					// make sure truncations past the first MiB of decompressed data exist
					for _, fr := range []float64{0.5, 0.6, 0.7, 0.8, 0.9, 0.95, 0.99} {
						add(int(fr * float64(len(cdata))))
					}
				}
				for i := 0; i < k; i++ {
					add(1 + r.Intn(len(cdata)-1))
				}
			}
			for _, t := range ts {
				f := proto
				f.Fault = "trunc"
				f.T = t
				var same bool
				f.Dl, f.Err, same, f.ErrText = instrument(codec, cdata[:t], b.text)
				if same {
					f.Same = 1
				}
				if codec == "gz" {
					f.Pgz = pgzipVerdict(cdata[:t])
				}
				for _, m := range members {
					if t > m && t < m+10 {
						f.Variant = "membershdrcut" // the cut falls inside the 10-byte header of a later member
					}
				}
				emit(f, cdata[:t])
			}
			// single bit flips (small files only: the checksum has to cover them)
			if b.tag == "small" {
				nf := per / 3
				if per == 0 {
					nf = 200
				}
				flips := []int{}
				for _, m := range members { // the magic number and method byte of every later member
					for bit := m * 8; bit < (m+3)*8; bit++ {
						flips = append(flips, bit)
					}
				}
				for i := 0; i < nf; i++ {
					flips = append(flips, r.Intn(len(cdata)*8))
				}
				for _, bit := range flips {
					mut := append([]byte(nil), cdata...)
					mut[bit/8] ^= 1 << uint(bit%8)
					f := proto
					f.Fault = "flip"
					f.T = bit
					var same bool
					f.Dl, f.Err, same, f.ErrText = instrument(codec, mut, b.text)
					if same {
						f.Same = 1
					}
					if codec == "gz" {
						f.Pgz = pgzipVerdict(mut)
					}
					emit(f, mut)
				}
			}
		}
	}
	env.checked = int64(n)
}

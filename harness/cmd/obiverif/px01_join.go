package main

// X01 (a): obijoin.
//
// replay: every case of RelJoinMC (option set, one main record, partner table) goes through the real
//   obijoin.BuildIndexedSequenceSlice + MakeJoinWorker ("lib"), and - a seeded share, and every case that
//   relies on the command's default key - through the real binary ("cmd": files written, argv built from the
//   option set, stdout decoded).  The copies are compared as a bag with the group the specification exported.
// record: whole runs on random tables far larger than the model's (hundreds of main records, up to 120
//   partner rows, 1-3 keys, values of mixed kinds, FASTA / FASTQ / CSV partner tables, several batches and
//   workers), through the binary and through MakeIWorker on a batched stream; RelTrace.tla judges the whole
//   output stream (order of the groups, multiplicity, content of every copy).

import (
	"fmt"
	"math/rand"
	"path/filepath"
	"sort"
	"strconv"

	"git.metabarcoding.org/obitools/obitools4/obitools4/pkg/obiiter"
	"git.metabarcoding.org/obitools/obitools4/obitools4/pkg/obiseq"
	"git.metabarcoding.org/obitools/obitools4/obitools4/pkg/obitools/obijoin"
)

func x01JoinLib(by [][]string, flags []int, main []x01Rec, part []x01Rec, batch, workers int) (out []x01Rec, status string) {
	left, right := []string{}, []string{}
	for _, p := range by {
		left = append(left, p[0])
		right = append(right, p[1])
	}
	data := obiseq.MakeBioSequenceSlice()
	for _, p := range part {
		data = append(data, x01MkSeq(p))
	}
	status = "ok"
	defer func() {
		if r := recover(); r != nil {
			status = fmt.Sprintf("panic: %v", r)
		}
	}()
	index := obijoin.BuildIndexedSequenceSlice(data, right)
	w := obijoin.MakeJoinWorker(left, index, flags[0] == 1, flags[1] == 1, flags[2] == 1)
	if batch <= 0 { // one record, the bare worker
		for _, m := range main {
			sl, err := w(x01MkSeq(m))
			if err != nil {
				return out, "error: " + err.Error()
			}
			for _, s := range sl {
				out = append(out, x01Snapshot(s, false))
			}
		}
		return out, status
	}
	seqs := obiseq.MakeBioSequenceSlice()
	for _, m := range main {
		seqs = append(seqs, x01MkSeq(m))
	}
	it := obiiter.IBatchOver("x01", seqs, batch).MakeIWorker(w, false, workers)
	got := map[int][]x01Rec{}
	for it.Next() {
		b := it.Get()
		rs := []x01Rec{}
		for _, s := range b.Slice() {
			rs = append(rs, x01Snapshot(s, false))
		}
		if _, dup := got[b.Order()]; dup {
			return out, "batch number " + strconv.Itoa(b.Order()) + " delivered twice"
		}
		got[b.Order()] = rs
	}
	orders := []int{}
	for o := range got {
		orders = append(orders, o)
	}
	sort.Ints(orders)
	for _, o := range orders {
		out = append(out, got[o]...)
	}
	return out, status
}

// x01JoinFiles writes the two inputs of a command-level run; ok=false when the case cannot be written as files
// without changing it (mixed quality presence, sequence-less partners with different attribute names).
func x01JoinFiles(dir, stem string, flags []int, main []x01Rec, part []x01Rec) (mainf, partf string, ok bool) {
	if !x01Uniform(main) || len(main) == 0 {
		return "", "", false
	}
	if flags[2] == 1 && main[0].Qual == "" {
		for _, p := range part {
			if p.Qual != "" {
				// FASTA main stream, quality scores taken from the partners: the output stream would mix records with and
				// without quality scores, and what the writers do with such a stream is not the subject (library level only)
				return "", "", false
			}
		}
	}
	for _, m := range main {
		if m.Seq == "" {
			return "", "", false
		}
	}
	mainf, err := x01WriteSeqFile(filepath.Join(dir, stem+"_main"), main)
	if err != nil {
		return "", "", false
	}
	noseq := 0
	for _, p := range part {
		if p.Seq == "" {
			noseq++
		}
	}
	switch {
	case len(part) > 0 && noseq == len(part):
		if !x01SameKeys(part) {
			return "", "", false
		}
		partf, err = x01WriteCSV(filepath.Join(dir, stem+"_part"), part)
	case noseq == 0 && x01Uniform(part):
		partf, err = x01WriteSeqFile(filepath.Join(dir, stem+"_part"), part)
	default:
		return "", "", false
	}
	return mainf, partf, err == nil
}

func x01JoinArgv(by [][]string, flags []int, partf string, extra []string, mainf string) []string {
	a := []string{"--no-progressbar", "-j", partf}
	for _, p := range by {
		if p[0] == p[1] {
			a = append(a, "--by", p[0])
		} else {
			a = append(a, "--by", p[0]+"="+p[1])
		}
	}
	for i, f := range []string{"--update-id", "--update-sequence", "--update-quality"} {
		if flags[i] == 1 {
			a = append(a, f)
		}
	}
	a = append(a, extra...)
	return append(a, mainf)
}

func x01ReplayJoin(env *Env, c *x01Case, i int, bindir, dir string, pick bool) {
	want := []x01Rec{}
	for _, e := range c.Expect {
		want = append(want, e.Rec)
	}
	compare := func(level string, got []x01Rec, how string) {
		cls := fmt.Sprintf("join/%s/%s/partners=%d", level, c.Byname, min(c.Npart, 2))
		c.Level = level
		qcls := cls
		if c.Flags[2] == 1 {
			for _, p := range c.Part {
				if p.Seq != "" && p.Qual == "" {
					qcls = cls + "/uq-noqual" // --update-quality and a partner that has nucleotides but no quality scores
				}
			}
		}
		if len(got) != len(want) {
			x01Fail(env, "X01.join.multiplicity", cls, fmt.Sprintf("%s: %d copies, the specification gives %d: got %s", how, len(got), len(want), x01Brief(got)), c)
			return
		}
		if !x01BagEq(x01Bag(got, false), x01Bag(want, false)) {
			x01Fail(env, "X01.join.records", cls, fmt.Sprintf("%s: got %s ; want %s", how, x01Brief(got), x01Brief(want)), c)
			return
		}
		// copies whose quality string is fixed by the statement must be there, with their multiplicity
		exact := map[string]int{}
		for _, e := range c.Expect {
			if e.Qfree == 0 {
				exact[x01Canon(e.Rec, true)]++
			}
		}
		gb := x01Bag(got, true)
		for k, n := range exact {
			if gb[k] < n {
				x01Fail(env, "X01.join.qualities", qcls, fmt.Sprintf("%s: got %s ; want %s", how, x01Brief(got), x01Brief(want)), c)
				return
			}
		}
		for _, g := range got {
			if g.Qual != "" && len(g.Qual) != len(g.Seq) {
				x01Fail(env, "X01.join.wellformed", cls, fmt.Sprintf("%s: output record %s has %d nucleotides and %d quality scores", how, g.Id, len(g.Seq), len(g.Qual)), c)
				return
			}
		}
		env.ok(cls)
		if i%1500 == 0 {
			env.sample(map[string]any{"join": how, "by": c.By, "flags": c.Flags, "main": c.Main, "partners": len(c.Part), "copies": len(got)})
		}
	}
	if len(c.By) > 0 { // the command's default (no --by) is an option-level notion: command level only
		got, st := x01JoinLib(c.By, c.Flags, []x01Rec{c.Main}, c.Part, 0, 1)
		if st != "ok" {
			c.Level = "lib"
			x01Fail(env, "X01.join.lib_failed", "join/lib/"+c.Byname, st, c)
		} else {
			compare("lib", got, "MakeJoinWorker")
		}
	}
	// command level: the seeded share, the cases that rely on the default key (all of them, or one in `dfltevery`), a quarter
	// of the --by l=r cases
	dflt := len(c.By) == 0 && i%max(1, env.optInt("dfltevery", 1)) == 0
	if bindir == "" || !(pick || dflt || (c.Byname == "ab" && i%4 == 0)) {
		return
	}
	mainf, partf, ok := x01JoinFiles(dir, "j"+strconv.Itoa(i), c.Flags, []x01Rec{c.Main}, c.Part)
	if !ok {
		if len(c.Part) > 0 {
			env.ok("join/cmd/not-expressible-as-files")
			return
		}
		// an empty partner table: an empty file
		var err error
		mainf, err = x01WriteSeqFile(filepath.Join(dir, "j"+strconv.Itoa(i)+"_main"), []x01Rec{c.Main})
		partf, _ = x01WriteSeqFile(filepath.Join(dir, "j"+strconv.Itoa(i)+"_part"), nil)
		if err != nil {
			return
		}
	}
	argv := x01JoinArgv(c.By, c.Flags, partf, []string{"--max-cpu", strconv.Itoa(1 + i%4)}, mainf)
	p := x01Run(filepath.Join(bindir, "obijoin"), argv, dir)
	how := "obijoin " + fmt.Sprint(argv[1:])
	c.Level = "cmd"
	if p.Hung || p.Rc != 0 {
		x01Fail(env, "X01.join.cmd_failed", "join/cmd/"+c.Byname, fmt.Sprintf("%s: rc=%d hung=%v %s", how, p.Rc, p.Hung, p.Stderr), c)
		return
	}
	got, err := x01ParseSeqText(p.Out, false)
	if err != nil {
		x01Fail(env, "X01.join.cmd_output", "join/cmd/"+c.Byname, how+": "+err.Error(), c)
		return
	}
	compare("cmd", got, how)
}

// ------------------------------------------------------------------------------------ record

type x01JoinEvent struct {
	Sub     string     `json:"sub"`
	Level   string     `json:"level"`
	Seed    int64      `json:"seed"`
	By      [][]string `json:"by"`
	Flags   []int      `json:"flags"`
	Main    []x01Rec   `json:"main"`
	Part    []x01Rec   `json:"part"`
	Out     []x01Rec   `json:"out"`
	Status  string     `json:"status"` // ok | what went wrong before there was an output to judge
	How     string     `json:"how"`
	Workers int        `json:"workers"`
	Batch   int        `json:"batch"`
}

var x01Nuc = "acgt"

func x01RandSeq(rng *rand.Rand, n int) string {
	b := make([]byte, n)
	for i := range b {
		b[i] = x01Nuc[rng.Intn(4)]
	}
	return string(b)
}

func x01RandQual(rng *rand.Rand, n int) string {
	b := make([]byte, n)
	for i := range b {
		b[i] = "0123456789ABCDEFGHI"[rng.Intn(19)] // never '@' or '+': the FASTQ reader is not the subject here
	}
	return string(b)
}

func x01JoinScenario(rng *rand.Rand, seed int64, big bool) (by [][]string, flags []int, main, part []x01Rec, partCSV bool) {
	nmain := 20 + rng.Intn(280)
	npart := rng.Intn(120)
	if big {
		nmain = 5200 + rng.Intn(600) // more than one reader chunk of 1 MiB
		npart = 10 + rng.Intn(20)
	}
	if rng.Intn(12) == 0 {
		npart = 0
	}
	nsample := 2 + rng.Intn(30)
	nk := 2 + rng.Intn(5)
	fastq := rng.Intn(2) == 0
	partQual := rng.Intn(3) // 0: none, 1: all, 2: CSV rows
	partCSV = partQual == 2
	val := func(kind int, key string, n int) string {
		v := rng.Intn(n) + 1
		switch key {
		case "sample":
			if rng.Intn(15) == 0 {
				return []string{"s:NA", "s:"}[rng.Intn(2)] // an NA marker, an empty cell: values like any other
			}
			return "s:S" + strconv.Itoa(v)
		case "k", "num":
			if kind == 0 {
				return "i:" + strconv.Itoa(v)
			}
			return "s:" + strconv.Itoa(v)
		}
		return "s:r" + strconv.Itoa(v)
	}
	switch int(uint64(seed) % 7) {
	case 0:
		by = [][]string{}
	case 1:
		by = [][]string{{"sample", "sample"}}
	case 2:
		by = [][]string{{"k", "k"}}
	case 3:
		by = [][]string{{"sample", "sample"}, {"k", "k"}}
	case 4:
		by = [][]string{{"k", "num"}}
	case 5:
		by = [][]string{{"id", "id"}, {"run", "run"}}
	default:
		by = [][]string{{"sample", "sample"}, {"k", "num"}, {"run", "run"}}
	}
	flags = []int{rng.Intn(2), rng.Intn(2), rng.Intn(2)}
	sameLen := rng.Intn(3) > 0 // most runs keep the partner sequences as long as the main ones
	length := 8 + rng.Intn(30)
	if big {
		length = 200
	}
	for i := 0; i < nmain; i++ {
		l := length
		if !sameLen {
			l = 5 + rng.Intn(30)
		}
		r := x01Rec{Id: "m" + strconv.Itoa(i+1), Seq: x01RandSeq(rng, l), Ann: x01Ann{}}
		if fastq {
			r.Qual = x01RandQual(rng, l)
		}
		if rng.Intn(10) > 0 {
			r.Ann["sample"] = val(0, "sample", nsample)
		}
		if rng.Intn(10) > 0 {
			r.Ann["k"] = val(rng.Intn(2), "k", nk)
		}
		if rng.Intn(4) > 0 {
			r.Ann["run"] = val(0, "run", 3)
		}
		if rng.Intn(2) == 0 {
			r.Ann["own"] = "s:mine" + strconv.Itoa(i)
		}
		if rng.Intn(3) == 0 {
			r.Ann["depth"] = "i:" + strconv.Itoa(rng.Intn(50))
		}
		main = append(main, r)
	}
	for j := 0; j < npart; j++ {
		l := length
		if !sameLen {
			l = 5 + rng.Intn(30)
		}
		id := "p" + strconv.Itoa(j+1)
		if rng.Intn(3) == 0 {
			id = "m" + strconv.Itoa(1+rng.Intn(nmain)) // shares its identifier with a main record (several rows may)
		}
		r := x01Rec{Id: id, Ann: x01Ann{}}
		if !partCSV {
			r.Seq = x01RandSeq(rng, l)
			if partQual == 1 {
				r.Qual = x01RandQual(rng, l)
			}
		}
		miss := func() bool { return !partCSV && rng.Intn(12) == 0 }
		if !miss() {
			r.Ann["sample"] = val(0, "sample", nsample)
		}
		if !miss() {
			r.Ann["k"] = val(rng.Intn(2), "k", nk)
		}
		if !miss() {
			r.Ann["num"] = val(rng.Intn(2), "num", nk)
		}
		if !miss() {
			r.Ann["run"] = val(0, "run", 3)
		}
		r.Ann["site"] = "s:site " + strconv.Itoa(j)
		if partCSV || rng.Intn(2) == 0 {
			r.Ann["depth"] = "i:" + strconv.Itoa(100+rng.Intn(50)) // overrides the main record's
		}
		part = append(part, r)
	}
	return
}

func x01RecordJoin(env *Env, bindir, dir string) {
	n := env.n
	jobs := []int64{}
	if js := env.opt("jobseed", ""); js != "" {
		v, _ := strconv.ParseInt(js, 10, 64)
		jobs = []int64{v}
	} else {
		for i := 0; i < n; i++ {
			jobs = append(jobs, env.seed*7919+int64(i))
		}
	}
	nbig := env.optInt("big", 0)
	parallel(len(jobs), 8, func(i int) {
		seed := jobs[i]
		rng := rand.New(rand.NewSource(seed))
		big := (i < nbig && env.opt("jobseed", "") == "") || env.opt("jobbig", "") == "1"
		by, flags, main, part, _ := x01JoinScenario(rng, seed, big)
		ev := x01JoinEvent{Sub: "join", Seed: seed, By: by, Flags: flags, Main: main, Part: part, Out: []x01Rec{}, Status: "ok"}
		if by == nil {
			ev.By = [][]string{}
		}
		if ev.Part == nil {
			ev.Part = []x01Rec{}
		}
		useCmd := bindir != "" && (len(by) == 0 || big || (seed/7)%2 == 0)
		if env.opt("joblevel", "") != "" {
			useCmd = env.opt("joblevel", "") == "cmd"
		}
		if big {
			ev.Level = "cmd-big"
		}
		if useCmd {
			if ev.Level == "" {
				ev.Level = "cmd"
			}
			ev.Workers = 1 + rng.Intn(8)
			ev.Batch = []int{1, 3, 17, 1000}[rng.Intn(4)]
			mainf, partf, ok := x01JoinFiles(dir, "t"+strconv.FormatInt(seed, 10), flags, main, part)
			if !ok && len(part) == 0 {
				var err error
				mainf, err = x01WriteSeqFile(filepath.Join(dir, "t"+strconv.FormatInt(seed, 10)+"_main"), main)
				partf, _ = x01WriteSeqFile(filepath.Join(dir, "t"+strconv.FormatInt(seed, 10)+"_part"), nil)
				ok = err == nil
			}
			if !ok {
				useCmd = false
			} else {
				argv := x01JoinArgv(by, flags, partf, []string{"--max-cpu", strconv.Itoa(ev.Workers), "--batch-size", strconv.Itoa(ev.Batch)}, mainf)
				ev.How = "obijoin " + fmt.Sprint(argv[1:])
				p := x01Run(filepath.Join(bindir, "obijoin"), argv, dir)
				if p.Hung || p.Rc != 0 {
					ev.Status = fmt.Sprintf("rc=%d hung=%v %s", p.Rc, p.Hung, p.Stderr)
				} else if got, err := x01ParseSeqText(p.Out, false); err != nil {
					ev.Status = "output: " + err.Error()
				} else {
					ev.Out = got
				}
			}
		}
		if !useCmd {
			if len(by) == 0 { // no command available: the library has no default key
				by = [][]string{{"id", "id"}}
				ev.By = by
			}
			ev.Level = "lib"
			ev.Workers = 1 + rng.Intn(6)
			ev.Batch = 1 + rng.Intn(40)
			ev.How = fmt.Sprintf("MakeJoinWorker through MakeIWorker, batches of %d, %d workers", ev.Batch, ev.Workers)
			got, st := x01JoinLib(by, flags, main, part, ev.Batch, ev.Workers)
			ev.Status = st
			if got != nil {
				ev.Out = got
			}
		}
		env.emit(ev)
	})
}

// obiverif: conformance harness binding the TLA+ specifications of /verif/spec to the
// real obitools4 code (built from /repo's working tree with -tags verif).
//
//	obiverif replay <ID> --cases cases.ndjson --out results.ndjson [--opt k=v ...]
//	obiverif record <ID> --out trace.ndjson [--n N] [--opt k=v ...]
//
// replay: drive the real code through every case exported by TLC, compare with the value the
// specification assigns; failures are written as result lines, never decided here beyond that.
// record: run the real code on seeded scenarios and log what it did for TLC trace validation.
package main

import (
	"fmt"
	"os"
	"sort"
	"strings"
)

type driver struct {
	replay func(env *Env)
	record func(env *Env)
}

var drivers = map[string]*driver{}

func register(id string, d *driver) { drivers[id] = d }

func main() {
	if len(os.Args) < 3 {
		ids := []string{}
		for k := range drivers {
			ids = append(ids, k)
		}
		sort.Strings(ids)
		fmt.Fprintln(os.Stderr, "usage: obiverif replay|record <ID> [flags]; drivers:", strings.Join(ids, " "))
		os.Exit(2)
	}
	mode, id := os.Args[1], os.Args[2]
	d, ok := drivers[id]
	if !ok {
		fmt.Fprintln(os.Stderr, "unknown driver", id)
		os.Exit(2)
	}
	env := newEnv(id, os.Args[3:])
	installFatalCapture()
	switch mode {
	case "replay":
		if d.replay == nil {
			fmt.Fprintln(os.Stderr, "driver has no replay mode")
			os.Exit(2)
		}
		d.replay(env)
	case "record":
		if d.record == nil {
			fmt.Fprintln(os.Stderr, "driver has no record mode")
			os.Exit(2)
		}
		env.noSummary = true
		d.record(env)
	default:
		fmt.Fprintln(os.Stderr, "unknown mode", mode)
		os.Exit(2)
	}
	env.close()
}

package main

// C04 (and the base of C18): the four writers under forced arrival histories.
//
// replay: every (format, sizes, arrival) case exported by TLC from spec/L2_io/Writer.tla is pushed
// into the real WriteFasta/WriteFastq/WriteJSON/WriteCSV with ONE formatting worker (so the
// arrival order at the writer goroutine is exactly the push order) and a recording sink; the
// bytes are tokenised (open/sep/close/header/record id) and compared with the model's `out`.
// record: random larger streams with 2-4 formatting workers; tokens are logged for WriterTrace.tla.

import (
	"bytes"
	"encoding/csv"
	"encoding/json"
	"fmt"
	"strings"
	"sync"
	"time"

	"git.metabarcoding.org/obitools/obitools4/obitools4/pkg/obiformats"
	"git.metabarcoding.org/obitools/obitools4/obitools4/pkg/obiiter"
	"git.metabarcoding.org/obitools/obitools4/obitools4/pkg/obiseq"
)

type writerCase struct {
	Fmt     string   `json:"fmt"`
	Sizes   []int    `json:"sizes"`
	Arrival []int    `json:"arrival"`
	Out     []string `json:"out"`
	Workers int      `json:"workers,omitempty"`
}

func init() {
	register("C04", &driver{replay: replayC04, record: recordC04})
}

func recID(o, k int) string { return fmt.Sprintf("r%d_%d", o, k) }

// deterministic nucleotide string for record (o,k); some are longer than one 60-column line
func recSeq(o, k int) string {
	l := 1 + (o*7+k*13)%23
	if (o+k)%5 == 0 {
		l += 58 // 59..81: crosses the folding boundary
	}
	if (o+2*k)%7 == 3 {
		l = 60 * (1 + (o+k)%3) // exactly one, two or three full lines
	}
	if o >= 7 && (o*3+k)%7 == 5 {
		// a record whose text is longer than the 4 KiB buffers of the formatters (9-16.5 kb: a mitogenome among
		// amplicons); only in the recorded streams (the model's cases have at most 7 batches)
		l = 9000 + 500*((o+k)%16)
	}
	b := make([]byte, l)
	for i := range b {
		b[i] = "acgt"[(i+o+2*k)%4]
	}
	return string(b)
}

// seqOfID: the sequence pushed under an identifier made by recID (false for any other identifier)
func seqOfID(id string) (string, bool) {
	var o, k int
	if n, err := fmt.Sscanf(id, "r%d_%d", &o, &k); err != nil || n != 2 || recID(o, k) != id || bigBatches[o] {
		return "", false
	}
	return recSeq(o, k), true
}

// bigBatches (C18 only, sequential runs): batches whose single record is larger than the 4 KiB bufio buffer
var bigBatches map[int]bool

func mkBatch(o, size int, withQual bool) obiiter.BioSequenceBatch {
	sl := obiseq.MakeBioSequenceSlice()
	for k := 1; k <= size; k++ {
		s := recSeq(o, k)
		if bigBatches[o] {
			s = strings.Repeat(s, 5000/len(s)+1)
		}
		var bs *obiseq.BioSequence
		if withQual {
			q := make([]byte, len(s))
			for i := range q {
				q[i] = byte((i + o + k) % 41)
				if (o+k)%3 == 0 {
					// any score a record can hold (one byte): a Sanger file decoded as Solexa, merged reads ... reach
					// 94..255, which the writer saturates to the highest printable character
					q[i] = byte((i*37 + o*13 + k*29) % 256)
				}
			}
			bs = obiseq.NewBioSequenceWithQualities(recID(o, k), []byte(s), "", q)
		} else {
			bs = obiseq.NewBioSequence(recID(o, k), []byte(s), "")
		}
		bs.SetAttribute("o", o)
		sl = append(sl, bs)
	}
	return obiiter.MakeBioSequenceBatch("verif", o, sl)
}

type writerRun struct {
	snk      *sink
	hungIter bool // the iterator returned by the writer was not closed
	hungSink bool // the sink was never closed
	fatal    bool
	passed   int // records delivered by the iterator the writer returns (it passes its input through)
	early    bool // the iterator the writer returns ended while the output was not yet closed
}

// runWriter pushes the batches in `arrival` order into the real writer.
func runWriter(format string, sizes, arrival []int, workers int, snk *sink, compressed bool) writerRun {
	return runWriterPatience(format, sizes, arrival, workers, snk, compressed, 20*time.Second)
}

func runWriterPatience(format string, sizes, arrival []int, workers int, snk *sink, compressed bool, patience time.Duration) writerRun {
	it := obiiter.MakeIBioSequence()
	it.Add(1)
	go func() { it.WaitAndClose() }()
	go func() {
		for _, o := range arrival {
			it.Push(mkBatch(o, sizes[o], strings.HasSuffix(format, "fastq")))
		}
		it.Done()
	}()
	opts := []obiformats.WithOption{obiformats.OptionsParallelWorkers(workers), obiformats.OptionCloseFile(),
		obiformats.OptionsCompressed(compressed)}
	var out obiiter.IBioSequence
	f0 := fatalCount()
	started := make(chan struct{})
	go func() { // the writers may log.Fatal synchronously
		defer close(started)
		switch format {
		case "fasta":
			out, _ = obiformats.WriteFasta(it, snk, opts...)
		case "fastq":
			out, _ = obiformats.WriteFastq(it, snk, opts...)
		case "auto-fasta", "auto-fastq":
			// the writer of the commands: it looks at the first batch, pushes it back, and hands the iterator to
			// the FASTA or FASTQ writer (whose workers are split from an iterator holding a pushed-back batch)
			out, _ = obiformats.WriteSequence(it, snk, opts...)
		case "json":
			out, _ = obiformats.WriteJSON(it, snk, opts...)
		case "csv":
			opts = append(opts, obiformats.CSVId(true), obiformats.CSVCount(true), obiformats.CSVSequence(true))
			out, _ = obiformats.WriteCSV(it, snk, opts...)
		}
	}()
	<-started
	r := writerRun{snk: snk}
	if out.IsNil() {
		r.fatal = true
		return r
	}
	drained := make(chan struct{})
	go func() {
		for out.Next() {
			r.passed += len(out.Get().Slice())
		}
		close(drained)
	}()
	if !waitTimeout(drained, patience) {
		r.hungIter = true
	} else {
		select {
		case <-snk.closedCh:
		default:
			r.early = true
		}
	}
	if !waitTimeout(snk.closedCh, patience) {
		r.hungSink = true
	}
	r.fatal = fatalCount() > f0
	return r
}

// tokenize turns the bytes written by a writer into the token alphabet of Writer.tla.
// Anything that does not fit the format yields a "junk:<what>" token (so the comparison fails).
func tokenize(format string, data []byte) []string {
	toks := []string{}
	switch format {
	case "fasta":
		// strict reading: a title line, then at least one non-empty line of nucleotides, nothing else (no blank
		// line); the lines of a record put together are the sequence that was pushed under that identifier
		lines := strings.Split(string(data), "\n")
		if len(lines) > 0 && lines[len(lines)-1] == "" {
			lines = lines[:len(lines)-1]
		} else if len(data) > 0 {
			toks = append(toks, "junk:no-final-newline")
		}
		cur, seq, nl := "", "", 0
		closeRec := func() {
			if cur == "" {
				return
			}
			if nl == 0 {
				toks = append(toks, "junk:no-sequence-line-for-"+cur)
			} else if want, ok := seqOfID(cur); ok && want != seq {
				toks = append(toks, "junk:sequence-of-"+cur)
			}
		}
		for _, line := range lines {
			switch {
			case strings.HasPrefix(line, ">"):
				closeRec()
				cur, seq, nl = strings.Fields(line[1:] + " ")[0], "", 0
				toks = append(toks, cur)
			case line == "":
				toks = append(toks, "junk:blank-line")
			case cur == "":
				toks = append(toks, "junk:sequence-before-title")
			default:
				if strings.Trim(line, "acgtnACGTN") != "" {
					toks = append(toks, "junk:not-nucleotides")
				}
				seq += line
				nl++
			}
		}
		closeRec()
	case "fastq":
		lines := strings.Split(string(data), "\n")
		if len(lines) > 0 && lines[len(lines)-1] == "" {
			lines = lines[:len(lines)-1]
		}
		for i := 0; i < len(lines); i += 4 {
			if i+3 >= len(lines) || !strings.HasPrefix(lines[i], "@") || !strings.HasPrefix(lines[i+2], "+") {
				toks = append(toks, "junk:fastq-structure")
				break
			}
			id := strings.Fields(lines[i][1:] + " ")[0]
			toks = append(toks, id)
			if len(lines[i+1]) != len(lines[i+3]) {
				toks = append(toks, "junk:quality-length-of-"+id)
			} else if strings.IndexFunc(lines[i+3], func(r rune) bool { return r < 33 || r > 126 }) >= 0 {
				toks = append(toks, "junk:quality-characters-of-"+id)
			} else if want, ok := seqOfID(id); ok && want != lines[i+1] {
				toks = append(toks, "junk:sequence-of-"+id)
			}
		}
	case "csv":
		for _, line := range strings.Split(string(data), "\n") {
			if line == "" {
				continue
			}
			f := strings.Split(line, ",")
			if line == "id,count,sequence" {
				toks = append(toks, "header")
			} else {
				toks = append(toks, f[0])
			}
		}
	case "json":
		// top-level lexer: '[' open, ',' at depth 1 sep, object at depth 1 record, ']' close
		depth := 0
		inStr, esc := false, false
		start := -1
		for i, c := range data {
			if inStr {
				if esc {
					esc = false
				} else if c == '\\' {
					esc = true
				} else if c == '"' {
					inStr = false
				}
				continue
			}
			switch c {
			case '"':
				inStr = true
				if depth <= 1 {
					toks = append(toks, "junk:string")
				}
			case '[':
				if depth == 0 {
					toks = append(toks, "open")
				}
				depth++
			case '{':
				if depth == 1 {
					start = i
				}
				depth++
			case '}':
				depth--
				if depth == 1 && start >= 0 {
					var m map[string]any
					if json.Unmarshal(data[start:i+1], &m) == nil {
						toks = append(toks, fmt.Sprint(m["id"]))
					} else {
						toks = append(toks, "junk:object")
					}
					start = -1
				}
			case ']':
				depth--
				if depth == 0 {
					toks = append(toks, "close")
				}
			case ',':
				if depth == 1 {
					toks = append(toks, "sep")
				}
			case ' ', '\n', '\t', '\r':
			default:
				if depth <= 1 {
					toks = append(toks, "junk:"+string(c))
				}
			}
		}
	}
	return toks
}

// deepCheck: the property-level validity that does not depend on our tokenizer.
func deepCheck(format string, data []byte, sizes []int) string {
	type rec struct{ id, seq string }
	var want []rec
	for o, s := range sizes {
		for k := 1; k <= s; k++ {
			want = append(want, rec{recID(o, k), recSeq(o, k)})
		}
	}
	var got []rec
	switch format {
	case "json":
		var arr []map[string]any
		if err := json.Unmarshal(data, &arr); err != nil {
			return "output is not a single valid JSON array: " + err.Error()
		}
		for _, m := range arr {
			got = append(got, rec{fmt.Sprint(m["id"]), fmt.Sprint(m["sequence"])})
		}
	case "csv":
		rows, err := csv.NewReader(bytes.NewReader(data)).ReadAll()
		if err != nil {
			return "output is not valid CSV: " + err.Error()
		}
		if len(sizes) == 0 {
			return ""
		}
		if len(rows) == 0 || strings.Join(rows[0], ",") != "id,count,sequence" {
			return "first CSV line is not the header"
		}
		for _, r := range rows[1:] {
			if len(r) != 3 {
				return "CSV row with wrong number of fields"
			}
			if r[0] == "id" {
				return "header repeated"
			}
			got = append(got, rec{r[0], r[2]})
		}
	case "fasta":
		var cur *rec
		for _, line := range strings.Split(string(data), "\n") {
			if strings.HasPrefix(line, ">") {
				got = append(got, rec{strings.Fields(line[1:] + " ")[0], ""})
				cur = &got[len(got)-1]
			} else if cur != nil {
				cur.seq += line
			} else if line != "" {
				return "text before the first FASTA header"
			}
		}
	case "fastq":
		lines := strings.Split(string(data), "\n")
		for i := 0; i+3 < len(lines); i += 4 {
			got = append(got, rec{strings.Fields(lines[i][1:] + " ")[0], lines[i+1]})
			if len(lines[i+3]) != len(lines[i+1]) {
				return "quality/sequence length mismatch in output"
			}
		}
	}
	if len(got) != len(want) {
		return fmt.Sprintf("%d records in output, %d expected", len(got), len(want))
	}
	for i := range got {
		if got[i] != want[i] {
			return fmt.Sprintf("record %d is %v, expected %v", i, got[i], want[i])
		}
	}
	return ""
}

func historyClass(c writerCase) string {
	inorder := true
	for i, o := range c.Arrival {
		if o != i {
			inorder = false
		}
	}
	empty := false
	for _, s := range c.Sizes {
		if s == 0 {
			empty = true
		}
	}
	cl := c.Fmt
	if inorder {
		cl += "/inorder"
	} else {
		cl += "/reordered"
	}
	if empty {
		cl += "/empties"
	} else {
		cl += "/noempty"
	}
	return cl
}

func checkWriterCase(env *Env, c writerCase, workers int) {
	snk := newSink()
	r := runWriter(c.Fmt, c.Sizes, c.Arrival, workers, snk, false)
	cl := historyClass(c)
	if r.fatal {
		env.fail("C04."+c.Fmt+".fatal", cl, "writer called log.Fatal on a healthy sink: "+strings.Join(fatalMessages(), "; "), c)
		return
	}
	if r.hungIter || r.hungSink {
		env.fail("C04."+c.Fmt+".close_missing", cl, fmt.Sprintf("iterator closed=%v sink closed=%v after all batches were pushed", !r.hungIter, !r.hungSink), c)
		return
	}
	data := snk.bytes()
	if snk.closes != 1 || snk.writeAfter {
		env.fail("C04."+c.Fmt+".close_protocol", cl, fmt.Sprintf("Close called %d times, write after close=%v", snk.closes, snk.writeAfter), c)
	}
	toks := tokenize(c.Fmt, data)
	if strings.Join(toks, " ") != strings.Join(c.Out, " ") {
		env.fail("C04."+c.Fmt+".tokens", cl, fmt.Sprintf("output tokens %v, specification %v", toks, c.Out), c)
	} else if msg := deepCheck(c.Fmt, data, c.Sizes); msg != "" {
		env.fail("C04."+c.Fmt+".wellformed", cl, msg, c)
	}
	env.ok(cl)
}

func replayC04(env *Env) {
	cases := loadCases[writerCase](env.cases)
	parallel(len(cases), 0, func(i int) {
		if env.tooManyFailures() {
			return
		}
		c := cases[i]
		w := c.Workers
		if w == 0 {
			w = 1
		}
		checkWriterCase(env, c, w)
		if i%1500 == 7 {
			env.sample(c)
		}
	})
}

// record: random histories, several formatting workers; log the observed token sequence.
func recordC04(env *Env) {
	type ev struct {
		Fmt     string   `json:"fmt"`
		Sizes   []int    `json:"sizes"`
		Workers int      `json:"workers"`
		Tokens  []string `json:"tokens"`
		Closes  int      `json:"closes"`
		After   int      `json:"writeafterclose"`
		Hung    int      `json:"hung"`
		Push    []int    `json:"push"`
	}
	fmts := []string{"fasta", "fastq", "json", "csv"}
	type job struct {
		ev ev
	}
	jobs := make([]ev, env.n)
	for i := range jobs {
		n := env.rng.Intn(13)
		sizes := make([]int, n)
		for j := range sizes {
			if env.rng.Intn(3) > 0 {
				sizes[j] = env.rng.Intn(4)
			}
		}
		jobs[i] = ev{Fmt: fmts[i%4], Sizes: sizes, Workers: 2 + env.rng.Intn(3), Push: env.rng.Perm(n)}
	}
	// a long stream in which one batch reaches the writer after more than a hundred of its successors (one very slow
	// formatting worker): the writers hold the batches that are early for as long as it takes
	for k := 0; k < 8; k++ {
		delay := []int{101, 102, 120, 150, 250, 130, 200, 105}[k]
		n := delay + 5 + env.rng.Intn(40)
		late := env.rng.Intn(n - delay - 1)
		sizes := make([]int, n)
		for j := range sizes {
			sizes[j] = 1 + env.rng.Intn(2)
		}
		push := []int{}
		for b := 0; b < n; b++ {
			if b != late {
				push = append(push, b)
			}
			if b == late+delay {
				push = append(push, late)
			}
		}
		jobs = append(jobs, ev{Fmt: fmts[k%4], Sizes: sizes, Workers: 2 + env.rng.Intn(3), Push: push})
	}
	parallel(len(jobs), 0, func(i int) {
		j := &jobs[i]
		snk := newSink()
		wf := j.Fmt
		if (i/4)%3 == 2 && len(j.Sizes) > 0 && (wf == "fasta" || wf == "fastq") {
			wf = "auto-" + wf // the writer of the commands, which guesses the format from the first batch it meets
		}
		r := runWriter(wf, j.Sizes, j.Push, j.Workers, snk, false)
		if strings.HasPrefix(wf, "auto-") {
			// the format is the guess of the writer (an empty first batch makes it FASTA whatever follows): the
			// bytes are read in the format they announce
			if b := snk.bytes(); len(b) > 0 && b[0] == '>' {
				j.Fmt = "fasta"
			} else if len(b) > 0 && b[0] == '@' {
				j.Fmt = "fastq"
			}
		}
		j.Tokens = tokenize(j.Fmt, snk.bytes())
		j.Closes = snk.closes
		if snk.writeAfter {
			j.After = 1
		}
		if r.hungIter || r.hungSink || r.fatal {
			j.Hung = 1
		} else if r.early && (j.Fmt == "fasta" || j.Fmt == "fastq") {
			// the FASTA / FASTQ writers end the iterator they return only once the output is complete and closed
			// (obiuniq reads its chunk files back at that moment); the JSON and CSV writers never promised it
			j.Tokens = append(j.Tokens, "junk:the-iterator-returned-by-the-writer-ended-before-the-output-was-closed")
		}
		if msg := deepCheck(j.Fmt, snk.bytes(), j.Sizes); msg != "" && j.Hung == 0 {
			j.Tokens = append(j.Tokens, "junk:"+msg)
		}
	})
	for _, j := range jobs {
		env.emit(j)
	}
	// the format-guessing writer, thousands of times on the same small stream with several workers: the workers
	// race for the batch pushed back before they were split.  Runs with equal outcomes are logged once.
	nst := env.optInt("pushback", 150000)
	type outcome struct {
		e ev
		n int
	}
	var omu sync.Mutex
	outcomes := map[string]*outcome{}
	parallel(nst, 0, func(i int) {
		f := []string{"auto-fasta", "auto-fastq"}[i%2]
		j := ev{Fmt: f[5:], Sizes: []int{2, 1, 1}, Workers: 2 + i%3, Push: []int{0, 1, 2}}
		snk := newSink()
		r := runWriterPatience(f, j.Sizes, j.Push, j.Workers, snk, false, 30*time.Second)
		j.Tokens = tokenize(j.Fmt, snk.bytes())
		j.Closes = snk.closes
		if snk.writeAfter {
			j.After = 1
		}
		if r.hungIter || r.hungSink || r.fatal {
			j.Hung = 1
		} else if r.passed != 4 {
			j.Tokens = append(j.Tokens, fmt.Sprintf("junk:the-iterator-returned-by-the-writer-delivered-%d-records-of-4", r.passed))
		}
		key := fmt.Sprint(j)
		omu.Lock()
		if o, ok := outcomes[key]; ok {
			o.n++
		} else {
			outcomes[key] = &outcome{j, 1}
		}
		omu.Unlock()
	})
	for _, o := range outcomes {
		env.emit(o.e)
	}
	env.checked = int64(len(jobs) + nst)
}

package main

// C19: exact De Bruijn weights and heaviest path (obikmer.DeBruijnGraph); strand-invariant canonical
// k-mers of the k-mer index (obikmer.KmerMap on obifp.Uint64/Uint128/Uint256); 4-mer tables
// (obikmer.Count4Mer).
//
// replay: every case exported by TLC from spec/L0_kernel/KmerCheck.tla (kind "idx") and
// DeBruijnCheck.tla (kind "graph") carries what Kmer.tla / DeBruijn.tla say the real code must
// answer: the canonical keys (as letters), their KmerAsString rendering, the keys of the reverse
// complement, the 4-mer table; the weight of every node, the edges, the sources, whether the graph
// has a cycle and the weight of the heaviest walk from a source.  The heaviest path is judged by
// WEIGHT and WALK VALIDITY against these exported sets (ties allowed), never by identity.  Nothing
// is recomputed here: the driver decodes, calls and compares.
//
// record: seeded random inputs far beyond TLC's enumeration (k up to 31 for the graph, up to 64 for
// the index, sequences of tens to hundreds of bases, read sets with substitutions/indels, repeats,
// ambiguity codes); every observation is logged for spec/trace/KmerTrace.tla which re-evaluates the
// definitions on each event.

import (
	"fmt"
	"math/rand"
	"os"
	"sort"
	"strconv"
	"strings"
	"sync"
	"sync/atomic"

	"git.metabarcoding.org/obitools/obitools4/obitools4/pkg/obifp"
	"git.metabarcoding.org/obitools/obitools4/obitools4/pkg/obikmer"
	"git.metabarcoding.org/obitools/obitools4/obitools4/pkg/obiseq"
	"git.metabarcoding.org/obitools/obitools4/obitools4/pkg/obitools/obiconsensus"
)

func init() {
	register("C19", &driver{replay: replayC19, record: recordC19})
}

// ------------------------------------------------------------------------------------ helpers

type c19Counters struct {
	classes map[string]int
	n       int64
}

func (c *c19Counters) ok(class string) {
	c.classes[class]++
	c.n++
}

// flag counts a scenario feature (vacuity guard) without counting a comparison
func (c *c19Counters) flag(class string) {
	c.classes[class]++
}

func (c *c19Counters) merge(env *Env) {
	atomic.AddInt64(&env.checked, c.n)
	env.mu.Lock()
	for k, v := range c.classes {
		env.classes[k] += v
	}
	env.mu.Unlock()
}

// at most c19MaxPerKey failure lines per (assert, class)
type c19Limiter struct {
	mu   sync.Mutex
	seen map[string]int
}

const c19MaxPerKey = 20

func (f *c19Limiter) fail(env *Env, assert, class, detail string, c any) {
	f.mu.Lock()
	f.seen[assert+"|"+class]++
	n := f.seen[assert+"|"+class]
	f.mu.Unlock()
	if n <= c19MaxPerKey {
		env.fail(assert, class, detail, c)
	} else {
		atomic.AddInt64(&env.failed, 1)
	}
}

func panicText(r any) string {
	s := fmt.Sprint(r)
	if e, ok := r.(interface{ String() (string, error) }); ok { // *logrus.Entry
		if t, err := e.String(); err == nil {
			s = t
		}
	}
	if i := strings.Index(s, "msg="); i >= 0 {
		s = s[i:]
	}
	if len(s) > 160 {
		s = s[:160]
	}
	return strings.TrimSpace(s)
}

var c19Letters = []byte("acgt")

func letterDigit(c byte) int {
	switch c {
	case 'a':
		return 0
	case 'c':
		return 1
	case 'g':
		return 2
	case 't', 'u':
		return 3
	}
	return -1
}

// digits of a k-mer code (2 bits per base, most significant first)
func codeDigits(code uint64, k int) []int {
	d := make([]int, k)
	for i := k - 1; i >= 0; i-- {
		d[i] = int(code & 3)
		code >>= 2
	}
	return d
}

func digitsCode(d []int) uint64 {
	var c uint64
	for _, x := range d {
		c = c<<2 | uint64(x)
	}
	return c
}

func lettersDigits(s string) []int {
	d := make([]int, len(s))
	for i := range s {
		d[i] = letterDigit(s[i])
	}
	return d
}

func c19Chars(s string) []string {
	out := make([]string, len(s))
	for i := range s {
		out[i] = s[i : i+1]
	}
	return out
}

// the word as base-4 digits, most significant first, read from the raw limbs (hook H4)
func wordDigits(x any) []int {
	limbs := x.(interface{ VerifLimbs() []uint64 }).VerifLimbs() // least significant first
	n := len(limbs) * 32
	d := make([]int, n)
	for i := 0; i < n; i++ {
		d[n-1-i] = int(limbs[i/32] >> (2 * uint(i%32)) & 3)
	}
	return d
}

func padDigits(key []int, n int) []int {
	out := make([]int, n)
	copy(out[n-len(key):], key)
	return out
}

func sameDigits(a, b []int) bool {
	if len(a) != len(b) {
		return false
	}
	for i := range a {
		if a[i] != b[i] {
			return false
		}
	}
	return true
}

// base-4 digits of a word without its leading zeros
func wordText(d []int) string {
	s := strings.TrimLeft(digitsKey(d), "0")
	if s == "" {
		s = "0"
	}
	return s
}

func digitsKey(d []int) string {
	b := make([]byte, len(d))
	for i, x := range d {
		b[i] = byte('0' + x)
	}
	return string(b)
}

// --------------------------------------------------------------------------- observing the index

type idxObs struct {
	pan  string
	ksz  int
	keys [][]int // full word digits
	strs []string
}

func observeIndex[T obifp.FPUint[T]](k int, sparse bool, seq *obiseq.BioSequence, reuse bool) (o idxObs) {
	defer func() {
		if r := recover(); r != nil {
			o.pan = panicText(r)
		}
	}()
	km := obikmer.NewKmerMap[T](obiseq.BioSequenceSlice{}, uint(k), sparse, -1)
	o.ksz = int(km.KmerSize())
	var keys []T
	if reuse {
		// a buffer holding stale keys, as a caller looping over sequences would pass
		stale := make([]T, 5, 8)
		for i := range stale {
			stale[i] = obifp.From64[T](0xdeadbeefcafe0000 + uint64(i)).LeftShift(3)
		}
		keys = km.NormalizedKmerSlice(seq, &stale)
	} else {
		keys = km.NormalizedKmerSlice(seq, nil)
	}
	o.keys = make([][]int, 0, len(keys))
	o.strs = make([]string, 0, len(keys))
	for _, x := range keys {
		o.keys = append(o.keys, wordDigits(x))
		o.strs = append(o.strs, km.KmerAsString(x))
	}
	return o
}

func observeIndexBits(bits, k int, sparse bool, seq *obiseq.BioSequence, reuse bool) idxObs {
	switch bits {
	case 64:
		return observeIndex[obifp.Uint64](k, sparse, seq, reuse)
	case 128:
		return observeIndex[obifp.Uint128](k, sparse, seq, reuse)
	}
	return observeIndex[obifp.Uint256](k, sparse, seq, reuse)
}

type fourObs struct {
	pan string
	tab [][]int // non-zero entries [code, count], by code
}

func observeFour(seq *obiseq.BioSequence, reuse bool) (o fourObs) {
	defer func() {
		if r := recover(); r != nil {
			o.pan = panicText(r)
		}
	}()
	var t *obikmer.Table4mer
	if reuse {
		buf := make([]byte, 7, 16)
		var stale obikmer.Table4mer
		for i := range stale {
			stale[i] = 1 // stale non-zero content, written without naming the element type of the table
			for k := 0; k < i%7; k++ {
				stale[i]++
			}
		}
		t = obikmer.Count4Mer(seq, &buf, &stale)
	} else {
		t = obikmer.Count4Mer(seq, nil, nil)
	}
	o.tab = [][]int{}
	for c, n := range t {
		if n != 0 {
			o.tab = append(o.tab, []int{c, int(n)})
		}
	}
	return o
}

func bagOf(keys [][]int) map[string]int {
	m := map[string]int{}
	for _, k := range keys {
		m[digitsKey(k)]++
	}
	return m
}

func sameBag(a, b map[string]int) bool {
	if len(a) != len(b) {
		return false
	}
	for k, v := range a {
		if b[k] != v {
			return false
		}
	}
	return true
}

// --------------------------------------------------------------------------- observing the graph

type graphObs struct {
	pushPan string
	n       int
	cyc     bool
	cycPan  string
	path    []uint64
	pathPan string
	cons    string
	consErr bool
	consPan string
}

func c19BuildGraph(k int, seqs []string, counts []int, order []int) (g *obikmer.DeBruijnGraph, pan string) {
	defer func() {
		if r := recover(); r != nil {
			pan = panicText(r)
		}
	}()
	g = obikmer.MakeDeBruijnGraph(k)
	for _, i := range order {
		s := obiseq.NewBioSequence(fmt.Sprintf("s%d", i), []byte(seqs[i]), "")
		if counts[i] != 1 { // a sequence without count attribute counts for 1
			s.SetCount(counts[i])
		}
		g.Push(s)
	}
	return g, ""
}

func observeGraph(g *obikmer.DeBruijnGraph) (o graphObs) {
	o.n = g.Len()
	func() {
		defer func() {
			if r := recover(); r != nil {
				o.cycPan = panicText(r)
			}
		}()
		o.cyc = g.HasCycle()
	}()
	func() {
		defer func() {
			if r := recover(); r != nil {
				o.pathPan = panicText(r)
			}
		}()
		o.path = g.HaviestPath()
	}()
	func() {
		defer func() {
			if r := recover(); r != nil {
				o.consPan = panicText(r)
			}
		}()
		seq, err := g.LongestConsensus("consensus", 0)
		if err != nil || seq == nil {
			o.consErr = true
		} else {
			o.cons = string(seq.Sequence())
		}
	}()
	return o
}

func graphWeight(g *obikmer.DeBruijnGraph, code uint64) (w int, pan string) {
	defer func() {
		if r := recover(); r != nil {
			pan = panicText(r)
		}
	}()
	return g.Weight(code), ""
}

func sortedU64(x []uint64) []uint64 {
	y := append([]uint64{}, x...)
	sort.Slice(y, func(i, j int) bool { return y[i] < y[j] })
	return y
}

func sameU64(a, b []uint64) bool {
	if len(a) != len(b) {
		return false
	}
	for i := range a {
		if a[i] != b[i] {
			return false
		}
	}
	return true
}

// ------------------------------------------------------------------------------------- replay

type c19Case struct {
	Kind string `json:"kind"`
	// idx
	S       string   `json:"s"`
	R       string   `json:"r"`
	K       int      `json:"k"`
	Sp      int      `json:"sp"`
	Keys    []string `json:"keys"`
	Strs    []string `json:"strs"`
	RKeys   []string `json:"rkeys"`
	Um      int      `json:"um"`
	Four    [][]int  `json:"four"`
	FourDef int      `json:"fourdef"`
	// graph
	Seqs   []string `json:"S"`
	Counts []int    `json:"C"`
	Nodes  [][]int  `json:"nodes"`
	Edges  [][]int  `json:"edges"`
	Src    []int    `json:"src"`
	Cyc    int      `json:"cyc"`
	Best   int      `json:"best"`
	Single string   `json:"single"`
	Br     int      `json:"br"`
	Amb    int      `json:"amb"`
	Ties   int      `json:"ties"`
}

func replayC19(env *Env) {
	cases := loadCases[c19Case](env.cases)
	lim := &c19Limiter{seen: map[string]int{}}
	nw := 16
	var wg sync.WaitGroup
	var next int64 = -1
	for w := 0; w < nw; w++ {
		wg.Add(1)
		go func() {
			defer wg.Done()
			cnt := &c19Counters{classes: map[string]int{}}
			for {
				i := int(atomic.AddInt64(&next, 1))
				if i >= len(cases) {
					break
				}
				c := &cases[i]
				switch c.Kind {
				case "idx":
					replayIdx(env, lim, cnt, c)
				case "graph":
					replayGraph(env, lim, cnt, c)
				default:
					fmt.Fprintln(os.Stderr, "unknown case kind", c.Kind)
					os.Exit(2)
				}
				if i < 2 {
					env.sample(map[string]any{"replayed_case": c})
				}
			}
			cnt.merge(env)
		}()
	}
	wg.Wait()
}

func idxClass(c *c19Case) string {
	mode := "plain"
	if c.Sp == 1 {
		mode = "sparse"
	}
	l := "long"
	switch {
	case len(c.S) < c.K:
		l = "short"
	case len(c.S) == c.K:
		l = "eqk"
	}
	a := "acgt"
	for i := range c.S {
		if !strings.ContainsRune("acgt", rune(c.S[i])) {
			a = "iupac"
		}
	}
	return fmt.Sprintf("idx/%s/%s/%s", mode, l, a)
}

func compareKeys(got idxObs, wantKeys []string, wantStrs []string, wl int) (assert, detail string) {
	if len(got.keys) != len(wantKeys) {
		return "C19.index_count", fmt.Sprintf("%d keys returned, Kmer.tla defines %d", len(got.keys), len(wantKeys))
	}
	for j := range wantKeys {
		want := padDigits(lettersDigits(wantKeys[j]), wl)
		if !sameDigits(got.keys[j], want) {
			return "C19.canonical_key", fmt.Sprintf("key %d is the base-4 word %s (KmerAsString %q), Kmer.tla says %q = %s",
				j, wordText(got.keys[j]), got.strs[j], wantKeys[j], wordText(want))
		}
	}
	if wantStrs != nil {
		for j := range wantStrs {
			if got.strs[j] != wantStrs[j] {
				return "C19.key_string", fmt.Sprintf("KmerAsString of key %d is %q, Kmer.tla says %q", j, got.strs[j], wantStrs[j])
			}
		}
	}
	return "", ""
}

func replayIdx(env *Env, lim *c19Limiter, cnt *c19Counters, c *c19Case) {
	seq := obiseq.NewBioSequence("s", []byte(c.S), "")
	rseq := obiseq.NewBioSequence("r", []byte(c.R), "")
	sparse := c.Sp == 1
	base := idxClass(c)
	for _, bits := range []int{64, 128, 256} {
		if c.K > bits/2 {
			continue
		}
		for _, reuse := range []bool{false, true} {
			class := fmt.Sprintf("%s/bits=%d", base, bits)
			if reuse {
				class += "/reused-buffer"
			}
			cnt.ok(class)
			if c.Um == 1 {
				cnt.flag("idx/model_says_missing_mask_matters")
			}
			fw := observeIndexBits(bits, c.K, sparse, seq, reuse)
			rv := observeIndexBits(bits, c.K, sparse, rseq, reuse)
			where := fmt.Sprintf("NewKmerMap[Uint%d](k=%d, sparse=%v).NormalizedKmerSlice(%q)", bits, c.K, sparse, c.S)
			if fw.pan != "" || rv.pan != "" {
				lim.fail(env, "C19.index_panic", class, where+" panicked: "+fw.pan+rv.pan, c)
				continue
			}
			if fw.ksz != c.K {
				fmt.Fprintf(os.Stderr, "case k=%d sparse=%v: the index adjusted k to %d (the model must respect the parity rule)\n", c.K, sparse, fw.ksz)
				os.Exit(2)
			}
			if !sameBag(bagOf(fw.keys), bagOf(rv.keys)) {
				lim.fail(env, "C19.strand_invariance", class,
					fmt.Sprintf("%s yields %v, its reverse complement %q yields %v: not the same multiset", where, fw.strs, c.R, rv.strs), c)
			}
			if a, d := compareKeys(fw, c.Keys, c.Strs, bits/2); a != "" {
				lim.fail(env, a, class, where+": "+d, c)
			}
			if a, d := compareKeys(rv, c.RKeys, nil, bits/2); a != "" {
				lim.fail(env, a, class+"/revcomp", fmt.Sprintf("on the reverse complement %q of %q (k=%d, Uint%d): %s", c.R, c.S, c.K, bits, d), c)
			}
		}
	}
	if c.FourDef == 1 {
		for _, reuse := range []bool{false, true} {
			class := "four/fresh"
			if reuse {
				class = "four/reused-buffers"
			}
			switch {
			case len(c.S) < 4:
				class += "/short"
			case len(c.S) == 4:
				class += "/eq4"
			}
			cnt.ok(class)
			o := observeFour(seq, reuse)
			if o.pan != "" {
				lim.fail(env, "C19.fourmer_panic", class, fmt.Sprintf("Count4Mer(%q) panicked: %s", c.S, o.pan), c)
				continue
			}
			want := append([][]int{}, c.Four...)
			sort.Slice(want, func(i, j int) bool { return want[i][0] < want[j][0] })
			same := len(want) == len(o.tab)
			for i := 0; same && i < len(want); i++ {
				same = want[i][0] == o.tab[i][0] && want[i][1] == o.tab[i][1]
			}
			if !same {
				lim.fail(env, "C19.fourmer_table", class,
					fmt.Sprintf("Count4Mer(%q) non-zero entries [code,count] %v, Kmer.tla says %v", c.S, o.tab, want), c)
			}
		}
	}
}

func graphClass(c *c19Case) string {
	shape := "acyclic"
	switch {
	case c.Cyc == 1:
		shape = "cyclic"
	case len(c.Nodes) == 0:
		shape = "empty"
	}
	cl := fmt.Sprintf("graph/%s/k=%d/n=%d", shape, c.K, len(c.Seqs))
	if c.Amb == 1 {
		cl += "/iupac"
	}
	return cl
}

func replayGraph(env *Env, lim *c19Limiter, cnt *c19Counters, c *c19Case) {
	k := c.K
	class := graphClass(c)
	weights := map[uint64]int{}
	for _, nw := range c.Nodes {
		weights[uint64(nw[0])] = nw[1]
	}
	edges := map[[2]uint64]bool{}
	succ := map[uint64][]uint64{}
	for _, e := range c.Edges {
		edges[[2]uint64{uint64(e[0]), uint64(e[1])}] = true
		succ[uint64(e[0])] = append(succ[uint64(e[0])], uint64(e[1]))
	}
	src := map[uint64]bool{}
	srcList := []uint64{}
	for _, s := range c.Src {
		src[uint64(s)] = true
		srcList = append(srcList, uint64(s))
	}
	eqk := false
	for _, s := range c.Seqs {
		if len(s) == k {
			eqk = true
		}
	}
	fwd := make([]int, len(c.Seqs))
	rev := make([]int, len(c.Seqs))
	for i := range fwd {
		fwd[i] = i
		rev[i] = len(fwd) - 1 - i
	}
	orders := [][]int{fwd}
	if len(c.Seqs) > 1 {
		orders = append(orders, rev)
	}
	// Go map iteration order makes Heads/HasCycle/HaviestPath visit the nodes in a different order at every
	// call: every scenario is executed `repeat` times (a graph is rebuilt each time)
	repeat := env.optInt("repeat", 2)
	for rep := 0; rep < repeat*len(orders); rep++ {
		oi := rep % len(orders)
		order := orders[oi]
		cl := class
		if oi == 1 {
			cl += "/pushed-in-reverse-order"
		}
		cnt.ok(cl)
		if eqk {
			cnt.flag("graph/has_sequence_of_length_k")
		}
		if c.Br == 1 && c.Cyc == 0 {
			cnt.flag("graph/acyclic_with_branch")
		}
		if c.Ties > 1 {
			cnt.flag("graph/tied_heaviest_walks")
		}
		input := fmt.Sprintf("k=%d sequences=%q counts=%v", k, c.Seqs, c.Counts)
		g, pan := c19BuildGraph(k, c.Seqs, c.Counts, order)
		if pan != "" {
			lim.fail(env, "C19.graph_push_panic", cl, input+": Push panicked: "+pan, c)
			continue
		}
		// ---- weights: every one of the 4^k k-mers is asked
		bad := ""
		total := uint64(1) << (2 * uint(k))
		for code := uint64(0); code < total && bad == ""; code++ {
			w, _ := graphWeight(g, code)
			if w != weights[code] {
				bad = fmt.Sprintf("Weight(%s)=%d, DeBruijn.tla says %d", string(lettersOf(codeDigits(code, k))), w, weights[code])
			}
		}
		if bad != "" {
			lim.fail(env, "C19.graph_weight", cl, input+": "+bad, c)
		}
		if g.Len() != len(c.Nodes) {
			lim.fail(env, "C19.graph_node_count", cl, fmt.Sprintf("%s: Len()=%d, DeBruijn.tla says %d nodes", input, g.Len(), len(c.Nodes)), c)
		}
		if bad != "" || g.Len() != len(c.Nodes) {
			continue // the graph itself is wrong: judging walks of another graph would only add noise
		}
		// ---- successor relation and sources
		func() {
			defer func() {
				if r := recover(); r != nil {
					lim.fail(env, "C19.graph_successors", cl, input+": Nexts/Heads panicked: "+panicText(r), c)
				}
			}()
			for code := range weights {
				got := sortedU64(g.Nexts(code))
				want := sortedU64(succ[code])
				if !sameU64(got, want) {
					lim.fail(env, "C19.graph_successors", cl, fmt.Sprintf("%s: Nexts(%s)=%v, DeBruijn.tla says %v", input, string(lettersOf(codeDigits(code, k))), got, want), c)
					return
				}
			}
			if !sameU64(sortedU64(g.Heads()), sortedU64(srcList)) {
				lim.fail(env, "C19.graph_sources", cl, fmt.Sprintf("%s: Heads()=%v, DeBruijn.tla says %v", input, sortedU64(g.Heads()), sortedU64(srcList)), c)
			}
		}()
		o := observeGraph(g)
		if o.cycPan != "" {
			lim.fail(env, "C19.graph_has_cycle", cl, input+": HasCycle panicked: "+o.cycPan, c)
		} else if o.cyc != (c.Cyc == 1) {
			lim.fail(env, "C19.graph_has_cycle", cl, fmt.Sprintf("%s: HasCycle()=%v, DeBruijn.tla says %v", input, o.cyc, c.Cyc == 1), c)
		}
		// ---- heaviest path: judged by validity and weight against the exported graph
		judge := func(path []uint64) (string, string) {
			if c.Cyc == 1 {
				if len(path) != 0 {
					return "path_iff_acyclic", "a path is returned although the graph has a cycle"
				}
				return "", ""
			}
			if len(c.Nodes) == 0 {
				if len(path) != 0 {
					return "walk_valid", "a path is returned on the empty graph"
				}
				return "", ""
			}
			if len(path) == 0 {
				return "path_iff_acyclic", "no path is returned although the graph has no cycle"
			}
			sum := 0
			for i, n := range path {
				w, ok := weights[n]
				if !ok {
					return "walk_valid", fmt.Sprintf("node %d of the path is not a node of the graph", i)
				}
				if i == 0 && !src[n] {
					return "walk_valid", "the path does not start at a source node"
				}
				if i > 0 && !edges[[2]uint64{path[i-1], n}] {
					return "walk_valid", fmt.Sprintf("nodes %d -> %d of the path are not joined by an edge", i-1, i)
				}
				sum += w
			}
			if sum != c.Best {
				return "heaviest_weight", fmt.Sprintf("the path weighs %d, the heaviest walk from a source weighs %d", sum, c.Best)
			}
			return "", ""
		}
		pathStr := func(path []uint64) string {
			p := []string{}
			for _, n := range path {
				p = append(p, string(lettersOf(codeDigits(n, k))))
			}
			return strings.Join(p, ">")
		}
		if o.pathPan != "" {
			lim.fail(env, "C19.graph_heaviest_panic", cl, input+": HaviestPath panicked: "+o.pathPan, c)
		} else if a, d := judge(o.path); a != "" {
			lim.fail(env, "C19.graph_"+a, cl, fmt.Sprintf("%s: HaviestPath()=%s: %s", input, pathStr(o.path), d), c)
		}
		// ---- consensus: the walk spelled by the returned sequence is judged the same way
		if o.consPan != "" {
			lim.fail(env, "C19.graph_consensus_panic", cl, input+": LongestConsensus panicked: "+o.consPan, c)
			continue
		}
		if c.Cyc == 1 || len(c.Nodes) == 0 {
			if !o.consErr {
				lim.fail(env, "C19.graph_consensus_iff_acyclic", cl, fmt.Sprintf("%s: LongestConsensus returned %q on a graph without heaviest path", input, o.cons), c)
			}
			continue
		}
		if o.consErr || len(o.cons) < k {
			lim.fail(env, "C19.graph_consensus_iff_acyclic", cl, fmt.Sprintf("%s: LongestConsensus returned no sequence (%q) although the graph has no cycle", input, o.cons), c)
			continue
		}
		walk := []uint64{}
		okLetters := true
		for p := 0; p+k <= len(o.cons); p++ {
			d := lettersDigits(o.cons[p : p+k])
			for _, x := range d {
				if x < 0 {
					okLetters = false
				}
			}
			if okLetters {
				walk = append(walk, digitsCode(d))
			}
		}
		if !okLetters {
			lim.fail(env, "C19.graph_consensus_walk_valid", cl, fmt.Sprintf("%s: consensus %q holds symbols outside acgt", input, o.cons), c)
			continue
		}
		if a, d := judge(walk); a != "" {
			lim.fail(env, "C19.graph_consensus_"+a, cl, fmt.Sprintf("%s: LongestConsensus()=%q: %s", input, o.cons, d), c)
		}
		if c.Single != "" {
			cnt.flag("graph/single_sequence_without_repeated_kmer")
			if o.cons != c.Single {
				lim.fail(env, "C19.graph_single_unchanged", cl, fmt.Sprintf("%s: consensus %q, the sequence itself (%q) is expected", input, o.cons, c.Single), c)
			}
		}
	}
}

func lettersOf(d []int) []byte {
	b := make([]byte, len(d))
	for i, x := range d {
		b[i] = c19Letters[x]
	}
	return b
}

// ------------------------------------------------------------------------------------- record

var c19Comp = map[byte]byte{'a': 't', 'c': 'g', 'g': 'c', 't': 'a', 'u': 'a', 'r': 'y', 'y': 'r', 's': 's', 'w': 'w',
	'k': 'm', 'm': 'k', 'b': 'v', 'd': 'h', 'h': 'd', 'v': 'b', 'n': 'n'}

var c19Codes = map[byte][]int{'a': {0}, 'c': {1}, 'g': {2}, 't': {3}, 'u': {3}, 'r': {0, 2}, 'y': {1, 3}, 's': {1, 2},
	'w': {0, 3}, 'k': {2, 3}, 'm': {0, 1}, 'b': {1, 2, 3}, 'd': {0, 2, 3}, 'h': {0, 1, 3}, 'v': {0, 1, 2}, 'n': {0, 1, 2, 3}}

const c19Ambig = "ryswkmbdhvn"

func revcompInput(s string) string {
	b := make([]byte, len(s))
	for i := range s {
		b[len(s)-1-i] = c19Comp[s[i]]
	}
	return string(b)
}

func randPlain(rng *rand.Rand, n int) []byte {
	b := make([]byte, n)
	for i := range b {
		b[i] = c19Letters[rng.Intn(4)]
	}
	return b
}

func sprinkle(rng *rand.Rand, b []byte, n int, alphabet string) {
	for i := 0; i < n && len(b) > 0; i++ {
		b[rng.Intn(len(b))] = alphabet[rng.Intn(len(alphabet))]
	}
}

func mutate(rng *rand.Rand, t []byte, edits int) []byte {
	s := append([]byte{}, t...)
	for e := 0; e < edits && len(s) > 2; e++ {
		p := rng.Intn(len(s))
		switch rng.Intn(4) {
		case 0, 1:
			s[p] = c19Letters[rng.Intn(4)]
		case 2:
			s = append(s[:p], s[p+1:]...)
		default:
			s = append(s[:p], append([]byte{c19Letters[rng.Intn(4)]}, s[p:]...)...)
		}
	}
	return s
}

func recordC19(env *Env) {
	rng := env.rng
	maxlen := env.optInt("maxlen", 300)
	if one := env.opt("replay", ""); one != "" { // re-observe the inputs of recorded events (bin/check --replay)
		for _, ev := range loadCases[map[string]any](one) {
			for rep := 0; rep < env.n; rep++ { // map iteration order changes from call to call
				reobserve(env, ev)
			}
		}
		return
	}
	nIdx := env.n
	nFour := env.n / 3
	nGraph := env.optInt("graphs", env.n/4)
	for i := 0; i < nIdx; i++ {
		recordIdx(env, rng, i, maxlen)
	}
	for i := 0; i < env.optInt("queries", env.n/4+4); i++ {
		recordQry(env, rng, i)
	}
	for i := 0; i < nFour; i++ {
		recordFour(env, rng, i, maxlen)
	}
	for i := 0; i < nGraph; i++ {
		recordGraph(env, rng, i, maxlen)
	}
	for i := 0; i < env.optInt("consensus", nGraph/4); i++ {
		recordCons(env, rng, i, maxlen)
	}
}

// obiconsensus.BuildConsensus: the graph is rebuilt with a larger k until it has no cycle, then
// LongestConsensus(min_cov = 0) is returned, annotated with the k that was used.
func emitCons(env *Env, sc string, k0 int, seqs []string, counts []int) {
	S := [][]string{}
	bs := obiseq.BioSequenceSlice{}
	for i, s := range seqs {
		S = append(S, c19Chars(s))
		if sc == "crowd" { // counts[i] read objects of count 1 instead of one object of count counts[i]
			for n := 0; n < counts[i]; n++ {
				bs = append(bs, obiseq.NewBioSequence(fmt.Sprintf("s%d_%d", i, n), []byte(s), ""))
			}
			continue
		}
		b := obiseq.NewBioSequence(fmt.Sprintf("s%d", i), []byte(s), "")
		if counts[i] != 1 {
			b.SetCount(counts[i])
		}
		bs = append(bs, b)
	}
	ev := map[string]any{"kind": "cons", "sc": sc, "k0": k0, "kused": -1, "kmax": -1, "S": S, "C": counts, "cons": []int{}, "err": 0, "pan": 0, "panmsg": ""}
	func() {
		defer func() {
			if r := recover(); r != nil {
				ev["pan"] = 1
				ev["panmsg"] = panicText(r)
			}
		}()
		seq, err := obiconsensus.BuildConsensus(bs, "consensus", k0, 0, false, "")
		if err != nil || seq == nil {
			ev["err"] = 1
			return
		}
		if k, ok := seq.GetIntAttribute("obiconsensus_kmer_size"); ok {
			ev["kused"] = k
		}
		if m, ok := seq.GetIntAttribute("obiconsensus_kmer_max_occur"); ok {
			ev["kmax"] = m
		}
		ev["cons"] = lettersDigits(string(seq.Sequence()))
	}()
	env.emit(ev)
}

func recordCons(env *Env, rng *rand.Rand, i, maxlen int) {
	var seqs []string
	var counts []int
	k0 := 4 + rng.Intn(20)
	sc := "reads"
	t := randPlain(rng, 40+rng.Intn(maxlen))
	if i%3 == 1 { // a repeat forces the k-mer size up
		sc = "repeat"
		k0 = 3 + rng.Intn(6)
		p := rng.Intn(len(t) - 12)
		unit := append([]byte{}, t[p:p+6+rng.Intn(6)]...)
		q := rng.Intn(len(t))
		t = append(append(append([]byte{}, t[:q]...), unit...), t[q:]...)
	}
	seqs = append(seqs, string(t))
	counts = append(counts, 3+rng.Intn(20))
	for n := 1 + rng.Intn(5); n > 0; n-- {
		seqs = append(seqs, string(mutate(rng, t, 1+rng.Intn(2))))
		counts = append(counts, 1+rng.Intn(6))
	}
	if i%5 == 2 { // thousands of read objects sharing their k-mers (the weights are sums over all of them)
		sc = "crowd"
		for j := range counts {
			counts[j] = 2000 + rng.Intn(3000)
		}
	}
	emitCons(env, sc, k0, seqs, counts)
}

func strList(v any) []string {
	out := []string{}
	for _, x := range v.([]any) {
		out = append(out, x.(string))
	}
	return out
}

func reobserve(env *Env, ev map[string]any) {
	switch ev["kind"] {
	case "idx":
		emitIdx(env, ev["sc"].(string), int(ev["bits"].(float64)), int(ev["k"].(float64)), ev["sp"].(float64) == 1,
			strings.Join(strList(ev["s"]), ""), ev["reuse"].(float64) == 1)
	case "four":
		emitFour(env, ev["sc"].(string), strings.Join(strList(ev["s"]), ""), ev["reuse"].(float64) == 1)
	case "graph":
		seqs := []string{}
		for _, s := range ev["S"].([]any) {
			seqs = append(seqs, strings.Join(strList(s), ""))
		}
		counts := []int{}
		for _, c := range ev["C"].([]any) {
			counts = append(counts, int(c.(float64)))
		}
		emitGraph(env, rand.New(rand.NewSource(env.seed)), ev["sc"].(string), int(ev["k"].(float64)), seqs, counts)
	case "cons":
		seqs := []string{}
		for _, s := range ev["S"].([]any) {
			seqs = append(seqs, strings.Join(strList(s), ""))
		}
		counts := []int{}
		for _, c := range ev["C"].([]any) {
			counts = append(counts, int(c.(float64)))
		}
		emitCons(env, ev["sc"].(string), int(ev["k0"].(float64)), seqs, counts)
	}
}

func emitIdx(env *Env, sc string, bits, k int, sparse bool, s string, reuse bool) {
	r := revcompInput(s)
	fw := observeIndexBits(bits, k, sparse, obiseq.NewBioSequence("s", []byte(s), ""), reuse)
	rv := observeIndexBits(bits, k, sparse, obiseq.NewBioSequence("r", []byte(r), ""), reuse)
	pan := 0
	if fw.pan != "" || rv.pan != "" {
		pan = 1
	} else if fw.ksz != k {
		// a size whose parity does not fit the mode is adjusted by the index (even -> k+1 in sparse mode, odd -> k-1
		// otherwise): the event is judged for the size the index says it uses
		want := k
		if sparse && k%2 == 0 {
			want = k + 1
		} else if !sparse && k%2 == 1 {
			want = k - 1
		}
		if fw.ksz != want || rv.ksz != want {
			fmt.Fprintf(os.Stderr, "recordIdx: k=%d sparse=%v adjusted to %d\n", k, sparse, fw.ksz)
			os.Exit(2)
		}
		k = want
		sc += "/adjusted-size"
	}
	// compact event: the low k digits of every returned word, the number of non-zero digits found above
	// them (stray high bits), and KmerAsString (a c g t -> 0..3, '#' -> 4) of a few keys
	stray := 0
	low := func(words [][]int) [][]int {
		out := make([][]int, 0, len(words))
		for _, w := range words {
			for _, d := range w[:len(w)-k] {
				if d != 0 {
					stray++
				}
			}
			out = append(out, w[len(w)-k:])
		}
		return out
	}
	keys, rkeys := low(fw.keys), low(rv.keys)
	si := []int{}
	strs := [][]int{}
	for _, j := range []int{0, 1, len(fw.strs) / 2, len(fw.strs) - 1} {
		if j >= 0 && j < len(fw.strs) && (len(si) == 0 || si[len(si)-1] < j+1) {
			si = append(si, j+1)
			d := make([]int, len(fw.strs[j]))
			for x := range d {
				switch c := fw.strs[j][x]; {
				case c == '#':
					d[x] = 4
				case letterDigit(c) >= 0 && c != 'u':
					d[x] = letterDigit(c)
				default:
					d[x] = 9
				}
			}
			strs = append(strs, d)
		}
	}
	sp, ru := 0, 0
	if sparse {
		sp = 1
	}
	if reuse {
		ru = 1
	}
	env.emit(map[string]any{"kind": "idx", "sc": sc, "bits": bits, "k": k, "sp": sp, "reuse": ru, "s": c19Chars(s), "r": c19Chars(r),
		"keys": keys, "rkeys": rkeys, "stray": stray, "si": si, "strs": strs, "pan": pan, "panmsg": fw.pan + rv.pan})
}

// observeQuery: an index of references, then Query of a sequence and of its reverse complement (which references
// they hit), and the same two queries asked again by 8 goroutines at once on the shared index.
func observeQuery[T obifp.FPUint[T]](k int, sparse bool, refs []string, q, r string) (hit, rhit []int, conc int, pan string) {
	defer func() {
		if x := recover(); x != nil {
			pan = panicText(x)
		}
	}()
	rs := obiseq.BioSequenceSlice{}
	pos := map[*obiseq.BioSequence]int{}
	for i, t := range refs {
		b := obiseq.NewBioSequence("ref"+strconv.Itoa(i), []byte(t), "")
		rs = append(rs, b)
		pos[b] = i
	}
	km := obikmer.NewKmerMap[T](rs, uint(k), sparse, -1)
	ask := func(t string) []int {
		h := make([]int, len(refs))
		for b := range km.Query(obiseq.NewBioSequence("q", []byte(t), "")) {
			h[pos[b]] = 1
		}
		return h
	}
	hit, rhit = ask(q), ask(r)
	var mu sync.Mutex
	var wg sync.WaitGroup
	for g := 0; g < 8; g++ {
		wg.Add(1)
		go func(g int) {
			defer wg.Done()
			defer func() {
				if x := recover(); x != nil {
					mu.Lock()
					conc++
					mu.Unlock()
				}
			}()
			for n := 0; n < 40; n++ {
				t, want := q, hit
				if (g+n)%2 == 1 {
					t, want = r, rhit
				}
				if fmt.Sprint(ask(t)) != fmt.Sprint(want) {
					mu.Lock()
					conc++
					mu.Unlock()
				}
			}
		}(g)
	}
	wg.Wait()
	return
}

func recordQry(env *Env, rng *rand.Rand, i int) {
	bits := []int{64, 128}[i%2]
	sparse := rng.Intn(2) == 0
	k := 4 + 2*rng.Intn(8)
	if sparse {
		k++
	}
	nref := 3 + rng.Intn(6)
	refs := make([]string, nref)
	for j := range refs {
		refs[j] = string(randPlain(rng, 40+rng.Intn(80)))
	}
	// the query: a window of a reference (on either strand), a chimera of two references, or an unrelated sequence
	var q string
	sc := ""
	switch rng.Intn(4) {
	case 0:
		sc = "window"
		t := refs[rng.Intn(nref)]
		a := rng.Intn(len(t) - k)
		q = t[a : a+k+rng.Intn(len(t)-a-k+1)]
	case 1:
		sc = "window-rc"
		t := revcompInput(refs[rng.Intn(nref)])
		a := rng.Intn(len(t) - k)
		q = t[a : a+k+rng.Intn(len(t)-a-k+1)]
	case 2:
		sc = "chimera"
		q = refs[rng.Intn(nref)][:30] + revcompInput(refs[rng.Intn(nref)])[:30]
	default:
		sc = "unrelated"
		q = string(randPlain(rng, 30+rng.Intn(60)))
	}
	r := revcompInput(q)
	var hit, rhit []int
	var conc int
	var pan string
	if bits == 64 {
		hit, rhit, conc, pan = observeQuery[obifp.Uint64](k, sparse, refs, q, r)
	} else {
		hit, rhit, conc, pan = observeQuery[obifp.Uint128](k, sparse, refs, q, r)
	}
	if hit == nil {
		hit = []int{}
	}
	if rhit == nil {
		rhit = []int{}
	}
	sp, p := 0, 0
	if sparse {
		sp = 1
	}
	if pan != "" {
		p = 1
	}
	rr := make([][]string, nref)
	for j := range refs {
		rr[j] = c19Chars(refs[j])
	}
	env.emit(map[string]any{"kind": "qry", "sc": sc, "bits": bits, "k": k, "sp": sp, "refs": rr, "s": c19Chars(q), "r": c19Chars(r),
		"hit": hit, "rhit": rhit, "conc": conc, "pan": p, "panmsg": pan})
}

func recordIdx(env *Env, rng *rand.Rand, i, maxlen int) {
	bits := []int{64, 128, 256}[i%3]
	sparse := rng.Intn(2) == 0
	kmax := bits / 2
	if kmax > 64 {
		kmax = 64 // the property quantifies over k = 2..64
	}
	var k int
	switch rng.Intn(4) {
	case 0: // the full word
		k = kmax
	case 1:
		k = 2 + rng.Intn(6)
	default:
		k = 2 + rng.Intn(kmax-1)
	}
	misfit := rng.Intn(5) == 0 && k > 3 && k < kmax // now and then the size is left with the wrong parity
	if sparse && k%2 == 0 && !misfit {
		k--
		if k < 3 {
			k = 3
		}
	}
	if !sparse && k%2 == 1 && !misfit {
		k++
		if k > kmax {
			k -= 2
		}
	}
	var s []byte
	sc := ""
	switch rng.Intn(8) {
	case 0:
		sc = "short"
		s = randPlain(rng, rng.Intn(k))
	case 1:
		sc = "eqk"
		s = randPlain(rng, k)
	case 2:
		sc = "kplus"
		s = randPlain(rng, k+1+rng.Intn(3))
	case 3:
		sc = "iupac"
		s = randPlain(rng, k+rng.Intn(maxlen))
		sprinkle(rng, s, 1+rng.Intn(4), c19Ambig)
	case 4:
		sc = "rna"
		s = randPlain(rng, k+rng.Intn(maxlen))
		for j := range s {
			if s[j] == 't' {
				s[j] = 'u'
			}
		}
	case 5:
		sc = "lowcomplexity" // leading a's hide a missing mask, palindromes make both strands equal
		s = randPlain(rng, 50+rng.Intn(maxlen))
		for j := range s {
			if rng.Intn(3) > 0 {
				s[j] = "at"[rng.Intn(2)]
			}
		}
	default:
		sc = "long"
		s = randPlain(rng, 50+rng.Intn(maxlen))
	}
	emitIdx(env, sc, bits, k, sparse, string(s), rng.Intn(3) == 0)
}

func emitFour(env *Env, sc, s string, reuse bool) {
	o := observeFour(obiseq.NewBioSequence("s", []byte(s), ""), reuse)
	pan, ru := 0, 0
	if o.pan != "" {
		pan = 1
	}
	if reuse {
		ru = 1
	}
	tab := o.tab
	if tab == nil {
		tab = [][]int{}
	}
	env.emit(map[string]any{"kind": "four", "sc": sc, "reuse": ru, "s": c19Chars(s), "tab": tab, "pan": pan, "panmsg": o.pan})
}

func recordFour(env *Env, rng *rand.Rand, i, maxlen int) {
	var s []byte
	sc := "long"
	switch {
	case i < 7:
		sc = "tiny"
		s = randPlain(rng, i) // lengths 0..6: shorter than, equal to, just longer than 4
	case i == 7 || i == 8:
		// one 4-mer occurring more often than a small counter can hold (homopolymer / microsatellite of 260-340 bases)
		sc = "counter-width"
		unit := randPlain(rng, 1+(i-7))
		for len(s) < 262+rng.Intn(80) {
			s = append(s, unit...)
		}
		s = append(randPlain(rng, rng.Intn(6)), s...)
	case i%5 == 0:
		sc = "repeats"
		unit := randPlain(rng, 1+rng.Intn(5))
		for len(s) < 20+rng.Intn(maxlen) {
			s = append(s, unit...)
		}
	case i%5 == 1:
		sc = "rna"
		s = randPlain(rng, 4+rng.Intn(maxlen))
		for j := range s {
			if s[j] == 't' {
				s[j] = 'u'
			}
		}
	default:
		s = randPlain(rng, 4+rng.Intn(2*maxlen))
	}
	emitFour(env, sc, string(s), i%2 == 1)
}

// every k-mer occurring in a window of s (ambiguity codes expanded), as digit tuples
func windowKmers(s string, p, k int, out *[][]int) {
	cur := [][]int{{}}
	for i := p; i < p+k; i++ {
		codes := c19Codes[s[i]]
		next := make([][]int, 0, len(cur)*len(codes))
		for _, w := range cur {
			for _, d := range codes {
				next = append(next, append(append(make([]int, 0, k), w...), d))
			}
		}
		cur = next
	}
	*out = append(*out, cur...)
}

func emitGraph(env *Env, rng *rand.Rand, sc string, k int, seqs []string, counts []int) {
	order := make([]int, len(seqs))
	for i := range order {
		order[i] = i
	}
	g, pan := c19BuildGraph(k, seqs, counts, order)
	S := [][]string{}
	for _, s := range seqs {
		S = append(S, c19Chars(s))
	}
	ev := map[string]any{"kind": "graph", "sc": sc, "k": k, "S": S, "C": counts, "len": 0, "P": [][]int{}, "PW": []int{},
		"cyc": 0, "path": [][]int{}, "cons": []int{}, "pan": 0, "panmsg": pan}
	if pan != "" {
		ev["pan"] = 1
		env.emit(ev)
		return
	}
	o := observeGraph(g)
	// probes: every k-mer of every window of the input, the nodes of the returned path, their
	// neighbours in both directions, and a few random k-mers
	probes := [][]int{}
	for _, s := range seqs {
		for p := 0; p+k <= len(s); p++ {
			windowKmers(s, p, k, &probes)
		}
	}
	for _, n := range o.path {
		d := codeDigits(n, k)
		probes = append(probes, d)
		for x := 0; x < 4; x++ {
			probes = append(probes, append(append([]int{}, d[1:]...), x))
			probes = append(probes, append([]int{x}, d[:k-1]...))
		}
	}
	for j := 0; j < 8; j++ {
		d := make([]int, k)
		for x := range d {
			d[x] = rng.Intn(4)
		}
		probes = append(probes, d)
	}
	seen := map[string]bool{}
	P := [][]int{}
	PW := []int{}
	for _, d := range probes {
		key := digitsKey(d)
		if seen[key] {
			continue
		}
		seen[key] = true
		w, _ := graphWeight(g, digitsCode(d))
		P = append(P, d)
		PW = append(PW, w)
	}
	path := [][]int{}
	for _, n := range o.path {
		path = append(path, codeDigits(n, k))
	}
	cons := []int{}
	if !o.consErr && o.consPan == "" {
		cons = lettersDigits(o.cons)
	}
	ev["len"] = o.n
	ev["P"] = P
	ev["PW"] = PW
	if o.cyc {
		ev["cyc"] = 1
	}
	ev["path"] = path
	ev["cons"] = cons
	if o.pathPan != "" || o.consPan != "" || o.cycPan != "" {
		ev["pan"] = 1
		ev["panmsg"] = o.cycPan + o.pathPan + o.consPan
	}
	// the life of the graph goes on: the light k-mers are removed (as obiconsensus does when it is asked for a
	// minimal coverage) and the graph is asked again whether it has a cycle, and how many k-mers it holds
	ev["fmin"], ev["cyc2"], ev["len2"] = 0, 0, 0
	if o.cycPan == "" && len(PW) > 0 {
		maxw := 0
		for _, w := range PW {
			if w > maxw {
				maxw = w
			}
		}
		fmin := 2
		if maxw > 2 {
			fmin = 2 + rng.Intn(maxw-1)
		}
		func() {
			defer func() {
				if r := recover(); r != nil {
					ev["pan"], ev["panmsg"] = 1, "after FilterMinWeight: "+panicText(r)
				}
			}()
			g.FilterMinWeight(fmin)
			ev["fmin"] = fmin
			ev["len2"] = g.Len()
			if g.HasCycle() {
				ev["cyc2"] = 1
			}
		}()
	}
	env.emit(ev)
}

func recordGraph(env *Env, rng *rand.Rand, i, maxlen int) {
	var seqs []string
	var counts []int
	var k int
	sc := ""
	add := func(s []byte, c int) {
		seqs = append(seqs, string(s))
		counts = append(counts, c)
	}
	switch i % 8 {
	case 0: // one plain sequence, k large enough for its k-mers to be distinct: returned unchanged
		sc = "single"
		k = 8 + rng.Intn(24)
		add(randPlain(rng, k+rng.Intn(maxlen)), 1+rng.Intn(9))
	case 1: // sequences not longer than k
		sc = "short"
		k = 2 + rng.Intn(30)
		add(randPlain(rng, k), 1+rng.Intn(5))
		if rng.Intn(2) == 0 {
			add(randPlain(rng, rng.Intn(k)), 2)
		}
		if rng.Intn(3) == 0 {
			add(randPlain(rng, k), 3)
		}
	case 2: // small k: cycles and branches everywhere
		sc = "smallk"
		k = 2 + rng.Intn(4)
		for n := 1 + rng.Intn(3); n > 0; n-- {
			add(randPlain(rng, k+rng.Intn(12)), 1+rng.Intn(4))
		}
	case 3: // a repeat longer than k: cycle or shortcut at large k
		sc = "repeat"
		k = 4 + rng.Intn(20)
		t := randPlain(rng, 30+rng.Intn(maxlen/2))
		p := rng.Intn(len(t) - k - 1)
		end := p + k + rng.Intn(6)
		if end > len(t) {
			end = len(t)
		}
		unit := t[p:end]
		q := rng.Intn(len(t))
		t2 := append(append(append([]byte{}, t[:q]...), unit...), t[q:]...)
		add(t2, 1+rng.Intn(3))
		add(mutate(rng, t, 1), 2)
	case 4: // ambiguity codes in a read set
		sc = "iupac"
		k = 3 + rng.Intn(12)
		t := randPlain(rng, k+10+rng.Intn(60))
		for n := 1 + rng.Intn(3); n > 0; n-- {
			s := mutate(rng, t, rng.Intn(2))
			sprinkle(rng, s, 1+rng.Intn(2), c19Ambig)
			add(s, 1+rng.Intn(6))
		}
	default: // reads of one amplicon with a few substitutions / indels, as obiconsensus gets them
		sc = "reads"
		k = 5 + rng.Intn(27)
		t := randPlain(rng, k+20+rng.Intn(maxlen))
		add(t, 5+rng.Intn(40))
		for n := 2 + rng.Intn(6); n > 0; n-- {
			add(mutate(rng, t, 1+rng.Intn(3)), 1+rng.Intn(10))
		}
	}
	emitGraph(env, rng, sc, k, seqs, counts)
}

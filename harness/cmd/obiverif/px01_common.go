package main

// X01 (extension check): the annotation-relational commands obijoin, obidemerge, obisplit.
//
// Shared plumbing of the three drivers (px01_join.go, px01_demerge.go, px01_split.go):
// abstract records <-> obiseq.BioSequence, <-> FASTA / FASTQ / CSV text, running a command binary.
// Only decoding / encoding lives here: every expected value comes from TLC (replay) or is decided by
// TLC on the recorded event (record).

import (
	"bytes"
	"encoding/csv"
	"encoding/json"
	"fmt"
	"os"
	"os/exec"
	"sort"
	"strconv"
	"strings"
	"sync"
	"time"

	"git.metabarcoding.org/obitools/obitools4/obitools4/pkg/obiseq"
)

func init() {
	register("X01", &driver{replay: x01Replay, record: x01Record})
}

// attribute map key -> tagged value ("i:5", "s:abc", "b:true", "f:1.5", "m:{...}"); TLC prints the
// empty function as []
type x01Ann map[string]string

func (a *x01Ann) UnmarshalJSON(b []byte) error {
	*a = x01Ann{}
	if bytes.HasPrefix(bytes.TrimSpace(b), []byte("[")) {
		return nil
	}
	m := map[string]string{}
	if err := json.Unmarshal(b, &m); err != nil {
		return err
	}
	*a = m
	return nil
}

func (a x01Ann) MarshalJSON() ([]byte, error) {
	if a == nil {
		return []byte("{}"), nil
	}
	return json.Marshal(map[string]string(a))
}

// statistics slots merged_<key>: key -> (value -> weight)
type x01Stats map[string]map[string]int

func (a *x01Stats) UnmarshalJSON(b []byte) error {
	*a = x01Stats{}
	if bytes.HasPrefix(bytes.TrimSpace(b), []byte("[")) {
		return nil
	}
	raw := map[string]json.RawMessage{}
	if err := json.Unmarshal(b, &raw); err != nil {
		return err
	}
	for k, v := range raw {
		m := map[string]int{}
		if !bytes.HasPrefix(bytes.TrimSpace(v), []byte("[")) {
			if err := json.Unmarshal(v, &m); err != nil {
				return err
			}
		}
		(*a)[k] = m
	}
	return nil
}

func (a x01Stats) MarshalJSON() ([]byte, error) {
	if a == nil {
		return []byte("{}"), nil
	}
	return json.Marshal(map[string]map[string]int(a))
}

// x01Rec is the abstract record of RelJoin / RelDemerge: qual "" = no quality scores; count 0 = no
// count attribute; stats = the merged_<key> slots (kept apart from the scalar annotations).
type x01Rec struct {
	Id    string   `json:"id"`
	Seq   string   `json:"seq"`
	Qual  string   `json:"qual"`
	Count int      `json:"count"`
	Ann   x01Ann   `json:"ann"`
	Stats x01Stats `json:"stats"`
}

func x01Untag(v string) any {
	if len(v) < 2 || v[1] != ':' {
		return v
	}
	switch v[0] {
	case 'i':
		n, _ := strconv.Atoi(v[2:])
		return n
	case 'b':
		return v[2:] == "true"
	case 'f':
		f, _ := strconv.ParseFloat(v[2:], 64)
		return f
	case 'm':
		var m map[string]any
		json.Unmarshal([]byte(v[2:]), &m)
		return m
	}
	return v[2:]
}

func x01Tag(v any) string {
	switch t := v.(type) {
	case int:
		return "i:" + strconv.Itoa(t)
	case int64:
		return "i:" + strconv.FormatInt(t, 10)
	case string:
		return "s:" + t
	case bool:
		return "b:" + strconv.FormatBool(t)
	case float64:
		if t == float64(int64(t)) {
			return "i:" + strconv.FormatInt(int64(t), 10)
		}
		return "f:" + strconv.FormatFloat(t, 'g', -1, 64)
	case json.Number:
		if n, err := t.Int64(); err == nil {
			return "i:" + strconv.FormatInt(n, 10)
		}
		return "f:" + t.String()
	}
	b, err := json.Marshal(v) // maps: keys sorted by encoding/json
	if err != nil {
		return "?:" + fmt.Sprint(v)
	}
	return "m:" + string(b)
}

func x01StatOf(v any) (map[string]int, bool) {
	out := map[string]int{}
	switch t := v.(type) {
	case obiseq.StatsOnValues:
		for k, n := range t {
			out[k] = n
		}
	case map[string]int:
		for k, n := range t {
			out[k] = n
		}
	case map[string]any:
		for k, n := range t {
			switch x := n.(type) {
			case int:
				out[k] = x
			case float64:
				out[k] = int(x)
			case json.Number:
				i, _ := x.Int64()
				out[k] = int(i)
			default:
				return nil, false
			}
		}
	default:
		return nil, false
	}
	return out, true
}

// x01MkSeq builds the real object of an abstract record (no file parser involved).
func x01MkSeq(r x01Rec) *obiseq.BioSequence {
	s := obiseq.NewBioSequence(r.Id, []byte(r.Seq), "")
	if r.Qual != "" {
		q := make([]byte, len(r.Qual))
		for i := range q {
			q[i] = r.Qual[i] - 33
		}
		s.SetQualities(q)
	}
	for k, v := range r.Ann {
		s.SetAttribute(k, x01Untag(v))
	}
	if r.Count > 0 {
		s.SetCount(r.Count)
	}
	for k, m := range r.Stats {
		st := obiseq.StatsOnValues{}
		for v, n := range m {
			st[v] = n
		}
		s.SetAttribute("merged_"+k, st)
	}
	return s
}

// x01Snapshot reads an object back as an abstract record.  withStats: merged_* maps and count go to
// their own fields (demerge); otherwise every annotation is a tagged scalar (join, split).
func x01Snapshot(s *obiseq.BioSequence, withStats bool) x01Rec {
	r := x01Rec{Id: s.Id(), Seq: s.String(), Ann: x01Ann{}, Stats: x01Stats{}}
	if s.HasQualities() {
		q := s.Qualities()
		b := make([]byte, len(q))
		for i := range q {
			b[i] = q[i] + 33
		}
		r.Qual = string(b)
	}
	if s.HasAnnotation() {
		for k, v := range s.Annotations() {
			x01PutAttr(&r, k, v, withStats)
		}
	}
	return r
}

func x01PutAttr(r *x01Rec, k string, v any, withStats bool) {
	if withStats {
		if k == "count" {
			switch n := v.(type) {
			case int:
				r.Count = n
				return
			case float64:
				r.Count = int(n)
				return
			case json.Number:
				i, _ := n.Int64()
				r.Count = int(i)
				return
			}
		}
		if strings.HasPrefix(k, "merged_") {
			if m, ok := x01StatOf(v); ok {
				r.Stats[k[len("merged_"):]] = m
				return
			}
		}
	}
	r.Ann[k] = x01Tag(v)
}

// ------------------------------------------------------------------------------- text formats

func x01HeaderJSON(r x01Rec) string {
	m := map[string]any{}
	for k, v := range r.Ann {
		m[k] = x01Untag(v)
	}
	if r.Count > 0 {
		m["count"] = r.Count
	}
	for k, st := range r.Stats {
		m["merged_"+k] = st
	}
	if len(m) == 0 {
		return ""
	}
	b, _ := json.Marshal(m)
	return " " + string(b)
}

// x01WriteSeqFile renders records as FASTQ when every record has quality scores, else as FASTA
// (the qualities of the others are then lost: callers check x01Uniform first).
func x01WriteSeqFile(path string, recs []x01Rec) (string, error) {
	fastq := len(recs) > 0
	for _, r := range recs {
		if r.Qual == "" {
			fastq = false
		}
	}
	var b bytes.Buffer
	for _, r := range recs {
		if fastq {
			fmt.Fprintf(&b, "@%s%s\n%s\n+\n%s\n", r.Id, x01HeaderJSON(r), r.Seq, r.Qual)
		} else {
			fmt.Fprintf(&b, ">%s%s\n%s\n", r.Id, x01HeaderJSON(r), r.Seq)
		}
	}
	if fastq {
		path += ".fastq"
	} else {
		path += ".fasta"
	}
	return path, os.WriteFile(path, b.Bytes(), 0o644)
}

// all records with, or all without, quality scores
func x01Uniform(recs []x01Rec) bool {
	n := 0
	for _, r := range recs {
		if r.Qual != "" {
			n++
		}
	}
	return n == 0 || n == len(recs)
}

// x01WriteCSV renders sequence-less records (id + annotations) as a CSV table; cells are JSON values
// (what the CSV reader of obitools decodes).  Every record must carry the same attribute names.
func x01WriteCSV(path string, recs []x01Rec) (string, error) {
	keys := []string{}
	for k := range recs[0].Ann {
		keys = append(keys, k)
	}
	sort.Strings(keys)
	var b bytes.Buffer
	w := csv.NewWriter(&b)
	w.Write(append([]string{"id"}, keys...))
	for _, r := range recs {
		row := []string{r.Id}
		for _, k := range keys {
			j, _ := json.Marshal(x01Untag(r.Ann[k]))
			row = append(row, string(j))
		}
		w.Write(row)
	}
	w.Flush()
	path += ".csv"
	return path, os.WriteFile(path, b.Bytes(), 0o644)
}

func x01SameKeys(recs []x01Rec) bool {
	for _, r := range recs[1:] {
		if len(r.Ann) != len(recs[0].Ann) {
			return false
		}
		for k := range r.Ann {
			if _, ok := recs[0].Ann[k]; !ok {
				return false
			}
		}
	}
	return true
}

// x01ParseSeqText decodes the FASTA / FASTQ text written by a command (JSON title lines).
func x01ParseSeqText(data []byte, withStats bool) ([]x01Rec, error) {
	out := []x01Rec{}
	lines := strings.Split(string(data), "\n")
	if len(lines) > 0 && lines[len(lines)-1] == "" {
		lines = lines[:len(lines)-1]
	}
	header := func(h string) (x01Rec, error) {
		r := x01Rec{Ann: x01Ann{}, Stats: x01Stats{}}
		id, rest, _ := strings.Cut(h, " ")
		r.Id = id
		rest = strings.TrimSpace(rest)
		if rest == "" {
			return r, nil
		}
		if !strings.HasPrefix(rest, "{") {
			return r, fmt.Errorf("title line without JSON annotations: %q", h)
		}
		dec := json.NewDecoder(strings.NewReader(rest))
		dec.UseNumber()
		m := map[string]any{}
		if err := dec.Decode(&m); err != nil {
			return r, fmt.Errorf("title line %q: %v", h, err)
		}
		for k, v := range m {
			x01PutAttr(&r, k, v, withStats)
		}
		return r, nil
	}
	i := 0
	for i < len(lines) {
		l := lines[i]
		switch {
		case strings.HasPrefix(l, ">"):
			r, err := header(l[1:])
			if err != nil {
				return out, err
			}
			i++
			for i < len(lines) && !strings.HasPrefix(lines[i], ">") {
				r.Seq += strings.TrimSpace(lines[i])
				i++
			}
			out = append(out, r)
		case strings.HasPrefix(l, "@"):
			if i+3 >= len(lines) || !strings.HasPrefix(lines[i+2], "+") {
				return out, fmt.Errorf("broken FASTQ record at line %d", i+1)
			}
			r, err := header(l[1:])
			if err != nil {
				return out, err
			}
			r.Seq = lines[i+1]
			r.Qual = lines[i+3]
			if r.Qual == "" {
				r.Qual = "<empty quality line>"
			}
			out = append(out, r)
			i += 4
		default:
			return out, fmt.Errorf("unexpected line %d: %q", i+1, l)
		}
	}
	return out, nil
}

// ------------------------------------------------------------------------------- processes

type x01Proc struct {
	Out    []byte
	Rc     int
	Hung   bool
	Stderr string
}

// x01Run runs a command binary; a crash of the go-json decoder at process start (known first-use race,
// C06) is retried once.
func x01Run(bin string, args []string, dir string) x01Proc {
	var r x01Proc
	for try := 0; try < 2; try++ {
		r = x01RunOnce(bin, args, dir)
		if r.Rc == 0 || r.Hung || !strings.Contains(r.Stderr, "mapDecoder") {
			break
		}
	}
	return r
}

func x01RunOnce(bin string, args []string, dir string) x01Proc {
	cmd := exec.Command(bin, args...)
	cmd.Dir = dir
	cmd.Env = append(os.Environ(), "TMPDIR="+dir)
	var so, se bytes.Buffer
	cmd.Stdout = &so
	cmd.Stderr = &se
	if err := cmd.Start(); err != nil {
		return x01Proc{Rc: -2, Stderr: err.Error()}
	}
	done := make(chan error, 1)
	go func() { done <- cmd.Wait() }()
	r := x01Proc{}
	select {
	case err := <-done:
		if err != nil {
			r.Rc = -1
			if ee, ok := err.(*exec.ExitError); ok {
				r.Rc = ee.ExitCode()
			}
		}
	case <-time.After(120 * time.Second):
		cmd.Process.Kill()
		r.Hung = true
		r.Rc = -3
	}
	r.Out = so.Bytes()
	keep := []string{}
	for _, l := range strings.Split(se.String(), "\n") {
		if l == "" || strings.Contains(l, "level=info") {
			continue
		}
		keep = append(keep, l)
	}
	tail := strings.Join(keep, "\n")
	if i := strings.Index(tail, "panic:"); i >= 0 {
		tail = tail[i:]
	}
	if len(tail) > 500 {
		tail = tail[:500]
	}
	r.Stderr = tail
	return r
}

// canonical text of a record (comparison of bags)
func x01Canon(r x01Rec, withQual bool) string {
	keys := make([]string, 0, len(r.Ann))
	for k := range r.Ann {
		keys = append(keys, k)
	}
	sort.Strings(keys)
	var b strings.Builder
	b.WriteString(r.Id + "|" + r.Seq + "|")
	if withQual {
		b.WriteString(r.Qual)
	}
	b.WriteString("|" + strconv.Itoa(r.Count) + "|")
	for _, k := range keys {
		b.WriteString(k + "=" + r.Ann[k] + ";")
	}
	sk := make([]string, 0, len(r.Stats))
	for k := range r.Stats {
		sk = append(sk, k)
	}
	sort.Strings(sk)
	for _, k := range sk {
		j, _ := json.Marshal(r.Stats[k])
		b.WriteString("merged_" + k + "=" + string(j) + ";")
	}
	return b.String()
}

func x01Bag(recs []x01Rec, withQual bool) map[string]int {
	m := map[string]int{}
	for _, r := range recs {
		m[x01Canon(r, withQual)]++
	}
	return m
}

func x01BagEq(a, b map[string]int) bool {
	if len(a) != len(b) {
		return false
	}
	for k, n := range a {
		if b[k] != n {
			return false
		}
	}
	return true
}

func x01Brief(recs []x01Rec) string {
	s := []string{}
	for _, r := range recs {
		s = append(s, x01Canon(r, true))
	}
	out := strings.Join(s, " ## ")
	if len(out) > 700 {
		out = out[:700] + "..."
	}
	return out
}

// x01Case is the union of the fields of the cases exported by RelJoinMC / RelDemergeMC / SplitCutMC.
type x01Case struct {
	Sub string `json:"sub"`
	// join
	By     [][]string `json:"by"`
	Byname string     `json:"byname"`
	Flags  []int      `json:"flags"`
	Main   x01Rec     `json:"main"`
	Part   []x01Rec   `json:"part"`
	Npart  int        `json:"npart"`
	Expect []struct {
		Rec   x01Rec `json:"rec"`
		Qfree int    `json:"qfree"`
	} `json:"expect"`
	// demerge
	Key    string     `json:"key"`
	Recs   []x01Rec   `json:"recs"`
	Groups [][]x01Rec `json:"groups"`
	Shape  string     `json:"shape"`
	// split
	Read    string      `json:"read"`
	Pats    [][]string  `json:"pats"` // <<tag, pool>>
	E       int         `json:"e"`
	Allowed [][]x01Frag `json:"allowed"`
	Class   string      `json:"class"`
	Level   string      `json:"level"` // set by the driver: lib | cmd
}

// x01Fail reports a disagreement; the same (assertion, class) is written at most 25 times (the verdict is known,
// a known finding must not hide the other assertions behind the driver's failure limit).
var x01Fails struct {
	mu      sync.Mutex
	perKey  map[string]int
	written int
}

func x01Fail(env *Env, assert, class, detail string, c any) {
	x01Fails.mu.Lock()
	if x01Fails.perKey == nil {
		x01Fails.perKey = map[string]int{}
	}
	x01Fails.perKey[assert+"|"+class]++
	n := x01Fails.perKey[assert+"|"+class]
	if n <= 25 {
		x01Fails.written++
	}
	x01Fails.mu.Unlock()
	if n <= 25 {
		env.fail(assert, class, detail, c)
	} else {
		env.ok("repeated-failure/" + assert)
	}
}

func x01TooMany() bool {
	x01Fails.mu.Lock()
	defer x01Fails.mu.Unlock()
	return x01Fails.written > 1500
}

func x01Replay(env *Env) {
	cases := loadCases[x01Case](env.cases)
	bindir := env.opt("bindir", "")
	scratch := os.Getenv("VERIF_SCRATCH")
	if scratch == "" {
		scratch = os.TempDir()
	}
	dir, err := os.MkdirTemp(scratch, "x01r-")
	if err != nil {
		fmt.Fprintln(os.Stderr, err)
		os.Exit(2)
	}
	if os.Getenv("X01_KEEP") == "" {
		defer os.RemoveAll(dir)
	}
	cmdEvery := env.optInt("cmdevery", 0) // 0: no command-level replay; k: one case in k (seeded), plus the mandatory ones
	parallel(len(cases), 0, func(i int) {
		if x01TooMany() {
			return
		}
		c := &cases[i]
		pick := cmdEvery > 0 && bindir != "" && (cmdEvery == 1 || (int64(i)*2654435761+env.seed*40503)%int64(cmdEvery) == 0)
		switch c.Sub {
		case "join":
			x01ReplayJoin(env, c, i, bindir, dir, pick)
		case "demerge":
			x01ReplayDemerge(env, c, i, bindir, dir, pick)
		case "split":
			x01ReplaySplit(env, c, i, bindir, dir, pick)
		default:
			x01Fail(env, "X01.harness.unknown_case", c.Sub, "unknown case kind", c)
		}
	})
	if len(x01SplitPending.cases) > 0 {
		x01ReplaySplitCmd(env, cases, bindir, dir)
	}
}

func x01Record(env *Env) {
	bindir := env.opt("bindir", "")
	scratch := os.Getenv("VERIF_SCRATCH")
	if scratch == "" {
		scratch = os.TempDir()
	}
	dir, err := os.MkdirTemp(scratch, "x01t-")
	if err != nil {
		fmt.Fprintln(os.Stderr, err)
		os.Exit(2)
	}
	defer os.RemoveAll(dir)
	switch env.opt("sub", "join") {
	case "join":
		x01RecordJoin(env, bindir, dir)
	case "demerge":
		x01RecordDemerge(env, bindir, dir)
	case "split":
		x01RecordSplit(env, bindir, dir)
	}
}

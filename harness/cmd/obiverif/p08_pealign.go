package main

// C08: paired-end assembly (obialign.PEAlign, obialign.BuildQualityConsensus,
// obipairing.AssemblePESequences, obikmer.Index4mer / FastShiftFourMer).
//
// record --opt dump=table: writes the implementation's own integer substitution scores (hook H2:
// obialign.VerifPairScore / VerifGapPenalty) for a list of (symbol, quality) classes and (gap, scale)
// configurations; spec/L0_kernel/PEAlignCheck.tla reads it as a constant.
//
// replay: cases exported by TLC from PEAlignCheck.tla.
//   kind "pair": two tiny reads with qualities; the case carries the optimum and the whole set of optimal
//     (mode, path) answers with consensus, qualities and statistics.  The real code is called in exact
//     mode on a fresh and on a reused arena and its answer must be a member of that set.
//   kind "fast": two error-free reads of one fragment; the case carries the diagonals the 4-mer vote may
//     elect with their counts and whether the true offset is the strict maximiser (then the fragment must
//     be rebuilt in fast mode).
// Nothing is recomputed here: the driver decodes, calls and tests equality / membership.
//
// record: seeded random read pairs far beyond TLC's enumeration (1-300 bases, every overlap geometry,
// qualities 0-93, IUPAC codes, sequencing errors, fast/exact, relative/absolute vote, delta, gap, scale,
// arena reused from pair to pair); every call, its answers and the implementation's own score table for
// the pair are logged for spec/trace/PEAlignTrace.tla.

import (
	"fmt"
	"math/rand"
	"os"
	"sort"
	"strconv"
	"strings"
	"sync"

	"git.metabarcoding.org/obitools/obitools4/obitools4/pkg/obialign"
	"git.metabarcoding.org/obitools/obitools4/obitools4/pkg/obikmer"
	"git.metabarcoding.org/obitools/obitools4/obitools4/pkg/obiseq"
	"git.metabarcoding.org/obitools/obitools4/obitools4/pkg/obitools/obipairing"
)

func init() {
	register("C08", &driver{replay: replayC08, record: recordC08})
}

// ------------------------------------------------------------------------------ helpers

func c08chars(s []byte) []string {
	out := make([]string, len(s))
	for i, c := range s {
		out[i] = string([]byte{c})
	}
	return out
}

func c08ints(q []byte) []int {
	out := make([]int, len(q))
	for i, c := range q {
		out[i] = int(c)
	}
	return out
}

func c08bytes(q []int) []byte {
	out := make([]byte, len(q))
	for i, c := range q {
		out[i] = byte(c)
	}
	return out
}

func c08b2i(b bool) int {
	if b {
		return 1
	}
	return 0
}

func c08seq(id string, s, q []byte) *obiseq.BioSequence {
	return obiseq.NewBioSequenceWithQualities(id, append([]byte(nil), s...), "", append([]byte(nil), q...))
}

func c08eqInts(a, b []int) bool {
	if len(a) != len(b) {
		return false
	}
	for i := range a {
		if a[i] != b[i] {
			return false
		}
	}
	return true
}

// TLC integers are 32-bit.  Legitimate scores stay far below 10^6 in absolute value (300 columns x a few
// hundred per column); anything beyond +-2*10^6 is logged as +-2*10^6: a path through such a cell can never be
// optimal and a sum that reaches such a value is not the score of any path.
const c08Big = 2000000

func c08clamp(v int) int {
	if v > c08Big {
		return c08Big
	}
	if v < -c08Big {
		return -c08Big
	}
	return v
}

type c08Limiter struct {
	mu   sync.Mutex
	seen map[string]int
}

func (f *c08Limiter) fail(env *Env, assert, class, detail string, c any) {
	f.mu.Lock()
	f.seen[assert+"|"+class]++
	n := f.seen[assert+"|"+class]
	f.mu.Unlock()
	if n <= 25 {
		env.fail(assert, class, detail, c)
	}
}

// --------------------------------------------------------------- calls of the real code

type c08Align struct {
	Panic string
	Left  bool
	Score int
	Path  []int
	Fc    int
	Over  int
	Fs    float64
}

// c08PEAlign calls the real aligner; a panic on a valid pair is an answer no specification admits.
func c08PEAlign(a, b *obiseq.BioSequence, gap, scale float64, fast bool, delta int, rel bool,
	arena obialign.PEAlignArena, shifts *map[int]int) (r c08Align) {
	defer func() {
		if e := recover(); e != nil {
			r.Panic = fmt.Sprint(e)
			r.Path = []int{}
		}
	}()
	left, score, path, fc, over, fs := obialign.PEAlign(a, b, gap, scale, fast, delta, rel, arena, shifts)
	r.Left, r.Score, r.Fc, r.Over, r.Fs = left, score, fc, over, fs
	r.Path = append([]int{}, path...) // the path lives in the arena: copy before the next call
	return r
}

type c08Cons struct {
	Panic string
	Seq   []byte
	Qual  []byte
	Match int
}

func c08Consensus(a, b *obiseq.BioSequence, path []int, arena obialign.PEAlignArena) (r c08Cons) {
	defer func() {
		if e := recover(); e != nil {
			r.Panic = fmt.Sprint(e)
			r.Seq, r.Qual = []byte{}, []byte{}
		}
	}()
	cons, match := obialign.BuildQualityConsensus(a, b, path, true, arena)
	r.Seq = append([]byte{}, cons.Sequence()...)
	r.Qual = append([]byte{}, cons.Qualities()...)
	r.Match = match
	return r
}

type c08Asm struct {
	Panic  string
	Seq    []byte
	Qual   []byte
	Mode   int // 1 alignment, 0 join, -1 absent
	Ali    int
	Sas    int
	Sbs    int
	Dir    int // 1 left, 0 right, -1 absent
	Score  int
	Match  int
	HasAll bool
}

func c08annotInt(annot map[string]interface{}, key string) (int, bool) {
	v, ok := annot[key]
	if !ok {
		return -1, false
	}
	switch x := v.(type) {
	case int:
		return x, true
	case float64:
		return int(x), true
	}
	return -1, false
}

func c08Assemble(a, b *obiseq.BioSequence, gap, scale float64, delta, minov int, minid float64, inplace, fast, rel bool,
	arena obialign.PEAlignArena, shifts *map[int]int) (r c08Asm) {
	defer func() {
		if e := recover(); e != nil {
			r.Panic = fmt.Sprint(e)
			r.Seq, r.Qual = []byte{}, []byte{}
		}
	}()
	out := obipairing.AssemblePESequences(a, b, gap, scale, delta, minov, minid, true, inplace, fast, rel, arena, shifts)
	r.Seq = append([]byte{}, out.Sequence()...)
	r.Qual = append([]byte{}, out.Qualities()...)
	annot := out.Annotations()
	r.Mode = -1
	if m, ok := annot["mode"].(string); ok {
		switch m {
		case "alignment":
			r.Mode = 1
		case "join":
			r.Mode = 0
		}
	}
	r.Dir = -1
	if d, ok := annot["ali_dir"].(string); ok {
		switch d {
		case "left":
			r.Dir = 1
		case "right":
			r.Dir = 0
		}
	}
	var ok1, ok2, ok3 bool
	r.Ali, ok1 = c08annotInt(annot, "ali_length")
	r.Score, ok2 = c08annotInt(annot, "score")
	r.Match, ok3 = c08annotInt(annot, "seq_ab_match")
	r.Sas, _ = c08annotInt(annot, "seq_a_single")
	r.Sbs, _ = c08annotInt(annot, "seq_b_single")
	r.HasAll = ok1 && ok2 && ok3 && r.Mode >= 0
	return r
}

// ------------------------------------------------------------------------- table dump (H2)

type c08Table struct {
	Syms    []string `json:"syms"`
	Quals   []int    `json:"quals"`
	Tab     [][]int  `json:"tab"`
	Gapp    int      `json:"gapp"`
	Gap10   int      `json:"gap10"`
	Scale10 int      `json:"scale10"`
}

type c08Grid struct {
	Kind    string  `json:"kind"` // match | mismatch
	X       string  `json:"x"`
	Y       string  `json:"y"`
	Scale10 int     `json:"scale10"`
	Grid    [][]int `json:"grid"` // grid[qa][qb], qualities 0..93
}

// dump=grid: the scores of every pair of qualities 0..93 for identical and for different plain bases
// (ScoreGridTrace.tla decides the shape of the tables)
func dumpGridC08(env *Env) {
	for _, cfg := range strings.Split(env.opt("cfgs", "20:10"), ",") {
		gs := strings.Split(cfg, ":")
		s10, _ := strconv.Atoi(gs[1])
		for _, pr := range []string{"aa", "cc", "gg", "tt", "ac", "ag", "at", "cg", "ct", "gt", "ca", "tg"} {
			g := c08Grid{Kind: "mismatch", X: pr[:1], Y: pr[1:], Scale10: s10}
			if pr[0] == pr[1] {
				g.Kind = "match"
			}
			for qa := 0; qa < 94; qa++ {
				row := make([]int, 94)
				for qb := 0; qb < 94; qb++ {
					row[qb] = obialign.VerifPairScore(pr[0], byte(qa), pr[1], byte(qb), float64(s10)/10)
				}
				g.Grid = append(g.Grid, row)
			}
			env.emit(g)
		}
	}
}

// classes "a40,c40,n20", configurations "20:10,5:10" (gap*10 : scale*10)
func dumpTableC08(env *Env) {
	var syms []string
	var quals []int
	for _, c := range strings.Split(env.opt("classes", "a40,c40"), ",") {
		q, err := strconv.Atoi(c[1:])
		if err != nil || len(c) < 2 {
			fmt.Fprintln(os.Stderr, "bad class", c)
			os.Exit(2)
		}
		syms = append(syms, c[:1])
		quals = append(quals, q)
	}
	for _, cfg := range strings.Split(env.opt("cfgs", "20:10"), ",") {
		gs := strings.Split(cfg, ":")
		g10, _ := strconv.Atoi(gs[0])
		s10, _ := strconv.Atoi(gs[1])
		gap, scale := float64(g10)/10, float64(s10)/10
		t := c08Table{Syms: syms, Quals: quals, Gap10: g10, Scale10: s10, Gapp: obialign.VerifGapPenalty(gap, scale)}
		for x := range syms {
			row := make([]int, len(syms))
			for y := range syms {
				row[y] = c08clamp(obialign.VerifPairScore(syms[x][0], byte(quals[x]), syms[y][0], byte(quals[y]), scale))
			}
			t.Tab = append(t.Tab, row)
		}
		env.emit(t)
	}
}

// ---------------------------------------------------------------------------------- replay

type c08Answer struct {
	Left  int    `json:"left"`
	Path  []int  `json:"path"`
	Seq   string `json:"seq"`
	Qual  []int  `json:"qual"` // -1: only the range is specified
	Match int    `json:"match"`
	Ali   int    `json:"ali"`
	Sas   int    `json:"sas"`
	Sbs   int    `json:"sbs"`
	Aln   []int  `json:"aln"` // per threshold configuration: 1 alignment, 0 join
}

type c08Case struct {
	Kind string `json:"kind"`
	A    string `json:"a"`
	B    string `json:"b"`
	// pair
	Qa      []int       `json:"qa"`
	Qb      []int       `json:"qb"`
	Gap10   int         `json:"gap10"`
	Scale10 int         `json:"scale10"`
	ScL     int         `json:"scL"`
	ScR     int         `json:"scR"`
	Opt     int         `json:"opt"`
	Many    int         `json:"many"`
	Thr     [][]int     `json:"thr"`
	Allowed []c08Answer `json:"allowed"`
	// fast
	Frag   string  `json:"frag"`
	Left   int     `json:"left"`
	Rel    int     `json:"rel"`
	Dstar  int     `json:"dstar"`
	Strict int     `json:"strict"`
	Best   [][]int `json:"best"`
}

type c08Worker struct {
	arena  obialign.PEAlignArena
	shifts map[int]int
}

func newC08Worker() *c08Worker {
	return &c08Worker{arena: obialign.MakePEAlignArena(150, 150), shifts: make(map[int]int)}
}

func replayC08(env *Env) {
	cases := loadCases[c08Case](env.cases)
	lim := &c08Limiter{seen: map[string]int{}}
	nw := 16
	var wg sync.WaitGroup
	for w := 0; w < nw; w++ {
		wg.Add(1)
		go func(w int) {
			defer wg.Done()
			wk := newC08Worker()
			for i := w; i < len(cases); i += nw {
				c := &cases[i]
				switch c.Kind {
				case "pair":
					replayPairC08(env, lim, wk, c, i)
				case "fast":
					replayFastC08(env, lim, wk, c, i)
				default:
					fmt.Fprintln(os.Stderr, "unknown case kind", c.Kind)
					os.Exit(2)
				}
			}
		}(w)
	}
	wg.Wait()
}

func c08describe(al []c08Answer) string {
	parts := []string{}
	for _, a := range al {
		parts = append(parts, fmt.Sprintf("(left=%d path=%v)", a.Left, a.Path))
	}
	return "{" + strings.Join(parts, " ") + "}"
}

func replayPairC08(env *Env, lim *c08Limiter, wk *c08Worker, c *c08Case, idx int) {
	gap, scale := float64(c.Gap10)/10, float64(c.Scale10)/10
	a, b := []byte(c.A), []byte(c.B)
	qa, qb := c08bytes(c.Qa), c08bytes(c.Qb)
	ties := "unique"
	if c.Many == 1 {
		ties = "manyties"
	} else if len(c.Allowed) > 1 {
		ties = "ties"
	}
	for _, arenaMode := range []string{"reused", "fresh"} {
		arena := wk.arena
		if arenaMode == "fresh" {
			arena = obialign.MakePEAlignArena(len(a), len(b))
		}
		class := "pair/" + ties + "/" + arenaMode
		r := c08PEAlign(c08seq("a", a, qa), c08seq("b", b, qb), gap, scale, false, 5, true, arena, &wk.shifts)
		env.ok(class + "/score")
		if r.Panic != "" {
			lim.fail(env, "C08.no_panic", class, fmt.Sprintf("PEAlign(exact) panicked on a=%s qa=%v b=%s qb=%v: %s", c.A, c.Qa, c.B, c.Qb, r.Panic), c)
			wk.arena = obialign.MakePEAlignArena(150, 150)
			continue
		}
		if r.Score != c.Opt {
			lim.fail(env, "C08.score.optimal", class,
				fmt.Sprintf("PEAlign(exact, gap=%.1f scale=%.1f) on a=%s qa=%v b=%s qb=%v reports score %d; PEAlign.tla: optimum %d (left %d, right %d)",
					gap, scale, c.A, c.Qa, c.B, c.Qb, r.Score, c.Opt, c.ScL, c.ScR), c)
		}
		if c.Many == 1 {
			continue
		}
		env.ok(class + "/path")
		var ans *c08Answer
		for k := range c.Allowed {
			if c.Allowed[k].Left == c08b2i(r.Left) && c08eqInts(c.Allowed[k].Path, r.Path) {
				ans = &c.Allowed[k]
			}
		}
		if ans == nil {
			lim.fail(env, "C08.path.optimal_set", class,
				fmt.Sprintf("PEAlign(exact, gap=%.1f scale=%.1f) on a=%s qa=%v b=%s qb=%v answers left=%v path=%v; PEAlign.tla allows %s",
					gap, scale, c.A, c.Qa, c.B, c.Qb, r.Left, r.Path, c08describe(c.Allowed)), c)
			continue
		}
		cons := c08Consensus(c08seq("a", a, qa), c08seq("b", b, qb), r.Path, arena)
		env.ok(class + "/consensus")
		if cons.Panic != "" {
			lim.fail(env, "C08.no_panic", class, "BuildQualityConsensus panicked: "+cons.Panic, c)
			continue
		}
		if string(cons.Seq) != ans.Seq {
			lim.fail(env, "C08.consensus.sequence", class,
				fmt.Sprintf("a=%s qa=%v b=%s qb=%v path=%v: consensus %q; PEAlign.tla: %q", c.A, c.Qa, c.B, c.Qb, r.Path, cons.Seq, ans.Seq), c)
		}
		qok := len(cons.Qual) == len(ans.Qual)
		for k := 0; qok && k < len(ans.Qual); k++ {
			if ans.Qual[k] >= 0 {
				qok = int(cons.Qual[k]) == ans.Qual[k]
			} else {
				qok = cons.Qual[k] <= 90
			}
		}
		if !qok {
			lim.fail(env, "C08.consensus.quality", class,
				fmt.Sprintf("a=%s qa=%v b=%s qb=%v path=%v: consensus qualities %v; PEAlign.tla: %v (-1: any of 0..90)", c.A, c.Qa, c.B, c.Qb, r.Path, cons.Qual, ans.Qual), c)
		}
		if cons.Match != ans.Match {
			lim.fail(env, "C08.stats.match", class, fmt.Sprintf("a=%s b=%s path=%v: %d matches reported, PEAlign.tla: %d", c.A, c.B, r.Path, cons.Match, ans.Match), c)
		}
		for t, thr := range c.Thr {
			minid := float64(thr[1]) / float64(thr[2])
			for _, inplace := range []bool{false, true} {
				asm := c08Assemble(c08seq("a", a, qa), c08seq("b", b, qb), gap, scale, 5, thr[0], minid, inplace, false, true, arena, &wk.shifts)
				mclass := class + "/join"
				if ans.Aln[t] == 1 {
					mclass = class + "/alignment"
				}
				env.ok(mclass)
				where := fmt.Sprintf("AssemblePESequences(exact, min-overlap=%d, min-identity=%d/%d, inplace=%v) on a=%s qa=%v b=%s qb=%v (path %v)",
					thr[0], thr[1], thr[2], inplace, c.A, c.Qa, c.B, c.Qb, r.Path)
				if asm.Panic != "" {
					lim.fail(env, "C08.no_panic", mclass, where+" panicked: "+asm.Panic, c)
					continue
				}
				if asm.Mode != ans.Aln[t] {
					lim.fail(env, "C08.stats.mode", mclass, fmt.Sprintf("%s: mode=%d (1 alignment, 0 join), PEAlign.tla: %d (ali_length %d, %d matches)", where, asm.Mode, ans.Aln[t], ans.Ali, ans.Match), c)
					continue
				}
				if asm.Ali != ans.Ali {
					lim.fail(env, "C08.stats.ali_length", mclass, fmt.Sprintf("%s: ali_length=%d, PEAlign.tla: %d", where, asm.Ali, ans.Ali), c)
				}
				if asm.Score != c.Opt {
					lim.fail(env, "C08.stats.score", mclass, fmt.Sprintf("%s: score annotation %d, optimum %d", where, asm.Score, c.Opt), c)
				}
				if asm.Match != ans.Match {
					lim.fail(env, "C08.stats.match", mclass, fmt.Sprintf("%s: seq_ab_match=%d, PEAlign.tla: %d", where, asm.Match, ans.Match), c)
				}
				if ans.Aln[t] == 1 {
					if asm.Sas != ans.Sas || asm.Sbs != ans.Sbs || asm.Dir != ans.Left {
						lim.fail(env, "C08.stats.single", mclass, fmt.Sprintf("%s: seq_a_single=%d seq_b_single=%d ali_dir=%d; PEAlign.tla: %d %d %d", where, asm.Sas, asm.Sbs, asm.Dir, ans.Sas, ans.Sbs, ans.Left), c)
					}
					if string(asm.Seq) != ans.Seq {
						lim.fail(env, "C08.assemble.sequence", mclass, fmt.Sprintf("%s: sequence %q, PEAlign.tla: %q", where, asm.Seq, ans.Seq), c)
					}
				} else {
					want := c.A + ".........." + c.B
					wq := append(append(append([]int{}, c.Qa...), make([]int, 10)...), c.Qb...)
					if string(asm.Seq) != want || !c08eqInts(c08ints(asm.Qual), wq) {
						lim.fail(env, "C08.join.sequence", mclass, fmt.Sprintf("%s: sequence %q qualities %v, expected the two reads joined by ten dots of quality 0", where, asm.Seq, asm.Qual), c)
					}
				}
			}
		}
		if idx%97 == 0 && arenaMode == "reused" {
			env.sample(map[string]any{"a": c.A, "qa": c.Qa, "b": c.B, "qb": c.Qb, "optimum": c.Opt, "allowed": len(c.Allowed), "answer_left": r.Left, "answer_path": r.Path})
		}
	}
}

func replayFastC08(env *Env, lim *c08Limiter, wk *c08Worker, c *c08Case, idx int) {
	a, b := []byte(c.A), []byte(c.B)
	q := byte(20 + (idx+int(env.seed))%40)
	qa, qb := make([]byte, len(a)), make([]byte, len(b))
	for i := range qa {
		qa[i] = q
	}
	for i := range qb {
		qb[i] = q
	}
	strict := "notstrict"
	if c.Strict == 1 {
		strict = "strict"
	}
	geo := "right"
	if c.Left == 1 {
		geo = "left"
	}
	class := fmt.Sprintf("fast/%s/%s/rel=%d", geo, strict, c.Rel)
	desc := fmt.Sprintf("a=%s b=%s (fragment %s, true offset %d, relative=%d)", c.A, c.B, c.Frag, c.Dstar, c.Rel)
	// ---- the vote itself
	func() {
		defer func() {
			if e := recover(); e != nil {
				lim.fail(env, "C08.no_panic", class, fmt.Sprintf("Index4mer/FastShiftFourMer panicked on %s: %v", desc, e), c)
				wk.arena = obialign.MakePEAlignArena(150, 150)
				wk.shifts = make(map[int]int)
			}
		}()
		env.ok(class + "/vote")
		sa, sb := c08seq("a", a, qa), c08seq("b", b, qb)
		index := obikmer.Index4mer(sa, nil, nil)
		shift, count, _ := obikmer.FastShiftFourMer(index, &wk.shifts, sa.Len(), sb, c.Rel == 1, nil)
		found := false
		for _, bc := range c.Best {
			if bc[0] == shift && bc[1] == count {
				found = true
			}
		}
		if !found {
			lim.fail(env, "C08.fast.vote", class, fmt.Sprintf("FastShiftFourMer on %s elects diagonal %d with count %d; PEAlign.tla allows [diagonal, count] in %v", desc, shift, count, c.Best), c)
		}
	}()
	// ---- fast assembly: the fragment must be rebuilt when the true offset is the strict maximiser
	for _, delta := range []int{0, 5} {
		env.ok(class + "/assemble")
		asm := c08Assemble(c08seq("a", a, qa), c08seq("b", b, qb), 2.0, 1.0, delta, 1, 0.0, false, true, c.Rel == 1, wk.arena, &wk.shifts)
		if asm.Panic != "" {
			lim.fail(env, "C08.no_panic", class, fmt.Sprintf("AssemblePESequences(fast, delta=%d) panicked on %s: %s", delta, desc, asm.Panic), c)
			wk.arena = obialign.MakePEAlignArena(150, 150)
			wk.shifts = make(map[int]int)
			continue
		}
		if c.Strict == 1 && (string(asm.Seq) != c.Frag || asm.Mode != 1) {
			lim.fail(env, "C08.perfect.fast_reconstruction", class,
				fmt.Sprintf("AssemblePESequences(fast, delta=%d) on %s returns %q (mode=%d); the true offset is the strict maximiser of the 4-mer vote: expected the fragment", delta, desc, asm.Seq, asm.Mode), c)
		}
	}
	if idx%197 == 0 {
		env.sample(map[string]any{"fragment": c.Frag, "a": c.A, "b": c.B, "true_offset": c.Dstar, "strict_maximiser": c.Strict, "vote_best": c.Best})
	}
}

// ---------------------------------------------------------------------------------- record

type c08Event struct {
	K  string   `json:"k"`
	Sc string   `json:"sc"` // scenario family (coverage class only)
	A  []string `json:"a"`
	Qa []int    `json:"qa"`
	B  []string `json:"b"`
	Qb []int    `json:"qb"`
	// the implementation's scores for this pair
	Csa  []string `json:"csa"`
	Cqa  []int    `json:"cqa"`
	Ca   []int    `json:"ca"`
	Csb  []string `json:"csb"`
	Cqb  []int    `json:"cqb"`
	Cb   []int    `json:"cb"`
	Tab  [][]int  `json:"tab"`
	Gapp int      `json:"gapp"`
	// arguments
	Fast    int    `json:"fast"`
	Rel     int    `json:"rel"`
	Delta   int    `json:"delta"`
	Gap10   int    `json:"gap10"`
	Scale10 int    `json:"scale10"`
	Minov   int    `json:"minov"`
	Idn     int    `json:"idn"`
	Idd     int    `json:"idd"`
	Inplace int    `json:"inplace"`
	Arena   string `json:"arena"`
	// answers
	Panic  int      `json:"panic"`
	PanicS string   `json:"panics"`
	Left   int      `json:"left"`
	Score  int      `json:"score"`
	Path   []int    `json:"path"`
	Fc     int      `json:"fc"`
	Over   int      `json:"over"`
	Fs1000 int      `json:"fs1000"` // fast score * 1000 (logged, not judged)
	Cs     []string `json:"cs"`
	Cq     []int    `json:"cq"`
	Match  int      `json:"match"`
	Os     []string `json:"os"`
	Oq     []int    `json:"oq"`
	Mode   int      `json:"mode"`
	Ali    int      `json:"ali"`
	Sas    int      `json:"sas"`
	Sbs    int      `json:"sbs"`
	Dir    int      `json:"dir"`
	Ascore int      `json:"ascore"`
	Amatch int      `json:"amatch"`
	// error-free reads of one fragment
	Perfect int      `json:"perfect"`
	Frag    []string `json:"frag"`
}

type c08Gen struct {
	rng    *rand.Rand
	maxLen int
}

const c08Ambig = "ryswkmbdhvn"

func (g *c08Gen) randSeq(n int) []byte {
	s := make([]byte, n)
	for i := range s {
		s[i] = "acgt"[g.rng.Intn(4)]
	}
	return s
}

// lowSeq: low-complexity fragment (short motif repeated with a few changes): many tied diagonals
func (g *c08Gen) lowSeq(n int) []byte {
	m := g.randSeq(1 + g.rng.Intn(4))
	s := make([]byte, n)
	for i := range s {
		s[i] = m[i%len(m)]
		if g.rng.Intn(25) == 0 {
			s[i] = "acgt"[g.rng.Intn(4)]
		}
	}
	return s
}

// errors: substitutions, IUPAC codes and indels at the given rates
func (g *c08Gen) errors(s []byte, pSub, pAmb, pIndel float64) []byte {
	out := make([]byte, 0, len(s)+4)
	for _, c := range s {
		r := g.rng.Float64()
		switch {
		case r < pIndel/2: // deletion
			continue
		case r < pIndel: // insertion
			out = append(out, "acgt"[g.rng.Intn(4)], c)
			continue
		}
		if g.rng.Float64() < pSub {
			c = "acgt"[g.rng.Intn(4)]
		}
		if g.rng.Float64() < pAmb {
			c = c08Ambig[g.rng.Intn(len(c08Ambig))]
		}
		out = append(out, c)
	}
	if len(out) == 0 {
		out = append(out, "acgt"[g.rng.Intn(4)])
	}
	if len(out) > 300 {
		out = out[:300]
	}
	return out
}

// quals: free qualities 0..93 per position on small pairs, a palette of at most six values (drawn from
// 0..93, new for every pair) on large ones so that the logged score table stays small
func (g *c08Gen) quals(n int, free bool, palette []byte) []byte {
	q := make([]byte, n)
	style := g.rng.Intn(4)
	for i := range q {
		switch {
		case free && style == 0:
			q[i] = byte(g.rng.Intn(94))
		case free && style == 1: // Illumina-like decay
			v := 41 - (i*30)/(n+1) - g.rng.Intn(8)
			if v < 0 {
				v = 0
			}
			q[i] = byte(v)
		default:
			q[i] = palette[g.rng.Intn(len(palette))]
		}
	}
	return q
}

func (g *c08Gen) palette() []byte {
	n := 1 + g.rng.Intn(6)
	p := make([]byte, n)
	for i := range p {
		switch g.rng.Intn(6) {
		case 0:
			p[i] = byte(g.rng.Intn(94))
		case 1:
			p[i] = []byte{0, 1, 2, 93, 92, 45, 46, 47}[g.rng.Intn(8)]
		default:
			p[i] = byte(10 + g.rng.Intn(32))
		}
	}
	return p
}

func (g *c08Gen) length(small bool) int {
	if small {
		switch g.rng.Intn(5) {
		case 0:
			return 1 + g.rng.Intn(6)
		default:
			return 1 + g.rng.Intn(50)
		}
	}
	return 1 + g.rng.Intn(g.maxLen)
}

func c08min(a, b int) int {
	if a < b {
		return a
	}
	return b
}

// scenario builds one read pair; perfect != 0 iff the reads are error-free pieces of frag in standard geometry
func (g *c08Gen) scenario(ev *c08Event) (a, b []byte) {
	small := g.rng.Intn(3) > 0
	fam := g.rng.Intn(17)
	if fam == 16 {
		// a run of inserted bases (1-4) in one read a few bases after the start of the overlap, everything else
		// error-free: with a small delta the partial alignment of the fast mode begins with a paid run
		la, lb := 40+g.rng.Intn(60), 40+g.rng.Intn(60)
		o := 25 + g.rng.Intn(c08min(la, lb)-24)
		frag := g.randSeq(la + lb - o)
		ins := g.randSeq(1 + g.rng.Intn(4))
		at := 8 + g.rng.Intn(5)
		x, y := append([]byte{}, frag[:la]...), append([]byte{}, frag[len(frag)-lb:]...)
		if g.rng.Intn(2) == 0 {
			k := la - o + at // position in A of the overlap start + at
			if k > len(x) {
				k = len(x)
			}
			x = append(append(append([]byte{}, x[:k]...), ins...), x[k:]...)
		} else {
			k := at
			if k > len(y) {
				k = len(y)
			}
			y = append(append(append([]byte{}, y[:k]...), ins...), y[k:]...)
		}
		ev.Perfect = 0
		ev.Frag = []string{}
		if g.rng.Intn(2) == 0 {
			ev.Sc = "insertion_after_overlap_start_left"
			return x, y
		}
		ev.Sc = "insertion_after_overlap_start_right"
		return y, x
	}
	pSub := []float64{0, 0.005, 0.02, 0.1}[g.rng.Intn(4)]
	pAmb := []float64{0, 0, 0.01, 0.05}[g.rng.Intn(4)]
	pIndel := []float64{0, 0, 0.005, 0.03}[g.rng.Intn(4)]
	mk := g.randSeq
	if g.rng.Intn(8) == 0 {
		mk = g.lowSeq
	}
	var frag []byte
	ev.Perfect = 0
	switch fam {
	case 0, 1, 2, 3: // error-free standard geometry: A = head, B = tail of the fragment (or mirrored)
		la, lb := g.length(small), g.length(small)
		if la < 4 {
			la += 4
		}
		if lb < 4 {
			lb += 4
		}
		o := 1 + g.rng.Intn(c08min(la, lb))
		switch g.rng.Intn(6) {
		case 0:
			o = c08min(la, lb) // one read ends where the other ends (identical starts or ends)
		case 1:
			o = c08min(1+g.rng.Intn(6), c08min(la, lb)) // around the 4-mer limit
		}
		frag = g.randSeq(la + lb - o)
		if fam == 3 {
			frag = mk(la + lb - o)
		}
		if g.rng.Intn(3) > 0 {
			a, b = frag[:la], frag[len(frag)-lb:]
			ev.Perfect, ev.Sc = 1, "perfect_left"
		} else {
			b, a = frag[:lb], frag[len(frag)-la:]
			ev.Perfect, ev.Sc = 2, "perfect_right"
		}
		ev.Frag = c08chars(frag)
		return append([]byte{}, a...), append([]byte{}, b...)
	case 4, 5, 6: // B starts inside A, with errors
		la, lb := g.length(small), g.length(small)
		o := 1 + g.rng.Intn(c08min(la, lb))
		frag = mk(la + lb - o)
		a, b = g.errors(frag[:la], pSub, pAmb, pIndel), g.errors(frag[len(frag)-lb:], pSub, pAmb, pIndel)
		ev.Sc = "left_errors"
	case 7, 8: // A starts inside B, with errors
		la, lb := g.length(small), g.length(small)
		o := 1 + g.rng.Intn(c08min(la, lb))
		frag = mk(la + lb - o)
		b, a = g.errors(frag[:lb], pSub, pAmb, pIndel), g.errors(frag[len(frag)-la:], pSub, pAmb, pIndel)
		ev.Sc = "right_errors"
	case 9: // containment: one read is a piece of the other (inside, at its start or at its end)
		long := mk(g.length(small))
		p := g.rng.Intn(len(long))
		q := p + 1 + g.rng.Intn(len(long)-p)
		switch g.rng.Intn(4) {
		case 0:
			p = 0
		case 1:
			q = len(long)
		}
		piece := g.errors(long[p:q], pSub, pAmb, pIndel)
		if g.rng.Intn(2) == 0 {
			a, b = long, piece
			ev.Sc = "b_inside_a"
		} else {
			a, b = piece, long
			ev.Sc = "a_inside_b"
		}
	case 10: // identical starts (offset 0), different lengths or not
		long := mk(g.length(small))
		k := 1 + g.rng.Intn(len(long))
		if g.rng.Intn(3) == 0 {
			k = len(long)
		}
		short := g.errors(long[:k], pSub, pAmb, 0)
		if g.rng.Intn(2) == 0 {
			a, b = long, short
		} else {
			a, b = short, long
		}
		ev.Sc = "offset0"
	case 11: // overlap shorter than a 4-mer (or just above)
		la, lb := 3+g.length(small), 3+g.length(small)
		if la > 300 {
			la = 300
		}
		if lb > 300 {
			lb = 300
		}
		o := c08min(1+g.rng.Intn(5), c08min(la, lb))
		frag = mk(la + lb - o)
		if g.rng.Intn(2) == 0 {
			a, b = frag[:la], frag[len(frag)-lb:]
		} else {
			b, a = frag[:lb], frag[len(frag)-la:]
		}
		ev.Sc = "short_overlap"
	case 12: // unrelated reads
		a, b = mk(g.length(small)), mk(g.length(small))
		ev.Sc = "unrelated"
	case 13: // very short reads
		a, b = g.errors(mk(1+g.rng.Intn(6)), 0, pAmb, 0), g.errors(mk(1+g.rng.Intn(6)), 0, pAmb, 0)
		if g.rng.Intn(2) == 0 {
			b = g.errors(mk(g.length(true)), 0, pAmb, 0)
		}
		if g.rng.Intn(2) == 0 {
			a, b = b, a
		}
		ev.Sc = "tiny"
	case 14: // low complexity: tied diagonals, repeats
		la, lb := g.length(small), g.length(small)
		o := 1 + g.rng.Intn(c08min(la, lb))
		frag = g.lowSeq(la + lb - o)
		a, b = g.errors(frag[:la], pSub, 0, pIndel), g.errors(frag[len(frag)-lb:], pSub, 0, pIndel)
		if g.rng.Intn(2) == 0 {
			a, b = b, a
		}
		ev.Sc = "repeats"
	case 15: // heavy IUPAC content
		la, lb := g.length(true), g.length(true)
		o := 1 + g.rng.Intn(c08min(la, lb))
		frag = mk(la + lb - o)
		a, b = g.errors(frag[:la], pSub, 0.3, 0), g.errors(frag[len(frag)-lb:], pSub, 0.3, 0)
		ev.Sc = "iupac"
	}
	ev.Frag = []string{}
	return append([]byte{}, a...), append([]byte{}, b...)
}

// classes of a read: distinct (symbol, quality) pairs, in order of first occurrence
func c08classes(s, q []byte) (syms []string, quals []int, cls []int) {
	idx := map[[2]byte]int{}
	cls = make([]int, len(s))
	for i := range s {
		k := [2]byte{s[i], q[i]}
		c, ok := idx[k]
		if !ok {
			c = len(syms) + 1
			idx[k] = c
			syms = append(syms, string([]byte{s[i]}))
			quals = append(quals, int(q[i]))
		}
		cls[i] = c
	}
	return syms, quals, cls
}

func (g *c08Gen) newEvent() *c08Event {
	ev := &c08Event{K: "pe"}
	a, b := g.scenario(ev)
	free := len(a)*len(b) <= 4000
	pal := g.palette()
	qa, qb := g.quals(len(a), free, pal), g.quals(len(b), free, pal)
	ev.A, ev.Qa, ev.B, ev.Qb = c08chars(a), c08ints(qa), c08chars(b), c08ints(qb)
	ev.Fast = g.rng.Intn(2)
	ev.Rel = g.rng.Intn(2)
	ev.Delta = []int{0, 1, 5, 5, 10, 50}[g.rng.Intn(6)]
	if strings.HasPrefix(ev.Sc, "insertion_after_overlap_start") {
		ev.Delta = g.rng.Intn(3) // smaller than the inserted run most of the time
	}
	ev.Gap10 = []int{20, 20, 20, 10, 5, 1, 40}[g.rng.Intn(7)]
	ev.Scale10 = []int{10, 10, 10, 5, 20}[g.rng.Intn(5)]
	ev.Minov = []int{1, 5, 10, 20, 20}[g.rng.Intn(5)]
	id := [][2]int{{0, 1}, {8, 10}, {9, 10}, {9, 10}, {1, 1}}[g.rng.Intn(5)]
	ev.Idn, ev.Idd = id[0], id[1]
	ev.Inplace = g.rng.Intn(2)
	ev.Arena = "reused"
	if g.rng.Intn(10) == 0 {
		ev.Arena = "fresh"
	}
	return ev
}

// runEventC08 calls the real code on the arguments of the event and stores the answers and the
// implementation's own scores for the pair.
func runEventC08(ev *c08Event, wk *c08Worker) {
	a, b := []byte(strings.Join(ev.A, "")), []byte(strings.Join(ev.B, ""))
	qa, qb := c08bytes(ev.Qa), c08bytes(ev.Qb)
	gap, scale := float64(ev.Gap10)/10, float64(ev.Scale10)/10
	// scores (hook H2)
	ev.Csa, ev.Cqa, ev.Ca = c08classes(a, qa)
	ev.Csb, ev.Cqb, ev.Cb = c08classes(b, qb)
	ev.Tab = make([][]int, len(ev.Csa))
	for x := range ev.Csa {
		ev.Tab[x] = make([]int, len(ev.Csb))
		for y := range ev.Csb {
			ev.Tab[x][y] = c08clamp(obialign.VerifPairScore(ev.Csa[x][0], byte(ev.Cqa[x]), ev.Csb[y][0], byte(ev.Cqb[y]), scale))
		}
	}
	ev.Gapp = obialign.VerifGapPenalty(gap, scale)
	arena := wk.arena
	if ev.Arena == "fresh" {
		arena = obialign.MakePEAlignArena(len(a), len(b))
	}
	ev.Panic, ev.PanicS = 0, ""
	ev.Path, ev.Cs, ev.Cq, ev.Os, ev.Oq = []int{}, []string{}, []int{}, []string{}, []int{}
	ev.Mode, ev.Ali, ev.Sas, ev.Sbs, ev.Dir, ev.Ascore, ev.Amatch = -1, -1, -1, -1, -1, 0, -1
	fail := func(what, msg string) {
		ev.Panic, ev.PanicS = 1, what+": "+msg
		if ev.Arena != "fresh" {
			wk.arena = obialign.MakePEAlignArena(150, 150)
		}
		wk.shifts = make(map[int]int)
	}
	r := c08PEAlign(c08seq("a", a, qa), c08seq("b", b, qb), gap, scale, ev.Fast == 1, ev.Delta, ev.Rel == 1, arena, &wk.shifts)
	if r.Panic != "" {
		fail("PEAlign", r.Panic)
		return
	}
	ev.Left, ev.Score, ev.Path, ev.Fc, ev.Over, ev.Fs1000 = c08b2i(r.Left), c08clamp(r.Score), r.Path, r.Fc, r.Over, int(r.Fs*1000)
	// the consensus of that very path (consumption is judged by TLC; a path that does not fit the reads makes
	// the real BuildQualityConsensus panic or read outside the reads: reported through path.consumes)
	cons := c08Consensus(c08seq("a", a, qa), c08seq("b", b, qb), r.Path, arena)
	if cons.Panic == "" {
		ev.Cs, ev.Cq, ev.Match = c08chars(cons.Seq), c08ints(cons.Qual), cons.Match
	}
	asm := c08Assemble(c08seq("a", a, qa), c08seq("b", b, qb), gap, scale, ev.Delta, ev.Minov, float64(ev.Idn)/float64(ev.Idd),
		ev.Inplace == 1, ev.Fast == 1, ev.Rel == 1, arena, &wk.shifts)
	if asm.Panic == "" && asm.HasAll {
		ev.Os, ev.Oq = c08chars(asm.Seq), c08ints(asm.Qual)
		ev.Mode, ev.Ali, ev.Sas, ev.Sbs, ev.Dir, ev.Ascore, ev.Amatch = asm.Mode, asm.Ali, asm.Sas, asm.Sbs, asm.Dir, c08clamp(asm.Score), asm.Match
	}
	if cons.Panic != "" || asm.Panic != "" {
		// only a path that fits the reads obliges the consensus builders: TLC judges path.consumes first
		ev.PanicS = "BuildQualityConsensus/AssemblePESequences: " + cons.Panic + " " + asm.Panic
		if ev.Arena != "fresh" {
			wk.arena = obialign.MakePEAlignArena(150, 150)
		}
		wk.shifts = make(map[int]int)
		ev.Panic = 2
	}
}

func recordC08(env *Env) {
	if env.opt("dump", "") == "grid" {
		dumpGridC08(env)
		return
	}
	if env.opt("dump", "") == "table" {
		dumpTableC08(env)
		return
	}
	nw := 8
	if path := env.opt("replay", ""); path != "" { // --replay of a reported event: same arguments, real code again
		wk := newC08Worker()
		for _, ev := range loadCases[c08Event](path) {
			e := ev
			runEventC08(&e, wk)
			env.emit(e)
		}
		return
	}
	g := &c08Gen{rng: env.rng, maxLen: env.optInt("maxlen", 300)}
	events := make([]*c08Event, env.n)
	for i := range events {
		events[i] = g.newEvent()
	}
	// worker w handles events w, w+nw, ... in order on its own arena: the arena history is a function of the seed
	var wg sync.WaitGroup
	for w := 0; w < nw; w++ {
		wg.Add(1)
		go func(w int) {
			defer wg.Done()
			wk := newC08Worker()
			for i := w; i < len(events); i += nw {
				runEventC08(events[i], wk)
			}
		}(w)
	}
	wg.Wait()
	fams := map[string]int{}
	for _, ev := range events {
		fams[ev.Sc]++
		env.emit(ev)
	}
	keys := []string{}
	for k := range fams {
		keys = append(keys, k)
	}
	sort.Strings(keys)
	for _, k := range keys {
		fmt.Fprintf(os.Stderr, "family %s: %d\n", k, fams[k])
	}
}

package main

// C06: process isolation of the library-level replay.  The code under test runs many goroutines of
// its own; a panic in one of them (index out of range on an empty class, negative WaitGroup counter,
// send on a closed channel ...) cannot be recovered by the caller and would kill the harness.  The
// replay therefore runs in child processes; when a child dies, the cases that were in flight are
// re-run one per process to find the culprit, which is reported as a violation (assertion
// C06.lib.crash), and the remaining cases go to a fresh child.

import (
	"bufio"
	"bytes"
	"encoding/json"
	"fmt"
	"os"
	"os/exec"
	"path/filepath"
	"strconv"
	"strings"
	"sync"
)

type c06Shard struct {
	lines [][]byte // raw case lines
	name  string
}

type c06ChildResult struct {
	crashed  bool
	stderr   string
	begun    map[int]bool
	ended    map[int]int
	failures []map[string]any
	samples  []map[string]any
	checked  int64
	classes  map[string]int
	summary  bool
}

func c06RunChild(env *Env, dir string, sh c06Shard, par int, extra ...string) c06ChildResult {
	cf := filepath.Join(dir, sh.name+".cases")
	of := filepath.Join(dir, sh.name+".res")
	pf := filepath.Join(dir, sh.name+".prog")
	os.WriteFile(cf, bytes.Join(sh.lines, []byte("\n")), 0644)
	args := []string{"replay", "C06", "--cases", cf, "--out", of, "--opt", "child=1", "--opt", "progress=" + pf, "--opt", "par=" + strconv.Itoa(par)}
	for k, v := range env.opts {
		if k != "procs" && k != "par" {
			args = append(args, "--opt", k+"="+v)
		}
	}
	if _, set := env.opts["distbatch"]; !set {
		// batch size of iterator.Distribute (a process-wide option of the code under test): vary it over the children
		h := uint32(0)
		for _, c := range sh.name {
			h = h*31 + uint32(c)
		}
		args = append(args, "--opt", "distbatch="+strconv.Itoa([]int{1, 2, 3, 5000}[h%4]))
	}
	args = append(args, extra...)
	cmd := exec.Command(os.Args[0], args...)
	var se bytes.Buffer
	cmd.Stderr = &se
	err := cmd.Run()
	res := c06ChildResult{begun: map[int]bool{}, ended: map[int]int{}, classes: map[string]int{}}
	if f, e := os.Open(pf); e == nil {
		sc := bufio.NewScanner(f)
		for sc.Scan() {
			fs := strings.Fields(sc.Text())
			if len(fs) >= 2 {
				i, _ := strconv.Atoi(fs[1])
				if fs[0] == "B" {
					res.begun[i] = true
				} else if fs[0] == "E" && len(fs) >= 3 {
					n, _ := strconv.Atoi(fs[2])
					res.ended[i] = n
				}
			}
		}
		f.Close()
	}
	if f, e := os.Open(of); e == nil {
		r := bufio.NewReaderSize(f, 1<<20)
		for {
			line, e2 := r.ReadBytes('\n')
			if len(bytes.TrimSpace(line)) > 0 {
				var m map[string]any
				if json.Unmarshal(line, &m) == nil {
					switch {
					case m["summary"] != nil:
						res.summary = true
						if c, ok := m["checked"].(float64); ok {
							res.checked = int64(c)
						}
						if cl, ok := m["classes"].(map[string]any); ok {
							for k, v := range cl {
								if x, ok := v.(float64); ok {
									res.classes[k] += int(x)
								}
							}
						}
					case m["sample"] != nil:
						res.samples = append(res.samples, m)
					case m["assert"] != nil:
						res.failures = append(res.failures, m)
					}
				}
			}
			if e2 != nil {
				break
			}
		}
		f.Close()
	}
	if err != nil || !res.summary {
		res.crashed = true
		t := se.String()
		if i := strings.Index(t, "panic:"); i >= 0 {
			t = t[i:]
		} else if i := strings.Index(t, "fatal error:"); i >= 0 {
			t = t[i:]
		}
		// keep the message and the first frames inside the code under test
		keep := []string{}
		for _, l := range strings.Split(t, "\n") {
			if len(keep) < 3 || strings.Contains(l, "obitools4/pkg") {
				keep = append(keep, strings.TrimSpace(l))
			}
			if len(keep) > 12 {
				break
			}
		}
		res.stderr = strings.Join(keep, " | ")
		if err != nil {
			res.stderr = err.Error() + ": " + res.stderr
		}
	}
	return res
}

func replayC06Parent(env *Env) {
	procs := env.optInt("procs", 8)
	par := env.optInt("par", 4)
	dir, err := os.MkdirTemp(os.Getenv("VERIF_SCRATCH"), "c06shards")
	if err != nil {
		fmt.Fprintln(os.Stderr, err)
		os.Exit(2)
	}
	defer os.RemoveAll(dir)
	// raw lines, each given its index in the whole file (used to seed its configurations)
	raw := loadCases[map[string]any](env.cases)
	lines := make([][]byte, len(raw))
	for i, m := range raw {
		if _, has := m["idx"]; !has {
			m["idx"] = i
		}
		lines[i], _ = json.Marshal(m)
	}
	if procs > len(lines) {
		procs = len(lines)
	}
	if procs < 1 {
		procs = 1
	}
	shards := make([]c06Shard, procs)
	for i, l := range lines {
		shards[i%procs].lines = append(shards[i%procs].lines, l)
	}
	var mu sync.Mutex
	crashes := 0
	merge := func(r c06ChildResult) {
		mu.Lock()
		defer mu.Unlock()
		for _, f := range r.failures {
			env.failed++
			env.emit(f)
		}
		for _, s := range r.samples {
			if env.samples < 4 {
				env.samples++
				env.emit(s)
			}
		}
	}
	var wg sync.WaitGroup
	for si := range shards {
		wg.Add(1)
		go func(si int) {
			defer wg.Done()
			todo := shards[si].lines
			gen := 0
			for len(todo) > 0 {
				gen++
				sh := c06Shard{lines: todo, name: fmt.Sprintf("s%d_%d", si, gen)}
				r := c06RunChild(env, dir, sh, par)
				merge(r)
				if !r.crashed {
					mu.Lock()
					env.checked += r.checked
					for k, v := range r.classes {
						env.classes[k] += v
					}
					mu.Unlock()
					return
				}
				// the child died: count what it finished, find the culprit among the cases in flight
				mu.Lock()
				crashes++
				tooMany := crashes > 6
				for _, n := range r.ended {
					env.checked += int64(n)
					env.classes["lib/counted-before-a-crash"] += n
				}
				mu.Unlock()
				inflight := []int{}
				rest := [][]byte{}
				for i, l := range todo {
					if _, done := r.ended[i]; done {
						continue
					}
					if r.begun[i] {
						inflight = append(inflight, i)
					} else {
						rest = append(rest, l)
					}
				}
				reproduced := false
				for _, i := range inflight {
					var c any
					json.Unmarshal(todo[i], &c)
					again := c06ChildResult{}
					for k := 0; k < 3 && !again.crashed; k++ {
						again = c06RunChild(env, dir, c06Shard{lines: [][]byte{todo[i]}, name: fmt.Sprintf("s%d_%d_one%d_%d", si, gen, i, k)}, 1)
					}
					merge(again)
					mu.Lock()
					if again.crashed {
						reproduced = true
						env.failed++
						env.emit(map[string]any{"assert": "C06.lib.crash", "class": "lib/reproduced", "detail": "the code under test panicked: " + again.stderr, "case": c})
					} else {
						env.checked += again.checked
						for k, v := range again.classes {
							env.classes[k] += v
						}
					}
					mu.Unlock()
				}
				if !reproduced {
					var c any
					if len(inflight) > 0 {
						json.Unmarshal(todo[inflight[0]], &c)
					}
					mu.Lock()
					env.failed++
					env.emit(map[string]any{"assert": "C06.lib.crash", "class": "lib/not-reproduced-alone", "case": c,
						"detail": fmt.Sprintf("the code under test panicked with %d cases in flight (not reproduced one by one): %s", len(inflight), r.stderr)})
					mu.Unlock()
				}
				if tooMany {
					return
				}
				todo = rest
			}
		}(si)
	}
	wg.Wait()
}

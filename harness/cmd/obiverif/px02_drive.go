package main

// X02 driver: replay of the cases exported by AggregMC on the real commands and on the library,
// and recording of seeded random scenarios for AggregTrace.

import (
	"encoding/json"
	"fmt"
	"hash/fnv"
	"math/rand"
	"os"
	"path/filepath"
	"reflect"
	"strconv"
	"strings"
	"sync"
	"sync/atomic"

	"git.metabarcoding.org/obitools/obitools4/obitools4/pkg/obiiter"
	"git.metabarcoding.org/obitools/obitools4/obitools4/pkg/obioptions"
	"git.metabarcoding.org/obitools/obitools4/obitools4/pkg/obiseq"
	"git.metabarcoding.org/obitools/obitools4/obitools4/pkg/obitools/obimatrix"
	"git.metabarcoding.org/obitools/obitools4/obitools4/pkg/obitools/obisummary"
)

func init() {
	register("X02", &driver{replay: x02Replay, record: x02Record})
}

// ------------------------------------------------------------------------------ cases

type x02Cmd struct {
	C      string   `json:"c"`
	Json   bool     `json:"json"`
	Yaml   bool     `json:"yaml"`
	Key    string   `json:"key,omitempty"`
	Layout string   `json:"layout,omitempty"`
	Na     string   `json:"na"`
	Sname  string   `json:"sname,omitempty"`
	Vname  string   `json:"vname,omitempty"`
	Opt    []string `json:"opt"`
}

type x02ExpRow struct {
	Name  string   `json:"name"`
	Cells []string `json:"cells"`
}

type x02ExpTable struct {
	Header []string          `json:"header"`
	Rows   []json.RawMessage `json:"rows"` // matrix: {name, cells}; three columns: [id, key, value]
}

type x02Exp struct {
	Rc      string       `json:"rc"`
	Format  string       `json:"format,omitempty"`
	Summary *x02SumOut   `json:"summary,omitempty"`
	Raw     *x02Raw      `json:"raw,omitempty"`
	Count   *x02CountOut `json:"count,omitempty"`
	Table   *x02ExpTable `json:"table,omitempty"`
	Maps    []x02ExpMap  `json:"maps,omitempty"`
}

type x02ExpMap struct {
	Id string    `json:"id"`
	M  x02StrMap `json:"m"`
}

type x02Case struct {
	R       []x02Rec `json:"R"`
	Cmd     x02Cmd   `json:"cmd"`
	Exp     x02Exp   `json:"exp"`
	Cls     string   `json:"cls"`
	Variant *int     `json:"variant,omitempty"`
}

func x02VariantOf(c *x02Case, seed int64) int {
	if c.Variant != nil {
		return *c.Variant
	}
	b, _ := json.Marshal([]any{c.R, c.Cmd, seed})
	h := fnv.New32a()
	h.Write(b)
	v := int(h.Sum32() & 0x7fffffff)
	c.Variant = &v
	return v
}

// x02Par: spellings of the parallelism options (they must not change any result).
var x02Par = [][]string{
	{"--max-cpu", "2"}, {}, {"--max-cpu", "3", "--batch-size", "1"}, {"--force-one-cpu"},
	{"--max-cpu", "8", "--batch-size", "2"}, {"--max-cpu", "16", "--batch-size", "7"}, {"--max-cpu", "4"},
}

// x02Inputs writes the records to one or two files (or keeps them for stdin) and returns the file
// arguments and the stdin bytes.
func x02Inputs(recs []x02Rec, how int, dir, stem string, wrap bool) ([]string, []byte, string) {
	switch {
	case how%4 == 1:
		return nil, x02Fasta(recs, wrap), "stdin"
	case how%4 == 2 && len(recs) >= 2:
		k := 1 + (how/4)%(len(recs)-1)
		f1, f2 := filepath.Join(dir, stem+"_a.fasta"), filepath.Join(dir, stem+"_b.fasta")
		os.WriteFile(f1, x02Fasta(recs[:k], wrap), 0o644)
		os.WriteFile(f2, x02Fasta(recs[k:], wrap), 0o644)
		return []string{f1, f2}, nil, "files2"
	}
	f := filepath.Join(dir, stem+".fasta")
	os.WriteFile(f, x02Fasta(recs, wrap), 0o644)
	return []string{f}, nil, "file"
}

var x02FlagSpell = map[string][]string{"variants": {"-v", "--variants"}, "reads": {"-r", "--reads"}, "symbols": {"-s", "--symbols"}}

// x02Argv: the command line of a case (tool first).
func x02Argv(c x02Cmd, v int) []string {
	par := x02Par[v%len(x02Par)]
	v /= len(x02Par)
	switch c.C {
	case "summary":
		a := []string{"obisummary"}
		if c.Json {
			a = append(a, "--json-output")
		}
		if c.Yaml {
			a = append(a, "--yaml-output")
		}
		return append(a, par...)
	case "summarymap":
		return append([]string{"obisummary", "--map", c.Key}, par...)
	case "count":
		a := []string{"obicount"}
		if len(c.Opt) >= 2 && v%3 == 0 { // bundled short flags
			b := "-"
			for _, o := range c.Opt {
				b += x02FlagSpell[o][0][1:]
			}
			a = append(a, b)
		} else {
			for i, o := range c.Opt {
				a = append(a, x02FlagSpell[o][(v>>uint(i))&1])
			}
		}
		return append(a, par...)
	case "matrix":
		a := []string{"obimatrix"}
		if c.Layout == "byrecord" {
			a = append(a, "--transpose")
		}
		if c.Key != "merged_sample" || v%2 == 0 {
			a = append(a, "--map", c.Key)
		}
		if c.Na != "0" || v%3 == 0 {
			a = append(a, "--na-value", c.Na)
		}
		if v%5 == 0 { // names of the three-column layout have no meaning here
			a = append(a, "--sample-name", "zzz", "--value-name", "yyy")
		}
		return append(a, par...)
	case "three":
		a := []string{"obimatrix", "--three-columns"}
		if c.Key != "merged_sample" || v%2 == 0 {
			a = append(a, "--map", c.Key)
		}
		if c.Sname != "sample" || v%3 == 0 {
			a = append(a, "--sample-name", c.Sname)
		}
		if c.Vname != "count" || v%3 == 1 {
			a = append(a, "--value-name", c.Vname)
		}
		if v%5 == 0 { // neither the layout switch nor the NA value have a meaning here
			a = append(a, "--transpose", "--na-value", "zz")
		}
		return append(a, par...)
	}
	panic("x02: unknown command " + c.C)
}

func x02Tool(c string) string {
	switch c {
	case "summary", "summarymap":
		return "summary"
	case "count":
		return "count"
	case "matrix":
		return "matrix"
	}
	return "three"
}

// ------------------------------------------------------------------------------ comparisons (replay)

type x02Fails struct {
	list []struct{ assert, detail string }
}

func (f *x02Fails) add(assert, format string, a ...any) {
	f.list = append(f.list, struct{ assert, detail string }{assert, fmt.Sprintf(format, a...)})
}

func x02CmpSummary(f *x02Fails, prefix string, obs, exp x02SumOut) {
	if obs.Variants != exp.Variants || obs.Reads != exp.Reads || obs.TotalLength != exp.TotalLength {
		f.add(prefix+".count", "count: got variants=%d reads=%d total_length=%d, required %d %d %d",
			obs.Variants, obs.Reads, obs.TotalLength, exp.Variants, exp.Reads, exp.TotalLength)
	}
	if obs.HasAnnotations != exp.HasAnnotations || obs.ScalarAttributes != exp.ScalarAttributes || obs.MapAttributes != exp.MapAttributes ||
		obs.VectorAttributes != exp.VectorAttributes || !reflect.DeepEqual(obs.Scalar, exp.Scalar) || !reflect.DeepEqual(obs.Map, exp.Map) ||
		!reflect.DeepEqual(obs.Vector, exp.Vector) {
		f.add(prefix+".annotations", "annotations: got present=%d n=(%d,%d,%d) scalar=%v map=%v vector=%v, required present=%d n=(%d,%d,%d) scalar=%v map=%v vector=%v",
			obs.HasAnnotations, obs.ScalarAttributes, obs.MapAttributes, obs.VectorAttributes, obs.Scalar, obs.Map, obs.Vector,
			exp.HasAnnotations, exp.ScalarAttributes, exp.MapAttributes, exp.VectorAttributes, exp.Scalar, exp.Map, exp.Vector)
	}
	if obs.HasSamples != exp.HasSamples || obs.SampleCount != exp.SampleCount || !reflect.DeepEqual(obs.Stats, exp.Stats) {
		f.add(prefix+".samples", "samples: got present=%d sample_count=%d stats=%v, required present=%d sample_count=%d stats=%v",
			obs.HasSamples, obs.SampleCount, obs.Stats, exp.HasSamples, exp.SampleCount, exp.Stats)
	}
}

func x02CmpRaw(f *x02Fails, prefix string, obs, exp x02Raw) {
	if obs.Variants != exp.Variants || obs.Reads != exp.Reads || obs.Length != exp.Length || obs.Nms != exp.Nms || obs.Nocs != exp.Nocs || obs.Nocw != exp.Nocw {
		f.add(prefix+".count", "got variants=%d reads=%d length=%d nms=%d nocs=%d nocw=%d, required %d %d %d %d %d %d",
			obs.Variants, obs.Reads, obs.Length, obs.Nms, obs.Nocs, obs.Nocw, exp.Variants, exp.Reads, exp.Length, exp.Nms, exp.Nocs, exp.Nocw)
	}
	if !reflect.DeepEqual(obs.Scalar, exp.Scalar) || !reflect.DeepEqual(obs.Map, exp.Map) || !reflect.DeepEqual(obs.Vector, exp.Vector) {
		f.add(prefix+".keys", "got scalar=%v map=%v vector=%v, required %v %v %v", obs.Scalar, obs.Map, obs.Vector, exp.Scalar, exp.Map, exp.Vector)
	}
	if !reflect.DeepEqual(obs.Sreads, exp.Sreads) || !reflect.DeepEqual(obs.Svar, exp.Svar) || !reflect.DeepEqual(obs.Ssingle, exp.Ssingle) || !reflect.DeepEqual(obs.Sbad, exp.Sbad) {
		f.add(prefix+".samples", "got reads=%v variants=%v singletons=%v bad=%v, required %v %v %v %v",
			obs.Sreads, obs.Svar, obs.Ssingle, obs.Sbad, exp.Sreads, exp.Svar, exp.Ssingle, exp.Sbad)
	}
}

func x02SameSet(a, b []string) bool {
	m := map[string]int{}
	for _, x := range a {
		m[x]++
	}
	for _, x := range b {
		m[x]--
	}
	for _, n := range m {
		if n != 0 {
			return false
		}
	}
	return len(a) == len(b)
}

func x02CmpMatrix(f *x02Fails, layout string, obs x02Table, exp *x02ExpTable) {
	rowsAre, colsAre := "names", "ids"
	if layout == "byrecord" {
		rowsAre, colsAre = "ids", "names"
	}
	if len(obs.Header) == 0 || obs.Header[0] != "id" {
		f.add("X02.matrix.header_first", "first header cell: got %q, required \"id\"", obs.Header)
		if len(obs.Header) == 0 {
			return
		}
	}
	ocols, ecols := obs.Header[1:], exp.Header[1:]
	if !x02SameSet(ocols, ecols) {
		f.add("X02.matrix."+colsAre, "columns: got %q, required %q", ocols, ecols)
	} else if !reflect.DeepEqual(ocols, ecols) {
		f.add("X02.matrix.col_order", "column order: got %q, required %q", ocols, ecols)
	}
	erows := map[string][]string{}
	enames := []string{}
	for _, raw := range exp.Rows {
		var r x02ExpRow
		json.Unmarshal(raw, &r)
		erows[r.Name] = r.Cells
		enames = append(enames, r.Name)
	}
	onames := []string{}
	for _, r := range obs.Rows {
		onames = append(onames, r.Name)
	}
	if !x02SameSet(onames, enames) {
		f.add("X02.matrix."+rowsAre, "rows: got %q, required %q", onames, enames)
	} else if !reflect.DeepEqual(onames, enames) {
		f.add("X02.matrix.row_order", "row order: got %q, required %q", onames, enames)
	}
	ecol := map[string]int{}
	for j, c := range ecols {
		ecol[c] = j
	}
	badV, badT := "", ""
	for _, r := range obs.Rows {
		if len(r.Cells) != len(ocols) {
			f.add("X02.matrix.cells", "row %q has %d cells for %d columns", r.Name, len(r.Cells), len(ocols))
			return
		}
		e, ok := erows[r.Name]
		if !ok {
			continue
		}
		for j, c := range ocols {
			k, ok := ecol[c]
			if !ok {
				continue
			}
			if r.Vals[j] != e[k] && badV == "" {
				badV = fmt.Sprintf("cell (%s,%s): got %q, required %q", r.Name, c, r.Cells[j], e[k])
			} else if r.Vals[j] == e[k] && r.Cells[j] != e[k] && badT == "" {
				badT = fmt.Sprintf("cell (%s,%s): printed %q for the integer %s", r.Name, c, r.Cells[j], e[k])
			}
		}
	}
	if badV != "" {
		f.add("X02.matrix.cells", "%s", badV)
	}
	if badT != "" {
		f.add("X02.matrix.cell_text", "%s", badT)
	}
}

func x02CmpThree(f *x02Fails, obs x02Table, exp *x02ExpTable) {
	if !reflect.DeepEqual(obs.Header, exp.Header) {
		f.add("X02.three.header", "header: got %q, required %q", obs.Header, exp.Header)
	}
	var eV, oV, oT []string
	for _, raw := range exp.Rows {
		var t []string
		json.Unmarshal(raw, &t)
		eV = append(eV, strings.Join(t, "\x00"))
	}
	for _, r := range obs.Rows {
		if len(r.Cells) != 2 {
			f.add("X02.three.rows", "line %q %q does not have three fields", r.Name, r.Cells)
			return
		}
		oV = append(oV, strings.Join([]string{r.Name, r.Cells[0], r.Vals[1]}, "\x00"))
		oT = append(oT, strings.Join([]string{r.Name, r.Cells[0], r.Cells[1]}, "\x00"))
	}
	show := func(x []string) string { return strings.ReplaceAll(fmt.Sprintf("%q", x), "\\x00", ",") }
	if !x02SameSet(oV, eV) {
		f.add("X02.three.rows", "lines: got %s, required %s", show(oV), show(eV))
		return
	}
	if !x02SameSet(oT, eV) {
		f.add("X02.three.cell_text", "lines: printed %s for %s", show(oT), show(eV))
	}
	if !reflect.DeepEqual(oV, eV) {
		f.add("X02.three.row_order", "line order: got %s, required %s", show(oV), show(eV))
	}
}

func x02CmpCount(f *x02Fails, obs x02CountOut, exp *x02CountOut) {
	if !reflect.DeepEqual(obs.Header, exp.Header) {
		f.add("X02.count.header", "header: got %q, required %q", obs.Header, exp.Header)
	}
	if !(len(obs.Lines) == 0 && len(exp.Lines) == 0) && !reflect.DeepEqual(obs.Lines, exp.Lines) {
		f.add("X02.count.lines", "lines: got %v, required %v", obs.Lines, exp.Lines)
	}
}

// ------------------------------------------------------------------------------ library level

var x02LibMu sync.Mutex // obioptions.SetMaxCPU is process-wide

func x02Iterator(batches [][]*obiseq.BioSequence) obiiter.IBioSequence {
	it := obiiter.MakeIBioSequence()
	it.Add(1)
	go func() { it.WaitAndClose() }()
	go func() {
		for o, b := range batches {
			sl := obiseq.MakeBioSequenceSlice()
			sl = append(sl, b...)
			it.Push(obiiter.MakeBioSequenceBatch("verif", o, sl))
		}
		it.Done()
	}()
	return it
}

func x02Seqs(recs []x02Rec, style string) []*obiseq.BioSequence {
	s := make([]*obiseq.BioSequence, len(recs))
	for i, r := range recs {
		s[i] = x02BioSeq(r, style)
	}
	return s
}

func x02Chop(seqs []*obiseq.BioSequence, size int) [][]*obiseq.BioSequence {
	out := [][]*obiseq.BioSequence{}
	for i := 0; i < len(seqs); i += size {
		j := i + size
		if j > len(seqs) {
			j = len(seqs)
		}
		out = append(out, seqs[i:j])
	}
	return out
}

// x02ISummary runs the real ISummary with `workers` summarising goroutines.
func x02ISummary(recs []x02Rec, style string, bsize, workers int) (o x02SumOut, err error) {
	x02LibMu.Lock()
	defer x02LibMu.Unlock()
	defer func() {
		if r := recover(); r != nil {
			err = fmt.Errorf("panic: %v", r)
		}
	}()
	old := obioptions.CLIMaxCPU()
	obioptions.SetMaxCPU(workers)
	defer obioptions.SetMaxCPU(old)
	dict := obisummary.ISummary(x02Iterator(x02Chop(x02Seqs(recs, style), bsize)), []string{})
	b, err := json.Marshal(dict)
	if err != nil {
		return x02EmptySumOut(), err
	}
	return x02DecodeSummary(b, "json")
}

// x02Tree: [b] leaf (0 = the empty summary) or [l, r] node; same JSON shape as Aggreg!MergeTree.
type x02Tree struct {
	B *int     `json:"b,omitempty"`
	L *x02Tree `json:"l,omitempty"`
	R *x02Tree `json:"r,omitempty"`
}

func x02Leaf(b int) *x02Tree { return &x02Tree{B: &b} }

func x02EvalTree(parts []*obisummary.DataSummary, t *x02Tree) *obisummary.DataSummary {
	if t.B != nil {
		if *t.B == 0 {
			return obisummary.NewDataSummary()
		}
		return parts[*t.B-1]
	}
	return x02EvalTree(parts, t.L).Add(x02EvalTree(parts, t.R))
}

// x02MergeRun: one DataSummary per batch (Update record by record), merged along the tree (each
// batch is used by exactly one leaf: Add re-uses the maps of its operands).
func x02MergeRun(batches [][]x02Rec, style string, t *x02Tree) (r x02Raw, err error) {
	defer func() {
		if p := recover(); p != nil {
			err = fmt.Errorf("panic: %v", p)
		}
	}()
	parts := make([]*obisummary.DataSummary, len(batches))
	for i, b := range batches {
		parts[i] = obisummary.NewDataSummary()
		for _, s := range x02Seqs(b, style) {
			parts[i].Update(s)
		}
	}
	return x02RawOf(x02EvalTree(parts, t).VerifFields()), nil
}

// the tree shapes replayed on every three-way split of a model case
func x02Trees3() []*x02Tree {
	n := func(l, r *x02Tree) *x02Tree { return &x02Tree{L: l, R: r} }
	a, b, c, z := func() *x02Tree { return x02Leaf(1) }, func() *x02Tree { return x02Leaf(2) }, func() *x02Tree { return x02Leaf(3) }, func() *x02Tree { return x02Leaf(0) }
	return []*x02Tree{
		n(n(a(), b()), c()), n(a(), n(b(), c())), n(n(b(), a()), c()), n(c(), n(a(), b())), n(n(c(), b()), a()),
		n(n(z(), a()), n(n(b(), z()), c())), n(n(n(z(), c()), a()), b()),
	}
}

// x02IMatrix runs the real IMatrix (map attribute = its default, merged_sample).
func x02IMatrix(recs []x02Rec, style string, bsize, workers int) (rows []map[string]any, err error) {
	x02LibMu.Lock()
	defer x02LibMu.Unlock()
	defer func() {
		if p := recover(); p != nil {
			err = fmt.Errorf("panic: %v", p)
		}
	}()
	old := obioptions.CLIMaxCPU()
	obioptions.SetMaxCPU(workers)
	defer obioptions.SetMaxCPU(old)
	m := obimatrix.IMatrix(x02Iterator(x02Chop(x02Seqs(recs, style), bsize)))
	rows = []map[string]any{}
	for _, id := range x02SortedKeys(*m) {
		cells := map[string]string{}
		for k, v := range (*m)[id] {
			t, _ := x02NumText(fmt.Sprintf("%v", v))
			cells[k] = t
		}
		rows = append(rows, map[string]any{"name": id, "m": cells})
	}
	return rows, nil
}

// ------------------------------------------------------------------------------ replay

// failures of assertions listed in --opt quiet=a,b,... (the assertions of the known findings) are reported like
// the others but do not count towards the "verdict is known, stop" limit
var x02Quiet = map[string]bool{}
var x02Loud int64

func x02Fail(env *Env, assert, class, detail string, c any) {
	if !x02Quiet[assert] {
		atomic.AddInt64(&x02Loud, 1)
	}
	env.fail(assert, class, detail, c)
}

func x02TooMany(env *Env) bool {
	if atomic.LoadInt64(&x02Loud) > 120 {
		atomic.StoreInt64(&env.skipped, 1)
		return true
	}
	return false
}

func x02Replay(env *Env) {
	cases := loadCases[x02Case](env.cases)
	bindir := env.opt("bindir", "")
	for _, a := range strings.Split(env.opt("quiet", ""), ",") {
		x02Quiet[a] = true
	}
	dir := x02Scratch("x02replay")
	defer os.RemoveAll(dir)
	parallel(len(cases), 16, func(i int) {
		if x02TooMany(env) {
			return
		}
		c := &cases[i]
		if bindir != "" {
			x02ReplayBinary(env, c, i, bindir, dir)
		}
		if c.Cmd.C == "summary" && !c.Cmd.Json && !c.Cmd.Yaml && !strings.Contains(c.Cls, "null") && c.Exp.Raw != nil {
			x02ReplayLibrary(env, c)
		}
		if c.Cmd.C == "matrix" && c.Cmd.Key == "merged_sample" && c.Cmd.Layout == "byrecord" && c.Cmd.Na == "0" && c.Exp.Rc == "zero" {
			x02ReplayIMatrix(env, c)
		}
	})
}

func x02ReplayBinary(env *Env, c *x02Case, i int, bindir, dir string) {
	v := x02VariantOf(c, env.seed)
	argv := x02Argv(c.Cmd, v)
	files, stdin, how := x02Inputs(c.R, v/7, dir, "c"+strconv.Itoa(i), false)
	p := x02Run(bindir, append(argv, files...), stdin, dir)
	tool := x02Tool(c.Cmd.C)
	cls := c.Cls
	var f x02Fails
	where := fmt.Sprintf("%s (%s, %d records)", strings.Join(argv, " "), how, len(c.R))
	switch {
	case p.Hung:
		f.add("X02."+tool+".exit", "%s: no exit within the patience", where)
	case c.Exp.Rc == "nonzero":
		if p.Rc == 0 {
			f.add("X02."+tool+".exit", "%s: exit status 0 and output %q, a failure (non-zero exit status) is required", where, x02Clip(p.Out))
		}
	case p.Rc != 0:
		f.add("X02."+tool+".exit", "%s: exit status %d (%s), success is required", where, p.Rc, x02FirstNonEmpty(p.ErrMsg, x02LastLine(p.Err)))
	default:
		switch tool {
		case "summary":
			obs, err := x02DecodeSummary(p.Out, c.Exp.Format)
			if err != nil {
				f.add("X02.summary.format", "%s: output is not the %s document required: %v", where, c.Exp.Format, err)
			} else {
				x02CmpSummary(&f, "X02.summary", obs, *c.Exp.Summary)
			}
		case "count":
			obs, err := x02DecodeCount(p.Out)
			if err != nil {
				f.add("X02.count.format", "%s: %v", where, err)
			} else {
				x02CmpCount(&f, obs, c.Exp.Count)
			}
		case "matrix":
			obs, err := x02DecodeTable(p.Out)
			if err != nil {
				f.add("X02.matrix.format", "%s: %v", where, err)
			} else {
				x02CmpMatrix(&f, c.Cmd.Layout, obs, c.Exp.Table)
			}
		case "three":
			obs, err := x02DecodeTable(p.Out)
			if err != nil {
				f.add("X02.three.format", "%s: %v", where, err)
			} else {
				x02CmpThree(&f, obs, c.Exp.Table)
			}
		}
	}
	env.ok(cls)
	for _, x := range f.list {
		d := x.detail
		if !strings.HasPrefix(d, where) {
			d = where + ": " + d
		}
		x02Fail(env, x.assert, cls, d, c)
	}
	if len(f.list) == 0 {
		env.sample(map[string]any{"argv": strings.Join(argv, " "), "input": how, "records": len(c.R), "class": cls, "stdout": x02Clip(p.Out)})
	}
}

func x02Clip(b []byte) string {
	s := string(b)
	if len(s) > 300 {
		s = s[:300] + "..."
	}
	return s
}

func x02LastLine(s string) string {
	l := strings.Split(strings.TrimSpace(s), "\n")
	return l[len(l)-1]
}

func x02FirstNonEmpty(a ...string) string {
	for _, x := range a {
		if x != "" {
			return x
		}
	}
	return ""
}

// every split of R in three consecutive batches x tree shapes x value styles, and ISummary with 1..3 workers
func x02ReplayLibrary(env *Env, c *x02Case) {
	n := len(c.R)
	cls := "lib/" + c.Cls
	for _, style := range []string{"json", "native"} {
		for k1 := 0; k1 <= n; k1++ {
			for k2 := k1; k2 <= n; k2++ {
				for ti, t := range x02Trees3() {
					raw, err := x02MergeRun([][]x02Rec{c.R[:k1], c.R[k1:k2], c.R[k2:]}, style, t)
					var f x02Fails
					if err != nil {
						f.add("X02.summary.lib.merge.crash", "%v", err)
					} else {
						x02CmpRaw(&f, "X02.summary.lib.merge", raw, *c.Exp.Raw)
					}
					env.ok(cls + "/merge")
					for _, x := range f.list {
						x02Fail(env, x.assert, cls, fmt.Sprintf("batches cut at %d,%d, tree #%d, %s values: %s", k1, k2, ti, style, x.detail), c)
					}
					if len(f.list) > 0 {
						return
					}
				}
			}
		}
		for w := 1; w <= 3; w++ {
			obs, err := x02ISummary(c.R, style, 1, w)
			var f x02Fails
			if err != nil {
				f.add("X02.summary.lib.isummary.crash", "%v", err)
			} else {
				x02CmpSummary(&f, "X02.summary.lib.isummary", obs, x02SumOfRaw(c))
			}
			env.ok(cls + "/isummary")
			for _, x := range f.list {
				x02Fail(env, x.assert, cls, fmt.Sprintf("ISummary, %d workers, batches of 1, %s values: %s", w, style, x.detail), c)
			}
		}
	}
}

// the printed form required for the same records is exported by the model with the case (exp.summary)
func x02SumOfRaw(c *x02Case) x02SumOut { return *c.Exp.Summary }

func x02ReplayIMatrix(env *Env, c *x02Case) {
	want := map[string]map[string]string{}
	for _, m := range c.Exp.Maps {
		want[m.Id] = map[string]string(m.M)
	}
	for _, style := range []string{"json", "native"} {
		for w := 1; w <= 3; w++ {
			rows, err := x02IMatrix(c.R, style, 1, w)
			cls := "lib/" + c.Cls
			env.ok(cls + "/imatrix")
			if err != nil {
				x02Fail(env, "X02.matrix.lib.crash", cls, fmt.Sprintf("IMatrix, %d workers, %s values: %v", w, style, err), c)
				continue
			}
			got := map[string]map[string]string{}
			for _, r := range rows {
				got[r["name"].(string)] = r["m"].(map[string]string)
			}
			if !reflect.DeepEqual(got, want) {
				x02Fail(env, "X02.matrix.lib.cells", cls, fmt.Sprintf("IMatrix, %d workers, %s values: got %v, required %v", w, style, got, want), c)
			}
		}
	}
}

// ------------------------------------------------------------------------------ record (T)

type x02Gen struct {
	rng    *rand.Rand
	serial int
}

var x02SampleNames = []string{"A", "B", "a1", "Zn", "b", "site_07", "10", "X.y", "k-9", "S,c", "Ab", "aB"}

type x02Profile struct {
	mode     string // derep | reads | mixed | bare
	samples  []string
	status   string // all | some | none
	long     bool
	big      bool // abundances >= 10^6
	emptyMap bool
	noMap    bool
	dup      bool
	extras   bool
}

func (g *x02Gen) pickSamples(n int) []string {
	p := g.rng.Perm(len(x02SampleNames))
	s := []string{}
	for _, i := range p[:n] {
		s = append(s, x02SampleNames[i])
	}
	return s
}

func (g *x02Gen) id() string {
	g.serial++
	pre := []string{"r", "R", "seq_", "M01:"}[g.rng.Intn(4)]
	return fmt.Sprintf("%s%05d", pre, g.serial*7%100000)
}

func (g *x02Gen) abundance(p x02Profile) int {
	switch x := g.rng.Intn(20); {
	case x < 8:
		return 1
	case x < 14:
		return 2 + g.rng.Intn(4)
	case x < 19 || !p.big || g.rng.Intn(2) == 0:
		return 6 + g.rng.Intn(500)
	}
	return 1000000 + g.rng.Intn(1000000) // TLC integers are 32-bit: totals must stay far below 2^31
}

var x02Extra = []struct {
	key   string
	kinds []string
}{{"definition", []string{"str"}}, {"score", []string{"float"}}, {"ok", []string{"bool"}}, {"taxid", []string{"int"}},
	{"path", []string{"vec"}}, {"tags", []string{"vec", "str"}}, {"lens", []string{"imap", "int"}}, {"who", []string{"smap", "str", "vec"}}}

func (g *x02Gen) rec(p x02Profile) x02Rec {
	r := x02Rec{Id: g.id(), A: x02Attrs{}}
	if p.long {
		r.Len = 300 + g.rng.Intn(500)
	} else {
		r.Len = 1 + g.rng.Intn(90)
	}
	mode := p.mode
	if mode == "mixed" {
		mode = []string{"derep", "reads", "bare", "derep"}[g.rng.Intn(4)]
	}
	switch mode {
	case "derep":
		k := 1 + g.rng.Intn(min(4, len(p.samples)))
		perm := g.rng.Perm(len(p.samples))
		ms, st, tot := x02IntMap{}, x02StrMap{}, 0
		for _, i := range perm[:k] {
			a := g.abundance(p)
			ms[p.samples[i]] = a
			tot += a
			if g.rng.Intn(40) > 0 {
				st[p.samples[i]] = []string{"h", "i", "s", "i"}[g.rng.Intn(4)]
			}
		}
		if p.emptyMap && g.rng.Intn(6) == 0 {
			ms, st, tot = x02IntMap{}, x02StrMap{}, 1
		}
		r.A["merged_sample"] = x02Val{T: "imap", Im: ms}
		switch g.rng.Intn(6) {
		case 0: // no count annotation
		case 1:
			r.A["count"] = x02Val{T: "int", I: 1 + g.rng.Intn(9)}
		default:
			r.A["count"] = x02Val{T: "int", I: tot}
		}
		if p.status == "all" || (p.status == "some" && g.rng.Intn(3) > 0) {
			r.A["obiclean_status"] = x02Val{T: "smap", Sm: st}
		}
		if g.rng.Intn(2) == 0 {
			w := x02IntMap{}
			for s, a := range ms {
				w[s] = a + g.rng.Intn(3)
			}
			r.A["obiclean_weight"] = x02Val{T: "imap", Im: w}
		}
		if g.rng.Intn(10) == 0 {
			r.A["sample"] = x02Val{T: "str", S: p.samples[g.rng.Intn(len(p.samples))]}
		}
	case "reads":
		r.A["sample"] = x02Val{T: "str", S: p.samples[g.rng.Intn(len(p.samples))]}
		if g.rng.Intn(3) == 0 {
			r.A["count"] = x02Val{T: "int", I: 1 + g.rng.Intn(5)}
		}
	}
	if p.extras && mode != "bare" {
		for _, e := range x02Extra {
			if g.rng.Intn(4) == 0 {
				t := e.kinds[g.rng.Intn(len(e.kinds))]
				v := x02Val{T: t}
				switch t {
				case "int":
					v.I = g.rng.Intn(1000)
				case "str":
					v.S = []string{"x", "some text", "A"}[g.rng.Intn(3)]
				case "imap":
					v.Im = x02IntMap{"u": 1 + g.rng.Intn(5)}
				case "smap":
					v.Sm = x02StrMap{"u": "v"}
				}
				r.A[e.key] = v
			}
		}
	}
	return r
}

func (g *x02Gen) recs(n int, p x02Profile) []x02Rec {
	rs := make([]x02Rec, 0, n)
	for i := 0; i < n; i++ {
		rs = append(rs, g.rec(p))
	}
	if p.noMap && n > 0 {
		i := g.rng.Intn(n)
		delete(rs[i].A, "merged_sample")
		delete(rs[i].A, "obiclean_status")
		delete(rs[i].A, "obiclean_weight")
	}
	if p.dup && n >= 2 {
		i, j := g.rng.Intn(n), g.rng.Intn(n)
		if i != j {
			rs[j].Id = rs[i].Id
		}
	}
	return rs
}

func (g *x02Gen) profile(matrix bool) x02Profile {
	p := x02Profile{samples: g.pickSamples(1 + g.rng.Intn(8)), extras: g.rng.Intn(4) > 0}
	if matrix {
		p.mode, p.status = "derep", "all"
		p.big = g.rng.Intn(10) == 0
		p.emptyMap = g.rng.Intn(8) == 0
		p.noMap = g.rng.Intn(12) == 0
		p.dup = g.rng.Intn(10) == 0
		return p
	}
	p.mode = []string{"derep", "reads", "mixed", "derep", "bare"}[g.rng.Intn(5)]
	p.status = []string{"all", "all", "some", "none"}[g.rng.Intn(4)]
	p.big = g.rng.Intn(6) == 0
	p.emptyMap = g.rng.Intn(5) == 0
	return p
}

func (g *x02Gen) size(max int) int {
	switch g.rng.Intn(8) {
	case 0:
		return g.rng.Intn(3)
	case 1, 2:
		return 3 + g.rng.Intn(20)
	}
	return 20 + g.rng.Intn(max-19)
}

func (g *x02Gen) randTree(leaves []int) *x02Tree {
	if len(leaves) == 1 {
		return x02Leaf(leaves[0])
	}
	k := 1 + g.rng.Intn(len(leaves)-1)
	return &x02Tree{L: g.randTree(leaves[:k]), R: g.randTree(leaves[k:])}
}

func x02B(b bool) int {
	if b {
		return 1
	}
	return 0
}

// x02Record: --n scales the number of events; kinds are interleaved so that a small n still has all of them.
func x02Record(env *Env) {
	bindir := env.opt("bindir", "")
	dir := x02Scratch("x02record")
	defer os.RemoveAll(dir)
	only := env.opt("only", "")
	maxN := env.optInt("maxrecs", 1500)
	type job func(g *x02Gen, i int) map[string]any
	kinds := []struct {
		name   string
		weight int
		f      job
	}{
		{"summary", 4, func(g *x02Gen, i int) map[string]any { return x02EvSummary(g, i, bindir, dir, maxN) }},
		{"merge", 8, func(g *x02Gen, i int) map[string]any { return x02EvMerge(g) }},
		{"isummary", 3, func(g *x02Gen, i int) map[string]any { return x02EvISummary(g, maxN) }},
		{"matrix", 5, func(g *x02Gen, i int) map[string]any { return x02EvMatrix(g, i, bindir, dir, false) }},
		{"three", 2, func(g *x02Gen, i int) map[string]any { return x02EvMatrix(g, i, bindir, dir, true) }},
		{"imatrix", 2, func(g *x02Gen, i int) map[string]any { return x02EvIMatrix(g) }},
		{"count", 4, func(g *x02Gen, i int) map[string]any { return x02EvCount(g, i, bindir, dir) }},
	}
	plan := []int{}
	for len(plan) < env.n {
		for k, kd := range kinds {
			for w := 0; w < kd.weight && len(plan) < env.n; w++ {
				if only == "" || only == kd.name {
					plan = append(plan, k)
				}
			}
		}
		if only != "" && len(plan) == 0 {
			break
		}
	}
	events := make([]map[string]any, len(plan))
	index := env.optInt("index", -1) // re-run of one event of a previous recording (same seed, same --n)
	parallel(len(plan), 12, func(i int) {
		if index >= 0 && i != index {
			return
		}
		g := &x02Gen{rng: rand.New(rand.NewSource(env.seed*1000003 + int64(i))), serial: i * 31}
		events[i] = kinds[plan[i]].f(g, i)
		if events[i] != nil {
			events[i]["gen"] = map[string]any{"seed": env.seed, "index": i, "n": env.n, "maxrecs": maxN, "only": only}
		}
	})
	for _, e := range events {
		if e != nil {
			env.emit(e)
		}
	}
}

func x02EvSummary(g *x02Gen, i int, bindir, dir string, maxN int) map[string]any {
	if bindir == "" {
		return nil
	}
	p := g.profile(false)
	n := g.size(maxN)
	if i == 0 || g.rng.Intn(6) == 0 { // a file larger than the 1 MiB read buffer: several reader batches (always for the first event)
		p.long = true
		n = 2200 + g.rng.Intn(800)
	}
	recs := g.recs(n, p)
	c := x02Cmd{C: "summary", Json: g.rng.Intn(4) == 0, Yaml: g.rng.Intn(2) == 0}
	format := "json"
	if c.Yaml && !c.Json {
		format = "yaml"
	}
	v := g.rng.Intn(1 << 20)
	argv := x02Argv(c, v)
	files, stdin, how := x02Inputs(recs, g.rng.Intn(64), dir, "s"+strconv.Itoa(i), g.rng.Intn(2) == 0)
	pr := x02Run(bindir, append(argv, files...), stdin, dir)
	ev := map[string]any{"k": "summary", "argv": strings.Join(argv, " "), "input": how, "nbytes": len(x02Fasta(recs, false)), "recs": recs, "json": x02B(c.Json), "yaml": x02B(c.Yaml),
		"rc": pr.Rc, "hung": x02B(pr.Hung), "decoded": 0, "obs": x02EmptySumOut(), "note": x02FirstNonEmpty(pr.ErrMsg, "")}
	if !pr.Hung && pr.Rc == 0 {
		obs, err := x02DecodeSummary(pr.Out, format)
		if err == nil {
			ev["decoded"], ev["obs"] = 1, obs
		} else {
			ev["note"] = err.Error()
		}
	}
	for _, f := range files {
		os.Remove(f)
	}
	return ev
}

func x02EvMerge(g *x02Gen) map[string]any {
	p := g.profile(false)
	n := g.size(250)
	recs := g.recs(n, p)
	nb := 1 + g.rng.Intn(8)
	cuts := make([]int, nb-1)
	for i := range cuts {
		cuts[i] = g.rng.Intn(n + 1)
	}
	cuts = append(cuts, 0, n)
	for i := range cuts { // insertion sort
		for j := i; j > 0 && cuts[j] < cuts[j-1]; j-- {
			cuts[j], cuts[j-1] = cuts[j-1], cuts[j]
		}
	}
	batches := [][]x02Rec{}
	for i := 0; i+1 < len(cuts); i++ {
		batches = append(batches, append([]x02Rec{}, recs[cuts[i]:cuts[i+1]]...))
	}
	leaves := g.rng.Perm(len(batches))
	for i := range leaves {
		leaves[i]++
	}
	for z := g.rng.Intn(3); z > 0; z-- { // workers that received nothing
		k := g.rng.Intn(len(leaves) + 1)
		leaves = append(leaves[:k], append([]int{0}, leaves[k:]...)...)
	}
	tree := g.randTree(leaves)
	style := []string{"json", "native"}[g.rng.Intn(2)]
	raw, err := x02MergeRun(batches, style, tree)
	ev := map[string]any{"k": "merge", "batches": batches, "tree": tree, "style": style, "crash": 0, "obs": raw, "note": ""}
	if err != nil {
		ev["crash"], ev["note"] = 1, err.Error()
		ev["obs"] = x02Raw{Scalar: x02IntMap{}, Map: x02IntMap{}, Vector: x02IntMap{}, Sreads: x02IntMap{}, Svar: x02IntMap{}, Ssingle: x02IntMap{}, Sbad: x02IntMap{}}
	}
	return ev
}

func x02EvISummary(g *x02Gen, maxN int) map[string]any {
	p := g.profile(false)
	recs := g.recs(g.size(maxN), p)
	bs, w := 1+g.rng.Intn(40), 1+g.rng.Intn(6)
	style := []string{"json", "native"}[g.rng.Intn(2)]
	obs, err := x02ISummary(recs, style, bs, w)
	ev := map[string]any{"k": "isummary", "recs": recs, "workers": w, "bsize": bs, "style": style, "crash": 0, "obs": obs, "note": ""}
	if err != nil {
		ev["crash"], ev["note"], ev["obs"] = 1, err.Error(), x02EmptySumOut()
	}
	return ev
}

func x02EvMatrix(g *x02Gen, i int, bindir, dir string, three bool) map[string]any {
	if bindir == "" {
		return nil
	}
	p := g.profile(true)
	recs := g.recs(g.size(300), p)
	c := x02Cmd{C: "matrix", Key: []string{"merged_sample", "merged_sample", "obiclean_status", "obiclean_weight"}[g.rng.Intn(4)],
		Layout: []string{"bysample", "byrecord"}[g.rng.Intn(2)], Na: []string{"0", "0", "NA", "", "x"}[g.rng.Intn(5)]}
	if c.Key == "obiclean_weight" { // not on every record: give it to all of them
		for k := range recs {
			if _, ok := recs[k].A["merged_sample"]; ok {
				recs[k].A["obiclean_weight"] = x02Val{T: "imap", Im: recs[k].A["merged_sample"].Im}
			}
		}
	}
	if three {
		c.C = "three"
		c.Sname, c.Vname = []string{"sample", "site", "PCR"}[g.rng.Intn(3)], []string{"count", "reads", "n"}[g.rng.Intn(3)]
	}
	argv := x02Argv(c, g.rng.Intn(1<<20))
	files, stdin, how := x02Inputs(recs, g.rng.Intn(64), dir, "m"+strconv.Itoa(i), g.rng.Intn(2) == 0)
	pr := x02Run(bindir, append(argv, files...), stdin, dir)
	ev := map[string]any{"k": c.C, "argv": strings.Join(argv, " "), "input": how, "recs": recs, "key": c.Key, "layout": c.Layout, "na": c.Na,
		"sname": c.Sname, "vname": c.Vname, "rc": pr.Rc, "hung": x02B(pr.Hung), "decoded": 0,
		"tab": x02Table{Header: []string{}, Rows: []x02Row{}}, "note": x02FirstNonEmpty(pr.ErrMsg, "")}
	if !pr.Hung && pr.Rc == 0 {
		t, err := x02DecodeTable(pr.Out)
		if err == nil {
			ev["decoded"], ev["tab"] = 1, t
		} else {
			ev["note"] = err.Error()
		}
	}
	for _, f := range files {
		os.Remove(f)
	}
	return ev
}

func x02EvIMatrix(g *x02Gen) map[string]any {
	p := g.profile(true)
	p.dup, p.noMap = false, false // the library panics in its own goroutines on those: command level only
	recs := g.recs(g.size(300), p)
	bs, w := 1+g.rng.Intn(30), 1+g.rng.Intn(6)
	style := []string{"json", "native"}[g.rng.Intn(2)]
	rows, err := x02IMatrix(recs, style, bs, w)
	ev := map[string]any{"k": "imatrix", "recs": recs, "key": "merged_sample", "workers": w, "bsize": bs, "style": style, "crash": 0, "rows": rows, "note": ""}
	if err != nil {
		ev["crash"], ev["note"], ev["rows"] = 1, err.Error(), []map[string]any{}
	}
	return ev
}

func x02EvCount(g *x02Gen, i int, bindir, dir string) map[string]any {
	if bindir == "" {
		return nil
	}
	p := g.profile(false)
	recs := g.recs(g.size(1200), p)
	flags := []string{}
	for _, f := range []string{"variants", "reads", "symbols"} {
		if g.rng.Intn(2) == 0 {
			flags = append(flags, f)
		}
	}
	argv := x02Argv(x02Cmd{C: "count", Opt: flags}, g.rng.Intn(1<<20))
	files, stdin, how := x02Inputs(recs, g.rng.Intn(64), dir, "n"+strconv.Itoa(i), g.rng.Intn(2) == 0)
	pr := x02Run(bindir, append(argv, files...), stdin, dir)
	ev := map[string]any{"k": "count", "argv": strings.Join(argv, " "), "input": how, "recs": recs, "flags": flags, "rc": pr.Rc, "hung": x02B(pr.Hung),
		"decoded": 0, "obs": x02CountOut{Header: []string{}, Lines: []x02Line{}}, "note": x02FirstNonEmpty(pr.ErrMsg, "")}
	if !pr.Hung && pr.Rc == 0 {
		o, err := x02DecodeCount(pr.Out)
		if err == nil {
			ev["decoded"], ev["obs"] = 1, o
		} else {
			ev["note"] = err.Error()
		}
	}
	for _, f := range files {
		os.Remove(f)
	}
	return ev
}

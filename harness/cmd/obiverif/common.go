package main

import (
	"bufio"
	"encoding/json"
	"fmt"
	"io"
	"math/rand"
	"os"
	"runtime"
	"strconv"
	"strings"
	"sync"
	"syscall"
	"sync/atomic"
	"time"

	"github.com/sirupsen/logrus"
)

// ---------------------------------------------------------------------------------- Env

type Env struct {
	id        string
	cases     string
	out       string
	n         int
	seed      int64
	opts      map[string]string
	rng       *rand.Rand
	mu        sync.Mutex
	w         *bufio.Writer
	f         *os.File
	checked   int64
	failed    int64
	classes   map[string]int
	samples   int
	skipped   int64
	noSummary bool
}

func newEnv(id string, args []string) *Env {
	e := &Env{id: id, opts: map[string]string{}, classes: map[string]int{}, n: 100}
	for i := 0; i < len(args); i++ {
		switch args[i] {
		case "--cases":
			i++
			e.cases = args[i]
		case "--out":
			i++
			e.out = args[i]
		case "--n":
			i++
			e.n, _ = strconv.Atoi(args[i])
		case "--opt":
			i++
			kv := strings.SplitN(args[i], "=", 2)
			if len(kv) == 2 {
				e.opts[kv[0]] = kv[1]
			} else {
				e.opts[kv[0]] = "1"
			}
		default:
			fmt.Fprintln(os.Stderr, "unknown flag", args[i])
			os.Exit(2)
		}
	}
	e.seed = 1
	if s := os.Getenv("VERIF_SEED"); s != "" {
		if v, err := strconv.ParseInt(s, 10, 64); err == nil {
			e.seed = v
		}
	}
	e.rng = rand.New(rand.NewSource(e.seed))
	if e.out == "" {
		fmt.Fprintln(os.Stderr, "--out is required")
		os.Exit(2)
	}
	f, err := os.Create(e.out)
	if err != nil {
		fmt.Fprintln(os.Stderr, err)
		os.Exit(2)
	}
	e.f = f
	e.w = bufio.NewWriterSize(f, 1<<20)
	return e
}

func (e *Env) opt(k, def string) string {
	if v, ok := e.opts[k]; ok {
		return v
	}
	return def
}

func (e *Env) optInt(k string, def int) int {
	if v, ok := e.opts[k]; ok {
		if i, err := strconv.Atoi(v); err == nil {
			return i
		}
	}
	return def
}

// emit writes one raw JSON line to the output file (thread-safe).
func (e *Env) emit(v any) {
	b, err := json.Marshal(v)
	if err != nil {
		fmt.Fprintln(os.Stderr, "marshal:", err)
		os.Exit(2)
	}
	e.mu.Lock()
	e.w.Write(b)
	e.w.WriteByte('\n')
	e.mu.Unlock()
}

// fail records a disagreement between the real code and the specification's expected value.
func (e *Env) fail(assert, class, detail string, c any) {
	atomic.AddInt64(&e.failed, 1)
	e.emit(map[string]any{"assert": assert, "class": class, "detail": detail, "case": c})
}

// tooManyFailures: once more than a hundred cases have failed the verdict is known; the remaining cases are
// skipped (hanging cases cost their whole patience each).  The summary line says so.
func (e *Env) tooManyFailures() bool {
	if atomic.LoadInt64(&e.failed) > 120 {
		atomic.StoreInt64(&e.skipped, 1)
		return true
	}
	return false
}

// ok counts one comparison that was really made, under a coverage class.
func (e *Env) ok(class string) {
	atomic.AddInt64(&e.checked, 1)
	e.mu.Lock()
	e.classes[class]++
	e.mu.Unlock()
}

func (e *Env) sample(v any) {
	e.mu.Lock()
	s := e.samples
	e.samples++
	e.mu.Unlock()
	if s < 4 {
		e.emit(map[string]any{"sample": v})
	}
}

func (e *Env) close() {
	if !e.noSummary {
		e.emit(map[string]any{"summary": true, "checked": e.checked, "failed": e.failed, "classes": e.classes, "aborted_after_failures": e.skipped})
	}
	e.w.Flush()
	e.f.Close()
}

// loadCases reads TLC-exported cases (each line is a JSON string holding a JSON object, or a plain object).
func loadCases[T any](path string) []T {
	f, err := os.Open(path)
	if err != nil {
		fmt.Fprintln(os.Stderr, err)
		os.Exit(2)
	}
	defer f.Close()
	var out []T
	r := bufio.NewReaderSize(f, 1<<20)
	for {
		line, err := r.ReadBytes('\n')
		if len(strings.TrimSpace(string(line))) > 0 {
			var raw json.RawMessage = line
			var s string
			if json.Unmarshal(line, &s) == nil {
				raw = json.RawMessage(s)
			}
			var c T
			if err := json.Unmarshal(raw, &c); err != nil {
				fmt.Fprintln(os.Stderr, "bad case line:", err, string(line))
				os.Exit(2)
			}
			out = append(out, c)
		}
		if err != nil {
			break
		}
	}
	return out
}

// parallel runs f(i) for i in 0..n-1 on w goroutines.
func parallel(n, w int, f func(i int)) {
	if w <= 0 {
		w = runtime.NumCPU()
	}
	var wg sync.WaitGroup
	var next int64 = -1
	for k := 0; k < w; k++ {
		wg.Add(1)
		go func() {
			defer wg.Done()
			for {
				i := int(atomic.AddInt64(&next, 1))
				if i >= n {
					return
				}
				f(i)
			}
		}()
	}
	wg.Wait()
}

// ------------------------------------------------------------------------- fatal capture

// log.Fatalf inside library goroutines: record (code, message) and end only that goroutine.
type fatalRec struct {
	mu   sync.Mutex
	msgs []string
	n    int64
}

var fatals fatalRec

type fatalHook struct{}

func (fatalHook) Levels() []logrus.Level { return []logrus.Level{logrus.FatalLevel, logrus.PanicLevel} }
func (fatalHook) Fire(e *logrus.Entry) error {
	fatals.mu.Lock()
	fatals.msgs = append(fatals.msgs, e.Message)
	fatals.mu.Unlock()
	return nil
}

func installFatalCapture() {
	l := logrus.StandardLogger()
	l.SetOutput(io.Discard)
	l.AddHook(fatalHook{})
	l.ExitFunc = func(code int) {
		atomic.AddInt64(&fatals.n, 1)
		runtime.Goexit()
	}
}

func fatalCount() int64 { return atomic.LoadInt64(&fatals.n) }
func fatalMessages() []string {
	fatals.mu.Lock()
	defer fatals.mu.Unlock()
	return append([]string(nil), fatals.msgs...)
}

// waitTimeout waits for ch to be closed; false on timeout.
func waitTimeout(ch <-chan struct{}, d time.Duration) bool {
	select {
	case <-ch:
		return true
	case <-time.After(d):
		return false
	}
}

// -------------------------------------------------------------------------- recording sink

// sink is the io.WriteCloser handed to the real writers: records bytes, write calls and closes,
// and can fail after a byte budget (used by C18).
type sink struct {
	mu          sync.Mutex
	buf         []byte
	writes      int
	closes      int
	writeAfter  bool // a Write arrived after Close
	closedCh    chan struct{}
	failAfter   int  // -1: never; otherwise accept this many bytes then fail every Write
	failClose   bool // Close returns an error
	failedWrite int
	transientAt int // > 0: the Write call of that rank takes nothing and fails once with EAGAIN; the others succeed
}

func newSink() *sink { return &sink{closedCh: make(chan struct{}), failAfter: -1} }

var errSink = fmt.Errorf("obiverif: injected sink failure (no space left on device)")

func (s *sink) Write(p []byte) (int, error) {
	s.mu.Lock()
	defer s.mu.Unlock()
	if s.closes > 0 {
		s.writeAfter = true
	}
	s.writes++
	if s.transientAt > 0 && s.writes == s.transientAt {
		s.failedWrite++
		return 0, syscall.EAGAIN
	}
	if s.failAfter >= 0 {
		room := s.failAfter - len(s.buf)
		if room < len(p) {
			if room > 0 {
				s.buf = append(s.buf, p[:room]...)
			} else {
				room = 0
			}
			s.failedWrite++
			return room, errSink
		}
	}
	s.buf = append(s.buf, p...)
	return len(p), nil
}

func (s *sink) Close() error {
	s.mu.Lock()
	defer s.mu.Unlock()
	s.closes++
	if s.closes == 1 {
		close(s.closedCh)
	}
	if s.failClose {
		return errSink
	}
	return nil
}

func (s *sink) bytes() []byte {
	s.mu.Lock()
	defer s.mu.Unlock()
	return append([]byte(nil), s.buf...)
}

package main

// C13: the obiclean graph.
// replay: every data set exported by TLC from Clean.tla is built by the real BuildSeqGraph (through the
// verif hook VerifBuildGraph) with several worker counts and input orders; edges, son counts, weights and
// statuses are compared with the model.  `--opt race=1`: star-shaped data sets (one father, many sons)
// built many times with many workers: the son counter of the father must always be the number of sons.
// record: random mutation families (longer sequences, four letters); the graph is logged for CleanTrace.tla.

import (
	"fmt"
	"os"
	"sort"
	"strings"
	"sync"
	"sync/atomic"
	"time"

	"git.metabarcoding.org/obitools/obitools4/obitools4/pkg/obiseq"
	"git.metabarcoding.org/obitools/obitools4/obitools4/pkg/obitools/obiclean"
)

func init() {
	register("C13", &driver{replay: replayC13, record: recordC13})
}

type cleanCase struct {
	Seqs     []string `json:"seqs"`
	Counts   []int    `json:"counts"`
	Ratio    []int    `json:"ratio"`
	Weight   []int    `json:"weight"`
	Soncount []int    `json:"soncount"`
	Status   []string `json:"status"`
	Fathers  [][]int  `json:"fathers"`
}

type cleanNode struct {
	Seq      string     `json:"seq"`
	Count    int        `json:"count"`
	Weight   int        `json:"weight"`
	Soncount int        `json:"soncount"`
	Status   string     `json:"status"`
	Fathers  []string   `json:"fathers"`
	Muts     []cleanMut `json:"muts"`
}

type cleanMut struct {
	Father string `json:"father"`
	From   string `json:"from"`
	To     string `json:"to"`
	Pos    int    `json:"pos"`
}

func buildGraph(seqs []string, counts []int, order []int, dist int, ratio float64, workers int) map[string]cleanNode {
	sl := obiseq.MakeBioSequenceSlice()
	cs := make([]int, 0, len(seqs))
	for _, i := range order {
		s := obiseq.NewBioSequence(seqs[i], []byte(seqs[i]), "")
		sl = append(sl, s)
		cs = append(cs, counts[i])
	}
	nodes := obiclean.VerifBuildGraph(sl, cs, dist, ratio, workers)
	out := map[string]cleanNode{}
	for _, n := range nodes {
		c := cleanNode{Seq: n.Id, Count: n.Count, Weight: n.Weight, Soncount: n.SonCount, Status: n.Status, Fathers: []string{}, Muts: []cleanMut{}}
		for _, e := range n.Edges {
			c.Fathers = append(c.Fathers, e.Father)
			c.Muts = append(c.Muts, cleanMut{Father: e.Father, From: string(e.From), To: string(e.To), Pos: e.Pos})
		}
		sort.Strings(c.Fathers)
		out[n.Id] = c
	}
	return out
}

func quietStderr() {
	if f, err := os.OpenFile(os.DevNull, os.O_WRONLY, 0); err == nil {
		os.Stderr = f // progress bars of BuildSeqGraph
	}
}

func replayC13(env *Env) {
	quietStderr()
	if env.opt("race", "0") == "1" {
		raceC13(env)
		return
	}
	cases := loadCases[cleanCase](env.cases)
	var cleanMu sync.Mutex // progress bars write to stderr; BuildSeqGraph itself is re-entrant
	_ = cleanMu
	parallel(len(cases), 0, func(i int) {
		c := cases[i]
		n := len(c.Seqs)
		ratio := float64(c.Ratio[0]) / float64(c.Ratio[1])
		fwd := ident(n)
		rev := make([]int, n)
		for k := range rev {
			rev[k] = n - 1 - k
		}
		for _, cfg := range []struct {
			w     int
			order []int
		}{{1, fwd}, {2, rev}, {8, fwd}} {
			g := buildGraph(c.Seqs, c.Counts, cfg.order, 1, ratio, cfg.w)
			cl := fmt.Sprintf("w%d", cfg.w)
			for k, s := range c.Seqs {
				node, ok := g[s]
				if !ok {
					env.fail("C13.graph.node_missing", cl, "sequence "+s+" absent from the graph", c)
					continue
				}
				want := []string{}
				for j, f := range c.Fathers[k] {
					if f == 1 {
						want = append(want, c.Seqs[j])
					}
				}
				sort.Strings(want)
				if strings.Join(want, ",") != strings.Join(node.Fathers, ",") {
					env.fail("C13.graph.edges", cl, fmt.Sprintf("%s (count %d) is linked to %v, specification: %v", s, c.Counts[k], node.Fathers, want), c)
				}
				if node.Soncount != c.Soncount[k] {
					env.fail("C13.graph.soncount", cl, fmt.Sprintf("%s has son count %d, specification %d", s, node.Soncount, c.Soncount[k]), c)
				}
				if node.Weight != c.Weight[k] {
					env.fail("C13.graph.weight", cl, fmt.Sprintf("%s has weight %d, specification %d", s, node.Weight, c.Weight[k]), c)
				}
				if node.Status != c.Status[k] {
					env.fail("C13.graph.status", cl, fmt.Sprintf("%s has status %s, specification %s", s, node.Status, c.Status[k]), c)
				}
			}
			env.ok(cl)
		}
		if i%3000 == 5 {
			env.sample(c)
		}
	})
}

// raceC13: one father, many sons, many workers, many rounds.
func raceC13(env *Env) {
	rounds := env.n
	father := strings.Repeat("acgt", 6)
	seqs := []string{father}
	counts := []int{100000}
	for p := 0; p < len(father) && len(seqs) < 65; p++ {
		for _, x := range "acgt" {
			if byte(x) != father[p] && len(seqs) < 65 {
				b := []byte(father)
				b[p] = byte(x)
				seqs = append(seqs, string(b))
				counts = append(counts, 1)
			}
		}
	}
	nsons := len(seqs) - 1
	workers := env.optInt("workers", 16)
	useGate := env.opt("gate", "1") == "1"
	var arrived int64
	if useGate {
		// soft barrier: workers about to increment wait (bounded) for the others so that the
		// increments of the shared counter collide
		obiclean.VerifSonCountGate = func() {
			n := atomic.AddInt64(&arrived, 1)
			target := ((n-1)/int64(workers) + 1) * int64(workers)
			deadline := time.Now().Add(200 * time.Microsecond)
			for atomic.LoadInt64(&arrived) < target && time.Now().Before(deadline) {
			}
		}
	}
	bad := 0
	for r := 0; r < rounds; r++ {
		atomic.StoreInt64(&arrived, 0)
		g := buildGraph(seqs, counts, ident(len(seqs)), 1, 1.0, workers)
		f := g[father]
		ref := 100000 + nsons
		if f.Soncount != nsons || f.Weight != ref || f.Status != "h" {
			bad++
			if bad <= 3 {
				env.fail("C13.race.soncount", fmt.Sprintf("star/w%d", workers),
					fmt.Sprintf("round %d: father of %d sons has son count %d, weight %d (1-worker result: %d, %d), status %s",
						r, nsons, f.Soncount, f.Weight, nsons, ref, f.Status), map[string]any{"round": r, "workers": workers, "nsons": nsons})
			}
		}
		env.ok("race-round")
	}
	obiclean.VerifSonCountGate = nil
	env.emit(map[string]any{"note": fmt.Sprintf("race rounds=%d bad=%d workers=%d gate=%v", rounds, bad, workers, useGate)})
}

// record: random mutation families, real alphabet, longer sequences
func recordC13(env *Env) {
	quietStderr()
	type ev struct {
		Seqs   [][]string  `json:"seqs"`
		Counts []int       `json:"counts"`
		Ratio  []int       `json:"ratio"`
		W      int         `json:"w"`
		Nodes  []cleanNode `json:"nodes"`
	}
	evs := make([]ev, env.n)
	type job struct {
		seqs   []string
		counts []int
	}
	jobs := make([]job, env.n)
	for i := range jobs {
		nroots := 1 + env.rng.Intn(3)
		seen := map[string]bool{}
		var seqs []string
		var counts []int
		add := func(s string, c int) {
			if !seen[s] && len(s) > 0 {
				seen[s] = true
				seqs = append(seqs, s)
				counts = append(counts, c)
			}
		}
		for r := 0; r < nroots; r++ {
			root := randSeqN(env, 8+env.rng.Intn(8))
			add(root, 20+env.rng.Intn(200))
			level := []string{root}
			for depth := 0; depth < 3; depth++ {
				var next []string
				for _, p := range level {
					for k := 0; k < 1+env.rng.Intn(3); k++ {
						m := mutate1(env, p)
						add(m, 1+env.rng.Intn(30>>uint(depth)+1))
						next = append(next, m)
					}
				}
				level = next
			}
		}
		if len(seqs) > 22 {
			seqs, counts = seqs[:22], counts[:22]
		}
		jobs[i] = job{seqs, counts}
	}
	// half shares: a son of odd weight w under two fathers tied in abundance (count c) gives each of them exactly
	// w/2 + 1/2 (Clean!RoundDiv: half away from zero), for every c - the products w*c and the sum 2c are exact
	sub := func(s string, p int, b byte) string { return s[:p] + string(b) + s[p+1:] }
	for _, w := range []int{1, 3, 5, 7} {
		for c := 8; c <= 200; c++ {
			root := randSeqN(env, 9+env.rng.Intn(6))
			p := env.rng.Intn(len(root))
			others := strings.Replace("acgt", string(root[p]), "", 1)
			jobs = append(jobs, job{[]string{root, sub(root, p, others[0]), sub(root, p, others[1])}, []int{c, c, w}})
		}
	}
	evs = make([]ev, len(jobs))
	parallel(len(jobs), 0, func(i int) {
		j := jobs[i]
		ratio := []int{1, 1}
		if i%2 == 1 {
			ratio = []int{1, 2}
		}
		w := []int{1, 2, 4, 16}[i%4]
		g := buildGraph(j.seqs, j.counts, ident(len(j.seqs)), 1, float64(ratio[0])/float64(ratio[1]), w)
		e := ev{Counts: j.counts, Ratio: ratio, W: w}
		for _, s := range j.seqs {
			e.Seqs = append(e.Seqs, strings.Split(s, ""))
			e.Nodes = append(e.Nodes, g[s])
		}
		evs[i] = e
	})
	for _, e := range evs {
		env.emit(e)
	}
}

func randSeqN(env *Env, n int) string {
	b := make([]byte, n)
	for i := range b {
		b[i] = "acgt"[env.rng.Intn(4)]
	}
	return string(b)
}

func mutate1(env *Env, s string) string {
	b := []byte(s)
	p := env.rng.Intn(len(b))
	switch env.rng.Intn(3) {
	case 0:
		x := "acgt"[env.rng.Intn(4)]
		for x == b[p] {
			x = "acgt"[env.rng.Intn(4)]
		}
		b[p] = x
		return string(b)
	case 1:
		if len(b) > 4 {
			return string(append(b[:p:p], b[p+1:]...))
		}
		fallthrough
	default:
		x := "acgt"[env.rng.Intn(4)]
		out := append([]byte{}, b[:p]...)
		out = append(out, x)
		out = append(out, b[p:]...)
		return string(out)
	}
}

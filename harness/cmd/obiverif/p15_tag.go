package main

// C15: the reference search of obitag (FindClosests), the per-reference index of obirefidx
// (IndexSequence) and the resulting assignment (Identify) are lossless: the 4-mer prefilters never
// change the answer.
//
// The oracle is spec/L3_command/Tag.tla; nothing here computes an expected value.
//
// replay: every case exported by TLC from TagModel.tla (query, references, taxa, taxonomy; the set
// of references at minimal LCS distance and that distance, the number of shared 4-mers, for every
// reference the LCA of the taxa of all references within each distance, the assigned taxon and the
// set of taxa that are ancestor-or-self of every best reference) is run through the real
// obikmer.Count4Mer/Common4Mer, obitag.FindClosests, obitag2.FindClosests, obirefidx.IndexSequence and
// obitag.Identify, with the references in the exported order and in reverse order (the candidate
// sort is not stable: ties come out differently).  Answers are compared as sets.
//
// record: seeded random reference databases (clusters of near-duplicates, exact duplicates,
// truncated and extended members, unequal lengths) with random taxonomies, and queries of several
// families, among them the counter-example family of the model (a tied best reference that shares
// few 4-mers, next to a longer one that shares all of them) instantiated on long sequences.
// Every call and its answer is logged for spec/trace/TagTrace.tla.

import (
	"bytes"
	"encoding/json"
	"fmt"
	"math"
	"math/rand"
	"os"
	"os/exec"
	"path/filepath"
	"sort"
	"strconv"
	"strings"
	"sync"
	"sync/atomic"
	"time"

	"git.metabarcoding.org/obitools/obitools4/obitools4/pkg/obiiter"
	"git.metabarcoding.org/obitools/obitools4/obitools4/pkg/obikmer"
	"git.metabarcoding.org/obitools/obitools4/obitools4/pkg/obiseq"
	"git.metabarcoding.org/obitools/obitools4/obitools4/pkg/obitax"
	"git.metabarcoding.org/obitools/obitools4/obitools4/pkg/obitools/obirefidx"
	"git.metabarcoding.org/obitools/obitools4/obitools4/pkg/obitools/obitag"
	"git.metabarcoding.org/obitools/obitools4/obitools4/pkg/obitools/obitag2"
)

func init() {
	register("C15", &driver{replay: c15Replay, record: c15Record})
}

// --------------------------------------------------------------------------------- real-code calls

func c15Join(sym []string) []byte { return []byte(strings.Join(sym, "")) }

func c15Split(b []byte) []string {
	out := make([]string, len(b))
	for i, c := range b {
		out[i] = string(c)
	}
	return out
}

// c15Guard runs f; a panic of the real code (log.Panicln included) comes back as text.
func c15Guard(f func()) (problem string) {
	defer func() {
		if r := recover(); r != nil {
			problem = fmt.Sprintf("panic: %v", r)
		}
	}()
	f()
	return ""
}

// c15DB is a reference database loaded into the real data structures.
type c15DB struct {
	refs   obiseq.BioSequenceSlice
	counts []*obikmer.Table4mer
	taxa   obitax.TaxonSet
	taxo   *obitax.Taxonomy
	perm   []int // refs[i] is the reference number perm[i] of the scenario
}

// c15Taxonomy loads a parent vector (taxids 1..n, parent[i-1] = parent of i, the root is its own parent).
func c15Taxonomy(parent []int) (*obitax.Taxonomy, error) {
	t := obitax.NewTaxonomy()
	sn := "scientific name"
	for i, p := range parent {
		if _, err := t.AddNewTaxa(i+1, p, "rk"+strconv.Itoa(i+1), false, true); err != nil {
			return nil, err
		}
	}
	for i := range parent {
		name := "tx" + strconv.Itoa(i+1)
		if err := t.AddNewName(i+1, &name, &sn); err != nil {
			return nil, err
		}
	}
	if err := t.ReindexParent(); err != nil {
		return nil, err
	}
	return t, nil
}

// c15Load builds fresh reference objects (no index annotation) in the order perm.
func c15Load(refs [][]byte, taxa []int, parent []int, perm []int) (*c15DB, error) {
	db := &c15DB{perm: perm}
	if parent != nil {
		t, err := c15Taxonomy(parent)
		if err != nil {
			return nil, err
		}
		db.taxo = t
		db.taxa = make(obitax.TaxonSet, len(refs))
	}
	var buffer []byte
	for i, p := range perm {
		s := obiseq.NewBioSequence("r"+strconv.Itoa(p+1), append([]byte(nil), refs[p]...), "")
		if parent != nil {
			s.SetTaxid(taxa[p])
			tx, err := db.taxo.Taxon(taxa[p])
			if err != nil {
				return nil, err
			}
			db.taxa[i] = tx
		}
		db.refs = append(db.refs, s)
		var tab *obikmer.Table4mer
		if problem := c15Guard(func() { tab = obikmer.Count4Mer(s, &buffer, nil) }); problem != "" {
			return nil, fmt.Errorf("Count4Mer(%s): %s", refs[p], problem)
		}
		db.counts = append(db.counts, tab)
	}
	return db, nil
}

func c15Identity(n int) []int {
	p := make([]int, n)
	for i := range p {
		p[i] = i
	}
	return p
}

func c15Reversed(n int) []int {
	p := make([]int, n)
	for i := range p {
		p[i] = n - 1 - i
	}
	return p
}

// c15Answer is what FindClosests returned, references named by their scenario numbers (0-based, sorted).
type c15Answer struct {
	maxe    int
	idppm   int // returned best identity, in millionths (rounded)
	best    []int
	problem string // panic text or inconsistency between the returned slices
}

func c15Closest(fn string, q []byte, db *c15DB) c15Answer {
	var a c15Answer
	seq := obiseq.NewBioSequence("query", append([]byte(nil), q...), "")
	var bests obiseq.BioSequenceSlice
	var idxs []int
	var id float64
	a.problem = c15Guard(func() {
		if fn == "obitag2" {
			bests, a.maxe, id, _, idxs = obitag2.FindClosests(seq, db.refs, db.counts, false)
		} else {
			bests, a.maxe, id, _, idxs = obitag.FindClosests(seq, db.refs, db.counts, false)
		}
	})
	a.idppm = int(math.Round(id * 1e6))
	if a.problem != "" {
		return a
	}
	if len(bests) != len(idxs) {
		a.problem = fmt.Sprintf("bests has %d members, bestidxs %d", len(bests), len(idxs))
		return a
	}
	seen := map[int]bool{}
	for i, ix := range idxs {
		if ix < 0 || ix >= len(db.refs) || bests[i] != db.refs[ix] {
			a.problem = fmt.Sprintf("bests[%d] is not references[bestidxs[%d]=%d]", i, i, ix)
			return a
		}
		if seen[ix] {
			a.problem = fmt.Sprintf("reference %d returned twice", ix)
			return a
		}
		seen[ix] = true
		a.best = append(a.best, db.perm[ix])
	}
	sort.Ints(a.best)
	return a
}

// c15Index runs IndexSequence for scenario reference k and decodes "taxid@..." values: [[distance, taxid], ...] sorted.
func c15Index(k int, db *c15DB) (pairs [][]int, raw map[int]string, problem string) {
	pos := -1
	for i, p := range db.perm {
		if p == k {
			pos = i
		}
	}
	problem = c15Guard(func() {
		raw = obirefidx.IndexSequence(pos, db.refs, &db.counts, &db.taxa, db.taxo)
	})
	if problem != "" {
		return nil, nil, problem
	}
	pairs = [][]int{}
	for d, v := range raw {
		parts := strings.Split(v, "@")
		id, err := strconv.Atoi(parts[0])
		if err != nil {
			return nil, raw, fmt.Sprintf("index value %q of distance %d does not start with a taxid", v, d)
		}
		pairs = append(pairs, []int{d, id})
	}
	sort.Slice(pairs, func(i, j int) bool { return pairs[i][0] < pairs[j][0] })
	return pairs, raw, ""
}

// c15Assign runs Identify on fresh references (the indexes are built lazily by Identify itself).  Identify
// loops for ever on a reference whose index is empty: the call is made on its own goroutine and given up
// after a while (the spinning goroutine is lost; after three of them Identify is no longer called).
var c15Hangs int32

func c15Assign(q []byte, db *c15DB) (taxid int, problem string) {
	if atomic.LoadInt32(&c15Hangs) >= 3 {
		return 0, "hang: Identify not called any more after three calls that did not return"
	}
	seq := obiseq.NewBioSequence("query", append([]byte(nil), q...), "")
	type answer struct {
		taxid   int
		problem string
	}
	done := make(chan answer, 1)
	go func() {
		var a answer
		sent := false
		defer func() {
			if !sent { // a captured log.Fatal ends the goroutine (runtime.Goexit)
				done <- answer{0, "fatal: " + strings.Join(fatalMessages(), "; ")}
			}
		}()
		defer func() { sent = true; done <- a }()
		a.problem = c15Guard(func() {
			out := obitag.Identify(seq, db.refs, db.counts, db.taxa, db.taxo, false)
			a.taxid = out.Taxid()
		})
	}()
	select {
	case a := <-done:
		return a.taxid, a.problem
	case <-time.After(20 * time.Second):
		atomic.AddInt32(&c15Hangs, 1)
		return 0, "hang: Identify did not return within 20 s"
	}
}

// c15AssignCLI assigns q the way the obitag command does: obitag.CLIAssignTaxonomy prepares the reference
// database itself (4-mer tables, taxa, references of unknown taxid discarded with a warning).  ghosts are
// positions (0..len(refs)) at which a reference whose taxid is not in the taxonomy is slipped in: such
// references are discarded by the command, the answer is that of the database without them.
func c15AssignCLI(q []byte, refs [][]byte, taxa []int, parent []int, perm []int, ghosts []int, seed int64) (taxid int, problem string) {
	taxid, problem = c15AssignCLIOnce(q, refs, taxa, parent, perm, ghosts, seed, 20*time.Second)
	if strings.HasPrefix(problem, "hang:") {
		// thousands of cases run at once, each with its own pool of workers: a case that was slow is run again,
		// alone, with a long patience, before it is called a hang
		c15Alone.Lock()
		defer c15Alone.Unlock()
		taxid, problem = c15AssignCLIOnce(q, refs, taxa, parent, perm, ghosts, seed, 180*time.Second)
	}
	return
}

var c15Alone sync.Mutex

func c15AssignCLIOnce(q []byte, refs [][]byte, taxa []int, parent []int, perm []int, ghosts []int, seed int64, patience time.Duration) (taxid int, problem string) {
	taxo, err := c15Taxonomy(parent)
	if err != nil {
		return 0, "taxonomy: " + err.Error()
	}
	rng := rand.New(rand.NewSource(seed))
	ghost := func(k int) *obiseq.BioSequence {
		n := len(q) + rng.Intn(5)
		b := make([]byte, n)
		for i := range b {
			b[i] = "acgt"[rng.Intn(4)]
		}
		s := obiseq.NewBioSequence("ghost"+strconv.Itoa(k), b, "")
		s.SetTaxid(len(parent) + 100 + k)
		return s
	}
	var references obiseq.BioSequenceSlice
	isGhost := func(pos int) bool {
		for _, g := range ghosts {
			if g == pos {
				return true
			}
		}
		return false
	}
	for i, p := range perm {
		if isGhost(i) {
			references = append(references, ghost(i))
		}
		s := obiseq.NewBioSequence("r"+strconv.Itoa(p+1), append([]byte(nil), refs[p]...), "")
		s.SetTaxid(taxa[p])
		references = append(references, s)
	}
	if isGhost(len(perm)) {
		references = append(references, ghost(len(perm)))
	}
	type answer struct {
		taxid   int
		problem string
	}
	done := make(chan answer, 1)
	go func() {
		var a answer
		sent := false
		defer func() {
			if !sent {
				done <- answer{0, "fatal: " + strings.Join(fatalMessages(), "; ")}
			}
		}()
		defer func() { sent = true; done <- a }()
		a.problem = c15Guard(func() {
			query := obiseq.NewBioSequence("query", append([]byte(nil), q...), "")
			// one worker, in this goroutine: a panic of the command's worker is observed here
			out := obitag.CLIAssignTaxonomy(obiiter.IBatchOver("verif", obiseq.BioSequenceSlice{query}, 10), references, taxo)
			n := 0
			for out.Next() {
				for _, s := range out.Get().Slice() {
					a.taxid = s.Taxid()
					n++
				}
			}
			if n != 1 {
				panic(fmt.Sprintf("%d sequences came out for one query", n))
			}
		})
	}()
	select {
	case a := <-done:
		return a.taxid, a.problem
	case <-time.After(patience):
		return 0, fmt.Sprintf("hang: CLIAssignTaxonomy did not deliver within %v", patience)
	}
}

func c15min(a, b int) int {
	if a < b {
		return a
	}
	return b
}

func c15max(a, b int) int {
	if a > b {
		return a
	}
	return b
}

// c15IndexCmd runs the obirefidx COMMAND on the references of a case written as a FASTA file in which every second
// reference already carries an index (a stale one, as left by an earlier indexing of a smaller data base), with the
// taxonomy written as an NCBI dump; it returns, per reference number, the decoded index the command wrote.
func c15IndexCmd(bindir, dir string, refs [][]byte, taxa []int, parent []int, rng *rand.Rand) (map[int][][]int, string) {
	if err := os.MkdirAll(dir, 0o755); err != nil {
		return nil, err.Error()
	}
	defer os.RemoveAll(dir)
	d := &taxDef{Parent: parent, Rank: make([]string, len(parent)), Name: make([]string, len(parent)), Alias: [][]int{}}
	for i := range parent {
		d.Rank[i], d.Name[i] = "rk"+strconv.Itoa(i+1), "tx"+strconv.Itoa(i+1)
	}
	if err := writeDump(filepath.Join(dir, "dump"), d, rng); err != nil {
		return nil, err.Error()
	}
	var fa bytes.Buffer
	for i, r := range refs {
		ann := map[string]any{"taxid": taxa[i]}
		if i%2 == 1 {
			ann["obitag_ref_index"] = map[string]string{"0": strconv.Itoa(taxa[i]) + "@stale@rk"}
		}
		js, _ := json.Marshal(ann)
		fmt.Fprintf(&fa, ">r%d %s\n%s\n", i+1, js, r)
	}
	in := filepath.Join(dir, "refs.fasta")
	if err := os.WriteFile(in, fa.Bytes(), 0o644); err != nil {
		return nil, err.Error()
	}
	cmd := exec.Command(filepath.Join(bindir, "obirefidx"), "-t", filepath.Join(dir, "dump"), "--max-cpu", "2", in)
	var so, se bytes.Buffer
	cmd.Stdout, cmd.Stderr = &so, &se
	if err := cmd.Run(); err != nil {
		tail := se.String()
		if len(tail) > 300 {
			tail = tail[len(tail)-300:]
		}
		return nil, "obirefidx: " + err.Error() + ": " + tail
	}
	out := map[int][][]int{}
	for _, line := range strings.Split(so.String(), "\n") {
		if !strings.HasPrefix(line, ">r") {
			continue
		}
		name, rest, _ := strings.Cut(line[1:], " ")
		k, err := strconv.Atoi(name[1:])
		if err != nil {
			return nil, "unexpected record " + name
		}
		var ann map[string]any
		if i := strings.Index(rest, "{"); i < 0 || json.Unmarshal([]byte(rest[i:strings.LastIndex(rest, "}")+1]), &ann) != nil {
			return nil, "record " + name + " has no JSON annotations: " + rest
		}
		idx, _ := ann["obitag_ref_index"].(map[string]any)
		pairs := [][]int{}
		for ds, v := range idx {
			dd, e1 := strconv.Atoi(ds)
			id, e2 := strconv.Atoi(strings.Split(fmt.Sprint(v), "@")[0])
			if e1 != nil || e2 != nil {
				return nil, fmt.Sprintf("record %s: index entry %q: %v", name, ds, v)
			}
			pairs = append(pairs, []int{dd, id})
		}
		sort.Slice(pairs, func(i, j int) bool { return pairs[i][0] < pairs[j][0] })
		out[k-1] = pairs
	}
	return out, ""
}

// c15LookupIn reads a decoded index the way Identify does: entry of the largest recorded distance <= d,
// failing that of the smallest recorded distance; 0 when the index is empty.  (An observation of the
// real output, not an expectation.)
func c15LookupIn(pairs [][]int, d int) int {
	res := 0
	found := false
	for _, p := range pairs { // sorted by distance
		if p[0] <= d {
			res = p[1]
			found = true
		}
	}
	if !found && len(pairs) > 0 {
		return pairs[0][1]
	}
	return res
}

// ------------------------------------------------------------------------------------------ replay

// c15NoteFieldOrder: outside the listed property (DESIGN 9, item 18) - IndexSequence writes "taxid@name@rank",
// obitag.MatchDistanceIndex documents and parses "taxid@rank@name".  Reported once as a note, never a verdict.
var c15FieldOrderOnce sync.Once

func c15NoteFieldOrder(env *Env, raw map[int]string) {
	v, ok := raw[0]
	if !ok {
		return
	}
	c15FieldOrderOnce.Do(func() {
		var id int
		var rank, name string
		if c15Guard(func() { id, rank, name = obitag.MatchDistanceIndex(0, raw) }) != "" {
			return
		}
		if rank == "tx"+strconv.Itoa(id) && name == "rk"+strconv.Itoa(id) {
			env.emit(map[string]any{"note": fmt.Sprintf("outside C15 (DESIGN 9 item 18): IndexSequence wrote %q (taxid@name@rank); "+
				"obitag.MatchDistanceIndex parses taxid@rank@name and returned rank=%q name=%q (its callers ignore both)", v, rank, name)})
		}
	})
}

type c15Case struct {
	Q        []string   `json:"q"`
	Refs     [][]string `json:"refs"`
	Taxa     []int      `json:"taxa"`
	Parent   []int      `json:"parent"`
	D        int        `json:"d"`
	Best     []int      `json:"best"`  // 1-based
	Pairs    [][]int    `json:"pairs"` // [lcs, columns] per reference (diagnostic)
	Cw       []int      `json:"cw"`
	Idx      [][][]int  `json:"idx"`  // per reference: [[distance, taxon], ...] (diagnostic: the clauses below decide)
	Lcaw     [][]int    `json:"lcaw"` // per reference: LCA of the taxa within distance 0, 1, 2, ...
	Assigned int        `json:"assigned"`
	Cover    []int      `json:"cover"`
	Cls      string     `json:"cls"`
	Suite    string     `json:"suite"`
}

func c15SameSet(a, b []int) bool {
	if len(a) != len(b) {
		return false
	}
	for i := range a {
		if a[i] != b[i] {
			return false
		}
	}
	return true
}

func c15Strs(refs [][]byte) []string {
	out := make([]string, len(refs))
	for i, r := range refs {
		out[i] = string(r)
	}
	return out
}

// c15Limiter lets every assertion report its first failures only (several defects can show in one run;
// none of them may drown the others).
type c15Limiter struct {
	mu sync.Mutex
	n  map[string]int
}

func (l *c15Limiter) admit(assert string) bool {
	l.mu.Lock()
	defer l.mu.Unlock()
	l.n[assert]++
	return l.n[assert] <= 40
}

// c15Tally counts a coverage class without counting a comparison (env.ok does both).
func c15Tally(env *Env, class string) {
	env.mu.Lock()
	env.classes[class]++
	env.mu.Unlock()
}

func c15Replay(env *Env) {
	cases := loadCases[c15Case](env.cases)
	lim := &c15Limiter{n: map[string]int{}}
	parallel(len(cases), 0, func(ci int) {
		c := cases[ci]
		c15Tally(env, "cases.replayed")
		q := c15Join(c.Q)
		refs := make([][]byte, len(c.Refs))
		for i, r := range c.Refs {
			refs[i] = c15Join(r)
		}
		n := len(refs)
		want := make([]int, len(c.Best))
		for i, b := range c.Best {
			want[i] = b - 1
		}
		sort.Ints(want)
		cls := c.Suite + "/" + c.Cls
		bad := false
		fail := func(assert, detail string) {
			bad = true
			if !lim.admit(assert) {
				c15Tally(env, "suppressed."+assert)
				return
			}
			env.fail(assert, cls, fmt.Sprintf("%s: query %s references %v taxa %v", detail, q, c15Strs(refs), c.Taxa), c)
		}
		// shared 4-mers
		{
			for i, r := range refs {
				got := -1
				problem := c15Guard(func() {
					sq := obiseq.NewBioSequence("q", append([]byte(nil), q...), "")
					sr := obiseq.NewBioSequence("r", append([]byte(nil), r...), "")
					got = obikmer.Common4Mer(obikmer.Count4Mer(sq, nil, nil), obikmer.Count4Mer(sr, nil, nil))
				})
				if problem != "" {
					fail("C15.kmer.crash", fmt.Sprintf("Count4Mer/Common4Mer(query, reference %d): %s", i+1, problem))
				} else if got != c.Cw[i] {
					fail("C15.kmer.common4", fmt.Sprintf("Common4Mer(query, reference %d)=%d, specification %d", i+1, got, c.Cw[i]))
				} else {
					env.ok("kmer.common4")
				}
			}
		}
		for _, ord := range []string{"asgiven", "reversed"} {
			perm := c15Identity(n)
			if ord == "reversed" {
				if n == 1 {
					continue
				}
				perm = c15Reversed(n)
			}
			db, err := c15Load(refs, c.Taxa, c.Parent, perm)
			if err != nil {
				if !bad { // a crash of Count4Mer was already reported above
					fail("C15.kmer.crash", "loading the references: "+err.Error())
				}
				return
			}
			// the search
			for _, fn := range []string{"obitag", "obitag2"} {
				a := c15Closest(fn, q, db)
				switch {
				case a.problem != "":
					fail("C15.closest.crash", fmt.Sprintf("%s.FindClosests (%s): %s", fn, ord, a.problem))
				case a.maxe != c.D:
					fail("C15.closest.distance", fmt.Sprintf("%s.FindClosests (%s) answers distance %d with references %v; the minimal LCS distance is %d, reached by %v (0-based)", fn, ord, a.maxe, a.best, c.D, want))
				case !c15SameSet(a.best, want):
					fail("C15.closest.best_set", fmt.Sprintf("%s.FindClosests (%s) answers references %v at distance %d; the references at that distance are %v (0-based)", fn, ord, a.best, a.maxe, want))
				default:
					env.ok("closest." + fn + "." + ord)
					c15Tally(env, "closest.cls."+c.Cls)
				}
			}
			// the index of every reference
			for k := 0; k < n; k++ {
				pairs, raw, problem := c15Index(k, db)
				if problem != "" {
					fail("C15.index.crash", fmt.Sprintf("IndexSequence(reference %d, %s): %s", k+1, ord, problem))
					continue
				}
				c15NoteFieldOrder(env, raw)
				lcaw := c.Lcaw[k]
				okEntries, okLookup := true, true
				for _, p := range pairs {
					d := p[0]
					if d < 0 {
						okEntries = false
						fail("C15.index.entry", fmt.Sprintf("IndexSequence(reference %d, %s) records the negative distance %d: %v", k+1, ord, d, raw))
						break
					}
					if d >= len(lcaw) {
						d = len(lcaw) - 1 // beyond the largest distance every reference is within reach
					}
					if p[1] != lcaw[d] {
						okEntries = false
						fail("C15.index.entry", fmt.Sprintf("IndexSequence(reference %d, %s) maps distance %d to taxon %d; the LCA of the taxa of all references within %d is %d (index %v)", k+1, ord, p[0], p[1], p[0], lcaw[d], raw))
						break
					}
				}
				if okEntries {
					for d := 0; d < len(refs[k]) && d < len(lcaw); d++ {
						if got := c15LookupIn(pairs, d); got != lcaw[d] {
							okLookup = false
							fail("C15.index.lookup", fmt.Sprintf("IndexSequence(reference %d, %s) = %v read at distance %d gives taxon %d; the LCA of the taxa of all references within %d is %d", k+1, ord, raw, d, got, d, lcaw[d]))
							break
						}
					}
				}
				if okEntries && okLookup {
					env.ok("index." + ord)
					c15Tally(env, "index.cls."+c.Cls)
					if len(pairs) > 1 {
						c15Tally(env, "index.several_entries")
					}
				}
			}
			// the assignment (fresh references: Identify builds the indexes it needs)
			db2, _ := c15Load(refs, c.Taxa, c.Parent, perm)
			taxid, problem := c15Assign(q, db2)
			covered := false
			for _, x := range c.Cover {
				if x == taxid {
					covered = true
				}
			}
			switch {
			case problem != "":
				fail("C15.assign.crash", fmt.Sprintf("Identify (%s): %s", ord, problem))
			case !covered:
				fail("C15.assign.ancestor", fmt.Sprintf("Identify (%s) assigns taxon %d, which is not an ancestor-or-self of the taxon of every best reference %v (acceptable: %v)", ord, taxid, want, c.Cover))
			case taxid != c.Assigned:
				fail("C15.assign.taxon", fmt.Sprintf("Identify (%s) assigns taxon %d; the LCA of the index entries of the best references %v at distance %d is %d", ord, taxid, want, c.D, c.Assigned))
			default:
				env.ok("assign." + ord)
				if c.Assigned != 1 {
					c15Tally(env, "assign.below_root")
				}
			}
			// the same through the command's own preparation of the database, with references of unknown taxid
			// slipped in (first, somewhere, last; none): they are discarded, the answer does not change
			for gi, ghosts := range [][]int{{}, {0}, {n}, {(ci + 1) % (n + 1), (ci*7 + 3) % (n + 1)}} {
				gname := []string{"none", "first", "last", "two"}[gi]
				taxid, problem := c15AssignCLI(q, refs, c.Taxa, c.Parent, perm, ghosts, env.seed*1000+int64(ci))
				switch {
				case problem != "":
					fail("C15.cli.crash", fmt.Sprintf("CLIAssignTaxonomy (%s, unknown-taxid references at %v): %s", ord, ghosts, problem))
				case taxid != c.Assigned:
					fail("C15.cli.taxon", fmt.Sprintf("CLIAssignTaxonomy (%s, unknown-taxid references at %v) assigns taxon %d; Identify on the database without them is expected to give %d (best references %v at distance %d)", ord, ghosts, taxid, c.Assigned, want, c.D))
				default:
					env.ok("cli." + gname)
				}
			}
		}
		// the obirefidx command on the same data base, every second reference carrying a stale index already
		if bd := env.opt("bindir", ""); bd != "" && len(c.Parent) > 0 && ci%env.optInt("cmdevery", 40) == 0 {
			got, problem := c15IndexCmd(bd, filepath.Join(os.TempDir(), fmt.Sprintf("c15cmd-%d-%d", os.Getpid(), ci)), refs, c.Taxa, c.Parent,
				rand.New(rand.NewSource(env.seed*31+int64(ci))))
			if problem != "" {
				fail("C15.cmd.index.crash", problem)
			} else {
				for k := 0; k < n; k++ {
					pairs, ok := got[k]
					if !ok {
						fail("C15.cmd.index.entry", fmt.Sprintf("obirefidx wrote no record for reference %d", k+1))
						break
					}
					lcaw := c.Lcaw[k]
					good := true
					for _, p := range pairs {
						d := c15min(c15max(p[0], 0), len(lcaw)-1)
						if p[0] < 0 || p[1] != lcaw[d] {
							good = false
							fail("C15.cmd.index.entry", fmt.Sprintf("obirefidx (reference %d, which %s an index in the input file) maps distance %d to taxon %d; the LCA of the taxa of all references within that distance is %d (index %v)",
								k+1, map[bool]string{true: "already carried", false: "did not carry"}[k%2 == 1], p[0], p[1], lcaw[d], pairs))
							break
						}
					}
					if good {
						for d := 0; d < len(refs[k]) && d < len(lcaw); d++ {
							if g := c15LookupIn(pairs, d); g != lcaw[d] {
								good = false
								fail("C15.cmd.index.lookup", fmt.Sprintf("obirefidx (reference %d) index %v read at distance %d gives taxon %d; the LCA of all references within %d is %d", k+1, pairs, d, g, d, lcaw[d]))
								break
							}
						}
					}
					if good {
						env.ok("cmd.index")
					}
				}
			}
		}
		if !bad {
			c15Tally(env, "case."+c.Suite)
			if ci%997 == 0 {
				env.sample(map[string]any{"query": string(q), "references": c15Strs(refs), "taxa": c.Taxa, "distance": c.D, "best": c.Best, "assigned": c.Assigned, "cls": c.Cls})
			}
		}
	})
}

// ------------------------------------------------------------------------------------------ record

// c15Event is one logged call.  Field types never mix; a kind only uses some of the fields.
type c15Event struct {
	K      string     `json:"k"`  // "closest" | "index" | "assign" | "kmer"
	Sc     string     `json:"sc"` // scenario family (coverage only)
	Fn     string     `json:"fn"` // closest: "obitag" | "obitag2"
	Alpha  string     `json:"alpha"`
	Q      []string   `json:"q"`
	Refs   [][]string `json:"refs"`
	Taxa   []int      `json:"taxa"`
	Parent []int      `json:"parent"`
	Kk     int        `json:"kk"`     // index: which reference (1-based)
	Inb    []int      `json:"inb"`    // closest: 1 when the reference was returned
	Maxe   int        `json:"maxe"`   // closest: returned distance
	Idppm  int        `json:"idppm"`  // closest: returned best identity in millionths
	Idx    [][]int    `json:"idx"`    // index: [[distance, taxid], ...]
	Taxid  int        `json:"taxid"`  // assign
	Common int        `json:"common"` // kmer: Common4Mer(q, refs[1])
	Err    string     `json:"err"`
}

func c15NewEvent(k, sc string) *c15Event {
	return &c15Event{K: k, Sc: sc, Fn: "", Alpha: "acgt", Q: []string{}, Refs: [][]string{}, Taxa: []int{}, Parent: []int{},
		Inb: []int{}, Idx: [][]int{}}
}

type c15Gen struct{ rng *rand.Rand }

const c15Bases = "acgt"

func (g *c15Gen) seq(n int) []byte {
	b := make([]byte, n)
	for i := range b {
		b[i] = c15Bases[g.rng.Intn(4)]
	}
	return b
}

func (g *c15Gen) other(c byte) byte {
	for {
		x := c15Bases[g.rng.Intn(4)]
		if x != c {
			return x
		}
	}
}

// edits applies nsub substitutions, nins insertions and ndel deletions at random places.
func (g *c15Gen) edits(s []byte, nsub, nins, ndel int) []byte {
	out := append([]byte(nil), s...)
	for i := 0; i < nsub && len(out) > 0; i++ {
		p := g.rng.Intn(len(out))
		out[p] = g.other(out[p])
	}
	for i := 0; i < nins; i++ {
		p := g.rng.Intn(len(out) + 1)
		out = append(out[:p], append([]byte{c15Bases[g.rng.Intn(4)]}, out[p:]...)...)
	}
	for i := 0; i < ndel && len(out) > 8; i++ {
		p := g.rng.Intn(len(out))
		out = append(out[:p], out[p+1:]...)
	}
	return out
}

// spacedSubs substitutes e positions at least 4 apart, away from the ends: each one removes four 4-mers.
func (g *c15Gen) spacedSubs(s []byte, e int) []byte {
	out := append([]byte(nil), s...)
	room := len(s) - 8 - 4*(e-1)
	if room < 1 {
		room = 1
	}
	p := 4 + g.rng.Intn(room)
	for i := 0; i < e && p < len(out)-3; i++ {
		out[p] = g.other(out[p])
		p += 4 + g.rng.Intn(2)
	}
	return out
}

// grown adds e random symbols at one end (every 4-mer of s is kept).
func (g *c15Gen) grown(s []byte, e int) []byte {
	if g.rng.Intn(2) == 0 {
		return append(append([]byte(nil), s...), g.seq(e)...)
	}
	return append(g.seq(e), s...)
}

// shrunk removes e symbols at one end.
func (g *c15Gen) shrunk(s []byte, e int) []byte {
	if e >= len(s)-8 {
		e = 1
	}
	if g.rng.Intn(2) == 0 {
		return append([]byte(nil), s[:len(s)-e]...)
	}
	return append([]byte(nil), s[e:]...)
}

// tree: random rooted tree on 1..n, root 1, with a chain of length depth at its start (deep lineages).
func (g *c15Gen) tree(n, depth int) []int {
	parent := make([]int, n)
	parent[0] = 1
	for i := 2; i <= n; i++ {
		if i <= depth {
			parent[i-1] = i - 1
		} else if g.rng.Intn(3) == 0 {
			parent[i-1] = 1 + g.rng.Intn(i-1)
		} else {
			lo := i - 6
			if lo < 1 {
				lo = 1
			}
			parent[i-1] = lo + g.rng.Intn(i-lo)
		}
	}
	return parent
}

func c15Children(parent []int) [][]int {
	ch := make([][]int, len(parent)+1)
	for i, p := range parent {
		if p != i+1 {
			ch[p] = append(ch[p], i+1)
		}
	}
	return ch
}

// subtree: x and its descendants
func c15Subtree(ch [][]int, x int) []int {
	out := []int{x}
	for i := 0; i < len(out); i++ {
		out = append(out, ch[out[i]]...)
	}
	return out
}

// database: n references in clusters of near-duplicates; lengths minLen..maxLen; taxa follow the clusters.
func (g *c15Gen) database(n, minLen, maxLen int, parent []int) (refs [][]byte, taxa []int) {
	var ch [][]int
	if parent != nil {
		ch = c15Children(parent)
	}
	for len(refs) < n {
		l := minLen + g.rng.Intn(maxLen-minLen+1)
		cen := g.seq(l)
		home := 1
		var clade []int
		if parent != nil {
			home = 1 + g.rng.Intn(len(parent))
			clade = c15Subtree(ch, home)
		}
		size := 1 + g.rng.Intn(8)
		for m := 0; m < size && len(refs) < n; m++ {
			var s []byte
			switch g.rng.Intn(8) {
			case 0:
				s = append([]byte(nil), cen...) // exact duplicate of the centroid
			case 1:
				s = g.grown(cen, 1+g.rng.Intn(12))
			case 2:
				s = g.shrunk(cen, 1+g.rng.Intn(6))
			case 3:
				s = g.spacedSubs(cen, 1+g.rng.Intn(3))
			default:
				s = g.edits(cen, g.rng.Intn(3), g.rng.Intn(2), g.rng.Intn(2))
			}
			if len(s) < minLen {
				s = append(s, g.seq(minLen-len(s))...)
			}
			refs = append(refs, s)
			if parent != nil {
				switch g.rng.Intn(10) {
				case 0:
					taxa = append(taxa, 1+g.rng.Intn(len(parent))) // misplaced reference
				case 1, 2, 3:
					taxa = append(taxa, home)
				default:
					taxa = append(taxa, clade[g.rng.Intn(len(clade))])
				}
			}
		}
	}
	return
}

func (g *c15Gen) shuffle(refs [][]byte, taxa []int) {
	g.rng.Shuffle(len(refs), func(i, j int) {
		refs[i], refs[j] = refs[j], refs[i]
		if taxa != nil {
			taxa[i], taxa[j] = taxa[j], taxa[i]
		}
	})
}

var c15Iupac = "ryswkmbdhvn"

func c15SplitAll(refs [][]byte) [][]string {
	out := make([][]string, len(refs))
	for i, r := range refs {
		out[i] = c15Split(r)
	}
	return out
}

// c15RunClosest calls the real search and fills the event.
func c15RunClosest(ev *c15Event, q []byte, refs [][]byte) {
	db, err := c15Load(refs, nil, nil, c15Identity(len(refs)))
	if err != nil {
		ev.Err = err.Error()
		return
	}
	a := c15Closest(ev.Fn, q, db)
	ev.Err = a.problem
	ev.Maxe = a.maxe
	ev.Idppm = a.idppm
	ev.Inb = make([]int, len(refs))
	for _, b := range a.best {
		ev.Inb[b] = 1
	}
}

func c15RunIndex(ev *c15Event, refs [][]byte) {
	db, err := c15Load(refs, ev.Taxa, ev.Parent, c15Identity(len(refs)))
	if err != nil {
		ev.Err = err.Error()
		return
	}
	pairs, _, problem := c15Index(ev.Kk-1, db)
	ev.Err = problem
	if pairs != nil {
		ev.Idx = pairs
	}
}

func c15RunAssign(ev *c15Event, q []byte, refs [][]byte) {
	db, err := c15Load(refs, ev.Taxa, ev.Parent, c15Identity(len(refs)))
	if err != nil {
		ev.Err = err.Error()
		return
	}
	ev.Taxid, ev.Err = c15Assign(q, db)
}

func c15RunKmer(ev *c15Event, a, b []byte) {
	ev.Err = c15Guard(func() {
		sa := obiseq.NewBioSequence("a", append([]byte(nil), a...), "")
		sb := obiseq.NewBioSequence("b", append([]byte(nil), b...), "")
		ev.Common = obikmer.Common4Mer(obikmer.Count4Mer(sa, nil, nil), obikmer.Count4Mer(sb, nil, nil))
	})
}

// c15Rerun recomputes the answers of a logged event on the real code (used by --replay).
func c15Rerun(ev *c15Event) {
	refs := make([][]byte, len(ev.Refs))
	for i, r := range ev.Refs {
		refs[i] = c15Join(r)
	}
	q := c15Join(ev.Q)
	ev.Inb, ev.Idx, ev.Err = []int{}, [][]int{}, ""
	switch ev.K {
	case "closest":
		c15RunClosest(ev, q, refs)
	case "index":
		c15RunIndex(ev, refs)
	case "assign":
		c15RunAssign(ev, q, refs)
	case "kmer":
		c15RunKmer(ev, q, refs[0])
	}
}

func c15Record(env *Env) {
	if script := env.opt("script", ""); script != "" {
		data, err := os.ReadFile(script)
		if err != nil {
			fmt.Fprintln(os.Stderr, err)
			os.Exit(2)
		}
		var evs []*c15Event
		if err := json.Unmarshal(data, &evs); err != nil {
			fmt.Fprintln(os.Stderr, "bad script:", err)
			os.Exit(2)
		}
		for _, ev := range evs {
			c15Rerun(ev)
			env.emit(ev)
		}
		return
	}
	g := &c15Gen{rng: env.rng}
	nClosest := env.optInt("closest", 10)
	nIndex := env.optInt("index", 6)
	nAssign := env.optInt("assign", 4)
	nKmer := env.optInt("kmer", 40)
	maxRefs := env.optInt("maxrefs", 300)
	minLen := env.optInt("minlen", 30)
	maxLen := env.optInt("maxlen", 120)
	idxRefs := env.optInt("idxrefs", 40)
	idxMaxLen := env.optInt("idxmaxlen", 60)

	// ---- searches -----------------------------------------------------------------------
	families := []string{"family", "near", "one-apart", "family", "self", "iupac", "family2", "near", "one-apart", "unrelated"}
	for e := 0; e < nClosest; e++ {
		fam := families[e%len(families)]
		n := 50 + g.rng.Intn(maxRefs-50+1)
		if fam == "unrelated" {
			n = 30 + g.rng.Intn(20) // every reference needs a full comparison in the validation
		}
		refs, _ := g.database(n, minLen, maxLen, nil)
		var q []byte
		alpha := "acgt"
		pick := refs[g.rng.Intn(len(refs))]
		switch fam {
		case "self":
			q = append([]byte(nil), pick...)
		case "near":
			q = g.edits(pick, g.rng.Intn(3), g.rng.Intn(2), g.rng.Intn(2))
		case "unrelated":
			q = g.seq(minLen + g.rng.Intn(maxLen-minLen+1))
		case "iupac":
			q = g.edits(pick, g.rng.Intn(2), g.rng.Intn(2), 0)
			for k := 0; k < 1+g.rng.Intn(3); k++ {
				q[g.rng.Intn(len(q))] = c15Iupac[g.rng.Intn(len(c15Iupac))]
			}
			alpha = "iupac"
		case "one-apart":
			// three references at one difference from the query: a substitution of the last base (it shares the most
			// 4-mers: compared first), an insertion and a deletion in the middle (compared by the one-difference test
			// once the best distance is 1); the insertion gives the best identity
			q = g.seq(minLen + g.rng.Intn(maxLen-minLen+1))
			m := len(q) / 2
			sub := append([]byte(nil), q...)
			sub[len(sub)-1] = g.other(sub[len(sub)-1])
			ins := append(append(append([]byte(nil), q[:m]...), g.other(q[m])), q[m:]...)
			del := append(append([]byte(nil), q[:m]...), q[m+1:]...)
			refs = append(refs, sub, ins, del)
			g.shuffle(refs, nil)
		case "family", "family2":
			// the counter-example class of the model on long sequences: references tied at distance d,
			// one longer than the query that keeps all its 4-mers, others that share few of them
			d := 1 + g.rng.Intn(3)
			if fam == "family2" {
				q = g.edits(pick, 1, 0, 0) // the query also has unplanted neighbours in the database
			} else {
				q = g.seq(minLen + 10 + g.rng.Intn(maxLen-minLen-20+1))
			}
			refs = append(refs, g.grown(q, d), g.spacedSubs(q, d), g.shrunk(q, d), g.spacedSubs(q, d))
			if g.rng.Intn(2) == 0 {
				refs = append(refs, g.grown(q, d+1+g.rng.Intn(3))) // a longer, worse one that shares everything
			}
			if g.rng.Intn(2) == 0 {
				refs = append(refs, g.spacedSubs(q, d+1))
			}
			g.shuffle(refs, nil)
		}
		for _, fn := range []string{"obitag", "obitag2"} {
			if fn == "obitag2" && e%2 == 1 {
				continue
			}
			ev := c15NewEvent("closest", fam)
			ev.Fn, ev.Alpha = fn, alpha
			ev.Q, ev.Refs = c15Split(q), c15SplitAll(refs)
			c15RunClosest(ev, q, refs)
			env.emit(ev)
		}
	}

	// one search on sequences in which a 4-mer occurs more than 255 times (long homopolymer): the shared 4-mer
	// counts that order and prune the candidates must not wrap
	{
		left, right := g.seq(14), g.seq(16)
		left[len(left)-1], right[0] = 'c', 'g' // the run of a's is exactly n long: the query holds 255 times "aaaa", `near` 256 times
		poly := func(n int) []byte {
			b := append([]byte(nil), left...)
			for i := 0; i < n; i++ {
				b = append(b, 'a')
			}
			return append(b, right...)
		}
		q := poly(258)
		near := poly(259)
		far := poly(258)
		for _, p := range []int{2, 7, len(far) - 3} {
			far[p] = "cgt"[g.rng.Intn(3)]
			if far[p] == q[p] {
				far[p] = 'c'
				if q[p] == 'c' {
					far[p] = 'g'
				}
			}
		}
		refs := [][]byte{far, g.seq(280), near, g.seq(300)}
		g.shuffle(refs, nil)
		ev := c15NewEvent("closest", "counter-width")
		ev.Fn, ev.Alpha = "obitag", "acgt"
		ev.Q, ev.Refs = c15Split(q), c15SplitAll(refs)
		c15RunClosest(ev, q, refs)
		env.emit(ev)
	}

	// ---- indexes -------------------------------------------------------------------------
	for e := 0; e < nIndex; e++ {
		n := idxRefs/2 + g.rng.Intn(idxRefs/2+1)
		nodes := 8 + g.rng.Intn(25)
		depth := 4 + g.rng.Intn(3)
		parent := g.tree(nodes, depth)
		refs, taxa := g.database(n, minLen, idxMaxLen, parent)
		fam := []string{"random", "idxfamily", "idxfamily2"}[e%3]
		k := g.rng.Intn(len(refs))
		if fam != "random" {
			// the counter-example class of the model: the indexed reference r (taxon at the end of the chain
			// 1 - 2 - ... - depth), a much longer reference that contains it, and closer ones that then get lost
			r := g.seq(minLen + g.rng.Intn(8))
			long := g.grown(r, 20+g.rng.Intn(25))
			t := depth
			if fam == "idxfamily" {
				// x at distance 2 elsewhere, then 'long' and r itself in the same taxon
				refs = append(refs, r, long, g.spacedSubs(r, 2))
				taxa = append(taxa, t, t, 1+g.rng.Intn(2))
			} else {
				// x at distance 3 under the root, 'long' then y (distance 1) under t-2, z (distance 2) under t-1, r in t
				refs = append(refs, r, g.spacedSubs(r, 3), long, g.spacedSubs(r, 1), g.spacedSubs(r, 2))
				taxa = append(taxa, t, 1, t-2, t-2, t-1)
			}
			// shuffle, then find r again (the planted reference of taxon t with that sequence)
			g.shuffle(refs, taxa)
			for i := range refs {
				if string(refs[i]) == string(r) && taxa[i] == t {
					k = i
				}
			}
		}
		ev := c15NewEvent("index", fam)
		ev.Refs, ev.Taxa, ev.Parent, ev.Kk = c15SplitAll(refs), taxa, parent, k+1
		c15RunIndex(ev, refs)
		env.emit(ev)
	}

	// ---- assignments ---------------------------------------------------------------------
	for e := 0; e < nAssign; e++ {
		n := 10 + g.rng.Intn(14)
		nodes := 6 + g.rng.Intn(14)
		parent := g.tree(nodes, 3+g.rng.Intn(3))
		refs, taxa := g.database(n, minLen, idxMaxLen, parent)
		pick := refs[g.rng.Intn(len(refs))]
		fam := []string{"near", "tie", "self", "far"}[e%4]
		var q []byte
		switch fam {
		case "near":
			q = g.edits(pick, 1+g.rng.Intn(2), g.rng.Intn(2), 0)
		case "self":
			q = append([]byte(nil), pick...)
		case "far":
			q = g.seq(len(pick)) // identity below one half is possible: the root is assigned then
		case "tie":
			q = g.seq(minLen + g.rng.Intn(idxMaxLen-minLen+1))
			d := 1 + g.rng.Intn(2)
			refs = append(refs, g.grown(q, d), g.spacedSubs(q, d), g.shrunk(q, d))
			for i := 0; i < 3; i++ {
				taxa = append(taxa, 1+g.rng.Intn(nodes))
			}
			g.shuffle(refs, taxa)
		}
		ev := c15NewEvent("assign", fam)
		ev.Q, ev.Refs, ev.Taxa, ev.Parent = c15Split(q), c15SplitAll(refs), taxa, parent
		c15RunAssign(ev, q, refs)
		env.emit(ev)
	}

	// ---- shared 4-mers --------------------------------------------------------------------
	for e := 0; e < nKmer; e++ {
		a := g.seq(4 + g.rng.Intn(maxLen))
		var b []byte
		sc := "related"
		switch e % 4 {
		case 0:
			b = g.edits(a, g.rng.Intn(4), g.rng.Intn(3), g.rng.Intn(3))
		case 1:
			b = g.seq(4 + g.rng.Intn(maxLen))
			sc = "unrelated"
		case 2: // low complexity: repeated words, counts above one
			unit := g.seq(1 + g.rng.Intn(3))
			if e == 2 {
				unit = []byte("t") // the last word of the table (tttt, code 255) is always exercised
			}
			a = []byte(strings.Repeat(string(unit), 4+g.rng.Intn(20)))
			b = g.edits(a, g.rng.Intn(3), g.rng.Intn(2), g.rng.Intn(2))
			sc = "repeats"
		default: // ambiguity codes and u count as a / t
			b = g.edits(a, g.rng.Intn(3), 0, 0)
			for k := 0; k < 1+g.rng.Intn(4); k++ {
				b[g.rng.Intn(len(b))] = (c15Iupac + "u")[g.rng.Intn(len(c15Iupac)+1)]
			}
			sc = "iupac"
		}
		if len(b) < 4 {
			b = append(b, g.seq(4)...)
		}
		ev := c15NewEvent("kmer", sc)
		ev.Q, ev.Refs = c15Split(a), [][]string{c15Split(b)}
		c15RunKmer(ev, a, b)
		env.emit(ev)
	}
}

package main

// C18: the four writers in front of a sink that fails after k bytes and/or on Close.
//
// replay: cases exported by TLC from WriterFault.tla (chunk length classes x arrival history x fault
// offset x failing Close) are mapped on real batches (class 0 = empty batch, 1 = one short record,
// 3 = one record larger than the 4 KiB bufio buffer); the abstract fault offset is mapped
// proportionally on the real byte length of the healthy output.  Expected outcome = the model's
// `fatal`.  Cases run SEQUENTIALLY inside one process (the fatal capture is process wide); the
// orchestrator shards the case file over several processes.
// record: exhaustive fault offsets k = 0..P on small random outputs; the sink log is the trace.

import (
	"fmt"
	"time"
)

type faultCase struct {
	Fmt        string `json:"fmt"`
	Compressed int    `json:"compressed"`
	Lens       []int  `json:"lens"`
	Arrival    []int  `json:"arrival"`
	K          int    `json:"k"`
	Total      int    `json:"total"`
	Failclose  int    `json:"failclose"`
	Fatal      int    `json:"fatal"`
	Surfaced   string `json:"surfaced"`
}

func init() {
	register("C18", &driver{replay: replayC18, record: recordC18})
}

// sizes for runWriter: class -> number of records; the record payload is decided by lenClass
var lenClass map[int]int // batch number -> class (set per case; cases are sequential)

func faultSizes(lens []int) []int {
	s := make([]int, len(lens))
	for i, l := range lens {
		if l > 0 {
			s[i] = 1
		}
	}
	return s
}

type faultOutcome struct {
	fatal    bool
	closed   bool
	hung     bool
	accepted int
	writes   int
	failedW  int
	closes   int
}

// runFault runs one writer on a failing sink and waits until its outcome is known.
// expectFatal only tunes how long we are willing to wait for a late log.Fatal.
func runFault(format string, compressed bool, sizes, arrival []int, k int, failClose bool, expectFatal bool, big map[int]bool) faultOutcome {
	bigBatches = big
	snk := newSink()
	snk.failAfter = k
	snk.failClose = failClose
	f0 := fatalCount()
	done := make(chan writerRun, 1)
	go func() { done <- runWriterPatience(format, sizes, arrival, 1, snk, compressed, 3*time.Second) }()
	var o faultOutcome
	deadline := time.Now().Add(25 * time.Second)
	for {
		if fatalCount() > f0 {
			o.fatal = true
			break
		}
		select {
		case <-snk.closedCh:
			o.closed = true
		default:
		}
		if o.closed {
			// the writer still has to look at Close's result: give a late Fatal a chance
			wait := 3 * time.Millisecond
			if expectFatal {
				wait = 10 * time.Second
			}
			end := time.Now().Add(wait)
			for time.Now().Before(end) {
				if fatalCount() > f0 {
					o.fatal = true
					break
				}
				time.Sleep(100 * time.Microsecond)
			}
			break
		}
		if time.Now().After(deadline) {
			o.hung = true
			break
		}
		time.Sleep(50 * time.Microsecond)
	}
	snk.mu.Lock()
	o.accepted = len(snk.buf)
	o.writes = snk.writes
	o.failedW = snk.failedWrite
	o.closes = snk.closes
	snk.mu.Unlock()
	return o
}

func bigOf(lens []int) map[int]bool {
	b := map[int]bool{}
	for i, l := range lens {
		if l >= 3 {
			b[i] = true
		}
	}
	return b
}

func replayC18(env *Env) {
	cases := loadCases[faultCase](env.cases)
	healthy := map[string]int{}
	nfail := 0
	for i, c := range cases {
		if nfail > 40 {
			env.emit(map[string]any{"note": "too many failures, remaining cases skipped", "skipped": len(cases) - i})
			break
		}
		sizes := faultSizes(c.Lens)
		big := bigOf(c.Lens)
		key := fmt.Sprint(c.Fmt, c.Compressed, c.Lens)
		P, ok := healthy[key]
		if !ok {
			h := runFault(c.Fmt, c.Compressed == 1, sizes, ident(len(sizes)), -1, false, false, big)
			if h.fatal || !h.closed {
				env.fail("C18."+c.Fmt+".healthy", "healthy", fmt.Sprintf("healthy run did not complete: %+v", h), c)
				nfail++
				continue
			}
			P = h.accepted
			healthy[key] = P
		}
		k := -1
		if c.K >= 0 {
			if c.K >= c.Total {
				k = P
			} else {
				k = c.K * P / c.Total
				if k >= P {
					k = P - 1
				}
			}
		}
		expectFatal := (k >= 0 && k < P) || c.Failclose == 1
		if expectFatal != (c.Fatal == 1) {
			// the fault offset of the model is mapped on the length of the healthy output: it no longer falls on the
			// same side of its end (a healthy run that wrote nothing where the model writes something)
			env.fail("C18."+c.Fmt+".healthy", "healthy", fmt.Sprintf("the healthy run of the real writer accepted %d bytes: the fault offset %d of %d of the model cannot be placed in it", P, c.K, c.Total), c)
			nfail++
			continue
		}
		// the model stops at the first reported failure: complete the history with the batches not yet arrived
		arrival := append([]int(nil), c.Arrival...)
		seen := map[int]bool{}
		for _, a := range arrival {
			seen[a] = true
		}
		for b := range sizes {
			if !seen[b] {
				arrival = append(arrival, b)
			}
		}
		o := runFault(c.Fmt, c.Compressed == 1, sizes, arrival, k, c.Failclose == 1, expectFatal, big)
		cl := fmt.Sprintf("%s/z%d/%s", c.Fmt, c.Compressed, c.Surfaced)
		detail := fmt.Sprintf("sink budget %d of %d bytes, failing Close=%v: fatal=%v closed=%v accepted=%d failedWrites=%d (model: fault surfaces at %s)",
			k, P, c.Failclose == 1, o.fatal, o.closed, o.accepted, o.failedW, c.Surfaced)
		switch {
		case o.hung:
			env.fail("C18."+c.Fmt+".hang", cl, detail, c)
			nfail++
		case expectFatal && !o.fatal:
			env.fail("C18."+c.Fmt+".silent_loss", cl, "write failure not reported: "+detail, c)
			nfail++
		case !expectFatal && o.fatal:
			env.fail("C18."+c.Fmt+".false_fatal", cl, "fatal on a sink that took everything: "+detail, c)
			nfail++
		case !expectFatal && o.accepted != P:
			env.fail("C18."+c.Fmt+".short_output", cl, detail, c)
			nfail++
		}
		env.ok(cl)
		if i%700 == 3 {
			env.sample(c)
		}
	}
}

// record: every fault offset on small outputs.
func recordC18(env *Env) {
	type ev struct {
		Op        string `json:"op"`
		Fmt       string `json:"fmt"`
		Z         int    `json:"compressed"`
		Sizes     []int  `json:"sizes"`
		Push      []int  `json:"push"`
		Total     int    `json:"total"`
		K         int    `json:"k"`
		Failclose int    `json:"failclose"`
		Accepted  int    `json:"accepted"`
		Fatal     int    `json:"fatal"`
		Hung      int    `json:"hung"`
		Rc        int    `json:"rc"`
		At        int    `json:"at"`
	}
	fmts := []string{"fasta", "fastq", "json", "csv"}
	nstreams := env.n
	// a TRANSIENT failure (one Write refused with EAGAIN, the following ones accepted): whatever the writer does
	// about it - give up and report, or try again - a run that ends without a report has written every byte of
	// the healthy output (event "transient")
	for _, f := range fmts {
		sizes := make([]int, 150)
		for j := range sizes {
			sizes[j] = 1 + env.rng.Intn(3)
		}
		push := ident(len(sizes))
		healthy := runFault(f, false, sizes, push, -1, false, false, nil)
		for at := 1; at <= 6; at++ {
			bigBatches = nil
			snk := newSink()
			snk.transientAt = at
			f0 := fatalCount()
			var r writerRun
			ended := make(chan struct{})
			go func() { r = runWriterPatience(f, sizes, push, 1, snk, false, 5*time.Second); close(ended) }()
			for waiting := true; waiting; {
				select {
				case <-ended:
					waiting = false
				default:
					if fatalCount() > f0 {
						waiting = false // reported: the run is over as far as the rule is concerned
					} else {
						time.Sleep(200 * time.Microsecond)
					}
				}
			}
			time.Sleep(20 * time.Millisecond)
			select {
			case <-ended:
			default:
				r = writerRun{fatal: true}
			}
			snk.mu.Lock()
			e := ev{Op: "transient", Fmt: f, Sizes: []int{len(sizes)}, Push: []int{}, Total: healthy.accepted, K: -1, Accepted: len(snk.buf), At: at}
			refused := snk.failedWrite
			snk.mu.Unlock()
			if refused == 0 {
				continue // the output has fewer Write calls than `at`
			}
			if fatalCount() > f0 || r.fatal {
				e.Fatal = 1
			} else if r.hungIter || r.hungSink {
				e.Hung = 1
			}
			env.emit(e)
		}
	}
	bad := 0
	for i := 0; i < nstreams && bad < 30; i++ {
		n := 1 + env.rng.Intn(3)
		sizes := make([]int, n)
		for j := range sizes {
			sizes[j] = env.rng.Intn(3)
		}
		push := env.rng.Perm(n)
		f := fmts[i%4]
		z := (i / 4) % 2
		h := runFault(f, z == 1, sizes, ident(n), -1, false, false, nil)
		if h.fatal || !h.closed {
			env.emit(ev{Op: "fault", Fmt: f, Z: z, Sizes: sizes, Push: push, Total: -1, K: -1, Hung: 1})
			bad++
			continue
		}
		P := h.accepted
		step := 1
		if P > 160 {
			step = P/160 + 1
		}
		for k := 0; k <= P; k += step {
			o := runFault(f, z == 1, sizes, push, k, false, k < P, nil)
			e := ev{Op: "fault", Fmt: f, Z: z, Sizes: sizes, Push: push, Total: P, K: k, Accepted: o.accepted}
			if o.fatal {
				e.Fatal = 1
			}
			if o.hung {
				e.Hung = 1
			}
			if (k < P) != o.fatal {
				bad++
			}
			env.emit(e)
			if bad >= 30 {
				break
			}
		}
		o := runFault(f, z == 1, sizes, push, -1, true, true, nil)
		e := ev{Op: "fault", Fmt: f, Z: z, Sizes: sizes, Push: push, Total: P, K: -1, Failclose: 1, Accepted: o.accepted}
		if o.fatal {
			e.Fatal = 1
		}
		env.emit(e)
	}
	// the writer of the commands (it guesses the format from the first batch) on a stream that is already finished:
	// whatever it decides to write for an empty result (nothing, an empty compressed member) is written under the
	// same rule.  It may leave the output unclosed: the run is observed for a moment, not until Close.
	for _, z := range []int{0, 1} {
		total := 0
		for _, k := range []int{-1, 0, 7} {
			snk := newSink()
			snk.failAfter = k
			f0 := fatalCount()
			runWriterPatience("auto-fasta", []int{}, []int{}, 1, snk, z == 1, 300*time.Millisecond)
			time.Sleep(100 * time.Millisecond)
			snk.mu.Lock()
			acc := len(snk.buf)
			snk.mu.Unlock()
			if k < 0 {
				total = acc
			}
			e := ev{Op: "fault", Fmt: "auto", Z: z, Sizes: []int{}, Push: []int{}, Total: total, K: k, Accepted: acc}
			if fatalCount() > f0 {
				e.Fatal = 1
			}
			env.emit(e)
		}
	}
}

package main

// X02 (extension check): the aggregating commands obicount, obisummary, obimatrix.
//
// This file holds what the driver needs and that decides nothing: the record vocabulary shared with
// spec/L3_command/Aggreg.tla, the rendering of abstract records to FASTA text / BioSequence objects,
// the decoding of what the commands print (JSON, YAML, CSV) into the flat shapes the specification
// uses, and the process runner.  Expected values never originate here: replay compares with the
// values exported by TLC (AggregMC), record logs what the real code did for AggregTrace.

import (
	"bytes"
	"context"
	"encoding/csv"
	"encoding/json"
	"fmt"
	"math"
	"os"
	"os/exec"
	"path/filepath"
	"sort"
	"strconv"
	"strings"
	"time"

	"gopkg.in/yaml.v3"

	"git.metabarcoding.org/obitools/obitools4/obitools4/pkg/obiformats"
	"git.metabarcoding.org/obitools/obitools4/obitools4/pkg/obiseq"
)

// ------------------------------------------------------------------------------ vocabulary

// x02IntMap / x02StrMap: TLC prints the empty function as [] and JSON objects otherwise.
type x02IntMap map[string]int
type x02StrMap map[string]string

func (m *x02IntMap) UnmarshalJSON(b []byte) error {
	*m = x02IntMap{}
	if t := bytes.TrimSpace(b); len(t) > 0 && t[0] == '[' {
		return nil
	}
	mm := map[string]int{}
	if err := json.Unmarshal(b, &mm); err != nil {
		return err
	}
	*m = mm
	return nil
}
func (m x02IntMap) MarshalJSON() ([]byte, error) {
	if m == nil {
		return []byte("{}"), nil
	}
	return json.Marshal(map[string]int(m))
}
func (m *x02StrMap) UnmarshalJSON(b []byte) error {
	*m = x02StrMap{}
	if t := bytes.TrimSpace(b); len(t) > 0 && t[0] == '[' {
		return nil
	}
	mm := map[string]string{}
	if err := json.Unmarshal(b, &mm); err != nil {
		return err
	}
	*m = mm
	return nil
}
func (m x02StrMap) MarshalJSON() ([]byte, error) {
	if m == nil {
		return []byte("{}"), nil
	}
	return json.Marshal(map[string]string(m))
}

// x02Val: an annotation value of Aggreg.tla.
type x02Val struct {
	T  string
	I  int
	S  string
	Im x02IntMap
	Sm x02StrMap
}

func (v *x02Val) UnmarshalJSON(b []byte) error {
	var raw struct {
		T  string    `json:"t"`
		I  int       `json:"i"`
		S  string    `json:"s"`
		Im x02IntMap `json:"im"`
		Sm x02StrMap `json:"sm"`
	}
	if err := json.Unmarshal(b, &raw); err != nil {
		return err
	}
	*v = x02Val{T: raw.T, I: raw.I, S: raw.S, Im: raw.Im, Sm: raw.Sm}
	return nil
}

func (v x02Val) MarshalJSON() ([]byte, error) {
	switch v.T {
	case "int":
		return json.Marshal(map[string]any{"t": v.T, "i": v.I})
	case "str":
		return json.Marshal(map[string]any{"t": v.T, "s": v.S})
	case "imap":
		return json.Marshal(map[string]any{"t": v.T, "im": v.Im})
	case "smap":
		return json.Marshal(map[string]any{"t": v.T, "sm": v.Sm})
	}
	return json.Marshal(map[string]any{"t": v.T})
}

type x02Attrs map[string]x02Val

func (a *x02Attrs) UnmarshalJSON(b []byte) error {
	*a = x02Attrs{}
	if t := bytes.TrimSpace(b); len(t) > 0 && t[0] == '[' {
		return nil
	}
	mm := map[string]x02Val{}
	if err := json.Unmarshal(b, &mm); err != nil {
		return err
	}
	*a = mm
	return nil
}
func (a x02Attrs) MarshalJSON() ([]byte, error) {
	if a == nil {
		return []byte("{}"), nil
	}
	return json.Marshal(map[string]x02Val(a))
}

type x02Rec struct {
	Id  string   `json:"id"`
	Len int      `json:"len"`
	A   x02Attrs `json:"a"`
}

// ------------------------------------------------------------------------------ rendering

// x02JSONValue: the JSON value written in a FASTA header for an abstract value.
func x02JSONValue(v x02Val) any {
	switch v.T {
	case "int":
		return v.I
	case "str":
		return v.S
	case "float":
		return 1.5
	case "bool":
		return true
	case "null":
		return nil
	case "imap":
		m := map[string]int{}
		for k, x := range v.Im {
			m[k] = x
		}
		return m
	case "smap":
		m := map[string]string{}
		for k, x := range v.Sm {
			m[k] = x
		}
		return m
	case "vec":
		return []int{1, 2}
	}
	panic("x02: unknown value type " + v.T)
}

// x02NativeValue: the value as other parts of the library build it (typed Go values, not parsed JSON).
func x02NativeValue(v x02Val) any {
	switch v.T {
	case "imap":
		m := make(map[string]int, len(v.Im))
		for k, x := range v.Im {
			m[k] = x
		}
		return m
	case "smap":
		m := make(map[string]string, len(v.Sm))
		for k, x := range v.Sm {
			m[k] = x
		}
		return m
	}
	return x02JSONValue(v)
}

func x02SeqBytes(r x02Rec) []byte {
	h := uint32(2166136261)
	for i := 0; i < len(r.Id); i++ {
		h = (h ^ uint32(r.Id[i])) * 16777619
	}
	b := make([]byte, r.Len)
	for i := range b {
		h = h*1664525 + 1013904223
		b[i] = "acgt"[(h>>24)&3]
	}
	return b
}

func x02Header(r x02Rec) string {
	if len(r.A) == 0 {
		return ""
	}
	m := map[string]any{}
	for k, v := range r.A {
		m[k] = x02JSONValue(v)
	}
	b, err := json.Marshal(m)
	if err != nil {
		panic(err)
	}
	return string(b)
}

// x02Fasta renders records as FASTA with JSON headers (sequence folded at 60 columns when wrap is set).
func x02Fasta(recs []x02Rec, wrap bool) []byte {
	var b bytes.Buffer
	for _, r := range recs {
		b.WriteByte('>')
		b.WriteString(r.Id)
		if h := x02Header(r); h != "" {
			b.WriteByte(' ')
			b.WriteString(h)
		}
		b.WriteByte('\n')
		s := x02SeqBytes(r)
		if wrap {
			for len(s) > 60 {
				b.Write(s[:60])
				b.WriteByte('\n')
				s = s[60:]
			}
		}
		b.Write(s)
		b.WriteByte('\n')
	}
	return b.Bytes()
}

// x02BioSeq builds the BioSequence of a record: style "json" goes through the real header parser,
// style "native" sets typed Go values as the rest of the library does.
func x02BioSeq(r x02Rec, style string) *obiseq.BioSequence {
	s := obiseq.NewBioSequence(r.Id, x02SeqBytes(r), "")
	if style == "json" {
		if h := x02Header(r); h != "" {
			s.SetDefinition(h)
			obiformats.ParseFastSeqJsonHeader(s)
		}
		return s
	}
	for k, v := range r.A {
		s.SetAttribute(k, x02NativeValue(v))
	}
	return s
}

// ------------------------------------------------------------------------------ decoded outputs

type x02Stat struct {
	Reads       int `json:"reads"`
	Variants    int `json:"variants"`
	Singletons  int `json:"singletons"`
	ObicleanBad int `json:"obiclean_bad"`
}

type x02StatMap map[string]x02Stat

func (m *x02StatMap) UnmarshalJSON(b []byte) error {
	*m = x02StatMap{}
	if t := bytes.TrimSpace(b); len(t) > 0 && t[0] == '[' {
		return nil
	}
	mm := map[string]x02Stat{}
	if err := json.Unmarshal(b, &mm); err != nil {
		return err
	}
	*m = mm
	return nil
}
func (m x02StatMap) MarshalJSON() ([]byte, error) {
	if m == nil {
		return []byte("{}"), nil
	}
	return json.Marshal(map[string]x02Stat(m))
}

// x02SumOut: what obisummary prints, in the flat form of Aggreg!Render.
type x02SumOut struct {
	Variants         int        `json:"variants"`
	Reads            int        `json:"reads"`
	TotalLength      int        `json:"total_length"`
	HasAnnotations   int        `json:"has_annotations"`
	ScalarAttributes int        `json:"scalar_attributes"`
	MapAttributes    int        `json:"map_attributes"`
	VectorAttributes int        `json:"vector_attributes"`
	Scalar           x02IntMap  `json:"scalar"`
	Map              x02IntMap  `json:"map"`
	Vector           x02IntMap  `json:"vector"`
	HasSamples       int        `json:"has_samples"`
	SampleCount      int        `json:"sample_count"`
	Stats            x02StatMap `json:"stats"`
}

func x02EmptySumOut() x02SumOut {
	return x02SumOut{Scalar: x02IntMap{}, Map: x02IntMap{}, Vector: x02IntMap{}, Stats: x02StatMap{}}
}

// x02Raw: the figures held by a DataSummary (Aggreg!Summary), maps densified over the sample set.
type x02Raw struct {
	Variants int       `json:"variants"`
	Reads    int       `json:"reads"`
	Length   int       `json:"length"`
	Nms      int       `json:"nms"`
	Nocs     int       `json:"nocs"`
	Nocw     int       `json:"nocw"`
	Scalar   x02IntMap `json:"scalar"`
	Map      x02IntMap `json:"map"`
	Vector   x02IntMap `json:"vector"`
	Sreads   x02IntMap `json:"sreads"`
	Svar     x02IntMap `json:"svar"`
	Ssingle  x02IntMap `json:"ssingle"`
	Sbad     x02IntMap `json:"sbad"`
}

func x02AsInt(v any) (int, error) {
	switch t := v.(type) {
	case int:
		return t, nil
	case int64:
		return int(t), nil
	case uint64:
		return int(t), nil
	case float64:
		if t != math.Trunc(t) {
			return 0, fmt.Errorf("%v is not an integer", t)
		}
		return int(t), nil
	}
	return 0, fmt.Errorf("%v (%T) is not a number", v, v)
}

func x02AsDict(v any) (map[string]any, error) {
	switch t := v.(type) {
	case map[string]any:
		return t, nil
	case map[any]any:
		m := map[string]any{}
		for k, x := range t {
			ks, ok := k.(string)
			if !ok {
				return nil, fmt.Errorf("key %v (%T) is not a string", k, k)
			}
			m[ks] = x
		}
		return m, nil
	case nil:
		return nil, fmt.Errorf("missing dictionary")
	}
	return nil, fmt.Errorf("%v (%T) is not a dictionary", v, v)
}

func x02AsIntMap(v any) (x02IntMap, error) {
	d, err := x02AsDict(v)
	if err != nil {
		return nil, err
	}
	m := x02IntMap{}
	for k, x := range d {
		n, err := x02AsInt(x)
		if err != nil {
			return nil, fmt.Errorf("%s: %v", k, err)
		}
		m[k] = n
	}
	return m, nil
}

func x02Only(d map[string]any, allowed ...string) error {
	for k := range d {
		ok := false
		for _, a := range allowed {
			ok = ok || a == k
		}
		if !ok {
			return fmt.Errorf("unexpected key %q", k)
		}
	}
	return nil
}

// x02CanonSummary: the printed tree -> flat form (absent sections = empty; absent obiclean_bad = -1).
func x02CanonSummary(d map[string]any) (x02SumOut, error) {
	o := x02EmptySumOut()
	if err := x02Only(d, "count", "annotations", "samples"); err != nil {
		return o, err
	}
	cnt, err := x02AsDict(d["count"])
	if err != nil {
		return o, fmt.Errorf("count: %v", err)
	}
	if err := x02Only(cnt, "variants", "reads", "total_length"); err != nil {
		return o, fmt.Errorf("count: %v", err)
	}
	for _, f := range []struct {
		k string
		p *int
	}{{"variants", &o.Variants}, {"reads", &o.Reads}, {"total_length", &o.TotalLength}} {
		if *f.p, err = x02AsInt(cnt[f.k]); err != nil {
			return o, fmt.Errorf("count.%s: %v", f.k, err)
		}
	}
	if a, ok := d["annotations"]; ok {
		o.HasAnnotations = 1
		ad, err := x02AsDict(a)
		if err != nil {
			return o, fmt.Errorf("annotations: %v", err)
		}
		if err := x02Only(ad, "scalar_attributes", "map_attributes", "vector_attributes", "keys"); err != nil {
			return o, fmt.Errorf("annotations: %v", err)
		}
		for _, f := range []struct {
			k string
			p *int
		}{{"scalar_attributes", &o.ScalarAttributes}, {"map_attributes", &o.MapAttributes}, {"vector_attributes", &o.VectorAttributes}} {
			if *f.p, err = x02AsInt(ad[f.k]); err != nil {
				return o, fmt.Errorf("annotations.%s: %v", f.k, err)
			}
		}
		keys, err := x02AsDict(ad["keys"])
		if err != nil {
			return o, fmt.Errorf("annotations.keys: %v", err)
		}
		if err := x02Only(keys, "scalar", "map", "vector"); err != nil {
			return o, fmt.Errorf("annotations.keys: %v", err)
		}
		for _, f := range []struct {
			k string
			p *x02IntMap
		}{{"scalar", &o.Scalar}, {"map", &o.Map}, {"vector", &o.Vector}} {
			if kv, ok := keys[f.k]; ok {
				if *f.p, err = x02AsIntMap(kv); err != nil {
					return o, fmt.Errorf("annotations.keys.%s: %v", f.k, err)
				}
			}
		}
	}
	if s, ok := d["samples"]; ok {
		o.HasSamples = 1
		sd, err := x02AsDict(s)
		if err != nil {
			return o, fmt.Errorf("samples: %v", err)
		}
		if err := x02Only(sd, "sample_count", "sample_stats"); err != nil {
			return o, fmt.Errorf("samples: %v", err)
		}
		if o.SampleCount, err = x02AsInt(sd["sample_count"]); err != nil {
			return o, fmt.Errorf("samples.sample_count: %v", err)
		}
		st, err := x02AsDict(sd["sample_stats"])
		if err != nil {
			return o, fmt.Errorf("samples.sample_stats: %v", err)
		}
		for name, v := range st {
			m, err := x02AsIntMap(v)
			if err != nil {
				return o, fmt.Errorf("samples.sample_stats.%s: %v", name, err)
			}
			x := x02Stat{ObicleanBad: -1}
			for k, n := range m {
				switch k {
				case "reads":
					x.Reads = n
				case "variants":
					x.Variants = n
				case "singletons":
					x.Singletons = n
				case "obiclean_bad":
					x.ObicleanBad = n
				default:
					return o, fmt.Errorf("samples.sample_stats.%s: unexpected key %q", name, k)
				}
			}
			for _, k := range []string{"reads", "variants", "singletons"} {
				if _, ok := m[k]; !ok {
					return o, fmt.Errorf("samples.sample_stats.%s: %s is missing", name, k)
				}
			}
			o.Stats[name] = x
		}
	}
	return o, nil
}

// x02DecodeSummary decodes the text printed by obisummary in the given format.
func x02DecodeSummary(text []byte, format string) (x02SumOut, error) {
	var d map[string]any
	if format == "json" {
		dec := json.NewDecoder(bytes.NewReader(text))
		if err := dec.Decode(&d); err != nil {
			return x02EmptySumOut(), fmt.Errorf("not JSON: %v", err)
		}
		var extra any
		if dec.Decode(&extra) == nil {
			return x02EmptySumOut(), fmt.Errorf("trailing data after the JSON value")
		}
	} else {
		var j any
		if json.Unmarshal(text, &j) == nil {
			return x02EmptySumOut(), fmt.Errorf("YAML was required, the output is JSON")
		}
		var y any
		if err := yaml.Unmarshal(text, &y); err != nil {
			return x02EmptySumOut(), fmt.Errorf("not YAML: %v", err)
		}
		var err error
		if d, err = x02AsDict(y); err != nil {
			return x02EmptySumOut(), fmt.Errorf("YAML document: %v", err)
		}
	}
	return x02CanonSummary(d)
}

func x02RawOf(f map[string]any) x02Raw {
	im := func(k string) x02IntMap {
		m := x02IntMap{}
		for a, b := range f[k].(map[string]int) {
			m[a] = b
		}
		return m
	}
	r := x02Raw{Variants: f["variants"].(int), Reads: f["reads"].(int), Length: f["length"].(int),
		Nms: f["nms"].(int), Nocs: f["nocs"].(int), Nocw: f["nocw"].(int),
		Scalar: im("scalar"), Map: im("map"), Vector: im("vector"),
		Sreads: im("sreads"), Svar: im("svar"), Ssingle: im("ssingle"), Sbad: im("sbad")}
	// the code reads a missing sample as 0 (Go map semantics): make that reading explicit
	for s := range r.Sreads {
		for _, m := range []x02IntMap{r.Svar, r.Ssingle, r.Sbad} {
			if _, ok := m[s]; !ok {
				m[s] = 0
			}
		}
	}
	return r
}

// matrix / three-column output ---------------------------------------------------------------

type x02Row struct {
	Name  string   `json:"name"`
	Cells []string `json:"cells"` // as printed
	Vals  []string `json:"vals"`  // numbers re-written as plain decimal integers when they are integers
	Ivals []int    `json:"ivals"` // integer value of the cell, 0 when it is not a number
}

type x02Table struct {
	Header []string `json:"header"`
	Rows   []x02Row `json:"rows"`
}

// x02NumText: "1.234567e+06" -> "1234567", 1; anything that is not an integer number is left as it is.
func x02NumText(s string) (string, int) {
	if n, err := strconv.Atoi(s); err == nil {
		return s, n
	}
	if f, err := strconv.ParseFloat(s, 64); err == nil && f == math.Trunc(f) && math.Abs(f) < 1e15 {
		return strconv.FormatInt(int64(f), 10), int(f)
	}
	return s, 0
}

func x02DecodeCSV(text []byte) ([][]string, error) {
	r := csv.NewReader(bytes.NewReader(text))
	r.FieldsPerRecord = -1
	return r.ReadAll()
}

// x02DecodeTable: first line = header, every other line = name + cells.
func x02DecodeTable(text []byte) (x02Table, error) {
	t := x02Table{Header: []string{}, Rows: []x02Row{}}
	recs, err := x02DecodeCSV(text)
	if err != nil {
		return t, err
	}
	if len(recs) == 0 {
		return t, fmt.Errorf("no header line")
	}
	t.Header = recs[0]
	for _, rec := range recs[1:] {
		row := x02Row{Name: rec[0], Cells: append([]string{}, rec[1:]...), Vals: []string{}, Ivals: []int{}}
		for _, c := range row.Cells {
			v, n := x02NumText(c)
			row.Vals = append(row.Vals, v)
			row.Ivals = append(row.Ivals, n)
		}
		t.Rows = append(t.Rows, row)
	}
	return t, nil
}

type x02Line struct {
	Name string `json:"name"`
	N    int    `json:"n"`
}

type x02CountOut struct {
	Header []string  `json:"header"`
	Lines  []x02Line `json:"lines"`
}

func x02DecodeCount(text []byte) (x02CountOut, error) {
	o := x02CountOut{Header: []string{}, Lines: []x02Line{}}
	recs, err := x02DecodeCSV(text)
	if err != nil {
		return o, err
	}
	if len(recs) == 0 {
		return o, fmt.Errorf("no header line")
	}
	o.Header = recs[0]
	for _, rec := range recs[1:] {
		if len(rec) != 2 {
			return o, fmt.Errorf("line %v does not have two fields", rec)
		}
		n, err := strconv.Atoi(rec[1])
		if err != nil {
			return o, fmt.Errorf("line %v: %v", rec, err)
		}
		o.Lines = append(o.Lines, x02Line{Name: rec[0], N: n})
	}
	return o, nil
}

// ------------------------------------------------------------------------------ processes

type x02Proc struct {
	Rc     int
	Out    []byte
	Err    string
	Hung   bool
	Argv   string
	Crash  bool // died on a Go run-time panic / signal
	ErrMsg string
}

func x02Run(bindir string, argv []string, stdin []byte, dir string) x02Proc {
	ctx, cancel := context.WithTimeout(context.Background(), 120*time.Second)
	defer cancel()
	cmd := exec.CommandContext(ctx, filepath.Join(bindir, argv[0]), argv[1:]...)
	cmd.Dir = dir
	if stdin != nil {
		cmd.Stdin = bytes.NewReader(stdin)
	}
	var so, se bytes.Buffer
	cmd.Stdout = &so
	cmd.Stderr = &se
	err := cmd.Run()
	p := x02Proc{Out: so.Bytes(), Argv: strings.Join(argv, " ")}
	e := se.String()
	if len(e) > 1500 {
		e = e[len(e)-1500:]
	}
	p.Err = e
	if ctx.Err() != nil {
		p.Hung = true
		p.Rc = -1
		return p
	}
	if err != nil {
		if ee, ok := err.(*exec.ExitError); ok {
			p.Rc = ee.ExitCode()
		} else {
			p.Rc = -2
			p.ErrMsg = err.Error()
		}
	}
	full := se.String()
	if i := strings.Index(full, "panic: "); i >= 0 {
		p.Crash = true
		j := strings.IndexByte(full[i:], '\n')
		if j < 0 {
			j = len(full) - i
		}
		p.ErrMsg = full[i : i+j]
	}
	return p
}

func x02Scratch(prefix string) string {
	d, err := os.MkdirTemp(os.Getenv("VERIF_SCRATCH"), prefix)
	if err != nil {
		fmt.Fprintln(os.Stderr, err)
		os.Exit(2)
	}
	return d
}

func x02SortedKeys[V any](m map[string]V) []string {
	ks := make([]string, 0, len(m))
	for k := range m {
		ks = append(ks, k)
	}
	sort.Strings(ks)
	return ks
}

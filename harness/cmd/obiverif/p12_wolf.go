package main

// C12, smoke test on real data: reads of a FASTQ file (the repository's wolf diet sample, forward and
// reverse reads assembled by obipairing beforehand) are demultiplexed with a sheet FILE of the repository,
// on both strands, through the library and through the obimultiplex binary; everything is logged as events
// (src "W") for spec/trace/DemuxTrace.tla.  The sheet file is decoded here only to tell TLC what it declares.

import (
	"bufio"
	"fmt"
	"os"
	"path/filepath"
	"strings"

	"git.metabarcoding.org/obitools/obitools4/obitools4/pkg/obiformats"
	"git.metabarcoding.org/obitools/obitools4/obitools4/pkg/obingslibrary"
)

func init() {
	register("C12W", &driver{record: c12RecordWolf})
}

// c12DecodeOldSheet: "experiment sample tags forward reverse F @..." lines; defaults of the old format
// (two mismatches, no indel, spacer 0, strict matching)
func c12DecodeOldSheet(text string) *c12Sheet {
	sh := &c12Sheet{ID: 9000, Mode: "strict"}
	idx := map[string]int{}
	for _, line := range strings.Split(text, "\n") {
		line = strings.TrimSpace(line)
		if line == "" || strings.HasPrefix(line, "#") {
			continue
		}
		f := strings.Fields(strings.SplitN(line, "@", 2)[0])
		if len(f) != 6 {
			continue
		}
		fwd, rev := strings.ToLower(f[3]), strings.ToLower(f[4])
		k, ok := idx[fwd+"/"+rev]
		if !ok {
			k = len(sh.Markers)
			idx[fwd+"/"+rev] = k
			sh.Markers = append(sh.Markers, c12Marker{Fwd: fwd, Rev: rev, Ef: 2, Er: 2})
		}
		tags := strings.Split(strings.ToLower(f[2]), ":")
		s := c12Sample{Name: f[1], Ft: tags[0], Rt: tags[0], Exp: f[0]}
		if len(tags) == 2 {
			s.Rt = tags[1]
		}
		if s.Ft == "-" {
			s.Ft = ""
		}
		if s.Rt == "-" {
			s.Rt = ""
		}
		sh.Markers[k].Samples = append(sh.Markers[k].Samples, s)
	}
	return sh
}

func c12RecordWolf(env *Env) {
	sheetPath, readsPath := env.opt("sheet", ""), env.opt("reads", "")
	raw, err := os.ReadFile(sheetPath)
	if err != nil {
		fmt.Fprintln(os.Stderr, err)
		os.Exit(2)
	}
	sh := c12DecodeOldSheet(string(raw))
	if len(sh.Markers) == 0 {
		fmt.Fprintln(os.Stderr, "no marker decoded from", sheetPath)
		os.Exit(2)
	}
	f, err := os.Open(readsPath)
	if err != nil {
		fmt.Fprintln(os.Stderr, err)
		os.Exit(2)
	}
	defer f.Close()
	ids, reads := []string{}, []string{}
	sc := bufio.NewScanner(f)
	sc.Buffer(make([]byte, 1<<20), 1<<24)
	for ln := 0; sc.Scan(); ln++ {
		switch ln % 4 {
		case 0:
			ids = append(ids, fmt.Sprintf("w%d", len(ids)))
		case 1:
			reads = append(reads, strings.ToLower(strings.TrimSpace(sc.Text())))
		}
	}
	if len(reads) > env.n {
		ids, reads = ids[:env.n], reads[:env.n]
	}
	comp := map[byte]byte{'a': 't', 'c': 'g', 'g': 'c', 't': 'a'}
	rc := func(s string) string {
		b := make([]byte, len(s))
		for i := 0; i < len(s); i++ {
			c, ok := comp[s[i]]
			if !ok {
				c = s[i]
			}
			b[len(s)-1-i] = c
		}
		return string(b)
	}
	var lib = c12WolfLibrary(string(raw))
	if lib == nil {
		env.emit(c12Event{K: "demux", Src: "W", Cls: "sheet", Fmt: "old", Sheet: c12EvSheetOf(sh), Sc: c12NoScenario(), Read: []int{}, Readrc: []int{},
			Out: []c12EvOut{}, Outrc: []c12EvOut{}, Fault: "the repository's sheet file is not accepted by ReadNGSFilter"})
		return
	}
	es := c12EvSheetOf(sh)
	for i, r := range reads {
		od := c12Extract(lib, sh, ids[i], r)
		or := c12Extract(lib, sh, ids[i]+"c", rc(r))
		fault := od.Fault
		if fault == "" {
			fault = or.Fault
		}
		env.emit(c12Event{K: "demux", Src: "W", Cls: "wolf/library", Fmt: "old", Sheet: es, Sc: c12NoScenario(), Read: c12Codes(r), Readrc: c12Codes(rc(r)),
			Out: c12EvOuts(od.Outs), None: c12B(od.None), Outrc: c12EvOuts(or.Outs), Nonerc: c12B(or.None), Fault: fault})
	}
	if bin := env.opt("bin", ""); bin != "" {
		job := &c12BinJob{sh: sh, format: "old"}
		for i, r := range reads {
			job.ids = append(job.ids, ids[i], ids[i]+"c")
			job.reads = append(job.reads, r, rc(r))
		}
		obs, problem := c12RunBinary(bin, filepath.Join(env.opt("work", os.TempDir()), "c12wolf"), job)
		if problem != "" {
			env.emit(c12Event{K: "demux", Src: "W", Cls: "wolf/binary", Fmt: "old", Sheet: es, Sc: c12NoScenario(), Read: []int{}, Readrc: []int{},
				Out: []c12EvOut{}, Outrc: []c12EvOut{}, Fault: problem})
			return
		}
		for i, r := range reads {
			od, or := obs[ids[i]], obs[ids[i]+"c"]
			fault := od.Fault
			if fault == "" {
				fault = or.Fault
			}
			env.emit(c12Event{K: "demux", Src: "W", Cls: "wolf/binary", Fmt: "old", Sheet: es, Sc: c12NoScenario(), Read: c12Codes(r), Readrc: c12Codes(rc(r)),
				Out: c12EvOuts(od.Outs), None: c12B(od.None), Outrc: c12EvOuts(or.Outs), Nonerc: c12B(or.None), Fault: fault})
		}
	}
}

// the sheet file as it is, through the real reader
func c12WolfLibrary(text string) (lib *obingslibrary.NGSLibrary) {
	msg := c12Guard(func() {
		c12ReadMu.Lock()
		defer c12ReadMu.Unlock()
		l, err := obiformats.ReadNGSFilter(strings.NewReader(text))
		if err != nil {
			panic(err)
		}
		if err := l.Compile2(); err != nil {
			panic(err)
		}
		lib = l
	})
	if msg != "" {
		return nil
	}
	return lib
}

package main

// X03, part (c): the CSV writer / reader pair and the ecoPCR reader, field by field (spec/L2_io/TextTables.tla).
//
// replay (--opt tables=1)
//   op "csv"     record + column options: the real FormatCVSBatch must print the specification's text; the real
//                ReadCSV on that text must return the specification's record (identifier, nucleotides, scores,
//                one typed annotation per other column).
//   op "ecopcr"  an ecoPCR text: the real ReadEcoPCR must return the specification's records.  ReadEcoPCR runs
//                goroutines of its own and is read in a CHILD process of this harness (one record per batch, one
//                result line flushed per record): a panic inside the library then costs the child only and is
//                reported as what it is.
// record (--opt tables=1): random records / option sets / ecoPCR lines, logged for TextTablesTrace.tla.
// As for the header part, a disagreement explained by the specification's as-written variant (exported with each
// case) is reported as X03.tables.known_departure with the departure's name as class.

import (
	"bufio"
	"bytes"
	"encoding/json"
	"fmt"
	"os"
	"os/exec"
	"path/filepath"
	"sort"
	"strconv"
	"strings"
	"time"

	"git.metabarcoding.org/obitools/obitools4/obitools4/pkg/obiformats"
	"git.metabarcoding.org/obitools/obitools4/obitools4/pkg/obiiter"
	"git.metabarcoding.org/obitools/obitools4/obitools4/pkg/obiseq"
)

type x03KV struct {
	K string `json:"k"`
	T string `json:"t"`
	V string `json:"v"`
}

type x03CsvOpts struct {
	Id         bool     `json:"id"`
	Count      bool     `json:"count"`
	Taxon      bool     `json:"taxon"`
	Definition bool     `json:"definition"`
	Sequence   bool     `json:"sequence"`
	Quality    bool     `json:"quality"`
	Keys       []string `json:"keys"`
}

type x03CsvRec struct {
	Id   string  `json:"id"`
	Seq  string  `json:"seq"`
	Qual []int   `json:"qual"`
	Def  string  `json:"def"`
	Ents []x03KV `json:"ents"`
}

type x03CsvBack struct {
	Lost bool    `json:"lost"`
	Id   string  `json:"id"`
	Seq  string  `json:"seq"`
	Qual string  `json:"qual"`
	Ents []x03KV `json:"ents"`
}

type x03EcoRec struct {
	Id   string  `json:"id"`
	Seq  string  `json:"seq"`
	Def  string  `json:"def"`
	Ents []x03KV `json:"ents"`
}

type x03TableCase struct {
	Op      string      `json:"op"`
	Cls     string      `json:"cls"`
	Opts    x03CsvOpts  `json:"opts"`
	Rec     x03CsvRec   `json:"rec"`
	Text    string      `json:"text"`
	Back    x03CsvBack  `json:"back"`
	Aw      json.RawMessage `json:"aw"`
	Departs string      `json:"departs"`
	Recs    []x03EcoRec `json:"recs"`
}

func x03KVValue(e x03KV) any {
	switch e.T {
	case "int":
		n, _ := strconv.Atoi(e.V)
		return n
	case "float":
		f, _ := strconv.ParseFloat(e.V, 64)
		return f
	case "bool":
		return e.V == "true"
	}
	return e.V
}

func x03KVOf(k string, v any) x03KV {
	switch t := v.(type) {
	case nil:
		return x03KV{k, "null", ""}
	case int:
		return x03KV{k, "int", strconv.Itoa(t)}
	case float64:
		return x03KV{k, "float", x03Float(t)}
	case bool:
		return x03KV{k, "bool", strconv.FormatBool(t)}
	case string:
		return x03KV{k, "str", t}
	}
	return x03KV{k, "other", fmt.Sprintf("%v", v)}
}

func x03KVSame(want, got []x03KV) bool {
	if len(want) != len(got) {
		return false
	}
	gm := map[string]x03KV{}
	for _, g := range got {
		gm[g.K] = g
	}
	for _, w := range want {
		g, ok := gm[w.K]
		if !ok || g.T != w.T {
			return false
		}
		if w.T == "int" || w.T == "float" {
			if !x03NumEq(w.V, g.V) {
				return false
			}
		} else if w.V != g.V {
			return false
		}
	}
	return true
}

func x03KVShow(es []x03KV) string {
	s := []string{}
	for _, e := range es {
		s = append(s, fmt.Sprintf("%s:(%s)%s", e.K, e.T, e.V))
	}
	sort.Strings(s)
	out := "[" + strings.Join(s, " ") + "]"
	if len(out) > 500 {
		out = out[:500] + "..."
	}
	return out
}

// ------------------------------------------------------------------------------ CSV

func x03CsvSequence(r x03CsvRec) *obiseq.BioSequence {
	var s *obiseq.BioSequence
	if len(r.Qual) > 0 {
		q := make([]byte, len(r.Qual))
		for i, v := range r.Qual {
			q[i] = byte(v)
		}
		s = obiseq.NewBioSequenceWithQualities(r.Id, []byte(r.Seq), r.Def, q)
	} else {
		s = obiseq.NewBioSequence(r.Id, []byte(r.Seq), r.Def)
	}
	for _, e := range r.Ents {
		s.SetAttribute(e.K, x03KVValue(e))
	}
	return s
}

func x03CsvOptions(o x03CsvOpts) obiformats.Options {
	return obiformats.MakeOptions([]obiformats.WithOption{
		obiformats.CSVId(o.Id), obiformats.CSVCount(o.Count), obiformats.CSVTaxon(o.Taxon), obiformats.CSVDefinition(o.Definition),
		obiformats.CSVKeys(o.Keys), obiformats.CSVSequence(o.Sequence), obiformats.CSVQuality(o.Quality)})
}

type x03CsvRead struct {
	n     int
	back  x03CsvBack
	fatal bool
	pmsg  string
}

// the real CSV reader on a text; the first record is reported (the cases hold one)
func x03ReadCsv(text string) x03CsvRead {
	var r x03CsvRead
	r.back.Ents = []x03KV{}
	completed, pmsg := x03Isolated(func() {
		before := fatalCount()
		it, err := obiformats.ReadCSV(strings.NewReader(text), obiformats.OptionsBatchSize(10))
		if err != nil {
			r.fatal = true
			return
		}
		done := make(chan struct{})
		go func() {
			defer close(done)
			for it.Next() {
				for _, s := range it.Get().Slice() {
					if r.n == 0 {
						r.back.Id = s.Id()
						r.back.Seq = string(s.Sequence())
						if s.HasQualities() {
							q := s.Qualities()
							b := make([]byte, len(q))
							for i := range q {
								b[i] = q[i] + 33
							}
							r.back.Qual = string(b)
						}
						for k, v := range s.Annotations() {
							r.back.Ents = append(r.back.Ents, x03KVOf(k, v))
						}
					}
					r.n++
				}
			}
		}()
		select {
		case <-done:
		case <-time.After(5 * time.Second):
			r.fatal = true
		}
		if fatalCount() != before {
			r.fatal = true
		}
	})
	r.pmsg = pmsg
	if !completed && pmsg == "" {
		r.fatal = true
	}
	return r
}

func x03ReplayCsv(env *Env, c *x03TableCase) {
	cl := c.Cls
	s := x03CsvSequence(c.Rec)
	opt := x03CsvOptions(c.Opts)
	var text string
	completed, pmsg := x03Isolated(func() {
		batch := obiiter.MakeBioSequenceBatch("verif", 0, obiseq.BioSequenceSlice{s})
		text = string(obiformats.FormatCVSBatch(batch, opt))
	})
	if !completed || pmsg != "" {
		x03Fail(env, "X03.csv.write_crash", cl, fmt.Sprintf("FormatCVSBatch aborts on record %s: %s", c.Rec.Id, pmsg), c)
		env.ok(cl)
		return
	}
	if text != c.Text {
		x03Fail(env, "X03.csv.text", cl, fmt.Sprintf("record %s %s options %+v: written %q, specification %q", c.Rec.Id, x03KVShow(c.Rec.Ents), c.Opts, text, c.Text), c)
		env.ok(cl)
		return
	}
	env.ok(cl + "/write")
	got := x03ReadCsv(text)
	var aw x03CsvBack
	json.Unmarshal(c.Aw, &aw)
	same := func(w x03CsvBack) bool {
		if w.Lost {
			return got.n == 0
		}
		return got.n == 1 && got.back.Id == w.Id && got.back.Seq == w.Seq && got.back.Qual == w.Qual && x03KVSame(w.Ents, got.back.Ents)
	}
	show := func() string {
		return fmt.Sprintf("%d record(s) id %q sequence %q scores %q annotations %s", got.n, got.back.Id, got.back.Seq, got.back.Qual, x03KVShow(got.back.Ents))
	}
	undecided := false
	for _, e := range c.Back.Ents {
		if e.T == "undecided" {
			undecided = true
		}
	}
	switch {
	case got.pmsg != "" || got.fatal:
		x03Fail(env, "X03.csv.read_crash", cl, fmt.Sprintf("ReadCSV aborts on %q: %s %s", text, got.pmsg, strings.Join(x03LastFatal(), "; ")), c)
	case undecided:
		env.ok("csv/undecided")
		return
	case same(c.Back):
	case c.Departs != "" && same(aw):
		x03FailKnown(env, "X03.tables.known_departure", c.Departs, fmt.Sprintf("CSV text %q read back as %s; specification: id %q sequence %q scores %q annotations %s",
			text, show(), c.Back.Id, c.Back.Seq, c.Back.Qual, x03KVShow(c.Back.Ents)), c)
	default:
		x03Fail(env, "X03.csv.read_back", cl, fmt.Sprintf("CSV text %q read back as %s; specification: id %q sequence %q scores %q annotations %s",
			text, show(), c.Back.Id, c.Back.Seq, c.Back.Qual, x03KVShow(c.Back.Ents)), c)
	}
	env.ok(cl + "/read")
}

func x03FailKnown(env *Env, assert, class, detail string, c any) { env.fail(assert, class, detail, c) }

// ------------------------------------------------------------------------------ ecoPCR (child process)

const x03Sentinel = "ZZ_END_OF_CASE"

type x03EcoResult struct {
	recs    []x03EcoRec
	crashed bool
	hung    bool
	stderr  string
}

// child: read the file with the real reader, one result line per record, flushed at once
func x03EcoChild(env *Env, path string) {
	f, err := os.Open(path)
	if err != nil {
		fmt.Fprintln(os.Stderr, err)
		os.Exit(3)
	}
	it, err := obiformats.ReadEcoPCR(bufio.NewReader(f), obiformats.OptionsBatchSize(1), obiformats.OptionsSource("verif"))
	if err != nil {
		fmt.Fprintln(os.Stderr, err)
		os.Exit(3)
	}
	for it.Next() {
		for _, s := range it.Get().Slice() {
			r := x03EcoRec{Id: s.Id(), Seq: string(s.Sequence()), Def: s.Definition(), Ents: []x03KV{}}
			for k, v := range s.Annotations() {
				if k != "definition" {
					r.Ents = append(r.Ents, x03KVOf(k, v))
				}
			}
			env.emit(map[string]any{"ecorec": r})
			env.w.Flush()
		}
	}
	env.emit(map[string]any{"ecoend": true})
	env.w.Flush()
}

func x03RunEco(env *Env, dir string, n int, text string) x03EcoResult {
	in := filepath.Join(dir, fmt.Sprintf("eco%d.ecopcr", n))
	out := filepath.Join(dir, fmt.Sprintf("eco%d.out", n))
	// ReadEcoPCR dies at the end of every input (listed finding), and the death races with the delivery of the
	// last record: one more line is appended so that every line of the case is delivered before it happens
	nf := 20
	if strings.HasPrefix(text, "#@ecopcr-v2") {
		nf = 22
	}
	sentinel := make([]string, nf)
	for i := range sentinel {
		sentinel[i] = "0"
	}
	sentinel[0] = x03Sentinel
	os.WriteFile(in, []byte(text+strings.Join(sentinel, " | ")+"\n"), 0o644)
	cmd := exec.Command(os.Args[0], "record", "X03", "--out", out, "--opt", "ecochild="+in)
	var se bytes.Buffer
	cmd.Stderr = &se
	var res x03EcoResult
	done := make(chan error, 1)
	cmd.Start()
	go func() { done <- cmd.Wait() }()
	select {
	case err := <-done:
		res.crashed = err != nil
	case <-time.After(20 * time.Second):
		cmd.Process.Kill()
		res.hung = true
	}
	res.stderr = se.String()
	ended := false
	if f, err := os.Open(out); err == nil {
		sc := bufio.NewScanner(f)
		sc.Buffer(make([]byte, 1<<20), 1<<24)
		for sc.Scan() {
			var line struct {
				Rec *x03EcoRec `json:"ecorec"`
				End bool       `json:"ecoend"`
			}
			if json.Unmarshal(sc.Bytes(), &line) == nil {
				if line.Rec != nil && line.Rec.Id != x03Sentinel {
					res.recs = append(res.recs, *line.Rec)
				}
				ended = ended || line.End
			}
		}
		f.Close()
	}
	if !ended && !res.hung {
		res.crashed = true
	}
	os.Remove(in)
	os.Remove(out)
	return res
}

func x03EcoPanic(stderr string) string {
	for _, l := range strings.Split(stderr, "\n") {
		if strings.HasPrefix(l, "panic:") || strings.HasPrefix(l, "fatal error:") {
			where := ""
			if i := strings.Index(stderr, "obiformats.ReadEcoPCR"); i >= 0 {
				where = " in ReadEcoPCR"
			}
			return l + where
		}
	}
	if len(stderr) > 300 {
		return stderr[len(stderr)-300:]
	}
	return stderr
}

func x03ReplayEco(env *Env, c *x03TableCase, dir string, n int) {
	cl := c.Cls
	got := x03RunEco(env, dir, n, c.Text)
	var aw []x03EcoRec
	json.Unmarshal(c.Aw, &aw)
	same := func(want []x03EcoRec) (bool, string) {
		if len(want) != len(got.recs) {
			return false, fmt.Sprintf("%d records read, specification %d", len(got.recs), len(want))
		}
		for i, w := range want {
			g := got.recs[i]
			if g.Id != w.Id || g.Seq != w.Seq || g.Def != w.Def || !x03KVSame(w.Ents, g.Ents) {
				return false, fmt.Sprintf("record %d read as id %q sequence %q definition %q %s; specification id %q sequence %q definition %q %s",
					i+1, g.Id, g.Seq, g.Def, x03KVShow(g.Ents), w.Id, w.Seq, w.Def, x03KVShow(w.Ents))
			}
		}
		return true, ""
	}
	if got.hung {
		x03Fail(env, "X03.ecopcr.hang", cl, "ReadEcoPCR does not end on the specification's text", c)
	} else if got.crashed {
		x03FailKnown(env, "X03.ecopcr.crash_at_end_of_input", cl, fmt.Sprintf("ReadEcoPCR delivered %d record(s) and then killed the process: %s", len(got.recs), x03EcoPanic(got.stderr)), c)
	}
	if ok, _ := same(c.Recs); ok {
	} else if ok2, _ := same(aw); ok2 && c.Departs != "" {
		_, why := same(c.Recs)
		x03FailKnown(env, "X03.tables.known_departure", c.Departs, "ecoPCR text: "+why, c)
	} else {
		_, why := same(c.Recs)
		x03Fail(env, "X03.ecopcr.records", cl, "ecoPCR text: "+why, c)
	}
	env.ok(cl)
}

func x03ReplayTables(env *Env) {
	cases := loadCases[x03TableCase](env.cases)
	dir := os.Getenv("VERIF_SCRATCH")
	if dir == "" {
		dir = os.TempDir()
	}
	dir = filepath.Join(dir, "x03eco")
	os.MkdirAll(dir, 0o755)
	for i := range cases {
		if x03Unlisted > 120 {
			env.skipped = 1
			break
		}
		c := &cases[i]
		switch c.Op {
		case "csv":
			x03ReplayCsv(env, c)
		case "ecopcr":
			x03ReplayEco(env, c, dir, i)
		}
	}
}

// ------------------------------------------------------------------------------ record

func x03RecordTables(env *Env) {
	g := &x03Gen{env: env, classes: map[string]int{}}
	dir := os.Getenv("VERIF_SCRATCH")
	if dir == "" {
		dir = os.TempDir()
	}
	dir = filepath.Join(dir, "x03eco")
	os.MkdirAll(dir, 0o755)
	nEco := env.n / 10
	if nEco > 60 {
		nEco = 60
	}
	for i := 0; i < env.n-nEco; i++ {
		env.emit(x03CsvEvent(g))
	}
	for i := 0; i < nEco; i++ {
		env.emit(x03EcoEvent(env, g, dir, i))
	}
}

func (g *x03Gen) csvValue() (any, bool) {
	switch g.rnd(12) {
	case 0, 1:
		return g.rnd(100000) - 100, true
	case 2:
		return g.decimal(), true
	case 3:
		return g.rnd(2) == 0, true
	case 4:
		return []string{"42", "true", "null", "1e3", "\"q\"", " 7", "-0.5", "false"}[g.rnd(8)], true
	case 5:
		return []string{"a,b", "say \"hi\"", " lead", "trail ", "#x", "", "NA", "x\ty", "it's", "a;b"}[g.rnd(10)], true
	case 6:
		return map[string]int{"a": 1}, true
	case 7:
		return nil, false // the record does not carry the key
	default:
		return strings.TrimLeft(g.word(0, 12, true), "{[\""), true
	}
}

func x03CsvEvent(g *x03Gen) map[string]any {
	keys := []string{"k1", "k2", "k3", "count", "taxid"}[:1+g.rnd(3)]
	if g.rnd(8) == 0 {
		keys = append(keys, keys[0]) // the same key kept twice
	}
	opts := x03CsvOpts{Id: g.rnd(10) > 0, Count: g.rnd(2) == 0, Taxon: g.rnd(3) == 0, Definition: g.rnd(2) == 0, Sequence: g.rnd(4) > 0, Quality: g.rnd(2) == 0, Keys: keys}
	n := 4 + g.rnd(30)
	seq := make([]byte, n)
	for i := range seq {
		seq[i] = "acgt"[g.rnd(4)]
	}
	var qual []int
	if g.rnd(3) > 0 {
		qual = make([]int, n)
		for i := range qual {
			qual[i] = g.rnd(42)
		}
	} else {
		qual = []int{}
	}
	id := []string{"s1", "#s2", "seq,3", "r_" + strconv.Itoa(g.rnd(1000))}[g.rnd(4)]
	def := []string{"", "", "Homo sapiens", "a, \"b\" c", "42", " padded"}[g.rnd(6)]
	rec := x03CsvRec{Id: id, Seq: string(seq), Qual: qual, Def: def, Ents: []x03KV{}}
	s := x03CsvSequence(rec)
	for _, k := range []string{"k1", "k2", "k3"} {
		if v, ok := g.csvValue(); ok {
			s.SetAttribute(k, v)
			e := x03KVOf(k, v)
			rec.Ents = append(rec.Ents, e)
		}
	}
	if g.rnd(2) == 0 {
		c := 1 + g.rnd(50)
		s.SetAttribute("count", c)
		rec.Ents = append(rec.Ents, x03KVOf("count", c))
	}
	switch g.rnd(4) {
	case 0:
		s.SetAttribute("taxid", 1)
		rec.Ents = append(rec.Ents, x03KVOf("taxid", 1))
	case 1:
		s.SetAttribute("taxid", 9606)
		rec.Ents = append(rec.Ents, x03KVOf("taxid", 9606))
		if g.rnd(2) == 0 {
			s.SetAttribute("scientific_name", "Homo sapiens")
			rec.Ents = append(rec.Ents, x03KVOf("scientific_name", "Homo sapiens"))
		}
	}
	opt := x03CsvOptions(opts)
	var fields, header []string
	text := ""
	completed, pmsg := x03Isolated(func() {
		header = obiformats.CSVHeader(opt)
		fields = obiformats.CSVRecord(s, opt)
		text = string(obiformats.FormatCVSBatch(obiiter.MakeBioSequenceBatch("verif", 0, obiseq.BioSequenceSlice{s}), opt))
	})
	if header == nil {
		header = []string{}
	}
	if fields == nil {
		fields = []string{}
	}
	got := x03ReadCsv(text)
	return map[string]any{"op": "csv", "opts": opts, "rec": rec, "header": header, "fields": fields, "text": text,
		"wfatal": x03Bool(!completed || pmsg != ""), "nrec": got.n, "back": got.back, "rfatal": x03Bool(got.fatal || got.pmsg != "")}
}

func (g *x03Gen) pad(s string) string {
	return strings.Repeat(" ", g.rnd(4)) + s + strings.Repeat(" ", g.rnd(6))
}

func x03EcoEvent(env *Env, g *x03Gen, dir string, n int) map[string]any {
	version := 1 + g.rnd(2)
	mode := []string{"superkingdom", "order", "kingdom"}[g.rnd(3)]
	fwd := []string{"GGGCAATCCTGAGCCAA", "ACGTNN"}[g.rnd(2)]
	rev := []string{"CCATTGAGTCTCTGCACCTATC", "TTGRC"}[g.rnd(2)]
	num := func() string {
		switch g.rnd(8) {
		case 0:
			return "###"
		case 1:
			return ""
		default:
			return strconv.Itoa(g.rnd(100000))
		}
	}
	name := func() string {
		if g.rnd(6) == 0 {
			return "###"
		}
		return strings.TrimSpace(strings.NewReplacer("|", "", "\"", "", "#", "").Replace(g.word(1, 14, true)))
	}
	tm := func() string {
		return strconv.Itoa(30+g.rnd(40)) + "." + strconv.Itoa(g.rnd(100))
	}
	nrows := 1 + g.rnd(5)
	rows := [][]string{}
	names := []string{"AB" + strconv.Itoa(g.rnd(1000)), "X" + strconv.Itoa(g.rnd(10)), "AC.1"}
	for r := 0; r < nrows; r++ {
		seqn := 4 + g.rnd(20)
		sq := make([]byte, seqn)
		for i := range sq {
			sq[i] = "ACGTacgtN"[g.rnd(9)]
		}
		row := []string{names[g.rnd(len(names))], strconv.Itoa(100 + g.rnd(900)), num(), []string{"species", "no rank", "genus"}[g.rnd(3)], num(), name(),
			num(), name(), num(), name(), num(), name(), []string{"D", "R"}[g.rnd(2)], fwd, strconv.Itoa(g.rnd(4))}
		if version == 2 {
			row = append(row, tm())
		}
		row = append(row, rev, strconv.Itoa(g.rnd(4)))
		if version == 2 {
			row = append(row, tm())
		}
		row = append(row, strconv.Itoa(seqn), string(sq), strings.TrimSpace(strings.NewReplacer("|", "", "\"", "").Replace(g.word(0, 30, true))))
		for i := range row {
			if i > 0 || g.rnd(2) == 0 {
				row[i] = g.pad(row[i])
			} else {
				row[i] = row[i] + strings.Repeat(" ", g.rnd(4))
			}
		}
		rows = append(rows, row)
	}
	var b strings.Builder
	if version == 2 {
		b.WriteString("#@ecopcr-v2\n")
	} else {
		b.WriteString("#\n")
	}
	b.WriteString("#\n# ecoPCR version 0.8.0\n# direct  strand oligo1 : " + fwd + "               ; oligo2c :               CCATTG\n")
	b.WriteString("# reverse strand oligo2 : " + rev + "               ; oligo1c :          TTGGCT\n")
	b.WriteString("# max error count by oligonucleotide : 3\n# optimal Tm for primers 1 : 52.39\n# database : db\n# amplifiat length between [10,220] bp\n")
	b.WriteString("# output in " + mode + " mode\n# DB sequences are considered as linear\n#\n")
	for _, row := range rows {
		b.WriteString(strings.Join(row, " | ") + "\n")
	}
	got := x03RunEco(env, dir, n, b.String())
	recs := got.recs
	if recs == nil {
		recs = []x03EcoRec{}
	}
	return map[string]any{"op": "ecopcr", "version": version, "mode": mode, "fwd": fwd, "rev": rev, "rows": rows, "text": b.String(),
		"recs": recs, "crashed": x03Bool(got.crashed), "hung": x03Bool(got.hung), "panic": x03EcoPanic(got.stderr)}
}

package main

// X05: the paired-end COMMANDS end to end (binaries obipairing, obitagpcr, obicomplement).
//
// record: seeded random files are written, the real binaries are run on them (several --max-cpu / --batch-size,
// random options), their output files are decoded and logged for spec/trace/PairedCmdTrace.tla:
//   kind "run"   identifiers of the input and output files in file order, exit status;
//   kind "pair"  pair i of an obipairing run with the answer of the alignment KERNEL (obialign.PEAlign called
//                here on (forward read, reverse-complemented reverse read) with the options of the command
//                line - property C08 decides that kernel) and record i of the command's output;
//   kind "tag"   pair i of an obitagpcr run: the same plus the sample sheet and the two output records;
//   kind "comp"  record i of an obicomplement run, before and after.
// Nothing expected is computed here: the driver writes files, runs, decodes (FASTA/FASTQ lines, JSON header,
// "(X:qq)->(Y:qq)" keys, the text of obimultiplex_error) and logs.
//
// replay: cases exported by TLC from PairedCmdMC.tla (tiny pairs that can only be joined, with a tiny sheet):
// the binaries are run on each case and the decoded output compared with the exported expected records.

import (
	"bytes"
	"context"
	"encoding/json"
	"fmt"
	"math"
	"math/rand"
	"os"
	"os/exec"
	"path/filepath"
	"regexp"
	"sort"
	"strconv"
	"strings"
	"time"

	"git.metabarcoding.org/obitools/obitools4/obitools4/pkg/obialign"
	"git.metabarcoding.org/obitools/obitools4/obitools4/pkg/obiseq"
)

func init() {
	register("X05", &driver{replay: x05Replay, record: x05Record})
}

// ------------------------------------------------------------------------------------ records and files

type x05Rec struct {
	ID   string
	Seq  string
	Qual []int // nil: no qualities (FASTA)
	Ann  map[string]any
}

func x05Header(r *x05Rec) string {
	b, _ := json.Marshal(r.Ann)
	return r.ID + " " + string(b)
}

func x05WriteFile(path string, recs []*x05Rec) {
	var b bytes.Buffer
	for _, r := range recs {
		if r.Qual == nil {
			b.WriteString(">" + x05Header(r) + "\n" + r.Seq + "\n")
			continue
		}
		q := make([]byte, len(r.Qual))
		for i, v := range r.Qual {
			q[i] = byte(v + 33)
		}
		b.WriteString("@" + x05Header(r) + "\n" + r.Seq + "\n+\n" + string(q) + "\n")
	}
	if err := os.WriteFile(path, b.Bytes(), 0o644); err != nil {
		fmt.Fprintln(os.Stderr, err)
		os.Exit(2)
	}
}

// x05Parse decodes what the writers of obitools4 produce: FASTQ on four lines, FASTA possibly folded.
func x05Parse(data []byte) (recs []*x05Rec, problem string) {
	lines := strings.Split(string(data), "\n")
	head := func(l string) *x05Rec {
		r := &x05Rec{Ann: map[string]any{}}
		l = l[1:]
		if i := strings.IndexByte(l, ' '); i >= 0 {
			r.ID = l[:i]
			rest := strings.TrimSpace(l[i+1:])
			if rest != "" {
				dec := json.NewDecoder(strings.NewReader(rest))
				if err := dec.Decode(&r.Ann); err != nil {
					problem = "header not JSON: " + l
				}
			}
		} else {
			r.ID = l
		}
		return r
	}
	for i := 0; i < len(lines); {
		l := lines[i]
		switch {
		case l == "":
			i++
		case l[0] == '@':
			if i+3 >= len(lines) {
				return recs, "truncated FASTQ record"
			}
			r := head(l)
			r.Seq = lines[i+1]
			r.Qual = []int{}
			for _, c := range []byte(lines[i+3]) {
				r.Qual = append(r.Qual, int(c)-33)
			}
			recs = append(recs, r)
			i += 4
		case l[0] == '>':
			r := head(l)
			i++
			for i < len(lines) && lines[i] != "" && lines[i][0] != '>' {
				r.Seq += lines[i]
				i++
			}
			recs = append(recs, r)
		default:
			return recs, "unexpected line: " + l
		}
	}
	return recs, problem
}

func x05ReadFile(path string) ([]*x05Rec, string) {
	data, err := os.ReadFile(path)
	if err != nil {
		return nil, "missing"
	}
	return x05Parse(data)
}

func x05IDs(recs []*x05Rec) []string {
	out := []string{}
	for _, r := range recs {
		out = append(out, r.ID)
	}
	return out
}

func x05Ints(q []int) []int {
	if q == nil {
		return []int{}
	}
	return q
}

func x05Num(a map[string]any, k string, absent int) int {
	v, ok := a[k]
	if !ok {
		return absent
	}
	switch t := v.(type) {
	case float64:
		return int(math.Round(t))
	case int:
		return t
	}
	return absent - 1
}

func x05Milli(a map[string]any, k string) int {
	v, ok := a[k]
	if !ok {
		return -1
	}
	if f, ok := v.(float64); ok {
		return int(math.Round(f * 1000))
	}
	return -2
}

func x05Str(a map[string]any, k string) string {
	if v, ok := a[k]; ok {
		if s, ok := v.(string); ok {
			return s
		}
		return "?not-a-string"
	}
	return ""
}

type x05MM struct {
	P  int    `json:"p"`
	X  string `json:"x"`
	Qx int    `json:"qx"`
	Y  string `json:"y"`
	Qy int    `json:"qy"`
}

var x05KeyRe = regexp.MustCompile(`^\((.):(\d+)\)->\((.):(\d+)\)$`)

func x05MMs(a map[string]any) []x05MM {
	out := []x05MM{}
	v, ok := a["pairing_mismatches"]
	if !ok {
		return out
	}
	m, ok := v.(map[string]any)
	if !ok {
		return append(out, x05MM{P: -1, X: "?", Y: "?"})
	}
	keys := []string{}
	for k := range m {
		keys = append(keys, k)
	}
	sort.Strings(keys)
	for _, k := range keys {
		g := x05KeyRe.FindStringSubmatch(k)
		var p float64
		isnum := true
		switch t := m[k].(type) {
		case float64:
			p = t
		case int:
			p = float64(t)
		default:
			isnum = false
		}
		if g == nil || !isnum {
			out = append(out, x05MM{P: -1, X: "?", Y: k})
			continue
		}
		qx, _ := strconv.Atoi(g[2])
		qy, _ := strconv.Atoi(g[4])
		out = append(out, x05MM{P: int(p), X: strings.ToLower(g[1]), Qx: qx, Y: strings.ToLower(g[3]), Qy: qy})
	}
	return out
}

func x05MMAnn(ms []x05MM) map[string]any {
	m := map[string]any{}
	for _, x := range ms {
		m[strings.ToUpper(fmt.Sprintf("(%s:%02d)->(%s:%02d)", x.X, x.Qx, x.Y, x.Qy))] = x.P
	}
	return m
}

// ------------------------------------------------------------------------------------ running a binary

type x05RunRes struct {
	Rc      int
	Out     []byte
	Err     string
	Timeout bool
}

var x05Patience = 60 * time.Second

func x05Run(bin string, args []string, dir string) x05RunRes {
	ctx, cancel := context.WithTimeout(context.Background(), x05Patience)
	defer cancel()
	cmd := exec.CommandContext(ctx, bin, args...)
	cmd.Dir = dir
	var so, se bytes.Buffer
	cmd.Stdout, cmd.Stderr = &so, &se
	err := cmd.Run()
	r := x05RunRes{Out: so.Bytes(), Err: se.String()}
	if i := strings.Index(r.Err, "panic:"); i >= 0 {
		r.Err = r.Err[i:]
	}
	if len(r.Err) > 1500 {
		r.Err = r.Err[:1500]
	}
	if ctx.Err() != nil {
		r.Timeout = true
		r.Rc = -9
		return r
	}
	if err != nil {
		if ee, ok := err.(*exec.ExitError); ok {
			r.Rc = ee.ExitCode()
		} else {
			r.Rc = -1
		}
	}
	return r
}

// ------------------------------------------------------------------------------------ events

type x05Kernel struct {
	Left  int   `json:"left"`
	Score int   `json:"score"`
	Path  []int `json:"path"`
	Fc    int   `json:"fc"`
	Over  int   `json:"over"`
	Fs    int   `json:"fs"`
}

type x05Opts struct {
	Minov    int `json:"minov"`
	Idn      int `json:"idn"`
	Idd      int `json:"idd"`
	Gap10    int `json:"gap10"`
	Scale10  int `json:"scale10"`
	Delta    int `json:"delta"`
	Fast     int `json:"fast"`
	Rel      int `json:"rel"`
	Stat     int `json:"stat"`
	Workers  int `json:"workers"`
	Batch    int `json:"batch"`
	Reorient int `json:"reorient"`
	Unid     int `json:"unid"`
	Keeperr  int `json:"keeperr"`
}

func (o *x05Opts) args() []string {
	a := []string{"--max-cpu", strconv.Itoa(o.Workers), "--batch-size", strconv.Itoa(o.Batch), "--no-progressbar",
		"--min-overlap", strconv.Itoa(o.Minov),
		"--min-identity", strconv.FormatFloat(float64(o.Idn)/float64(o.Idd), 'f', 3, 64),
		"--gap-penality", strconv.FormatFloat(float64(o.Gap10)/10, 'f', 1, 64),
		"--penality-scale", strconv.FormatFloat(float64(o.Scale10)/10, 'f', 1, 64),
		"--delta", strconv.Itoa(o.Delta)}
	if o.Fast == 0 {
		a = append(a, "--exact-mode")
	}
	if o.Rel == 0 {
		a = append(a, "--fast-absolute")
	}
	if o.Stat == 0 {
		a = append(a, "--without-stat")
	}
	return a
}

type x05PairOut struct {
	Present int      `json:"present"`
	ID      string   `json:"id"`
	Seq     []string `json:"seq"`
	Qual    []int    `json:"qual"`
	Mode    string   `json:"mode"`
	Score   int      `json:"score"`
	Ali     int      `json:"ali"`
	Match   int      `json:"match"`
	Norm    int      `json:"norm"`
	Dir     string   `json:"dir"`
	Sas     int      `json:"sas"`
	Sbs     int      `json:"sbs"`
	Fc      int      `json:"fc"`
	Over    int      `json:"over"`
	Fs      int      `json:"fs"`
	MM      []x05MM  `json:"mm"`
	Kann    int      `json:"kann"`
	Extra   []string `json:"extra"`
}

type x05TagAnn struct {
	Ek   string `json:"ek"`
	Epf  []int  `json:"epf"`
	Epr  []int  `json:"epr"`
	Emsg string `json:"emsg"`
	Smp  string `json:"smp"`
	Exp  string `json:"exp"`
	Dir  string `json:"dir"`
	Ft   []int  `json:"ft"`
	Rt   []int  `json:"rt"`
	Fm   []int  `json:"fm"`
	Rm   []int  `json:"rm"`
	Fe   int    `json:"fe"`
	Re   int    `json:"re"`
	Kann int    `json:"kann"`
}

type x05TagRec struct {
	ID   string    `json:"id"`
	Seq  []string  `json:"seq"`
	Qual []int     `json:"qual"`
	Ann  x05TagAnn `json:"ann"`
}

type x05CompRec struct {
	Present int      `json:"present"`
	ID      string   `json:"id"`
	Seq     []string `json:"seq"`
	Qual    []int    `json:"qual"`
	MM      []x05MM  `json:"mm"`
	Kann    int      `json:"kann"`
}

type x05Event struct {
	Kind string `json:"kind"`
	Cmd  string `json:"cmd"`
	Run  int    `json:"run"`
	I    int    `json:"i"`
	Cls  string `json:"cls"`
	x05Opts
	// pair / tag
	Fid   string      `json:"fid,omitempty"`
	Rid   string      `json:"rid,omitempty"`
	F     []string    `json:"f,omitempty"`
	Qf    []int       `json:"qf,omitempty"`
	R     []string    `json:"r,omitempty"`
	Qr    []int       `json:"qr,omitempty"`
	Fk    int         `json:"fk"`
	Rk    int         `json:"rk"`
	Kb    []string    `json:"kb,omitempty"`
	Kqb   []int       `json:"kqb,omitempty"`
	K     *x05Kernel  `json:"k,omitempty"`
	Out   *x05PairOut `json:"out,omitempty"`
	Sheet *c12EvSheet `json:"sheet,omitempty"`
	Where string      `json:"where,omitempty"`
	O1    *x05TagRec  `json:"o1,omitempty"`
	O2    *x05TagRec  `json:"o2,omitempty"`
	// comp
	In   *x05CompRec `json:"cin,omitempty"`
	Cout *x05CompRec `json:"cout,omitempty"`
	// run
	Nf      int      `json:"nf"`
	Nr      int      `json:"nr"`
	Rc      int      `json:"rc"`
	Fids    []string `json:"fids"`
	R1      []string `json:"r1"`
	R2      []string `json:"r2"`
	U1      []string `json:"u1"`
	U2      []string `json:"u2"`
	Note    string   `json:"note"`
	Wgpanic int      `json:"wgpanic"` // 1: the command died on "sync: WaitGroup is reused before previous Wait has returned"
	// replay material
	SheetText string `json:"sheet_text,omitempty"`
}

// ------------------------------------------------------------------------------------ kernel call

func x05Kern(f, r *x05Rec, o *x05Opts) (kb []string, kqb []int, k *x05Kernel, panicked string) {
	qa := make([]byte, len(f.Qual))
	for i, v := range f.Qual {
		qa[i] = byte(v)
	}
	qb := make([]byte, len(r.Qual))
	for i, v := range r.Qual {
		qb[i] = byte(v)
	}
	a := obiseq.NewBioSequence(f.ID, []byte(f.Seq), "")
	a.SetQualities(qa)
	b0 := obiseq.NewBioSequence(r.ID, []byte(r.Seq), "")
	b0.SetQualities(qb)
	b := b0.ReverseComplement(false)
	kb = c12Chars(b.String())
	kqb = []int{}
	for _, q := range b.Qualities() {
		kqb = append(kqb, int(q))
	}
	arena := obialign.MakePEAlignArena(150, 150)
	shifts := make(map[int]int)
	al := c08PEAlign(a, b, float64(o.Gap10)/10, float64(o.Scale10)/10, o.Fast == 1, o.Delta, o.Rel == 1, arena, &shifts)
	k = &x05Kernel{Left: c08b2i(al.Left), Score: al.Score, Path: al.Path, Fc: al.Fc, Over: al.Over,
		Fs: int(math.Round(math.Round(al.Fs*1000) / 1000 * 1000))}
	if k.Path == nil {
		k.Path = []int{}
	}
	return kb, kqb, k, al.Panic
}

// ------------------------------------------------------------------------------------ generators

const x05Iupac = "ryswkmbdhvn"

type x05Gen struct {
	r *rand.Rand
}

func (g *x05Gen) quals(n int) []int {
	q := make([]int, n)
	base := 20 + g.r.Intn(21)
	for i := range q {
		switch g.r.Intn(12) {
		case 0:
			q[i] = g.r.Intn(42)
		case 1:
			q[i] = 2 + g.r.Intn(10)
		default:
			q[i] = base
		}
		if g.r.Intn(60) == 0 {
			q[i] = 0
		}
	}
	return q
}

func (g *x05Gen) noisy(s string, p float64) string {
	b := []byte(s)
	for i := range b {
		if g.r.Float64() < p {
			if g.r.Intn(6) == 0 {
				b[i] = x05Iupac[g.r.Intn(len(x05Iupac))]
			} else {
				b[i] = c12OtherBase(g.r, b[i])
			}
		}
	}
	if p > 0 && g.r.Intn(8) == 0 && len(b) > 10 { // one deleted base
		i := 3 + g.r.Intn(len(b)-6)
		b = append(b[:i], b[i+1:]...)
	}
	return string(b)
}

func x05RC(s string) string { // only used to BUILD reads from a fragment (input generation), never for an expected value
	b := []byte(s)
	n := len(b)
	out := make([]byte, n)
	cmp := map[byte]byte{'a': 't', 'c': 'g', 'g': 'c', 't': 'a'}
	for i := 0; i < n; i++ {
		c, ok := cmp[b[n-1-i]]
		if !ok {
			c = 'n'
		}
		out[i] = c
	}
	return string(out)
}

// two reads of one fragment: the forward read starts at its 5' end, the reverse read at the 5' end of the other strand
func (g *x05Gen) readsOf(frag string, la, lb int, perr float64) (string, string) {
	if la > len(frag) {
		la = len(frag)
	}
	if lb > len(frag) {
		lb = len(frag)
	}
	f := g.noisy(frag[:la], perr)
	r := g.noisy(x05RC(frag)[:lb], perr)
	return f, r
}

func (g *x05Gen) pair(id int) (f, r *x05Rec, cls string) {
	var fs, rs string
	switch k := g.r.Intn(12); {
	case k < 6: // overlapping, few errors
		L := 40 + g.r.Intn(110)
		fs, rs = g.readsOf(c12RandSeq(g.r, L), 40+g.r.Intn(60), 40+g.r.Intn(60), []float64{0, 0, 0.01, 0.03}[g.r.Intn(4)])
		cls = "overlap"
	case k == 10 || k == 11: // many errors: identity threshold
		L := 40 + g.r.Intn(100)
		fs, rs = g.readsOf(c12RandSeq(g.r, L), 30+g.r.Intn(70), 30+g.r.Intn(70), 0.08+g.r.Float64()*0.15)
		cls = "noisy"
	case k < 7: // fragment longer than both reads: nothing to align
		L := 220 + g.r.Intn(60)
		fs, rs = g.readsOf(c12RandSeq(g.r, L), 30+g.r.Intn(70), 30+g.r.Intn(70), 0.01)
		cls = "no-overlap"
	case k < 8: // fragment shorter than the reads: each read runs through the other's start (right alignment)
		L := 25 + g.r.Intn(40)
		frag := c12RandSeq(g.r, L)
		fs = g.noisy(frag+c12RandSeq(g.r, 5+g.r.Intn(25)), 0.01)
		rs = g.noisy(x05RC(frag)+c12RandSeq(g.r, 5+g.r.Intn(25)), 0.01)
		cls = "read-through"
	case k < 9: // short overlap around the --min-overlap values
		la, lb := 30+g.r.Intn(50), 30+g.r.Intn(50)
		ov := 3 + g.r.Intn(40)
		perr := []float64{0, 0.02}[g.r.Intn(2)]
		if g.r.Intn(2) == 0 { // exactly a value --min-overlap takes in the runs, error-free
			ov, perr = []int{5, 10, 20, 40}[g.r.Intn(4)], 0
		}
		if ov > la {
			ov = la
		}
		if ov > lb {
			ov = lb
		}
		fs, rs = g.readsOf(c12RandSeq(g.r, la+lb-ov), la, lb, perr)
		cls = "short-overlap"
	default:
		fs, rs = c12RandSeq(g.r, 5+g.r.Intn(90)), c12RandSeq(g.r, 5+g.r.Intn(90))
		cls = "unrelated"
	}
	f = &x05Rec{ID: fmt.Sprintf("p%04d", id), Seq: fs, Qual: g.quals(len(fs)), Ann: map[string]any{"k": 2*id + 1}}
	r = &x05Rec{ID: fmt.Sprintf("p%04d", id), Seq: rs, Qual: g.quals(len(rs)), Ann: map[string]any{"k": 2*id + 2}}
	return
}

func (g *x05Gen) opts() x05Opts {
	o := x05Opts{
		Minov: []int{5, 10, 20, 20, 40}[g.r.Intn(5)], Idn: []int{500, 800, 800, 900, 900, 1000, 0}[g.r.Intn(7)], Idd: 1000,
		Gap10: []int{20, 20, 10, 35}[g.r.Intn(4)], Scale10: []int{10, 10, 5, 20}[g.r.Intn(4)], Delta: []int{5, 5, 0, 10}[g.r.Intn(4)],
		Fast: c08b2i(g.r.Intn(3) > 0), Rel: c08b2i(g.r.Intn(3) > 0), Stat: c08b2i(g.r.Intn(4) > 0),
		Workers: []int{1, 2, 4, 8}[g.r.Intn(4)], Batch: []int{1, 2, 3, 7, 100}[g.r.Intn(5)],
	}
	return o
}

// a sheet with tags on both primers (same length on a primer), strict or hamming tag matching, no primer indels
func (g *x05Gen) sheet(id int) *c12Sheet {
	sh := &c12Sheet{ID: id, Mode: []string{"strict", "hamming"}[g.r.Intn(2)]}
	nm := 1 + g.r.Intn(2)
	for m := 0; m < nm; m++ {
		mk := c12Marker{Fwd: c12RandSeq(g.r, 16+g.r.Intn(6)), Rev: c12RandSeq(g.r, 16+g.r.Intn(6)),
			Ef: g.r.Intn(3), Er: g.r.Intn(3), Sf: g.r.Intn(2), Sr: g.r.Intn(2)}
		lf, lr := 5+g.r.Intn(3), 5+g.r.Intn(3)
		ns := 2 + g.r.Intn(3)
		var fts, rts []string
		for len(fts) < ns {
			t := c12RandSeq(g.r, lf)
			ok := true
			for _, u := range fts {
				if c12HamStr(t, u) < 3 {
					ok = false
				}
			}
			if ok {
				fts = append(fts, t)
			}
		}
		for len(rts) < ns {
			t := c12RandSeq(g.r, lr)
			ok := true
			for _, u := range rts {
				if c12HamStr(t, u) < 3 {
					ok = false
				}
			}
			if ok {
				rts = append(rts, t)
			}
		}
		for s := 0; s < ns; s++ {
			mk.Samples = append(mk.Samples, c12Sample{Ft: fts[s], Rt: rts[(s+m)%ns], Name: fmt.Sprintf("s%d_%d", m+1, s+1)})
		}
		sh.Markers = append(sh.Markers, mk)
	}
	return sh
}

func (g *x05Gen) mutate(s string, n int) string {
	b := []byte(s)
	for k := 0; k < n; k++ {
		i := g.r.Intn(len(b))
		b[i] = c12OtherBase(g.r, b[i])
	}
	return string(b)
}

// a pair of reads of one tagged amplicon of the sheet
func (g *x05Gen) tagPair(id int, sh *c12Sheet) (f, r *x05Rec, cls string) {
	mk := sh.Markers[g.r.Intn(len(sh.Markers))]
	s := mk.Samples[g.r.Intn(len(mk.Samples))]
	ft, rt, fp, rp := s.Ft, s.Rt, mk.Fwd, mk.Rev
	cls = "clean"
	switch g.r.Intn(12) {
	case 0:
		ft = g.mutate(ft, 1)
		cls = "tag-1-error"
	case 1:
		ft = mk.Samples[g.r.Intn(len(mk.Samples))].Ft
		rt = mk.Samples[g.r.Intn(len(mk.Samples))].Rt
		cls = "tag-recombined"
	case 2:
		rt = g.mutate(rt, 2)
		cls = "tag-2-errors"
	case 3:
		fp = g.mutate(fp, 1+g.r.Intn(3))
		cls = "primer-errors"
	case 4:
		rp = g.mutate(rp, 1+g.r.Intn(3))
		cls = "primer-errors"
	case 5:
		fp = c12RandSeq(g.r, len(fp))
		cls = "no-primer"
	}
	bl := 15 + g.r.Intn(150)
	amp := c12RandSeq(g.r, g.r.Intn(3)) + ft + c12RandSeq(g.r, mk.Sf) + fp + c12RandSeq(g.r, bl) + x05RC(rp) + c12RandSeq(g.r, mk.Sr) + x05RC(rt) + c12RandSeq(g.r, g.r.Intn(3))
	if g.r.Intn(2) == 0 {
		amp = x05RC(amp)
		cls += "/rev"
	} else {
		cls += "/fwd"
	}
	la, lb := 70+g.r.Intn(40), 70+g.r.Intn(40)
	fs, rs := g.readsOf(amp, la, lb, []float64{0, 0, 0.005}[g.r.Intn(3)])
	f = &x05Rec{ID: fmt.Sprintf("t%04d", id), Seq: fs, Qual: g.quals(len(fs)), Ann: map[string]any{"k": 2*id + 1}}
	r = &x05Rec{ID: fmt.Sprintf("t%04d", id), Seq: rs, Qual: g.quals(len(rs)), Ann: map[string]any{"k": 2*id + 2}}
	return
}

func (g *x05Gen) compRec(id int, fasta bool) *x05Rec {
	n := 1 + g.r.Intn(120)
	b := []byte(c12RandSeq(g.r, n))
	for i := range b {
		if g.r.Intn(15) == 0 {
			b[i] = x05Iupac[g.r.Intn(len(x05Iupac))]
		}
	}
	if g.r.Intn(8) == 0 && n > 30 { // a joined pair
		for i := 10; i < 20; i++ {
			b[i] = '.'
		}
	}
	rec := &x05Rec{ID: fmt.Sprintf("c%04d", id), Seq: string(b), Ann: map[string]any{"k": id}}
	if !fasta {
		rec.Qual = g.quals(n)
	}
	if g.r.Intn(3) == 0 {
		ms := []x05MM{}
		seen := map[string]bool{}
		for k := g.r.Intn(4) + 1; k > 0; k-- {
			m := x05MM{P: 1 + g.r.Intn(n), X: string(c12Nuc[g.r.Intn(4)]), Qx: g.r.Intn(42), Y: string("acgtryn"[g.r.Intn(7)]), Qy: g.r.Intn(42)}
			key := fmt.Sprint(m.X, m.Qx, m.Y, m.Qy)
			if m.X != m.Y && !seen[key] {
				seen[key] = true
				ms = append(ms, m)
			}
		}
		if len(ms) > 0 {
			rec.Ann["pairing_mismatches"] = x05MMAnn(ms)
		}
	}
	return rec
}

// ------------------------------------------------------------------------------------ decoding outputs

var x05PairKeys = map[string]bool{"mode": true, "score": true, "ali_length": true, "seq_ab_match": true, "score_norm": true,
	"ali_dir": true, "seq_a_single": true, "seq_b_single": true, "paring_fast_count": true, "paring_fast_overlap": true,
	"paring_fast_score": true, "pairing_mismatches": true, "k": true}

func x05PairOutOf(r *x05Rec) *x05PairOut {
	if r == nil {
		return &x05PairOut{Seq: []string{}, Qual: []int{}, MM: []x05MM{}, Extra: []string{}}
	}
	a := r.Ann
	o := &x05PairOut{Present: 1, ID: r.ID, Seq: c12Chars(r.Seq), Qual: x05Ints(r.Qual), Mode: x05Str(a, "mode"),
		Score: x05Num(a, "score", -1000000), Ali: x05Num(a, "ali_length", -1), Match: x05Num(a, "seq_ab_match", -1),
		Norm: x05Milli(a, "score_norm"), Dir: x05Str(a, "ali_dir"), Sas: x05Num(a, "seq_a_single", -1), Sbs: x05Num(a, "seq_b_single", -1),
		Fc: x05Num(a, "paring_fast_count", -1), Over: x05Num(a, "paring_fast_overlap", -1), Fs: x05Milli(a, "paring_fast_score"),
		MM: x05MMs(a), Kann: x05Num(a, "k", -1), Extra: []string{}}
	for k := range a {
		if !x05PairKeys[k] {
			o.Extra = append(o.Extra, k)
		}
	}
	sort.Strings(o.Extra)
	return o
}

var x05TagPairRe = regexp.MustCompile(`^Cannot associate sample to the tag pair \(([^:()]*):([^:()]*)\)$`)

func x05TagRecOf(r *x05Rec) *x05TagRec {
	a := r.Ann
	t := &x05TagRec{ID: r.ID, Seq: c12Chars(r.Seq), Qual: x05Ints(r.Qual)}
	an := x05TagAnn{Ek: "none", Epf: []int{}, Epr: []int{}, Smp: x05Str(a, "sample"), Exp: x05Str(a, "experiment"),
		Dir: x05Str(a, "obimultiplex_direction"), Ft: c12Codes(x05Str(a, "obimultiplex_forward_tag")), Rt: c12Codes(x05Str(a, "obimultiplex_reverse_tag")),
		Fm: c12Codes(x05Str(a, "obimultiplex_forward_match")), Rm: c12Codes(x05Str(a, "obimultiplex_reverse_match")),
		Fe: x05Num(a, "obimultiplex_forward_mismatches", 0), Re: x05Num(a, "obimultiplex_reverse_mismatches", 0), Kann: x05Num(a, "k", -1)}
	if _, ok := a["obimultiplex_error"]; ok {
		msg := x05Str(a, "obimultiplex_error")
		an.Emsg = msg
		switch {
		case msg == "No barcode identified":
			an.Ek = "nobarcode"
		case msg == "Cannot demultiplex":
			an.Ek = "multi"
		default:
			if g := x05TagPairRe.FindStringSubmatch(msg); g != nil {
				an.Ek = "tagpair"
				an.Epf, an.Epr = c12Codes(g[1]), c12Codes(g[2])
			} else {
				an.Ek = "other"
			}
		}
	}
	t.Ann = an
	return t
}

func x05CompRecOf(r *x05Rec) *x05CompRec {
	if r == nil {
		return &x05CompRec{Seq: []string{}, Qual: []int{}, MM: []x05MM{}}
	}
	return &x05CompRec{Present: 1, ID: r.ID, Seq: c12Chars(r.Seq), Qual: x05Ints(r.Qual), MM: x05MMs(r.Ann), Kann: x05Num(r.Ann, "k", -1)}
}

// ------------------------------------------------------------------------------------ the three commands

type x05Ctx struct {
	env    *Env
	bindir string
	work   string
	run    int
}

func (c *x05Ctx) dir() string {
	c.run++
	d := filepath.Join(c.work, fmt.Sprintf("run%04d", c.run))
	os.MkdirAll(d, 0o755)
	return d
}

func x05At(recs []*x05Rec, i int) *x05Rec {
	if i < len(recs) {
		return recs[i]
	}
	return nil
}

func x05WgPanic(stderr string) int {
	if strings.Contains(stderr, "sync: WaitGroup is reused before previous Wait has returned") {
		return 1
	}
	return 0
}

func x05Short(s string) string {
	if len(s) > 300 {
		return s[len(s)-300:]
	}
	return s
}

// obipairing on F / R (possibly of different lengths); pair events only when the files have the same length
func (c *x05Ctx) pairing(fs, rs []*x05Rec, cls []string, o x05Opts) {
	d := c.dir()
	x05WriteFile(filepath.Join(d, "f.fastq"), fs)
	x05WriteFile(filepath.Join(d, "r.fastq"), rs)
	res := x05Run(filepath.Join(c.bindir, "obipairing"), append([]string{"-F", "f.fastq", "-R", "r.fastq"}, o.args()...), d)
	outs, problem := x05Parse(res.Out)
	ev := x05Event{Kind: "run", Cmd: "obipairing", Run: c.run, x05Opts: o, Nf: len(fs), Nr: len(rs), Rc: res.Rc, Fids: x05IDs(fs),
		R1: x05IDs(outs), R2: []string{}, U1: []string{}, U2: []string{}, Note: problem, Cls: "run"}
	if res.Rc != 0 {
		ev.Note += " stderr: " + x05Short(res.Err)
	}
	c.env.emit(ev)
	if len(fs) != len(rs) {
		return
	}
	// records are bound to pairs by POSITION in the output (the run event says whether the identifiers follow)
	for i := range fs {
		kb, kqb, k, pan := x05Kern(fs[i], rs[i], &o)
		if pan != "" {
			continue // a kernel panic is C08's business; the command dies on it as well
		}
		c.env.emit(x05Event{Kind: "pair", Cmd: "obipairing", Run: c.run, I: i + 1, Cls: cls[i], x05Opts: o,
			Fid: fs[i].ID, Rid: rs[i].ID, F: c12Chars(fs[i].Seq), Qf: fs[i].Qual, R: c12Chars(rs[i].Seq), Qr: rs[i].Qual,
			Fk: x05Num(fs[i].Ann, "k", -1), Rk: x05Num(rs[i].Ann, "k", -1), Kb: kb, Kqb: kqb, K: k, Out: x05PairOutOf(x05At(outs, i)),
			Fids: []string{}, R1: []string{}, R2: []string{}, U1: []string{}, U2: []string{}})
	}
}

func (c *x05Ctx) tagpcr(fs, rs []*x05Rec, cls []string, o x05Opts, sh *c12Sheet, sheetText string) {
	d := c.dir()
	x05WriteFile(filepath.Join(d, "f.fastq"), fs)
	x05WriteFile(filepath.Join(d, "r.fastq"), rs)
	os.WriteFile(filepath.Join(d, "sheet.csv"), []byte(sheetText), 0o644)
	args := append([]string{"-F", "f.fastq", "-R", "r.fastq", "-t", "sheet.csv", "--out", "out.fastq"}, o.args()...)
	if o.Reorient == 1 {
		args = append(args, "--reorientate")
	}
	if o.Unid == 1 {
		args = append(args, "-u", "unid.fastq")
	}
	if o.Keeperr == 1 {
		args = append(args, "--keep-errors")
	}
	res := x05Run(filepath.Join(c.bindir, "obitagpcr"), args, d)
	r1, p1 := x05ReadFile(filepath.Join(d, "out_R1.fastq"))
	r2, p2 := x05ReadFile(filepath.Join(d, "out_R2.fastq"))
	u1, p3 := x05ReadFile(filepath.Join(d, "unid_R1.fastq"))
	u2, p4 := x05ReadFile(filepath.Join(d, "unid_R2.fastq"))
	note := ""
	for _, p := range []string{p1, p2} {
		if p != "" && p != "missing" {
			note += p + ";"
		}
	}
	if o.Unid == 1 {
		for _, p := range []string{p3, p4} {
			if p != "" && p != "missing" {
				note += p + ";"
			}
		}
	}
	ev := x05Event{Kind: "run", Cmd: "obitagpcr", Run: c.run, x05Opts: o, Nf: len(fs), Nr: len(rs), Rc: res.Rc, Fids: x05IDs(fs),
		R1: x05IDs(r1), R2: x05IDs(r2), U1: x05IDs(u1), U2: x05IDs(u2), Note: note, Cls: "run", SheetText: sheetText}
	if res.Rc != 0 {
		ev.Note += " stderr: " + x05Short(res.Err)
		ev.Wgpanic = x05WgPanic(res.Err)
	}
	c.env.emit(ev)
	if len(fs) != len(rs) || res.Rc != 0 {
		return
	}
	// the identifier of a pair is unique in the run: the output records are looked up by identifier
	find := func(a, b []*x05Rec, id string) (*x05Rec, *x05Rec) {
		for _, x := range a {
			if x.ID == id {
				for _, y := range b {
					if y.ID == id {
						return x, y
					}
				}
			}
		}
		return nil, nil
	}
	es := c12EvSheetOf(sh)
	for i := range fs {
		kb, kqb, k, pan := x05Kern(fs[i], rs[i], &o)
		if pan != "" {
			continue
		}
		e := x05Event{Kind: "tag", Cmd: "obitagpcr", Run: c.run, I: i + 1, Cls: cls[i], x05Opts: o,
			Fid: fs[i].ID, Rid: rs[i].ID, F: c12Chars(fs[i].Seq), Qf: fs[i].Qual, R: c12Chars(rs[i].Seq), Qr: rs[i].Qual,
			Fk: x05Num(fs[i].Ann, "k", -1), Rk: x05Num(rs[i].Ann, "k", -1), Kb: kb, Kqb: kqb, K: k, Sheet: &es, SheetText: sheetText,
			Fids: []string{}, R1: []string{}, R2: []string{}, U1: []string{}, U2: []string{}}
		if a, b := find(r1, r2, fs[i].ID); a != nil {
			e.Where, e.O1, e.O2 = "kept", x05TagRecOf(a), x05TagRecOf(b)
		} else if a, b := find(u1, u2, fs[i].ID); a != nil {
			e.Where, e.O1, e.O2 = "unid", x05TagRecOf(a), x05TagRecOf(b)
		} else {
			e.Where = "none"
			e.O1 = x05TagRecOf(&x05Rec{Ann: map[string]any{}})
			e.O2 = e.O1
		}
		c.env.emit(e)
	}
}

func (c *x05Ctx) complement(recs []*x05Rec, o x05Opts, fasta bool) {
	d := c.dir()
	name := "in.fastq"
	if fasta {
		name = "in.fasta"
	}
	x05WriteFile(filepath.Join(d, name), recs)
	res := x05Run(filepath.Join(c.bindir, "obicomplement"), []string{"--max-cpu", strconv.Itoa(o.Workers), "--batch-size", strconv.Itoa(o.Batch), "--no-progressbar", name}, d)
	outs, problem := x05Parse(res.Out)
	ev := x05Event{Kind: "run", Cmd: "obicomplement", Run: c.run, x05Opts: o, Nf: len(recs), Nr: len(recs), Rc: res.Rc, Fids: x05IDs(recs),
		R1: x05IDs(outs), R2: []string{}, U1: []string{}, U2: []string{}, Note: problem, Cls: "run"}
	if res.Rc != 0 {
		ev.Note += " stderr: " + x05Short(res.Err)
	}
	c.env.emit(ev)
	for i, r := range recs {
		c.env.emit(x05Event{Kind: "comp", Cmd: "obicomplement", Run: c.run, I: i + 1, Cls: "comp", x05Opts: o,
			In: x05CompRecOf(r), Cout: x05CompRecOf(x05At(outs, i)),
			Fids: []string{}, R1: []string{}, R2: []string{}, U1: []string{}, U2: []string{}})
	}
}

// ------------------------------------------------------------------------------------ record

func x05RecOfEvent(id string, seq []string, q []int, k int) *x05Rec {
	return &x05Rec{ID: id, Seq: strings.Join(seq, ""), Qual: x05Ints(q), Ann: map[string]any{"k": k}}
}

func x05SheetOfEv(es *c12EvSheet) *c12Sheet {
	sh := &c12Sheet{ID: es.ID, Mode: es.Mode, Indel: es.Indel == 1}
	for _, m := range es.Markers {
		mk := c12Marker{Fwd: strings.Join(m.Fwd, ""), Rev: strings.Join(m.Rev, ""), Ef: m.Ef, Er: m.Er, Sf: m.Sf, Sr: m.Sr}
		for _, s := range m.Samples {
			mk.Samples = append(mk.Samples, c12Sample{Ft: c12Letters(s.Ft), Rt: c12Letters(s.Rt), Name: s.Name})
		}
		sh.Markers = append(sh.Markers, mk)
	}
	return sh
}

func x05Record(env *Env) {
	c := &x05Ctx{env: env, bindir: env.opt("bindir", ""), work: env.opt("work", "")}
	if c.bindir == "" || c.work == "" {
		fmt.Fprintln(os.Stderr, "X05 record needs --opt bindir= and --opt work=")
		os.Exit(2)
	}
	os.MkdirAll(c.work, 0o755)
	g := &x05Gen{r: env.rng}
	if rp := env.opt("replay", ""); rp != "" { // one logged event: the command is run again on its own input
		var ev x05Event
		data, err := os.ReadFile(rp)
		if err != nil || json.Unmarshal(data, &ev) != nil {
			fmt.Fprintln(os.Stderr, "cannot read the event to replay")
			os.Exit(2)
		}
		switch ev.Kind {
		case "pair":
			c.pairing([]*x05Rec{x05RecOfEvent(ev.Fid, ev.F, ev.Qf, ev.Fk)}, []*x05Rec{x05RecOfEvent(ev.Rid, ev.R, ev.Qr, ev.Rk)}, []string{ev.Cls}, ev.x05Opts)
		case "tag":
			c.tagpcr([]*x05Rec{x05RecOfEvent(ev.Fid, ev.F, ev.Qf, ev.Fk)}, []*x05Rec{x05RecOfEvent(ev.Rid, ev.R, ev.Qr, ev.Rk)}, []string{ev.Cls}, ev.x05Opts,
				x05SheetOfEv(ev.Sheet), ev.SheetText)
		case "comp":
			rec := &x05Rec{ID: ev.In.ID, Seq: strings.Join(ev.In.Seq, ""), Ann: map[string]any{"k": ev.In.Kann}}
			if len(ev.In.Qual) > 0 {
				rec.Qual = ev.In.Qual
			}
			if len(ev.In.MM) > 0 {
				rec.Ann["pairing_mismatches"] = x05MMAnn(ev.In.MM)
			}
			c.complement([]*x05Rec{rec}, ev.x05Opts, rec.Qual == nil)
		case "run":
			if ev.Nf != ev.Nr {
				x05Patience = 6 * time.Second
			}
			var fs, rs []*x05Rec
			var cls []string
			sh := g.sheet(1)
			for i := 0; i < ev.Nf || i < ev.Nr; i++ {
				f, r, cl := g.pair(i + 1)
				if ev.Cmd == "obitagpcr" {
					f, r, cl = g.tagPair(i+1, sh)
				}
				if i < ev.Nf {
					fs = append(fs, f)
					cls = append(cls, cl)
				}
				if i < ev.Nr {
					rs = append(rs, r)
				}
			}
			switch ev.Cmd {
			case "obipairing":
				c.pairing(fs, rs, cls, ev.x05Opts)
			case "obitagpcr":
				c.tagpcr(fs, rs, cls, ev.x05Opts, sh, c12SheetCSV(sh))
			default:
				var recs []*x05Rec
				for i := 0; i < ev.Nf; i++ {
					recs = append(recs, g.compRec(i+1, false))
				}
				c.complement(recs, ev.x05Opts, false)
			}
		}
		return
	}
	n := env.n
	// obipairing
	for run := 0; run < n; run++ {
		o := g.opts()
		np := 3 + g.r.Intn(30)
		var fs, rs []*x05Rec
		var cls []string
		for i := 0; i < np; i++ {
			f, r, cl := g.pair(i + 1)
			fs, rs, cls = append(fs, f), append(rs, r), append(cls, cl)
		}
		c.pairing(fs, rs, cls, o)
	}
	// files of different lengths
	// (a command that does not end within 6 s on a dozen reads is logged with exit status -9)
	x05Patience = 6 * time.Second
	defer func() { x05Patience = 60 * time.Second }()
	for run := 0; run < 4; run++ {
		o := g.opts()
		o.Batch = []int{100, 2, 3, 2}[run]
		nf, nr := 6, 6
		switch run {
		case 0:
			nr = nf + 1
		case 1:
			nr = nf + 2*o.Batch
		case 2:
			nf = nr + 1
		case 3:
			nf = nr + o.Batch
		}
		var fs, rs []*x05Rec
		var cls []string
		for i := 0; i < nf || i < nr; i++ {
			f, r, cl := g.pair(i + 1)
			if i < nf {
				fs, cls = append(fs, f), append(cls, cl)
			}
			if i < nr {
				rs = append(rs, r)
			}
		}
		c.pairing(fs, rs, cls, o)
	}
	x05Patience = 60 * time.Second
	// obitagpcr
	for run := 0; run < n; run++ {
		o := g.opts()
		o.Minov, o.Idn = []int{10, 20, 20}[g.r.Intn(3)], []int{800, 900, 900}[g.r.Intn(3)]
		o.Reorient, o.Unid = g.r.Intn(2), c08b2i(g.r.Intn(3) > 0)
		if g.r.Intn(6) == 0 {
			o.Keeperr = 1
		}
		sh := g.sheet(run + 1)
		np := 3 + g.r.Intn(12)
		var fs, rs []*x05Rec
		var cls []string
		for i := 0; i < np; i++ {
			f, r, cl := g.tagPair(i+1, sh)
			fs, rs, cls = append(fs, f), append(rs, r), append(cls, cl)
		}
		c.tagpcr(fs, rs, cls, o, sh, c12SheetCSV(sh))
	}
	// obicomplement
	for run := 0; run < (n+1)/2; run++ {
		o := g.opts()
		fasta := run%3 == 2
		var recs []*x05Rec
		for i := 0; i < 3+g.r.Intn(30); i++ {
			recs = append(recs, g.compRec(i+1, fasta))
		}
		c.complement(recs, o, fasta)
	}
}

// ------------------------------------------------------------------------------------ replay of model cases

type x05Case struct {
	Kind     string     `json:"kind"`
	Cls      string     `json:"cls"`
	F        []string   `json:"f"`
	R        []string   `json:"r"`
	Qf       []int      `json:"qf"`
	Qr       []int      `json:"qr"`
	Sheet    c12EvSheet `json:"sheet"`
	Reorient int        `json:"reorient"`
	// expected
	Seq   []string `json:"seq"`
	Qual  []int    `json:"qual"`
	TKind string   `json:"tkind"`
	Smp   string   `json:"smp"`
	Dir   string   `json:"dir"`
	Ft    []int    `json:"ft"`
	Rt    []int    `json:"rt"`
	Swap  int      `json:"swap"`
	Amb   int      `json:"amb"`
}

func x05EqS(a, b []string) bool {
	return strings.Join(a, "") == strings.Join(b, "") && len(a) == len(b)
}

func x05Replay(env *Env) {
	cases := loadCases[x05Case](env.cases)
	c := &x05Ctx{env: env, bindir: env.opt("bindir", ""), work: env.opt("work", "")}
	os.MkdirAll(c.work, 0o755)
	o := x05Opts{Minov: 200, Idn: 900, Idd: 1000, Gap10: 20, Scale10: 10, Delta: 5, Fast: 1, Rel: 1, Stat: 1, Workers: 2, Batch: 3, Unid: 1}
	for ci := range cases {
		cs := &cases[ci]
		if env.tooManyFailures() {
			break
		}
		d := c.dir()
		f := &x05Rec{ID: "m1", Seq: strings.Join(cs.F, ""), Qual: x05Ints(cs.Qf), Ann: map[string]any{"k": 1}}
		r := &x05Rec{ID: "m1", Seq: strings.Join(cs.R, ""), Qual: x05Ints(cs.Qr), Ann: map[string]any{"k": 2}}
		x05WriteFile(filepath.Join(d, "f.fastq"), []*x05Rec{f})
		x05WriteFile(filepath.Join(d, "r.fastq"), []*x05Rec{r})
		switch cs.Kind {
		case "join": // obipairing with --min-overlap above the read lengths: the pair can only be joined
			res := x05Run(filepath.Join(c.bindir, "obipairing"), append([]string{"-F", "f.fastq", "-R", "r.fastq"}, o.args()...), d)
			outs, _ := x05Parse(res.Out)
			if res.Rc != 0 || len(outs) != 1 {
				env.fail("X05.replay.join", cs.Cls, fmt.Sprintf("obipairing rc=%d, %d records for one pair", res.Rc, len(outs)), cs)
				continue
			}
			got := outs[0]
			if got.Seq != strings.Join(cs.Seq, "") || fmt.Sprint(got.Qual) != fmt.Sprint(cs.Qual) || x05Str(got.Ann, "mode") != "join" {
				env.fail("X05.replay.join", cs.Cls, fmt.Sprintf("obipairing --min-overlap 200 on f=%s r=%s: got %s %v mode=%s, expected %s %v mode=join",
					f.Seq, r.Seq, got.Seq, got.Qual, x05Str(got.Ann, "mode"), strings.Join(cs.Seq, ""), cs.Qual), cs)
				continue
			}
			env.ok("join/" + cs.Cls)
		case "tagjoin": // obitagpcr on a pair that can only be joined: demultiplexing of forward . dots . rc(reverse)
			sh := x05SheetOfEv(&cs.Sheet)
			os.WriteFile(filepath.Join(d, "sheet.csv"), []byte(c12SheetCSV(sh)), 0o644)
			args := append([]string{"-F", "f.fastq", "-R", "r.fastq", "-t", "sheet.csv", "--out", "out.fastq", "-u", "unid.fastq"}, o.args()...)
			if cs.Reorient == 1 {
				args = append(args, "--reorientate")
			}
			res := x05Run(filepath.Join(c.bindir, "obitagpcr"), args, d)
			r1, _ := x05ReadFile(filepath.Join(d, "out_R1.fastq"))
			r2, _ := x05ReadFile(filepath.Join(d, "out_R2.fastq"))
			u1, _ := x05ReadFile(filepath.Join(d, "unid_R1.fastq"))
			if cs.Amb == 1 {
				env.ok("tagjoin/ambiguous")
				continue
			}
			desc := fmt.Sprintf("obitagpcr --min-overlap 200 reorientate=%d on f=%s r=%s sheet %s: ", cs.Reorient, f.Seq, r.Seq, strings.ReplaceAll(c12SheetCSV(sh), "\n", "|"))
			if res.Rc != 0 && x05WgPanic(res.Err) == 1 {
				env.fail("X05.replay.unidentified_writer_panic", cs.Cls, desc+"exit status "+strconv.Itoa(res.Rc)+" panic: sync: WaitGroup is reused before previous Wait has returned (obiiter.WaitForLastPipe)", cs)
				continue
			}
			if res.Rc != 0 {
				env.fail("X05.replay.tagjoin", cs.Cls, desc+"exit status "+strconv.Itoa(res.Rc)+" "+x05Short(res.Err), cs)
				continue
			}
			if cs.TKind == "assigned" {
				if len(r1) != 1 || len(r2) != 1 || len(u1) != 0 {
					env.fail("X05.replay.tagjoin", cs.Cls, desc+fmt.Sprintf("expected in the main files, found %d/%d there and %d unidentified", len(r1), len(r2), len(u1)), cs)
					continue
				}
				a1, a2 := x05TagRecOf(r1[0]), x05TagRecOf(r2[0])
				e1, e2 := f, r
				if cs.Swap == 1 {
					e1, e2 = r, f
				}
				bad := ""
				switch {
				case a1.Ann.Smp != cs.Smp || a2.Ann.Smp != cs.Smp:
					bad = "sample " + a1.Ann.Smp + "/" + a2.Ann.Smp + " expected " + cs.Smp
				case a1.Ann.Dir != cs.Dir || a2.Ann.Dir != cs.Dir:
					bad = "direction " + a1.Ann.Dir + " expected " + cs.Dir
				case fmt.Sprint(a1.Ann.Ft) != fmt.Sprint(cs.Ft) || fmt.Sprint(a1.Ann.Rt) != fmt.Sprint(cs.Rt):
					bad = fmt.Sprint("tags ", a1.Ann.Ft, a1.Ann.Rt, " expected ", cs.Ft, cs.Rt)
				case r1[0].Seq != e1.Seq || r2[0].Seq != e2.Seq:
					bad = "reads R1=" + r1[0].Seq + " R2=" + r2[0].Seq + " expected R1=" + e1.Seq + " R2=" + e2.Seq
				}
				if bad != "" {
					env.fail("X05.replay.tagjoin", cs.Cls, desc+bad, cs)
					continue
				}
				env.ok("tagjoin/assigned/" + cs.Dir)
				if cs.Swap == 1 {
					env.ok("tagjoin/swapped")
				}
			} else {
				if len(r1) == 0 && len(u1) == 0 {
					env.fail("X05.replay.unidentified_lost", cs.Cls, desc+"exit status 0 and the pair is in no output file (expected in the unidentified files: "+cs.TKind+")", cs)
					continue
				}
				if len(r1) != 0 || len(u1) != 1 {
					env.fail("X05.replay.tagjoin", cs.Cls, desc+fmt.Sprintf("expected unidentified (%s), found %d in the main file and %d unidentified", cs.TKind, len(r1), len(u1)), cs)
					continue
				}
				if got := x05TagRecOf(u1[0]).Ann.Ek; got != cs.TKind {
					env.fail("X05.replay.tagjoin", cs.Cls, desc+"error "+got+" ("+x05TagRecOf(u1[0]).Ann.Emsg+") expected "+cs.TKind, cs)
					continue
				}
				env.ok("tagjoin/" + cs.TKind)
			}
		}
	}
}

// C14 (life of a Taxonomy object): every history of AddNewTaxa / ReindexParent calls exported by
// spec/L0_kernel/TaxLife.tla that ends with a successful indexing is replayed on a real obitax.Taxonomy;
// what the taxonomy then answers (Path, rank along the path, LCA, IsSubCladeOf) is compared with what the
// declarations say (computed by TLC, never here).
package main

import (
	"bufio"
	"encoding/json"
	"fmt"
	"os"
	"strconv"
	"strings"

	"git.metabarcoding.org/obitools/obitools4/obitools4/pkg/obitax"
)

func init() {
	register("C14life", &driver{replay: replayC14Life})
}

type c14lifeOp struct {
	Op string `json:"op"`
	T  int    `json:"t"`
	P  int    `json:"p"`
	R  string `json:"r"`
}

type c14lifeCase struct {
	Ops   []c14lifeOp `json:"ops"`
	Taxa  []int       `json:"taxa"`
	Paths [][]int     `json:"paths"`
	Ranks [][]string  `json:"ranks"`
	Lca   [][]int     `json:"lca"`
}

func (c *c14lifeCase) history() string {
	var b strings.Builder
	for _, o := range c.Ops {
		if o.Op == "reindex" {
			b.WriteString(" reindex;")
		} else {
			fmt.Fprintf(&b, " declare(%d under %d, %s);", o.T, o.P, o.R)
		}
	}
	return b.String()
}

func c14lifeClass(c *c14lifeCase) string {
	redecl, seen, reidx := 0, map[int]bool{1: true}, 0
	for _, o := range c.Ops {
		if o.Op == "reindex" {
			reidx++
		} else {
			if seen[o.T] {
				redecl++
			}
			seen[o.T] = true
		}
	}
	cls := "plain"
	if redecl > 0 {
		cls = "redeclared"
	}
	if reidx > 1 {
		cls += "+reindexed-twice"
	}
	return cls
}

func c14lifeOne(env *Env, c *c14lifeCase) {
	cls := c14lifeClass(c)
	var t *obitax.Taxonomy
	complete := map[int]int{1: 1} // taxid -> declared parent
	prob := protected(func() {
		t = obitax.NewTaxonomy()
		if _, err := t.AddNewTaxa(1, 1, "family", false, true); err != nil {
			panic(err)
		}
		for k, o := range c.Ops {
			switch o.Op {
			case "declare":
				_, known := complete[o.T]
				if _, err := t.AddNewTaxa(o.T, o.P, o.R, known, true); err != nil {
					panic(fmt.Sprintf("op %d: AddNewTaxa: %v", k, err))
				}
				complete[o.T] = o.P
			case "reindex":
				missing := false
				for _, p := range complete {
					if _, ok := complete[p]; !ok {
						missing = true
					}
				}
				err := t.ReindexParent()
				if (err != nil) != missing {
					panic(fmt.Sprintf("op %d: ReindexParent returned %v, a declared parent is missing: %v", k, err, missing))
				}
			}
		}
	})
	if prob != "" {
		env.fail("C14.life.build", cls, fmt.Sprintf("history%s: %s", c.history(), prob), c)
		return
	}
	for i, id := range c.Taxa {
		var gotPath []int
		var gotRanks []string
		prob := protected(func() {
			n, err := t.Taxon(id)
			if err != nil {
				panic(err)
			}
			p, err := n.Path()
			if err != nil {
				panic(err)
			}
			for _, x := range *p {
				gotPath = append(gotPath, x.Taxid())
				gotRanks = append(gotRanks, x.Rank())
			}
		})
		if prob != "" || fmt.Sprint(gotPath) != fmt.Sprint(c.Paths[i]) {
			env.fail("C14.life.path", cls, fmt.Sprintf("after%s Path(%d) = %v %s, the declarations say %v", c.history(), id, gotPath, prob, c.Paths[i]), c)
			continue
		}
		if fmt.Sprint(gotRanks) != fmt.Sprint(c.Ranks[i]) {
			env.fail("C14.life.rank", cls, fmt.Sprintf("after%s the ranks along Path(%d) are %v, the declarations say %v", c.history(), id, gotRanks, c.Ranks[i]), c)
			continue
		}
		env.ok("life." + cls)
		for j, jd := range c.Taxa {
			got, sub := -1, false
			prob := protected(func() {
				a, _ := t.Taxon(id)
				b, _ := t.Taxon(jd)
				l, err := a.LCA(b)
				if err != nil {
					panic(err)
				}
				got = l.Taxid()
				sub = a.IsSubCladeOf(b)
			})
			if prob != "" || got != c.Lca[i][j] {
				env.fail("C14.life.lca", cls, fmt.Sprintf("after%s LCA(%d,%d) = %d %s, the declarations say %d", c.history(), id, jd, got, prob, c.Lca[i][j]), c)
			} else if sub != (c.Lca[i][j] == jd) {
				env.fail("C14.life.sub", cls, fmt.Sprintf("after%s IsSubCladeOf(%d,%d) = %v, the declarations say %v", c.history(), id, jd, sub, c.Lca[i][j] == jd), c)
			} else {
				env.ok("life.pair." + cls)
			}
		}
	}
}

// replayC14Life streams the case file (millions of histories in the thorough tier): blocks of lines are decoded
// and replayed in parallel, never the whole file in memory.  --opt every=k keeps one history in k.
func replayC14Life(env *Env) {
	f, err := os.Open(env.cases)
	if err != nil {
		fmt.Fprintln(os.Stderr, err)
		os.Exit(2)
	}
	defer f.Close()
	every := env.optInt("every", 1)
	r := bufio.NewReaderSize(f, 1<<20)
	block := make([][]byte, 0, 20000)
	lineNo := 0
	flush := func() {
		parallel(len(block), 0, func(i int) {
			if env.tooManyFailures() {
				return
			}
			line := block[i]
			var raw json.RawMessage = line
			var s string
			if json.Unmarshal(line, &s) == nil {
				raw = json.RawMessage(s)
			}
			var c c14lifeCase
			if err := json.Unmarshal(raw, &c); err != nil {
				fmt.Fprintln(os.Stderr, "bad case line:", err, strconv.Quote(string(line)))
				os.Exit(2)
			}
			c14lifeOne(env, &c)
		})
		block = block[:0]
	}
	for {
		line, err := r.ReadBytes('\n')
		if len(strings.TrimSpace(string(line))) > 0 {
			if lineNo%every == int(env.seed)%every {
				block = append(block, line)
			}
			lineNo++
			if len(block) == cap(block) {
				flush()
			}
		}
		if err != nil {
			break
		}
	}
	flush()
}

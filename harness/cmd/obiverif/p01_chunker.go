package main

// C01 - parsed records do not depend on chunk boundaries, transport or parser workers.
//
// replay: every file exported by TLC from spec/L2_io/Chunker.tla (text rendered from record descriptors by
// TextFasta/TextFastq/TextFlat, with the record start offsets and the expected parse of every record) is
// read by the real ReadSeqFileChunk with EVERY buffer size 2..len+1 and four kinds of io.Reader (whole,
// one byte at a time, random short reads, data returned together with EOF); the chunks must satisfy the
// abstract contract of Chunker.tla (numbered 0.., each one starts where a record starts, put end to end
// they are the file up to end-of-line characters) and the real chunk parsers applied to the chunks must
// return exactly the expected records.  The same text is also parsed as one chunk, with the quality
// reading switched off, through ReadFasta/ReadFastq/ReadGenbank/ReadEMBL with 1-4 workers, and through
// the kseq C reader (ReadFastSeqFromFile): the two FASTA/FASTQ parsers must agree with the descriptors.
//
// Nothing is computed here that the specification did not give: the cut positions are compared with
// `starts`, the records with `recs`.

import (
	"bytes"
	"fmt"
	"io"
	"math/rand"
	"os"
	"path/filepath"
	"sort"
	"strings"
	"sync"
	"sync/atomic"
	"syscall"
	"testing/iotest"
	"time"

	"git.metabarcoding.org/obitools/obitools4/obitools4/pkg/obiformats"
	"git.metabarcoding.org/obitools/obitools4/obitools4/pkg/obiiter"
	"git.metabarcoding.org/obitools/obitools4/obitools4/pkg/obiseq"
)

type c01Rec struct {
	Id      string `json:"id"`
	Def     string `json:"def"`
	Seq     string `json:"seq"`
	Qual    []int  `json:"qual"`
	Taxid   int    `json:"taxid"`
	Sciname string `json:"sciname"`
}

type c01Case struct {
	Fmt     string   `json:"fmt"`
	Idx     []int    `json:"idx"`
	Fin     int      `json:"fin"`
	Text    string   `json:"text"`
	Tags    string   `json:"tags"`
	Starts  []int    `json:"starts"`
	Recs    []c01Rec `json:"recs"`
	Recsnoq []c01Rec `json:"recsnoq"`
	// set in a violation report, to replay one buffer size / reader kind only
	B       int    `json:"B,omitempty"`
	Variant string `json:"variant,omitempty"`
	Stage   string `json:"stage,omitempty"`
}

func init() {
	register("C01", &driver{replay: replayC01, record: recordC01})
}

const c01Patience = 30 * time.Second

var c01Variants = []string{"whole", "onebyte", "short", "dataerr"}

// ------------------------------------------------------------------------------ observation

func c01Observe(s *obiseq.BioSequence) c01Rec {
	r := c01Rec{Id: s.Id(), Def: s.Definition(), Seq: string(s.Sequence()), Qual: []int{}}
	if s.HasQualities() {
		for _, q := range s.Qualities() {
			r.Qual = append(r.Qual, int(q))
		}
	}
	if s.HasAttribute("taxid") {
		if v, ok := s.GetIntAttribute("taxid"); ok {
			r.Taxid = v
		} else {
			r.Taxid = -1
		}
	}
	if s.HasAttribute("scientific_name") {
		if v, ok := s.GetStringAttribute("scientific_name"); ok {
			r.Sciname = v
		} else {
			r.Sciname = "?"
		}
	}
	return r
}

func c01ObserveSlice(sl obiseq.BioSequenceSlice) []c01Rec {
	out := make([]c01Rec, 0, len(sl))
	for _, s := range sl {
		out = append(out, c01Observe(s))
	}
	return out
}

func intsEq(a, b []int) bool {
	if len(a) != len(b) {
		return false
	}
	for i := range a {
		if a[i] != b[i] {
			return false
		}
	}
	return true
}

// c01Diff names the first field in which the observed records differ from the expected ones.
func c01Diff(got, want []c01Rec) (string, string) {
	for i := 0; i < len(got) && i < len(want); i++ {
		g, w := got[i], want[i]
		switch {
		case g.Id != w.Id:
			return "id", fmt.Sprintf("record %d: id %q, expected %q", i, g.Id, w.Id)
		case g.Def != w.Def:
			return "definition", fmt.Sprintf("record %d (%s): definition %q, expected %q", i, w.Id, g.Def, w.Def)
		case g.Seq != w.Seq:
			return "sequence", fmt.Sprintf("record %d (%s): sequence %q, expected %q", i, w.Id, clip(g.Seq), clip(w.Seq))
		case !intsEq(g.Qual, w.Qual):
			return "quality", fmt.Sprintf("record %d (%s): qualities %v, expected %v", i, w.Id, clipInts(g.Qual), clipInts(w.Qual))
		case g.Taxid != w.Taxid:
			return "taxid", fmt.Sprintf("record %d (%s): taxid %d, expected %d", i, w.Id, g.Taxid, w.Taxid)
		case g.Sciname != w.Sciname:
			return "scientific_name", fmt.Sprintf("record %d (%s): scientific_name %q, expected %q", i, w.Id, g.Sciname, w.Sciname)
		}
	}
	if len(got) != len(want) {
		return "count", fmt.Sprintf("%d records, expected %d", len(got), len(want))
	}
	return "", ""
}

func clip(s string) string {
	if len(s) > 60 {
		return s[:60] + "..."
	}
	return s
}
func clipInts(s []int) []int {
	if len(s) > 20 {
		return s[:20]
	}
	return s
}

// ------------------------------------------------------------------------------ real code entry points

func c01Splitter(format string) obiformats.LastSeqRecord {
	switch format {
	case "fasta":
		return obiformats.EndOfLastFastaEntry
	case "fastq":
		return obiformats.EndOfLastFastqEntry
	}
	return obiformats.EndOfLastFlatFileEntry
}

func c01Parser(format string, withQual bool) obiformats.SeqFileChunkParser {
	switch format {
	case "fasta":
		return obiformats.FastaChunkParser()
	case "fastq":
		return obiformats.FastqChunkParser(33, withQual)
	case "genbank":
		return obiformats.GenbankChunkParser(false)
	}
	return obiformats.EmblChunkParser(false)
}

// guarded runs f in its own goroutine: a log.Fatal inside the library ends that goroutine only
// (common.go), a panic is caught.  Returns "", "fatal", "panic: ..." or "timeout".
func guarded(f func()) string { return guardedFor(c01Patience, f) }

func guardedFor(patience time.Duration, f func()) string {
	done := make(chan string, 1)
	go func() {
		res := "fatal"
		defer func() {
			if r := recover(); r != nil {
				res = fmt.Sprint("panic: ", r)
			}
			done <- res
		}()
		f()
		res = ""
	}()
	select {
	case r := <-done:
		return r
	case <-time.After(patience):
		return "timeout"
	}
}

type shortReader struct {
	r   io.Reader
	rng *rand.Rand
}

func (s *shortReader) Read(p []byte) (int, error) {
	if len(p) == 0 {
		return 0, nil
	}
	n := 1 + s.rng.Intn(7)
	if n > len(p) {
		n = len(p)
	}
	return s.r.Read(p[:n])
}

func c01Reader(variant string, data []byte, seed int64) io.Reader {
	switch variant {
	case "onebyte":
		return iotest.OneByteReader(bytes.NewReader(data))
	case "short":
		return &shortReader{bytes.NewReader(data), rand.New(rand.NewSource(seed))}
	case "dataerr":
		return iotest.DataErrReader(bytes.NewReader(data))
	}
	return bytes.NewReader(data)
}

type c01Chunk struct {
	order int
	data  []byte
}

// c01Chunks drains the real ReadSeqFileChunk.  status: "", "timeout" (neither a chunk nor the close in time), "fatal".
// After a few timeouts the remaining runs are skipped (status "skipped"): a reader that hangs would otherwise
// cost the patience for every buffer size.
var c01Hangs int64

func c01Chunks(format string, reader io.Reader, B int) ([]c01Chunk, string) {
	if atomic.LoadInt64(&c01Hangs) >= 3 {
		return nil, "skipped"
	}
	f0 := fatalCount()
	ch := obiformats.ReadSeqFileChunk("verif", reader, make([]byte, B), c01Splitter(format))
	var out []c01Chunk
	for {
		select {
		case c, ok := <-ch:
			if !ok {
				return out, ""
			}
			out = append(out, c01Chunk{c.Order, c.Raw.Bytes()})
			continue
		default:
		}
		// slow path: wait with a deadline
		timer := time.NewTimer(c01Patience)
		select {
		case c, ok := <-ch:
			timer.Stop()
			if !ok {
				return out, ""
			}
			out = append(out, c01Chunk{c.Order, c.Raw.Bytes()})
		case <-timer.C:
			if fatalCount() > f0 {
				return out, "fatal"
			}
			atomic.AddInt64(&c01Hangs, 1)
			return out, "timeout"
		}
	}
}

// c01Fail throttles: a defect shows on thousands of (file, B, reader) combinations; the first few of every
// (assertion, class) are reported in full, the others are only counted.
var c01Seen sync.Map

func c01Fail(env *Env, assert, class, detail string, c any) {
	v, _ := c01Seen.LoadOrStore(assert+"|"+class, new(int64))
	if atomic.AddInt64(v.(*int64), 1) > 3 {
		atomic.AddInt64(&env.failed, 1)
		return
	}
	env.fail(assert, class, detail, c)
	env.mu.Lock()
	env.w.Flush() // a panic inside a goroutine of the library would lose the buffered lines
	env.mu.Unlock()
}

// c01Count: coverage counters say what was EXERCISED (whether it passed or not)
func c01Count(env *Env, class string) {
	env.mu.Lock()
	env.classes[class]++
	env.mu.Unlock()
}

func c01Pass(env *Env) { atomic.AddInt64(&env.checked, 1) }

func isEol(c byte) bool { return c == '\n' || c == '\r' }

type c01Cut struct{ from, to, order int }

// c01Locate places the chunks in the file: each chunk must be the bytes that follow the previous one,
// up to end-of-line characters.  Returns the cuts or a reason.
func c01Locate(data []byte, chunks []c01Chunk) ([]c01Cut, string) {
	pos := 0
	cuts := make([]c01Cut, 0, len(chunks))
	for k, c := range chunks {
		if k > 0 || !bytes.HasPrefix(data[pos:], c.data) {
			for pos < len(data) && isEol(data[pos]) {
				pos++
			}
		}
		if !bytes.HasPrefix(data[pos:], c.data) {
			return cuts, fmt.Sprintf("chunk %d (%d bytes, %q...) is not the text found at offset %d of the file", k, len(c.data), clip(string(c.data)), pos)
		}
		if len(c.data) == 0 {
			return cuts, fmt.Sprintf("chunk %d is empty", k)
		}
		cuts = append(cuts, c01Cut{pos, pos + len(c.data), c.order})
		pos += len(c.data)
	}
	for p := pos; p < len(data); p++ {
		if !isEol(data[p]) {
			return cuts, fmt.Sprintf("the chunks end at offset %d of %d: the tail %q is lost", pos, len(data), clip(string(data[pos:])))
		}
	}
	return cuts, ""
}

func c01TagClass(c *c01Case, B int) string {
	if B >= len(c.Text) {
		return c.Fmt + "/whole"
	}
	return c.Fmt + "/" + c.Tags[B-1:B+1]
}

// c01CheckChunked: one (file, B, reader kind).
func c01CheckChunked(env *Env, c *c01Case, B int, variant string, starts map[int]bool) {
	data := []byte(c.Text)
	cl := c01TagClass(c, B)   // coverage class: where the first buffer ends
	fcl := c.Fmt + "/chunked" // violation class
	rc := *c
	rc.B, rc.Variant, rc.Stage = B, variant, "chunked"
	c01Count(env, cl)
	chunks, st := c01Chunks(c.Fmt, c01Reader(variant, data, int64(B)*7919+int64(len(data))), B)
	if st == "skipped" {
		return
	}
	if st != "" {
		c01Fail(env, "C01.chunk."+st, fcl, fmt.Sprintf("ReadSeqFileChunk(B=%d, %s reader) on a %d-byte %s file: %s after %d chunks %v",
			B, variant, len(data), c.Fmt, st, len(chunks), fatalMessages()), rc)
		return
	}
	nc := len(chunks)
	if nc > 3 {
		nc = 3
	}
	c01Count(env, fmt.Sprintf("%s/chunks=%d", c.Fmt, nc))
	for k, ck := range chunks {
		if ck.order != k {
			c01Fail(env, "C01.chunk.order", fcl, fmt.Sprintf("B=%d: chunk %d carries order %d", B, k, ck.order), rc)
			return
		}
	}
	cuts, why := c01Locate(data, chunks)
	if why != "" {
		c01Fail(env, "C01.chunk.cover", fcl, fmt.Sprintf("B=%d %s: %s", B, variant, why), rc)
		return
	}
	for _, ct := range cuts {
		if !starts[ct.from] {
			c01Fail(env, "C01.chunk.boundary", fcl, fmt.Sprintf("B=%d %s: chunk %d starts at offset %d (%q...), not at a record start %v",
				B, variant, ct.order, ct.from, clip(c.Text[ct.from:]), c.Starts), rc)
			return
		}
	}
	// the real parser on every chunk
	parser := c01Parser(c.Fmt, true)
	var got []c01Rec
	for k, ck := range chunks {
		var sl obiseq.BioSequenceSlice
		buf := ck.data
		st := guarded(func() { sl, _ = parser("verif", bytes.NewBuffer(buf)) })
		if st != "" {
			c01Fail(env, "C01.parse.fatal", fcl, fmt.Sprintf("B=%d: parser on chunk %d [%d,%d) of a well-formed file: %s %v", B, k, cuts[k].from, cuts[k].to, st, fatalMessages()), rc)
			return
		}
		got = append(got, c01ObserveSlice(sl)...)
	}
	if field, d := c01Diff(got, c.Recs); field != "" {
		c01Fail(env, "C01.chunked."+field, fcl, fmt.Sprintf("B=%d (first buffer ends in %s) %s reader, %d chunks: %s", B, cl, variant, len(chunks), d), rc)
		return
	}
	c01Pass(env)
}

func c01Drain(it obiiter.IBioSequence) (orders []int, recs []c01Rec, status string) {
	return c01DrainFor(c01Patience, it)
}

// c01DrainFor reads the iterator to its end.  A log.Fatal inside a reader goroutine (captured: it ends that
// goroutine only) usually leaves the iterator open for ever: once a fatal has been seen and nothing has
// arrived for 2 s the status is "fatal"; without fatal the status is "timeout" after `patience`.
// After a few hung readers the remaining ones are not waited for more than 5 s.
var c01HungReaders int64

func c01DrainFor(patience time.Duration, it obiiter.IBioSequence) (orders []int, recs []c01Rec, status string) {
	type bt struct {
		o  int
		rs []c01Rec
	}
	if atomic.LoadInt64(&c01HungReaders) >= 3 && patience > 5*time.Second {
		patience = 5 * time.Second
	}
	f0 := fatalCount()
	ch := make(chan bt, 64)
	end := make(chan string, 1)
	go func() {
		res := "fatal"
		defer func() {
			if r := recover(); r != nil {
				res = fmt.Sprint("panic: ", r)
			}
			end <- res
		}()
		for it.Next() {
			b := it.Get()
			ch <- bt{b.Order(), c01ObserveSlice(b.Slice())}
			// the consumer is done with the batch: like obigrep with the records it rejects or a writer with the
			// records it has formatted, it gives the records back, which feeds the slice pool the readers draw from
			for _, s := range b.Slice() {
				s.Recycle()
			}
		}
		res = ""
	}()
	var bs []bt
	deadline := time.Now().Add(patience)
	last := time.Now()
	tick := time.NewTicker(100 * time.Millisecond)
	defer tick.Stop()
loop:
	for {
		select {
		case b := <-ch:
			bs = append(bs, b)
			last = time.Now()
		case status = <-end:
			for len(ch) > 0 {
				bs = append(bs, <-ch)
			}
			break loop
		case <-tick.C:
			if fatalCount() > f0 && time.Since(last) > 2*time.Second {
				status = "fatal"
				atomic.AddInt64(&c01HungReaders, 1)
				break loop
			}
			if time.Now().After(deadline) {
				status = "timeout"
				atomic.AddInt64(&c01HungReaders, 1)
				break loop
			}
		}
	}
	for _, b := range bs {
		orders = append(orders, b.o)
	}
	sort.SliceStable(bs, func(i, j int) bool { return bs[i].o < bs[j].o })
	for _, b := range bs {
		recs = append(recs, b.rs...)
	}
	return
}

func c01OrdersOK(orders []int) bool {
	seen := map[int]bool{}
	for _, o := range orders {
		if o < 0 || o >= len(orders) || seen[o] {
			return false
		}
		seen[o] = true
	}
	return true
}

var c01FlatMu sync.Mutex // ReadGenbank / ReadEMBL allocate a 128 MiB buffer per call
var c01Tmp string
var c01TmpSeq int64

func c01TmpFile(ext string) string {
	n := atomic.AddInt64(&c01TmpSeq, 1)
	return filepath.Join(c01Tmp, fmt.Sprintf("f%d%s", n, ext))
}

// c01CheckWhole: the text as one chunk, option "no qualities", the readers with several workers, kseq.
func c01CheckWhole(env *Env, c *c01Case) {
	data := []byte(c.Text)
	cl := c.Fmt + "/whole"
	rc := *c
	rc.Stage = "whole"
	run := func(assert string, withQual bool, want []c01Rec) {
		var sl obiseq.BioSequenceSlice
		parser := c01Parser(c.Fmt, withQual)
		if st := guarded(func() { sl, _ = parser("verif", bytes.NewBuffer(append([]byte(nil), data...))) }); st != "" {
			c01Fail(env, "C01.parse.fatal", cl, fmt.Sprintf("parser on the whole well-formed file: %s %v", st, fatalMessages()), rc)
			return
		}
		if field, d := c01Diff(c01ObserveSlice(sl), want); field != "" {
			c01Fail(env, assert+"."+field, cl, "whole file as one chunk: "+d, rc)
			return
		}
		c01Pass(env)
	}
	c01Count(env, cl)
	run("C01.whole", true, c.Recs)
	if c.Fmt == "fastq" {
		c01Count(env, "fastq/noqual")
		run("C01.noqual", false, c.Recsnoq)
	}
}

// c01CheckReaders: the goroutines of the library itself (a panic there ends the process: run after the
// chunk-level checks, and only if they found nothing).
var c01RetryMu sync.Mutex

func c01CheckReaders(env *Env, c *c01Case, heavy bool) {
	data := []byte(c.Text)
	cl := c.Fmt + "/whole"
	rc := *c
	rc.Stage = "readers"
	// the readers (1 MiB / 128 MiB buffers: one chunk), 1..4 parsing workers
	for _, w := range []int{1, 3} {
		if (c.Fmt == "genbank" || c.Fmt == "embl") && !heavy {
			break
		}
		// A time-out is only believed when it repeats alone, with a long patience: the flat-file readers allocate a
		// 128 MiB buffer per call and many cases run at once, so a loaded machine can be slow without hanging.
		readWhole := func(patience time.Duration) (orders []int, recs []c01Rec, st string, err error) {
			var it obiiter.IBioSequence
			opts := []obiformats.WithOption{obiformats.OptionsParallelWorkers(w), obiformats.OptionFastSeqDoNotParseHeader(), obiformats.OptionsSource("verif")}
			if c.Fmt == "genbank" || c.Fmt == "embl" {
				c01FlatMu.Lock() // taken OUTSIDE the timed section
				defer c01FlatMu.Unlock()
			}
			st = guardedFor(patience, func() {
				switch c.Fmt {
				case "fasta":
					it, err = obiformats.ReadFasta(bytes.NewReader(data), opts...)
				case "fastq":
					it, err = obiformats.ReadFastq(bytes.NewReader(data), opts...)
				case "genbank":
					it, err = obiformats.ReadGenbank(bytes.NewReader(data), opts...)
				case "embl":
					it, err = obiformats.ReadEMBL(bytes.NewReader(data), opts...)
				}
			})
			if st != "" || err != nil {
				return
			}
			orders, recs, st = c01DrainFor(patience, it)
			return
		}
		orders, recs, st, err := readWhole(c01Patience)
		if st == "timeout" {
			c01RetryMu.Lock()
			orders, recs, st, err = readWhole(90 * time.Second)
			c01RetryMu.Unlock()
			c01Count(env, "timeout-retried")
		}
		if st != "" || err != nil {
			c01Fail(env, "C01.reader.fatal", cl, fmt.Sprintf("reader with %d workers: %s %v %v", w, st, err, fatalMessages()), rc)
			continue
		}
		if !c01OrdersOK(orders) {
			c01Fail(env, "C01.reader.order", cl, fmt.Sprintf("reader with %d workers delivered batches numbered %v", w, orders), rc)
			continue
		}
		if field, d := c01Diff(recs, c.Recs); field != "" {
			c01Fail(env, "C01.reader."+field, cl, fmt.Sprintf("Read%s with %d workers: %s", c.Fmt, w, d), rc)
			continue
		}
		c01Count(env, c.Fmt+"/reader")
		c01Pass(env)
	}
	// the second FASTA/FASTQ parser: kseq (the stdin path of the commands)
	if c.Fmt == "fasta" || c.Fmt == "fastq" {
		c01Count(env, c.Fmt+"/kseq")
		path := c01TmpFile("." + c.Fmt)
		if err := os.WriteFile(path, data, 0o644); err != nil {
			fmt.Fprintln(os.Stderr, err)
			os.Exit(2)
		}
		defer os.Remove(path)
		var it obiiter.IBioSequence
		var err error
		st := guarded(func() {
			it, err = obiformats.ReadFastSeqFromFile(path, obiformats.OptionFastSeqDoNotParseHeader(), obiformats.OptionsBatchSize(2))
		})
		if st != "" || err != nil {
			c01Fail(env, "C01.kseq.fatal", cl, fmt.Sprintf("ReadFastSeqFromFile: %s %v %v", st, err, fatalMessages()), rc)
			return
		}
		orders, recs, st := c01Drain(it)
		if st != "" {
			c01Fail(env, "C01.kseq.fatal", cl, fmt.Sprintf("ReadFastSeqFromFile: %s %v", st, fatalMessages()), rc)
			return
		}
		if !c01OrdersOK(orders) {
			c01Fail(env, "C01.kseq.order", cl, fmt.Sprintf("kseq reader delivered batches numbered %v", orders), rc)
			return
		}
		if field, d := c01Diff(recs, c.Recs); field != "" {
			eol := "lf"
			if strings.Contains(c.Text, "\r") {
				eol = "crlf"
			}
			c01Fail(env, "C01.kseq."+field, c.Fmt+"/kseq/"+eol, "kseq C reader (ReadFastSeqFromFile): "+d, rc)
			return
		}
		c01Pass(env)
	}
}

func c01Setup() {
	var lim syscall.Rlimit
	if syscall.Getrlimit(syscall.RLIMIT_NOFILE, &lim) == nil {
		lim.Cur = lim.Max
		syscall.Setrlimit(syscall.RLIMIT_NOFILE, &lim) // ReadFastSeqFromFile never closes its file
	}
	base := os.Getenv("VERIF_SCRATCH")
	d, err := os.MkdirTemp(base, "c01-")
	if err != nil {
		fmt.Fprintln(os.Stderr, err)
		os.Exit(2)
	}
	c01Tmp = d
}

func replayC01(env *Env) {
	c01Setup()
	defer os.RemoveAll(c01Tmp)
	cases := loadCases[c01Case](env.cases)
	rotate := env.opt("variants", "all") == "rotate"
	heavyEvery := env.optInt("flatreaders", 4) // ReadGenbank/ReadEMBL (128 MiB buffers) on one flat case out of N
	// work items: (case, B range) so that long files do not serialise the run
	type item struct {
		c      *c01Case
		whole  bool
		heavy  bool
		b0, b1 int
	}
	var items, readers []item
	for i := range cases {
		c := &cases[i]
		if c.Stage == "readers" { // replay of one reported violation
			readers = append(readers, item{c: c, heavy: true})
			continue
		}
		if c.Stage == "whole" {
			items = append(items, item{c: c, whole: true})
			continue
		}
		if c.B > 0 {
			items = append(items, item{c: c, b0: c.B, b1: c.B})
			continue
		}
		items = append(items, item{c: c, whole: true})
		readers = append(readers, item{c: c, heavy: i%heavyEvery == 0})
		n := len(c.Text)
		for b := 2; b <= n+1; b += 64 {
			e := b + 63
			if e > n+1 {
				e = n + 1
			}
			items = append(items, item{c: c, b0: b, b1: e})
		}
	}
	parallel(len(items), 0, func(i int) {
		it := items[i]
		if it.whole {
			c01CheckWhole(env, it.c)
			return
		}
		starts := map[int]bool{}
		for _, s := range it.c.Starts {
			starts[s] = true
		}
		flat := it.c.Fmt == "genbank" || it.c.Fmt == "embl"
		for b := it.b0; b <= it.b1; b++ {
			for k, v := range c01Variants {
				if it.c.Variant != "" && v != it.c.Variant {
					continue
				}
				// rotate (quick tier, flat files): the plain reader and one of the three others for every B
				if rotate && flat && it.c.Variant == "" && k > 0 && k != 1+b%3 {
					continue
				}
				c01CheckChunked(env, it.c, b, v, starts)
			}
		}
	})
	if atomic.LoadInt64(&env.failed) == 0 || len(items) == 0 {
		parallel(len(readers), 0, func(i int) { c01CheckReaders(env, readers[i].c, readers[i].heavy) })
	} else {
		env.emit(map[string]any{"note": "the reader-level checks (goroutines of the library) were skipped: the chunk-level checks already failed"})
	}
	for i := 0; i < len(cases); i += 1 + len(cases)/3 {
		c := cases[i]
		env.sample(map[string]any{"fmt": c.Fmt, "shapes": c.Idx, "text": c.Text, "starts": c.Starts, "expected": c.Recs})
	}
}

module obiverif

go 1.23.1

require (
	git.metabarcoding.org/obitools/obitools4/obitools4 v0.0.0
	github.com/dsnet/compress v0.0.1
	github.com/klauspost/compress v1.17.2
	github.com/klauspost/pgzip v1.2.6
	github.com/sirupsen/logrus v1.9.3
	github.com/ulikunitz/xz v0.5.11
	gopkg.in/yaml.v3 v3.0.1
)

require (
	github.com/DavidGamba/go-getoptions v0.28.0 // indirect
	github.com/PaesslerAG/gval v1.2.2 // indirect
	github.com/barkimedes/go-deepcopy v0.0.0-20220514131651-17c30cfc62df // indirect
	github.com/dlclark/regexp2 v1.11.4 // indirect
	github.com/gabriel-vasile/mimetype v1.4.3 // indirect
	github.com/goccy/go-json v0.10.3 // indirect
	github.com/goombaio/orderedmap v0.0.0-20180924084748-ba921b7e2419 // indirect
	github.com/goombaio/orderedset v0.0.0-20180925151225-8e67b20a9b77 // indirect
	github.com/mattn/go-runewidth v0.0.15 // indirect
	github.com/mitchellh/colorstring v0.0.0-20190213212951-d06e56a500db // indirect
	github.com/pbnjay/memory v0.0.0-20210728143218-7b4eea64cf58 // indirect
	github.com/rivo/uniseg v0.4.4 // indirect
	github.com/rrethy/ahocorasick v1.0.0 // indirect
	github.com/schollz/progressbar/v3 v3.13.1 // indirect
	github.com/shopspring/decimal v1.3.1 // indirect
	github.com/tevino/abool/v2 v2.1.0 // indirect
	golang.org/x/exp v0.0.0-20231006140011-7918f672742d // indirect
	golang.org/x/net v0.17.0 // indirect
	golang.org/x/sys v0.17.0 // indirect
	golang.org/x/term v0.13.0 // indirect
	gonum.org/v1/gonum v0.14.0 // indirect
	scientificgo.org/special v0.0.0 // indirect
)

replace git.metabarcoding.org/obitools/obitools4/obitools4 => /repo

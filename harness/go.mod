module obiverif

go 1.23.1

require git.metabarcoding.org/obitools/obitools4/obitools4 v0.0.0

replace git.metabarcoding.org/obitools/obitools4/obitools4 => /repo

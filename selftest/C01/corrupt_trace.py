#!/usr/bin/env python3
"""Selftest of the C01 trace binding: corrupt ONE field of recorded events and check that ChunkerTrace rejects
exactly the corrupted events, with the expected reason.

usage:  VERIF_KEEP=1 VERIF_REPO=... bin/check C01 quick        (keeps <scratch>/trace.ndjson, path printed on stderr)
        python3 selftest/C01/corrupt_trace.py <scratch>/trace.ndjson
"""
import copy
import json
import os
import sys

sys.path.insert(0, os.path.join(os.path.dirname(os.path.abspath(__file__)), "..", "..", "bin"))
import vlib  # noqa: E402


def main():
    ev = [json.loads(l) for l in open(sys.argv[1]) if l.strip()]
    ch = [e for e in ev if e["op"] == "chunks" and len(e["cuts"]) >= 2]
    rd = [e for e in ev if e["op"] == "read" and len(e["orders"]) >= 2]
    cm = [e for e in ev if e["op"] == "cmd"]
    out, want = [], []

    def add(e, why, f=None):
        e = copy.deepcopy(e)
        if f:
            f(e)
        out.append(e)
        want.append(why)

    def cut_from(e): e["cuts"][1][0] += 1                       # a chunk that starts one byte after a record start
    def cut_gap(e): e["cuts"][0][4] += 1                        # a record skipped between two chunks
    def cut_order(e): e["cuts"][1][2] = 0                       # two chunks numbered 0
    def swap_got(e): e["got"][3], e["got"][4] = 1, 2; e["recs"][3], e["recs"][4] = 2, 1   # two records exchanged
    def lose(e): e["got"].pop(); e["serials"].pop()             # last record lost
    def reorder(e): e["serials"][5], e["serials"][6] = e["serials"][6], e["serials"][5]
    def dup_batch(e): e["orders"][1] = e["orders"][0]           # two batches with the same number
    def wrong_parse(e): e["got"][7] = -1                        # a record that equals no expected parse
    def failed(e): e["status"] = 1

    add(ch[0], "ok")
    add(ch[0], "cuts", cut_from)
    add(ch[1 % len(ch)], "cuts", cut_gap)
    add(ch[2 % len(ch)], "cuts", cut_order)
    add(ch[3 % len(ch)], "records", swap_got)
    add(rd[0], "ok")
    add(rd[0], "count", lose)
    add(rd[1 % len(rd)], "order", reorder)
    add(rd[2 % len(rd)], "batch-numbers", dup_batch)
    add(cm[0], "ok")
    add(cm[0], "records", wrong_parse)
    add(cm[1 % len(cm)], "fatal", failed)

    ctx = vlib.Ctx("C01", "selftest")
    tr = ctx.path("corrupt.ndjson")
    vlib.write_ndjson(tr, out)
    events, rejects = ctx.trace_validate("ChunkerTrace", "ChunkerTrace.cfg", tr)
    got = {r["l"]: r["why"] for r in rejects}
    bad = 0
    for i, w in enumerate(want, 1):
        g = got.get(i, "ok")
        print("event %2d (%s): expected %-14s TLC says %-14s %s" % (i, out[i - 1]["op"], w, g, "" if g == w else "<-- MISMATCH"))
        bad += g != w
    ctx.cleanup()
    sys.exit(1 if bad else 0)


if __name__ == "__main__":
    main()

#!/bin/bash
# The TLAPS proof of spec/ind/ReseqProofs.tla must FAIL on a buffer that is wrong: Drain forgets to remove the
# released batch from `received` (it would be released again). Exit 0 iff the unchanged proof passes and the broken one fails.
V="$(cd "$(dirname "$0")/../.." && pwd)"
W=$(mktemp -d /tmp/reseqneg.XXXXXX); trap 'rm -rf "$W"' EXIT
mkdir "$W/ok" "$W/neg"
cp "$V"/spec/ind/ReseqProof.tla "$V"/spec/ind/ReseqProofs.tla "$W/ok"; cp "$W"/ok/* "$W/neg"
sed -i "s/THEN \/\\\\ received' = received \\\\ {nextToSend}/THEN \/\\\\ received' = received/" "$W/neg/ReseqProof.tla"
cmp -s "$W/ok/ReseqProof.tla" "$W/neg/ReseqProof.tla" && { echo "mutation did not apply"; exit 2; }
(cd "$W/ok" && TMPDIR="$W/ok" timeout 300 tlapm --threads 8 ReseqProofs.tla 2>&1 | grep -q 'All [0-9]* obligations proved') || { echo "unchanged proof does not pass"; exit 1; }
if (cd "$W/neg" && TMPDIR="$W/neg" timeout 300 tlapm --threads 8 ReseqProofs.tla 2>&1 | grep -q 'All [0-9]* obligations proved'); then echo "broken buffer was PROVED: the proof is vacuous"; exit 1; fi
echo "ok: proof passes on the buffer as written, fails when Drain keeps the released batch"

#!/usr/bin/env python3
"""usage: selftest/integrate.py <ID>
Integrates the work of a per-property worktree pair (/tmp/vw/<ID> branch w<ID>, /tmp/rw/<ID> branch w<ID>):
cherry-picks the branch's repo commits (hooks 'verif:' and repairs 'fix:') onto /repo's current branch, merges the
framework branch into /verif, rewrites the commit ids of findings_<ID>.json and folds it into known_findings.json."""
import json, os, subprocess, sys
pid = sys.argv[1]
def sh(*a, cwd=None, check=True):
    p = subprocess.run(list(a), cwd=cwd, capture_output=True, text=True)
    if check and p.returncode != 0:
        print(p.stdout, p.stderr)
        raise SystemExit("failed: " + " ".join(a))
    return p.stdout.strip()
base = sh("git", "-C", "/repo", "merge-base", "HEAD", "w" + pid)
commits = sh("git", "-C", "/repo", "log", "--reverse", "--format=%H %s", base + "..w" + pid).splitlines()
mapping = {}
for line in commits:
    h, subj = line.split(" ", 1)
    if h[:7] in os.environ.get("INTEGRATE_SKIP", "").split(","):
        print("skipped on request:", h[:7], subj)
        continue
    if not (subj.startswith("fix:") or subj.startswith("verif:")):
        print("skipping commit with unexpected subject:", subj)
        continue
    # a fix already present with the same patch-id? try to cherry-pick; on empty result skip
    p = subprocess.run(["git", "-C", "/repo", "cherry-pick", "-x", h], capture_output=True, text=True)
    if p.returncode != 0:
        out = p.stdout + p.stderr
        if "nothing to commit" in out or "empty" in out:
            subprocess.run(["git", "-C", "/repo", "cherry-pick", "--skip"])
            print("already applied:", subj)
            continue
        print(out)
        subprocess.run(["git", "-C", "/repo", "cherry-pick", "--abort"])
        raise SystemExit("cherry-pick conflict on %s %s -- resolve by hand" % (h[:7], subj))
    new = sh("git", "-C", "/repo", "rev-parse", "--short", "HEAD")
    # drop the '(cherry picked from ...)' trailer: keep messages clean
    msg = sh("git", "-C", "/repo", "log", "-1", "--format=%B")
    msg = "\n".join(l for l in msg.splitlines() if not l.startswith("(cherry picked from")).rstrip() + "\n"
    subprocess.run(["git", "-C", "/repo", "commit", "--amend", "-q", "-m", msg], check=True)
    new = sh("git", "-C", "/repo", "rev-parse", "--short", "HEAD")
    mapping[h[:7]] = new
    print("picked %s -> %s  %s" % (h[:7], new, subj))
# framework
print(sh("git", "-C", "/verif", "merge", "--no-edit", "-q", "-X", "ours", "w" + pid, check=False))
f = "/verif/findings_%s.json" % pid
if os.path.exists(f):
    data = json.load(open(f))
    entries = data["findings"] if isinstance(data, dict) else data
    kf = json.load(open("/verif/known_findings.json"))
    have = {e["id"] for e in kf["findings"]}
    for e in entries:
        c = e.get("commit") or ""
        if c[:7] in mapping:
            e["commit"] = mapping[c[:7]]
        if e["id"] not in have:
            kf["findings"].append(e)
    json.dump(kf, open("/verif/known_findings.json", "w"), indent=1)
    print("merged %d finding entries" % len(entries))
print("commit map:", mapping)

#!/usr/bin/env python3
"""selftest: does TagTrace reject a trace in which ONE field was altered?

usage: VERIF_REPO=<repo> python3 selftest/C15/corrupt_trace.py
Records a trace from the real code (fixed tree: the unaltered trace is accepted), then alters one field at
a time and lets TLC judge again; prints one line per alteration: expected reason, reasons reported.
Exit 0 iff the clean trace is accepted and every alteration is rejected at the altered event for the
expected reason."""
import copy
import json
import os
import sys

HERE = os.path.dirname(os.path.abspath(__file__))
sys.path.insert(0, os.path.join(HERE, "..", "..", "bin"))
import vlib  # noqa: E402


def main():
    ctx = vlib.Ctx("C15", "selftest")
    try:
        trace = ctx.path("trace.ndjson")
        ctx.harness(["record", "C15", "--out", trace, "--opt", "closest=4", "--opt", "index=3", "--opt", "assign=2",
                     "--opt", "kmer=4", "--opt", "maxrefs=120", "--opt", "idxrefs=24", "--opt", "idxmaxlen=45"])
        events = [json.loads(x) for x in open(trace) if x.strip()]

        def first(pred):
            return next(i for i, e in enumerate(events) if pred(e))

        tie = first(lambda e: e["k"] == "closest" and sum(e["inb"]) > 1)
        one = first(lambda e: e["k"] == "closest")
        idx = first(lambda e: e["k"] == "index" and len(e["idx"]) >= 2)
        asg = first(lambda e: e["k"] == "assign" and e["taxid"] > 1)
        kmer = first(lambda e: e["k"] == "kmer")

        def drop_tie(ev):
            ev["inb"][ev["inb"].index(1)] = 0

        def add_ref(ev):
            ev["inb"][ev["inb"].index(0)] = 1

        def idx_taxon(ev):
            ev["idx"][0][1] = ev["parent"][ev["idx"][0][1] - 1] if ev["idx"][0][1] != 1 else 2

        def idx_drop0(ev):
            ev["idx"] = ev["idx"][1:]

        def parent_of(ev):
            ev["taxid"] = ev["parent"][ev["taxid"] - 1]

        def sibling(ev):                       # a taxon that is not an ancestor of the assigned one
            anc = set()
            x = ev["taxid"]
            while True:
                anc.add(x)
                if ev["parent"][x - 1] == x:
                    break
                x = ev["parent"][x - 1]
            ev["taxid"] = next(t for t in range(len(ev["parent"]), 0, -1) if t not in anc)

        alterations = [
            ("closest: a returned tie removed from the answer", tie, drop_tie, {"closest.best_set"}),
            ("closest: a reference added to the answer", one, add_ref, {"closest.distance"}),
            ("closest: distance + 1", one, lambda ev: ev.__setitem__("maxe", ev["maxe"] + 1), {"closest.distance"}),
            ("index: taxon of the first entry replaced", idx, idx_taxon, {"index.entry"}),
            ("index: first entry dropped", idx, idx_drop0, {"index.lookup"}),
            ("assign: parent of the assigned taxon", asg, parent_of, {"assign.taxon"}),
            ("assign: a taxon off the lineage", asg, sibling, {"assign.ancestor"}),
            ("kmer: count + 1", kmer, lambda ev: ev.__setitem__("common", ev["common"] + 1), {"kmer.common4"}),
        ]
        _, rej = ctx.trace_validate("TagTrace", "TagTrace.cfg", trace, timeout=1200)
        ok = not rej
        print("clean trace (%d events): %s" % (len(events), "accepted" if not rej else "REJECTED %s" % rej[:3]))
        for name, at, fn, want in alterations:
            evs = copy.deepcopy(events)
            fn(evs[at])
            p = ctx.path("alt.ndjson")
            vlib.write_ndjson(p, evs)
            _, rej = ctx.trace_validate("TagTrace", "TagTrace.cfg", p, timeout=1200)
            got = {r["why"] for r in rej if r["l"] == at + 1}
            other = [r for r in rej if r["l"] != at + 1]
            good = bool(got & want) and not other
            ok = ok and good
            print("%-52s event %3d  expected %-22s reported %-30s %s" % (name, at + 1, sorted(want), sorted(got), "ok" if good else "MISSED"))
        return 0 if ok else 1
    finally:
        ctx.cleanup()


if __name__ == "__main__":
    sys.exit(main())

#!/usr/bin/env python3
"""Binding test of the trace side of X03: records a trace from the real code, corrupts ONE field of one accepted
event at a time (a value, a type, the definition, a dropped annotation, the rewritten text, the JSON reading) and
checks that ObiHeaderTrace rejects exactly the corrupted events.
Usage: VERIF_REPO=/tmp/rw/X03 python3 selftest/X03/corrupt_trace.py"""
import copy
import json
import os
import sys

HERE = os.path.dirname(os.path.abspath(__file__))
sys.path.insert(0, os.path.join(HERE, "..", "..", "bin"))
import vlib  # noqa: E402


def main():
    ctx = vlib.Ctx("X03", "quick")
    trace = ctx.path("trace.ndjson")
    ctx.harness(["record", "X03", "--out", trace, "--n", 300])
    events, rejects = ctx.trace_validate("ObiHeaderTrace", "ObiHeaderTrace.cfg", trace)
    bad = {r["l"] for r in rejects}
    good = [e for i, e in enumerate(events, 1) if i not in bad]
    parse = next(e for e in good if e["op"] == "parse" and any(x["t"] == "int" for x in e["ents"]) and e["def"])
    rt = next(e for e in good if e["op"] == "rt" and len(e["rec"]) >= 2 and e["j1"] and e["r1"])
    muts = []

    def m(name, ev, f):
        e = copy.deepcopy(ev)
        f(e)
        muts.append((name, e))
    k = next(i for i, x in enumerate(parse["ents"]) if x["t"] == "int")
    m("parse: value of an int annotation + 1", parse, lambda e: e["ents"][k].__setitem__("v", str(int(e["ents"][k]["v"]) + 1)))
    m("parse: type of an int annotation reported float", parse, lambda e: e["ents"][k].__setitem__("t", "float"))
    m("parse: one annotation dropped", parse, lambda e: e["ents"].pop(k))
    m("parse: first character of the definition dropped", parse, lambda e: e.__setitem__("def", e["def"][1:]))
    m("rt: one annotation missing after the first read", rt, lambda e: e["r1"].pop(0))
    m("rt: definition altered after the second read", rt, lambda e: e.__setitem__("d2", e["d2"] + "x"))
    m("rt: JSON reading loses an annotation", rt, lambda e: e["j1"].pop(0))
    m("rt: guessing reader returns nothing", rt, lambda e: e.__setitem__("g1", []))
    m("rt: written text loses its first entry", rt, lambda e: e.__setitem__("w1", e["w1"][e["w1"].index(";") + 1:]))
    tr2 = ctx.path("corrupt.ndjson")
    vlib.write_ndjson(tr2, [parse, rt] + [e for _, e in muts])
    ev2, rej2 = ctx.trace_validate("ObiHeaderTrace", "ObiHeaderTrace.cfg", tr2)
    why = {r["l"]: r["why"] for r in rej2}
    ok = (1 not in why) and (2 not in why)
    print("untouched events accepted:", ok)
    for i, (name, _) in enumerate(muts, 3):
        w = why.get(i, "ACCEPTED")
        print("%-55s -> %s" % (name, w))
        ok = ok and w.startswith("bad:")
    ctx.cleanup()
    print("RESULT:", "every corruption rejected" if ok else "SOME CORRUPTION WAS ACCEPTED")
    sys.exit(0 if ok else 1)


if __name__ == "__main__":
    main()

#!/bin/sh
# Applies every selftest/X03/mNN_*.patch to the repository worktree (VERIF_REPO), runs the quick check, expects exit 1
# with VIOLATION lines, restores the tree.  Usage: VERIF_REPO=/tmp/rw/X03 selftest/X03/run_mutants.sh [patch...]
HERE=$(cd "$(dirname "$0")" && pwd)
VERIF=$(cd "$HERE/../.." && pwd)
REPO=${VERIF_REPO:-/repo}
[ $# -gt 0 ] && LIST="$@" || LIST=$(ls "$HERE"/m*.patch)
for p in $LIST; do
  p=$(cd "$(dirname "$p")" && pwd)/$(basename "$p")
  n=$(basename "$p" .patch)
  git -C "$REPO" apply "$p" || { echo "$n: patch does not apply"; continue; }
  (cd "$REPO" && GOFLAGS= go build ./pkg/obiformats/ 2>/dev/null) || echo "$n: DOES NOT COMPILE"
  out=$(cd "$VERIF" && VERIF_REPO="$REPO" timeout 900 bin/check X03 quick 2>/dev/null)
  rc=$?
  git -C "$REPO" checkout -- .
  echo "$n: exit=$rc violations=$(echo "$out" | grep -c '^VIOLATION')"
  echo "$out" | grep '^VIOLATION' | sed 's/replay=[^ ]* //' | cut -c1-260 | sed 's/^/    /' | head -6
done

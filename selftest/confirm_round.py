#!/usr/bin/env python3
"""usage: selftest/confirm_round.py <round tag, e.g. r6> <delivery root, e.g. /tmp/mut6> <ID> [<ID> ...]
For every delivery <root>/<ID>/out/<n>/ (patch.diff, demo/run.sh, README.md) runs selftest/confirm_seeded.py
<ID> <tag>-<n> (independent confirmation + our quick check) and copies the section "What it needs in order to
manifest" of the README into meta.json (field `needs`).  The IDs are processed in parallel (one process per ID:
two changes of one property share the evidence file of its check), the changes of one ID one after the other."""
import json, os, re, subprocess, sys
from concurrent.futures import ThreadPoolExecutor
V = os.path.dirname(os.path.dirname(os.path.abspath(__file__)))
tag, root, ids = sys.argv[1], sys.argv[2], sys.argv[3:]
def one(pid):
    out = []
    base = os.path.join(root, pid, "out")
    for n in sorted(os.listdir(base)) if os.path.isdir(base) else []:
        src = os.path.join(base, n)
        if not (os.path.exists(os.path.join(src, "patch.diff")) and os.path.exists(os.path.join(src, "demo", "run.sh"))):
            out.append("%s-%s-%s: incomplete delivery" % (pid, tag, n)); continue
        p = subprocess.run([os.path.join(V, "selftest", "confirm_seeded.py"), pid, "%s-%s" % (tag, n), src], capture_output=True, text=True)
        out.append("%s-%s-%s: exit %d\n%s" % (pid, tag, n, p.returncode, "\n".join("    " + l[:260] for l in (p.stdout + p.stderr).splitlines()[-12:])))
        mp = os.path.join(V, "seeded", "%s-%s-%s" % (pid, tag, n), "meta.json")
        rd = os.path.join(src, "README.md")
        if p.returncode == 0 and os.path.exists(mp) and os.path.exists(rd):
            m = re.search(r"##\s*What it needs in order to manifest\s*\n(.*?)(\n## |\Z)", open(rd, errors="replace").read(), re.S)
            meta = json.load(open(mp))
            meta["needs"] = " ".join(m.group(1).split())[:700] if m else ""
            json.dump(meta, open(mp, "w"), indent=1)
    return "\n".join(out)
with ThreadPoolExecutor(max_workers=len(ids) or 1) as ex:
    for r in ex.map(one, ids):
        print(r, flush=True)

#!/usr/bin/env python3
"""Binding test of the trace side of X05: records a trace from the real binaries, corrupts ONE field of one accepted
event at a time and checks that PairedCmdTrace rejects exactly the corrupted events with the expected clause.
Usage: VERIF_REPO=/tmp/rw/X05 python3 selftest/X05/corrupt_trace.py"""
import copy
import json
import os
import sys

HERE = os.path.dirname(os.path.abspath(__file__))
sys.path.insert(0, os.path.join(HERE, "..", "..", "bin"))
import vlib  # noqa: E402


def main():
    ctx = vlib.Ctx("X05", "quick")
    bindir = ctx.build_cmds(["obipairing", "obitagpcr", "obicomplement"])
    trace = ctx.path("t.ndjson")
    ctx.harness(["record", "X05", "--out", trace, "--n", 12, "--opt", "bindir=" + bindir, "--opt", "work=" + ctx.path("work")])
    tags = trace + ".tags"
    events, rejects = ctx.trace_validate("PairedCmdTrace", "PairedCmdTrace.cfg", trace, env={"VERIF_TAGS": tags})
    tg = {t["l"]: t["tags"] for t in vlib.read_cases(tags)}
    bad = {r["l"] for r in rejects}
    good = [(e, tg[i]) for i, e in enumerate(events, 1) if i not in bad]
    aln = next(e for e, t in good if e["kind"] == "pair" and "pair/alignment" in t and e["stat"] == 1 and e["fast"] == 1 and e["out"]["sas"] != e["out"]["sbs"])
    alnmm = next(e for e, t in good if e["kind"] == "pair" and "pair/mismatches" in t)
    join = next(e for e, t in good if e["kind"] == "pair" and "pair/join" in t and e["stat"] == 1)
    tagok = next(e for e, t in good if e["kind"] == "tag" and "tag/assigned" in t and "tag/swapped" not in t and e["reorient"] == 1)
    tagsw = next(e for e, t in good if e["kind"] == "tag" and "tag/swapped" in t)
    tagerr = next(e for e, t in good if e["kind"] == "tag" and "tag/tagpair" in t and e["where"] != "none")
    comp = next(e for e, t in good if e["kind"] == "comp" and "comp/mismatches" in t and len(e["cin"]["seq"]) > 3)
    runp = next(e for e, t in good if e["kind"] == "run" and e["cmd"] == "obipairing" and e["nf"] == e["nr"] and e["nf"] > 3)
    runt = next(e for e, t in good if e["kind"] == "run" and e["cmd"] == "obitagpcr" and len(e["r1"]) > 2)
    muts = []

    def m(name, want, ev, f):
        e = copy.deepcopy(ev)
        f(e)
        muts.append((name, want, e))
    m("pair: identifier of another read", "pair.identifier", aln, lambda e: e["out"].__setitem__("id", "p9999"))
    m("pair: one consensus base changed", "pair.consensus", aln, lambda e: e["out"]["seq"].__setitem__(0, "a" if e["out"]["seq"][0] != "a" else "c"))
    m("pair: ali_length + 1", "pair.ali_length", aln, lambda e: e["out"].__setitem__("ali", e["out"]["ali"] + 1))
    m("pair: score + 1", "pair.score", aln, lambda e: e["out"].__setitem__("score", e["out"]["score"] + 1))
    m("pair: seq_a_single / seq_b_single exchanged", "pair.single", aln, lambda e: e["out"].update(sas=e["out"]["sbs"], sbs=e["out"]["sas"]))
    m("pair: mode join on an aligned pair", "pair.mode", aln, lambda e: e["out"].__setitem__("mode", "join"))
    m("pair: fast count + 1", "pair.fast_stats", aln, lambda e: e["out"].__setitem__("fc", e["out"]["fc"] + 1))
    m("pair: score_norm + 0.002", "pair.score_norm", aln, lambda e: e["out"].__setitem__("norm", e["out"]["norm"] + 2))
    m("pair: a mismatch annotation moved by one", "pair.pairing_mismatches", alnmm, lambda e: e["out"]["mm"][0].__setitem__("p", e["out"]["mm"][0]["p"] + 1))
    m("pair: reverse read not complemented in the event's kernel input", "kernel.input", aln, lambda e: e.__setitem__("kb", list(e["r"])) if e["kb"] != e["r"] else None)
    m("join: nine dots", "pair.join_sequence", join, lambda e: e["out"]["seq"].pop(len(e["f"])))
    m("join: a quality of the dots is 1", "pair.join_quality", join, lambda e: e["out"]["qual"].__setitem__(len(e["f"]), 1))
    m("join: an extra annotation", "pair.unknown_annotation", join, lambda e: e["out"].__setitem__("extra", ["foo"]))
    m("tag: another sample", "tag.sample", tagok, lambda e: e["o1"]["ann"].__setitem__("smp", "zz"))
    m("tag: direction flipped on the reverse read", "tag.direction", tagok, lambda e: e["o2"]["ann"].__setitem__("dir", "forward" if e["o2"]["ann"]["dir"] == "reverse" else "reverse"))
    m("tag: forward and reverse reads exchanged in the output", "tag.reorientate", tagok, lambda e: e.update(o1=e["o2"], o2=e["o1"]))
    m("tag: swapped pair written unswapped", "tag.reorientate", tagsw, lambda e: e.update(o1=e["o2"], o2=e["o1"]))
    m("tag: forward mismatches + 1", "tag.primer_mismatches", tagok, lambda e: e["o1"]["ann"].__setitem__("fe", e["o1"]["ann"]["fe"] + 1))
    m("tag: assigned pair found in the unidentified file", "tag.file", tagok, lambda e: e.__setitem__("where", "unid"))
    m("tag: error pair carries a sample", "tag.sample_on_error", tagerr, lambda e: e["o1"]["ann"].__setitem__("smp", "s1_1"))
    m("tag: error kind nobarcode instead of tagpair", "tag.error_kind", tagerr, lambda e: e["o2"]["ann"].__setitem__("ek", "nobarcode"))
    m("comp: first base not complemented", "comp.sequence", comp, lambda e: e["cout"]["seq"].__setitem__(0, e["cin"]["seq"][-1] if e["cin"]["seq"][-1] != e["cout"]["seq"][0] else "n"))
    m("comp: qualities not reversed", "comp.qualities", comp, lambda e: e["cout"].__setitem__("qual", e["cout"]["qual"][1:] + e["cout"]["qual"][:1]) if len(set(e["cout"]["qual"])) > 1 else e["cout"]["qual"].append(1))
    m("comp: mismatch position kept", "comp.pairing_mismatches", comp, lambda e: e["cout"]["mm"][0].__setitem__("p", e["cout"]["mm"][0]["p"] + 1))
    m("comp: annotation k lost", "comp.annotations", comp, lambda e: e["cout"].__setitem__("kann", -1))
    m("run: two output records exchanged", "run.count_order", runp, lambda e: e["r1"].__setitem__(slice(0, 2), e["r1"][1::-1]))
    m("run: last record missing", "run.count_order", runp, lambda e: e["r1"].pop())
    m("run: R2 file shorter than R1", "run.pair_files_differ", runt, lambda e: e["r2"].pop())
    m("run: unequal files accepted with status 0", "run.unequal_files_accepted", runp, lambda e: e.update(nr=e["nr"] + 1))
    t2 = ctx.path("corrupt.ndjson")
    vlib.write_ndjson(t2, [e for _, _, e in muts])
    _, rej = ctx.trace_validate("PairedCmdTrace", "PairedCmdTrace.cfg", t2, env={"VERIF_TAGS": t2 + ".tags"})
    got = {r["l"]: r["why"] for r in rej}
    fails = 0
    for i, (name, want, _) in enumerate(muts, 1):
        ok = got.get(i) == want
        fails += 0 if ok else 1
        print("%-70s %-28s %s" % (name, got.get(i, "ACCEPTED"), "ok" if ok else "UNEXPECTED (wanted %s)" % want))
    print("%d corrupted events, %d not rejected as expected" % (len(muts), fails))
    ctx.cleanup()
    return 1 if fails else 0


if __name__ == "__main__":
    sys.exit(main())

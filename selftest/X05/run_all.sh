#!/bin/bash
# usage: selftest/X05/run_all.sh [patch...]   - applies each mutant to $VERIF_REPO (default /tmp/rw/X05), runs go test of
# the touched package and the quick check, restores the tree; prints one line per mutant.
V=$(cd "$(dirname "$0")/../.." && pwd)
R=${VERIF_REPO:-/tmp/rw/X05}
export VERIF_REPO=$R
P=("$@"); [ ${#P[@]} = 0 ] && P=("$V"/selftest/X05/m*.patch)
for p in "${P[@]}"; do
  n=$(basename "$p" .patch)
  git -C "$R" apply "$p" || { echo "$n: patch does not apply"; continue; }
  pk=$(git -C "$R" diff --name-only | head -1 | xargs dirname)
  t=$( (cd "$R" && env -u GOFLAGS GOPROXY=off GOSUMDB=off GOTOOLCHAIN=local timeout 600 go test "./$pk/" 2>&1 | grep -v warning | tail -1) )
  out=$(cd "$V" && VERIF_SEED=${VERIF_SEED:-1} timeout 900 bin/check X05 quick 2>&1); rc=$?
  git -C "$R" checkout -- .
  echo "$n: exit=$rc gotest=[$t] asserts=[$(echo "$out" | grep '^VIOLATION' | sed 's/.*assert=\([^ ]*\).*/\1/' | sort | uniq -c | tr '\n' ' ')] $(echo "$out" | grep INCONCLUSIVE | cut -c1-160)"
done

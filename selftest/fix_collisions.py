#!/usr/bin/env python3
"""Renames top-level identifiers that collide between the per-property driver files of the harness
(package main): on 'X redeclared in this block' the identifier is renamed X -> X<NN> in the file reported first.
Repeats until the harness compiles or nothing changes."""
import os, re, shutil, subprocess, tempfile
V = os.path.dirname(os.path.dirname(os.path.abspath(__file__)))
H = os.path.join(V, "harness", "cmd", "obiverif")
env = dict(os.environ, GOFLAGS="-mod=mod", GOPROXY="off", GOSUMDB="off", GOTOOLCHAIN="local")
for it in range(30):
    s = tempfile.mkdtemp()
    shutil.copytree(os.path.join(V, "harness"), s + "/h")
    shutil.copy("/repo/go.sum", s + "/h/go.sum")
    p = subprocess.run(["go", "build", "-tags", "verif", "-o", s + "/x", "./cmd/obiverif"], cwd=s + "/h", env=env, capture_output=True, text=True)
    shutil.rmtree(s)
    if p.returncode == 0:
        print("harness compiles")
        break
    m = re.search(r"cmd/obiverif/(p(\d+)_\w+\.go):\d+:\d+: (\w+) redeclared in this block", p.stderr)
    if not m:
        errs = [l for l in p.stderr.splitlines() if re.search(r"cmd/obiverif/.*\.go:\d+", l)]
        print("no collision left but build fails:\n" + "\n".join(errs[:20]))
        break
    fn, nn, ident = m.group(1), m.group(2), m.group(3)
    # rename in every file of the same property (same NN prefix)
    files = [f for f in os.listdir(H) if f.startswith("p%s_" % nn)]
    for f in files:
        t = open(os.path.join(H, f)).read()
        t2 = re.sub(r"(?<![\w.])%s\b" % re.escape(ident), ident + nn, t)
        open(os.path.join(H, f), "w").write(t2)
    print("renamed %s -> %s%s in %s" % (ident, ident, nn, files))

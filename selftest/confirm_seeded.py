#!/usr/bin/env python3
"""usage: selftest/confirm_seeded.py <ID> <n> <src_dir(out/<n>)> [check ids to run, default ID]
Confirms a seeded change independently, in a scratch worktree of /repo HEAD:
  1. demo passes on the unchanged tree; 2. patch applies, `go build` ok; 3. pinned tests (BASELINE stable_pass) still pass;
  4. demo fails with the patch; then runs our check(s) against the patched tree and records the outcome.
Keeps it as /verif/seeded/<ID>-<n>/ (patch.diff, demo/, README.md, meta.json) only if 1-4 hold."""
import json, os, shutil, subprocess, sys, tempfile, time
V = os.path.dirname(os.path.dirname(os.path.abspath(__file__)))
pid, n, src = sys.argv[1], sys.argv[2], os.path.abspath(sys.argv[3])
checks = sys.argv[4:] or [pid]
w = tempfile.mkdtemp(prefix="seeded-")
repo = os.path.join(w, "repo")
env = dict(os.environ); env.pop("GOFLAGS", None); env["GOPROXY"] = "off"; env["ROOT"] = env["WORKTREE"] = repo   # some demos take the tree to test from $ROOT
def sh(cmd, cwd=None, timeout=1500):
    p = subprocess.run(cmd, cwd=cwd, env=env, capture_output=True, text=True, timeout=timeout, shell=isinstance(cmd, str))
    return p.returncode, (p.stdout + p.stderr)
subprocess.run(["git", "-C", "/repo", "worktree", "add", "-q", "--detach", repo, "HEAD"], check=True)
meta = {"property": pid, "n": n, "repo_head": subprocess.run(["git", "-C", "/repo", "rev-parse", "--short", "HEAD"], capture_output=True, text=True).stdout.strip(),
        "date": time.strftime("%Y-%m-%d"), "ran": []}
ok = False
try:
    demo = os.path.join(repo, "demo_seeded")
    shutil.copytree(os.path.join(src, "demo"), demo)
    rc0, out0 = sh(["bash", os.path.join(demo, "run.sh"), repo], cwd=repo, timeout=600)
    meta["ran"].append({"step": "demo on unchanged tree", "exit": rc0})
    a, aout = sh(["git", "apply", os.path.join(src, "patch.diff")], cwd=repo)
    meta["ran"].append({"step": "git apply patch.diff", "exit": a})
    b, bout = sh("go build ./pkg/... ./cmd/obitools/...", cwd=repo)
    meta["ran"].append({"step": "go build ./pkg/... ./cmd/obitools/...", "exit": b})
    t, tout = sh([os.path.join(V, "bin", "baseline_check.py"), repo])
    meta["ran"].append({"step": "pinned test-suite (71 stable tests) with the change", "exit": t, "out": tout.strip().splitlines()[-1:]})
    rc1, out1 = sh(["bash", os.path.join(demo, "run.sh"), repo], cwd=repo, timeout=600)
    meta["ran"].append({"step": "demo with the change", "exit": rc1})
    ok = (rc0 == 0 and a == 0 and b == 0 and t == 0 and rc1 != 0)
    meta["confirmed"] = ok
    print("demo unchanged=%d apply=%d build=%d tests=%d demo changed=%d -> confirmed=%s" % (rc0, a, b, t, rc1, ok))
    if not ok:
        print((out0 + aout + bout[-800:] + tout + out1)[-3000:])
    shutil.rmtree(demo)
    results = {}
    if ok:
        for c in checks:
            evp = os.path.join(V, "evidence", c + ".json")
            saved = open(evp).read() if os.path.exists(evp) else None
            e2 = dict(os.environ, VERIF_REPO=repo, VERIF_SEED="1")
            p = subprocess.run([os.path.join(V, "bin", "check"), c, "quick"], cwd=V, env=e2, capture_output=True, text=True)
            if saved is not None:
                open(evp, "w").write(saved)
            viol = [l[:300] for l in p.stdout.splitlines() if l.startswith("VIOLATION")]
            results[c] = {"exit": p.returncode, "violations": len(viol), "first": viol[:3]}
            print("check %s quick -> exit %d, %d VIOLATION line(s)" % (c, p.returncode, len(viol)))
            for v in viol[:3]:
                print("   ", v[:220])
            if p.returncode == 2:
                print((p.stdout + p.stderr)[-1500:])
        meta["our_checks"] = results
finally:
    subprocess.run(["git", "-C", "/repo", "worktree", "remove", "--force", repo])
    shutil.rmtree(w, ignore_errors=True)
if ok:
    dst = os.path.join(V, "seeded", "%s-%s" % (pid, n))
    if os.path.realpath(dst) == os.path.realpath(src):      # re-confirmation in place
        old = json.load(open(os.path.join(dst, "meta.json"))) if os.path.exists(os.path.join(dst, "meta.json")) else {}
        for k in ("note", "also_checks", "needs"):
            if k in old:
                meta[k] = old[k]
        meta["breaks"] = pid
        json.dump(meta, open(os.path.join(dst, "meta.json"), "w"), indent=1)
        sys.exit(0)
    if os.path.exists(dst):
        shutil.rmtree(dst)
    os.makedirs(dst)
    shutil.copy(os.path.join(src, "patch.diff"), dst)
    shutil.copytree(os.path.join(src, "demo"), os.path.join(dst, "demo"))
    if os.path.exists(os.path.join(src, "README.md")):
        shutil.copy(os.path.join(src, "README.md"), dst)
    meta["breaks"] = pid
    json.dump(meta, open(os.path.join(dst, "meta.json"), "w"), indent=1)
sys.exit(0 if ok else 1)

#!/usr/bin/env python3
"""Selftest of the T direction of C07: a trace recorded from the real code is accepted by
SeqHeapTrace.tla; the same trace with ONE corrupted field is rejected, at the corrupted event and step.

usage:  VERIF_REPO=/path/to/repo python3 selftest/C07/corrupt_trace.py
exit 0 = every corruption was rejected (and the untouched trace accepted)."""
import copy
import json
import os
import sys

HERE = os.path.dirname(os.path.abspath(__file__))
sys.path.insert(0, os.path.join(HERE, "..", "..", "bin"))
import vlib  # noqa: E402


def validate(ctx, events, name):
    path = ctx.path(name)
    vlib.write_ndjson(path, events)
    _, rejects = ctx.trace_validate("SeqHeapTrace", "SeqHeapTrace.cfg", path)
    return sorted((r["l"], r["why"]) for r in rejects)


def find(events, pred):
    for l, ev in enumerate(events):
        for i, st in enumerate(ev["steps"]):
            if pred(ev, st, i):
                return l, i
    raise SystemExit("no suitable step in the recorded trace")


def main():
    ctx = vlib.Ctx("C07", "selftest")
    ok = True
    try:
        trace = ctx.path("trace.ndjson")
        ctx.harness(["record", "C07", "--out", trace, "--n", 60])
        events = [json.loads(x) for x in open(trace)]
        base = validate(ctx, events, "t0.ndjson")
        print("untouched trace: rejects =", base)
        ok &= base == []

        def tgt(st):
            return st["r"] if st["op"] in ("new", "copy", "sub") or (st["op"] in ("rc", "join") and st["inplace"] == 0) else st["o"]

        # 1. one symbol of the result of a reverse complement
        l, i = find(events, lambda ev, st, i: st["op"] == "rc" and len(st["obs"][tgt(st) - 1]["v"]["seq"]) >= 3)
        ev = copy.deepcopy(events)
        s = ev[l]["steps"][i]["obs"][tgt(ev[l]["steps"][i]) - 1]["v"]["seq"]
        s[1] = "a" if s[1] != "a" else "c"
        got = validate(ctx, ev, "t1.ndjson")
        print("symbol of a reverse complement corrupted at event %d step %d: rejects = %s" % (l + 1, i + 1, got))
        ok &= got == [(l + 1, "result@%d" % (i + 1))]

        # 2. one quality of a BYSTANDER object (looks like shared mutable state)
        def has_bystander(ev, st, i):
            return any(k != tgt(st) - 1 and o["l"] == 1 and len(o["v"]["qual"]) > 0 for k, o in enumerate(st["obs"]))
        l, i = find(events, has_bystander)
        ev = copy.deepcopy(events)
        st = ev[l]["steps"][i]
        k = [k for k, o in enumerate(st["obs"]) if k != tgt(st) - 1 and o["l"] == 1 and len(o["v"]["qual"]) > 0][0]
        st["obs"][k]["v"]["qual"][0] = (st["obs"][k]["v"]["qual"][0] + 1) % 90
        got = validate(ctx, ev, "t2.ndjson")
        print("quality of a bystander corrupted at event %d step %d: rejects = %s" % (l + 1, i + 1, got))
        ok &= got == [(l + 1, "alias@%d" % (i + 1))]

        # 3. position of a mismatch annotation after a subsequence
        l, i = find(events, lambda ev, st, i: st["op"] == "sub" and len(st["obs"][st["r"] - 1]["v"]["mm"]) > 0)
        ev = copy.deepcopy(events)
        st = ev[l]["steps"][i]
        st["obs"][st["r"] - 1]["v"]["mm"][0]["p"] += 1
        got = validate(ctx, ev, "t3.ndjson")
        print("mismatch position after Subsequence corrupted at event %d step %d: rejects = %s" % (l + 1, i + 1, got))
        ok &= got == [(l + 1, "result@%d" % (i + 1))]

        # 4. an operation dropped from the log (the object appears from nowhere)
        l, i = find(events, lambda ev, st, i: st["op"] == "copy" and i + 1 < len(ev["steps"]))
        ev = copy.deepcopy(events)
        del ev[l]["steps"][i]
        got = validate(ctx, ev, "t4.ndjson")
        print("copy step dropped at event %d step %d: rejects = %s" % (l + 1, i + 1, got))
        ok &= len(got) == 1 and got[0][0] == l + 1
    finally:
        ctx.cleanup()
    print("SELFTEST", "PASSED" if ok else "FAILED")
    sys.exit(0 if ok else 1)


if __name__ == "__main__":
    main()

#!/usr/bin/env python3
"""usage: selftest/run_patch.py <ID> <patch.diff> [tier] [seed]
Applies the patch to a scratch worktree of /repo (HEAD), runs bin/check <ID> <tier> against it (VERIF_REPO),
prints the verdict lines and the exit status, restores evidence/<ID>.json, removes the worktree.
Exit status = exit status of the check (1 expected for a property-breaking patch)."""
import os, shutil, subprocess, sys, tempfile
V = os.path.dirname(os.path.dirname(os.path.abspath(__file__)))
pid, patch = sys.argv[1], os.path.abspath(sys.argv[2])
tier = sys.argv[3] if len(sys.argv) > 3 else "quick"
seed = sys.argv[4] if len(sys.argv) > 4 else "1"
w = tempfile.mkdtemp(prefix="selftest-")
repo = os.path.join(w, "repo")
subprocess.run(["git", "-C", "/repo", "worktree", "add", "-q", "--detach", repo, "HEAD"], check=True)
rc = 2
ev = os.path.join(V, "evidence", pid + ".json")
saved = open(ev).read() if os.path.exists(ev) else None
try:
    a = subprocess.run(["git", "-C", repo, "apply", patch], capture_output=True, text=True)
    if a.returncode != 0:
        print("patch does not apply:", a.stderr)
    else:
        env = dict(os.environ, VERIF_REPO=repo, VERIF_SEED=seed)
        p = subprocess.run([os.path.join(V, "bin", "check"), pid, tier], cwd=V, env=env, capture_output=True, text=True)
        rc = p.returncode
        for l in (p.stdout + p.stderr).splitlines():
            if l.startswith(("VIOLATION", "KNOWN-FINDING")) or "INCONCLUSIVE" in l or l.startswith("[check] " + pid):
                print(l[:400])
        print("exit=%d" % rc)
finally:
    if saved is not None:
        open(ev, "w").write(saved)
    subprocess.run(["git", "-C", "/repo", "worktree", "remove", "--force", repo])
    shutil.rmtree(w, ignore_errors=True)
sys.exit(rc)

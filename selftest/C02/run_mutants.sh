#!/bin/bash
# selftest for C02: apply each mutant to the repo worktree, check that the package tests still pass as at
# baseline, run the quick check, expect exit 1 + VIOLATION, revert.   usage: run_mutants.sh [pattern]
VERIF=${VERIF:-/tmp/vw/C02}; export VERIF_REPO=${VERIF_REPO:-/tmp/rw/C02}
here=$VERIF/selftest/C02
tests() { (cd $VERIF_REPO && env -u GOFLAGS GOPROXY=off GOTOOLCHAIN=local timeout 900 go test -vet=off -count=1 ./pkg/obiformats/... ./pkg/obiseq/... 2>&1 | grep -E "^(--- FAIL|FAIL:|ok|FAIL\s|OOPS)" | sed 's/[(0-9.]*s)*$//' | sed 's/\t[0-9.]*s$//'); }
git -C $VERIF_REPO diff --quiet || { echo "repo worktree not clean"; exit 2; }
base=$(tests)
for p in $here/m*${1}*.patch; do
  n=$(basename $p .patch)
  git -C $VERIF_REPO apply $p || { echo "$n: patch does not apply"; continue; }
  t=$(tests); [ "$t" == "$base" ] && tst="tests-as-baseline" || tst="TESTS-DIFFER"
  out=$(cd $VERIF && VERIF_SEED=${VERIF_SEED:-1} timeout 1200 bin/check C02 quick 2>/dev/null); rc=$?
  git -C $VERIF_REPO checkout -- .
  nv=$(echo "$out" | grep -c '^VIOLATION')
  asserts=$(echo "$out" | grep '^VIOLATION' | sed 's/.*assert=\([^ ]*\).*/\1/' | sort | uniq -c | sort -rn | awk '{printf "%s(%s) ", $2, $1}')
  echo "$n: rc=$rc $tst violations=$nv :: $asserts"
done

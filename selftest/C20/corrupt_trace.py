#!/usr/bin/env python3
"""Selftest of the T binding of C20: a trace recorded from the real code is accepted by
ObiFpTrace.tla; the same trace with ONE field of ONE event of each method group corrupted
(lowest bit of one byte flipped, an overflow flag inverted, a comparison result negated) must be
rejected by TLC at exactly the corrupted events, naming the corrupted field.

usage: VERIF_REPO=<repo worktree> python3 selftest/C20/corrupt_trace.py     (exit 0 = as expected)
"""
import json
import os
import sys

HERE = os.path.dirname(os.path.abspath(__file__))
VERIF = os.path.dirname(os.path.dirname(HERE))
sys.path.insert(0, os.path.join(VERIF, "bin"))
import vlib  # noqa: E402

# group -> field corrupted in the first event of that group that carries a value in the field
PLAN = {"sh": "shr", "bin": "cmp", "un": "c256", "mul": "mulp", "div": "dq", "u64x": "lc"}


def corrupt(ev, field):
    v = list(ev["o"][field])
    if field.endswith("p"):
        v = [1 - v[0]]
    elif field == "cmp":
        v = [1 if v[0] <= 0 else -1]
    else:
        v[len(v) // 2] ^= 1
    ev["o"][field] = v


def main():
    ctx = vlib.Ctx("C20", "quick")
    try:
        trace = ctx.path("trace.ndjson")
        ctx.harness(["record", "C20", "--out", trace, "--n", 600, "--opt", "mul=80", "--opt", "div=80"])
        events, rejects = ctx.trace_validate("ObiFpTrace", "ObiFpTrace.cfg", trace)
        base = {r["l"] for r in rejects}
        print("uncorrupted trace: %d events, %d rejected (known findings only are expected here)" %
              (len(events), len(base)))
        want = {}
        for g, field in PLAN.items():
            for i, ev in enumerate(events):
                if ev["g"] == g and (i + 1) not in base and len(ev["o"].get(field, [])) >= 1 \
                        and ev["o"][field] != [-9] and (field != "dq" or any(ev["o"]["dq"])):
                    corrupt(ev, field)
                    want[i + 1] = field
                    break
        if len(want) != len(PLAN):
            print("could not place every corruption:", want)
            return 2
        bad = ctx.path("corrupted.ndjson")
        vlib.write_ndjson(bad, events)
        _, rejects2 = ctx.trace_validate("ObiFpTrace", "ObiFpTrace.cfg", bad)
        got = {r["l"]: r["why"] for r in rejects2 if r["l"] not in base}
        ok = set(got) == set(want) and all(want[l] in got[l] for l in want)
        for l in sorted(want):
            print("event %d (%s): corrupted field %-5s -> TLC rejects with %s" %
                  (l, events[l - 1]["g"], want[l], got.get(l, "NOT REJECTED")))
        extra = set(got) - set(want)
        if extra:
            print("unexpected rejections:", sorted(extra))
        print("RESULT:", "every corrupted event rejected, nothing else" if ok else "MISMATCH")
        return 0 if ok else 1
    finally:
        ctx.cleanup()


if __name__ == "__main__":
    sys.exit(main())

#!/usr/bin/env python3
"""Selftest of the T binding of C19: a trace recorded from the real code is accepted by
KmerTrace.tla; the same trace with ONE field of ONE event corrupted, for a series of fields,
must be rejected by TLC at exactly the corrupted events, with the expected reason.

usage: VERIF_REPO=<repo worktree> python3 selftest/C19/corrupt_trace.py     (exit 0 = as expected)
"""
import os
import sys

HERE = os.path.dirname(os.path.abspath(__file__))
VERIF = os.path.dirname(os.path.dirname(HERE))
sys.path.insert(0, os.path.join(VERIF, "bin"))
import vlib  # noqa: E402


def first(events, used, pred):
    for i, ev in enumerate(events):
        if i not in used and pred(ev):
            used.add(i)
            return i
    raise SystemExit("no event to place a corruption")


def main():
    ctx = vlib.Ctx("C19", "quick")
    try:
        trace = ctx.path("trace.ndjson")
        ctx.harness(["record", "C19", "--out", trace, "--n", 60, "--opt", "maxlen=120", "--opt", "graphs=32"])
        events, rejects = ctx.trace_validate("KmerTrace", "KmerTrace.cfg", trace)
        print("uncorrupted trace: %d events, %d rejected" % (len(events), len(rejects)))
        if rejects:
            print("the uncorrupted trace must be accepted:", rejects[:5])
            return 1
        used, want = set(), {}

        def plan(pred, why, fn):
            i = first(events, used, pred)
            fn(events[i])
            want[i + 1] = why

        idx = lambda e: e["kind"] == "idx" and len(e["keys"]) > 3 and e["pan"] == 0
        acyc = lambda e: e["kind"] == "graph" and e["cyc"] == 0 and len(e["path"]) > 5
        # one digit of one canonical key of the forward strand
        plan(idx, "strand_invariance", lambda e: e["keys"][1].__setitem__(0, (e["keys"][1][0] + 1) % 4))
        # the same key changed on both strands: still strand-invariant, but not the canonical k-mer
        def both(e):
            e["keys"][0][-1] = (e["keys"][0][-1] + 1) % 4
            e["rkeys"][-1][-1] = e["keys"][0][-1]
        plan(lambda e: idx(e) and e["keys"][0] == e["rkeys"][-1], "canonical_key", both)
        plan(idx, "canonical_key", lambda e: e.__setitem__("stray", 1))                       # a stray high digit
        plan(idx, "key_string", lambda e: e["strs"][0].__setitem__(0, (e["strs"][0][0] + 1) % 4))
        plan(idx, "harness_bad_revcomp", lambda e: e["r"].__setitem__(0, "a" if e["r"][0] != "a" else "c"))
        plan(lambda e: e["kind"] == "four" and len(e["tab"]) > 2, "fourmer_table",
             lambda e: e["tab"][1].__setitem__(1, e["tab"][1][1] + 1))                         # one count
        plan(lambda e: e["kind"] == "four" and len(e["tab"]) > 2, "fourmer_table", lambda e: e["tab"].pop())  # one entry lost
        plan(acyc, "graph_weight", lambda e: e["PW"].__setitem__(3, e["PW"][3] + 1))           # one weight
        plan(acyc, "graph_node_count", lambda e: e.__setitem__("len", e["len"] + 1))
        plan(acyc, "graph_has_cycle", lambda e: e.__setitem__("cyc", 1))
        plan(acyc, "graph_walk_valid", lambda e: e["path"].pop(2))                             # a node skipped
        plan(acyc, "graph_walk_valid", lambda e: e["path"].pop(0))                             # does not start at a source
        plan(acyc, "graph_heaviest_weight", lambda e: e["path"].pop())                         # valid walk, one node short
        plan(acyc, "graph_path_iff_acyclic", lambda e: e.__setitem__("path", []))
        plan(acyc, "graph_consensus_heaviest_weight", lambda e: e["cons"].pop())
        plan(acyc, "graph_consensus_iff_acyclic", lambda e: e.__setitem__("cons", []))
        plan(lambda e: e["kind"] == "graph" and e["cyc"] == 1, "graph_has_cycle", lambda e: e.__setitem__("cyc", 0))
        plan(lambda e: e["kind"] == "graph" and e["sc"] == "single" and e["cyc"] == 0 and len(e["cons"]) > 20,
             "graph_consensus_walk_valid", lambda e: e["cons"].__setitem__(10, (e["cons"][10] + 1) % 4))
        plan(acyc, "harness_probe_incomplete", lambda e: (e["P"].pop(0), e["PW"].pop(0)))
        bad = ctx.path("corrupted.ndjson")
        vlib.write_ndjson(bad, events)
        _, rejects2 = ctx.trace_validate("KmerTrace", "KmerTrace.cfg", bad)
        got = {r["l"]: r["why"] for r in rejects2}
        ok = got == want
        for l in sorted(want):
            print("event %3d (%-5s): expected %-34s TLC: %s" % (l, events[l - 1]["kind"], want[l], got.get(l, "NOT REJECTED")))
        extra = set(got) - set(want)
        if extra:
            print("unexpected rejections:", sorted(extra))
        print("RESULT:", "every corrupted event rejected with the expected reason, nothing else" if ok else "MISMATCH")
        return 0 if ok else 1
    finally:
        ctx.cleanup()


if __name__ == "__main__":
    sys.exit(main())

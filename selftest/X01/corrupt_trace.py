#!/usr/bin/env python3
"""Selftest of the X01 trace binding: record a small trace from the real code, corrupt ONE field of an accepted
event at a time, and check that RelTrace.tla rejects exactly the corrupted copies (and still accepts the
originals and the harmless variants: permuting the records inside a group is allowed by the statements).

    VERIF_REPO=/tmp/rw/X01 python3 selftest/X01/corrupt_trace.py
"""
import copy
import json
import os
import sys

HERE = os.path.dirname(os.path.abspath(__file__))
sys.path.insert(0, os.path.join(HERE, "..", "..", "bin"))
import vlib  # noqa: E402


def main():
    ctx = vlib.Ctx("X01", "selftest")
    try:
        ctx.build_cmds(["obijoin", "obidemerge", "obisplit"])
        bindir = os.path.join(ctx.scratch, "bin")
        events = []
        for sub, n in (("join", 6), ("demerge", 6), ("split", 3)):
            p = ctx.path("t_%s.ndjson" % sub)
            ctx.harness(["record", "X01", "--out", p, "--n", n, "--opt", "sub=" + sub, "--opt", "bindir=" + bindir])
            events += [json.loads(l) for l in open(p)]
        variants = []   # (label, event, must_be_rejected)

        def add(label, ev, bad):
            variants.append((label, ev, bad))

        done = set()
        for ev in events:
            sub = ev["sub"]
            add("original " + sub, ev, None)           # None: whatever the unchanged tree gives (known findings)
            if sub == "join" and "join" not in done and len(ev["out"]) > len(ev["main"]) >= 3 and ev["status"] == "ok":
                done.add("join")
                e = copy.deepcopy(ev); e["out"][1]["ann"]["site"] = "s:corrupted"; add("join: one annotation value changed", e, True)
                e = copy.deepcopy(ev); del e["out"][len(e["out"]) // 2]; add("join: one output record dropped", e, True)
                e = copy.deepcopy(ev); e["out"].insert(0, copy.deepcopy(e["out"][0])); add("join: one output record duplicated", e, True)
                e = copy.deepcopy(ev); e["out"][0]["seq"] = e["out"][0]["seq"][:-1] + ("a" if e["out"][0]["seq"][-1] != "a" else "c"); add("join: one nucleotide changed", e, True)
                e = copy.deepcopy(ev); e["out"] = list(reversed(e["out"])); add("join: output stream reversed", e, True)
                e = copy.deepcopy(ev); e["out"][0]["id"] += "x"; add("join: identifier changed", e, True)
            if sub == "demerge" and "demerge" not in done and len(ev["out"]) > len(ev["recs"]) >= 3 and ev["status"] == "ok" and ev["key"] == "sample":
                done.add("demerge")
                k = next(i for i, o in enumerate(ev["out"]) if "sample" in o["ann"] and o["ann"]["sample"] != "s:former")
                e = copy.deepcopy(ev); e["out"][k]["count"] += 1; add("demerge: one count off by one", e, True)
                e = copy.deepcopy(ev); e["out"][k]["ann"]["sample"] = "s:ZZ"; add("demerge: one value renamed", e, True)
                e = copy.deepcopy(ev); e["out"][k]["stats"]["sample"] = {"A": 1}; add("demerge: statistic left in place", e, True)
                e = copy.deepcopy(ev); del e["out"][k]; add("demerge: one record dropped", e, True)
                e = copy.deepcopy(ev); e["out"][k]["ann"]["zz"] = "s:new"; add("demerge: one annotation added", e, True)
            if sub == "split" and "split" not in done and len(ev["out"]) >= 3 and ev["status"] == "ok" and not ev.get("indel"):
                done.add("split")
                e = copy.deepcopy(ev); e["out"][1]["lerr"] += 1; add("split: left error count changed", e, True)
                e = copy.deepcopy(ev); e["out"][1]["group"] += "x"; add("split: group renamed", e, True)
                e = copy.deepcopy(ev); del e["out"][1]
                for i, o in enumerate(e["out"]):
                    o["frg"], o["nfrg"] = i + 1, len(e["out"])
                add("split: one fragment dropped (renumbered)", e, True)
                e = copy.deepcopy(ev); e["out"][0]["to"] -= 1; e["out"][0]["seq"] = e["out"][0]["seq"][:-1]; e["out"][0]["qual"] = e["out"][0]["qual"][:-1] if e["out"][0]["qual"] else ""
                e["out"][0]["id"] = e["id"] + "_sub[%d..%d]" % (e["out"][0]["from"] + 1, e["out"][0]["to"]); add("split: fragment one base short (consistently)", e, True)
                e = copy.deepcopy(ev); e["out"][2]["seq"] = e["out"][2]["seq"][::-1] + "a"; add("split: fragment sequence is not the read at its location", e, True)
                e = copy.deepcopy(ev); e["out"][0]["nfrg"] += 1; add("split: nfrg wrong", e, True)
        # harmless variants: order inside a group is free
        for ev in events:
            if ev["sub"] == "demerge" and ev["status"] == "ok" and ev["key"] == "sample":
                for i in range(len(ev["out"]) - 1):
                    a, b = ev["out"][i], ev["out"][i + 1]
                    if a["id"] == b["id"] and a["seq"] == b["seq"] and "sample" in a["ann"] and "sample" in b["ann"] and a["ann"]["sample"] != b["ann"]["sample"] \
                            and not a["stats"].get("sample") and not b["stats"].get("sample") and sum(1 for r in ev["recs"] if r["id"] == a["id"]) == 1:
                        e = copy.deepcopy(ev); e["out"][i], e["out"][i + 1] = e["out"][i + 1], e["out"][i]
                        add("demerge: two records of one group exchanged (allowed)", e, False)
                        break
                else:
                    continue
                break
        missing = {"join", "demerge", "split"} - done
        if missing:
            print("no suitable event recorded for", missing)
            return 2
        tr = ctx.path("corrupt.ndjson")
        vlib.write_ndjson(tr, [v[1] for v in variants])
        evs, rejects = ctx.trace_validate("RelTrace", "RelTrace.cfg", tr, timeout=900)
        bad = {r["l"]: r["why"] for r in rejects}
        ok = True
        for i, (label, ev, must) in enumerate(variants, 1):
            got = bad.get(i)
            if must is None:
                continue
            verdict = "rejected (%s)" % got if got else "accepted"
            good = (got is not None) == must
            ok = ok and good
            print("%-62s %-28s %s" % (label, verdict, "as expected" if good else "UNEXPECTED"))
        print("originals: %d events, %d rejected on the unchanged tree (known findings)" %
              (sum(1 for v in variants if v[2] is None), sum(1 for i, v in enumerate(variants, 1) if v[2] is None and i in bad)))
        return 0 if ok else 1
    finally:
        ctx.cleanup()


if __name__ == "__main__":
    sys.exit(main())

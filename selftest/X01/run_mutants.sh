#!/bin/bash
# selftest of the X01 binding: every mutant of the anchored code must turn the quick check to exit 1 with a VIOLATION line.
#   selftest/X01/run_mutants.sh [patch ...]      (default: every selftest/X01/m*.patch)
# Uses the worktrees of the build (VERIF_REPO, default /tmp/rw/X01); the repository is restored after each patch.
cd "$(dirname "$0")/../.." || exit 2
export VERIF_REPO=${VERIF_REPO:-/tmp/rw/X01}
patches=("$@"); [ ${#patches[@]} -eq 0 ] && patches=(selftest/X01/m*.patch)
for p in "${patches[@]}"; do
  git -C "$VERIF_REPO" checkout -- . && git -C "$VERIF_REPO" apply "$PWD/$p" || { echo "$(basename $p): PATCH DOES NOT APPLY"; continue; }
  out=$(timeout 1500 bin/check X01 quick 2>/dev/null); rc=$?
  git -C "$VERIF_REPO" checkout -- .
  asserts=$(echo "$out" | grep '^VIOLATION' | sed 's/.*assert=\([^ ]*\).*/\1/' | sort | uniq -c | awk '{printf "%s(x%s) ", $2, $1}')
  echo "$(basename $p .patch): exit=$rc  $asserts"
done
git -C "$VERIF_REPO" status --short

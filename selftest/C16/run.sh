#!/bin/bash
# Applies each mutant of selftest/C16/*.patch to the repo worktree ($VERIF_REPO), checks that the touched
# packages still build, runs the quick check and expects exit 1 with a VIOLATION line; restores the tree.
# usage: selftest/C16/run.sh [patch ...]      (run from the framework root; VERIF_REPO must be set)
set -u
here=$(cd "$(dirname "$0")" && pwd); root=$(cd "$here/../.." && pwd)
repo=${VERIF_REPO:?set VERIF_REPO}
[ -z "$(git -C "$repo" status --porcelain)" ] || { echo "repo worktree not clean"; exit 2; }
patches=("$@"); [ ${#patches[@]} -eq 0 ] && patches=("$here"/m*.patch)
for p in "${patches[@]}"; do
  p=$(realpath "$p"); name=$(basename "$p" .patch)
  git -C "$repo" apply "$p" || { echo "$name: patch does not apply"; continue; }
  pkgs=$(git -C "$repo" diff --name-only | xargs -n1 dirname | sort -u | sed 's#^#./#')
  if ! (cd "$repo" && env -u GOFLAGS GOPROXY=off GOSUMDB=off GOTOOLCHAIN=local go vet $pkgs >/dev/null 2>&1); then echo "$name: does not compile"; git -C "$repo" checkout -- .; continue; fi
  out=$(cd "$root" && timeout 900 bin/check C16 quick 2>/dev/null); rc=$?
  n=$(echo "$out" | grep -c '^VIOLATION')
  first=$(echo "$out" | grep '^VIOLATION' | sed 's/.*assert=\([^ ]*\) class=\([^ ]*\).*/\1 \2/' | sort | uniq -c | sort -rn | awk '{print $2}' | sort -u | tr '\n' ' ')
  echo "$name: exit=$rc violations=$n asserts: $first"
  git -C "$repo" checkout -- .
done

#!/usr/bin/env python3
"""Binding test of the trace direction: record real events, corrupt ONE field of a copy of some of them, and
check that OptTrace (TLC) rejects every corrupted event and accepts the untouched ones.
usage (framework root, VERIF_REPO set):  python3 selftest/C16/corrupt_trace.py"""
import copy
import json
import os
import sys

sys.path.insert(0, os.path.join(os.path.dirname(os.path.abspath(__file__)), "..", "..", "bin"))
import vlib  # noqa: E402


def main():
    ctx = vlib.Ctx("C16", "selftest")
    trace = ctx.path("trace.ndjson")
    ctx.harness(["record", "C16", "--out", trace, "--n", 300])
    ev = [json.loads(l) for l in open(trace)]
    out, notes = [], []

    def add(e, why, expect):
        out.append(e)
        notes.append((why, expect))
    g = [e for e in ev if e["tool"] == "grep" and e["mode"] == "none" and len(e["out"]) >= 2][0]
    gp = [e for e in ev if e["tool"] == "grep" and e["mode"] != "none" and len(e["out"]) >= 2][0]
    a = [e for e in ev if e["tool"] == "annot" and len(e["out"]) >= 2 and any(o["fam"] == "set" for o in e["opts"])][0]
    c = [e for e in ev if e["tool"] == "annot" and any(o["fam"] == "cut" for o in e["opts"]) and len(e["out"]) >= 1][0]
    d = [e for e in ev if e["tool"] == "dist" and len(e["files"]) >= 2][0]
    for e0 in (g, gp, a, c, d):
        add(copy.deepcopy(e0), "%s: untouched" % e0["tool"], "ok")
    e = copy.deepcopy(g); e["out"] = e["out"][1:]; add(e, "grep: one kept record removed from the output", "rej")
    e = copy.deepcopy(g); e["out"][0]["attrs"]["zz"] = "i:1"; add(e, "grep: attribute added to an output record", "rej")
    e = copy.deepcopy(g); e["out"][0]["seq"] = e["out"][0]["seq"] + "a"; add(e, "grep: output sequence altered", "rej")
    e = copy.deepcopy(g); e["pred"] = e["pred"][1:]; add(e, "grep: predicate verdict of one record flipped", "rej")
    e = copy.deepcopy(g); e["v"] = 1 - e["v"]; add(e, "grep: -v flag flipped", "rej")
    e = copy.deepcopy(gp); e["outm"][0], e["outm"][1] = e["outm"][1], e["outm"][0]; add(e, "grep paired: two mates swapped", "rej")
    e = copy.deepcopy(a); k = [o for o in e["opts"] if o["fam"] == "set"][0]["key"]; del e["out"][0]["attrs"][k]
    add(e, "annot: a -S key missing from one record", "rej")
    e = copy.deepcopy(a); e["out"][1]["seq"] = e["out"][1]["seq"][:-1]; add(e, "annot: one sequence shortened", "rej")
    e = copy.deepcopy(a); e["out"] = e["out"][:-1]; add(e, "annot: last record missing", "rej")
    e = copy.deepcopy(a); e["out"][0]["attrs"]["other"] = "s:q"; add(e, "annot: extra attribute (frame condition)", "rej")
    e = copy.deepcopy(c); e["out"][0]["id"] = e["out"][0]["id"].replace("_sub[", "_sub[1"); add(e, "annot --cut: positions in the identifier changed", "rej")
    e = copy.deepcopy(d); r = e["files"][0]["ranks"].pop(); rr = e["files"][0]["recs"].pop()
    e["files"][1]["ranks"].append(r); e["files"][1]["recs"].append(rr); add(e, "dist: one record moved to another file", "rej")
    e = copy.deepcopy(d); e["files"][0]["name"] = "x" + e["files"][0]["name"]; add(e, "dist: one file renamed", "rej")
    e = copy.deepcopy(d); e["files"][0]["recs"][0]["attrs"]["zz"] = "s:1"; add(e, "dist: record changed in its file", "rej")
    tr = ctx.path("corrupt.ndjson")
    vlib.write_ndjson(tr, out)
    events, rejects = ctx.trace_validate("OptTrace", "OptTrace.cfg", tr)
    why = {r["l"]: r["why"] for r in rejects}
    bad = 0
    for i, (n, expect) in enumerate(notes, 1):
        got = why.get(i, "accepted")
        okk = (got == "accepted") == (expect == "ok")
        bad += 0 if okk else 1
        print("%-60s -> %-16s %s" % (n, got, "as expected" if okk else "UNEXPECTED"))
    ctx.cleanup()
    sys.exit(1 if bad else 0)


if __name__ == "__main__":
    main()

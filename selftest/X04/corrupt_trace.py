#!/usr/bin/env python3
"""Binding test of the trace side of X04: records traces from the real code, corrupts ONE field of one accepted event at a
time and checks that MicrosatTrace / KmerSimTrace reject exactly the corrupted events (and with the expected clause).
Usage: VERIF_REPO=/tmp/rw/X04 python3 selftest/X04/corrupt_trace.py"""
import copy
import json
import os
import sys

HERE = os.path.dirname(os.path.abspath(__file__))
sys.path.insert(0, os.path.join(HERE, "..", "..", "bin"))
import vlib  # noqa: E402


def main():
    ctx = vlib.Ctx("X04", "quick")
    fails = 0
    # ---------------------------------------------------------------- obimicrosat events
    trace = ctx.path("ms.ndjson")
    ctx.harness(["record", "X04", "--out", trace, "--n", 320, "--opt", "part=ms"])
    events, rejects = ctx.trace_validate("MicrosatTrace", "MicrosatTrace.cfg", trace)
    bad = {r["l"] for r in rejects}
    good = [e for i, e in enumerate(events, 1) if i not in bad]
    kept = next(e for e in good if e["n"] == 1 and e["out"]["cmp"] == 0 and e["out"]["left"] and e["out"]["right"] and not e["q"])
    flipped = next(e for e in good if e["n"] == 1 and e["out"]["cmp"] == 1 and e["q"])
    dropped = next(e for e in good if e["n"] == 0 and e["sc"] == "none")
    muts = []

    def m(name, want, ev, f):
        e = copy.deepcopy(ev)
        f(e)
        muts.append((name, want, e))
    m("microsat_from + 1", "bad:location", kept, lambda e: e["out"].__setitem__("from", e["out"]["from"] + 1))
    m("microsat_unit_count - 1", "bad:location", kept, lambda e: e["out"].__setitem__("uc", e["out"]["uc"] - 1))
    m("unit rotated by one", "bad:unit", kept, lambda e: e["out"].__setitem__("unit", e["out"]["unit"][1:] + e["out"]["unit"][:1]) if len(set(e["out"]["unit"])) > 1 else e["out"].__setitem__("unit", "x"))
    m("normalised unit replaced by the unit's last rotation", "bad:normalized_unit", kept, lambda e: e["out"].__setitem__("norm", e["out"]["norm"] + "a"))
    m("left flank loses its last base", "bad:flanks", kept, lambda e: e["out"].__setitem__("left", e["out"]["left"][:-1]))
    m("seq_length + 1", "bad:seq_length", kept, lambda e: e["out"].__setitem__("slen", e["out"]["slen"] + 1))
    m("record reported dropped", "bad:presence", kept, lambda e: e.__setitem__("n", 0))
    m("an extra annotation", "bad:annotations", kept, lambda e: e.__setitem__("extra", ["unexpected:foo"]))
    m("orientation flipped", "bad:orientation", kept, lambda e: e["out"].__setitem__("orient", "reverse" if e["out"]["orient"] == "direct" else "direct"))
    m("re-oriented record without the _cmp suffix", "bad:reorientation", flipped, lambda e: e["out"].__setitem__("cmp", 0))
    m("re-oriented record: scores not reversed", "bad:qualities", flipped, lambda e: e.__setitem__("qout", list(e["q"])) if e["q"] != e["q"][::-1] else e.__setitem__("qout", e["q"][1:]))
    m("a record without microsatellite reported kept", "bad:presence", dropped, lambda e: e.__setitem__("n", 1))
    t2 = ctx.path("ms_corrupt.ndjson")
    vlib.write_ndjson(t2, [e for _, _, e in muts])
    _, rej = ctx.trace_validate("MicrosatTrace", "MicrosatTrace.cfg", t2)
    got = {r["l"]: r["why"] for r in rej}
    for i, (name, want, _) in enumerate(muts, 1):
        ok = got.get(i) == want
        fails += 0 if ok else 1
        print("%-70s %-24s %s" % ("ms: " + name, got.get(i, "ACCEPTED"), "ok" if ok else "UNEXPECTED (wanted %s)" % want))
    # ---------------------------------------------------------------- k-mer events
    trace = ctx.path("ks.ndjson")
    ctx.harness(["record", "X04", "--out", trace, "--n", 24, "--opt", "part=ks"])
    events, rejects = ctx.trace_validate("KmerSimTrace", "KmerSimTrace.cfg", trace)
    verdict = {r["l"]: r["why"] for r in rejects}
    pick = None
    for i, e in enumerate(events, 1):
        if verdict.get(i, "ok").startswith("bad"):
            continue
        for j, q in enumerate(e["queries"]):
            if q["self"] == 0 and q["ans"] and max(q["ans"]) >= 3 and q["nm"] >= 1:
                pick = (i, e, j)
                break
        if pick:
            break
    i0, ev, j = pick
    base = verdict.get(i0, "ok")
    muts = []
    hit = max(range(len(ev["queries"][j]["ans"])), key=lambda x: ev["queries"][j]["ans"][x])
    zero = next((x for x, v in enumerate(ev["queries"][j]["ans"]) if v == 0), None)

    def setq(field, fn):
        def f(e):
            e["queries"][j][field] = fn(e["queries"][j][field])
        return f
    m("count of the best reference + 1 (both strands)", "bad:count@%d" % (j + 1), ev,
      lambda e: (setq("ans", lambda a: [v + (1 if x == hit else 0) for x, v in enumerate(a)])(e), setq("rans", lambda a: [v + (1 if x == hit else 0) for x, v in enumerate(a)])(e)))
    m("count of the best reference - 2", "bad:count@%d" % (j + 1), ev,
      lambda e: (setq("ans", lambda a: [v - (2 if x == hit else 0) for x, v in enumerate(a)])(e), setq("rans", lambda a: [v - (2 if x == hit else 0) for x, v in enumerate(a)])(e)))
    if zero is not None:
        m("a reference without shared k-mer reported with count 2", "bad:count@%d" % (j + 1), ev,
          lambda e: (setq("ans", lambda a: [2 if x == zero else v for x, v in enumerate(a)])(e), setq("rans", lambda a: [2 if x == zero else v for x, v in enumerate(a)])(e)))
    m("reverse complement answers differently", "bad:strand_invariance@%d" % (j + 1), ev, setq("rans", lambda a: [0] * len(a)))
    m("obikmer_match_count + 1", "bad:min_shared_filter@%d" % (j + 1), ev, setq("nm", lambda v: v + 1))
    m("obikmer_kmer_size + 1", "bad:annotations@%d" % (j + 1), ev, setq("ksize", lambda v: v + 1))
    m("the record came out twice", "bad:pipeline_record@%d" % (j + 1), ev, setq("seen", lambda v: 2))
    t2 = ctx.path("ks_corrupt.ndjson")
    vlib.write_ndjson(t2, [ev] + [e for _, _, e in muts])
    _, rej = ctx.trace_validate("KmerSimTrace", "KmerSimTrace.cfg", t2)
    got = {r["l"]: r["why"] for r in rej}
    if got.get(1, "ok") != base:
        print("the untouched event is judged %s instead of %s" % (got.get(1, "ok"), base))
        fails += 1
    for i, (name, want, _) in enumerate(muts, 2):
        ok = got.get(i) == want
        fails += 0 if ok else 1
        print("%-70s %-28s %s" % ("ks: " + name, got.get(i, "ACCEPTED"), "ok" if ok else "UNEXPECTED (wanted %s)" % want))
    ctx.cleanup()
    print("corrupted events not rejected as expected: %d" % fails)
    return 1 if fails else 0


if __name__ == "__main__":
    sys.exit(main())

#!/bin/sh
# Applies every selftest/X04/[mk]NN_*.patch to the repository worktree (VERIF_REPO), checks that the three packages
# still compile, runs the quick check, expects exit 1 with VIOLATION lines, restores the tree.
# Usage: VERIF_REPO=/tmp/rw/X04 selftest/X04/run_mutants.sh [patch...]
HERE=$(cd "$(dirname "$0")" && pwd)
VERIF=$(cd "$HERE/../.." && pwd)
REPO=${VERIF_REPO:-/repo}
[ $# -gt 0 ] && LIST="$@" || LIST=$(ls "$HERE"/[mk]*.patch)
for p in $LIST; do
  p=$(cd "$(dirname "$p")" && pwd)/$(basename "$p")
  n=$(basename "$p" .patch)
  git -C "$REPO" apply "$p" || { echo "$n: patch does not apply"; continue; }
  (cd "$REPO" && GOFLAGS= go build ./pkg/obikmer/ ./pkg/obitools/obimicrosat/ ./pkg/obitools/obikmersim/ 2>/dev/null) || echo "$n: DOES NOT COMPILE"
  out=$(cd "$VERIF" && VERIF_REPO="$REPO" VERIF_SEED=${VERIF_SEED:-1} timeout 1200 bin/check X04 quick 2>/dev/null)
  rc=$?
  git -C "$REPO" checkout -- .
  echo "$n: exit=$rc violations=$(echo "$out" | grep -c '^VIOLATION')"
  echo "$out" | grep '^VIOLATION' | sed 's/replay=[^ ]* //' | cut -c1-300 | sed 's/^/    /' | head -5
done

#!/usr/bin/env python3
"""usage: selftest/eval_seeded.py [names...]   (default: every directory of /verif/seeded)
Runs the quick check of the property each seeded change breaks against a scratch worktree with the change applied,
and records the outcome in meta.json (our_checks) and in seeded/SUMMARY.md."""
import json, os, subprocess, sys, re
V = os.path.dirname(os.path.dirname(os.path.abspath(__file__)))
summary_only = "--summary-only" in sys.argv
names = [a for a in sys.argv[1:] if not a.startswith("--")] or sorted(d for d in os.listdir(os.path.join(V, "seeded")) if os.path.isdir(os.path.join(V, "seeded", d)))
for n in ([] if summary_only else names):
    d = os.path.join(V, "seeded", n)
    meta = json.load(open(os.path.join(d, "meta.json")))
    pid = meta["property"]
    for chk in [pid] + meta.get("also_checks", []):
        p = subprocess.run([os.path.join(V, "selftest", "run_patch.py"), chk, os.path.join(d, "patch.diff")], capture_output=True, text=True)
        viol = [l for l in p.stdout.splitlines() if l.startswith("VIOLATION")]
        asserts = sorted({m.group(1) for l in viol for m in [re.search(r"assert=(\S+)", l)] if m})
        meta.setdefault("our_checks", {})[chk] = {"exit": p.returncode, "violations": len(viol), "asserts": asserts[:8], "first": [v[:300] for v in viol[:2]]}
        print("%s: check %s -> exit %d (%d VIOLATION lines) %s" % (n, chk, p.returncode, len(viol), asserts[:4]))
    meta["repo_head_evaluated"] = subprocess.run(["git", "-C", "/repo", "rev-parse", "--short", "HEAD"], capture_output=True, text=True).stdout.strip()
    json.dump(meta, open(os.path.join(d, "meta.json"), "w"), indent=1)
rows = []
for n in sorted(os.listdir(os.path.join(V, "seeded"))):
    mp = os.path.join(V, "seeded", n, "meta.json")
    if os.path.exists(mp):
        m = json.load(open(mp))
        for c, r in m.get("our_checks", {}).items():
            rows.append("| %s | %s | %s | %s | %s |" % (n, m.get("needs", "")[:140], c, "caught (exit 1)" if r["exit"] == 1 else "not this check (exit %d)" % r["exit"], ", ".join(r.get("asserts", [])[:3])))
open(os.path.join(V, "seeded", "SUMMARY.md"), "w").write("| seeded change | needs, to manifest | check | outcome | assertions that fired |\n|---|---|---|---|---|\n" + "\n".join(rows) + "\n")

#!/usr/bin/env python3
"""Binding test of the T step of X02: record a trace from the real code, corrupt ONE field of one event of
each kind, let TLC validate the corrupted trace with AggregTrace: every corrupted event must be rejected for the
expected reason and no other event may get a new reason.

usage: VERIF_REPO=<repo worktree> selftest/X02/corrupt_trace.py        (run from the framework root)
"""
import copy
import json
import os
import sys

HERE = os.path.dirname(os.path.abspath(__file__))
sys.path.insert(0, os.path.join(HERE, "..", "..", "bin"))
import vlib  # noqa: E402


def corrupt(e):
    """returns (corrupted event, reason that TLC must give)"""
    e = copy.deepcopy(e)
    k = e["k"]
    if k == "summary" and e["decoded"]:
        e["obs"]["reads"] += 1
        return e, "summary.count"
    if k == "isummary" and e["obs"]["stats"]:
        s = sorted(e["obs"]["stats"])[0]
        e["obs"]["stats"][s]["singletons"] += 1
        return e, "summary.lib.isummary.samples"
    if k == "merge" and e["obs"]["scalar"]:
        s = sorted(e["obs"]["scalar"])[0]
        e["obs"]["scalar"][s] -= 1
        return e, "summary.lib.merge.keys"
    if k == "count" and e["decoded"] and e["obs"]["lines"]:
        e["obs"]["lines"][-1]["n"] += 1
        return e, "count.lines"
    if k == "matrix" and e["decoded"] and e["tab"]["rows"] and e["tab"]["rows"][0]["cells"]:
        r = e["tab"]["rows"][0]
        r["cells"][0] = r["vals"][0] = "77777"
        r["ivals"][0] = 77777
        return e, "matrix.cells"
    if k == "three" and e["decoded"] and len(e["tab"]["rows"]) > 1:
        e["tab"]["rows"].pop()
        return e, "three.rows"
    if k == "imatrix" and e["rows"]:
        e["rows"][0]["m"]["ZZ"] = "1"
        return e, "matrix.lib.cells"
    return None, None


def main():
    ctx = vlib.Ctx("X02", "quick")
    try:
        bindir = ctx.build_cmds(["obisummary", "obimatrix", "obicount"])
        trace = ctx.path("trace.ndjson")
        ctx.harness(["record", "X02", "--out", trace, "--n", 56, "--opt", "bindir=" + bindir, "--opt", "maxrecs=300"], timeout=900)
        events = [json.loads(x) for x in open(trace)]
        _, base = ctx.trace_validate("AggregTrace", "AggregTrace.cfg", trace)
        base = {v["l"]: set(v["why"]) for v in base}
        done, expect, out = set(), {}, []
        for i, e in enumerate(events):
            c, why = (None, None) if e["k"] in done else corrupt(e)
            if c is not None:
                done.add(e["k"])
                expect[i + 1] = why
                out.append(c)
            else:
                out.append(e)
        bad = ctx.path("corrupted.ndjson")
        vlib.write_ndjson(bad, out)
        _, got = ctx.trace_validate("AggregTrace", "AggregTrace.cfg", bad)
        got = {v["l"]: set(v["why"]) for v in got}
        ok = True
        for l in sorted(got):
            new = got[l] - base.get(l, set())
            if l in expect:
                good = expect[l] in new
                print("event %d (%s): one field corrupted -> TLC reasons %s : %s" % (l, events[l - 1]["k"], sorted(new), "REJECTED as expected" if good else "NOT REJECTED"))
                ok = ok and good
            elif new:
                print("event %d (%s): untouched but new reasons %s" % (l, events[l - 1]["k"], sorted(new)))
                ok = False
        missing = {"summary", "isummary", "merge", "count", "matrix", "three", "imatrix"} - done
        if missing:
            print("no event to corrupt for kinds", sorted(missing))
            ok = False
        print("RESULT:", "binding binds" if ok else "FAILED")
        return 0 if ok else 1
    finally:
        ctx.cleanup()


if __name__ == "__main__":
    sys.exit(main())

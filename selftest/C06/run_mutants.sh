#!/bin/sh
# Selftest of the C06 binding: apply each mutant to the repo worktree, run the quick check, expect exit 1.
# usage: VERIF_REPO=/tmp/rw/C06 selftest/C06/run_mutants.sh [patch ...]     (run from the framework root)
REPO=${VERIF_REPO:-/repo}
HERE=$(cd "$(dirname "$0")" && pwd)
OUT=${OUT:-/tmp/c06_selftest}
mkdir -p "$OUT"
if [ $# -gt 0 ]; then LIST=""; for a in "$@"; do LIST="$LIST $(cd "$(dirname "$a")" && pwd)/$(basename "$a")"; done; else LIST=$(ls "$HERE"/m*.patch); fi
for p in $LIST; do
  name=$(basename "$p" .patch)
  git -C "$REPO" checkout -- . || exit 2
  git -C "$REPO" apply "$p" || { echo "$name: patch does not apply"; continue; }
  pkgs=$(git -C "$REPO" diff --name-only | xargs -n1 dirname | sort -u | sed 's#^#./#; s#$#/...#' | tr '\n' ' ')
  (cd "$REPO" && env -u GOFLAGS GOPROXY=off GOTOOLCHAIN=local go test -vet=off -count=1 $pkgs 2>&1 | grep -E "^(ok|FAIL|---)" | sort -u | tr '\n' ' ') > "$OUT/$name.gotest"
  VERIF_SEED=${VERIF_SEED:-1} timeout 1500 bin/check C06 quick > "$OUT/$name.out" 2> "$OUT/$name.err"
  rc=$?
  asserts=$(grep -o 'assert=[^ ]*' "$OUT/$name.out" | sort | uniq -c | tr '\n' ' ')
  echo "$name: exit=$rc gotest=[$(cat $OUT/$name.gotest)] :: $asserts"
  git -C "$REPO" checkout -- .
done

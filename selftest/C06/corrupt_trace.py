#!/usr/bin/env python3
"""Selftest (b) of C06: corrupt one field of recorded trace events and check that TLC (UniqTrace) rejects exactly them.

usage: corrupt_trace.py trace.ndjson out.ndjson      (trace.ndjson: `obiverif record C06 ...`)
then : VERIF_TRACE=out.ndjson VERIF_REJECTS=rej.ndjson tlc -config UniqTrace.cfg UniqTrace
The first three events are left intact (must be accepted); then come, in this order:
  count+1 on an output record (count), one unit of weight moved inside a merged_k map (merged), one output record
  dropped (class-lost), one duplicated (duplicate-key), a demerged value renamed (demerge-value), the reference of a
  law event altered (law-broken), one unit of weight moved inside a merged_k:w map of a run with -m k:w (wmerged), one
  unit of weight removed from a merged_k:w map given to a second pass, i.e. from an INPUT record (wmerged).
"""
import copy
import json
import sys

ev = [json.loads(l) for l in open(sys.argv[1]) if l.strip()]
out = ev[:3]
e = copy.deepcopy(ev[0]); e["out"][5][2] += 1; out.append(e)
e = copy.deepcopy(next(x for x in ev if x["merge"] == 1 and x["op"] == "uniq"))
for o in e["out"]:
    nz = [i for i, w in enumerate(o[3]) if w > 0]
    if nz:
        o[3][nz[0]] -= 1; o[3][(nz[0] + 1) % len(o[3])] += 1
        break
out.append(e)
e = copy.deepcopy(ev[1]); e["out"].pop(3); out.append(e)
e = copy.deepcopy(ev[2]); e["out"].append(e["out"][0]); out.append(e)
d = next((x for x in ev if x["op"] == "demerge"), None)
if d:
    e = copy.deepcopy(d); e["out"][0][3] = "v9" if e["out"][0][3] != "v9" else "v0"; out.append(e)
l = next((x for x in ev if x["op"] == "law"), None)
if l:
    e = copy.deepcopy(l); e["ref"][0][2] += 1; out.append(e)
w = next((x for x in ev if x.get("wmerge") == 1 and x["op"] == "uniq" and any(sum(o[4]) > 0 for o in x["out"])), None)
if w:
    e = copy.deepcopy(w)
    for o in e["out"]:
        nz = [i for i, x in enumerate(o[4]) if x > 0]
        if nz:
            o[4][nz[0]] -= 1; o[4][(nz[0] + 1) % len(o[4])] += 1
            break
    out.append(e)
p2 = next((x for x in ev if x["op"] == "pass2" and any(r[7] == "map" and sum(r[8]) > 0 for r in x["recs"])), None)
if p2:
    e = copy.deepcopy(p2)
    r = next(r for r in e["recs"] if r[7] == "map" and sum(r[8]) > 0)
    r[8][next(i for i, x in enumerate(r[8]) if x > 0)] -= 1
    out.append(e)
with open(sys.argv[2], "w") as f:
    for e in out:
        f.write(json.dumps(e, separators=(",", ":")) + "\n")
print("kept 3 intact events, wrote %d corrupted ones" % (len(out) - 3))

#!/bin/sh
# usage: bin/run_all.sh [quick|thorough] [ids...]  -- runs the registered checks one after the other, prints one line each
cd "$(dirname "$0")/.."
TIER=${1:-quick}; shift 2>/dev/null
IDS=${*:-$(python3 -c "import json;print(' '.join(c['property_id'] for c in json.load(open('MANIFEST.json'))['checks']))")}
for p in $IDS; do
  /usr/bin/time -f "  ($p %es)" bin/check $p $TIER 2>&1 | grep -E "VIOLATION|KNOWN-FINDING|INCONCLUSIVE|\[check\] $p |\($p " | cut -c1-220
done

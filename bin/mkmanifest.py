#!/usr/bin/env python3
"""Regenerates MANIFEST.json from the table below (claimed checks) + properties.jsonl."""
import json
import os
import subprocess

V = os.path.dirname(os.path.dirname(os.path.abspath(__file__)))
props = [json.loads(l) for l in open(os.path.join(V, "properties.jsonl"))]

# id -> (technique, level text, level note, design ref)
CLAIMED = {
 "C04": ("TLC model checking of Writer.tla (all arrival permutations x empties x 4 formats) + replay of every exported history on the real writers + TLC validation of multi-worker run traces",
         "All arrival histories of n<=4 (quick; n<=6 thorough) batches with empty batches are enumerated by TLC on an implementation-shaped model of the re-sequencing writer whose framing rules are invariants; each history is forced on the real WriteFasta/WriteFastq/WriteJSON/WriteCSV and the tokenised bytes must equal the model output; racing multi-worker runs are validated by a TLC trace specification. Model checking is the right level because the property quantifies over histories the scheduler picks.",
         "Trusted: TLC, the tokenizer of the harness (cross-checked by encoding/json, encoding/csv), one formatting worker preserves push order. Bounded: n<=4/6 batches, sizes<=2 exhaustively; random streams up to 12 batches x 2-4 workers.",
         "DESIGN.md 5 C04"),
 "C03": ("TLC model checking of StreamCases.tla/StreamOps.tla (required outputs + contracts of every deterministic combinator) and Pipeline.tla (worker pool -> SortBatches -> Rebatch: all interleavings, confluence, conservation, termination) + replay of every exported case and gated emit schedule on the real combinators + TLC validation of traces of the nondeterministic combinators and of the real commands",
         "Every partition of the input into <=3 (thorough 4) batches incl. empty ones x every arrival permutation x parameters is enumerated by TLC together with the output StreamOps requires and replayed on SortBatches, Rebatch, FilterEmpty, FilterOn, DivideOn, Distribute, Concat, PairTo, IBatchOver, CompleteFileIterator, MakeISliceWorker; all interleavings of the pool/re-sequencer/rebatch pipeline are model-checked (confluence, exactly-once, termination under fairness) and every emit schedule is forced on the real pool with gates; Pool, worker pools, multi-file reader, chained pipelines and the obiconvert/obigrep/obiannotate binaries over a (max-cpu, batch-size) grid are validated by the StreamTrace specification.",
         "Trusted: TLC, the harness source/collector relays. Bounded: <=3/4 batches of size<=2, W<=3 workers exhaustively; random streams of <=9 batches and 1-6 workers; commands on 4 file sets x 16-25 configurations. Hangs are detected by a 20 s patience.",
         "DESIGN.md 5 C03"),
 "C18": ("TLC model checking of WriterFault.tla (writer goroutine + bufio + failing sink: all arrival histories x chunk length classes x fault offsets x failing Close) + replay of the exported cases on the 4 real writers x {plain,gzip} with a failing io.WriteCloser + TLC validation of exhaustive-offset fault traces and of the real commands writing to /dev/full",
         "The model enumerates every arrival history, chunk size class relative to the bufio buffer, fault offset and failing Close, proves NoSilentLoss/FaultReported/NoFalseAlarm and termination, and shows that each of the four sites where the error can surface (direct write, drained write, flush at close, close) is reached; each case is forced on the real writers and the outcome (log.Fatal or not, bytes accepted) must equal the model's; small outputs are additionally faulted at every byte offset and the real binaries are run against /dev/full, both validated by WriterFaultTrace.",
         "Trusted: TLC, the failing sink of the harness, the logrus exit hook (fatal = non-zero exit). Abstract fault offsets are mapped proportionally on real byte lengths. Closed-pipe (SIGPIPE) outputs are not exercised.",
         "DESIGN.md 5 C18"),
 "C17": ("TLC model checking of ReaderFault.tla (decompressor -> MIME sniffer ReadFull -> chunk reader ReadFull; origin of an unexpected EOF tracked; negative test of the as-written variant) + TLC trace validation of the real commands run on real truncated / bit-flipped files of the four codecs (file argument and stdin)",
         "The model proves FaultIsFatal / NoSilentTruncation / HealthyIsNotFatal and termination for every (decompressed size vs buffer sizes, fault kind, fault position) and shows the four sites where the fault can surface (constructor, sniffer read, first chunk read, later reads); real .gz/.bz2/.xz/.zst files written by the repository's own writers are truncated at every byte (thorough; sampled incl. header and trailer regions in quick; files larger than the 1 MiB sniffing buffer included) and bit-flipped, the codec library classifies each fault (instrument), the obiconvert/obicount binaries are run on each (file and stdin) and ReaderFaultTrace accepts the run only if a detectable fault gives a non-zero exit and an intact file gives all records.",
         "Trusted: TLC, the codec libraries as instrument for 'is this fault detectable and after how many bytes'. Faults the codec cannot see and prefixes shorter than the magic number are skipped (counted). One known finding (pgzip accepts a .gz whose whole 8-byte trailer is missing).",
         "DESIGN.md 5 C17"),
 "C13": ("TLC model checking of Clean.tla (edges, son counts, weight propagation, ratio filter, status on every small data set) and CleanRace.tla (worker pool with atomic vs load/store increment) + replay of every data set on the real BuildSeqGraph with 1/2/8 workers and of the lost-update schedule with a barrier gate + TLC validation (CleanTrace) of graphs of random mutation families + obiclean binary compared across --max-cpu",
         "The reference graph of every data set of <=4 (thorough 5) sequences drawn from a pool of one-difference variants x counts x ratio is computed by TLC and compared with the graph built by the real code (hook VerifBuildGraph) for several worker counts and input orders; the atomic-increment pool is model-checked for all interleavings (the racy variant must lose an update), and the racy schedule is forced on the real code by a barrier gate on a star data set for 1200-6000 rounds; random families over a,c,g,t incl. reported mutations are validated by CleanTrace; the binary must give identical annotations for --max-cpu 1/2/8/32, -d 2 and -r 0.5.",
         "Trusted: TLC, the hook VerifBuildGraph (same calls as CLIOBIClean). A pure data race is reproduced statistically: a miss is possible, a false alarm is not. Distance > 1 and the ratio option are checked relationally only at binary level.",
         "DESIGN.md 5 C13"),
 "C05": ("TLC model checking of Pipeline.tla (confluence, single owner, conservation, termination for all interleavings) + replay of every emit schedule on the real worker pool running the real per-record workers (gates) + TLC validation (CommandTrace) of the ten commands run under many (max-cpu, batch-size, GOMAXPROCS, repetition) configurations",
         "Pipeline.tla proves that the stream delivered by source -> W workers -> SortBatches -> Rebatch is a function of the input for every interleaving (W<=3, <=3-4 batches, every keep mask); each emit schedule of the model is forced with gates on the real MakeISliceWorker pool running the real reverse-complement, PCR and demultiplexing workers and the formatted output must equal the one-worker reference; the ten record-wise commands are run on the wolf tutorial reads over a grid of parallelism settings and CommandTrace accepts only byte-identical outputs.",
         "Relational oracle (equality across configurations). Trusted: TLC, the gates/probes of the harness. Grid: 9 configurations x 2 repetitions x 12 command lines in quick, 36 x 3 in thorough; input = 250/1000 read pairs of /repo/sample.",
         "DESIGN.md 5 C05"),
 "C20": ("TLC checks the bit-level definitions of BitVec.tla against native integers (all pairs at 6/8 bits) and the limb-shaped LimbModel.tla against BitVec (all shift amounts); ObiFpCases.tla enumerates limb-pattern operands x all shifts 0..W+64 x 3 widths and exports every required result, which the harness replays on all methods of Uint64/Uint128/Uint256; ObiFpTrace.tla re-evaluates the specification on random-operand events recorded from the real code",
         "Model checking of an explicit TLA+ arithmetic specification: 33 437 (quick) / 240 811 (thorough) TLC-generated cases over word-boundary limb patterns and every shift amount are replayed on the real types, panics compared with the specification's overflow flag, plus 4 000 / 60 000 random events validated by TLC. This is the property least suited to the technique; it is used because the definitions are short and independently validated.",
         "Trusted: TLC, CommunityModules FoldLeft/Json/CSV, the byte<->limb decoding of the harness, the verif limb constructors. Exactness is relative to BitVec.tla, validated exhaustively at 6/8 bits only; 64-256-bit expectations use 8-bit limbs proven equal to BitVec at <= 16 bits. Division by zero, non-fitting narrowing casts and LeftShift64 with n > 64 are not asserted. One known finding (Uint128.Mul high x high, pinned test expects the wrapped value).",
         "DESIGN.md 5 C20"),
 "C09": ("Explicit TLA+ reference definitions of LCS score / shortest alignment length (declarative and fold DP, checked equal by TLC) and of the one-difference test, plus an implementation-shaped banded anti-diagonal model that TLC checks against the bound contract for every pair, bound and stale-buffer content of a bounded space; TLC exports the allowed answer sets, which the harness replays on the real kernels (3 buffer states, both argument orders); TLC re-evaluates the reference on recorded calls with up to 500-base IUPAC sequences",
         "Model checking (TLC) of the kernel contract on all ordered pairs over {a,c}<=6(8), {a,c,g,t}<=3(4), IUPAC<=1(2) x bounds -1..4(7), with every exported case replayed on the real code and 1.5k (10k) random calls validated by the trace specification.",
         "TLC decides every verdict; the Go side only decodes inputs and tests set membership. The equal-length end-gap-free orientation is set-valued, and the third return value of FastLCSEGFScore is not judged.",
         "DESIGN.md 5 C09"),
 "C07": ("TLC model checking of SeqLaws.tla (algebraic laws on all short sequences) and SeqHeap.tla (implementation-shaped heap with recycle pool against value semantics, all operation histories); every exported case and history is replayed on real obiseq.BioSequence objects with poisoned recycled slices, and SeqHeapTrace.tla validates random long histories run concurrently",
         "The laws (RC.RC = id, RC of a subsequence, circular windows) hold on the value functions for all sequences of length <= 4 (quick) or <= 5 (thorough) over a 6/8-symbol sub-alphabet including '-', '[' and ']'; all histories of 3-5 (quick) or 4-6 (thorough) operations (new, copy, sub, rc, set, mutate, recycle, join) over <= 3 objects are enumerated and executed on the real code with ALL live objects compared after every step and checked for shared memory; the three complement tables are compared with the derived Bio!Comp on every symbol.",
         "Trusted: TLC, the projection of a real object onto (String, Qualities, pairing_mismatches), hook H1 (poisoning of recycled slices). Bounded: lengths <= 5 exhaustively; <= 1200 symbols, 6 objects, 40 operations at random. Join only on receivers without qualities.",
         "DESIGN.md 5 C07"),
 "C02": ("TLC checks a scanner automaton (JsonHeader.tla) against the JSON string grammar on every bounded title line, and an abstract write/read/write state machine (RoundTrip.tla); every exported case is replayed on the real header parsers, chunk parsers and formatters; random records, title lines and `obiconvert | obiconvert` pipelines are recorded and judged event by event by a TLC trace specification",
         "model_checking: scanner = JSON grammar for all string contents over 6 character classes up to length 4 (quick) or 6-7 (thorough) x 5 object shapes x 5 tails (the as-written scanner is a required negative test: TLC must find the escaped-quote counter-example); round-trip laws (Read(Write(r)) = r, Write is a fixed point, clamp 93, shifts, folding) for 6-11 lengths x score patterns x {33,64}^2 x 11 annotation shapes; all cases replayed on the real code.",
         "Unicode, float and big-int value fidelity and the binaries are covered by TLC-validated traces (600-10 000 events plus 108-324 pipelines per run), not enumerated; object-first title lines only. A command failure that does not reproduce on an immediate re-run is noted in the evidence, not alarmed.",
         "DESIGN.md 5 C02"),
 "C10": ("TLC model checking of Apat.tla/ApatMC.tla (all small patterns x sequences x budgets x modes x windows; reference definitions vs scanning formulations, reverse-complement theorem, window lemmas as invariants), replay of every exported case on the cgo matcher with recycled sequence objects, and TLC validation (ApatTrace.tla) of recorded scenarios up to 64-symbol patterns and 10^4-symbol sequences, including the Go re-alignment",
         "Every (pattern, sequence, budget, mode, window) of four bounded families is enumerated by TLC, which checks the specification's own theorems and exports the hit sets. The real FindAllIndex / IsMatching / ReverseComplement must report exactly those. FilterBestMatch, AllMatches, BestMatch and LocatePattern answers, and large random scenarios, are accepted or rejected by TLC re-evaluating the specification on each logged event. Model checking fits because the failure modes are positional and enumerable.",
         "Trusted: TLC, the Go event encoder, SequencesExt!FoldLeft. Bounded: |P| <= 4, |S| <= 6 exhaustively; random patterns <= 64, sequences <= 10^4 (<= 12 000 DP cells in indel mode). Not asserted: '#' with indels, re-alignment of non-letter patterns or sequences with ambiguity codes, circular sequences.",
         "DESIGN.md 5 C10"),
 "C14": ("TLC model checking of TaxModel.tla (every labelled rooted tree up to 5/6 nodes x rank assignments x merged-id aliases: LCA algebra, path, clade, rank, alias and filter laws, walking definitions equal to reference definitions); every exported taxonomy is replayed through obitax (API and LoadNCBITaxDump) and, on a sample, the real obigrep/obiannotate; TLC validates query traces on random trees up to 5 000 nodes",
         "All taxonomies up to 6 nodes are enumerated by TLC, which checks on the model that LCA is the deepest common ancestor (commutative, associative, idempotent), that paths, clades, taxon-at-rank and alias resolution agree with the tree, and that the code-shaped walks equal the reference definitions. Every expected answer is replayed on the real obitax through both loaders and on the obigrep -t -r/-i/--require-rank and obiannotate --with-taxon-at-rank/--add-lca-in binaries. Random trees of thousands of nodes are judged event by event by a TLC trace specification.",
         "Trusted: TLC, the harness's encoding and decoding (NCBI dump layout, FASTA/JSON headers, -1/NA read as no taxon). Bounded: exhaustive up to 6 nodes, 3 node ranks + 1 absent, merged ids on one node parity; random up to 5 000 nodes; sequence LCA at zero tolerance only; a binary run is repeated up to twice on a non-reproducible crash.",
         "DESIGN.md 5 C14"),
 "C16": ("TLC enumerates command lines (each option, every pair, repeatable options with all occurrences, seeded larger subsets, x -v, x six paired modes) over a curated boundary data set, checks the laws of Grep/Annotate/Route.tla and exports the required content of every output file; each case is run on the real binaries under a (--max-cpu, --batch-size, format, --save-discarded) grid and at library level, one child process per command line; OptTrace.tla re-evaluates the specification on random command lines x random records from the library entry points and the binaries",
         "Bounded model checking of the option semantics (conjunction of criteria, -v as complement, six paired modes, kept/discarded partition, every occurrence of repeatable edits, frame condition, exactly one output file per record, mates at the same rank), with replay of every model case on the real binaries and library entry points, and TLC validation of random traces. Quick: 2.9 k command lines, 6.4 k implementation executions; thorough: 18 k command lines, 99 k executions.",
         "Regex and expression semantics are tabulated atoms. Taxonomy options (C14), approximate patterns, -l 1 and -c 1 (default values), and --cut negative-from arithmetic are outside the decided clauses. The discarded / unidentified side-file exit races are covered by repeated runs of a 2 %/run class. A crashed process is re-run and counted, not alarmed, when the crash does not repeat.",
         "DESIGN.md 5 C16"),
 "C01": ("TLC model checking of Chunker.tla (ReadSeqFileChunk and the three backward splitters, implementation-shaped) against the abstract contract of a chunk reader, for every buffer size >= 2, on files rendered from record descriptors by TextFasta/TextFastq/TextFlat; every generated file x every buffer size x 4 reader kinds is replayed on the real chunk reader, chunk parsers, readers and kseq; runs on files larger than the 1 MiB / 128 MiB production buffers, including the obiconvert binary (file, stdin, .gz; 1-8 workers), are validated by ChunkerTrace",
         "All files of <=2 (thorough <=3; simulated <=6) records over adversarial shapes x every buffer size 2..len+1 are model-checked (whole records, orders 0..k-1, concatenation equals the file, termination; the 1-byte-buffer livelock is shown by a negative run). The same files, plus 880 (thorough 2 068) generated ones, are replayed on the real code, with a verdict from the contract and record equality only. For production constants, files are built so the 2^20-th byte falls on every tag class (thorough: every byte) of a record, then read by the library and by obiconvert and accepted by TLC only if the records and order are exact.",
         "Trusted: TLC, the harness line decoder for obiconvert output, io.ReadFull semantics. Bounded: file shapes the generators express; flat-file 128 MiB constant in thorough only. Parser-worker races exercised, not gated. Order is decided on batch numbers (command output order is checked strictly).",
         "DESIGN.md 5 C01"),
 "C11": ("TLA+ reference definition of in-silico PCR (Pcr.tla on Apat.tla) model-checked by TLC on bounded template families with the relational clauses as invariants; every exported case replayed on PCRSim, PCRSlice batches and the obipcr binary; recorded long-template and --fragmented runs validated by a TLC trace specification",
         "All templates over {a,t} of length <= 10 and over {a,c,g,t} of length <= 7, planted-site templates <= 16, with 10 primer pairs x 18 option sets (subsampled in thorough): amplicon multiset exact, rc-flip and rotation invariance proven on the model and confirmed on the code (PCRSim alone, PCRSlice batches in several orders with the recycled C buffer, the binary); beyond that, seeded templates to 10^4 bases with planted products, incl. --fragmented.",
         "Circular templates shorter than a primer or flanks longer than one turn are not asserted; --fragmented is compared as sets and only without -D/-c. Primer sites hanging off a linear template are treated as no match.",
         "DESIGN.md 5 C11"),
 "C08": ("TLA+ reference definition of paired-end alignment (PEAlign.tla), checked by TLC on bounded models (dynamic program against exhaustive path enumeration, mirror and fast-mode lemmas); tiny cases are replayed on the real code, and TLC trace-validates seeded random read pairs using the implementation's own integer score tables (hook H2)",
         "model_checking. Every optimal answer is exported for reads of at most 3 (thorough 4) bases, and the 4-mer-vote lemma is checked for fragments of at most 7 (10) bases. Every recorded pair of up to 300 bases is judged by TLC on path (consumes both reads), score (= score along the path; = DP optimum in exact mode, recomputed up to la*lb <= 2500/6400), consensus, qualities and statistics, on fresh and reused arenas.",
         "Scores are a parameter and the log-odds tables are not verified. The mismatch-column quality is only range-checked. Reconstruction is demanded only when the optimum is unique or the vote has a strict maximiser. The obipairing binary is exercised by C05.",
         "DESIGN.md 5 C08"),
}

NOT_YET = "check not built yet in this round (planned, see DESIGN.md 10); not claimed"
NA = {}

def commits():
    try:
        out = subprocess.run(["git", "-C", "/repo", "log", "--format=%H %s"], capture_output=True, text=True).stdout
        return [l.split()[0] for l in out.splitlines() if " verif:" in l or " hook:" in l]
    except Exception:
        return []

checks = []
for p in props:
    i = p["id"]
    if i in CLAIMED:
        tech, text, note, ref = CLAIMED[i]
        checks.append({
            "property_id": i,
            "quick_cmd": "bin/check %s quick" % i,
            "thorough_cmd": "bin/check %s thorough" % i,
            "evidence_file": "evidence/%s.json" % i,
            "replay_cmd_template": "bin/check %s --replay {path}" % i,
            "engine": "tlc+obiverif",
            "level_claimed": {"category": "model_checking", "text": text, "design_ref": ref},
            "level_note": note,
            "technique": tech,
        })
m = {
 "version": 1,
 "setup_cmd": "bin/setup",
 "hooks": {"guard": "verif",
           "enable": "go build -tags verif (harness module /verif/harness with replace => /repo, and the command binaries of /repo)",
           "baseline_off_cmd": "cd /repo && go test -vet=off -count=1 -timeout 25m ./...",
           "source_commits": commits(),
           "add_only": True},
 "engines": [{"name": "tlc+obiverif", "path": "bin/check",
              "serves_properties": sorted(CLAIMED),
              "kind_free_text": "TLA+ specifications (spec/) model-checked by TLC; cases exported by TLC are replayed on the real code by the Go harness (harness/), traces recorded from the real code are validated by TLC trace specifications (spec/trace)"}],
 "checks": checks,
 "notes": "See DESIGN.md. known_findings.json lists genuine defects (fixed / known).",
 "not_applicable": [{"property_id": p["id"], "reason": NA.get(p["id"], NOT_YET)} for p in props if p["id"] not in CLAIMED],
}
json.dump(m, open(os.path.join(V, "MANIFEST.json"), "w"), indent=1)
print("claimed:", sorted(CLAIMED))

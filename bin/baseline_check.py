#!/usr/bin/env python3
"""Runs the repository's pinned test-suite (guard off) and checks that every test of BASELINE.json's
stable_pass list still passes.  usage: baseline_check.py [repo]"""
import json, subprocess, sys, os
repo = sys.argv[1] if len(sys.argv) > 1 else "/repo"
base = json.load(open("/root/.vp/BASELINE.json"))
want = set(base["stable_pass"])
env = dict(os.environ); env.pop("GOFLAGS", None); env["GOPROXY"] = "off"
p = subprocess.run(["go", "test", "-json", "-vet=off", "-count=1", "-timeout", "25m", "./..."], cwd=repo, env=env, capture_output=True, text=True)
passed = set()
for l in p.stdout.splitlines():
    try:
        e = json.loads(l)
    except Exception:
        continue
    if e.get("Action") == "pass" and e.get("Test"):
        passed.add("%s::%s" % (e["Package"], e["Test"]))
missing = sorted(want - passed)
# a few pinned tests are timing sensitive on a loaded machine: re-run the missing ones alone, up to 3 times
for attempt in range(3):
    if not missing:
        break
    for m in list(missing):
        pkg, test = m.split("::")
        top = test.split("/")[0]
        q = subprocess.run(["go", "test", "-json", "-vet=off", "-count=1", "-run", "^%s$" % top, pkg], cwd=repo, env=env, capture_output=True, text=True)
        for l in q.stdout.splitlines():
            try:
                e = json.loads(l)
            except Exception:
                continue
            if e.get("Action") == "pass" and e.get("Test"):
                passed.add("%s::%s" % (e["Package"], e["Test"]))
    missing = sorted(want - passed)
print("stable_pass: %d, passing now: %d of them, missing: %d" % (len(want), len(want & passed), len(missing)))
for m in missing:
    print("  MISSING", m)
sys.exit(1 if missing else 0)

#!/usr/bin/env python3
"""Shared machinery of the obitools4 model-based checks.

One check run = build the harness from the *current* /repo tree, run TLC on the
model (M), replay TLC-exported cases on the real code (R), record traces from
the real code and let TLC validate them (T), write evidence, exit 0/1/2.

Exit codes: 0 property held on everything explored; 1 + VIOLATION line(s);
2 inconclusive (build failure, TLC crash, timeout, driver did not reach its
scenario, broken specification).  Only real-code behaviour yields exit 1.
"""
import glob
import hashlib
import json
import os
import random
import re
import shutil
import subprocess
import sys
import tempfile
import time

VERIF = os.path.dirname(os.path.dirname(os.path.abspath(__file__)))
REPO = os.environ.get("VERIF_REPO", "/repo")
JAR = "/opt/veriftools/tla/tla2tools.jar:/opt/veriftools/tla/CommunityModules-deps.jar"
NCPU = os.cpu_count() or 4


MODULE_PATH = "git.metabarcoding.org/obitools/obitools4/obitools4"


class Inconclusive(Exception):
    pass


def log(*a):
    print("[check]", *a, file=sys.stderr, flush=True)


class TlcResult:
    def __init__(self, rc, out, wall):
        self.rc = rc
        self.out = out
        self.wall = wall
        self.generated = 0
        self.distinct = 0
        m = None
        for m in re.finditer(r"(\d+) states generated, (\d+) distinct states found", out):
            pass
        if m:
            self.generated = int(m.group(1))
            self.distinct = int(m.group(2))
        self.invariant_violated = re.findall(r"Invariant (\S+) is violated", out)
        self.property_violated = re.findall(r"(?:Temporal properties were violated|Action property (\S+) is violated)", out)
        self.deadlock = "Deadlock reached" in out
        self.error = ("Error:" in out) or rc not in (0,)
        self.finished = "Model checking completed" in out or "Finished in" in out

    @property
    def clean(self):
        return self.rc == 0 and not self.invariant_violated and not self.deadlock and "Error:" not in self.out

    def tail(self, n=40):
        lines = self.out.splitlines()
        for i, l in enumerate(lines):
            if l.startswith("Error:") or "is violated" in l or "Exception" in l:
                return "\n".join(lines[i:i + n])
        return "\n".join(lines[-n:])


class Ctx:
    def __init__(self, pid, tier, seed=None, replay=None):
        self.pid = pid
        self.tier = tier
        self.seed = int(os.environ.get("VERIF_SEED", "1") if seed is None else seed)
        self.replay = replay
        self.t0 = time.time()
        base = os.environ.get("VERIF_SCRATCH_BASE") or tempfile.gettempdir()
        self.scratch = tempfile.mkdtemp(prefix="obiverif-%s-" % pid, dir=base)
        # every child (TLC, Apalache's launcher, the drivers, the commands under test) puts its temporary files
        # in the scratch directory of the run, removed with it
        self.tmpdir = os.path.join(self.scratch, "tmp")
        os.makedirs(self.tmpdir)
        os.environ["TMPDIR"] = self.tmpdir
        self.rng = random.Random(self.seed)
        self.states = 0
        self.transitions = 0
        self.tlc_runs = []
        self.traces_validated = 0
        self.replayed = 0
        self.samples = []
        self.violations = []   # dicts: assert, cls, detail, case
        self.known_hits = []
        self.assumptions = []
        self.extra = {}
        self.checker_cmds = []
        self.classes = {}
        self._harness = None
        self._bins = {}
        self.findings = load_findings(pid)

    # ------------------------------------------------------------------ build
    def goenv(self, inside_repo=False):
        env = dict(os.environ)
        env["GOPROXY"] = "off"
        env["GOSUMDB"] = "off"
        env["GOTOOLCHAIN"] = "local"
        env.pop("GOWORK", None)
        if inside_repo:
            env.pop("GOFLAGS", None)
        else:
            env["GOFLAGS"] = "-mod=mod"
        return env

    def build_harness(self):
        if self._harness:
            return self._harness
        hdir = os.path.join(self.scratch, "harness")
        shutil.copytree(os.path.join(VERIF, "harness"), hdir,
                        ignore=shutil.ignore_patterns("*.test"))
        gomod = open(os.path.join(hdir, "go.mod")).read()
        gomod = re.sub(r"=> /repo\b", "=> " + REPO, gomod)
        open(os.path.join(hdir, "go.mod"), "w").write(gomod)
        shutil.copy(os.path.join(REPO, "go.sum"), os.path.join(hdir, "go.sum"))
        out = os.path.join(self.scratch, "obiverif")
        t = time.time()
        p = subprocess.run(["go", "build", "-tags", "verif", "-o", out, "./cmd/obiverif"],
                           cwd=hdir, env=self.goenv(), capture_output=True, text=True, timeout=1500)
        if p.returncode != 0:
            # the drivers of all the checks share one binary: a change of the repository's exported API may break the
            # driver of ANOTHER check.  Build again with this check's own driver files and the files they need only.
            p = self.build_own_drivers(hdir, out, p)
        if p.returncode != 0:
            errs = [l for l in p.stderr.splitlines() if re.search(r"\.go:\d+:\d+:", l) and "warning" not in l and "note:" not in l]
            raise Inconclusive("harness build failed:\n" + ("\n".join(errs[:40]) or p.stderr[-4000:]))
        log("harness built in %.1fs" % (time.time() - t))
        self._harness = out
        return out

    def build_own_drivers(self, hdir, out, first):
        d = os.path.join(hdir, "cmd", "obiverif")
        allf = sorted(f for f in os.listdir(d) if f.endswith(".go"))
        num = self.pid[1:].lower()
        own = [f for f in allf if re.match(r"p%s%s_" % ("x" if self.pid.startswith("X") else "", num), f)]
        keep = set(own) | {"main.go", "common.go"}
        if not own:
            return first
        side = os.path.join(hdir, "unused_drivers")
        os.makedirs(side, exist_ok=True)
        src = {f: open(os.path.join(d, f)).read() for f in allf}
        p = first
        for _ in range(12):
            for f in allf:
                a, b = os.path.join(d, f), os.path.join(side, f)
                if f in keep and not os.path.exists(a):
                    os.rename(b, a)
                elif f not in keep and os.path.exists(a):
                    os.rename(a, b)
            p = subprocess.run(["go", "build", "-tags", "verif", "-o", out, "./cmd/obiverif"],
                               cwd=hdir, env=self.goenv(), capture_output=True, text=True, timeout=1500)
            if p.returncode == 0:
                log("harness built from the driver files of %s only (%s): another driver no longer compiles against this tree"
                    % (self.pid, ", ".join(sorted(keep))))
                self.extra["harness_built_from"] = sorted(keep)
                return p
            missing = set(re.findall(r"undefined: (\w+)", p.stderr))
            add = set()
            for sym in missing:
                for f in allf:
                    if f not in keep and re.search(r"^(?:func|type|var|const) (?:\([^)]*\) )?%s\b|^\t%s\s.*=" % (sym, sym), src[f], re.M):
                        add.add(f)
            if not add:
                return p
            keep |= add
        return p

    def build_cmds(self, names, tags="verif"):
        """Build command binaries of /repo (working tree) into scratch/bin."""
        bindir = os.path.join(self.scratch, "bin")
        os.makedirs(bindir, exist_ok=True)
        todo = [n for n in names if n not in self._bins]
        if todo:
            t = time.time()
            args = ["go", "build"]
            if tags:
                args += ["-tags", tags]
            args += ["-o", bindir + "/"] + ["./cmd/obitools/" + n for n in todo]
            p = subprocess.run(args, cwd=REPO, env=self.goenv(inside_repo=True),
                               capture_output=True, text=True, timeout=1500)
            if p.returncode != 0:
                errs = [l for l in p.stderr.splitlines() if re.search(r"\.go:\d+:\d+:", l) and "warning" not in l and "note:" not in l]
                raise Inconclusive("command build failed:\n" + ("\n".join(errs[:40]) or p.stderr[-4000:]))
            for n in todo:
                self._bins[n] = os.path.join(bindir, n)
            log("built %s in %.1fs" % (",".join(todo), time.time() - t))
        return bindir

    # -------------------------------------------------------------------- TLC
    def specdir(self):
        d = os.path.join(self.scratch, "spec")
        if not os.path.isdir(d):
            os.makedirs(d)
            for f in glob.glob(os.path.join(VERIF, "spec", "*", "*.tla")) + \
                    glob.glob(os.path.join(VERIF, "spec", "*", "*.cfg")):
                shutil.copy(f, d)
        return d

    def tlc(self, module, cfg, env=None, workers=None, timeout=600, extra=(), simulate=None,
            heap=None, continue_=False, count=True, deadlock_check=False):
        """Run TLC on spec/<..>/module.tla with cfg (file name in spec/mc or spec/trace)."""
        d = self.specdir()
        run = "run%d" % (len(self.tlc_runs) + 1)
        meta = os.path.join(self.scratch, run + "-meta")
        tmp = os.path.join(self.scratch, run + "-tmp")
        os.makedirs(tmp, exist_ok=True)
        e = dict(os.environ)
        jopts = "-Xss512m -Djava.io.tmpdir=%s" % tmp
        e["JAVA_TOOL_OPTIONS"] = jopts
        if env:
            e.update({k: str(v) for k, v in env.items()})
        w = str(workers or NCPU)
        cmd = ["java", "-XX:+UseParallelGC"]
        if heap:
            cmd.append("-Xmx" + heap)
        cmd += ["-cp", JAR, "tlc2.TLC", "-workers", w, "-metadir", meta, "-config", cfg]
        if not deadlock_check:
            cmd.append("-deadlock")
        if continue_:
            cmd.append("-continue")
        if simulate:
            cmd += ["-simulate", simulate]
        cmd += list(extra) + [module]
        t = time.time()
        try:
            p = subprocess.run(["timeout", str(timeout)] + cmd, cwd=d, env=e,
                               capture_output=True, text=True)
        except Exception as ex:  # pragma: no cover
            raise Inconclusive("TLC could not be started: %s" % ex)
        wall = time.time() - t
        out = p.stdout + p.stderr
        res = TlcResult(p.returncode, out, wall)
        if p.returncode == 124:
            raise Inconclusive("TLC timeout (%ss) on %s/%s" % (timeout, module, cfg))
        if "StackOverflowError" in out or "OutOfMemoryError" in out:
            raise Inconclusive("TLC resource failure on %s/%s:\n%s" % (module, cfg, res.tail()))
        if count:
            self.states += res.distinct
            self.transitions += res.generated
        self.tlc_runs.append({"module": module, "cfg": cfg, "distinct": res.distinct,
                              "generated": res.generated, "wall_s": round(wall, 2), "rc": p.returncode})
        self.checker_cmds.append("tlc -workers %s -config %s %s" % (w, cfg, module))
        shutil.rmtree(meta, ignore_errors=True)
        log("TLC %s/%s: rc=%d distinct=%d generated=%d %.1fs" %
            (module, cfg, p.returncode, res.distinct, res.generated, wall))
        return res

    def apalache(self, tla_file, args, timeout=300):
        """Apalache run on spec/ind/<tla_file>; returns True iff 'The outcome is: NoError'."""
        d = os.path.join(self.scratch, "apa%d" % len(self.checker_cmds))
        os.makedirs(d, exist_ok=True)
        shutil.copy(os.path.join(VERIF, "spec", "ind", tla_file), d)
        e = dict(os.environ)
        e["JAVA_TOOL_OPTIONS"] = "-Djava.io.tmpdir=%s" % d
        t = time.time()
        p = subprocess.run(["timeout", str(timeout), "apalache-mc", "check"] + list(args) + [tla_file], cwd=d, env=e,
                           capture_output=True, text=True)
        out = p.stdout + p.stderr
        ok = "The outcome is: NoError" in out
        log("apalache %s %s: %s %.1fs" % (tla_file, " ".join(args), "NoError" if ok else "FAILED", time.time() - t))
        self.checker_cmds.append("apalache-mc check %s %s" % (" ".join(args), tla_file))
        if p.returncode == 124:
            raise Inconclusive("apalache timeout on %s" % tla_file)
        if not ok:
            raise Inconclusive("apalache did not prove %s %s:\n%s" % (tla_file, args, out[-1500:]))
        self.extra["apalache_obligations_discharged"] = self.extra.get("apalache_obligations_discharged", 0) + 1
        return ok

    def tlapm(self, tla_file, needs=(), timeout=300):
        """TLAPS run on spec/ind/<tla_file> (with the modules it extends): every obligation must be proved."""
        d = os.path.join(self.scratch, "tlapm%d" % len(self.checker_cmds))
        os.makedirs(d, exist_ok=True)
        for f in (tla_file,) + tuple(needs):
            shutil.copy(os.path.join(VERIF, "spec", "ind", f), d)
        e = dict(os.environ, TMPDIR=d)
        t = time.time()
        p = subprocess.run(["timeout", str(timeout), "tlapm", "--threads", str(min(NCPU, 8)), tla_file], cwd=d, env=e,
                           capture_output=True, text=True)
        out = p.stdout + p.stderr
        m = re.search(r"All (\d+) obligations? proved", out)
        log("tlapm %s: %s %.1fs" % (tla_file, m.group(0) if m else "NOT PROVED", time.time() - t))
        self.checker_cmds.append("tlapm %s" % tla_file)
        if p.returncode == 124:
            raise Inconclusive("tlapm timeout on %s" % tla_file)
        if not m or p.returncode != 0:
            raise Inconclusive("tlapm did not prove %s:\n%s" % (tla_file, out[-1500:]))
        self.extra["tlaps_obligations_proved"] = self.extra.get("tlaps_obligations_proved", 0) + int(m.group(1))
        return int(m.group(1))

    def tlc_model(self, module, cfg, **kw):
        """TLC run that must be clean: a failure is a broken *specification* -> exit 2."""
        res = self.tlc(module, cfg, **kw)
        if not res.clean:
            raise Inconclusive("specification %s/%s is not clean (spec bug, not a verdict):\n%s"
                               % (module, cfg, res.tail(60)))
        return res

    # ---------------------------------------------------------------- harness
    def harness(self, args, timeout=600, env=None, check=True):
        h = self.build_harness()
        e = dict(os.environ)
        e["VERIF_SEED"] = str(self.seed)
        e["VERIF_SCRATCH"] = self.scratch
        if env:
            e.update({k: str(v) for k, v in env.items()})
        t = time.time()
        p = subprocess.run(["timeout", str(timeout), h] + [str(a) for a in args], env=e,
                           capture_output=True, text=True)
        log("harness %s: rc=%d %.1fs" % (" ".join(str(a) for a in args[:3]), p.returncode, time.time() - t))
        if p.returncode == 124:
            raise Inconclusive("harness timeout: %s" % args)
        if check and p.returncode != 0:
            self.real_code_crash(p.stderr or "", args)
            raise Inconclusive("harness failed rc=%d: %s\n%s" % (p.returncode, args, (p.stderr or p.stdout)[-3000:]))
        return p

    def real_code_crash(self, stderr, args):
        """A Go run-time panic that kills the driver is a behaviour of the real code when the panicking frame
        is a function of the repository's packages (a goroutine started by the library cannot be guarded by the
        driver): it is reported as a violation (the run itself stays incomplete).  Any other death of the
        driver is inconclusive."""
        m = re.search(r"^(panic: .*|fatal error: .*|SIG[A-Z]+: .*)$", stderr, re.M)
        g = re.search(r"^goroutine \d+[^\n\[]*\[(?:running|syscall)[^\]\n]*\]:\n(?:panic\(.*\n\t.*\n|runtime\..*\n\t.*\n|github\.com/sirupsen/logrus\..*\n\t.*\n)*(\S+)\(", stderr, re.M)
        if not m or not g:
            return
        top = g.group(1)
        if not top.startswith(MODULE_PATH + "/pkg/"):
            return
        fn = top[len(MODULE_PATH) + 1:]
        self.violation(self.pid + ".crash", fn, "the real code crashed the driver: %s in %s" % (m.group(1), fn),
                       {"driver_args": [str(a) for a in args], "stderr_tail": stderr[-2500:]})

    def trace_validate(self, module, cfg, trace_path, timeout=600, workers=None, env=None, heap=None):
        """Stateless/stateful trace validation: TLC evaluates the trace spec on events recorded
        from the real code; rejected events are reported through VERIF_REJECTS (the TLC run itself
        must be clean, anything else is a broken trace spec -> exit 2)."""
        events = [json.loads(x) for x in open(trace_path) if x.strip()]
        if not events:
            raise Inconclusive("empty trace %s" % trace_path)
        rej = trace_path + ".rejects"
        if os.path.exists(rej):
            os.remove(rej)
        e = {"VERIF_TRACE": trace_path, "VERIF_REJECTS": rej}
        if env:
            e.update(env)
        res = self.tlc(module, cfg, env=e, timeout=timeout, workers=workers, heap=heap)
        if not res.clean:
            raise Inconclusive("trace specification %s did not run cleanly:\n%s" % (module, res.tail(60)))
        rejects = read_cases(rej)
        self.traces_validated += len(events)
        return events, rejects

    def run_many(self, jobs, timeout=120, workers=None):
        """Run many short subprocesses in parallel. job = dict(argv=[...], stdin=path|None, cwd=dir|None,
        env=dict|None).  Returns a list of dict(rc, out(bytes), err(str tail), timeout(bool)) in job order."""
        from concurrent.futures import ThreadPoolExecutor

        def one(j):
            e = dict(os.environ)
            e.update(j.get("env") or {})
            fin = open(j["stdin"], "rb") if j.get("stdin") else subprocess.DEVNULL
            try:
                p = subprocess.run(j["argv"], stdin=fin, cwd=j.get("cwd"), env=e, capture_output=True,
                                   timeout=j.get("timeout", timeout))
                return {"rc": p.returncode, "out": p.stdout, "err": p.stderr.decode("utf8", "replace")[-2000:], "timeout": False}
            except subprocess.TimeoutExpired as ex:
                return {"rc": -1, "out": ex.stdout or b"", "err": "timeout", "timeout": True}
            finally:
                if j.get("stdin"):
                    fin.close()
        with ThreadPoolExecutor(max_workers=workers or NCPU) as ex:
            return list(ex.map(one, jobs))

    def path(self, name):
        return os.path.join(self.scratch, name)

    # --------------------------------------------------------------- verdicts
    def add_results(self, path):
        """Read a harness result file: failure lines + one summary line."""
        summary = None
        for line in open(path):
            line = line.strip()
            if not line:
                continue
            r = json.loads(line)
            if r.get("summary"):
                summary = r
                continue
            if "note" in r:
                self.extra.setdefault("notes", []).append(str(r)[:300])
                continue
            if r.get("sample"):
                if len(self.samples) < 6:
                    self.samples.append(r["sample"])
                continue
            self.violation(r.get("assert", "?"), r.get("class", ""), r.get("detail", ""), r.get("case"))
        if summary is None:
            raise Inconclusive("harness result file %s has no summary line (driver died?)" % path)
        self.replayed += int(summary.get("checked", 0))
        for k, v in (summary.get("classes") or {}).items():
            self.classes[k] = self.classes.get(k, 0) + v
        return summary

    def violation(self, assert_id, cls, detail, case):
        v = {"assert": assert_id, "class": cls, "detail": detail, "case": case}
        k = self.findings.match(v)
        if k is not None:
            self.known_hits.append((k, v))
        else:
            self.violations.append(v)

    def expect_vacuity(self, name, n):
        if n <= 0:
            raise Inconclusive("vacuity guard: %s was never exercised" % name)

    # ----------------------------------------------------------------- finish
    def finish(self, level="model_checking", rule=None):
        wall = time.time() - self.t0
        os.makedirs(os.path.join(VERIF, "replays"), exist_ok=True)
        lines = []
        seen_known = {}
        for k, v in self.known_hits:
            seen_known.setdefault(k["id"], (k, 0, v))
            kk, n, vv = seen_known[k["id"]]
            seen_known[k["id"]] = (kk, n + 1, vv)
        for kid, (k, n, v) in sorted(seen_known.items()):
            lines.append("KNOWN-FINDING: property=%s %s [%s; %d occurrence(s) this run]" %
                         (self.pid, k.get("what", kid), kid, n))
        grouped = {}
        for v in self.violations:
            grouped.setdefault((v["assert"], v["class"]), []).append(v)
        for (a, c), vs in sorted(grouped.items()):
            v = vs[0]
            blob = json.dumps({"property": self.pid, "assert": a, "class": c, "detail": v["detail"],
                               "case": v["case"], "seed": self.seed, "tier": self.tier,
                               "occurrences": len(vs)}, indent=1, sort_keys=True)
            h = hashlib.sha1(blob.encode()).hexdigest()[:10]
            rp = os.path.join(VERIF, "replays", "%s-%s.json" % (self.pid, h))
            open(rp, "w").write(blob)
            lines.append("VIOLATION property=%s replay=%s assert=%s class=%s n=%d :: %s" %
                         (self.pid, rp, a, c, len(vs), str(v["detail"])[:300]))
        cov = {
            "states": self.states,
            "transitions": self.transitions,
            "traces_validated_against_impl": self.traces_validated + self.replayed,
            "replayed_model_cases": self.replayed,
            "validated_trace_events": self.traces_validated,
            "samples": self.samples[:6] or ["(no sample recorded)"],
            "checker_cmd": " ; ".join(self.checker_cmds[:8]),
            "tlc_runs": self.tlc_runs,
            "classes": self.classes,
            "exhaustive": False,
        }
        if rule:
            cov["rule"] = rule
        cov.update(self.extra)
        ev = {
            "property_id": self.pid,
            "tier": self.tier if self.tier in ("quick", "thorough") else "quick",
            "seed": self.seed,
            "level": level,
            "coverage": cov,
            "assumptions": self.assumptions,
            "wall_s": round(wall, 2),
            "violations": len(grouped),
            "known_findings_hit": sorted(seen_known.keys()),
        }
        if not self.replay:
            # extension checks (ids X..: behaviour beyond the listed properties) keep their evidence apart
            evdir = os.path.join(VERIF, "extra", "evidence") if self.pid.startswith("X") else os.path.join(VERIF, "evidence")
            os.makedirs(evdir, exist_ok=True)
            tmp = os.path.join(evdir, ".%s.json.tmp" % self.pid)
            open(tmp, "w").write(json.dumps(ev, indent=1))
            os.replace(tmp, os.path.join(evdir, "%s.json" % self.pid))
        for l in lines:
            print(l, flush=True)
        log("%s %s seed=%d: states=%d transitions=%d impl-validated=%d violations=%d known=%d wall=%.1fs" %
            (self.pid, self.tier, self.seed, self.states, self.transitions,
             self.traces_validated + self.replayed, len(grouped), len(seen_known), wall))
        self.cleanup()
        return 1 if grouped else 0

    def cleanup(self):
        if os.environ.get("VERIF_KEEP"):
            log("scratch kept: " + self.scratch)
            return
        shutil.rmtree(self.scratch, ignore_errors=True)


# --------------------------------------------------------------------- findings
class Findings:
    def __init__(self, entries):
        self.entries = entries

    def match(self, v):
        for k in self.entries:
            if k.get("kind") != "known":
                continue
            if "assert_re" in k:
                if not re.fullmatch(k["assert_re"], v["assert"] or ""):
                    continue
            elif k.get("assert") != v["assert"]:
                continue
            cre = k.get("class_re")
            if cre is not None and not re.fullmatch(cre, v.get("class") or ""):
                continue
            return k
        return None


def load_findings(pid):
    p = os.path.join(VERIF, "extra", "findings.json") if pid.startswith("X") else os.path.join(VERIF, "known_findings.json")
    if not os.path.exists(p):
        return Findings([])
    data = json.load(open(p))
    return Findings([e for e in data.get("findings", []) if e.get("property") == pid])


# ------------------------------------------------------------------------- I/O
def read_cases(path):
    """Cases exported by TLC with CSVWrite("%1$s", <<ToJson(x)>>, file)."""
    out = []
    if not os.path.exists(path):
        return out
    for line in open(path):
        line = line.strip()
        if not line:
            continue
        v = json.loads(line)
        if isinstance(v, str):
            v = json.loads(v)
        out.append(v)
    return out


def write_ndjson(path, items):
    with open(path, "w") as f:
        for it in items:
            f.write(json.dumps(it, separators=(",", ":")) + "\n")


def sample(rng, items, n):
    if len(items) <= n:
        return list(items)
    return rng.sample(items, n)


def run_check(pid, fn):
    """Entry: fn(ctx) does the work and returns ctx.finish(...) exit code."""
    args = sys.argv[1:]
    tier = "quick"
    replay = None
    if args and args[0] == "--replay":
        replay = args[1]
        tier = "replay"
    elif args:
        tier = args[0]
    tier = os.environ.get("VERIF_TIER", tier) if not replay else tier
    ctx = Ctx(pid, tier, replay=replay)
    try:
        rc = fn(ctx)
    except Inconclusive as ex:
        log("INCONCLUSIVE: %s" % ex)
        if ctx.violations:
            # real-code violations were already observed before the run became inconclusive: report them
            log("violations observed before that point are reported")
            ctx.extra["run_incomplete"] = str(ex)[:300]
            sys.exit(ctx.finish())
        ctx.cleanup()
        sys.exit(2)
    except subprocess.TimeoutExpired as ex:
        log("INCONCLUSIVE: timeout %s" % ex)
        ctx.cleanup()
        sys.exit(2)
    except Exception:
        # a defect of the check itself: never a verdict; the scratch directory is still removed
        import traceback
        log("INCONCLUSIVE: the check failed:\n" + traceback.format_exc())
        ctx.cleanup()
        sys.exit(2)
    sys.exit(rc)

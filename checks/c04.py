"""C04 - writers emit every batch once, in order, as well-formed FASTA/FASTQ/JSON/CSV.

M: TLC on spec/L2_io/Writer.tla (all arrival permutations x batch sizes x 4 formats), invariants +
   liveness; exports one case per terminal state.
R: every exported history is forced on the real writers (one formatting worker) and the tokenised
   bytes are compared with the model's output.
T: random larger streams with 2-4 racing formatting workers; WriterTrace.tla validates each run.
"""
import json
import vlib


def main(ctx):
    thorough = ctx.tier == "thorough"
    if ctx.replay:
        blob = json.load(open(ctx.replay))
        cases = ctx.path("cases.ndjson")
        vlib.write_ndjson(cases, [blob["case"]])
        res = ctx.path("res.ndjson")
        ctx.harness(["replay", "C04", "--cases", cases, "--out", res])
        ctx.add_results(res)
        return ctx.finish()

    # M ---------------------------------------------------------------------------------------
    cases = ctx.path("cases.ndjson")
    cfg = "Writer_thorough.cfg" if thorough else "Writer_quick.cfg"
    ctx.tlc_model("Writer", cfg, env={"VERIF_CASES": cases}, timeout=2400, heap="24g" if thorough else None)
    ctx.tlc_model("Writer", "Writer_live.cfg", timeout=600)
    # unbounded in the arrival history (n <= 16): inductive invariant of the re-sequencing buffer (Apalache)
    for a in (["--init=Init", "--inv=IndInv", "--length=0"], ["--init=IndInit", "--inv=IndInv", "--length=1"],
              ["--init=IndInit", "--inv=NothingLostAtEnd", "--length=0"]):
        ctx.apalache("ReseqInd.tla", a)
    ncases = sum(1 for _ in open(cases))          # up to 2.8 M lines in thorough: counted, not loaded
    ctx.expect_vacuity("exported writer histories", ncases)
    ctx.extra["exported_cases"] = ncases
    # R ---------------------------------------------------------------------------------------
    res = ctx.path("res.ndjson")
    ctx.harness(["replay", "C04", "--cases", cases, "--out", res], timeout=3000)
    summ = ctx.add_results(res)
    if summ["checked"] != ncases and not summ.get("aborted_after_failures"):
        raise vlib.Inconclusive("replayed %d of %d cases" % (summ["checked"], ncases))
    for need in ("json/reordered/empties", "csv/reordered/empties", "fasta/reordered/noempty", "fastq/inorder/noempty"):
        ctx.expect_vacuity("class " + need, ctx.classes.get(need, 0))
    # T ---------------------------------------------------------------------------------------
    trace = ctx.path("trace.ndjson")
    ctx.harness(["record", "C04", "--out", trace, "--n", 2000 if thorough else 400], timeout=900)
    events, rejects = ctx.trace_validate("WriterTrace", "WriterTrace.cfg", trace)
    for r in rejects:
        ev = events[r["l"] - 1]
        ctx.violation("C04.%s.trace_%s" % (ev["fmt"], r["why"]), "workers=%d" % ev["workers"],
                      "run with %d formatting workers rejected by WriterTrace (%s): tokens=%s" %
                      (ev["workers"], r["why"], ev["tokens"]), ev)
    ctx.samples.append({"trace_event": events[0]})
    ctx.assumptions += [
        "with one formatting worker the arrival order at the writer goroutine equals the push order (unbuffered channels)",
        "batch = (number, record count); record payloads are fixed functions of (batch, rank)",
    ]
    ctx.extra["exhaustive"] = True
    return ctx.finish(rule="one case per (format, batch sizes, arrival permutation); trace events are whole writer runs")

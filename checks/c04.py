"""C04 - writers emit every batch once, in order, as well-formed FASTA/FASTQ/JSON/CSV.

M: TLC on spec/L2_io/Writer.tla (all arrival permutations x batch sizes x 4 formats), invariants +
   liveness; exports one case per terminal state.
R: every exported history is forced on the real writers (one formatting worker) and the tokenised
   bytes are compared with the model's output.
T: random larger streams with 2-4 racing formatting workers; WriterTrace.tla validates each run.
"""
import json
import vlib


def command_events(ctx):
    import csv, gzip, io, os
    bindir = ctx.build_cmds(["obiconvert", "obicsv"])
    d = ctx.path("c04files")
    os.makedirs(d, exist_ok=True)

    def mk(name, n, qual):
        with open(os.path.join(d, name), "w") as f:
            for k in range(1, n + 1):
                ln = {4: 60, 8: 120}.get(k % 9, 5 + k % 70)      # full 60-column lines among the others
                seq = "".join("acgt"[(k + i) % 4] for i in range(ln))
                if qual:
                    q = "I" * len(seq)
                    if k % 5 == 3:          # old Illumina scores (offset 64): any printable character, backslash included
                        q = ("`b\\u{{z" * len(seq))[:len(seq)]
                    f.write("@r0_%d\n%s\n+\n%s\n" % (k, seq, q))
                else:
                    # some records carry a taxid, with or without the name of the taxon (obicsv --taxon)
                    ann = {0: "", 1: ' {"taxid":7742}', 2: ' {"taxid":9606,"scientific_name":"Homo sapiens"}', 3: ' {"taxid":1}'}[k % 4]
                    f.write(">r0_%d%s\n%s\n" % (k, ann, seq))
        return name
    conv, ocsv = os.path.join(bindir, "obiconvert"), os.path.join(bindir, "obicsv")
    jobs, evs = [], []
    for n in (0, 1, 2, 9, 40):
        fa, fq = mk("n%d.fa" % n, n, False), mk("n%d.fq" % n, n, True)
        for z in (0, 1):
            zopt = ["-Z"] if z else []
            for cpu, bs in ((1, 1000), (3, 2), (8, 1)):
                base = ["--max-cpu", str(cpu), "--batch-size", str(bs)] + zopt
                for fmt, cmd, opts, inp in (("fasta", conv, ["--fasta-output"], fa), ("fastq", conv, ["--fastq-output"], fq),
                                            ("json", conv, ["--json-output"], fa), ("json", conv, ["--json-output"], fq),
                                            ("csv", ocsv, ["--ids", "--count", "--sequence"], fa),
                                            ("csv", ocsv, ["--ids", "--count", "--taxon", "--sequence"], fa)):
                    for how in ("stdout", "file"):
                        if how == "file" and fmt == "csv":
                            continue                      # obicsv ignores -o (outside C04)
                        out = os.path.join(d, "out_%d" % len(jobs))
                        argv = [cmd] + base + opts + (["-o", out] if how == "file" else []) + [inp]
                        jobs.append({"argv": argv, "cwd": d})
                        evs.append({"fmt": fmt, "sizes": [n] if n else [], "workers": cpu, "how": "%s/z%d" % (how, z), "z": z, "outfile": out if how == "file" else "",
                                    "argv": " ".join(os.path.basename(a) for a in argv), "push": [0] if n else [], "closes": 1, "writeafterclose": 0, "hung": 0})
    res = ctx.run_many(jobs, timeout=120)
    # overwrite scenario: a long result, then a shorter one, written to the same path
    for fmt, opts, big, small, n in (("fasta", ["--fasta-output"], "n40.fa", "n2.fa", 2), ("fastq", ["--fastq-output"], "n40.fq", "n2.fq", 2),
                                     ("json", ["--json-output"], "n40.fa", "n1.fa", 1),
                                     # no format option: the writer that guesses the format from the data
                                     ("fasta", [], "n40.fa", "n2.fa", 2), ("fastq", [], "n40.fq", "n2.fq", 2)):
        out = os.path.join(d, "over_" + fmt + ("" if opts else "_guess"))
        r1 = ctx.run_many([{"argv": [conv] + opts + ["-o", out, big], "cwd": d}], timeout=120)[0]
        r2 = ctx.run_many([{"argv": [conv] + opts + ["-o", out, small], "cwd": d}], timeout=120)[0]
        res.append(r2)
        evs.append({"fmt": fmt, "sizes": [n], "workers": 0, "how": "file-overwrite/z0", "z": 0, "outfile": out,
                    "argv": "obiconvert %s -o F %s ; obiconvert %s -o F %s" % (" ".join(opts), big, " ".join(opts), small), "push": [0],
                    "closes": 1, "writeafterclose": 0, "hung": 0})
    for e, r in zip(evs, res):
        data = r["out"]
        if e["outfile"]:
            data = open(e["outfile"], "rb").read() if os.path.exists(e["outfile"]) else b""
        toks = []
        if r["timeout"]:
            e["hung"] = 1
        elif r["rc"] != 0:
            toks = ["junk:exit-status-%d" % r["rc"]]
        else:
            try:
                if e["z"]:
                    data = gzip.decompress(data) if data else b""
                text = data.decode("utf8")
                if e["fmt"] == "json":
                    arr = json.loads(text)
                    ids = [str(x["id"]) for x in arr]
                    toks = ["open"] + [t for i, x in enumerate(ids) for t in ((["sep"] if i else []) + [x])] + ["close"]
                elif e["fmt"] == "csv":
                    rows = list(csv.reader(io.StringIO(text)))
                    toks = (["header"] if rows and rows[0][:1] == ["id"] else []) + [r_[0] for r_ in rows[1:]]
                    # one well-formed row per record: as many fields as the header announces, the sequence in its column
                    for r_ in rows[1:]:
                        if len(r_) != len(rows[0]) or ("sequence" in rows[0] and r_[rows[0].index("sequence")].strip("acgtn") != ""):
                            toks.append("junk:row-of-%s-%d-fields-for-%d-columns" % (r_[0], len(r_), len(rows[0])))
                    if e["sizes"] == [0] and toks == ["header"]:
                        pass
                elif e["fmt"] == "fasta":
                    # strict: title lines and non-empty nucleotide lines only, the text ends with a new line
                    toks = []
                    lines = text.split("\n")
                    if text and lines[-1] != "":
                        toks.append("junk:no-final-newline")
                    for l in lines[:-1] if lines and lines[-1] == "" else lines:
                        if l.startswith(">"):
                            toks.append(l[1:].split()[0])
                        elif l == "":
                            toks.append("junk:blank-line")
                        elif l.strip("acgtn") != "" or not toks:
                            toks.append("junk:not-a-sequence-line")
                else:
                    lines = text.splitlines()
                    toks = [lines[i][1:].split()[0] for i in range(0, len(lines), 4)] if len(lines) % 4 == 0 else ["junk:fastq-structure"]
            except Exception as ex:
                toks = ["junk:%s" % str(ex)[:80]]
        e["tokens"] = toks
        del e["outfile"]
    return evs


def main(ctx):
    thorough = ctx.tier == "thorough"
    if ctx.replay:
        blob = json.load(open(ctx.replay))
        cases = ctx.path("cases.ndjson")
        vlib.write_ndjson(cases, [blob["case"]])
        res = ctx.path("res.ndjson")
        ctx.harness(["replay", "C04", "--cases", cases, "--out", res])
        ctx.add_results(res)
        return ctx.finish()

    # M ---------------------------------------------------------------------------------------
    cases = ctx.path("cases.ndjson")
    cfg = "Writer_thorough.cfg" if thorough else "Writer_quick.cfg"
    ctx.tlc_model("Writer", cfg, env={"VERIF_CASES": cases}, timeout=2400, heap="24g" if thorough else None)
    ctx.tlc_model("Writer", "Writer_live.cfg", timeout=600)
    # unbounded in the arrival history (n <= 16): inductive invariant of the re-sequencing buffer (Apalache)
    for a in (["--init=Init", "--inv=IndInv", "--length=0"], ["--init=IndInit", "--inv=IndInv", "--length=1"],
              ["--init=IndInit", "--inv=NothingLostAtEnd", "--length=0"]):
        ctx.apalache("ReseqInd.tla", a)
    # unbounded in the number of batches as well: TLAPS proof of the same invariant for every natural n, bound to
    # Writer.tla by a refinement checked by TLC (WriterReseq)
    ctx.tlapm("ReseqProofs.tla", needs=("ReseqProof.tla",))
    ctx.tlc_model("WriterReseq", "WriterReseq_thorough.cfg" if thorough else "WriterReseq_quick.cfg", timeout=900)
    ncases = sum(1 for _ in open(cases))          # up to 2.8 M lines in thorough: counted, not loaded
    ctx.expect_vacuity("exported writer histories", ncases)
    ctx.extra["exported_cases"] = ncases
    # R ---------------------------------------------------------------------------------------
    res = ctx.path("res.ndjson")
    ctx.harness(["replay", "C04", "--cases", cases, "--out", res], timeout=3000)
    summ = ctx.add_results(res)
    if summ["checked"] != ncases and not summ.get("aborted_after_failures"):
        raise vlib.Inconclusive("replayed %d of %d cases" % (summ["checked"], ncases))
    for need in ("json/reordered/empties", "csv/reordered/empties", "fasta/reordered/noempty", "fastq/inorder/noempty"):
        ctx.expect_vacuity("class " + need, ctx.classes.get(need, 0))
    # T ---------------------------------------------------------------------------------------
    trace = ctx.path("trace.ndjson")
    ctx.harness(["record", "C04", "--out", trace, "--n", 2000 if thorough else 400,
                 "--opt", "pushback=%d" % (900000 if thorough else 150000)], timeout=900)
    events, rejects = ctx.trace_validate("WriterTrace", "WriterTrace.cfg", trace)
    for r in rejects:
        ev = events[r["l"] - 1]
        ctx.violation("C04.%s.trace_%s" % (ev["fmt"], r["why"]), "workers=%d" % ev["workers"],
                      "run with %d formatting workers rejected by WriterTrace (%s): tokens=%s" %
                      (ev["workers"], r["why"], ev["tokens"]), ev)
    ctx.samples.append({"trace_event": events[0]})

    # the real commands: stdout (the writer does not own the stream) and -o FILE, plain and gzip-compressed (-Z),
    # and a second run writing a SHORTER result over an existing file; decoded outputs go through the same trace spec
    cmd_events = command_events(ctx)
    tr2 = ctx.path("trace_cmd.ndjson")
    vlib.write_ndjson(tr2, cmd_events)
    events2, rejects2 = ctx.trace_validate("WriterTrace", "WriterTrace.cfg", tr2)
    for r in rejects2:
        ev = events2[r["l"] - 1]
        ctx.violation("C04.cmd.%s.%s" % (ev["fmt"], r["why"]), ev["how"],
                      "%s: decoded output rejected by WriterTrace (%s): tokens=%s" % (ev["argv"], r["why"], ev["tokens"][:12]), ev)
    ctx.samples.append({"command_event": {k: cmd_events[0][k] for k in ("argv", "how", "tokens")}})
    ctx.assumptions += [
        "with one formatting worker the arrival order at the writer goroutine equals the push order (unbuffered channels)",
        "batch = (number, record count); record payloads are fixed functions of (batch, rank)",
    ]
    ctx.extra["exhaustive"] = True
    return ctx.finish(rule="one case per (format, batch sizes, arrival permutation); trace events are whole writer runs")

"""C10 - primer pattern matching reports exactly the matching positions and error counts.

M: TLC on spec/L0_kernel/ApatMC.tla (operators of Apat.tla): every (pattern, sequence, budget, mode)
   of several bounded families; the specification's own theorems (cut-off scan = definition, Sellers
   scan = minimum over substrings = textbook edit distance, reverse-complement theorem, window
   lemmas, acceptance predicates accept the specification's answers) are invariants; one case per
   state is exported with, per search window, the hits allowed / required for the pattern and for
   its reverse complement.
R: every exported case goes through MakeApatPattern / ReverseComplement / FindAllIndex / IsMatching
   on recycled ApatSequence objects and is compared with the exported sets; a sample of the cases
   is logged with the answers of FilterBestMatch / AllMatches / BestMatch for TLC.
T: seeded random scenarios beyond the model (patterns of 1..64 symbols, budgets 0..4, sequences to
   10^4, planted matches at both ends, effective windows, direct LocatePattern calls); ApatTrace.tla
   re-evaluates the specification on each logged event.
"""
import json
import os
import vlib

FAMILIES = {
    "quick": ["ApatMC_pos_quick.cfg", "ApatMC_mod_quick.cfg", "ApatMC_iupac_quick.cfg"],
    "thorough": ["ApatMC_pos_thorough.cfg", "ApatMC_mod_thorough.cfg", "ApatMC_iupac_thorough.cfg",
                 "ApatMC_acgt_thorough.cfg"],
}


def load_own_findings(ctx):
    """findings_C10.json is this check's own list; its 'known' entries suppress like known_findings.json."""
    p = os.path.join(vlib.VERIF, "findings_C10.json")
    if os.path.exists(p):
        have = {k.get("id") for k in ctx.findings.entries}
        for k in json.load(open(p)):
            if k.get("property") == "C10" and k.get("id") not in have:
                ctx.findings.entries.append(k)


def count_lines(path):
    n = 0
    with open(path, "rb") as f:
        for _ in f:
            n += 1
    return n


def vclass(ev):
    """Scenario class of a violation: coarse (mode, pattern length class), the fine class stays in the case."""
    if ev["k"] == "loc":
        return "loc/plen%d" % min(len(ev["pt"]), 2)
    n = ev["plen"]
    pl = "plen1" if n <= 1 else "plen2-62" if n <= 62 else "plen63" if n == 63 else "plen64"
    return "%s/%s" % ("indel" if ev["indel"] == 1 else "sub", pl)


def validate_events(ctx, path, timeout):
    """TLC re-evaluates the specification on every logged event; rejected events become violations."""
    events, rejects = ctx.trace_validate("ApatTrace", "ApatTrace.cfg", path, timeout=timeout)
    for r in rejects:
        ev = events[r["l"] - 1]
        ins = {k: ev[k] for k in ev if k not in ("src",)}
        if ev["k"] == "loc":
            what = "LocatePattern(%s, seq of %d) = %s panic=%d" % ("".join(ev["pt"]), len(ev["s"]), ev["out"], ev["panic"])
        else:
            what = ("pattern %s e=%d indel=%d window=(%d,%d) seq of %d: find=%s filt=%s all=%s best=%s panics=%s %s" %
                    ("".join(ev["pt"]), ev["e"], ev["indel"], ev["b"], ev["l"], len(ev["s"]),
                     ev["find"][:6], ev["filt"][:6], ev["all"][:6], ev["best"],
                     [ev[k] for k in ("pfind", "pism", "prc", "pfilt", "pall", "pbest")], ev.get("msg", "")))
        ctx.violation("C10." + r["why"], vclass(ev), "rejected by ApatTrace (%s): %s" % (r["why"], what[:600]), ins)
    return events, rejects


def main(ctx):
    thorough = ctx.tier == "thorough"
    load_own_findings(ctx)
    if ctx.replay:
        blob = json.load(open(ctx.replay))
        case = blob["case"]
        cases = ctx.path("cases.ndjson")
        vlib.write_ndjson(cases, [case])
        res = ctx.path("res.ndjson")
        if "k" in case:     # an event rejected by the trace specification: run it again, validate again
            evs = ctx.path("events.ndjson")
            ctx.harness(["replay", "C10", "--cases", cases, "--out", res, "--opt", "mode=event", "--opt", "events=" + evs])
            ctx.add_results(res)
            validate_events(ctx, evs, 300)
        else:
            ctx.harness(["replay", "C10", "--cases", cases, "--out", res])
            ctx.add_results(res)
        return ctx.finish()

    # M ---------------------------------------------------------------------------------------
    cases = ctx.path("cases.ndjson")
    total = 0
    with open(cases, "wb") as allf:
        for cfg in FAMILIES["thorough" if thorough else "quick"]:
            part = ctx.path("cases-" + cfg + ".ndjson")
            r = ctx.tlc_model("ApatMC", cfg, env={"VERIF_CASES": part}, timeout=3000 if thorough else 300)
            n = count_lines(part) if os.path.exists(part) else 0
            if n == 0 or 2 * n != r.distinct:
                raise vlib.Inconclusive("%s: %d exported lines for %d states (torn or missing export)" % (cfg, n, r.distinct))
            ctx.extra.setdefault("exported_cases", {})[cfg] = n
            total += n
            with open(part, "rb") as f:
                for line in f:
                    allf.write(line)
    ctx.expect_vacuity("exported cases", total)
    # R ---------------------------------------------------------------------------------------
    res = ctx.path("res.ndjson")
    rev = ctx.path("revents.ndjson")
    evrate = 20 if thorough else 6
    ctx.harness(["replay", "C10", "--cases", cases, "--out", res, "--opt", "events=" + rev, "--opt", "evrate=%d" % evrate],
                timeout=3000)
    summ = ctx.add_results(res)
    if summ["checked"] + summ["failed"] < total:
        raise vlib.Inconclusive("replayed %d scenarios for %d cases" % (summ["checked"], total))
    # scenario classes that must have been exercised; judged at the end, and only when the run found no
    # violation (a defect can empty a class that is counted on the real code's answers)
    vac = []
    for need in ("hits/sub", "hits/indel", "nohit/sub", "nohit/indel", "hit-at-start/sub", "hit-at-end/sub",
                 "hit-at-start/indel", "hit-at-end/indel", "rc-hits/sub", "rc-hits/indel", "seq-recycled", "seq-fresh"):
        vac.append(("replay class " + need, ctx.classes.get(need, 0)))
    vac.append(("replay class */window", sum(v for k, v in ctx.classes.items() if k.endswith("/window"))))
    # T ---------------------------------------------------------------------------------------
    trace = ctx.path("trace.ndjson")
    ctx.harness(["record", "C10", "--out", trace, "--n", 6000 if thorough else 700,
                 "--opt", "big=%d" % (40 if thorough else 6)], timeout=900)
    allev = ctx.path("events.ndjson")
    with open(allev, "wb") as out:
        for p in (rev, trace):
            with open(p, "rb") as f:
                for line in f:
                    out.write(line)
    events, rejects = validate_events(ctx, allev, 3000 if thorough else 400)
    tcls = {}
    for ev in events:
        if ev["src"] != "T":
            tcls["R-events"] = tcls.get("R-events", 0) + 1
            continue
        for part in ev["cls"].split("/"):
            tcls["T:" + part] = tcls.get("T:" + part, 0) + 1
        if ev["k"] == "apat":
            n = len(ev["s"])
            tcls["T:seq>=5000"] = tcls.get("T:seq>=5000", 0) + (1 if n >= 5000 else 0)
            tcls["T:seq<=plen"] = tcls.get("T:seq<=plen", 0) + (1 if n <= ev["plen"] else 0)
            tcls["T:realigned"] = tcls.get("T:realigned", 0) + (1 if ev["indel"] == 1 and any(x[2] > 0 for x in ev["all"]) else 0)
            tcls["T:hits"] = tcls.get("T:hits", 0) + (1 if ev["find"] else 0)
    for need in ("R-events", "T:loc", "T:sub", "T:indel", "T:plen63", "T:plen64", "T:plen33-62", "T:plant0", "T:plant1",
                 "T:window-end-effective", "T:seq>=5000", "T:dense", "T:late", "T:seq<=plen", "T:realigned", "T:hits", "T:e4", "T:e0"):
        vac.append(("trace class " + need, tcls.get(need, 0)))
    ctx.classes.update(tcls)
    if not ctx.violations:
        for name, n in vac:
            ctx.expect_vacuity(name, n)
    for ev in events:
        if ev["src"] == "T" and ev["k"] == "apat" and ev["find"] and len(ctx.samples) < 6:
            ctx.samples.append({"trace_event": {k: (ev[k] if k != "s" else "(%d symbols)" % len(ev["s"])) for k in ev}})
            break
    ctx.assumptions += [
        "search window (begin,length): matches starting in [begin,begin+length) inside the sequence must be reported, anything found before begin+length+MAX_PAT_LEN may be",
        "sequence alphabet a,c,g,t; any other sequence letter matches no plain pattern symbol (apat_parse.c sDnaCode)",
        "'#' combined with indels, and AllMatches/BestMatch re-alignment of patterns with brackets/'!'/'#' or of sequences with ambiguity codes: not asserted",
        "indel hits whose nominal window starts before the sequence: BestMatch unmatched accepted",
        "linear sequences only (circular matching belongs to C11)",
    ]
    ctx.extra["exhaustive"] = True
    return ctx.finish(rule="R: one comparison per (exported case, search window); T: one TLC verdict per logged scenario / LocatePattern call")

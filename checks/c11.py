"""C11 - in-silico PCR returns exactly the amplicons the primers define, on either strand.

M: TLC on spec/L0_kernel/PcrMC.tla (operators of Pcr.tla on top of Apat.tla): every (template, primer
   pair, option set) of several bounded families - all templates over a two-letter alphabet (every
   layout of overlapping / touching / nested sites and sites at the ends occurs), all short templates
   over {a,c,g,t}, templates built around 0..3 planted priming sites with 0..2 mismatches.  The
   specification's theorems are invariants: both orientations read on the template = the definition
   through the reverse-complemented template, Amplicons(rc(T)) = flip(Amplicons(T)), rotation
   invariance on circular templates, soundness of every record (the primers match the reported match
   strings with the reported error counts), bounds and budgets only select, flanks only add bases,
   linear amplicons are circular amplicons, the acceptance predicate rejects a lost / invented /
   mis-annotated / duplicated amplicon.  One case per state is exported with its multiset of amplicons.
R: every exported case goes through obiapat.PCRSim alone, through PCRSlice / PCRSliceWorker as part of
   batches in three orders with random batch sizes (recycled C buffer), and through the obipcr binary;
   the reported multisets are compared with the exported ones.
T: seeded random scenarios beyond the model (templates 10^2..10^4, primers 18..25 with IUPAC codes,
   planted products with 0..e+1 mismatches in both orientations, at the very ends, touching, nested,
   reverse-complemented and rotated copies, batches, the binary with and without --fragmented on
   templates beyond the fragmentation threshold with products planted across fragment junctions);
   PcrTrace.tla re-evaluates the specification on each logged event.
"""
import json
import os
import vlib

FAMILIES = {
    "quick": ["PcrMC_bin_quick.cfg", "PcrMC_acgt_quick.cfg", "PcrMC_planted_quick.cfg"],
    "thorough": ["PcrMC_bin_thorough.cfg", "PcrMC_acgt_thorough.cfg", "PcrMC_planted_thorough.cfg",
                 "PcrMC_planted3_thorough.cfg"],
}


def load_own_findings(ctx):
    """findings_C11.json is this check's own list; its 'known' entries suppress like known_findings.json."""
    p = os.path.join(vlib.VERIF, "findings_C11.json")
    if os.path.exists(p):
        have = {k.get("id") for k in ctx.findings.entries}
        for k in json.load(open(p)):
            if k.get("property") == "C11" and k.get("id") not in have:
                ctx.findings.entries.append(k)


def count_lines(path):
    n = 0
    with open(path, "rb") as f:
        for _ in f:
            n += 1
    return n


LET = "acgtn"


def s(codes):
    return "".join(LET[c] for c in codes)


def show(amps):
    out = sorted("%s:%s(f=%s/%d r=%s/%d)" % (a["dir"][:1], s(a["seq"]) if len(a["seq"]) <= 60 else "%d bases" % len(a["seq"]),
                                            s(a["fm"]), a["fe"], s(a["rm"]), a["re"]) for a in amps)
    return "[" + " ".join(out[:6]) + (" ... %d in all" % len(out) if len(out) > 6 else "") + "]"


def vclass(ev):
    c = ("circ" if ev["circ"] == 1 else "lin") + ("/flank" if ev["ext"] >= 0 else "/bare")
    return ev["src"] + "/" + c


def validate_events(ctx, path, timeout):
    """TLC re-evaluates the specification on every logged event; rejected events become violations."""
    events, rejects = ctx.trace_validate("PcrTrace", "PcrTrace.cfg", path, timeout=timeout, heap="6g")
    for r in rejects:
        ev = events[r["l"] - 1]
        what = ("%s: template of %d bases%s, --forward %s --reverse %s ef=%d er=%d min=%d max=%d flank=%d full=%d circular=%d "
                "fragmented=%d: reported %s fatal=%d %s" %
                (ev["src"], len(ev["t"]), " (" + s(ev["t"]) + ")" if len(ev["t"]) <= 80 else "", "".join(ev["f"]), "".join(ev["r"]),
                 ev["ef"], ev["er"], ev["mn"], ev["mx"], ev["ext"], ev["full"], ev["circ"], ev["frag"], show(ev["out"]),
                 ev["fatal"], ev["msg"][:200]))
        ctx.violation("C11.trace." + r["why"], vclass(ev), "rejected by PcrTrace (%s): %s" % (r["why"], what[:900]), ev)
    return events, rejects


def main(ctx):
    thorough = ctx.tier == "thorough"
    load_own_findings(ctx)
    bindir = ctx.build_cmds(["obipcr"])
    obipcr = os.path.join(bindir, "obipcr")
    if ctx.replay:
        blob = json.load(open(ctx.replay))
        case = blob["case"]
        cases = ctx.path("cases.ndjson")
        vlib.write_ndjson(cases, [case])
        res = ctx.path("res.ndjson")
        if "k" in case:     # an event rejected by the trace specification: run it again, validate again
            evs = ctx.path("events.ndjson")
            ctx.harness(["replay", "C11", "--cases", cases, "--out", res, "--opt", "mode=event", "--opt", "events=" + evs,
                         "--opt", "obipcr=" + obipcr])
            ctx.add_results(res)
            validate_events(ctx, evs, 600)
        else:
            ctx.harness(["replay", "C11", "--cases", cases, "--out", res, "--opt", "obipcr=" + obipcr])
            ctx.add_results(res)
        return ctx.finish()

    # M ---------------------------------------------------------------------------------------
    cases = ctx.path("cases.ndjson")
    total = 0
    with open(cases, "wb") as allf:
        for cfg in FAMILIES["thorough" if thorough else "quick"]:
            part = ctx.path("cases-" + cfg + ".ndjson")
            r = ctx.tlc_model("PcrMC", cfg, env={"VERIF_CASES": part}, timeout=3000 if thorough else 400, heap="6g")
            n = count_lines(part) if os.path.exists(part) else 0
            if n == 0 or 2 * n != r.distinct:
                raise vlib.Inconclusive("%s: %d exported lines for %d states (torn or missing export)" % (cfg, n, r.distinct))
            ctx.extra.setdefault("exported_cases", {})[cfg] = n
            total += n
            with open(part, "rb") as f:
                for line in f:
                    allf.write(line)
    ctx.expect_vacuity("exported cases", total)
    # what the model exported (scenario classes decided by the specification's own answers)
    mcls = {}
    for line in open(cases):
        c = json.loads(json.loads(line))
        def add(k):
            mcls[k] = mcls.get(k, 0) + 1
        if c["asserted"] == 0:
            add("M:not-asserted")
            continue
        add("M:asserted")
        if c["amp"]:
            add("M:amplicons")
            add("M:amplicons/" + ("circ" if c["circ"] else "lin") + ("/flank" if c["ext"] >= 0 else "/bare"))
        if len(c["amp"]) >= 2:
            add("M:several-amplicons")
        if any(a["dir"] == "reverse" for a in c["amp"]):
            add("M:reverse-direction")
        if any(a["fe"] > 0 or a["re"] > 0 for a in c["amp"]):
            add("M:amplicon-with-mismatches")
        if len({json.dumps(a, sort_keys=True) for a in c["amp"]}) < len(c["amp"]):
            add("M:identical-amplicons-from-different-sites")
        if len(c["f"]) != len(c["r"]) and c["circ"] and c["amp"]:
            add("M:circular-unequal-primers")
    ctx.classes.update(mcls)
    for need in ("M:asserted", "M:amplicons", "M:amplicons/lin/bare", "M:amplicons/lin/flank", "M:amplicons/circ/bare",
                 "M:amplicons/circ/flank", "M:several-amplicons", "M:reverse-direction", "M:amplicon-with-mismatches",
                 "M:circular-unequal-primers"):
        ctx.expect_vacuity("model class " + need, mcls.get(need, 0))
    # R ---------------------------------------------------------------------------------------
    res = ctx.path("res.ndjson")
    ctx.harness(["replay", "C11", "--cases", cases, "--out", res, "--opt", "obipcr=" + obipcr,
                 "--opt", "cmdevery=%d" % (1 if thorough else 2)], timeout=3000)
    summ = ctx.add_results(res)
    vac = []
    if not summ.get("aborted_after_failures"):
        for need in ("sim/lin/bare", "sim/lin/flank", "sim/circ/bare", "sim/circ/flank", "sim-amplicons/lin/bare",
                     "sim-amplicons/circ/bare", "sim-reverse-direction", "sim-none", "slice-recycled/lin/bare",
                     "slice-recycled/circ/bare", "slice-after-longer", "slice-after-shorter", "cmd/lin/bare", "cmd/circ/bare"):
            vac.append(("replay class " + need, ctx.classes.get(need, 0)))
    # T ---------------------------------------------------------------------------------------
    trace = ctx.path("trace.ndjson")
    ctx.harness(["record", "C11", "--out", trace, "--n", 600 if thorough else 40,
                 "--opt", "big=%d" % (24 if thorough else 2), "--opt", "frag=%d" % (16 if thorough else 2),
                 "--opt", "cmd=%d" % (40 if thorough else 4), "--opt", "obipcr=" + obipcr], timeout=1500)
    events, rejects = validate_events(ctx, trace, 3000 if thorough else 600)
    tcls = {}
    for ev in events:
        def add(k):
            tcls[k] = tcls.get(k, 0) + 1
        add("T:" + ev["src"])
        for part in ev["cls"].split("/"):
            add("T:" + part)
        if ev["out"]:
            add("T:amplicons")
            add("T:amplicons/" + ev["src"])
            if ev["circ"] == 1:
                add("T:amplicons/circular")
            if any(a["dir"] == "reverse" for a in ev["out"]):
                add("T:reverse-direction")
            if any(a["fe"] > 0 or a["re"] > 0 for a in ev["out"]):
                add("T:amplicon-with-mismatches")
            if "fragmented" in ev["cls"].split("/") and ev["frag"] == 1:
                add("T:amplicons/fragmented-template")
        if len(ev["t"]) >= 4000:
            add("T:template>=4000")
    for need in ("T:sim", "T:slice", "T:cmd", "T:cmdfrag", "T:amplicons", "T:amplicons/sim", "T:amplicons/slice", "T:amplicons/cmd",
                 "T:amplicons/cmdfrag", "T:amplicons/circular", "T:reverse-direction", "T:amplicon-with-mismatches",
                 "T:amplicons/fragmented-template", "T:template>=4000", "T:revcomp", "T:circular", "T:flank",
                 "T:planted-forward", "T:planted-reverse", "T:below-threshold"):
        vac.append(("trace class " + need, tcls.get(need, 0)))
    ctx.classes.update(tcls)
    if not ctx.violations and not ctx.known_hits:
        for name, n in vac:
            ctx.expect_vacuity(name, n)
    for ev in events:
        if ev["out"] and len(ev["t"]) >= 300 and len(ctx.samples) < 6:
            ctx.samples.append({"trace_event": {k: (ev[k] if k not in ("t",) else "(%d bases)" % len(ev["t"])) for k in ev
                                                if k != "out"}, "reported": show(ev["out"])})
            break
    ctx.assumptions += [
        "primer sites lie inside a linear template; on a circular template they start inside it and may run through the origin",
        "a pair of sites that touch or overlap yields no amplicon (the segment between them would be empty); on a circle the product (site, segment, site) may not overlap itself",
        "not asserted: a circular template shorter than a primer; a circular template on which the requested flanks make the segment longer than one turn",
        "length bounds apply to the segment between the primers; a bound of 0 means no bound",
        "--fragmented: compared as sets (an amplicon inside the overlap of two fragments is reported by both); not run together with flanks (-D) or -c, which the fragmentation does not account for",
        "template alphabet a,c,g,t (+ n in recorded scenarios: matches no primer symbol, its own complement)",
    ]
    ctx.extra["exhaustive"] = True
    return ctx.finish(rule="R: one comparison per (exported case, way of running it: alone / in a batch x3 orders / binary); T: one TLC verdict per logged template run")
